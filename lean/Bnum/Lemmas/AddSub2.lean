/-
  Bnum.Lemmas.AddSub2 — second layer of lemmas for C01 (add / sub / neg / abs family):
  wrap helpers, constants (`zero`, `one`, `allOnes`, `iMin`, `iMax`, `fromDigit`), `bnot`,
  `isNegative`, and the signed loops `II.subLoop_spec`, `II.negLoop_spec`.
-/
import Bnum.Lemmas.AddSub

namespace Bnum

/-! ### wrap helpers -/

/-- the universal way to identify a wrapped value: `z` differs from `u < m` by a multiple of `m` -/
theorem wrapU_eq_of {m u : Nat} {z k : Int} (hu : u < m) (h : z = u + k * m) : wrapU m z = u := by
  unfold wrapU
  rw [h, Int.add_mul_emod_self_right, Int.emod_eq_of_lt (by omega) (by omega)]
  simp

theorem wrapU_cast {m : Nat} (hm : 0 < m) (z : Int) : ((wrapU m z : Nat) : Int) = z % (m : Int) := by
  unfold wrapU
  have h1 := Int.emod_nonneg z (show (m : Int) ≠ 0 by omega)
  omega

theorem wrapU_spec {m : Nat} (hm : 0 < m) (z : Int) : ∃ k : Int, z = wrapU m z + k * m := by
  refine ⟨z / m, ?_⟩
  rw [wrapU_cast hm]
  have := Int.emod_add_mul_ediv z m
  linarith [Int.mul_comm (m : Int) (z / m)]

theorem wrapU_add_mul {m : Nat} (z k : Int) : wrapU m (z + k * m) = wrapU m z := by
  unfold wrapU; rw [Int.add_mul_emod_self_right]

theorem wrapS_add_mul {m : Nat} (z k : Int) : wrapS m (z + k * m) = wrapS m z := by
  unfold wrapS; rw [wrapU_add_mul]

theorem wrapS_of_rep_sub {m : Nat} {z : Int} (hm : 0 < m) (h : repS m (z - m)) :
    wrapS m z = z - m := by
  have := wrapS_add_mul (m := m) z (-1)
  rw [← this, show z + -1 * (m : Int) = z - m by ring]
  exact wrapS_of_rep hm h

theorem wrapS_of_rep_add {m : Nat} {z : Int} (hm : 0 < m) (h : repS m (z + m)) :
    wrapS m z = z + m := by
  have := wrapS_add_mul (m := m) z 1
  rw [← this, show z + 1 * (m : Int) = z + m by ring]
  exact wrapS_of_rep hm h

theorem wrapU_wrapU_add {m : Nat} (hm : 0 < m) (z y : Int) :
    wrapU m ((wrapU m z : Int) + y) = wrapU m (z + y) := by
  obtain ⟨k, hk⟩ := wrapU_spec hm z
  conv_rhs => rw [hk, show (wrapU m z : Int) + k * m + y = ((wrapU m z : Int) + y) + k * m by ring,
    wrapU_add_mul]

theorem wrapS_spec {m : Nat} (hm : 0 < m) (z : Int) : ∃ k : Int, z = wrapS m z + k * m := by
  obtain ⟨k, hk⟩ := wrapU_spec hm z
  unfold wrapS toInt
  split
  · exact ⟨k, hk⟩
  · exact ⟨k + 1, by linarith⟩

theorem wrapS_wrapS_add {m : Nat} (hm : 0 < m) (z y : Int) :
    wrapS m (wrapS m z + y) = wrapS m (z + y) := by
  obtain ⟨k, hk⟩ := wrapS_spec hm z
  conv_rhs => rw [hk, show wrapS m z + k * m + y = (wrapS m z + y) + k * m by ring,
    wrapS_add_mul]

theorem wrapS_repS {m : Nat} (hm : 0 < m) (he : m = 2 * (m / 2)) (z : Int) : repS m (wrapS m z) :=
  toInt_repS he (wrapU_lt hm z)

/-! ### `S` versus `U` -/

theorem S_eq {w n : Nat} {x : List Nat} (hx : WF w n x) : S w x = toInt (M w n) (U w x) := by
  unfold S; rw [hx.1]

theorem S_of_nonneg {w n : Nat} {x : List Nat} (hx : WF w n x) (h : 0 ≤ S w x) :
    S w x = U w x := by
  have hu := U_lt hx
  rw [S_eq hx] at *; unfold toInt at *; split_ifs at h ⊢ <;> omega

theorem S_of_neg {w n : Nat} {x : List Nat} (hx : WF w n x) (h : S w x < 0) :
    S w x = (U w x : Int) - M w n := by
  have hu := U_lt hx
  rw [S_eq hx] at *; unfold toInt at *; split_ifs at h ⊢ <;> omega

theorem S_spec {w n : Nat} {x : List Nat} (hx : WF w n x) :
    ∃ k : Int, S w x = U w x + k * M w n := by
  rw [S_eq hx]; unfold toInt; split
  · exact ⟨0, by ring⟩
  · exact ⟨-1, by ring⟩

/-- a result whose pattern is congruent to `z` has signed value `wrapS z` -/
theorem S_eq_wrapS {w n : Nat} {r : List Nat} (hr : WF w n r) {z k : Int}
    (h : z = U w r + k * M w n) : S w r = wrapS (M w n) z := by
  rw [S_eq hr]; unfold wrapS; rw [wrapU_eq_of (U_lt hr) h]

theorem U_eq_wrapU {w n : Nat} {r : List Nat} (hr : WF w n r) {z k : Int}
    (h : z = U w r + k * M w n) : U w r = wrapU (M w n) z :=
  (wrapU_eq_of (U_lt hr) h).symm

/-! ### constants -/

theorem WF_replicate {w d : Nat} (n : Nat) (hd : d < B w) : WF w n (List.replicate n d) := by
  refine ⟨by simp, ?_⟩
  intro x hx
  rw [List.eq_of_mem_replicate hx]; exact hd

theorem WF_zero (w n : Nat) : WF w n (zero n) := WF_replicate n (B_pos w)
theorem U_zero (w n : Nat) : U w (zero n) = 0 := U_replicate_zero w n
theorem S_zero (w n : Nat) : S w (zero n) = 0 := by
  rw [S_eq (WF_zero w n), U_zero]; have := M_pos w n; simp [toInt, this]

theorem WF_fromDigit {w n d : Nat} (hn : 1 ≤ n) (hd : d < B w) : WF w n (fromDigit n d) := by
  obtain ⟨k, rfl⟩ := Nat.exists_eq_add_of_le hn
  rw [Nat.add_comm]; exact WF_cons.mpr ⟨hd, WF_replicate k (B_pos w)⟩
theorem U_fromDigit {w n : Nat} (d : Nat) (hn : 1 ≤ n) : U w (fromDigit n d) = d := by
  obtain ⟨k, rfl⟩ := Nat.exists_eq_add_of_le hn
  rw [Nat.add_comm]; simp [fromDigit, U_replicate_zero]

theorem WF_one {w n : Nat} (hw : 1 ≤ w) (hn : 1 ≤ n) : WF w n (one n) :=
  WF_fromDigit hn (by have := B_ge_two hw; omega)
theorem U_one {w n : Nat} (hn : 1 ≤ n) : U w (one n) = 1 := U_fromDigit 1 hn
theorem M_ge_four {w n : Nat} (hw : 2 ≤ w) (hn : 1 ≤ n) : 4 ≤ M w n := by
  obtain ⟨k, rfl⟩ := Nat.exists_eq_add_of_le hn
  rw [Nat.add_comm, M_succ]
  have h1 := B_half_ge_two hw
  have h2 := M_pos w k
  have : B w * 1 ≤ B w * M w k := Nat.mul_le_mul_left _ h2
  omega
theorem S_one {w n : Nat} (hw : 2 ≤ w) (hn : 1 ≤ n) : S w (one n) = 1 := by
  rw [S_eq (WF_one (by omega) hn), U_one hn]
  have := M_ge_four hw hn
  rw [toInt_of_lt (by omega)]; rfl

theorem U_replicate_max (w n : Nat) : U w (List.replicate n (B w - 1)) = M w n - 1 := by
  induction n with
  | zero => simp [M]
  | succ n ih =>
    rw [List.replicate_succ, U_cons, ih, M_succ]
    have hB := B_pos w; have hM := M_pos w n
    generalize B w = b at *; generalize M w n = m at *
    obtain ⟨m', rfl⟩ : ∃ m', m = m' + 1 := ⟨m - 1, by omega⟩
    rw [Nat.mul_add]; simp only [Nat.add_sub_cancel, Nat.mul_one]; omega

theorem WF_allOnes (w n : Nat) : WF w n (allOnes w n) :=
  WF_replicate n (by have := B_pos w; omega)
theorem U_allOnes (w n : Nat) : U w (allOnes w n) = M w n - 1 := U_replicate_max w n

theorem WF_bnot {w n : Nat} {x : List Nat} (hx : WF w n x) : WF w n (bnot w x) := by
  refine ⟨by simp [bnot, hx.1], ?_⟩
  intro d hd
  simp only [bnot, List.mem_map] at hd
  obtain ⟨e, _, rfl⟩ := hd
  unfold Prim.not; have := B_pos w; omega

theorem U_bnot {w n : Nat} {x : List Nat} (hx : WF w n x) :
    U w (bnot w x) = M w n - 1 - U w x := by
  induction x generalizing n with
  | nil => have := hx.1; simp at this; subst this; simp [bnot, M]
  | cons d ds ih =>
    cases n with
    | zero => exact absurd hx.1 (by simp)
    | succ n =>
      rw [WF_cons] at hx
      have h := ih hx.2
      have hu := U_lt hx.2
      simp only [bnot, List.map_cons, U_cons] at h ⊢
      rw [h, M_succ]; unfold Prim.not
      have hd := hx.1
      generalize B w = b at *; generalize M w n = m at *; generalize U w ds = u at *
      obtain ⟨t, rfl⟩ : ∃ t, m = u + 1 + t := ⟨m - u - 1, by omega⟩
      have : u + 1 + t - 1 - u = t := by omega
      rw [this]; ring_nf; omega

theorem M_half_succ {w : Nat} (hw : 1 ≤ w) (k : Nat) : M w (k + 1) / 2 = B w ^ k * (B w / 2) := by
  rw [M_eq_pow, Nat.pow_succ]
  have := B_even hw
  generalize B w / 2 = h at *
  rw [this, show (2 * h) ^ k * (2 * h) = 2 * ((2 * h) ^ k * h) by ring]
  exact Nat.mul_div_cancel_left _ (by decide)

theorem WF_iMin {w n : Nat} (hw : 1 ≤ w) (hn : 1 ≤ n) : WF w n (iMin w n) := by
  obtain ⟨k, rfl⟩ := Nat.exists_eq_add_of_le hn
  rw [Nat.add_comm]
  have := B_even hw
  refine ⟨by simp [iMin], ?_⟩
  intro d hd
  simp only [iMin, List.mem_append, List.mem_singleton] at hd
  rcases hd with hd | rfl
  · rw [List.eq_of_mem_replicate hd]; exact B_pos w
  · have := B_pos w; omega

theorem U_iMin {w n : Nat} (hw : 1 ≤ w) (hn : 1 ≤ n) : U w (iMin w n) = M w n / 2 := by
  obtain ⟨k, rfl⟩ := Nat.exists_eq_add_of_le hn
  rw [Nat.add_comm, M_half_succ hw]
  simp [iMin, U_append, U_replicate_zero]

theorem S_iMin {w n : Nat} (hw : 1 ≤ w) (hn : 1 ≤ n) : S w (iMin w n) = -((M w n / 2 : Nat) : Int) := by
  rw [S_eq (WF_iMin hw hn), U_iMin hw hn]
  have := M_even hw hn
  rw [toInt_of_ge (by omega)]; omega

theorem WF_iMax {w n : Nat} (hw : 1 ≤ w) (hn : 1 ≤ n) : WF w n (iMax w n) := by
  obtain ⟨k, rfl⟩ := Nat.exists_eq_add_of_le hn
  rw [Nat.add_comm]
  have := B_even hw
  have := B_pos w
  refine ⟨by simp [iMax], ?_⟩
  intro d hd
  simp only [iMax, List.mem_append, List.mem_singleton] at hd
  rcases hd with hd | rfl
  · rw [List.eq_of_mem_replicate hd]; omega
  · omega

theorem U_iMax {w n : Nat} (hw : 1 ≤ w) (hn : 1 ≤ n) : U w (iMax w n) = M w n / 2 - 1 := by
  obtain ⟨k, rfl⟩ := Nat.exists_eq_add_of_le hn
  rw [Nat.add_comm, M_half_succ hw]
  simp only [iMax, U_append, U_replicate_max, List.length_replicate, U_cons, U_nil, Nat.mul_zero,
    Nat.add_zero]
  have h1 := M_pos w k
  rw [M_eq_pow] at *
  have h2 := B_even hw
  have h3 := B_pos w
  generalize B w / 2 = h at *
  generalize B w ^ k = p at *
  obtain ⟨h', rfl⟩ : ∃ h', h = h' + 1 := ⟨h - 1, by omega⟩
  simp only [Nat.add_sub_cancel]; rw [Nat.mul_add]; omega

theorem S_iMax {w n : Nat} (hw : 1 ≤ w) (hn : 1 ≤ n) :
    S w (iMax w n) = ((M w n / 2 : Nat) : Int) - 1 := by
  rw [S_eq (WF_iMax hw hn), U_iMax hw hn]
  have := M_even hw hn
  have := M_pos w n
  rw [toInt_of_lt (by omega)]; omega

/-! ### sign test -/

theorem topDigit_cons_cons (d e : Nat) (ds : List Nat) : topDigit (d :: e :: ds) = topDigit (e :: ds) := by
  simp [topDigit, List.getLastD]

theorem isNegative_iff {w : Nat} (hw : 1 ≤ w) : ∀ (n : Nat) (x : List Nat), WF w (n + 1) x →
    (isNegative w x = true ↔ S w x < 0) := by
  intro n
  induction n with
  | zero =>
    intro x hx
    match x, hx with
    | [d], hx =>
      rw [WF_cons] at hx
      rw [S_singleton]
      have := hx.1
      have ht : topDigit [d] = d := rfl
      unfold isNegative Prim.isNeg
      rw [ht, decide_eq_true_iff]
      unfold toInt; split_ifs <;> omega
    | [], hx => exact absurd hx.1 (by simp)
    | _ :: _ :: _, hx => exact absurd hx.1 (by simp)
  | succ n ih =>
    intro x hx
    match x, hx with
    | d :: e :: ds, hx =>
      rw [WF_cons] at hx
      have h := ih (e :: ds) hx.2
      have hs := S_cons hw (show 1 ≤ n + 1 by omega) hx.1 hx.2
      unfold isNegative at *
      rw [topDigit_cons_cons, h, hs]
      have hd := hx.1
      have hB := B_pos w
      generalize S w (e :: ds) = s at *
      generalize B w = b at *
      constructor
      · intro hneg
        have : (b : Int) * s ≤ b * (-1) := Int.mul_le_mul_of_nonneg_left (by omega) (by omega)
        omega
      · intro hneg
        by_contra hc
        have : (b : Int) * 0 ≤ b * s := Int.mul_le_mul_of_nonneg_left (by omega) (by omega)
        omega
    | [], hx => exact absurd hx.1 (by simp)
    | [_], hx => exact absurd hx.1 (by simp)

theorem isNegative_iff' {w n : Nat} {x : List Nat} (hw : 1 ≤ w) (hn : 1 ≤ n) (hx : WF w n x) :
    (isNegative w x = true ↔ S w x < 0) := by
  obtain ⟨k, rfl⟩ := Nat.exists_eq_add_of_le hn
  rw [Nat.add_comm] at hx
  exact isNegative_iff hw k x hx

theorem isNegative_false_iff {w n : Nat} {x : List Nat} (hw : 1 ≤ w) (hn : 1 ≤ n) (hx : WF w n x) :
    (isNegative w x = false ↔ 0 ≤ S w x) := by
  have := isNegative_iff' hw hn hx
  cases h : isNegative w x <;> simp [h] at this ⊢ <;> omega

/-! ### signed subtraction loop -/
namespace II

/-- the digits produced by the signed loop are those of the unsigned loop -/
theorem subLoop_fst {w : Nat} (hw : 2 ≤ w) : ∀ (n : Nat) (a b : List Nat) (c : Bool),
    WF w (n + 1) a → WF w (n + 1) b → (subLoop w a b c).1 = (UI.subLoop w a b c).1 := by
  intro n
  induction n with
  | zero =>
    intro a b c ha hb
    match a, b, ha, hb with
    | [d], [e], ha, hb =>
      rw [WF_cons] at ha hb
      simp only [subLoop, UI.subLoop, Digit.borrowingSubSigned_eq hw c ha.1 hb.1,
        Digit.borrowingSub_eq c ha.1 hb.1]
    | [], _, ha, _ => exact absurd ha.1 (by simp)
    | [_], [], _, hb => exact absurd hb.1 (by simp)
    | _ :: _ :: _, _, ha, _ => exact absurd ha.1 (by simp)
    | [_], _ :: _ :: _, _, hb => exact absurd hb.1 (by simp)
  | succ n ih =>
    intro a b c ha hb
    match a, b, ha, hb with
    | d :: a2 :: as, e :: b2 :: bs, ha, hb =>
      rw [WF_cons] at ha hb
      simp only [subLoop, UI.subLoop]
      rw [ih (a2 :: as) (b2 :: bs) _ ha.2 hb.2]
      simp only [UI.subLoop]
    | [], _, ha, _ => exact absurd ha.1 (by simp)
    | [_], _, ha, _ => exact absurd ha.1 (by simp)
    | _ :: _ :: _, [], _, hb => exact absurd hb.1 (by simp)
    | _ :: _ :: _, [_], _, hb => exact absurd hb.1 (by simp)

theorem subLoop_flag {w : Nat} (hw : 2 ≤ w) : ∀ (n : Nat) (a b : List Nat) (c : Bool),
    WF w (n + 1) a → WF w (n + 1) b →
    (subLoop w a b c).2 = decide (¬ repS (M w (n + 1)) (S w a - S w b - c.toNat)) := by
  intro n
  induction n with
  | zero =>
    intro a b c ha hb
    match a, b, ha, hb with
    | [d], [e], ha, hb =>
      rw [WF_cons] at ha hb
      simp only [subLoop, Digit.borrowingSubSigned_eq hw c ha.1 hb.1, S_singleton]
      have : M w (0 + 1) = B w := by simp [M, B]
      rw [this]
    | [], _, ha, _ => exact absurd ha.1 (by simp)
    | [_], [], _, hb => exact absurd hb.1 (by simp)
    | _ :: _ :: _, _, ha, _ => exact absurd ha.1 (by simp)
    | [_], _ :: _ :: _, _, hb => exact absurd hb.1 (by simp)
  | succ n ih =>
    intro a b c ha hb
    match a, b, ha, hb with
    | d :: a2 :: as, e :: b2 :: bs, ha, hb =>
      rw [WF_cons] at ha hb
      simp only [subLoop]
      obtain ⟨h1, h2⟩ := Digit.borrowingSub_spec c ha.1 hb.1
      rw [ih (a2 :: as) (b2 :: bs) (Digit.borrowingSub w d e c).2 ha.2 hb.2,
        S_cons (by omega) (by omega) ha.1 ha.2, S_cons (by omega) (by omega) hb.1 hb.2,
        M_succ w (n+1)]
      congr 1
      have hm := M_even (show 1 ≤ w by omega) (show 1 ≤ n + 1 by omega)
      rw [← repS_mul h2 hm]
      apply propext
      have : ((Digit.borrowingSub w d e c).1 : Int) + (B w : Int) *
            (S w (a2 :: as) - S w (b2 :: bs) - ((Digit.borrowingSub w d e c).2.toNat : Int))
          = (d : Int) + B w * S w (a2 :: as) - (e + B w * S w (b2 :: bs)) - (c.toNat : Int) := by
        have : ((Digit.borrowingSub w d e c).1 : Int) + e + c.toNat
            = d + (B w : Int) * ((Digit.borrowingSub w d e c).2.toNat : Int) := by
          exact_mod_cast h1
        linear_combination this
      rw [this]
    | [], _, ha, _ => exact absurd ha.1 (by simp)
    | [_], _, ha, _ => exact absurd ha.1 (by simp)
    | _ :: _ :: _, [], _, hb => exact absurd hb.1 (by simp)
    | _ :: _ :: _, [_], _, hb => exact absurd hb.1 (by simp)

/-- twin of `II.addLoop_spec` -/
theorem subLoop_spec {w : Nat} (hw : 2 ≤ w) (n : Nat) (a b : List Nat) (c : Bool)
    (ha : WF w (n + 1) a) (hb : WF w (n + 1) b) :
    WF w (n + 1) (subLoop w a b c).1 ∧
    (U w (subLoop w a b c).1 : Int) = ((U w a : Int) - U w b - c.toNat) % (M w (n + 1) : Int) ∧
    (subLoop w a b c).2 = decide (¬ repS (M w (n + 1)) (S w a - S w b - c.toNat)) := by
  refine ⟨?_, ?_, subLoop_flag hw n a b c ha hb⟩
  · rw [subLoop_fst hw n a b c ha hb]; exact (UI.subLoop_spec (n + 1) a b c ha hb).1
  · rw [subLoop_fst hw n a b c ha hb]
    obtain ⟨h1, h2⟩ := UI.subLoop_spec (n + 1) a b c ha hb
    have hlt := U_lt h1
    have e : (U w a : Int) - U w b - c.toNat
        = U w (UI.subLoop w a b c).1 + (-((UI.subLoop w a b c).2.toNat : Int)) * M w (n + 1) := by
      have : ((U w (UI.subLoop w a b c).1 : Int) + U w b + c.toNat
          = U w a + (M w (n + 1) : Int) * ((UI.subLoop w a b c).2.toNat : Int)) := by
        exact_mod_cast h2
      linear_combination (-1 : Int) * this
    rw [e, Int.add_mul_emod_self_right, Int.emod_eq_of_lt (by omega) (by omega)]

/-! ### signed negation loop -/

theorem toInt_not_add_one {w d : Nat} (hw : 2 ≤ w) (hd : d < B w) :
    toInt (B w) (Prim.not w d) + toInt (B w) 1 = - toInt (B w) d := by
  have hb := B_even (show 1 ≤ w by omega)
  have hh := B_half_ge_two hw
  unfold Prim.not
  generalize B w / 2 = h at *; generalize B w = b at *
  subst hb; unfold toInt; split_ifs <;> omega

theorem negLoop_spec {w : Nat} (hw : 2 ≤ w) : ∀ (n : Nat) (a : List Nat), WF w (n + 1) a →
    WF w (n + 1) (negLoop w a).1 ∧
    U w (negLoop w a).1 = (M w (n + 1) - U w a) % M w (n + 1) ∧
    (negLoop w a).2 = decide (¬ repS (M w (n + 1)) (- S w a)) := by
  intro n
  induction n with
  | zero =>
    intro a ha
    match a, ha with
    | [d], ha =>
      rw [WF_cons] at ha
      have hM : M w (0 + 1) = B w := by simp [M, B]
      have hd := ha.1
      simp only [negLoop, Prim.iOverflowingAdd, S_singleton, U_cons, U_nil, hM]
      refine ⟨WF_cons.mpr ⟨Nat.mod_lt _ (B_pos w), WF_nil w⟩, ?_, ?_⟩
      · have : Prim.not w d + 1 = B w - d := by unfold Prim.not; omega
        simp [this]
      · congr 1; rw [toInt_not_add_one hw hd]
    | [], ha => exact absurd ha.1 (by simp)
    | _ :: _ :: _, ha => exact absurd ha.1 (by simp)
  | succ n ih =>
    intro a ha
    match a, ha with
    | d :: e :: ds, ha =>
      rw [WF_cons] at ha
      obtain ⟨h3, h4, h5⟩ := ih (e :: ds) ha.2
      have hd := ha.1
      have hB := B_pos w
      have hs := S_cons (show 1 ≤ w by omega) (show 1 ≤ n + 1 by omega) ha.1 ha.2
      have hm := M_even (show 1 ≤ w by omega) (show 1 ≤ n + 1 by omega)
      have hMp := M_pos w (n + 1)
      have hu := U_lt ha.2
      by_cases h0 : d = 0
      · subst h0
        have e1 : B w - 1 - 0 + 1 = B w := by omega
        simp only [negLoop, Prim.uOverflowingAdd, Prim.not, e1, Nat.mod_self, Nat.le_refl,
          decide_true, Bool.not_true, Bool.false_eq_true, if_false]
        refine ⟨WF_cons.mpr ⟨hB, h3⟩, ?_, ?_⟩
        · have hU : U w (0 :: e :: ds) = B w * U w (e :: ds) := by rw [U_cons]; omega
          rw [U_cons, h4, hU, M_succ w (n + 1), Nat.zero_add, ← Nat.mul_sub]
          have := add_mul_mod_mul (s := 0) (y := M w (n + 1) - U w (e :: ds)) hB hMp
          simpa using this.symm
        · rw [h5, hs, M_succ w (n + 1)]
          congr 1
          apply propext
          rw [← repS_mul hB hm]
          have : -(((0 : Nat) : Int) + (B w : Int) * S w (e :: ds))
              = ((0 : Nat) : Int) + (B w : Int) * (- S w (e :: ds)) := by push_cast; ring
          rw [this]
      · have e1 : B w - 1 - d + 1 = B w - d := by omega
        have e2 : (B w - d) % B w = B w - d := Nat.mod_eq_of_lt (by omega)
        have e3 : ¬ B w ≤ B w - d := by omega
        simp only [negLoop, Prim.uOverflowingAdd, Prim.not, e1, e2, e3, decide_false,
          Bool.not_false, if_true]
        have hbn := WF_bnot ha.2
        have hun := U_bnot ha.2
        unfold bnot at hbn hun
        refine ⟨WF_cons.mpr ⟨by omega, hbn⟩, ?_, ?_⟩
        · have hU : U w (d :: e :: ds) = d + B w * U w (e :: ds) := by rw [U_cons]
          rw [U_cons, hun, hU, M_succ w (n + 1)]
          generalize U w (e :: ds) = u at *; generalize M w (n + 1) = m at *
          generalize B w = b at *
          obtain ⟨t, rfl⟩ : ∃ t, m = u + 1 + t := ⟨m - u - 1, by omega⟩
          have x1 : u + 1 + t - 1 - u = t := by omega
          have x2 : b * (u + 1 + t) - (d + b * u) = b - d + b * t := by
            rw [Nat.mul_add, Nat.mul_add]; omega
          rw [x1, x2]
          refine (Nat.mod_eq_of_lt ?_).symm
          rw [Nat.mul_add, Nat.mul_add]; omega
        · symm; rw [decide_eq_false_iff_not, not_not, hs, M_succ w (n + 1)]
          have hr := S_repS (show 1 ≤ w by omega) (show 1 ≤ n + 1 by omega) ha.2
          have : -((d : Int) + (B w : Int) * S w (e :: ds))
              = ((B w - d : Nat) : Int) + (B w : Int) * (- S w (e :: ds) - 1) := by
            push_cast [show d ≤ B w by omega]; ring
          rw [this, repS_mul (show B w - d < B w by omega) hm]
          unfold repS at *
          omega
    | [], ha => exact absurd ha.1 (by simp)
    | [_], ha => exact absurd ha.1 (by simp)

end II
end Bnum
