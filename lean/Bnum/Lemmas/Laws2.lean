/-
  Bnum.Lemmas.Laws2 — helpers for Props/Laws2.lean (CROSS-MODULE laws: bit structure <-> arithmetic
  <-> order <-> division <-> gcd/roots <-> pow/log).  Everything here is a corollary of the spec
  theorems in Props/C01–C08, C11, C18 and their Lemmas files; nothing in the model is unfolded
  except one-line wrappers.
-/
import Bnum.Props.Laws
import Bnum.Props.C18
import Bnum.Props.C11

namespace Bnum.Laws2
open Bnum Bnum.Bits

variable {w n : Nat} {a b : List Nat}


/-! ### A. bit counts -/

theorem countOnes_add_countZeros (ha : WF w n a) :
    UI.countOnes w a + UI.countZeros w a = w * n := by
  rw [countOnes_spec ha, countZeros_spec ha]
  have := popcount_le (w * n) (U w a); omega

theorem countOnes_not (ha : WF w n a) : UI.countOnes w (UI.not w a) = UI.countZeros w a := by
  obtain ⟨h1, h2, _⟩ := C06.not_spec ha
  rw [countOnes_spec h1, countZeros_spec ha, h2]
  have := popcount_compl (w * n) (U w a) (U_lt ha)
  unfold M; omega

theorem countZeros_not (ha : WF w n a) : UI.countZeros w (UI.not w a) = UI.countOnes w a := by
  have h1 := countOnes_add_countZeros (Laws.wf_not ha)
  have h2 := countOnes_add_countZeros ha
  have h3 := countOnes_not ha
  omega

theorem bits_eq (ha : WF w n a) : UI.bits w a = w * n - UI.leadingZeros w a := by
  unfold UI.bits; rw [ha.1]

theorem bits_add_leadingZeros (ha : WF w n a) : UI.bits w a + UI.leadingZeros w a = w * n := by
  have := leadingZeros_le ha; rw [bits_eq ha]; omega

theorem U_eq_zero_iff (ha : WF w n a) : U w a = 0 ↔ a = zero n :=
  ⟨fun h => U_injective ha (WF_zero w n) (by rw [h, U_zero]), fun h => by rw [h, U_zero]⟩

theorem leadingZeros_eq_bits_iff (ha : WF w n a) : UI.leadingZeros w a = w * n ↔ a = zero n := by
  rw [leadingZeros_spec ha, ← U_eq_zero_iff ha]
  have h1 : Spec.bitLen (U w a) ≤ w * n := (bitLen_le_iff _ _).mpr (U_lt ha)
  have h2 := bitLen_le_iff (U w a) 0
  simp at h2
  omega

theorem spec_tz_eq_iff (W v : Nat) (hv : v < 2 ^ W) : Spec.trailingZeros W v = W ↔ v = 0 := by
  constructor
  · intro h
    obtain ⟨_, h2, _⟩ := trailingZeros_char W v
    rw [h] at h2
    apply Nat.eq_of_testBit_eq
    intro i
    rw [Nat.zero_testBit]
    by_cases hi : i < W
    · exact h2 i hi
    · exact testBit_eq_false_of_lt hv (by omega)
  · rintro rfl; exact trailingZeros_zero W

theorem trailingZeros_eq_bits_iff (ha : WF w n a) : UI.trailingZeros w a = w * n ↔ a = zero n := by
  rw [trailingZeros_spec ha, ← U_eq_zero_iff ha]
  exact spec_tz_eq_iff _ _ (U_lt ha)



theorem spec_tz_unique {W v t : Nat} (ht : t ≤ W) (h1 : ∀ i, i < t → v.testBit i = false)
    (h2 : t < W → v.testBit t = true) : Spec.trailingZeros W v = t := by
  obtain ⟨c1, c2, c3⟩ := trailingZeros_char W v
  rcases Nat.lt_trichotomy (Spec.trailingZeros W v) t with h | h | h
  · have := c3 (by omega); rw [h1 _ h] at this; cases this
  · exact h
  · have := c2 t h; rw [h2 (by omega)] at this; cases this

theorem spec_lz_unique {W v l : Nat} (hv : v < 2 ^ W) (hl : l ≤ W)
    (h1 : ∀ i, W - l ≤ i → i < W → v.testBit i = false)
    (h2 : l < W → v.testBit (W - 1 - l) = true) : W - Spec.bitLen v = l := by
  have hb : Spec.bitLen v ≤ W - l := by
    rw [bitLen_le_iff]
    apply Nat.lt_pow_two_of_testBit
    intro i hi
    by_cases hi2 : i < W
    · exact h1 i hi hi2
    · exact testBit_eq_false_of_lt hv (by omega)
  by_cases hlW : l < W
  · have := Nat.ge_two_pow_of_testBit (h2 hlW)
    have h3 : ¬ Spec.bitLen v ≤ W - 1 - l := by
      rw [bitLen_le_iff]; omega
    omega
  · omega

theorem leadingZeros_reverseBits (hw : 1 ≤ w) (ha : WF w n a) :
    UI.leadingZeros w (UI.reverseBits w a) = UI.trailingZeros w a := by
  obtain ⟨h1, h2⟩ := reverseBits_spec hw ha
  rw [leadingZeros_spec h1, trailingZeros_spec ha]
  obtain ⟨c1, c2, c3⟩ := trailingZeros_char (w * n) (U w a)
  apply spec_lz_unique (U_lt h1) c1
  · intro i hi1 hi2
    rw [h2 i hi2]; exact c2 _ (by omega)
  · intro hl
    rw [h2 _ (by omega)]
    have : w * n - 1 - (w * n - 1 - Spec.trailingZeros (w * n) (U w a))
        = Spec.trailingZeros (w * n) (U w a) := by omega
    rw [this]; exact c3 hl

theorem trailingZeros_reverseBits (hw : 1 ≤ w) (ha : WF w n a) :
    UI.trailingZeros w (UI.reverseBits w a) = UI.leadingZeros w a := by
  have h1 := (reverseBits_spec hw ha).1
  have := leadingZeros_reverseBits hw h1
  rw [reverseBits_invol ha] at this; exact this.symm

theorem popcount_one (b : Nat) (hb : b < 2) : Spec.popcount 1 b = b := by
  simp [Spec.popcount]; omega

theorem popcount_split {W p q v d u : Nat} (hW : W = p + q) (hd : d < 2 ^ p)
    (hv : v = d + 2 ^ p * u) : Spec.popcount W v = Spec.popcount p d + Spec.popcount q u := by
  subst hW hv; exact popcount_add p q d u hd

theorem popcount_reverse : ∀ (W v : Nat), Spec.popcount W (Spec.reverseBits W v) = Spec.popcount W v
  | 0, _ => rfl
  | W + 1, v => by
    have hlt := (spec_reverseBits_aux W (v / 2)).1
    have ih := popcount_reverse W (v / 2)
    have e : Spec.reverseBits (W + 1) v = Spec.reverseBits W (v / 2) + 2 ^ W * (v % 2) := by
      show (v % 2) * 2 ^ W + Spec.reverseBits W (v / 2) = _
      ring
    rw [e, popcount_split (show W + 1 = W + 1 from rfl) hlt rfl, ih,
      popcount_one _ (Nat.mod_lt _ (by decide))]
    simp only [Spec.popcount]; omega

theorem countOnes_reverseBits (hw : 1 ≤ w) (ha : WF w n a) :
    UI.countOnes w (UI.reverseBits w a) = UI.countOnes w a := by
  rw [countOnes_spec (reverseBits_spec hw ha).1, countOnes_spec ha, reverseBits_eq_spec hw ha,
    popcount_reverse]

theorem popcount_swap : ∀ (k v : Nat),
    Spec.popcount (8 * k) (Spec.swapBytesAux k v) = Spec.popcount (8 * k) v
  | 0, _ => rfl
  | k + 1, v => by
    have hlt := (spec_swapBytes_aux k (v / 256)).1
    have ih := popcount_swap k (v / 256)
    have e1 : (256 : Nat) ^ k = 2 ^ (8 * k) := by rw [Nat.pow_mul]
    have e : Spec.swapBytesAux (k + 1) v
        = Spec.swapBytesAux k (v / 256) + 2 ^ (8 * k) * (v % 256) := by
      show (v % 256) * 256 ^ k + Spec.swapBytesAux k (v / 256) = _
      rw [e1]; ring
    rw [e, popcount_split (show 8 * (k + 1) = 8 * k + 8 by ring) hlt rfl, ih,
      popcount_split (v := v) (show 8 * (k + 1) = 8 + 8 * k by ring)
        (Nat.mod_lt v (show 0 < 2 ^ 8 by decide)) (Nat.mod_add_div v (2 ^ 8)).symm]
    exact Nat.add_comm _ _

theorem countOnes_swapBytes {nb : Nat} (hnb : 1 ≤ nb) (ha : WF (8 * nb) n a) :
    UI.countOnes (8 * nb) (UI.swapBytes (8 * nb) a) = UI.countOnes (8 * nb) a := by
  rw [countOnes_spec (swapBytes_spec hnb ha).1, countOnes_spec ha, swapBytes_eq_spec hnb ha]
  unfold Spec.swapBytes
  have : 8 * nb * n / 8 = nb * n := by rw [Nat.mul_assoc, Nat.mul_div_cancel_left _ (by decide)]
  rw [this, Nat.mul_assoc, popcount_swap]

theorem popcount_rotN {W x r : Nat} (hx : x < 2 ^ W) (hr : r ≤ W) :
    Spec.popcount W (Shift.rotN W x r) = Spec.popcount W x := by
  have hQ := Nat.two_pow_pos (W - r)
  have e := Nat.div_add_mod x (2 ^ (W - r))
  have hl := Nat.mod_lt x hQ
  have hh : x / 2 ^ (W - r) < 2 ^ r := by
    apply Nat.div_lt_of_lt_mul; rw [← Nat.pow_add]; rwa [show W - r + r = W by omega]
  have e3 : Shift.rotN W x r = x / 2 ^ (W - r) + 2 ^ r * (x % 2 ^ (W - r)) := by
    conv_lhs => rw [← e, Nat.mul_comm, Shift.rotN_split hr hl]
    ring
  rw [e3, popcount_split (show W = r + (W - r) by omega) hh rfl,
    popcount_split (v := x) (show W = (W - r) + r by omega) hl (Nat.mod_add_div x _).symm]
  exact Nat.add_comm _ _

theorem countOnes_rotateLeft (hw : 1 ≤ w) (hn : 1 ≤ n) (ha : WF w n a) (k : Nat) :
    UI.countOnes w (UI.rotateLeft w a k) = UI.countOnes w a := by
  obtain ⟨h1, h2⟩ := C05.rotl_spec hw hn ha k
  rw [countOnes_spec h1, countOnes_spec ha, h2]
  have hW : 0 < w * n := Nat.mul_pos hw hn
  exact popcount_rotN (U_lt ha) (Nat.le_of_lt (Nat.mod_lt _ hW))

/-! ### B. bit structure vs value -/

theorem le_leadingZeros_iff {k : Nat} (ha : WF w n a) (hk : k ≤ w * n) :
    k ≤ UI.leadingZeros w a ↔ U w a < 2 ^ (w * n - k) := by
  rw [leadingZeros_spec ha, ← bitLen_le_iff]
  have h1 : Spec.bitLen (U w a) ≤ w * n := (bitLen_le_iff _ _).mpr (U_lt ha)
  omega

theorem dvd_iff_testBit (v k : Nat) : 2 ^ k ∣ v ↔ ∀ i, i < k → v.testBit i = false := by
  rw [Nat.dvd_iff_mod_eq_zero]
  constructor
  · intro h i hi
    have := Nat.testBit_mod_two_pow v k i
    rw [h, Nat.zero_testBit] at this
    simpa [hi] using this.symm
  · intro h
    apply Nat.eq_of_testBit_eq
    intro i
    rw [Nat.testBit_mod_two_pow, Nat.zero_testBit]
    by_cases hi : i < k
    · simp [h i hi]
    · simp [hi]

theorem spec_le_tz_iff {W v k : Nat} (hv : v < 2 ^ W) (hv0 : v ≠ 0) :
    k ≤ Spec.trailingZeros W v ↔ 2 ^ k ∣ v := by
  obtain ⟨c1, c2, c3⟩ := trailingZeros_char W v
  have hlt : Spec.trailingZeros W v < W := by
    rcases Nat.lt_or_ge (Spec.trailingZeros W v) W with h | h
    · exact h
    · exact absurd ((spec_tz_eq_iff W v hv).mp (by omega)) hv0
  rw [dvd_iff_testBit]
  constructor
  · intro h i hi; exact c2 i (by omega)
  · intro h
    rcases Nat.lt_or_ge (Spec.trailingZeros W v) k with h' | h'
    · have := c3 hlt; rw [h _ h'] at this; cases this
    · exact h'

theorem le_trailingZeros_iff {k : Nat} (ha : WF w n a) (h0 : a ≠ zero n) :
    k ≤ UI.trailingZeros w a ↔ 2 ^ k ∣ U w a := by
  rw [trailingZeros_spec ha]
  exact spec_le_tz_iff (U_lt ha) (Laws.U_ne_zero_of_ne ha h0)

theorem isPowerOfTwo_iff_countOnes (ha : WF w n a) :
    UI.isPowerOfTwo w a = true ↔ UI.countOnes w a = 1 := by
  rw [isPowerOfTwo_iff ha, countOnes_spec ha, popcount_eq_one _ _ (U_lt ha)]

theorem bits_pos (ha : WF w n a) (h0 : a ≠ zero n) : 1 ≤ UI.bits w a := by
  rw [bits_spec ha]; exact bitLen_pos (Laws.U_ne_zero_of_ne ha h0)

theorem ilog2_eq_bits (ha : WF w n a) (h0 : a ≠ zero n) :
    UI.ilog2 w a = .ok (UI.bits w a - 1) := by
  have := bits_pos ha h0
  unfold UI.ilog2 UI.checkedIlog2 Prim.u32CheckedSub
  rw [if_pos this]; rfl

theorem ilog2_eq_leadingZeros (ha : WF w n a) (h0 : a ≠ zero n) :
    UI.ilog2 w a = .ok (w * n - 1 - UI.leadingZeros w a) := by
  rw [ilog2_eq_bits ha h0, bits_eq ha]; congr 1; omega

theorem ilog2_zero (w n : Nat) : UI.ilog2 w (zero n) = .panic := by
  rw [C08.u_ilog2 (WF_zero w n), U_zero]; rfl

/-- trailing zeros of an exact power of two -/
theorem spec_tz_two_pow {W k : Nat} (hk : k < W) : Spec.trailingZeros W (2 ^ k) = k := by
  apply spec_tz_unique (Nat.le_of_lt hk)
  · intro i hi; rw [Nat.testBit_two_pow]; simp; omega
  · intro _; rw [Nat.testBit_two_pow]; simp

theorem bitLen_two_pow (k : Nat) : Spec.bitLen (2 ^ k) = k + 1 := by
  apply Bits.eq_of_forall_le_iff
  intro j
  rw [bitLen_le_iff]
  constructor
  · intro h; exact (Nat.pow_lt_pow_iff_right (by decide)).mp h
  · intro h; exact Nat.pow_lt_pow_right (by decide) h

theorem two_pow_lt_M {w n k : Nat} (hk : k < w * n) : 2 ^ k < M w n :=
  Nat.pow_lt_pow_right (by decide) hk

theorem powerOfTwo_counts {s k : Nat} (hs : s < 32) {r : List Nat}
    (h : UI.powerOfTwo (2 ^ s) n k = .ok r) :
    k < 2 ^ s * n ∧ WF (2 ^ s) n r ∧ U (2 ^ s) r = 2 ^ k ∧
    UI.trailingZeros (2 ^ s) r = k ∧ UI.countOnes (2 ^ s) r = 1 ∧
    UI.leadingZeros (2 ^ s) r = 2 ^ s * n - 1 - k ∧ UI.isPowerOfTwo (2 ^ s) r = true ∧
    UI.bits (2 ^ s) r = k + 1 := by
  obtain ⟨p1, p2⟩ := powerOfTwo_spec hs n k
  have hk : k < 2 ^ s * n := by
    rcases Nat.lt_or_ge k (2 ^ s * n) with h' | h'
    · exact h'
    · rw [p1 h'] at h; cases h
  obtain ⟨r', e1, e2, e3⟩ := p2 hk
  rw [h] at e1; cases e1
  refine ⟨hk, e2, e3, ?_, ?_, ?_, ?_, ?_⟩
  · rw [trailingZeros_spec e2, e3]; exact spec_tz_two_pow hk
  · rw [countOnes_spec e2, popcount_eq_one _ _ (U_lt e2)]; exact ⟨k, e3⟩
  · rw [leadingZeros_spec e2, e3, bitLen_two_pow]; omega
  · rw [isPowerOfTwo_iff e2]; exact ⟨k, e3⟩
  · rw [bits_spec e2, e3, bitLen_two_pow]

theorem and_bit (u v x y : Nat) (hx : x < 2) (hy : y < 2) :
    (2 * u + x) &&& (2 * v + y) = 2 * (u &&& v) + (x &&& y) := by
  have := @and_two_pow_mul_add 1 x y u v (by simpa using hx) (by simpa using hy)
  simpa using this

/-- Kernighan's trick: clearing the lowest set bit gives `0` exactly for the powers of two -/
theorem and_pred_eq_zero_iff : ∀ (v : Nat), 0 < v → (v &&& (v - 1) = 0 ↔ ∃ k, v = 2 ^ k) := by
  intro v
  induction v using Nat.strong_induction_on with
  | _ v ih =>
    intro hv
    rcases Nat.mod_two_eq_zero_or_one v with h | h
    · -- even
      obtain ⟨u, rfl⟩ : ∃ u, v = 2 * u := ⟨v / 2, by omega⟩
      have hu : 0 < u := by omega
      have e2 : 2 * u - 1 = 2 * (u - 1) + 1 := by omega
      have hand : (2 * u) &&& (2 * u - 1) = 2 * (u &&& (u - 1)) := by
        rw [e2]
        have := and_bit u (u - 1) 0 1 (by decide) (by decide)
        simpa using this
      have := ih u (by omega) hu
      rw [hand]
      constructor
      · intro h0
        obtain ⟨k, hk⟩ := this.mp (by omega)
        exact ⟨k + 1, by rw [Nat.pow_succ]; omega⟩
      · rintro ⟨k, hk⟩
        cases k with
        | zero => simp at hk
        | succ k =>
          rw [Nat.pow_succ] at hk
          have := this.mpr ⟨k, by omega⟩
          omega
    · -- odd
      obtain ⟨u, rfl⟩ : ∃ u, v = 2 * u + 1 := ⟨v / 2, by omega⟩
      have hand : (2 * u + 1) &&& (2 * u + 1 - 1) = 2 * u := by
        have := and_bit u u 1 0 (by decide) (by decide)
        simpa using this
      rw [hand]
      constructor
      · intro h0; exact ⟨0, by simp; omega⟩
      · rintro ⟨k, hk⟩
        cases k with
        | zero => simp at hk; omega
        | succ k => rw [Nat.pow_succ] at hk; omega

theorem U_sub_one (hw : 1 ≤ w) (hn : 1 ≤ n) (ha : WF w n a) (h0 : a ≠ zero n) :
    WF w n (UI.wrappingSub w a (one n)) ∧ U w (UI.wrappingSub w a (one n)) = U w a - 1 := by
  obtain ⟨h1, h2⟩ := C01.u_wrapping_sub ha (WF_one hw hn)
  refine ⟨h1, ?_⟩
  have hne := Laws.U_ne_zero_of_ne ha h0
  have hlt := U_lt ha
  rw [U_one hn] at h2
  have : repU (M w n) ((U w a : Int) - ((1 : Nat) : Int)) := by unfold repU; omega
  have := wrapU_of_rep this
  omega

theorem and_sub_one_eq_zero_iff (hw : 1 ≤ w) (hn : 1 ≤ n) (ha : WF w n a) :
    UI.bitand a (UI.wrappingSub w a (one n)) = zero n ↔
      a = zero n ∨ UI.isPowerOfTwo w a = true := by
  by_cases h0 : a = zero n
  · subst h0
    simp only [true_or, iff_true]
    have hs := (C01.u_wrapping_sub (WF_zero w n) (WF_one hw hn)).1
    apply U_injective (Laws.wf_and (WF_zero w n) hs) (WF_zero w n)
    rw [(C06.logic_spec (WF_zero w n) hs).1.2, U_zero]; simp
  · obtain ⟨h1, h2⟩ := U_sub_one hw hn ha h0
    have hne := Laws.U_ne_zero_of_ne ha h0
    rw [← U_eq_zero_iff (Laws.wf_and ha h1), (C06.logic_spec ha h1).1.2, h2,
      and_pred_eq_zero_iff _ (by omega), isPowerOfTwo_iff ha]
    simp [h0]

theorem isNextPow2_lt_double {v p : Nat} (h : IsNextPow2 v p) (hv : 1 ≤ v) : p < 2 * v := by
  obtain ⟨k, hk, _, hmin⟩ := h
  cases k with
  | zero => simp at hk; omega
  | succ k =>
    rw [Nat.pow_succ] at hk
    rcases Nat.lt_or_ge (2 ^ k) v with h' | h'
    · omega
    · have := hmin k h'; omega

theorem checkedNextPowerOfTwo_some {s : Nat} (hs : s < 32) (ha : WF (2 ^ s) n a) {p : List Nat}
    (h : UI.checkedNextPowerOfTwo (2 ^ s) a = .ok (some p)) :
    WF (2 ^ s) n p ∧ UI.isPowerOfTwo (2 ^ s) p = true ∧ U (2 ^ s) a ≤ U (2 ^ s) p ∧
    (1 ≤ U (2 ^ s) a → U (2 ^ s) p < 2 * U (2 ^ s) a) ∧
    (∀ q, WF (2 ^ s) n q → UI.isPowerOfTwo (2 ^ s) q = true → U (2 ^ s) a ≤ U (2 ^ s) q →
      U (2 ^ s) p ≤ U (2 ^ s) q) := by
  rcases checkedNextPowerOfTwo_spec hs ha with ⟨r, e1, e2, e3⟩ | ⟨e1, _⟩
  · rw [h] at e1; cases e1
    refine ⟨e2, (isPowerOfTwo_iff e2).mpr ?_, ?_, isNextPow2_lt_double e3, ?_⟩
    · obtain ⟨k, hk, _⟩ := e3; exact ⟨k, hk⟩
    · obtain ⟨k, _, hk, _⟩ := e3; exact hk
    · intro q hq hqp hle
      obtain ⟨j, hj⟩ := (isPowerOfTwo_iff hq).mp hqp
      obtain ⟨k, hk, _, hmin⟩ := e3
      rw [hk, hj]; exact Nat.pow_le_pow_right (by decide) (hmin j (by rw [← hj]; exact hle))
  · rw [h] at e1; cases e1

theorem checkedNextPowerOfTwo_of_pow2 (h : UI.isPowerOfTwo w a = true) :
    UI.checkedNextPowerOfTwo w a = .ok (some a) := by
  unfold UI.checkedNextPowerOfTwo; rw [if_pos h]

theorem nextPowerOfTwo_of_pow2 (dbg : Bool) (h : UI.isPowerOfTwo w a = true) :
    UI.nextPowerOfTwo dbg w a = .ok a ∧ UI.wrappingNextPowerOfTwo w a = .ok a := by
  unfold UI.nextPowerOfTwo UI.wrappingNextPowerOfTwo
  rw [checkedNextPowerOfTwo_of_pow2 h]
  cases dbg <;> exact ⟨rfl, rfl⟩

theorem nextPowerOfTwo_idem {s : Nat} (hs : s < 32) (dbg : Bool) (ha : WF (2 ^ s) n a)
    {p : List Nat} (h : UI.checkedNextPowerOfTwo (2 ^ s) a = .ok (some p)) :
    UI.checkedNextPowerOfTwo (2 ^ s) p = .ok (some p) ∧ UI.nextPowerOfTwo dbg (2 ^ s) p = .ok p :=
  have hp := (checkedNextPowerOfTwo_some hs ha h).2.1
  ⟨checkedNextPowerOfTwo_of_pow2 hp, (nextPowerOfTwo_of_pow2 dbg hp).1⟩

/-! ### C. order versus arithmetic -/

theorem bool_eq_of_iff {p q : Bool} (h : p = true ↔ q = true) : p = q := by
  cases p <;> cases q <;> simp_all

theorem u_lt_eq_borrow (ha : WF w n a) (hb : WF w n b) :
    CmpImpl.lt UI.cmp a b = (UI.overflowingSub w a b).2 := by
  apply bool_eq_of_iff
  rw [(C07.u_order ha hb).1, (C01.u_overflowing_sub ha hb).2.2]
  have := U_lt ha
  unfold repU; omega

theorem u_ge_iff_checkedSub (ha : WF w n a) (hb : WF w n b) :
    CmpImpl.ge UI.cmp a b = (UI.checkedSub w a b).isSome := by
  apply bool_eq_of_iff
  rw [(C07.u_order ha hb).2.2.2]
  unfold UI.checkedSub tupleToOption
  have h := (C01.u_overflowing_sub ha hb).2.2
  have := U_lt ha
  cases hf : (UI.overflowingSub w a b).2
  · simp
    have : ¬ ((UI.overflowingSub w a b).2 = true) := by rw [hf]; simp
    rw [h] at this; unfold repU at this; omega
  · simp
    have := h.mp hf; unfold repU at this; omega

theorem xor_eq_zero_iff (ha : WF w n a) (hb : WF w n b) : UI.bitxor a b = zero n ↔ a = b := by
  constructor
  · intro h
    apply Laws.eq_of_testBit ha hb
    intro i
    have := Laws.tb_xor ha hb i
    rw [h, Laws.tb_zero] at this
    cases h1 : (U w a).testBit i <;> cases h2 : (U w b).testBit i <;> simp_all
  · rintro rfl; exact AlgLaws.u_xor_self ha

theorem u_absDiff_eq_zero_iff (ha : WF w n a) (hb : WF w n b) :
    UI.absDiff w a b = zero n ↔ a = b := by
  obtain ⟨h1, h2⟩ := C01.u_abs_diff ha hb
  rw [← U_eq_zero_iff h1, h2, (C07.u_eq_iff ha hb).2]; omega

theorem i_absDiff_eq_zero_iff (hw : 1 ≤ w) (hn : 1 ≤ n) (ha : WF w n a) (hb : WF w n b) :
    II.absDiff w a b = zero n ↔ a = b := by
  obtain ⟨h1, h2⟩ := C01.i_abs_diff hw hn ha hb
  rw [← U_eq_zero_iff h1, h2, (C07.i_eq_iff ha hb).2]; omega

theorem u_max_sub_min (ha : WF w n a) (hb : WF w n b) :
    UI.wrappingSub w (CmpImpl.max UI.cmp a b) (CmpImpl.min UI.cmp a b) = UI.absDiff w a b := by
  have hmx := Laws.wf_umax ha hb
  have hmn := Laws.wf_umin ha hb
  obtain ⟨h1, h2⟩ := C01.u_wrapping_sub hmx hmn
  obtain ⟨h3, h4⟩ := C01.u_abs_diff ha hb
  apply U_injective h1 h3
  rw [Laws.U_umax ha hb, Laws.U_umin ha hb] at h2
  have hA := U_lt ha; have hB := U_lt hb
  have hr : repU (M w n) ((max (U w a) (U w b) : Nat) - (min (U w a) (U w b) : Nat) : Int) := by
    unfold repU; omega
  have := wrapU_of_rep hr
  omega

theorem i_isNegative_eq_lt_zero (hw : 1 ≤ w) (hn : 1 ≤ n) (ha : WF w n a) :
    isNegative w a = CmpImpl.lt (II.cmp w) a (zero n) := by
  apply bool_eq_of_iff
  rw [C07.is_negative_iff hw hn ha, (C07.i_order hw hn ha (WF_zero w n)).1, S_zero]

theorem i_isPositive_eq_gt_zero (hw : 1 ≤ w) (hn : 1 ≤ n) (ha : WF w n a) :
    II.isPositive w a = CmpImpl.gt (II.cmp w) a (zero n) := by
  apply bool_eq_of_iff
  rw [C07.is_positive_iff hw hn ha, (C07.i_order hw hn ha (WF_zero w n)).2.2.1, S_zero]

/-- the classic `N xor V` rule: signed `a < b` iff the sign of the wrapped difference differs from
    the overflow flag -/
theorem i_lt_eq_neg_xor_ovf (hw : 2 ≤ w) (hn : 1 ≤ n) (ha : WF w n a) (hb : WF w n b) :
    CmpImpl.lt (II.cmp w) a b =
      (isNegative w (II.overflowingSub w a b).1 != (II.overflowingSub w a b).2) := by
  obtain ⟨h1, h2, h3⟩ := C01.i_overflowing_sub hw hn ha hb
  have hlt := (C07.i_order (by omega) hn ha hb).1
  have hneg := C07.is_negative_iff (by omega) hn h1
  have ra := S_repS (by omega) hn ha
  have rb := S_repS (by omega) hn hb
  have hM := M_even (show 1 ≤ w by omega) hn
  have hp := M_pos w n
  rw [h2] at hneg
  unfold repS at ra rb
  apply bool_eq_of_iff
  rw [hlt]
  rcases wrapS_cases (t := S w a - S w b) hM hp (by omega) (by omega) with
    ⟨c1, c2⟩ | ⟨c1, c2⟩ | ⟨c1, c2⟩
  · have hf : (II.overflowingSub w a b).2 = false := by
      cases hf : (II.overflowingSub w a b).2
      · rfl
      · exact absurd c1 (h3.mp hf)
    rw [c2] at hneg
    rw [hf, Bool.bne_false, hneg]; omega
  · have hf : (II.overflowingSub w a b).2 = true := h3.mpr (by unfold repS; omega)
    rw [c2] at hneg
    have : isNegative w (II.overflowingSub w a b).1 = true := hneg.mpr (by omega)
    rw [hf, this]; simp; omega
  · have hf : (II.overflowingSub w a b).2 = true := h3.mpr (by unfold repS; omega)
    rw [c2] at hneg
    have : isNegative w (II.overflowingSub w a b).1 = false := by
      cases hh : isNegative w (II.overflowingSub w a b).1
      · rfl
      · have := hneg.mp hh; omega
    rw [hf, this]; simp; omega

theorem i_lt_iff_sub_neg (hw : 2 ≤ w) (hn : 1 ≤ n) (ha : WF w n a) (hb : WF w n b)
    (hno : (II.overflowingSub w a b).2 = false) :
    CmpImpl.lt (II.cmp w) a b = isNegative w (II.wrappingSub w a b) := by
  have := i_lt_eq_neg_xor_ovf hw hn ha hb
  rw [hno] at this
  rw [this, AlgLaws.i_overflowing_sub_pattern hw hn ha hb]; simp; rfl

theorem signum_eq_zero_iff (hw : 2 ≤ w) (hn : 1 ≤ n) (ha : WF w n a) :
    II.signum w a = zero n ↔ a = zero n := by
  obtain ⟨h1, h2⟩ := C07.signum_spec hw hn ha
  rw [(C07.i_eq_iff h1 (WF_zero w n)).2, (C07.i_eq_iff ha (WF_zero w n)).2, S_zero, h2]
  split_ifs with c1 c2
  · exact ⟨False.elim, fun h => by omega⟩
  · omega
  · omega

theorem signum_cases (hw : 2 ≤ w) (hn : 1 ≤ n) (ha : WF w n a) :
    II.signum w a = (if isNegative w a then II.negOne w n else if II.isPositive w a then one n
      else zero n) := by
  unfold II.signum
  rw [ha.1]
  by_cases h1 : isNegative w a = true
  · simp [h1]
  · simp only [h1]
    have hz := Cmp.isZero_iff_U (w := w) a
    have hp := C07.is_positive_iff (show 1 ≤ w by omega) hn ha
    have hng := (C07.is_negative_iff (show 1 ≤ w by omega) hn ha).not.mp h1
    have hS := S_of_nonneg ha (by omega)
    by_cases h2 : isZero a = true
    · have : ¬ II.isPositive w a = true := by rw [hp]; have := hz.mp h2; omega
      simp [h2, this]
    · have : II.isPositive w a = true := by
        rw [hp]; have := hz.not.mp h2; omega
      simp [h2, this]

theorem unsignedAbs_eq_absDiff_zero (hw : 2 ≤ w) (hn : 1 ≤ n) (ha : WF w n a) :
    II.unsignedAbs w a = II.absDiff w a (zero n) := by
  obtain ⟨h1, h2⟩ := C01.i_unsigned_abs hw hn ha
  obtain ⟨h3, h4⟩ := C01.i_abs_diff (by omega) hn ha (WF_zero w n)
  apply U_injective h1 h3
  rw [h2, h4, S_zero]; simp

theorem tdiv_two_bounds (s : Int) : s - 1 ≤ 2 * Int.tdiv s 2 ∧ 2 * Int.tdiv s 2 ≤ s + 1 := by
  rcases Int.le_total 0 s with h | h
  · rw [Int.tdiv_eq_ediv_of_nonneg h]; omega
  · have : Int.tdiv s 2 = -((-s) / 2) := by
      rw [← Int.tdiv_eq_ediv_of_nonneg (by omega), Int.neg_tdiv, Int.neg_neg]
    rw [this]; omega

theorem u_midpoint_between (dbg : Bool) (hw : 2 ≤ w) (hn : 1 ≤ n) (ha : WF w n a) (hb : WF w n b) :
    ∃ r, UI.midpoint dbg w a b = .ok r ∧ WF w n r ∧
      CmpImpl.le UI.cmp (CmpImpl.min UI.cmp a b) r = true ∧
      CmpImpl.le UI.cmp r (CmpImpl.max UI.cmp a b) = true := by
  obtain ⟨r, h1, h2, h3⟩ := C01.u_midpoint_spec dbg hw hn ha hb
  refine ⟨r, h1, h2, ?_, ?_⟩
  · rw [Laws.u_le_iff (Laws.wf_umin ha hb) h2, Laws.U_umin ha hb, h3]; omega
  · rw [Laws.u_le_iff h2 (Laws.wf_umax ha hb), Laws.U_umax ha hb, h3]; omega

theorem i_midpoint_between (dbg : Bool) (hw : 2 ≤ w) (hn : 1 ≤ n) (ha : WF w n a) (hb : WF w n b) :
    ∃ r, II.midpoint dbg w a b = .ok r ∧ WF w n r ∧
      CmpImpl.le (II.cmp w) (CmpImpl.min (II.cmp w) a b) r = true ∧
      CmpImpl.le (II.cmp w) r (CmpImpl.max (II.cmp w) a b) = true := by
  have hw1 : 1 ≤ w := by omega
  obtain ⟨r, h1, h2, h3⟩ := C01.i_midpoint_spec dbg hw hn ha hb
  have := tdiv_two_bounds (S w a + S w b)
  refine ⟨r, h1, h2, ?_, ?_⟩
  · rw [Laws.i_le_iff hw1 hn (Laws.wf_imin hw1 hn ha hb) h2, Laws.S_imin hw1 hn ha hb, h3]; omega
  · rw [Laws.i_le_iff hw1 hn h2 (Laws.wf_imax hw1 hn ha hb), Laws.S_imax hw1 hn ha hb, h3]; omega

/-! ### D. division -/

/-- the facts about unsigned division used below, for a non-zero divisor -/
theorem udiv_core (hw : 1 ≤ w) (hn : 1 ≤ n) (ha : WF w n a) (hb : WF w n b) (hb0 : b ≠ zero n) :
    ∃ q r, WF w n q ∧ WF w n r ∧ U w q = U w a / U w b ∧ U w r = U w a % U w b ∧
      UI.div w a b = .ok q ∧ UI.rem w a b = .ok r ∧ UI.divEuclid w a b = .ok q ∧
      UI.remEuclid w a b = .ok r ∧ UI.divFloor w a b = .ok q ∧ UI.divRem w a b = .ok (q, r) := by
  obtain ⟨q, r, wq, wr, uq, ur, hdr, _, _, _, _, _, _, _, _, _, _, _, _, _, hd, hr, hde, hre, hf⟩ :=
    C03.u_forms hw hn ha hb (Laws.U_ne_zero_of_ne hb hb0)
  exact ⟨q, r, wq, wr, uq, ur, hd, hr, hde, hre, hf, hdr⟩

theorem U_pos_of_ne (hb : WF w n b) (hb0 : b ≠ zero n) : 0 < U w b :=
  Nat.pos_of_ne_zero (Laws.U_ne_zero_of_ne hb hb0)

theorem one_ne_zero' (w : Nat) (hn : 1 ≤ n) : one n ≠ zero n := by
  intro h
  have := congrArg (U w) h
  rw [U_one hn, U_zero] at this; cases this

theorem u_rem_lt (hw : 1 ≤ w) (hn : 1 ≤ n) (ha : WF w n a) (hb : WF w n b) (hb0 : b ≠ zero n) :
    ∃ r, UI.rem w a b = .ok r ∧ WF w n r ∧ CmpImpl.lt UI.cmp r b = true := by
  obtain ⟨q, r, wq, wr, uq, ur, hd, hr, _⟩ := udiv_core hw hn ha hb hb0
  refine ⟨r, hr, wr, ?_⟩
  rw [(C07.u_order wr hb).1, ur]; exact Nat.mod_lt _ (U_pos_of_ne hb hb0)

theorem u_div_one (hw : 1 ≤ w) (hn : 1 ≤ n) (ha : WF w n a) :
    UI.div w a (one n) = .ok a ∧ UI.rem w a (one n) = .ok (zero n) := by
  obtain ⟨q, r, wq, wr, uq, ur, hd, hr, _⟩ :=
    udiv_core hw hn ha (WF_one hw hn) (one_ne_zero' w hn)
  rw [U_one hn] at uq ur
  rw [hd, hr, U_injective wq ha (by rw [uq, Nat.div_one]),
    U_injective wr (WF_zero w n) (by rw [ur, U_zero, Nat.mod_one])]
  exact ⟨rfl, rfl⟩

theorem u_div_self (hw : 1 ≤ w) (hn : 1 ≤ n) (ha : WF w n a) (h0 : a ≠ zero n) :
    UI.div w a a = .ok (one n) ∧ UI.rem w a a = .ok (zero n) := by
  obtain ⟨q, r, wq, wr, uq, ur, hd, hr, _⟩ := udiv_core hw hn ha ha h0
  have hp := U_pos_of_ne ha h0
  rw [hd, hr, U_injective wq (WF_one hw hn) (by rw [uq, U_one hn, Nat.div_self hp]),
    U_injective wr (WF_zero w n) (by rw [ur, U_zero, Nat.mod_self])]
  exact ⟨rfl, rfl⟩

theorem u_zero_div (hw : 1 ≤ w) (hn : 1 ≤ n) (hb : WF w n b) (hb0 : b ≠ zero n) :
    UI.div w (zero n) b = .ok (zero n) ∧ UI.rem w (zero n) b = .ok (zero n) := by
  obtain ⟨q, r, wq, wr, uq, ur, hd, hr, _⟩ := udiv_core hw hn (WF_zero w n) hb hb0
  rw [U_zero] at uq ur
  rw [hd, hr, U_injective wq (WF_zero w n) (by rw [uq, U_zero, Nat.zero_div]),
    U_injective wr (WF_zero w n) (by rw [ur, U_zero, Nat.zero_mod])]
  exact ⟨rfl, rfl⟩

theorem u_mul_div_cancel (hw : 1 ≤ w) (hn : 1 ≤ n) (ha : WF w n a) (hb : WF w n b)
    (hb0 : b ≠ zero n) (hno : (UI.overflowingMul w a b).2 = false) :
    UI.div w (UI.wrappingMul w a b) b = .ok a ∧ UI.rem w (UI.wrappingMul w a b) b = .ok (zero n) := by
  obtain ⟨h1, h2, h3⟩ := C02.u_overflowing_mul ha hb
  have hfit : U w a * U w b < M w n := by
    have : ¬ ((UI.overflowingMul w a b).2 = true) := by rw [hno]; simp
    rw [h3] at this
    have h4 : repU (M w n) ((U w a : Int) * (U w b : Int)) := by
      by_contra h; exact this h
    unfold repU at h4; exact_mod_cast h4.2
  obtain ⟨m1, m2⟩ := C02.u_wrapping_mul ha hb
  have hm : U w (UI.wrappingMul w a b) = U w a * U w b := by
    have hr : repU (M w n) ((U w a : Int) * (U w b : Int)) := by
      unfold repU; constructor
      · positivity
      · exact_mod_cast hfit
    have := wrapU_of_rep hr
    rw [← m2] at this; exact_mod_cast this
  obtain ⟨q, r, wq, wr, uq, ur, hd, hr, _⟩ := udiv_core hw hn m1 hb hb0
  have hp := U_pos_of_ne hb hb0
  rw [hm] at uq ur
  rw [hd, hr, U_injective wq ha (by rw [uq, Nat.mul_div_cancel _ hp]),
    U_injective wr (WF_zero w n) (by rw [ur, U_zero, Nat.mul_mod_left])]
  exact ⟨rfl, rfl⟩

theorem u_div_le (hw : 1 ≤ w) (hn : 1 ≤ n) (ha : WF w n a) (hb : WF w n b) (hb0 : b ≠ zero n) :
    ∃ q, UI.div w a b = .ok q ∧ WF w n q ∧ CmpImpl.le UI.cmp q a = true := by
  obtain ⟨q, r, wq, wr, uq, ur, hd, hr, _⟩ := udiv_core hw hn ha hb hb0
  refine ⟨q, hd, wq, ?_⟩
  rw [Laws.u_le_iff wq ha, uq]; exact Nat.div_le_self _ _

theorem u_euclid_eq (hw : 1 ≤ w) (hn : 1 ≤ n) (ha : WF w n a) (hb : WF w n b) :
    UI.divEuclid w a b = UI.div w a b ∧ UI.remEuclid w a b = UI.rem w a b ∧
    UI.divFloor w a b = UI.div w a b := by
  by_cases hb0 : b = zero n
  · have hz : U w b = 0 := by rw [hb0, U_zero]
    obtain ⟨_, _, _, _, _, _, _, _, _, _, _, _, _, _, h1, h2, h3, h4, h5, _⟩ :=
      C03.u_zero_divisor (a := a) hz true
    rw [h1, h2, h3, h4, h5]; exact ⟨rfl, rfl, rfl⟩
  · obtain ⟨q, r, wq, wr, uq, ur, hd, hr, hde, hre, hf, _⟩ := udiv_core hw hn ha hb hb0
    rw [hd, hr, hde, hre, hf]; exact ⟨rfl, rfl, rfl⟩

/-- facts about signed division, for a non-zero divisor and not `MIN / -1` -/
theorem idiv_core (hw : 2 ≤ w) (hn : 1 ≤ n) (ha : WF w n a) (hb : WF w n b) (hb0 : b ≠ zero n)
    (hov : ¬ (a = iMin w n ∧ b = II.negOne w n)) (dbg : Bool) :
    ∃ q r qe re f c, WF w n q ∧ WF w n r ∧ WF w n qe ∧ WF w n re ∧ WF w n f ∧ WF w n c ∧
      S w q = (S w a).tdiv (S w b) ∧ S w r = (S w a).tmod (S w b) ∧
      S w qe = S w a / S w b ∧ S w re = S w a % S w b ∧
      S w f = (S w a).fdiv (S w b) ∧ S w c = Spec.cdiv (S w a) (S w b) ∧
      II.div dbg w a b = .ok q ∧ II.rem dbg w a b = .ok r ∧
      II.divEuclid dbg w a b = .ok qe ∧ II.remEuclid dbg w a b = .ok re ∧
      II.divFloor dbg w a b = .ok f ∧ II.divCeil dbg w a b = .ok c := by
  have hS0 := Laws.S_ne_zero_of_ne hb hb0
  have hov' := Laws.not_min_neg_one (show 1 ≤ w by omega) hn ha hb hov
  obtain ⟨q, r, qe, re, wq, wr, wqe, wre, sq, sr, sqe, sre, _, _, _, _, _, _, _, _, _, _, _, _, _,
      hd, hr, hde, hre⟩ := C03.i_forms hw hn ha hb hS0 hov' dbg
  obtain ⟨f, hf, wf, sf⟩ := C03.i_divFloor_spec hw hn ha hb hS0 hov' dbg
  obtain ⟨c, hc, wc, sc⟩ := C03.i_divCeil_spec hw hn ha hb hS0 hov' dbg
  exact ⟨q, r, qe, re, f, c, wq, wr, wqe, wre, wf, wc, sq, sr, sqe, sre, sf, sc, hd, hr, hde, hre,
    hf, hc⟩

theorem i_remEuclid_nonneg (hw : 2 ≤ w) (hn : 1 ≤ n) (ha : WF w n a) (hb : WF w n b)
    (hb0 : b ≠ zero n) (hov : ¬ (a = iMin w n ∧ b = II.negOne w n)) (dbg : Bool) :
    ∃ r, II.remEuclid dbg w a b = .ok r ∧ WF w n r ∧ isNegative w r = false ∧
      CmpImpl.lt UI.cmp r (II.unsignedAbs w b) = true := by
  obtain ⟨q, r, qe, re, f, c, wq, wr, wqe, wre, wf, wc, sq, sr, sqe, sre, sf, sc, hd, hr, hde, hre,
    hf, hc⟩ := idiv_core hw hn ha hb hb0 hov dbg
  have hS0 := Laws.S_ne_zero_of_ne hb hb0
  have h1 : 0 ≤ S w re := by rw [sre]; exact Int.emod_nonneg _ hS0
  have h2 : S w re < (S w b).natAbs := by rw [sre]; have := Int.emod_lt (S w a) hS0; omega
  refine ⟨re, hre, wre, ?_, ?_⟩
  · cases h : isNegative w re
    · rfl
    · have := (C07.is_negative_iff (by omega) hn wre).mp h; omega
  · obtain ⟨u1, u2⟩ := C01.i_unsigned_abs hw hn hb
    rw [(C07.u_order wre u1).1, u2]
    have := S_of_nonneg wre h1
    omega

theorem cdiv_eq_fdiv (x y : Int) (hy : y ≠ 0) :
    Spec.cdiv x y = x.fdiv y + (if x.tmod y = 0 then 0 else 1) := by
  rw [DivL.cdiv_of_tdiv x y hy, DivL.fdiv_of_tdiv x y hy]
  by_cases h1 : x.tmod y = 0
  · simp [h1]
  · by_cases h2 : (x < 0 ↔ y < 0)
    · simp [h1, h2]
    · simp [h1, h2]

theorem i_floor_ceil (hw : 2 ≤ w) (hn : 1 ≤ n) (ha : WF w n a) (hb : WF w n b)
    (hb0 : b ≠ zero n) (hov : ¬ (a = iMin w n ∧ b = II.negOne w n)) (dbg : Bool) :
    ∃ f c r, II.divFloor dbg w a b = .ok f ∧ II.divCeil dbg w a b = .ok c ∧
      II.rem dbg w a b = .ok r ∧ WF w n f ∧ WF w n c ∧
      CmpImpl.le (II.cmp w) f c = true ∧ (f = c ↔ r = zero n) ∧
      (r ≠ zero n → II.wrappingAdd w f (one n) = c) := by
  obtain ⟨q, r, qe, re, f, c, wq, wr, wqe, wre, wf, wc, sq, sr, sqe, sre, sf, sc, hd, hr, hde, hre,
    hf, hc⟩ := idiv_core hw hn ha hb hb0 hov dbg
  have hS0 := Laws.S_ne_zero_of_ne hb hb0
  have key := cdiv_eq_fdiv (S w a) (S w b) hS0
  rw [← sc, ← sf, ← sr] at key
  have hrz : r = zero n ↔ S w r = 0 := by
    rw [(C07.i_eq_iff wr (WF_zero w n)).2, S_zero]
  refine ⟨f, c, r, hf, hc, hr, wf, wc, ?_, ?_, ?_⟩
  · rw [Laws.i_le_iff (by omega) hn wf wc, key]; split_ifs <;> omega
  · rw [(C07.i_eq_iff wf wc).2, hrz, key]; split_ifs <;> omega
  · intro hne
    have hne' : ¬ S w r = 0 := fun h => hne (hrz.mpr h)
    rw [if_neg hne'] at key
    apply Laws.eq_of_rep' (Laws.rep_add (Laws.rep_S wf) (Laws.rep_one (by omega) hn)) (Laws.rep_S wc)
    rw [key]

theorem u_floor_ceil (hw : 1 ≤ w) (hn : 1 ≤ n) (ha : WF w n a) (hb : WF w n b)
    (hb0 : b ≠ zero n) (dbg : Bool) :
    ∃ f c r, UI.divFloor w a b = .ok f ∧ UI.divCeil dbg w a b = .ok c ∧
      UI.rem w a b = .ok r ∧ WF w n f ∧ WF w n c ∧
      CmpImpl.le UI.cmp f c = true ∧ (f = c ↔ r = zero n) ∧
      (r ≠ zero n → UI.wrappingAdd w f (one n) = c) := by
  obtain ⟨q, r, wq, wr, uq, ur, hd, hr, hde, hre, hf, hdr⟩ := udiv_core hw hn ha hb hb0
  have hz : isZero b = false := (DivL.isZero_false_iff_U b).mpr (Laws.U_ne_zero_of_ne hb hb0)
  by_cases hr0 : r = zero n
  · refine ⟨q, q, r, hf, ?_, hr, wq, wq, (Laws.u_le_iff wq wq).mpr (Nat.le_refl _), by simp [hr0],
      fun h => absurd hr0 h⟩
    unfold UI.divCeil; rw [hdr]; simp only
    have : isZero r = true := by rw [hr0]; exact (Cmp.isZero_iff_U (w := w) _).mpr (U_zero w n)
    rw [this]; rfl
  · obtain ⟨c, hc, wc, uc⟩ := C03.u_divCeil_spec hw hn ha hb (Laws.U_ne_zero_of_ne hb hb0) dbg
    have hS0 : (U w b : Int) ≠ 0 := by have := U_pos_of_ne hb hb0; omega
    have key := cdiv_eq_fdiv (U w a) (U w b) hS0
    have hur : U w r ≠ 0 := Laws.U_ne_zero_of_ne wr hr0
    have h1 : ¬ ((U w a : Int).tmod (U w b) = 0) := by
      rw [← Int.ofNat_tmod, ← ur]; omega
    have h2 : (U w a : Int).fdiv (U w b) = U w q := by
      rw [Int.fdiv_eq_ediv_of_nonneg _ (by omega), uq]; rfl
    rw [if_neg h1, h2] at key
    have hcq : U w c = U w q + 1 := by omega
    refine ⟨q, c, r, hf, hc, hr, wq, wc, (Laws.u_le_iff wq wc).mpr (by omega), ?_, ?_⟩
    · constructor
      · intro h; rw [h] at hcq; omega
      · intro h; exact absurd h hr0
    · intro _
      apply Laws.eq_of_rep' (Laws.rep_add (Laws.rep_U wq) (Laws.rep_one hw hn)) (Laws.rep_U wc)
      rw [hcq]; push_cast; rfl


theorem u_nextMultiple_props (hw : 1 ≤ w) (hn : 1 ≤ n) (ha : WF w n a) (hb : WF w n b)
    (hb0 : b ≠ zero n) (dbg : Bool) {m : List Nat}
    (h : UI.checkedNextMultipleOf dbg w a b = .ok (some m)) :
    WF w n m ∧ UI.rem w m b = .ok (zero n) ∧ CmpImpl.le UI.cmp a m = true ∧
      U w m < U w a + U w b ∧ UI.nextMultipleOf dbg w a b = .ok m := by
  have hU0 := Laws.U_ne_zero_of_ne hb hb0
  obtain ⟨o, h1, h2, h3⟩ := C03.u_checkedNextMultipleOf_spec hw hn ha hb hU0 dbg
  rw [h] at h1; cases h1
  obtain ⟨wm, um⟩ := h3 m rfl
  have hb0' : (U w b : Int) ≠ 0 := by omega
  obtain ⟨_, _, hdvd, hpos, _⟩ := C03.cdiv_nextMultiple_meaning (U w a) (U w b) hb0'
  have hp : (0 : Int) < U w b := by have := U_pos_of_ne hb hb0; omega
  obtain ⟨hge, hlt⟩ := hpos hp
  rw [← um] at hdvd hge hlt
  have hdvd' : U w b ∣ U w m := by exact_mod_cast hdvd
  obtain ⟨q, r, wq, wr, uq, ur, hd, hr, _⟩ := udiv_core hw hn wm hb hb0
  refine ⟨wm, ?_, ?_, by omega, ?_⟩
  · rw [hr, U_injective wr (WF_zero w n) (by rw [ur, U_zero]; exact Nat.mod_eq_zero_of_dvd hdvd')]
  · rw [Laws.u_le_iff ha wm]; omega
  · have hrep : Spec.nextMultiple (U w a) (U w b) < M w n := by
      rw [← um]; exact_mod_cast U_lt wm
    obtain ⟨r', e1, e2, e3⟩ := C03.u_nextMultipleOf_spec hw hn ha hb hU0 hrep dbg
    rw [e1, U_injective e2 wm (by rw [← um] at e3; exact_mod_cast e3)]

theorem u_rem_pow2_eq_and {s k : Nat} (hs : s < 32) (hn : 1 ≤ n) (ha : WF (2 ^ s) n a)
    (hk : k < 2 ^ s * n) :
    ∃ p, UI.powerOfTwo (2 ^ s) n k = .ok p ∧
      UI.rem (2 ^ s) a p = .ok (UI.bitand a (UI.wrappingSub (2 ^ s) p (one n))) := by
  have hw : 1 ≤ 2 ^ s := Nat.two_pow_pos _
  obtain ⟨p, hp, wp, up⟩ := (C06.power_of_two_spec hs n k).2 hk
  have hp0 : p ≠ zero n := by
    intro h; rw [h, U_zero] at up; have := Nat.two_pow_pos k; omega
  obtain ⟨q, r, wq, wr, uq, ur, hd, hr, _⟩ := udiv_core hw hn ha wp hp0
  obtain ⟨s1, s2⟩ := U_sub_one hw hn wp hp0
  refine ⟨p, hp, ?_⟩
  rw [hr]; congr 1
  apply U_injective wr (Laws.wf_and ha s1)
  rw [ur, (C06.logic_spec ha s1).1.2, s2, up, Nat.and_two_pow_sub_one_eq_mod]

/-! ### E. gcd / lcm / roots (`NumT.U.*`, the `num_traits`/`num_integer` impls) -/

/-- two successful outcomes with well-formed results of equal value are equal -/
theorem ok_eq_of_U {x y : Outcome (List Nat)}
    (hx : ∃ r, x = .ok r ∧ WF w n r ∧ U w r = v) (hy : ∃ r, y = .ok r ∧ WF w n r ∧ U w r = v) :
    x = y := by
  obtain ⟨r, e1, w1, u1⟩ := hx
  obtain ⟨r', e2, w2, u2⟩ := hy
  rw [e1, e2, U_injective w1 w2 (by rw [u1, u2])]

theorem ok_eq_of_U' {x : Outcome (List Nat)} {y : List Nat}
    (hx : ∃ r, x = .ok r ∧ WF w n r ∧ U w r = v) (hy : WF w n y) (hv : U w y = v) :
    x = .ok y := ok_eq_of_U hx ⟨y, rfl, hy, hv⟩

theorem u_gcd_comm (hw : 1 ≤ w) (ha : WF w n a) (hb : WF w n b) (dbg : Bool) :
    NumT.U.gcd dbg w a b = NumT.U.gcd dbg w b a := by
  have h1 := C18.u_gcd_spec hw ha hb dbg
  have h2 := C18.u_gcd_spec hw hb ha dbg
  rw [Nat.gcd_comm] at h2
  exact ok_eq_of_U h1 h2

theorem u_gcd_zero (hw : 1 ≤ w) (ha : WF w n a) (dbg : Bool) :
    NumT.U.gcd dbg w a (zero n) = .ok a ∧ NumT.U.gcd dbg w (zero n) a = .ok a ∧
    NumT.U.gcd dbg w a a = .ok a := by
  refine ⟨ok_eq_of_U' (C18.u_gcd_spec hw ha (WF_zero w n) dbg) ha (by rw [U_zero, Nat.gcd_zero_right]),
    ok_eq_of_U' (C18.u_gcd_spec hw (WF_zero w n) ha dbg) ha (by rw [U_zero, Nat.gcd_zero_left]),
    ok_eq_of_U' (C18.u_gcd_spec hw ha ha dbg) ha (by rw [Nat.gcd_self])⟩

theorem u_gcd_dvd (hw : 1 ≤ w) (hn : 1 ≤ n) (ha : WF w n a) (hb : WF w n b)
    (h0 : ¬ (a = zero n ∧ b = zero n)) (dbg : Bool) :
    ∃ g, NumT.U.gcd dbg w a b = .ok g ∧ WF w n g ∧ g ≠ zero n ∧
      UI.rem w a g = .ok (zero n) ∧ UI.rem w b g = .ok (zero n) ∧
      NumT.U.isMultipleOf w a g = .ok true ∧ NumT.U.isMultipleOf w b g = .ok true := by
  obtain ⟨g, hg, wg, ug⟩ := C18.u_gcd_spec hw ha hb dbg
  have hg0 : U w g ≠ 0 := by
    rw [ug]; intro h
    have h1 := Nat.eq_zero_of_gcd_eq_zero_left h
    have h2 := Nat.eq_zero_of_gcd_eq_zero_right h
    exact h0 ⟨(U_eq_zero_iff ha).mp h1, (U_eq_zero_iff hb).mp h2⟩
  have hgz : g ≠ zero n := fun h => hg0 (by rw [h, U_zero])
  have d1 : U w g ∣ U w a := by rw [ug]; exact Nat.gcd_dvd_left _ _
  have d2 : U w g ∣ U w b := by rw [ug]; exact Nat.gcd_dvd_right _ _
  obtain ⟨_, r1, _, wr1, _, ur1, _, hr1, _⟩ := udiv_core hw hn ha wg hgz
  obtain ⟨_, r2, _, wr2, _, ur2, _, hr2, _⟩ := udiv_core hw hn hb wg hgz
  refine ⟨g, hg, wg, hgz, ?_, ?_, ?_, ?_⟩
  · rw [hr1, U_injective wr1 (WF_zero w n) (by rw [ur1, U_zero]; exact Nat.mod_eq_zero_of_dvd d1)]
  · rw [hr2, U_injective wr2 (WF_zero w n) (by rw [ur2, U_zero]; exact Nat.mod_eq_zero_of_dvd d2)]
  · rw [C18.u_isMultipleOf_spec hw hn ha wg hg0]; simp [d1]
  · rw [C18.u_isMultipleOf_spec hw hn hb wg hg0]; simp [d2]

theorem u_gcd_mul_lcm (hw : 1 ≤ w) (hn : 1 ≤ n) (ha : WF w n a) (hb : WF w n b)
    (hrep : Nat.lcm (U w a) (U w b) < M w n) (dbg : Bool) :
    ∃ g l, NumT.U.gcd dbg w a b = .ok g ∧ NumT.U.lcm dbg w a b = .ok l ∧
      UI.wrappingMul w g l = UI.wrappingMul w a b := by
  obtain ⟨g, hg, wg, ug⟩ := C18.u_gcd_spec hw ha hb dbg
  obtain ⟨l, hl, wl, ul⟩ := C18.u_lcm_spec hw hn ha hb hrep dbg
  refine ⟨g, l, hg, hl, ?_⟩
  apply Laws.eq_of_rep' (Laws.rep_mul (Laws.rep_U wg) (Laws.rep_U wl))
    (Laws.rep_mul (Laws.rep_U ha) (Laws.rep_U hb))
  rw [ug, ul]; exact_mod_cast Nat.gcd_mul_lcm (U w a) (U w b)

theorem isRoot_mono {k x y r r' : Nat} (h : NumT.IsRoot k x r) (h' : NumT.IsRoot k y r')
    (hxy : x ≤ y) : r ≤ r' := by
  by_contra hc
  have := Nat.pow_le_pow_left (show r' + 1 ≤ r by omega) k
  have := h.1; have := h'.2; omega

theorem u_sqrt_mono {s : Nat} (hs : s < 32) (hn : 1 ≤ n) (ha : WF (2 ^ s) n a) (hb : WF (2 ^ s) n b)
    (hab : CmpImpl.le UI.cmp a b = true) (dbg : Bool) :
    ∃ r r', NumT.U.sqrt dbg (2 ^ s) a = .ok r ∧ NumT.U.sqrt dbg (2 ^ s) b = .ok r' ∧
      CmpImpl.le UI.cmp r r' = true := by
  obtain ⟨r, h1, w1, u1⟩ := C18.u_sqrt_spec hs hn ha dbg
  obtain ⟨r', h2, w2, u2⟩ := C18.u_sqrt_spec hs hn hb dbg
  refine ⟨r, r', h1, h2, ?_⟩
  rw [Laws.u_le_iff w1 w2]
  exact isRoot_mono u1 u2 ((Laws.u_le_iff ha hb).mp hab)

theorem U_mul_of_no_overflow (ha : WF w n a) (hb : WF w n b)
    (hno : (UI.overflowingMul w a b).2 = false) :
    WF w n (UI.wrappingMul w a b) ∧ U w (UI.wrappingMul w a b) = U w a * U w b := by
  obtain ⟨h1, h2, h3⟩ := C02.u_overflowing_mul ha hb
  have hfit : U w a * U w b < M w n := by
    have : ¬ ((UI.overflowingMul w a b).2 = true) := by rw [hno]; simp
    rw [h3] at this
    have h4 : repU (M w n) ((U w a : Int) * (U w b : Int)) := by
      by_contra h; exact this h
    unfold repU at h4; exact_mod_cast h4.2
  obtain ⟨m1, m2⟩ := C02.u_wrapping_mul ha hb
  refine ⟨m1, ?_⟩
  have hr : repU (M w n) ((U w a : Int) * (U w b : Int)) := by
    unfold repU; constructor
    · positivity
    · exact_mod_cast hfit
  have := wrapU_of_rep hr
  rw [← m2] at this; exact_mod_cast this

theorem u_sqrt_sq {s : Nat} (hs : s < 32) (hn : 1 ≤ n) (ha : WF (2 ^ s) n a)
    (hno : (UI.overflowingMul (2 ^ s) a a).2 = false) (dbg : Bool) :
    NumT.U.sqrt dbg (2 ^ s) (UI.wrappingMul (2 ^ s) a a) = .ok a := by
  obtain ⟨wm, um⟩ := U_mul_of_no_overflow ha ha hno
  obtain ⟨r, h1, w1, u1⟩ := C18.u_sqrt_spec hs hn wm dbg
  have : NumT.IsRoot 2 (U (2 ^ s) (UI.wrappingMul (2 ^ s) a a)) (U (2 ^ s) a) := by
    rw [um]; unfold NumT.IsRoot
    constructor
    · rw [Nat.pow_two]
    · rw [Nat.pow_two]; exact Nat.mul_lt_mul'' (by omega) (by omega)
  rw [h1, U_injective w1 ha (u1.unique this)]

theorem u_sqrt_sq_le {s : Nat} (hs : s < 32) (hn : 1 ≤ n) (ha : WF (2 ^ s) n a) (dbg : Bool) :
    ∃ r p, NumT.U.sqrt dbg (2 ^ s) a = .ok r ∧ UI.checkedMul (2 ^ s) r r = some p ∧
      CmpImpl.le UI.cmp p a = true := by
  obtain ⟨r, h1, w1, u1⟩ := C18.u_sqrt_spec hs hn ha dbg
  have hle : U (2 ^ s) r * U (2 ^ s) r ≤ U (2 ^ s) a := by
    have := u1.1; rwa [Nat.pow_two] at this
  have hlt := U_lt ha
  obtain ⟨c1, c2⟩ := C02.u_checked_mul w1 w1
  have hrep : repU (M (2 ^ s) n) ((U (2 ^ s) r : Int) * (U (2 ^ s) r : Int)) := by
    unfold repU; constructor
    · positivity
    · have : U (2 ^ s) r * U (2 ^ s) r < M (2 ^ s) n := by omega
      exact_mod_cast this
  cases hc : UI.checkedMul (2 ^ s) r r with
  | none => exact absurd hrep (c1.mp hc)
  | some p =>
    obtain ⟨wp, up⟩ := c2 p hc
    refine ⟨r, p, h1, hc, ?_⟩
    rw [Laws.u_le_iff wp ha]
    have : (U (2 ^ s) p : Int) = (U (2 ^ s) r : Int) * (U (2 ^ s) r : Int) := up
    have : U (2 ^ s) p = U (2 ^ s) r * U (2 ^ s) r := by exact_mod_cast this
    omega

theorem u_nthRoot_small (dbg : Bool) (w : Nat) (x : List Nat) :
    NumT.U.nthRoot dbg w x 1 = .ok x ∧ NumT.U.nthRoot dbg w x 2 = NumT.U.sqrt dbg w x ∧
    NumT.U.nthRoot dbg w x 3 = NumT.U.cbrt dbg w x := ⟨rfl, rfl, rfl⟩

/-! ### F. pow / shift / log links -/

theorem pow_powerOfTwo {s k e : Nat} (hs : s < 32) (hn : 1 ≤ n) (hk : k < 2 ^ s * n)
    (hke : k * e < 2 ^ s * n) (dbg : Bool) :
    ∃ p q, UI.powerOfTwo (2 ^ s) n k = .ok p ∧ UI.powerOfTwo (2 ^ s) n (k * e) = .ok q ∧
      UI.pow (2 ^ s) dbg p e = .ok q ∧ UI.wrappingPow (2 ^ s) p e = q ∧
      UI.checkedPow (2 ^ s) p e = some q := by
  have hw : 1 ≤ 2 ^ s := Nat.two_pow_pos _
  obtain ⟨p, hp, wp, up⟩ := (C06.power_of_two_spec hs n k).2 hk
  obtain ⟨q, hq, wq, uq⟩ := (C06.power_of_two_spec hs n (k * e)).2 hke
  have hval : U (2 ^ s) p ^ e = U (2 ^ s) q := by rw [up, uq, Nat.pow_mul]
  have hlt : U (2 ^ s) p ^ e < M (2 ^ s) n := by rw [hval]; exact U_lt wq
  refine ⟨p, q, hp, hq, ?_, ?_, ?_⟩
  · obtain ⟨h1, h2⟩ := C08.u_pow hw hn wp e dbg
    have hrep : repU (M (2 ^ s) n) ((U (2 ^ s) p : Int) ^ e) := by
      unfold repU; constructor
      · positivity
      · exact_mod_cast hlt
    cases hc : UI.pow (2 ^ s) dbg p e with
    | panic => exact absurd hrep (h1.mp hc).2
    | ok r =>
      obtain ⟨wr, ur, _⟩ := h2 r hc
      congr 1
      apply U_injective wr wq
      have := wrapU_of_rep hrep
      rw [← ur] at this
      have : U (2 ^ s) r = U (2 ^ s) p ^ e := by exact_mod_cast this
      rw [this, hval]
  · obtain ⟨h1, h2⟩ := C08.u_wrapping_pow hw hn wp e
    exact U_injective h1 wq (by rw [h2, Nat.mod_eq_of_lt hlt, hval])
  · obtain ⟨h1, h2⟩ := C08.u_checked_pow hw hn wp e
    cases hc : UI.checkedPow (2 ^ s) p e with
    | none => have := h1.mp hc; omega
    | some r =>
      obtain ⟨wr, ur⟩ := h2 r hc
      rw [U_injective wr wq (by rw [ur, hval])]

theorem ilog2_powerOfTwo {s k : Nat} (hs : s < 32) {p : List Nat}
    (h : UI.powerOfTwo (2 ^ s) n k = .ok p) : UI.ilog2 (2 ^ s) p = .ok k := by
  obtain ⟨hk, wp, up, _, _, _, _, hb⟩ := powerOfTwo_counts hs h
  have hp0 : p ≠ zero n := by
    intro h; rw [h, U_zero] at up; have := Nat.two_pow_pos k; omega
  rw [ilog2_eq_bits wp hp0, hb]; rfl

theorem ilog_pow (hw : 2 ≤ w) (hn : 1 ≤ n) (hW : w * n < 2 ^ 32) (hb : WF w n b)
    (hb2 : CmpImpl.lt UI.cmp (one n) b = true) {e : Nat} {p : List Nat}
    (h : UI.checkedPow w b e = some p) (dbg : Bool) : UI.ilog dbg w p b = .ok e := by
  obtain ⟨_, h2⟩ := C08.u_checked_pow (by omega) hn hb e
  obtain ⟨wp, up⟩ := h2 p h
  have hb2' : 2 ≤ U w b := by
    have := (C07.u_order (WF_one (by omega) hn) hb).1.mp hb2
    rw [U_one hn] at this; omega
  rw [C08.u_ilog hw hn hW wp hb dbg, up]
  have : 1 ≤ U w b ^ e := Nat.one_le_pow _ _ (by omega)
  rw [if_pos ⟨this, hb2'⟩, Nat.log_pow (by omega)]

theorem shl_one_eq_powerOfTwo {s k : Nat} (hs : s < 32) (hn : 1 ≤ n) (hk : k < 2 ^ s * n) :
    UI.powerOfTwo (2 ^ s) n k = .ok (UI.wrappingShl (2 ^ s) (one n) k) := by
  have hw : 1 ≤ 2 ^ s := Nat.two_pow_pos _
  obtain ⟨p, hp, wp, up⟩ := (C06.power_of_two_spec hs n k).2 hk
  obtain ⟨h1, h2⟩ := Laws.wshl_spec hw (WF_one hw hn) hk
  rw [hp]; congr 1
  apply U_injective wp h1
  rw [up, h2, U_one hn, Nat.one_mul, Nat.mod_eq_of_lt (two_pow_lt_M hk)]

theorem digitsAux_length {r : Nat} (hr : 2 ≤ r) : ∀ (f v : Nat), v ≤ f → v ≠ 0 →
    (Spec.Radix.digitsAux r f v).length = Nat.log r v + 1
  | 0, v, h, hv => by omega
  | f + 1, v, h, hv => by
    unfold Spec.Radix.digitsAux
    rw [if_neg hv]
    have hlt : v / r < v := Nat.div_lt_self (by omega) (by omega)
    by_cases hq : v / r = 0
    · have : Spec.Radix.digitsAux r f (v / r) = [] := by
        rw [hq]; cases f <;> simp [Spec.Radix.digitsAux]
      rw [this]
      have hvr : v < r := by
        rcases Nat.div_eq_zero_iff.mp hq with h | h
        · omega
        · exact h
      rw [Nat.log_of_lt hvr]; rfl
    · have ih := digitsAux_length hr f (v / r) (by omega) hq
      have hrv : r ≤ v := by
        by_contra hc
        exact hq (Nat.div_eq_of_lt (by omega))
      rw [List.length_cons, ih, Nat.log_of_one_lt_of_le (by omega) hrv]

theorem canonLE_length {r v : Nat} (hr : 2 ≤ r) (hv : v ≠ 0) :
    (Spec.Radix.canonLE r v).length = Nat.log r v + 1 := by
  unfold Spec.Radix.canonLE Spec.Radix.digitsLE
  rw [if_neg hv]; exact digitsAux_length hr v v (Nat.le_refl _) hv

theorem toStrRadix_length {r : Nat} (hn : 1 ≤ n) (hw8 : 8 ≤ w) (ha : WF w n a) (h0 : a ≠ zero n)
    (hr : 2 ≤ r) (hr36 : r ≤ 36) :
    ∃ str, UI.toStrRadix w a r = .ok str ∧ str.length = Nat.log r (U w a) + 1 := by
  refine ⟨_, C11.u_toStrRadix_spec hn hw8 ha hr hr36, ?_⟩
  rw [List.length_map]; unfold Spec.Radix.canonBE
  rw [List.length_reverse, canonLE_length hr (Laws.U_ne_zero_of_ne ha h0)]

theorem B_gt_ten (hw8 : 8 ≤ w) : 10 < B w := by
  unfold B
  calc 10 < 2 ^ 8 := by decide
    _ ≤ 2 ^ w := Nat.pow_le_pow_right (by decide) hw8

theorem toStr10_length_eq_ilog10 (hn : 1 ≤ n) (hw8 : 8 ≤ w) (hW : w * n < 2 ^ 32) (ha : WF w n a)
    (h0 : a ≠ zero n) (dbg : Bool) :
    ∃ str l, UI.toStrRadix w a 10 = .ok str ∧ UI.ilog10 dbg w a = .ok l ∧ str.length = l + 1 := by
  obtain ⟨str, h1, h2⟩ := toStrRadix_length hn hw8 ha h0 (r := 10) (by decide) (by decide)
  have hpos : 1 ≤ U w a := Nat.pos_of_ne_zero (Laws.U_ne_zero_of_ne ha h0)
  refine ⟨str, Nat.log 10 (U w a), h1, ?_, h2⟩
  rw [C08.u_ilog10 (B_gt_ten hw8) hn hW ha dbg, if_pos hpos]

theorem toStrRadix_length_eq_ilog (hn : 1 ≤ n) (hw8 : 8 ≤ w) (hW : w * n < 2 ^ 32) (ha : WF w n a)
    (h0 : a ≠ zero n) (hb : WF w n b) {r : Nat} (hbr : U w b = r) (hr : 2 ≤ r) (hr36 : r ≤ 36)
    (dbg : Bool) :
    ∃ str l, UI.toStrRadix w a r = .ok str ∧ UI.ilog dbg w a b = .ok l ∧ str.length = l + 1 := by
  obtain ⟨str, h1, h2⟩ := toStrRadix_length hn hw8 ha h0 hr hr36
  have hpos : 1 ≤ U w a := Nat.pos_of_ne_zero (Laws.U_ne_zero_of_ne ha h0)
  refine ⟨str, Nat.log r (U w a), h1, ?_, h2⟩
  rw [C08.u_ilog (by omega) hn hW ha hb dbg, hbr, if_pos ⟨hpos, hr⟩]

/-! ### G. natural-number readings of the wrapping operations; overflow flags versus order -/

theorem U_wadd (ha : WF w n a) (hb : WF w n b) :
    WF w n (UI.wrappingAdd w a b) ∧ U w (UI.wrappingAdd w a b) = (U w a + U w b) % M w n := by
  obtain ⟨h1, h2⟩ := C01.u_wrapping_add ha hb
  refine ⟨h1, ?_⟩
  have : ((U w a : Int) + (U w b : Int)) = ((U w a + U w b : Nat) : Int) := by push_cast; rfl
  rw [this, wrapU_natCast] at h2; exact_mod_cast h2

theorem U_wmul (ha : WF w n a) (hb : WF w n b) :
    WF w n (UI.wrappingMul w a b) ∧ U w (UI.wrappingMul w a b) = (U w a * U w b) % M w n := by
  obtain ⟨h1, h2⟩ := C02.u_wrapping_mul ha hb
  refine ⟨h1, ?_⟩
  have : ((U w a : Int) * (U w b : Int)) = ((U w a * U w b : Nat) : Int) := by push_cast; rfl
  rw [this, wrapU_natCast] at h2; exact_mod_cast h2

theorem U_wsub (ha : WF w n a) (hb : WF w n b) :
    WF w n (UI.wrappingSub w a b) ∧
    U w (UI.wrappingSub w a b) = (if U w b ≤ U w a then U w a - U w b else M w n + U w a - U w b) := by
  obtain ⟨h1, h2⟩ := C01.u_wrapping_sub ha hb
  refine ⟨h1, ?_⟩
  have hA := U_lt ha; have hB := U_lt hb
  split_ifs with h
  · have hr : repU (M w n) ((U w a : Int) - (U w b : Int)) := by unfold repU; omega
    have := wrapU_of_rep hr; omega
  · have e : (U w a : Int) - (U w b : Int) = ((M w n + U w a - U w b : Nat) : Int) + (-1) * (M w n : Int) := by
      omega
    have hr : repU (M w n) ((M w n + U w a - U w b : Nat) : Int) := by unfold repU; omega
    rw [e, wrapU_add_mul] at h2
    have := wrapU_of_rep hr; omega

theorem u_oadd_flag_iff (ha : WF w n a) (hb : WF w n b) :
    (UI.overflowingAdd w a b).2 = true ↔ M w n ≤ U w a + U w b := by
  rw [(C01.u_overflowing_add ha hb).2.2]; unfold repU; omega

theorem u_omul_flag_iff (ha : WF w n a) (hb : WF w n b) :
    (UI.overflowingMul w a b).2 = true ↔ M w n ≤ U w a * U w b := by
  rw [(C02.u_overflowing_mul ha hb).2.2]; unfold repU
  constructor
  · intro h
    by_contra hc
    apply h
    constructor
    · positivity
    · have : U w a * U w b < M w n := by omega
      exact_mod_cast this
  · intro h hc
    have : ((U w a * U w b : Nat) : Int) < M w n := by push_cast; exact hc.2
    omega

/-- carry out of `a + b` ⇔ the wrapped sum is smaller than an operand -/
theorem u_carry_eq_lt (ha : WF w n a) (hb : WF w n b) :
    (UI.overflowingAdd w a b).2 = CmpImpl.lt UI.cmp (UI.wrappingAdd w a b) a := by
  obtain ⟨h1, h2⟩ := U_wadd ha hb
  apply bool_eq_of_iff
  rw [u_oadd_flag_iff ha hb, (C07.u_order h1 ha).1, h2]
  have hA := U_lt ha; have hB := U_lt hb
  by_cases h : M w n ≤ U w a + U w b
  · have : (U w a + U w b) % M w n = U w a + U w b - M w n := by
      rw [Nat.mod_eq_sub_mod h, Nat.mod_eq_of_lt (by omega)]
    rw [this]; omega
  · rw [Nat.mod_eq_of_lt (by omega)]; omega

/-- `checked_add(a, b) = None ⇔ b > !a` (`!a = MAX - a`) -/
theorem u_checkedAdd_none_iff (ha : WF w n a) (hb : WF w n b) :
    UI.checkedAdd w a b = none ↔ CmpImpl.lt UI.cmp (UI.not w a) b = true := by
  obtain ⟨h1, h2, _⟩ := C06.not_spec ha
  rw [(C01.u_checked_add ha hb).1, (C07.u_order h1 hb).1, h2]
  have hA := U_lt ha
  unfold repU; omega

/-- multiplication overflow ⇔ dividing the wrapped product back does not return `a` (`b ≠ 0`) -/
theorem u_mul_overflow_iff_div (hw : 1 ≤ w) (hn : 1 ≤ n) (ha : WF w n a) (hb : WF w n b)
    (hb0 : b ≠ zero n) :
    (UI.overflowingMul w a b).2 = true ↔ UI.div w (UI.wrappingMul w a b) b ≠ .ok a := by
  obtain ⟨m1, m2⟩ := U_wmul ha hb
  obtain ⟨q, r, wq, wr, uq, ur, hd, hr, _⟩ := udiv_core hw hn m1 hb hb0
  have hp := U_pos_of_ne hb hb0
  have hA := U_lt ha
  rw [u_omul_flag_iff ha hb, hd]
  constructor
  · intro h he
    have : q = a := by injection he
    rw [this, m2] at uq
    -- U a = ((Ua*Ub) % M) / Ub  but (Ua*Ub)%M ≤ Ua*Ub - M < Ua*Ub - ... contradiction
    have h1 : (U w a * U w b) % M w n + M w n ≤ U w a * U w b := by
      have := Nat.mod_add_div (U w a * U w b) (M w n)
      have h2 : 1 ≤ U w a * U w b / M w n := (Nat.le_div_iff_mul_le (M_pos w n)).mpr (by omega)
      have h3 : M w n * 1 ≤ M w n * (U w a * U w b / M w n) := Nat.mul_le_mul_left _ h2
      omega
    have h4 : (U w a * U w b) % M w n < U w a * U w b := by have := M_pos w n; omega
    have h5 := Nat.div_lt_of_lt_mul (m := (U w a * U w b) % M w n) (n := U w b) (k := U w a)
      (by rw [Nat.mul_comm (U w b)]; exact h4)
    omega
  · intro h
    by_contra hc
    apply h
    have hlt : U w a * U w b < M w n := by omega
    congr 1
    apply U_injective wq ha
    rw [uq, m2, Nat.mod_eq_of_lt hlt, Nat.mul_div_cancel _ hp]

/-- enough leading zeros ⇒ the product fits; too few ⇒ it overflows -/
theorem u_mul_fits_of_leadingZeros (ha : WF w n a) (hb : WF w n b)
    (h : w * n ≤ UI.leadingZeros w a + UI.leadingZeros w b) :
    (UI.overflowingMul w a b).2 = false := by
  cases hf : (UI.overflowingMul w a b).2 with
  | false => rfl
  | true =>
    exfalso
    have hov := (u_omul_flag_iff ha hb).mp hf
    rw [leadingZeros_spec ha, leadingZeros_spec hb] at h
    have h1 : Spec.bitLen (U w a) ≤ w * n := (bitLen_le_iff _ _).mpr (U_lt ha)
    have h2 : Spec.bitLen (U w b) ≤ w * n := (bitLen_le_iff _ _).mpr (U_lt hb)
    have l1 := lt_two_pow_bitLen (U w a)
    have l2 := lt_two_pow_bitLen (U w b)
    have : U w a * U w b < 2 ^ Spec.bitLen (U w a) * 2 ^ Spec.bitLen (U w b) :=
      Nat.mul_lt_mul'' l1 l2
    rw [← Nat.pow_add] at this
    have : 2 ^ (Spec.bitLen (U w a) + Spec.bitLen (U w b)) ≤ M w n :=
      Nat.pow_le_pow_right (by decide) (by omega)
    omega

theorem u_mul_overflows_of_leadingZeros (ha : WF w n a) (hb : WF w n b)
    (h : UI.leadingZeros w a + UI.leadingZeros w b + 2 ≤ w * n) :
    (UI.overflowingMul w a b).2 = true := by
  rw [u_omul_flag_iff ha hb]
  rw [leadingZeros_spec ha, leadingZeros_spec hb] at h
  have h1 : Spec.bitLen (U w a) ≤ w * n := (bitLen_le_iff _ _).mpr (U_lt ha)
  have h2 : Spec.bitLen (U w b) ≤ w * n := (bitLen_le_iff _ _).mpr (U_lt hb)
  have ha0 : U w a ≠ 0 := by
    intro h0; rw [h0, bitLen_zero] at h; omega
  have hb0 : U w b ≠ 0 := by
    intro h0; rw [h0, bitLen_zero] at h; omega
  have l1 := two_pow_le_of_bitLen ha0
  have l2 := two_pow_le_of_bitLen hb0
  have p1 := bitLen_pos ha0
  have p2 := bitLen_pos hb0
  have : 2 ^ (Spec.bitLen (U w a) - 1) * 2 ^ (Spec.bitLen (U w b) - 1) ≤ U w a * U w b :=
    Nat.mul_le_mul l1 l2
  rw [← Nat.pow_add] at this
  have : M w n ≤ 2 ^ (Spec.bitLen (U w a) - 1 + (Spec.bitLen (U w b) - 1)) :=
    Nat.pow_le_pow_right (by decide) (by omega)
  omega

/-- `min(a, b) + max(a, b) = a + b`, `min(a, b) + abs_diff(a, b) = max(a, b)` -/
theorem u_min_add_max (ha : WF w n a) (hb : WF w n b) :
    UI.wrappingAdd w (CmpImpl.min UI.cmp a b) (CmpImpl.max UI.cmp a b) = UI.wrappingAdd w a b := by
  apply Laws.eq_of_rep' (Laws.rep_add (Laws.rep_U (Laws.wf_umin ha hb)) (Laws.rep_U (Laws.wf_umax ha hb)))
    (Laws.rep_add (Laws.rep_U ha) (Laws.rep_U hb))
  rw [Laws.U_umin ha hb, Laws.U_umax ha hb]; omega

theorem u_min_add_absDiff (ha : WF w n a) (hb : WF w n b) :
    UI.wrappingAdd w (CmpImpl.min UI.cmp a b) (UI.absDiff w a b) = CmpImpl.max UI.cmp a b := by
  obtain ⟨h3, h4⟩ := C01.u_abs_diff ha hb
  apply Laws.eq_of_rep' (Laws.rep_add (Laws.rep_U (Laws.wf_umin ha hb)) (Laws.rep_U h3))
    (Laws.rep_U (Laws.wf_umax ha hb))
  rw [Laws.U_umin ha hb, Laws.U_umax ha hb, h4]; omega

/-- `b ≤ a` ⟹ `abs_diff(a, b) = a - b` and `checked_sub(a, b) = Some(abs_diff(a, b))` -/
theorem u_absDiff_of_le (ha : WF w n a) (hb : WF w n b) (h : CmpImpl.le UI.cmp b a = true) :
    UI.absDiff w a b = UI.wrappingSub w a b ∧ UI.checkedSub w a b = some (UI.absDiff w a b) := by
  have hle := (Laws.u_le_iff hb ha).mp h
  obtain ⟨h3, h4⟩ := C01.u_abs_diff ha hb
  obtain ⟨s1, s2⟩ := U_wsub ha hb
  rw [if_pos hle] at s2
  have e : UI.absDiff w a b = UI.wrappingSub w a b := U_injective h3 s1 (by rw [h4, s2]; omega)
  refine ⟨e, ?_⟩
  obtain ⟨c1, c2⟩ := C01.u_checked_sub ha hb
  cases hc : UI.checkedSub w a b with
  | none => have := c1.mp hc; unfold repU at this; have := U_lt ha; omega
  | some r =>
    obtain ⟨wr, ur⟩ := c2 r hc
    rw [U_injective wr h3 (by rw [h4]; omega)]

/-- `a * 2 = a + a = a << 1` -/
theorem u_mul_two (hw : 2 ≤ w) (hn : 1 ≤ n) (ha : WF w n a) :
    UI.wrappingMul w a (fromDigit n 2) = UI.wrappingAdd w a a ∧
    UI.wrappingShl w a 1 = UI.wrappingAdd w a a := by
  have h2 : WF w n (fromDigit n 2) := WF_fromDigit hn (by
    have := B_half_ge_two hw; have := B_even (show 1 ≤ w by omega); omega)
  have hW : 1 < w * n := by
    calc 1 < 2 * 1 := by decide
      _ ≤ w * n := Nat.mul_le_mul hw hn
  constructor
  · apply Laws.eq_of_rep' (Laws.rep_mul (Laws.rep_U ha) (Laws.rep_U h2))
      (Laws.rep_add (Laws.rep_U ha) (Laws.rep_U ha))
    rw [U_fromDigit 2 hn]; push_cast; ring
  · obtain ⟨s1, s2⟩ := Laws.wshl_spec (show 1 ≤ w by omega) ha hW
    apply Laws.eq_of_rep' (Laws.rep_nat s1 s2) (Laws.rep_add (Laws.rep_U ha) (Laws.rep_U ha))
    push_cast; ring

theorem xor_half (k x : Nat) (hx : x < 2 ^ (k + 1)) :
    x ^^^ 2 ^ k = if x < 2 ^ k then x + 2 ^ k else x - 2 ^ k := by
  have hp := Nat.two_pow_pos k
  have hr := Nat.mod_lt x hp
  have e := Nat.div_add_mod x (2 ^ k)
  have hu : x / 2 ^ k < 2 := by
    apply Nat.div_lt_of_lt_mul; rw [Nat.pow_succ] at hx; omega
  have key := @xor_two_pow_mul_add k (x % 2 ^ k) 0 (x / 2 ^ k) 1 hr hp
  rw [e, Nat.mul_one, Nat.add_zero, Nat.xor_zero] at key
  rw [key]
  generalize x / 2 ^ k = u at *
  generalize x % 2 ^ k = r at *
  generalize 2 ^ k = P at *
  have hcases : u = 0 ∨ u = 1 := by omega
  rcases hcases with h0 | h1
  · subst h0
    have : x < P := by omega
    rw [if_pos this]; simp; omega
  · subst h1
    have : ¬ x < P := by omega
    rw [if_neg this]; simp; omega

theorem M_eq_two_mul_half (hw : 1 ≤ w) (hn : 1 ≤ n) : M w n / 2 = 2 ^ (w * n - 1) ∧
    M w n = 2 ^ (w * n - 1 + 1) := by
  have hW : 1 ≤ w * n := Nat.mul_le_mul hw hn
  have : M w n = 2 ^ (w * n - 1 + 1) := by unfold M; congr 1; omega
  refine ⟨?_, this⟩
  rw [this, Nat.pow_succ]; omega

/-- flipping the sign bit turns the two's-complement value into the biased unsigned value -/
theorem U_xor_iMin (hw : 1 ≤ w) (hn : 1 ≤ n) (ha : WF w n a) :
    WF w n (UI.bitxor a (iMin w n)) ∧
    (U w (UI.bitxor a (iMin w n)) : Int) = S w a + ((M w n / 2 : Nat) : Int) := by
  have hm := WF_iMin hw hn
  obtain ⟨h1, h2⟩ := (C06.logic_spec ha hm).2.2
  refine ⟨h1, ?_⟩
  obtain ⟨e1, e2⟩ := M_eq_two_mul_half hw hn
  have hA := U_lt ha
  rw [h2, U_iMin hw hn, e1, xor_half _ _ (by rw [← e2]; exact hA), S_eq ha]
  have hM := M_even hw hn
  unfold toInt
  rw [← e1]
  split_ifs <;> omega

theorem compare_shift {x y c : Int} {p q : Nat} (h1 : (p : Int) = x + c) (h2 : (q : Int) = y + c) :
    compare x y = compare p q := by
  rcases Int.lt_trichotomy x y with h | h | h
  · rw [Int.compare_eq_lt.mpr h, Nat.compare_eq_lt.mpr (by omega)]
  · rw [Int.compare_eq_eq.mpr h, Nat.compare_eq_eq.mpr (by omega)]
  · rw [Int.compare_eq_gt.mpr h, Nat.compare_eq_gt.mpr (by omega)]

/-- signed comparison = unsigned comparison after flipping the sign bits -/
theorem i_cmp_eq_u_cmp_xor (hw : 1 ≤ w) (hn : 1 ≤ n) (ha : WF w n a) (hb : WF w n b) :
    II.cmp w a b = UI.cmp (UI.bitxor a (iMin w n)) (UI.bitxor b (iMin w n)) := by
  obtain ⟨wa, ua⟩ := U_xor_iMin hw hn ha
  obtain ⟨wb, ub⟩ := U_xor_iMin hw hn hb
  rw [C07.i_cmp_spec hw hn ha hb, C07.u_cmp_spec wa wb]
  exact compare_shift ua ub

/-- … and also after adding the bias `MIN` (wrapping) -/
theorem add_iMin_eq_xor (hw : 1 ≤ w) (hn : 1 ≤ n) (ha : WF w n a) :
    UI.wrappingAdd w a (iMin w n) = UI.bitxor a (iMin w n) := by
  obtain ⟨wa, ua⟩ := U_xor_iMin hw hn ha
  apply Laws.eq_of_rep (Laws.rep_add (Laws.rep_S ha) (Laws.rep_U (WF_iMin hw hn))) (Laws.rep_U wa)
  rw [ua, U_iMin hw hn]

/-- operands of equal sign compare the same way signed and unsigned -/
theorem i_cmp_eq_u_cmp_of_same_sign (hw : 1 ≤ w) (hn : 1 ≤ n) (ha : WF w n a) (hb : WF w n b)
    (hs : isNegative w a = isNegative w b) : II.cmp w a b = UI.cmp a b := by
  rw [C07.i_cmp_spec hw hn ha hb, C07.u_cmp_spec ha hb]
  have na := C07.is_negative_iff hw hn ha
  have nb := C07.is_negative_iff hw hn hb
  cases h : isNegative w a
  · have h' : isNegative w b = false := by rw [← hs, h]
    have sa : ¬ S w a < 0 := by rw [← na, h]; simp
    have sb : ¬ S w b < 0 := by rw [← nb, h']; simp
    exact compare_shift (c := 0) (by rw [S_of_nonneg ha (by omega)]; simp)
      (by rw [S_of_nonneg hb (by omega)]; simp)
  · have h' : isNegative w b = true := by rw [← hs, h]
    have sa : S w a < 0 := na.mp h
    have sb : S w b < 0 := nb.mp h'
    exact compare_shift (c := M w n) (by rw [S_of_neg ha sa]; simp) (by rw [S_of_neg hb sb]; simp)

/-- inclusion–exclusion for bit counts -/
theorem popcount_and_or : ∀ (W x y : Nat),
    Spec.popcount W (x &&& y) + Spec.popcount W (x ||| y) = Spec.popcount W x + Spec.popcount W y
  | 0, _, _ => rfl
  | W + 1, x, y => by
    simp only [Spec.popcount]
    have ih := popcount_and_or W (x / 2) (y / 2)
    have h1 : (x &&& y) / 2 = (x / 2) &&& (y / 2) := by
      have := Nat.and_div_two_pow (a := x) (b := y) (n := 1); simpa using this
    have h2 : (x ||| y) / 2 = (x / 2) ||| (y / 2) := by
      have := Nat.or_div_two_pow (a := x) (b := y) (n := 1); simpa using this
    have h3 : (x &&& y) % 2 + (x ||| y) % 2 = x % 2 + y % 2 := by
      have a1 := Nat.and_mod_two_pow (a := x) (b := y) (n := 1)
      have o1 := Nat.or_mod_two_pow (a := x) (b := y) (n := 1)
      simp only [Nat.pow_one] at a1 o1
      rw [a1, o1]
      rcases Nat.mod_two_eq_zero_or_one x with hx | hx <;>
        rcases Nat.mod_two_eq_zero_or_one y with hy | hy <;> rw [hx, hy] <;> decide
    rw [h1, h2]; omega

theorem countOnes_and_or (ha : WF w n a) (hb : WF w n b) :
    UI.countOnes w (UI.bitand a b) + UI.countOnes w (UI.bitor a b)
      = UI.countOnes w a + UI.countOnes w b := by
  obtain ⟨⟨w1, u1⟩, ⟨w2, u2⟩, _⟩ := C06.logic_spec ha hb
  rw [countOnes_spec w1, countOnes_spec w2, countOnes_spec ha, countOnes_spec hb, u1, u2,
    popcount_and_or]

theorem countOnes_eq_zero_iff (ha : WF w n a) : UI.countOnes w a = 0 ↔ a = zero n := by
  rw [countOnes_spec ha, popcount_eq_zero _ _ (U_lt ha), U_eq_zero_iff ha]

theorem countZeros_eq_zero_iff (ha : WF w n a) : UI.countZeros w a = 0 ↔ a = allOnes w n := by
  have h := countOnes_not ha
  rw [← h, countOnes_eq_zero_iff (Laws.wf_not ha)]
  constructor
  · intro h0
    have := AlgLaws.u_not_not ha
    rw [h0] at this
    rw [← this]
    apply U_injective (Laws.wf_not (WF_zero w n)) (WF_allOnes w n)
    rw [(C06.not_spec (WF_zero w n)).2.1, U_zero, U_allOnes]; omega
  · intro h1
    rw [h1]
    apply U_injective (Laws.wf_not (WF_allOnes w n)) (WF_zero w n)
    rw [(C06.not_spec (WF_allOnes w n)).2.1, U_zero, U_allOnes]; have := M_pos w n; omega

/-- a power of two is `power_of_two(trailing_zeros)` -/
theorem isPowerOfTwo_eq_powerOfTwo_tz {s : Nat} (hs : s < 32) (ha : WF (2 ^ s) n a)
    (h : UI.isPowerOfTwo (2 ^ s) a = true) :
    UI.powerOfTwo (2 ^ s) n (UI.trailingZeros (2 ^ s) a) = .ok a := by
  obtain ⟨k, hk⟩ := (isPowerOfTwo_iff ha).mp h
  have hlt : k < 2 ^ s * n := by
    have := U_lt ha; rw [hk] at this
    exact (Nat.pow_lt_pow_iff_right (by decide)).mp this
  have htz : UI.trailingZeros (2 ^ s) a = k := by
    rw [trailingZeros_spec ha, hk]; exact spec_tz_two_pow hlt
  obtain ⟨p, hp, wp, up⟩ := (C06.power_of_two_spec hs n k).2 hlt
  rw [htz, hp, U_injective wp ha (by rw [up, hk])]

theorem leadingZeros_antitone (ha : WF w n a) (hb : WF w n b)
    (h : CmpImpl.le UI.cmp a b = true) :
    UI.leadingZeros w b ≤ UI.leadingZeros w a ∧ UI.bits w a ≤ UI.bits w b := by
  have hle := (Laws.u_le_iff ha hb).mp h
  have key : Spec.bitLen (U w a) ≤ Spec.bitLen (U w b) := by
    rw [bitLen_le_iff]; have := lt_two_pow_bitLen (U w b); omega
  rw [leadingZeros_spec ha, leadingZeros_spec hb, bits_spec ha, bits_spec hb]
  omega

theorem ilog2_mono (ha : WF w n a) (hb : WF w n b) (h0 : a ≠ zero n)
    (h : CmpImpl.le UI.cmp a b = true) :
    ∃ x y, UI.ilog2 w a = .ok x ∧ UI.ilog2 w b = .ok y ∧ x ≤ y := by
  have hle := (Laws.u_le_iff ha hb).mp h
  have hb0 : b ≠ zero n := by
    intro hb0; rw [hb0, U_zero] at hle
    exact Laws.U_ne_zero_of_ne ha h0 (by omega)
  refine ⟨_, _, ilog2_eq_bits ha h0, ilog2_eq_bits hb hb0, ?_⟩
  have := (leadingZeros_antitone ha hb h).2; omega

/-- more leading zeros ⇒ strictly smaller -/
theorem lt_of_leadingZeros_lt (ha : WF w n a) (hb : WF w n b)
    (h : UI.leadingZeros w b < UI.leadingZeros w a) : CmpImpl.lt UI.cmp a b = true := by
  rw [(C07.u_order ha hb).1]
  by_contra hc
  have := (leadingZeros_antitone hb ha ((Laws.u_le_iff hb ha).mpr (by omega))).1
  omega

theorem and_compl_eq_zero (W u : Nat) (hu : u < 2 ^ W) : u &&& (2 ^ W - 1 - u) = 0 := by
  apply Nat.eq_of_testBit_eq
  intro i
  rw [Nat.testBit_and, testBit_compl hu, Nat.zero_testBit]
  cases u.testBit i <;> simp

/-- `v & -v` isolates the lowest set bit -/
theorem and_neg_eq_two_pow_tz : ∀ (W v : Nat), 0 < v → v < 2 ^ W →
    v &&& (2 ^ W - v) = 2 ^ Spec.trailingZeros W v
  | 0, v, h0, h => by simp at h; omega
  | W + 1, v, h0, h => by
    rw [Nat.pow_succ] at h
    simp only [Spec.trailingZeros]
    rcases Nat.mod_two_eq_zero_or_one v with hv | hv
    · obtain ⟨u, rfl⟩ : ∃ u, v = 2 * u := ⟨v / 2, by omega⟩
      have hu : 0 < u := by omega
      have ih := and_neg_eq_two_pow_tz W u hu (by omega)
      have e : 2 ^ (W + 1) - 2 * u = 2 * (2 ^ W - u) := by rw [Nat.pow_succ]; omega
      have := and_bit u (2 ^ W - u) 0 0 (by decide) (by decide)
      simp only [Nat.add_zero, Nat.and_self] at this
      rw [if_neg (by omega), e, this, ih, show 2 * u / 2 = u by omega, Nat.add_comm, Nat.pow_succ]
      ring
    · obtain ⟨u, rfl⟩ : ∃ u, v = 2 * u + 1 := ⟨v / 2, by omega⟩
      have e : 2 ^ (W + 1) - (2 * u + 1) = 2 * (2 ^ W - 1 - u) + 1 := by rw [Nat.pow_succ]; omega
      have := and_bit u (2 ^ W - 1 - u) 1 1 (by decide) (by decide)
      rw [if_pos hv, e, this, and_compl_eq_zero W u (by omega)]; rfl

theorem U_wneg (hw : 1 ≤ w) (hn : 1 ≤ n) (ha : WF w n a) (h0 : a ≠ zero n) :
    WF w n (UI.wrappingNeg w a) ∧ U w (UI.wrappingNeg w a) = M w n - U w a := by
  obtain ⟨h1, h2⟩ := C01.u_wrapping_neg hw hn ha
  refine ⟨h1, ?_⟩
  have hA := U_lt ha
  have hne := Laws.U_ne_zero_of_ne ha h0
  have e : -(U w a : Int) = ((M w n - U w a : Nat) : Int) + (-1) * (M w n : Int) := by omega
  have hr : repU (M w n) ((M w n - U w a : Nat) : Int) := by unfold repU; omega
  rw [e, wrapU_add_mul] at h2
  have := wrapU_of_rep hr; omega

theorem and_neg_eq_powerOfTwo_tz {s : Nat} (hs : s < 32) (hn : 1 ≤ n) (ha : WF (2 ^ s) n a)
    (h0 : a ≠ zero n) :
    UI.powerOfTwo (2 ^ s) n (UI.trailingZeros (2 ^ s) a)
      = .ok (UI.bitand a (UI.wrappingNeg (2 ^ s) a)) := by
  have hw : 1 ≤ 2 ^ s := Nat.two_pow_pos _
  obtain ⟨n1, n2⟩ := U_wneg hw hn ha h0
  have hne := Laws.U_ne_zero_of_ne ha h0
  have htz : UI.trailingZeros (2 ^ s) a < 2 ^ s * n := by
    have := (trailingZeros_char (2 ^ s * n) (U (2 ^ s) a)).1
    rw [← trailingZeros_spec ha] at this
    rcases Nat.lt_or_ge (UI.trailingZeros (2 ^ s) a) (2 ^ s * n) with h | h
    · exact h
    · exact absurd ((trailingZeros_eq_bits_iff ha).mp (by omega)) h0
  obtain ⟨p, hp, wp, up⟩ := (C06.power_of_two_spec hs n _).2 htz
  rw [hp]; congr 1
  apply U_injective wp (Laws.wf_and ha n1)
  rw [up, (C06.logic_spec ha n1).1.2, n2, trailingZeros_spec ha]
  exact (and_neg_eq_two_pow_tz _ _ (by omega) (U_lt ha)).symm

theorem or_eq_add_of_disjoint {r u y : Nat} (hy : y < 2 ^ r) : (2 ^ r * u) ||| y = 2 ^ r * u + y := by
  have := @or_two_pow_mul_add r 0 y u 0 (Nat.two_pow_pos r) hy
  simpa using this

/-- `rotate_left(a, k) = (a << r) | (a >> (BITS - r))`, `r = k mod BITS` (unbounded shifts, so that
    `r = 0` is covered) -/
theorem rotl_eq_shl_or_shr (hw : 1 ≤ w) (hn : 1 ≤ n) (ha : WF w n a) (k : Nat) :
    UI.rotateLeft w a k = UI.bitor (UI.unboundedShl w a (k % (w * n)))
      (UI.unboundedShr w a (w * n - k % (w * n))) := by
  have hW : 0 < w * n := Nat.mul_pos hw hn
  have hr := Nat.mod_lt k hW
  obtain ⟨r1, r2⟩ := C05.rotl_spec hw hn ha k
  obtain ⟨s1, s2⟩ := C05.u_unbounded_shl (s := k % (w * n)) hw ha
  obtain ⟨t1, t2⟩ := C05.u_unbounded_shr (s := w * n - k % (w * n)) hw ha
  apply U_injective r1 (Laws.wf_or s1 t1)
  rw [r2, (C06.logic_spec s1 t1).2.1.2, s2, t2, if_pos hr]
  generalize k % (w * n) = r at *
  have hA : U w a < 2 ^ (w * n) := U_lt ha
  have hM : M w n = 2 ^ r * 2 ^ (w * n - r) := by
    unfold M; rw [← Nat.pow_add]; congr 1; omega
  have hx : (U w a * 2 ^ r) % M w n = 2 ^ r * (U w a % 2 ^ (w * n - r)) := by
    rw [hM, Nat.mul_comm (U w a), Nat.mul_mod_mul_left]
  have hy : U w a / 2 ^ (w * n - r) < 2 ^ r := by
    apply Nat.div_lt_of_lt_mul; rw [← Nat.pow_add, show w * n - r + r = w * n by omega]; exact hA
  have hy' : (if w * n - r < w * n then U w a / 2 ^ (w * n - r) else 0) = U w a / 2 ^ (w * n - r) := by
    split_ifs with h
    · rfl
    · have : r = 0 := by omega
      subst this
      rw [Nat.sub_zero, Nat.div_eq_of_lt hA]
  rw [hy', hx, or_eq_add_of_disjoint hy]

/-- `2^k = power_of_two(k)` for `k < BITS` -/
theorem pow_two_eq_powerOfTwo {s k : Nat} (hs1 : 1 ≤ s) (hs : s < 32) (hn : 1 ≤ n)
    (hk : k < 2 ^ s * n) :
    UI.powerOfTwo (2 ^ s) n k = .ok (UI.wrappingPow (2 ^ s) (two n) k) := by
  have hw : 1 ≤ 2 ^ s := Nat.two_pow_pos _
  have hw2 : 2 ≤ 2 ^ s := by
    calc 2 = 2 ^ 1 := rfl
      _ ≤ 2 ^ s := Nat.pow_le_pow_right (by decide) hs1
  have h2 : WF (2 ^ s) n (two n) := by
    have := B_half_ge_two hw2
    have := B_even hw
    exact WF_fromDigit hn (by omega)
  obtain ⟨p, hp, wp, up⟩ := (C06.power_of_two_spec hs n k).2 hk
  obtain ⟨q1, q2⟩ := C08.u_wrapping_pow hw hn h2 k
  rw [hp]; congr 1
  apply U_injective wp q1
  rw [up, q2]; unfold two; rw [U_fromDigit 2 hn, Nat.mod_eq_of_lt (two_pow_lt_M hk)]

/-- shifting out only trailing zeros loses nothing: `(a >> k) << k = a` for `k ≤ trailing_zeros(a)` -/
theorem shl_shr_of_le_tz {k : Nat} (hw : 1 ≤ w) (ha : WF w n a) (hk : k < w * n)
    (hz : k ≤ UI.trailingZeros w a) : UI.wrappingShl w (UI.wrappingShr w a k) k = a := by
  obtain ⟨h1, h2⟩ := Laws.wshr_spec hw ha hk
  obtain ⟨h3, h4⟩ := Laws.wshl_spec hw h1 hk
  apply U_injective h3 ha
  have hdvd : 2 ^ k ∣ U w a := by
    by_cases h0 : a = zero n
    · rw [h0, U_zero]; exact Nat.dvd_zero _
    · exact (le_trailingZeros_iff ha h0).mp hz
  rw [h4, h2, Nat.div_mul_cancel hdvd, Nat.mod_eq_of_lt (U_lt ha)]

/-- `a >> trailing_zeros(a)` is odd (`a ≠ 0`) -/
theorem tz_shr_tz (hw : 1 ≤ w) (ha : WF w n a) (h0 : a ≠ zero n) :
    UI.trailingZeros w (UI.wrappingShr w a (UI.trailingZeros w a)) = 0 := by
  have hne := Laws.U_ne_zero_of_ne ha h0
  obtain ⟨c1, c2, c3⟩ := trailingZeros_char (w * n) (U w a)
  have htz : UI.trailingZeros w a < w * n := by
    rw [trailingZeros_spec ha]
    rcases Nat.lt_or_ge (Spec.trailingZeros (w * n) (U w a)) (w * n) with h | h
    · exact h
    · exact absurd ((spec_tz_eq_iff _ _ (U_lt ha)).mp (by omega)) hne
  obtain ⟨h1, h2⟩ := Laws.wshr_spec hw ha htz
  rw [trailingZeros_spec h1, h2]
  apply spec_tz_unique (Nat.zero_le _)
  · intro i hi; omega
  · intro _
    rw [Nat.testBit_div_two_pow, Nat.zero_add, trailingZeros_spec ha]
    exact c3 (by rw [← trailingZeros_spec ha]; exact htz)

/-- without carry, `midpoint(a, b) = (a + b) >> 1` -/
theorem midpoint_eq_add_shr (dbg : Bool) (hw : 2 ≤ w) (hn : 1 ≤ n) (ha : WF w n a) (hb : WF w n b)
    (hno : (UI.overflowingAdd w a b).2 = false) :
    UI.midpoint dbg w a b = .ok (UI.wrappingShr w (UI.wrappingAdd w a b) 1) := by
  obtain ⟨r, h1, h2, h3⟩ := C01.u_midpoint_spec dbg hw hn ha hb
  obtain ⟨s1, s2⟩ := U_wadd ha hb
  have hW : 1 < w * n := by
    calc 1 < 2 * 1 := by decide
      _ ≤ w * n := Nat.mul_le_mul hw hn
  obtain ⟨t1, t2⟩ := Laws.wshr_spec (show 1 ≤ w by omega) s1 hW
  have hfit : ¬ M w n ≤ U w a + U w b := by
    rw [← u_oadd_flag_iff ha hb, hno]; simp
  rw [h1]; congr 1
  apply U_injective h2 t1
  rw [h3, t2, s2, Nat.mod_eq_of_lt (by omega)]; rfl

/-! ### H. signed division -/

theorem one_ne_iMin_pair (hw : 2 ≤ w) (hn : 1 ≤ n) :
    ¬ (a = iMin w n ∧ one n = II.negOne w n) := by
  rintro ⟨_, h⟩
  have := congrArg (S w) h
  rw [S_one hw hn] at this
  have h2 : S w (II.negOne w n) = -1 := Shift.S_allOnes (by omega) hn
  omega

theorem i_div_one (hw : 2 ≤ w) (hn : 1 ≤ n) (ha : WF w n a) (dbg : Bool) :
    II.div dbg w a (one n) = .ok a ∧ II.rem dbg w a (one n) = .ok (zero n) := by
  obtain ⟨q, r, qe, re, f, c, wq, wr, wqe, wre, wf, wc, sq, sr, sqe, sre, sf, sc, hd, hr, _⟩ :=
    idiv_core hw hn ha (WF_one (by omega) hn) (one_ne_zero' w hn) (one_ne_iMin_pair hw hn) dbg
  rw [S_one hw hn] at sq sr
  rw [hd, hr, Cmp.S_injective wq ha (by rw [sq, Int.tdiv_one]),
    Cmp.S_injective wr (WF_zero w n) (by rw [sr, S_zero, Int.tmod_one])]
  exact ⟨rfl, rfl⟩

theorem negOne_ne_zero (hw : 1 ≤ w) (hn : 1 ≤ n) : II.negOne w n ≠ zero n := by
  intro h
  have := congrArg (S w) h
  rw [S_zero, show S w (II.negOne w n) = -1 from Shift.S_allOnes hw hn] at this
  omega

theorem i_div_negOne (hw : 2 ≤ w) (hn : 1 ≤ n) (ha : WF w n a) (hmin : a ≠ iMin w n) (dbg : Bool) :
    II.div dbg w a (II.negOne w n) = .ok (II.wrappingNeg w a) ∧
    II.rem dbg w a (II.negOne w n) = .ok (zero n) := by
  have hw1 : 1 ≤ w := by omega
  obtain ⟨q, r, qe, re, f, c, wq, wr, wqe, wre, wf, wc, sq, sr, sqe, sre, sf, sc, hd, hr, _⟩ :=
    idiv_core hw hn ha (b := II.negOne w n) (WF_allOnes w n) (negOne_ne_zero hw1 hn)
      (fun h => hmin h.1) dbg
  have h1 : S w (II.negOne w n) = -1 := Shift.S_allOnes hw1 hn
  rw [h1] at sq sr
  have hq : q = II.wrappingNeg w a := by
    apply Laws.eq_of_rep' (Laws.rep_S wq) (Laws.rep_ineg hw hn (Laws.rep_S ha))
    rw [sq, Int.tdiv_neg, Int.tdiv_one]
  rw [hd, hr, hq, Cmp.S_injective wr (WF_zero w n) (by rw [sr, S_zero, Int.tmod_neg, Int.tmod_one])]
  exact ⟨rfl, rfl⟩

/-- truncating remainder: smaller than the divisor in magnitude, sign of the dividend -/
theorem i_rem_bounds (hw : 2 ≤ w) (hn : 1 ≤ n) (ha : WF w n a) (hb : WF w n b)
    (hb0 : b ≠ zero n) (hov : ¬ (a = iMin w n ∧ b = II.negOne w n)) (dbg : Bool) :
    ∃ r, II.rem dbg w a b = .ok r ∧ WF w n r ∧
      CmpImpl.lt UI.cmp (II.unsignedAbs w r) (II.unsignedAbs w b) = true ∧
      (isNegative w r = true → isNegative w a = true) ∧
      (II.isPositive w r = true → II.isPositive w a = true) := by
  have hw1 : 1 ≤ w := by omega
  obtain ⟨q, r, qe, re, f, c, wq, wr, wqe, wre, wf, wc, sq, sr, sqe, sre, sf, sc, hd, hr, _⟩ :=
    idiv_core hw hn ha hb hb0 hov dbg
  have hS0 := Laws.S_ne_zero_of_ne hb hb0
  obtain ⟨u1, u2⟩ := C01.i_unsigned_abs hw hn wr
  obtain ⟨v1, v2⟩ := C01.i_unsigned_abs hw hn hb
  refine ⟨r, hr, wr, ?_, ?_, ?_⟩
  · rw [(C07.u_order u1 v1).1, u2, v2, sr]
    rw [Int.natAbs_tmod]
    exact Nat.mod_lt _ (by omega)
  · rw [C07.is_negative_iff hw1 hn wr, C07.is_negative_iff hw1 hn ha, sr]
    intro h
    by_contra hc
    have := Int.tmod_nonneg (S w b) (show 0 ≤ S w a by omega)
    omega
  · rw [C07.is_positive_iff hw1 hn wr, C07.is_positive_iff hw1 hn ha, sr]
    intro h
    by_contra hc
    have := Int.tmod_nonneg (S w b) (show 0 ≤ -S w a by omega)
    rw [Int.neg_tmod] at this
    omega

theorem i_div_self (hw : 2 ≤ w) (hn : 1 ≤ n) (ha : WF w n a) (h0 : a ≠ zero n) (dbg : Bool) :
    II.div dbg w a a = .ok (one n) ∧ II.rem dbg w a a = .ok (zero n) := by
  have hov : ¬ (a = iMin w n ∧ a = II.negOne w n) := by
    rintro ⟨h1, h2⟩
    have e1 := congrArg (S w) h1
    have e2 := congrArg (S w) h2
    rw [S_iMin (by omega) hn] at e1
    rw [show S w (II.negOne w n) = -1 from Shift.S_allOnes (by omega) hn] at e2
    have := M_ge_four hw hn
    omega
  obtain ⟨q, r, qe, re, f, c, wq, wr, wqe, wre, wf, wc, sq, sr, sqe, sre, sf, sc, hd, hr, _⟩ :=
    idiv_core hw hn ha ha h0 hov dbg
  have hS0 := Laws.S_ne_zero_of_ne ha h0
  rw [hd, hr, Cmp.S_injective wq (WF_one (by omega) hn) (by rw [sq, S_one hw hn, Int.tdiv_self hS0]),
    Cmp.S_injective wr (WF_zero w n) (by rw [sr, S_zero, Int.tmod_self])]
  exact ⟨rfl, rfl⟩

theorem zero_ne_iMin (hw : 1 ≤ w) (hn : 1 ≤ n) : zero n ≠ iMin w n := by
  intro h
  have := congrArg (U w) h
  rw [U_zero, U_iMin hw hn] at this
  have := M_even hw hn; have := M_pos w n; omega

theorem i_zero_div (hw : 2 ≤ w) (hn : 1 ≤ n) (hb : WF w n b) (hb0 : b ≠ zero n) (dbg : Bool) :
    II.div dbg w (zero n) b = .ok (zero n) ∧ II.rem dbg w (zero n) b = .ok (zero n) := by
  obtain ⟨q, r, qe, re, f, c, wq, wr, wqe, wre, wf, wc, sq, sr, sqe, sre, sf, sc, hd, hr, _⟩ :=
    idiv_core hw hn (WF_zero w n) hb hb0 (fun h => zero_ne_iMin (by omega) hn h.1) dbg
  rw [S_zero] at sq sr
  rw [hd, hr, Cmp.S_injective wq (WF_zero w n) (by rw [sq, S_zero, Int.zero_tdiv]),
    Cmp.S_injective wr (WF_zero w n) (by rw [sr, S_zero, Int.zero_tmod])]
  exact ⟨rfl, rfl⟩

/-- Euclidean versus truncating division: they agree exactly when the truncating remainder is
    non-negative; otherwise `rem_euclid = rem + |b|` -/
theorem i_euclid_vs_trunc (hw : 2 ≤ w) (hn : 1 ≤ n) (ha : WF w n a) (hb : WF w n b)
    (hb0 : b ≠ zero n) (hov : ¬ (a = iMin w n ∧ b = II.negOne w n)) (dbg : Bool) :
    ∃ q r qe re, II.div dbg w a b = .ok q ∧ II.rem dbg w a b = .ok r ∧
      II.divEuclid dbg w a b = .ok qe ∧ II.remEuclid dbg w a b = .ok re ∧
      (isNegative w r = false → qe = q ∧ re = r) ∧
      (isNegative w r = true → re = UI.wrappingAdd w r (II.unsignedAbs w b)) := by
  have hw1 : 1 ≤ w := by omega
  obtain ⟨q, r, qe, re, f, c, wq, wr, wqe, wre, wf, wc, sq, sr, sqe, sre, sf, sc, hd, hr, hde, hre,
    _⟩ := idiv_core hw hn ha hb hb0 hov dbg
  have hS0 := Laws.S_ne_zero_of_ne hb hb0
  have hneg := C07.is_negative_iff hw1 hn wr
  have e1 : S w a = S w q * S w b + S w r := by
    rw [sq, sr]; exact (Int.tdiv_mul_add_tmod _ _).symm
  have hlt : (S w r).natAbs < (S w b).natAbs := by
    rw [sr, Int.natAbs_tmod]; exact Nat.mod_lt _ (by omega)
  refine ⟨q, r, qe, re, hd, hr, hde, hre, ?_, ?_⟩
  · intro h
    have hr0 : 0 ≤ S w r := by
      by_contra hc
      have := hneg.mpr (by omega); rw [h] at this; cases this
    obtain ⟨u1, u2⟩ := C03.divRem_unique_euclid hS0 e1 hr0 (by omega)
    exact ⟨Cmp.S_injective wqe wq (by rw [sqe, u1]), Cmp.S_injective wre wr (by rw [sre, u2])⟩
  · intro h
    have hr0 : S w r < 0 := hneg.mp h
    obtain ⟨v1, v2⟩ := C01.i_unsigned_abs hw hn hb
    apply Laws.eq_of_rep' (Laws.rep_S wre) (Laws.rep_add (Laws.rep_S wr) (Laws.rep_U v1))
    rw [v2, sre]
    -- a = q*b + r = (q ∓ 1)*b + (r + |b|)
    rcases Int.lt_or_gt_of_ne hS0 with hbn | hbp
    · have e2 : S w a = (S w q + 1) * S w b + (S w r + ((S w b).natAbs : Int)) := by
        rw [e1]; have : ((S w b).natAbs : Int) = -S w b := by omega
        rw [this]; ring
      exact (C03.divRem_unique_euclid hS0 e2 (by omega) (by omega)).2.symm
    · have e2 : S w a = (S w q - 1) * S w b + (S w r + ((S w b).natAbs : Int)) := by
        rw [e1]; have : ((S w b).natAbs : Int) = S w b := by omega
        rw [this]; ring
      exact (C03.divRem_unique_euclid hS0 e2 (by omega) (by omega)).2.symm

/-- for a positive divisor `div_floor = div_euclid` -/
theorem i_floor_eq_euclid_of_pos (hw : 2 ≤ w) (hn : 1 ≤ n) (ha : WF w n a) (hb : WF w n b)
    (hbp : II.isPositive w b = true) (dbg : Bool) :
    II.divFloor dbg w a b = II.divEuclid dbg w a b := by
  have hw1 : 1 ≤ w := by omega
  have hp := (C07.is_positive_iff hw1 hn hb).mp hbp
  have hb0 : b ≠ zero n := by intro h; rw [h, S_zero] at hp; omega
  have hov : ¬ (a = iMin w n ∧ b = II.negOne w n) := by
    rintro ⟨_, h⟩
    rw [h, show S w (II.negOne w n) = -1 from Shift.S_allOnes hw1 hn] at hp; omega
  obtain ⟨q, r, qe, re, f, c, wq, wr, wqe, wre, wf, wc, sq, sr, sqe, sre, sf, sc, hd, hr, hde, hre,
    hf, hc⟩ := idiv_core hw hn ha hb hb0 hov dbg
  rw [hf, hde, Cmp.S_injective wf wqe (by rw [sf, sqe, Int.fdiv_eq_ediv_of_nonneg _ (by omega)])]

/-! ### I. gcd versus bit structure and order -/

theorem u_gcd_tz (hw : 1 ≤ w) (ha : WF w n a) (hb : WF w n b) (ha0 : a ≠ zero n)
    (hb0 : b ≠ zero n) (dbg : Bool) :
    ∃ g, NumT.U.gcd dbg w a b = .ok g ∧
      UI.trailingZeros w g = min (UI.trailingZeros w a) (UI.trailingZeros w b) := by
  obtain ⟨g, hg, wg, ug⟩ := C18.u_gcd_spec hw ha hb dbg
  have hg0 : g ≠ zero n := by
    intro h; rw [h, U_zero] at ug
    exact Laws.U_ne_zero_of_ne ha ha0 (Nat.eq_zero_of_gcd_eq_zero_left ug.symm)
  refine ⟨g, hg, ?_⟩
  have key : ∀ k, k ≤ UI.trailingZeros w g ↔
      k ≤ min (UI.trailingZeros w a) (UI.trailingZeros w b) := by
    intro k
    rw [le_trailingZeros_iff wg hg0, ug, Nat.dvd_gcd_iff, ← le_trailingZeros_iff ha ha0,
      ← le_trailingZeros_iff hb hb0]
    omega
  have h1 := (key (UI.trailingZeros w g)).mp (Nat.le_refl _)
  have h2 := (key (min (UI.trailingZeros w a) (UI.trailingZeros w b))).mpr (Nat.le_refl _)
  omega

theorem u_gcd_le (hw : 1 ≤ w) (ha : WF w n a) (hb : WF w n b) (ha0 : a ≠ zero n) (dbg : Bool) :
    ∃ g, NumT.U.gcd dbg w a b = .ok g ∧ CmpImpl.le UI.cmp g a = true := by
  obtain ⟨g, hg, wg, ug⟩ := C18.u_gcd_spec hw ha hb dbg
  refine ⟨g, hg, ?_⟩
  rw [Laws.u_le_iff wg ha, ug]
  exact Nat.gcd_le_left _ (Nat.pos_of_ne_zero (Laws.U_ne_zero_of_ne ha ha0))

/-- `gcd(a, b) = b ⇔ b ∣ a` (i.e. `a % b = 0`), `b ≠ 0` -/
theorem u_gcd_eq_right_iff (hw : 1 ≤ w) (hn : 1 ≤ n) (ha : WF w n a) (hb : WF w n b)
    (hb0 : b ≠ zero n) (dbg : Bool) :
    NumT.U.gcd dbg w a b = .ok b ↔ UI.rem w a b = .ok (zero n) := by
  obtain ⟨g, hg, wg, ug⟩ := C18.u_gcd_spec hw ha hb dbg
  obtain ⟨q, r, wq, wr, uq, ur, hd, hr, _⟩ := udiv_core hw hn ha hb hb0
  rw [hg, hr]
  constructor
  · intro h
    have : g = b := by injection h
    rw [this] at ug
    congr 1
    apply U_injective wr (WF_zero w n)
    rw [ur, U_zero]
    exact Nat.mod_eq_zero_of_dvd (Nat.gcd_eq_right_iff_dvd.mp ug.symm)
  · intro h
    have : r = zero n := by injection h
    rw [this, U_zero] at ur
    congr 1
    apply U_injective wg hb
    rw [ug]; exact Nat.gcd_eq_right_iff_dvd.mpr (Nat.dvd_of_mod_eq_zero ur.symm)

/-- the Euclid step: `gcd(a, b) = gcd(b, a % b)` -/
theorem u_gcd_rem (hw : 1 ≤ w) (hn : 1 ≤ n) (ha : WF w n a) (hb : WF w n b) (hb0 : b ≠ zero n)
    (dbg : Bool) :
    ∃ r, UI.rem w a b = .ok r ∧ NumT.U.gcd dbg w a b = NumT.U.gcd dbg w b r := by
  obtain ⟨q, r, wq, wr, uq, ur, hd, hr, _⟩ := udiv_core hw hn ha hb hb0
  refine ⟨r, hr, ?_⟩
  have h1 := C18.u_gcd_spec hw ha hb dbg
  have h2 := C18.u_gcd_spec hw hb wr dbg
  rw [ur, Nat.gcd_comm, ← Nat.gcd_rec, Nat.gcd_comm] at h2
  exact ok_eq_of_U h1 h2

/-! ### J. `bit` / `set_bit` versus shifts and logic; logarithms versus each other -/

theorem WF_one' (hw : 1 ≤ w) (hn : 1 ≤ n) : WF w n (one n) := WF_one hw hn

/-- `bit(a, i) = ((a >> i) & 1 ≠ 0)` -/
theorem bit_eq_shr_and_one {s i : Nat} (hs : s < 32) (hn : 1 ≤ n) (ha : WF (2 ^ s) n a)
    (hi : i < 2 ^ s * n) :
    UI.bit (2 ^ s) a i
      = .ok (UI.bitand (UI.wrappingShr (2 ^ s) a i) (one n) != zero n) := by
  have hw : 1 ≤ 2 ^ s := Nat.two_pow_pos _
  obtain ⟨h1, h2⟩ := Laws.wshr_spec hw ha hi
  have h3 := WF_one hw hn (w := 2 ^ s)
  obtain ⟨h4, h5⟩ := (C06.logic_spec h1 h3).1
  rw [C06.bit_spec hs ha i, if_pos hi]
  congr 1
  have e : U (2 ^ s) (UI.bitand (UI.wrappingShr (2 ^ s) a i) (one n))
      = (U (2 ^ s) a / 2 ^ i) % 2 := by
    rw [h5, h2, U_one hn, Nat.and_one_is_mod]
  have tb : (U (2 ^ s) a).testBit i = decide ((U (2 ^ s) a / 2 ^ i) % 2 = 1) := by
    rw [Nat.testBit, Nat.shiftRight_eq_div_pow, Nat.one_and_eq_mod_two]
    rcases Nat.mod_two_eq_zero_or_one (U (2 ^ s) a / 2 ^ i) with h | h <;> simp [h]
  rw [tb]
  by_cases hb : (U (2 ^ s) a / 2 ^ i) % 2 = 1
  · have : UI.bitand (UI.wrappingShr (2 ^ s) a i) (one n) ≠ zero n := by
      intro h0; rw [h0, U_zero] at e; omega
    simp [hb, this]
  · have : UI.bitand (UI.wrappingShr (2 ^ s) a i) (one n) = zero n := by
      apply U_injective h4 (WF_zero _ n); rw [e, U_zero]; omega
    simp [hb, this]

/-- `set_bit(a, i, true) = a | power_of_two(i)`, `set_bit(a, i, false) = a & !power_of_two(i)` -/
theorem setBit_eq_logic {s i : Nat} (hs : s < 32) (ha : WF (2 ^ s) n a) (hi : i < 2 ^ s * n) :
    ∃ p, UI.powerOfTwo (2 ^ s) n i = .ok p ∧
      UI.setBit (2 ^ s) a i true = .ok (UI.bitor a p) ∧
      UI.setBit (2 ^ s) a i false = .ok (UI.bitand a (UI.not (2 ^ s) p)) := by
  obtain ⟨p, hp, wp, up⟩ := (C06.power_of_two_spec hs n i).2 hi
  obtain ⟨r1, e1, w1, t1⟩ := (C06.set_bit_spec hs ha i true).2 hi
  obtain ⟨r2, e2, w2, t2⟩ := (C06.set_bit_spec hs ha i false).2 hi
  refine ⟨p, hp, ?_, ?_⟩
  · rw [e1]; congr 1
    apply Laws.eq_of_testBit w1 (Laws.wf_or ha wp)
    intro j
    rw [t1, Laws.tb_or ha wp, up, Nat.testBit_two_pow]
    by_cases h : j = i
    · subst h; simp
    · have : ¬ i = j := fun e => h e.symm
      simp [h, this]
  · rw [e2]; congr 1
    apply Laws.eq_of_testBit w2 (Laws.wf_and ha (Laws.wf_not wp))
    intro j
    rw [t2, Laws.tb_and ha (Laws.wf_not wp), Laws.tb_not wp, up, Nat.testBit_two_pow]
    by_cases h : j = i
    · subst h; simp
    · have : ¬ i = j := fun e => h e.symm
      by_cases hj : j < 2 ^ s * n
      · simp [h, this, hj]
      · simp [h, this, hj, Laws.tb_high ha hj]

/-- bit `i` of `power_of_two(k)` is set exactly for `i = k` -/
theorem bit_powerOfTwo {s k i : Nat} (hs : s < 32) {p : List Nat}
    (h : UI.powerOfTwo (2 ^ s) n k = .ok p) (hi : i < 2 ^ s * n) :
    UI.bit (2 ^ s) p i = .ok (decide (i = k)) := by
  obtain ⟨hk, wp, up, _⟩ := powerOfTwo_counts hs h
  rw [C06.bit_spec hs wp i, if_pos hi, up, Nat.testBit_two_pow]
  congr 1
  by_cases e : k = i
  · subst e; simp
  · have : ¬ i = k := fun h => e h.symm
    simp [e, this]

/-- `ilog(a, TWO) = ilog2(a)` and `ilog(a, TEN) = ilog10(a)` (three different algorithms), also
    when `a = 0` (all panic) -/
theorem ilog_two_eq_ilog2 (hw : 2 ≤ w) (hn : 1 ≤ n) (hW : w * n < 2 ^ 32) (ha : WF w n a)
    (dbg : Bool) : UI.ilog dbg w a (two n) = UI.ilog2 w a := by
  have h2 : WF w n (two n) := by
    have := B_half_ge_two hw
    have := B_even (show 1 ≤ w by omega)
    exact WF_fromDigit hn (by omega)
  rw [C08.u_ilog hw hn hW ha h2 dbg, C08.u_ilog2 ha]
  unfold two; rw [U_fromDigit 2 hn]
  by_cases h : 1 ≤ U w a
  · rw [if_pos ⟨h, Nat.le_refl _⟩, if_pos h]
  · rw [if_neg (fun hh => h hh.1), if_neg h]

theorem ilog_ten_eq_ilog10 (hw8 : 8 ≤ w) (hn : 1 ≤ n) (hW : w * n < 2 ^ 32) (ha : WF w n a)
    (dbg : Bool) : UI.ilog dbg w a (ten n) = UI.ilog10 dbg w a := by
  have h10 := B_gt_ten hw8
  have h2 : WF w n (ten n) := WF_fromDigit hn h10
  rw [C08.u_ilog (by omega) hn hW ha h2 dbg, C08.u_ilog10 h10 hn hW ha dbg]
  unfold ten; rw [U_fromDigit 10 hn]
  by_cases h : 1 ≤ U w a
  · rw [if_pos ⟨h, by decide⟩, if_pos h]
  · rw [if_neg (fun hh => h hh.1), if_neg h]

/-- `ilog(a, b) = ilog(a / b, b) + 1` for `a ≥ b ≥ 2` -/
theorem ilog_div_base (hw : 2 ≤ w) (hn : 1 ≤ n) (hW : w * n < 2 ^ 32) (ha : WF w n a)
    (hb : WF w n b) (hb2 : CmpImpl.lt UI.cmp (one n) b = true)
    (hab : CmpImpl.le UI.cmp b a = true) (dbg : Bool) :
    ∃ q l, UI.div w a b = .ok q ∧ UI.ilog dbg w q b = .ok l ∧ UI.ilog dbg w a b = .ok (l + 1) := by
  have hb2' : 2 ≤ U w b := by
    have := (C07.u_order (WF_one (by omega) hn) hb).1.mp hb2
    rw [U_one hn] at this; omega
  have hle := (Laws.u_le_iff hb ha).mp hab
  have hb0 : b ≠ zero n := by intro h; rw [h, U_zero] at hb2'; omega
  obtain ⟨q, r, wq, wr, uq, ur, hd, _⟩ := udiv_core (by omega) hn ha hb hb0
  have hq1 : 1 ≤ U w q := by rw [uq]; exact (Nat.le_div_iff_mul_le (by omega)).mpr (by omega)
  refine ⟨q, Nat.log (U w b) (U w q), hd, ?_, ?_⟩
  · rw [C08.u_ilog hw hn hW wq hb dbg, if_pos ⟨hq1, hb2'⟩]
  · rw [C08.u_ilog hw hn hW ha hb dbg, if_pos ⟨by omega, hb2'⟩, uq,
      Nat.log_of_one_lt_of_le (by omega) hle]

/-- `b^ilog(a, b) ≤ a`, and the power is computed without overflow -/
theorem pow_ilog_le (hw : 2 ≤ w) (hn : 1 ≤ n) (hW : w * n < 2 ^ 32) (ha : WF w n a)
    (hb : WF w n b) (ha0 : a ≠ zero n) (hb2 : CmpImpl.lt UI.cmp (one n) b = true) (dbg : Bool) :
    ∃ l p, UI.ilog dbg w a b = .ok l ∧ UI.checkedPow w b l = some p ∧
      CmpImpl.le UI.cmp p a = true ∧
      (∀ p', UI.checkedPow w b (l + 1) = some p' → CmpImpl.lt UI.cmp a p' = true) := by
  have hb2' : 2 ≤ U w b := by
    have := (C07.u_order (WF_one (by omega) hn) hb).1.mp hb2
    rw [U_one hn] at this; omega
  have ha1 : 1 ≤ U w a := Nat.pos_of_ne_zero (Laws.U_ne_zero_of_ne ha ha0)
  obtain ⟨g1, g2⟩ := C08.log_is_greatest hb2' ha1
  have hlt := U_lt ha
  obtain ⟨c1, c2⟩ := C08.u_checked_pow (by omega) hn hb (Nat.log (U w b) (U w a))
  have hil : UI.ilog dbg w a b = .ok (Nat.log (U w b) (U w a)) := by
    rw [C08.u_ilog hw hn hW ha hb dbg, if_pos ⟨ha1, hb2'⟩]
  cases hc : UI.checkedPow w b (Nat.log (U w b) (U w a)) with
  | none => have := c1.mp hc; omega
  | some p =>
    obtain ⟨wp, up⟩ := c2 p hc
    refine ⟨Nat.log (U w b) (U w a), p, hil, hc, ?_, ?_⟩
    · rw [Laws.u_le_iff wp ha, up]; exact g1
    · intro p' hp'
      obtain ⟨wp', up'⟩ := (C08.u_checked_pow (by omega) hn hb _).2 p' hp'
      rw [(C07.u_order ha wp').1, up']
      exact Nat.lt_pow_succ_log_self (by omega) _

/-! ### K. shifts / arithmetic versus bit length and counts -/

theorem bitLen_div_two_pow (v k : Nat) : Spec.bitLen (v / 2 ^ k) = Spec.bitLen v - k := by
  apply Bits.eq_of_forall_le_iff
  intro j
  rw [bitLen_le_iff, Nat.div_lt_iff_lt_mul (Nat.two_pow_pos k), ← Nat.pow_add]
  have := bitLen_le_iff v (j + k)
  omega

/-- `bits(a >> k) = bits(a) - k` (truncated) -/
theorem bits_shr {k : Nat} (hw : 1 ≤ w) (ha : WF w n a) (hk : k < w * n) :
    UI.bits w (UI.wrappingShr w a k) = UI.bits w a - k := by
  obtain ⟨h1, h2⟩ := Laws.wshr_spec hw ha hk
  rw [bits_spec h1, bits_spec ha, h2, bitLen_div_two_pow]

theorem bitLen_mul_two_pow {v k : Nat} (hv : v ≠ 0) : Spec.bitLen (v * 2 ^ k) = Spec.bitLen v + k := by
  apply Bits.eq_of_forall_le_iff
  intro j
  rw [bitLen_le_iff]
  by_cases hjk : k ≤ j
  · have e : 2 ^ j = 2 ^ (j - k) * 2 ^ k := by rw [← Nat.pow_add]; congr 1; omega
    rw [e, Nat.mul_lt_mul_right (Nat.two_pow_pos k), ← bitLen_le_iff]; omega
  · have h1 : 2 ^ j < 2 ^ k := Nat.pow_lt_pow_right (by decide) (by omega)
    have h2 : 1 * 2 ^ k ≤ v * 2 ^ k := Nat.mul_le_mul_right _ (by omega)
    have := bitLen_pos hv
    constructor
    · intro h; omega
    · intro h; omega

/-- no bits lost (`k ≤ leading_zeros(a)`, `a ≠ 0`): `a << k` has `k` more trailing zeros, `k` fewer
    leading zeros and the same number of ones -/
theorem shl_counts {k : Nat} (hw : 1 ≤ w) (ha : WF w n a) (h0 : a ≠ zero n) (hk : k < w * n)
    (hz : k ≤ UI.leadingZeros w a) :
    UI.leadingZeros w (UI.wrappingShl w a k) = UI.leadingZeros w a - k ∧
    UI.trailingZeros w (UI.wrappingShl w a k) = UI.trailingZeros w a + k ∧
    UI.bits w (UI.wrappingShl w a k) = UI.bits w a + k := by
  obtain ⟨h1, h2⟩ := Laws.wshl_spec hw ha hk
  have hfit := Laws.mul_pow_lt_of_leadingZeros ha hz
  rw [Nat.mod_eq_of_lt hfit] at h2
  have hne := Laws.U_ne_zero_of_ne ha h0
  have hbl := bitLen_mul_two_pow (k := k) hne
  have hA : Spec.bitLen (U w a) ≤ w * n := (bitLen_le_iff _ _).mpr (U_lt ha)
  have hz' := hz; rw [leadingZeros_spec ha] at hz'
  refine ⟨?_, ?_, ?_⟩
  · rw [leadingZeros_spec h1, leadingZeros_spec ha, h2, hbl]; omega
  · have hs0 : UI.wrappingShl w a k ≠ zero n := by
      intro h; rw [h, U_zero] at h2
      have := Nat.two_pow_pos k
      rcases Nat.mul_eq_zero.mp h2.symm with h | h <;> omega
    have key : ∀ j, j ≤ UI.trailingZeros w (UI.wrappingShl w a k) ↔ j ≤ UI.trailingZeros w a + k := by
      intro j
      rw [le_trailingZeros_iff h1 hs0, h2]
      by_cases hjk : k ≤ j
      · have e : 2 ^ j = 2 ^ (j - k) * 2 ^ k := by rw [← Nat.pow_add]; congr 1; omega
        rw [e, Nat.mul_dvd_mul_iff_right (Nat.two_pow_pos k), ← le_trailingZeros_iff ha h0]; omega
      · constructor
        · intro _; omega
        · intro _; exact Dvd.dvd.mul_left (Nat.pow_dvd_pow 2 (by omega)) _
    have e1 := (key _).mp (Nat.le_refl _)
    have e2 := (key _).mpr (Nat.le_refl _)
    omega
  · rw [bits_spec h1, bits_spec ha, h2, hbl]

/-- `bits(a + b) ≤ max(bits a, bits b) + 1`, `bits(a * b) ≤ bits a + bits b` (wrapping results) -/
theorem bits_add_le (ha : WF w n a) (hb : WF w n b) :
    UI.bits w (UI.wrappingAdd w a b) ≤ max (UI.bits w a) (UI.bits w b) + 1 := by
  obtain ⟨h1, h2⟩ := U_wadd ha hb
  rw [bits_spec h1, bits_spec ha, bits_spec hb, bitLen_le_iff, h2]
  have l1 := lt_two_pow_bitLen (U w a)
  have l2 := lt_two_pow_bitLen (U w b)
  have m1 : 2 ^ Spec.bitLen (U w a) ≤ 2 ^ max (Spec.bitLen (U w a)) (Spec.bitLen (U w b)) :=
    Nat.pow_le_pow_right (by decide) (Nat.le_max_left _ _)
  have m2 : 2 ^ Spec.bitLen (U w b) ≤ 2 ^ max (Spec.bitLen (U w a)) (Spec.bitLen (U w b)) :=
    Nat.pow_le_pow_right (by decide) (Nat.le_max_right _ _)
  have := Nat.mod_le (U w a + U w b) (M w n)
  rw [Nat.pow_succ]; omega

theorem bits_mul_le (ha : WF w n a) (hb : WF w n b) :
    UI.bits w (UI.wrappingMul w a b) ≤ UI.bits w a + UI.bits w b := by
  obtain ⟨h1, h2⟩ := U_wmul ha hb
  rw [bits_spec h1, bits_spec ha, bits_spec hb, bitLen_le_iff, h2]
  have l1 := lt_two_pow_bitLen (U w a)
  have l2 := lt_two_pow_bitLen (U w b)
  have := Nat.mod_le (U w a * U w b) (M w n)
  have : U w a * U w b < 2 ^ Spec.bitLen (U w a) * 2 ^ Spec.bitLen (U w b) := by
    by_cases h0 : U w a = 0
    · rw [h0, Nat.zero_mul]; exact Nat.mul_pos (Nat.two_pow_pos _) (Nat.two_pow_pos _)
    · exact Nat.mul_lt_mul'' l1 l2
  rw [Nat.pow_add]; omega

/-- `trailing_zeros(a) + leading_zeros(a) < BITS`, `count_ones(a) + trailing_zeros(a) ≤ bits(a)`
    for `a ≠ 0` -/
theorem popcount_le_of_lt : ∀ (W v k : Nat), v < 2 ^ k → Spec.popcount W v ≤ k
  | 0, _, _, _ => Nat.zero_le _
  | W + 1, v, k, h => by
    simp only [Spec.popcount]
    cases k with
    | zero => have : v = 0 := by simpa using h
              subst this; have := popcount_zero W; simp [this]
    | succ k =>
      rw [Nat.pow_succ] at h
      have := popcount_le_of_lt W (v / 2) k (by omega)
      omega

theorem popcount_mul_two_pow : ∀ (W k v : Nat), Spec.popcount (W + k) (v * 2 ^ k) = Spec.popcount W v
  | W, 0, v => by simp
  | W, k + 1, v => by
    have e : W + (k + 1) = (W + k) + 1 := by omega
    rw [e]
    simp only [Spec.popcount]
    have e2 : v * 2 ^ (k + 1) = 2 * (v * 2 ^ k) := by rw [Nat.pow_succ]; ring
    have h1 : v * 2 ^ (k + 1) % 2 = 0 := by rw [e2]; omega
    have h2 : v * 2 ^ (k + 1) / 2 = v * 2 ^ k := by rw [e2]; omega
    rw [h1, h2, popcount_mul_two_pow W k v]; omega

theorem counts_ineq (ha : WF w n a) (h0 : a ≠ zero n) :
    UI.trailingZeros w a + UI.leadingZeros w a < w * n ∧
    UI.countOnes w a + UI.trailingZeros w a ≤ UI.bits w a := by
  have hne := Laws.U_ne_zero_of_ne ha h0
  obtain ⟨c1, c2, c3⟩ := trailingZeros_char (w * n) (U w a)
  have htz : Spec.trailingZeros (w * n) (U w a) < w * n := by
    rcases Nat.lt_or_ge (Spec.trailingZeros (w * n) (U w a)) (w * n) with h | h
    · exact h
    · exact absurd ((spec_tz_eq_iff _ _ (U_lt ha)).mp (by omega)) hne
  have hbit := c3 htz
  have hge := Nat.ge_two_pow_of_testBit hbit
  have hbl : Spec.trailingZeros (w * n) (U w a) < Spec.bitLen (U w a) := by
    by_contra hc
    have : Spec.bitLen (U w a) ≤ Spec.trailingZeros (w * n) (U w a) := by omega
    rw [bitLen_le_iff] at this; omega
  have hA : Spec.bitLen (U w a) ≤ w * n := (bitLen_le_iff _ _).mpr (U_lt ha)
  rw [trailingZeros_spec ha, leadingZeros_spec ha, countOnes_spec ha, bits_spec ha]
  refine ⟨by omega, ?_⟩
  -- U a = q * 2^t with q < 2^(bitLen - t)
  set t := Spec.trailingZeros (w * n) (U w a) with ht
  have hdvd : 2 ^ t ∣ U w a := (dvd_iff_testBit _ _).mpr c2
  obtain ⟨q, hq⟩ := hdvd
  have hq' : U w a = q * 2 ^ t := by rw [hq, Nat.mul_comm]
  have hqlt : q < 2 ^ (Spec.bitLen (U w a) - t) := by
    have := lt_two_pow_bitLen (U w a)
    have e : 2 ^ Spec.bitLen (U w a) = 2 ^ (Spec.bitLen (U w a) - t) * 2 ^ t := by
      rw [← Nat.pow_add]; congr 1; omega
    rw [e] at this
    conv at this => lhs; rw [hq']
    exact Nat.lt_of_mul_lt_mul_right this
  have e2 : w * n = (w * n - t) + t := by omega
  have := popcount_mul_two_pow (w * n - t) t q
  rw [← e2, ← hq'] at this
  rw [this]
  have := popcount_le_of_lt (w * n - t) q _ hqlt
  omega

theorem countOnes_shl {k : Nat} (hw : 1 ≤ w) (ha : WF w n a) (hk : k < w * n)
    (hz : k ≤ UI.leadingZeros w a) :
    UI.countOnes w (UI.wrappingShl w a k) = UI.countOnes w a := by
  obtain ⟨h1, h2⟩ := Laws.wshl_spec hw ha hk
  have hfit := Laws.mul_pow_lt_of_leadingZeros ha hz
  rw [Nat.mod_eq_of_lt hfit] at h2
  have hv : U w a < 2 ^ (w * n - k) := (le_leadingZeros_iff ha (by omega)).mp hz
  rw [countOnes_spec h1, countOnes_spec ha, h2]
  have e : w * n = (w * n - k) + k := by omega
  have p1 := popcount_mul_two_pow (w * n - k) k (U w a)
  rw [← e] at p1
  have p2 := popcount_split (W := w * n) (p := w * n - k) (q := k) (v := U w a) (d := U w a) (u := 0)
    e hv (by omega)
  rw [p1, p2, popcount_zero]; omega

/-- `count_ones(a >> k) ≤ count_ones(a)` -/
theorem countOnes_shr_le {k : Nat} (hw : 1 ≤ w) (ha : WF w n a) (hk : k < w * n) :
    UI.countOnes w (UI.wrappingShr w a k) ≤ UI.countOnes w a := by
  obtain ⟨h1, h2⟩ := Laws.wshr_spec hw ha hk
  rw [countOnes_spec h1, countOnes_spec ha, h2]
  have e : w * n = k + (w * n - k) := by omega
  have hr := Nat.mod_lt (U w a) (Nat.two_pow_pos k)
  have p := popcount_split (W := w * n) (p := k) (q := w * n - k) (v := U w a)
    (d := U w a % 2 ^ k) (u := U w a / 2 ^ k) e hr (Nat.mod_add_div _ _).symm
  have hq : U w a / 2 ^ k < 2 ^ (w * n - k) := by
    apply Nat.div_lt_of_lt_mul; rw [← Nat.pow_add, ← e]; exact U_lt ha
  have p2 := popcount_split (W := w * n) (p := w * n - k) (q := k) (v := U w a / 2 ^ k)
    (d := U w a / 2 ^ k) (u := 0) (by omega) hq (by omega)
  rw [p2, p, popcount_zero]; omega

/-! ### L. sign structure -/

/-- `is_negative(a) ⇔ leading_zeros(a) = 0 ⇔ 1 ≤ leading_ones(a)` -/
theorem isNegative_iff_lz (hw : 1 ≤ w) (hn : 1 ≤ n) (ha : WF w n a) :
    (isNegative w a = true ↔ UI.leadingZeros w a = 0) ∧
    (isNegative w a = true ↔ 1 ≤ UI.leadingOnes w a) := by
  have hW : 1 ≤ w * n := Nat.mul_le_mul hw hn
  obtain ⟨e1, e2⟩ := M_eq_two_mul_half hw hn
  have hM := M_even hw hn
  have hneg : isNegative w a = true ↔ M w n / 2 ≤ U w a := by
    rw [C07.is_negative_iff hw hn ha, S_eq ha]; unfold toInt
    have := U_lt ha
    split_ifs <;> omega
  have hlz : UI.leadingZeros w a = 0 ↔ M w n / 2 ≤ U w a := by
    have := le_leadingZeros_iff (k := 1) ha hW
    rw [← e1] at this
    have h0 := leadingZeros_le ha
    omega
  refine ⟨by rw [hneg, hlz], ?_⟩
  rw [hneg, (C06.ones_spec ha).1]
  obtain ⟨n1, n2, _⟩ := C06.not_spec ha
  have := le_leadingZeros_iff (k := 1) n1 hW
  rw [← e1, n2] at this
  have := U_lt ha
  omega

/-- `a = signum(a) * |a|` -/
theorem signum_mul_abs (hw : 2 ≤ w) (hn : 1 ≤ n) (ha : WF w n a) :
    II.wrappingMul w (II.signum w a) (II.unsignedAbs w a) = a := by
  obtain ⟨s1, s2⟩ := C07.signum_spec hw hn ha
  obtain ⟨u1, u2⟩ := C01.i_unsigned_abs hw hn ha
  apply Laws.eq_of_rep' (Laws.rep_mul (Laws.rep_S s1) (Laws.rep_U u1)) (Laws.rep_S ha)
  rw [s2, u2]
  split_ifs with h1 h2
  · omega
  · rw [h2]; simp
  · omega

/-- signed `abs_diff` is the unsigned `abs_diff` of the biased operands -/
theorem i_absDiff_eq_u_absDiff_xor (hw : 1 ≤ w) (hn : 1 ≤ n) (ha : WF w n a) (hb : WF w n b) :
    II.absDiff w a b = UI.absDiff w (UI.bitxor a (iMin w n)) (UI.bitxor b (iMin w n)) := by
  obtain ⟨wa, ua⟩ := U_xor_iMin hw hn ha
  obtain ⟨wb, ub⟩ := U_xor_iMin hw hn hb
  obtain ⟨h1, h2⟩ := C01.i_abs_diff hw hn ha hb
  obtain ⟨h3, h4⟩ := C01.u_abs_diff wa wb
  apply U_injective h1 h3
  rw [h2, h4, ua, ub]; congr 1; ring

/-- the binary numeral of `a > 0` has `bits(a)` characters -/
theorem toStr2_length_eq_bits (hn : 1 ≤ n) (hw8 : 8 ≤ w) (ha : WF w n a) (h0 : a ≠ zero n) :
    ∃ str, UI.toStrRadix w a 2 = .ok str ∧ str.length = UI.bits w a := by
  obtain ⟨str, h1, h2⟩ := toStrRadix_length hn hw8 ha h0 (r := 2) (by decide) (by decide)
  refine ⟨str, h1, ?_⟩
  have e1 := ilog2_eq_bits ha h0
  have hpos : 1 ≤ U w a := Nat.pos_of_ne_zero (Laws.U_ne_zero_of_ne ha h0)
  rw [C08.u_ilog2 ha, if_pos hpos] at e1
  have : Nat.log 2 (U w a) = UI.bits w a - 1 := by injection e1
  have := bits_pos ha h0
  omega

/-- for `a ≥ 2`, `next_power_of_two(a) = power_of_two(bits(a - 1))` -/
theorem nextPow2_eq_powerOfTwo_bits {s : Nat} (hs : s < 32) (hn : 1 ≤ n) (ha : WF (2 ^ s) n a)
    (h2 : CmpImpl.lt UI.cmp (one n) a = true) {p : List Nat}
    (h : UI.checkedNextPowerOfTwo (2 ^ s) a = .ok (some p)) :
    UI.powerOfTwo (2 ^ s) n (UI.bits (2 ^ s) (UI.wrappingSub (2 ^ s) a (one n))) = .ok p := by
  have hw : 1 ≤ 2 ^ s := Nat.two_pow_pos _
  have h2' : 2 ≤ U (2 ^ s) a := by
    have := (C07.u_order (WF_one hw hn) ha).1.mp h2
    rw [U_one hn] at this; omega
  have h0 : a ≠ zero n := by intro h; rw [h, U_zero] at h2'; omega
  obtain ⟨s1, s2⟩ := U_sub_one hw hn ha h0
  have hspec := C06.checked_next_power_of_two_eq_spec hs ha
  rw [h] at hspec
  simp only [Outcome.map, Option.map] at hspec
  have hp : Spec.checkedNextPow2 (2 ^ s * n) (U (2 ^ s) a) = some (U (2 ^ s) p) := by
    injection hspec with e; exact e.symm
  unfold Spec.checkedNextPow2 at hp
  split_ifs at hp with hlt
  have hval : U (2 ^ s) p = 2 ^ Spec.bitLen (U (2 ^ s) a - 1) := by
    have : Spec.nextPow2 (U (2 ^ s) a) = U (2 ^ s) p := by injection hp
    rw [← this]; unfold Spec.nextPow2; rw [if_neg (by omega)]
  have wp := (checkedNextPowerOfTwo_some hs ha h).1
  have hk : Spec.bitLen (U (2 ^ s) a - 1) < 2 ^ s * n := by
    have := U_lt wp; rw [hval] at this
    exact (Nat.pow_lt_pow_iff_right (by decide)).mp this
  rw [bits_spec s1, s2]
  obtain ⟨q, hq, wq, uq⟩ := (C06.power_of_two_spec hs n _).2 hk
  rw [hq, U_injective wq wp (by rw [uq, hval])]

/-- `bits(sqrt a) = ⌈bits(a) / 2⌉` -/
theorem bitLen_sqrt {x r : Nat} (h : NumT.IsRoot 2 x r) : Spec.bitLen r = (Spec.bitLen x + 1) / 2 := by
  obtain ⟨h1, h2⟩ := h
  apply Bits.eq_of_forall_le_iff
  intro j
  rw [bitLen_le_iff]
  constructor
  · intro hr
    -- r < 2^j → r + 1 ≤ 2^j → x < (r+1)^2 ≤ 2^(2j) → bitLen x ≤ 2j
    have : (r + 1) ^ 2 ≤ (2 ^ j) ^ 2 := Nat.pow_le_pow_left (by omega) 2
    rw [← Nat.pow_mul] at this
    have : Spec.bitLen x ≤ j * 2 := (bitLen_le_iff _ _).mpr (by omega)
    omega
  · intro hj
    have hx : x < 2 ^ (j * 2) := (bitLen_le_iff _ _).mp (by omega)
    by_contra hc
    have : (2 ^ j) ^ 2 ≤ r ^ 2 := Nat.pow_le_pow_left (by omega) 2
    rw [← Nat.pow_mul] at this
    omega

theorem bits_sqrt {s : Nat} (hs : s < 32) (hn : 1 ≤ n) (ha : WF (2 ^ s) n a) (dbg : Bool) :
    ∃ r, NumT.U.sqrt dbg (2 ^ s) a = .ok r ∧ UI.bits (2 ^ s) r = (UI.bits (2 ^ s) a + 1) / 2 := by
  obtain ⟨r, h1, w1, u1⟩ := C18.u_sqrt_spec hs hn ha dbg
  exact ⟨r, h1, by rw [bits_spec w1, bits_spec ha, bitLen_sqrt u1]⟩

/-- `sqrt(a) = 0 ↔ a = 0`; `sqrt(a) ≤ a` -/
theorem sqrt_le_self {s : Nat} (hs : s < 32) (hn : 1 ≤ n) (ha : WF (2 ^ s) n a) (dbg : Bool) :
    ∃ r, NumT.U.sqrt dbg (2 ^ s) a = .ok r ∧ CmpImpl.le UI.cmp r a = true ∧
      (r = zero n ↔ a = zero n) := by
  obtain ⟨r, h1, w1, u1⟩ := C18.u_sqrt_spec hs hn ha dbg
  refine ⟨r, h1, ?_, ?_⟩
  · rw [Laws.u_le_iff w1 ha]; exact u1.le (by decide)
  · rw [← U_eq_zero_iff w1, ← U_eq_zero_iff ha]
    obtain ⟨g1, g2⟩ := u1
    constructor
    · intro h; rw [h] at g2; simp at g2; omega
    · intro h; rw [h] at g1
      by_contra hc
      have : 1 ≤ U (2 ^ s) r ^ 2 := Nat.one_le_pow _ _ (by omega)
      omega

end Bnum.Laws2
