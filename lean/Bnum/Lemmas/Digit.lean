import Bnum.Model.Digit
import Bnum.Lemmas.Basic

namespace Bnum

theorem mod_ite {x b : Nat} (h : x < 2 * b) : x % b = if x < b then x else x - b := by
  split
  · exact Nat.mod_eq_of_lt ‹_›
  · rw [Nat.mod_eq_sub_mod (by omega)]; exact Nat.mod_eq_of_lt (by omega)

theorem mod_add_div' (x b : Nat) : x % b + b * (x / b) = x := Nat.mod_add_div x b

namespace Digit

/-- closed form of `digit::carrying_add` -/
theorem carryingAdd_eq {w a b : Nat} (c : Bool) (ha : a < B w) (hb : b < B w) :
    carryingAdd w a b c = ((a + b + c.toNat) % B w, decide (B w ≤ a + b + c.toNat)) := by
  unfold carryingAdd Prim.uOverflowingAdd
  have hB := B_pos w
  generalize B w = bv at *
  cases c <;> simp only [Bool.toNat_true, Bool.toNat_false, Bool.false_eq_true, if_false, if_true,
    Nat.add_zero]
  rw [Nat.mod_add_mod]
  congr 1
  by_cases h : a + b < bv
  · have h' : ¬ bv ≤ a + b := by omega
    rw [Nat.mod_eq_of_lt h]; simp [h']
  · have h' : bv ≤ a + b := by omega
    have h2 : bv ≤ a + b + 1 := by omega
    simp [h', h2]

theorem carryingAdd_spec {w a b : Nat} (c : Bool) (ha : a < B w) (hb : b < B w) :
    (carryingAdd w a b c).1 + B w * (carryingAdd w a b c).2.toNat = a + b + c.toNat
    ∧ (carryingAdd w a b c).1 < B w := by
  rw [carryingAdd_eq c ha hb]
  have hB := B_pos w
  have hc : c.toNat ≤ 1 := Bool.toNat_le c
  generalize B w = bv at *; generalize c.toNat = cv at *
  refine ⟨?_, Nat.mod_lt _ hB⟩
  simp only
  rw [mod_ite (by omega)]
  by_cases h : a + b + cv < bv
  · have h' : ¬ bv ≤ a + b + cv := by omega
    simp [h, h']
  · have h' : bv ≤ a + b + cv := by omega
    simp [h, h']

/-- closed form of `digit::borrowing_sub` -/
theorem borrowingSub_eq {w a b : Nat} (c : Bool) (ha : a < B w) (hb : b < B w) :
    borrowingSub w a b c = ((a + B w - b + B w - c.toNat) % B w, decide (a < b + c.toNat)) := by
  unfold borrowingSub Prim.uOverflowingSub
  have hB := B_pos w
  generalize B w = bv at *
  cases c <;> simp only [Bool.toNat_true, Bool.toNat_false, Bool.false_eq_true, if_false, if_true,
    Nat.add_zero, Nat.sub_zero]
  · congr 1; rw [Nat.add_mod_right]
  · have e1 : ((a + bv - b) % bv + bv - 1) % bv = (a + bv - b + bv - 1) % bv := by
      have h1 : (a + bv - b) % bv + bv - 1 = (a + bv - b) % bv + (bv - 1) := by omega
      have h2 : a + bv - b + bv - 1 = (a + bv - b) + (bv - 1) := by omega
      rw [h1, h2, Nat.mod_add_mod]
    rw [e1]; congr 1
    rw [mod_ite (show a + bv - b < 2 * bv by omega)]
    by_cases h : a < b
    · have h2 : a < b + 1 := by omega
      simp [h, h2]
    · by_cases h3 : a = b
      · subst h3; simp
      · have h4 : ¬ a < b + 1 := by omega
        have h5 : ¬ (a + bv - b < bv) := by omega
        have h6 : ¬ (a + bv - b - bv < 1) := by omega
        simp [h, h4, h5, h6]

theorem borrowingSub_spec {w a b : Nat} (c : Bool) (ha : a < B w) (hb : b < B w) :
    (borrowingSub w a b c).1 + b + c.toNat = a + B w * (borrowingSub w a b c).2.toNat
    ∧ (borrowingSub w a b c).1 < B w := by
  rw [borrowingSub_eq c ha hb]
  have hB := B_pos w
  have hc : c.toNat ≤ 1 := Bool.toNat_le c
  generalize B w = bv at *; generalize c.toNat = cv at *
  refine ⟨?_, Nat.mod_lt _ hB⟩
  simp only
  by_cases h : a < b + cv
  · have e : a + bv - b + bv - cv = (a + bv - b - cv) + bv := by omega
    rw [e, Nat.add_mod_right, Nat.mod_eq_of_lt (by omega)]
    simp [h]; omega
  · have e : a + bv - b + bv - cv = (a - b - cv) + bv + bv := by omega
    rw [e, Nat.add_mod_right, Nat.add_mod_right, Nat.mod_eq_of_lt (by omega)]
    simp [h]; omega

theorem carryingAddSigned_eq {w a b : Nat} (hw : 2 ≤ w) (c : Bool) (ha : a < B w) (hb : b < B w) :
    carryingAddSigned w a b c = ((a + b + c.toNat) % B w,
      decide (¬ repS (B w) (toInt (B w) a + toInt (B w) b + c.toNat))) := by
  unfold carryingAddSigned Prim.iOverflowingAdd
  have hB := B_even (show 1 ≤ w by omega)
  have hh := B_half_ge_two hw
  generalize B w / 2 = h at *
  generalize B w = bv at *
  subst hB
  cases c <;> simp only [Bool.toNat_true, Bool.toNat_false, Bool.false_eq_true, if_false, if_true,
    Nat.add_zero, Nat.cast_zero, Int.add_zero]
  rw [Nat.mod_add_mod]
  congr 1
  apply bne_decide
  rw [mod_ite (show a + b < 2 * (2 * h) by omega)]
  unfold repS toInt
  push_cast
  split_ifs <;> omega

theorem borrowingSubSigned_eq {w a b : Nat} (hw : 2 ≤ w) (c : Bool) (ha : a < B w) (hb : b < B w) :
    borrowingSubSigned w a b c = ((a + B w - b + B w - c.toNat) % B w,
      decide (¬ repS (B w) (toInt (B w) a - toInt (B w) b - c.toNat))) := by
  unfold borrowingSubSigned Prim.iOverflowingSub
  have hB := B_even (show 1 ≤ w by omega)
  have hh := B_half_ge_two hw
  generalize B w / 2 = h at *
  generalize B w = bv at *
  subst hB
  cases c <;> simp only [Bool.toNat_true, Bool.toNat_false, Bool.false_eq_true, if_false, if_true,
    Nat.add_zero, Nat.cast_zero, Int.sub_zero, Nat.sub_zero]
  · congr 1; rw [Nat.add_mod_right]
  · have e1 : ((a + 2*h - b) % (2*h) + 2*h - 1) % (2*h) = (a + 2*h - b + 2*h - 1) % (2*h) := by
      have h1 : (a + 2*h - b) % (2*h) + 2*h - 1 = (a + 2*h - b) % (2*h) + (2*h - 1) := by omega
      have h2 : a + 2*h - b + 2*h - 1 = (a + 2*h - b) + (2*h - 1) := by omega
      rw [h1, h2, Nat.mod_add_mod]
    rw [e1]; congr 1
    apply bne_decide
    rw [mod_ite (show a + 2*h - b < 2 * (2 * h) by omega)]
    unfold repS toInt
    push_cast
    split_ifs <;> omega


end Digit
end Bnum
