import Bnum.Lemmas.Basic
import Bnum.Spec.Float
import Bnum.Model.Float
/-
  Bnum.Lemmas.Float — lemmas for property C14 (float <-> integer casts).  Everything lives in
  namespace `Bnum.Flt` (plus `FloatFmt.spec` / `FloatFmt.Valid`).
    1. bit length (`Spec.size`) and the pure arithmetic of round-to-nearest-even (`Spec.rne`):
       `rne_nearest`, `rne_nearest_unique`, `rne_tie_even`, `rne_exact`, `rne_representable`, `rne_bounds`.
    2. bit-level helpers for the model (`xor`/`or`/masks/`trailing_zeros`/`testBit`).
    3. integer → float: `roundMantissa_spec`, `fromSignedParts_eq`, `encodeNat_eq`,
       `castFloatFromUint_spec`, `floatFromBInt_spec`.
    4. float → integer: `fields`, `nan_inf_iff`, `normalised_*`, `shiftMantissa_eq`,
       `castUintFromFloat_eq`, `buintFromFloat_spec`, `bintFromFloat_spec`.
    5. encoder against decoder: `decode_encode`, `truncOf_natToFloat`.
-/
namespace Bnum
open Spec
namespace Flt

/-! ### bit length -/
theorem size_zero : size 0 = 0 := rfl
theorem size_pos {v : Nat} (hv : v ≠ 0) : 0 < size v := by simp [size, hv]
theorem size_eq_zero {v : Nat} : size v = 0 ↔ v = 0 := by
  unfold size; split <;> simp_all
theorem lt_two_pow_size (v : Nat) : v < 2 ^ size v := by
  unfold size; split
  · subst_vars; simp
  · exact Nat.lt_log2_self
theorem two_pow_size_le {v : Nat} (hv : v ≠ 0) : 2 ^ (size v - 1) ≤ v := by
  unfold size; simp [hv]; exact Nat.log2_self_le hv
theorem size_eq_of_bounds {v k : Nat} (h1 : 2 ^ k ≤ v) (h2 : v < 2 ^ (k + 1)) : size v = k + 1 := by
  have hv : v ≠ 0 := by have := Nat.pow_pos (n := k) (show 0 < 2 by decide); omega
  unfold size; simp [hv]; exact (Nat.log2_eq_iff hv).2 ⟨h1, h2⟩
theorem size_le_iff {v k : Nat} : size v ≤ k ↔ v < 2 ^ k := by
  by_cases hv : v = 0
  · subst hv; simp [size]
  · unfold size; simp [hv]; exact Nat.log2_lt hv

/-! ### round to nearest even: pure arithmetic -/

/-- the quantities of `rne` in the rounding case -/
theorem rne_parts {p v : Nat} (hp : 1 ≤ p) (hs : p < size v) :
    let s := size v - p
    2 ^ (p - 1) ≤ v / 2 ^ s ∧ v / 2 ^ s < 2 ^ p := by
  intro s
  have hv : v ≠ 0 := by intro h; subst h; simp [size] at hs
  have h1 := two_pow_size_le hv
  have h2 := lt_two_pow_size v
  have e1 : size v - 1 = (p - 1) + s := by omega
  have e2 : size v = p + s := by omega
  rw [e1, Nat.pow_add] at h1; rw [e2, Nat.pow_add] at h2
  have hpos : 0 < 2 ^ s := Nat.pow_pos (by decide)
  constructor
  · exact (Nat.le_div_iff_mul_le hpos).2 h1
  · exact (Nat.div_lt_iff_lt_mul hpos).2 h2

theorem rne_exact {p v : Nat} (h : size v ≤ p) : rne p v = v := by
  unfold rne; simp [Nat.sub_eq_zero_of_le h]

/-- in the rounding case `rne` is one of the two neighbouring multiples of `2^s` -/
theorem rne_cases {p v s : Nat} (hs : s = size v - p) (hs0 : s ≠ 0) :
    (rne p v = v / 2 ^ s * 2 ^ s ∧ (2 * (v % 2 ^ s) < 2 ^ s ∨ (2 * (v % 2 ^ s) = 2 ^ s ∧ v / 2 ^ s % 2 = 0))) ∨
    (rne p v = (v / 2 ^ s + 1) * 2 ^ s ∧ (2 * (v % 2 ^ s) > 2 ^ s ∨ (2 * (v % 2 ^ s) = 2 ^ s ∧ v / 2 ^ s % 2 = 1))) := by
  unfold rne; simp only [← hs, hs0, if_false]
  generalize v / 2 ^ s = q; generalize v % 2 ^ s = r; generalize 2 ^ s = t
  by_cases h1 : 2 * r > t
  · right; simp [h1]
  · by_cases h2 : 2 * r = t
    · by_cases h3 : q % 2 = 1
      · right; simp [h2, h3]
      · left; simp [h2, h3]; omega
    · left; simp [h1, h2]; omega

theorem rep_gap {p s q y : Nat} (hp : 1 ≤ p) (hq : 2 ^ (p - 1) ≤ q) (hy : Representable p y) :
    y ≤ q * 2 ^ s ∨ (q + 1) * 2 ^ s ≤ y := by
  obtain ⟨m, e, hm, rfl⟩ := hy
  by_cases hes : s ≤ e
  · obtain ⟨d, rfl⟩ := Nat.exists_eq_add_of_le hes
    rw [Nat.pow_add, ← Nat.mul_assoc, Nat.mul_right_comm]
    rcases Nat.lt_or_ge q (m * 2 ^ d) with h | h
    · right; exact Nat.mul_le_mul_right _ h
    · left; exact Nat.mul_le_mul_right _ h
  · left
    have h1 : m * 2 ^ e ≤ 2 ^ p * 2 ^ e := Nat.mul_le_mul_right _ (Nat.le_of_lt hm)
    have h2 : 2 ^ p * 2 ^ e ≤ 2 ^ (p - 1) * 2 ^ s := by
      rw [← Nat.pow_add, ← Nat.pow_add]; exact Nat.pow_le_pow_right (by decide) (by omega)
    have h3 : 2 ^ (p - 1) * 2 ^ s ≤ q * 2 ^ s := Nat.mul_le_mul_right _ hq
    omega


theorem rne_nearest {p v y : Nat} (hp : 1 ≤ p) (hy : Representable p y) :
    ((v : Int) - rne p v).natAbs ≤ ((v : Int) - y).natAbs := by
  by_cases hs : size v ≤ p
  · rw [rne_exact hs]; simp
  · have hs' : p < size v := by omega
    have hq := (rne_parts hp hs').1
    have hs0 : size v - p ≠ 0 := by omega
    have hgap := rep_gap (s := size v - p) hp hq hy
    have hc := rne_cases (p := p) (v := v) rfl hs0
    have hdm := Nat.div_add_mod v (2 ^ (size v - p))
    have hr := Nat.mod_lt v (Nat.pow_pos (n := size v - p) (show 0 < 2 by decide))
    generalize rne p v = z at *
    generalize v / 2 ^ (size v - p) = q at *
    generalize v % 2 ^ (size v - p) = r at *
    generalize 2 ^ (size v - p) = t at *
    have e1 : (q + 1) * t = q * t + t := by ring
    have e2 : t * q = q * t := Nat.mul_comm _ _
    generalize q * t = qt at *
    omega

/-- the nearest representable number is unique except at exact ties -/
theorem rne_nearest_unique {p v y : Nat} (hp : 1 ≤ p) (hy : Representable p y)
    (hd : ((v : Int) - y).natAbs = ((v : Int) - rne p v).natAbs) :
    y = rne p v ∨ (p < size v ∧ 2 * (v % 2 ^ (size v - p)) = 2 ^ (size v - p)) := by
  by_cases hs : size v ≤ p
  · rw [rne_exact hs] at hd ⊢; left; omega
  · have hs' : p < size v := by omega
    have hq := (rne_parts hp hs').1
    have hs0 : size v - p ≠ 0 := by omega
    have hgap := rep_gap (s := size v - p) hp hq hy
    have hc := rne_cases (p := p) (v := v) rfl hs0
    have hdm := Nat.div_add_mod v (2 ^ (size v - p))
    have hr := Nat.mod_lt v (Nat.pow_pos (n := size v - p) (show 0 < 2 by decide))
    generalize rne p v = z at *
    generalize v / 2 ^ (size v - p) = q at *
    generalize v % 2 ^ (size v - p) = r at *
    generalize 2 ^ (size v - p) = t at *
    have e1 : (q + 1) * t = q * t + t := by ring
    have e2 : t * q = q * t := Nat.mul_comm _ _
    generalize q * t = qt at *
    omega

/-- at an exact tie the kept mantissa is even -/
theorem rne_tie_even {p v : Nat} (hs : p < size v)
    (htie : 2 * (v % 2 ^ (size v - p)) = 2 ^ (size v - p)) :
    rne p v / 2 ^ (size v - p) % 2 = 0 := by
  have hs0 : size v - p ≠ 0 := by omega
  have hpos : 0 < 2 ^ (size v - p) := Nat.pow_pos (by decide)
  rcases rne_cases (p := p) (v := v) rfl hs0 with ⟨h, h'⟩ | ⟨h, h'⟩
  · rw [h, Nat.mul_div_cancel _ hpos]; omega
  · rw [h, Nat.mul_div_cancel _ hpos]; omega

/-- `rne p v` is a multiple of `2^s` in the rounding case, with quotient in `[2^(p-1), 2^p]` -/
theorem rne_form {p v : Nat} (hp : 1 ≤ p) (hs : p < size v) :
    ∃ m, rne p v = m * 2 ^ (size v - p) ∧ 2 ^ (p - 1) ≤ m ∧ m ≤ 2 ^ p ∧
      (m = v / 2 ^ (size v - p) ∨ m = v / 2 ^ (size v - p) + 1) := by
  have hs0 : size v - p ≠ 0 := by omega
  have hq := rne_parts hp hs
  rcases rne_cases (p := p) (v := v) rfl hs0 with ⟨h, _⟩ | ⟨h, _⟩
  · exact ⟨_, h, hq.1, by omega, Or.inl rfl⟩
  · exact ⟨_, h, by omega, by omega, Or.inr rfl⟩

theorem rne_representable {p v : Nat} (hp : 1 ≤ p) : Representable p (rne p v) := by
  by_cases hs : size v ≤ p
  · rw [rne_exact hs]; exact ⟨v, 0, size_le_iff.1 hs, by simp⟩
  · obtain ⟨m, hm, h1, h2, _⟩ := rne_form hp (show p < size v by omega)
    rcases Nat.lt_or_ge m (2 ^ p) with h | h
    · exact ⟨m, _, h, hm⟩
    · have : m = 2 ^ p := by omega
      subst this
      refine ⟨2 ^ (p - 1), size v - p + 1, Nat.pow_lt_pow_right (by decide) (by omega), ?_⟩
      rw [hm, ← Nat.pow_add, ← Nat.pow_add]; congr 1; omega

/-- rounding stays inside the closed binade of `v` -/
theorem rne_bounds {p v : Nat} (hp : 1 ≤ p) (hv : v ≠ 0) :
    2 ^ (size v - 1) ≤ rne p v ∧ rne p v ≤ 2 ^ size v := by
  by_cases hs : size v ≤ p
  · rw [rne_exact hs]; exact ⟨two_pow_size_le hv, Nat.le_of_lt (lt_two_pow_size v)⟩
  · obtain ⟨m, hm, h1, h2, _⟩ := rne_form hp (show p < size v by omega)
    rw [hm]; constructor
    · calc 2 ^ (size v - 1) = 2 ^ (p - 1) * 2 ^ (size v - p) := by
            rw [← Nat.pow_add]; congr 1; omega
        _ ≤ m * 2 ^ (size v - p) := Nat.mul_le_mul_right _ h1
    · calc m * 2 ^ (size v - p) ≤ 2 ^ p * 2 ^ (size v - p) := Nat.mul_le_mul_right _ h2
        _ = 2 ^ size v := by rw [← Nat.pow_add]; congr 1; omega

end Flt

/-! ### model: format side conditions, bit-level helpers -/

def FloatFmt.spec (F : FloatFmt) : Spec.Fmt := ⟨F.bits, F.p, F.emax⟩

/-- the side conditions on a format under which the theorems hold (both f32 and f64 satisfy them) -/
structure FloatFmt.Valid (F : FloatFmt) : Prop where
  hp : 2 ≤ F.p
  hbits : F.p + 3 ≤ F.bits
  hexp : F.bits - F.p ≤ 31
  hemax : F.emax = 2 ^ (F.bits - F.p - 1)

namespace Flt

theorem valid_f32 : fmtF32.Valid := ⟨by decide, by decide, by decide, by decide⟩
theorem valid_f64 : fmtF64.Valid := ⟨by decide, by decide, by decide, by decide⟩

theorem bitsOf_eq_size (v : Nat) : bitsOf v = size v := rfl

theorem xor_two_pow_of_ge {k m : Nat} (h1 : 2 ^ k ≤ m) (h2 : m < 2 ^ (k + 1)) :
    m ^^^ 2 ^ k = m - 2 ^ k := by
  obtain ⟨b, rfl⟩ := Nat.exists_eq_add_of_le h1
  have hb : b < 2 ^ k := by rw [Nat.pow_succ] at h2; omega
  rw [Nat.add_sub_cancel_left]
  apply Nat.eq_of_testBit_eq; intro i
  rw [Nat.testBit_xor, Nat.testBit_two_pow]
  rcases Nat.lt_trichotomy i k with h | h | h
  · have hne : k ≠ i := by omega
    rw [Nat.testBit_two_pow_add_gt h]; simp [hne]
  · subst h; rw [Nat.testBit_two_pow_add_eq, Nat.testBit_lt_two_pow hb]; simp
  · have h3 : 2 ^ (k + 1) ≤ 2 ^ i := Nat.pow_le_pow_right (by decide) h
    rw [Nat.testBit_lt_two_pow (show 2 ^ k + b < 2 ^ i by omega),
      Nat.testBit_lt_two_pow (show b < 2 ^ i by omega)]
    have hne : k ≠ i := by omega
    simp [hne]

theorem testBit_top {k m : Nat} (h1 : 2 ^ k ≤ m) (h2 : m < 2 ^ (k + 1)) : m.testBit k = true := by
  obtain ⟨b, rfl⟩ := Nat.exists_eq_add_of_le h1
  have hb : b < 2 ^ k := by rw [Nat.pow_succ] at h2; omega
  rw [Nat.testBit_two_pow_add_eq, Nat.testBit_lt_two_pow hb]; rfl

theorem fromRawParts_eq {F : FloatFmt} (hF : F.Valid) (dbg : Bool) {E f : Nat}
    (hE : E < 2 ^ (F.bits - F.p)) (hf : f < 2 ^ (F.p - 1)) :
    fromRawParts F dbg false E f = .ok (E * 2 ^ (F.p - 1) + f) := by
  obtain ⟨hp, hb, he, _⟩ := hF
  have h1 : bitsOf f ≤ F.p - 1 := by rw [bitsOf_eq_size]; exact size_le_iff.2 hf
  have h2 : E * 2 ^ (F.p - 1) < 2 ^ F.bits := by
    calc E * 2 ^ (F.p - 1) < 2 ^ (F.bits - F.p) * 2 ^ (F.p - 1) :=
          Nat.mul_lt_mul_of_pos_right hE (Nat.pow_pos (by decide))
      _ ≤ 2 ^ F.bits := by rw [← Nat.pow_add]; exact Nat.pow_le_pow_right (by decide) (by omega)
  have h3 : E < 2 ^ F.bits := Nat.lt_of_lt_of_le hE (Nat.pow_le_pow_right (by decide) (by omega))
  unfold fromRawParts
  simp only [h1, decide_true, Bool.not_true, Bool.and_false, Bool.false_eq_true, if_false]
  rw [Nat.mod_eq_of_lt h3, Nat.shiftLeft_eq, Nat.mod_eq_of_lt h2, ← Nat.shiftLeft_eq,
    ← Nat.shiftLeft_add_eq_or_of_lt hf]

theorem fromSignedParts_eq {F : FloatFmt} (hF : F.Valid) (dbg : Bool) {e m : Nat}
    (he : e ≤ F.emax) (h1 : 2 ^ (F.p - 1) ≤ m) (h2 : m < 2 ^ F.p) :
    fromSignedParts F dbg false (e : Int) m
      = .ok ((e + F.emax - 1) * 2 ^ (F.p - 1) + (m - 2 ^ (F.p - 1))) := by
  have hF' := hF
  obtain ⟨hp, hb, hx, hem⟩ := hF
  have hem2 : 2 * F.emax = 2 ^ (F.bits - F.p) := by
    rw [hem, ← Nat.pow_succ']; congr 1; omega
  have hem4 : 4 ≤ F.emax := by
    rw [hem]; calc 4 = 2 ^ 2 := rfl
      _ ≤ _ := Nat.pow_le_pow_right (by decide) (by omega)
  have hlt32 : 2 ^ (F.bits - F.p) ≤ 2 ^ 31 := Nat.pow_le_pow_right (by decide) hx
  have hpp : F.p = (F.p - 1) + 1 := by omega
  rw [hpp] at h2
  unfold fromSignedParts fromSignedBiasedParts bias
  have hnn : ¬ ((e : Int) + ((F.emax : Int) - 1) < 0) := by omega
  simp only [hnn, decide_false, Bool.and_false, Bool.false_eq_true, if_false]
  have hE : (((e : Int) + ((F.emax : Int) - 1)) % (2 ^ 32 : Int)).toNat = e + F.emax - 1 := by
    have : ((e : Int) + ((F.emax : Int) - 1)) = ((e + F.emax - 1 : Nat) : Int) := by omega
    rw [this]
    have h32 : ((2 : Int) ^ 32) = ((2 ^ 32 : Nat) : Int) := by norm_num
    rw [h32, ← Int.natCast_mod, Int.toNat_natCast]
    apply Nat.mod_eq_of_lt; omega
  rw [hE]
  unfold fromBiasedParts bit
  have hne : (e + F.emax - 1 != 0) = true := by simp; omega
  simp only [hne, Bool.not_true, Bool.and_false, Bool.false_eq_true, if_false, testBit_top h1 h2,
    if_true, Nat.one_shiftLeft]
  rw [xor_two_pow_of_ge h1 h2]
  exact fromRawParts_eq hF' dbg (by omega) (by omega)


theorem tzAux_spec : ∀ (fuel v : Nat), v ≠ 0 → v < 2 ^ fuel →
    2 ^ tzAux fuel v ∣ v ∧ ¬ 2 ^ (tzAux fuel v + 1) ∣ v
  | 0, v, hv, hlt => by simp at hlt; omega
  | fuel + 1, v, hv, hlt => by
    unfold tzAux
    by_cases hodd : v % 2 = 1
    · simp only [hodd, if_true]; constructor
      · simp
      · simp; omega
    · simp only [hodd, if_false]
      have hv2 : v / 2 ≠ 0 := by omega
      have hlt2 : v / 2 < 2 ^ fuel := by rw [Nat.pow_succ] at hlt; omega
      obtain ⟨h1, h2⟩ := tzAux_spec fuel (v / 2) hv2 hlt2
      have hv' : v = 2 * (v / 2) := by omega
      generalize tzAux fuel (v / 2) = k at *
      constructor
      · rw [hv', Nat.pow_succ, Nat.mul_comm]; exact Nat.mul_dvd_mul_left 2 h1
      · intro h; apply h2
        have e : 2 ^ (k + 1 + 1) = 2 * 2 ^ (k + 1) := by rw [Nat.pow_succ, Nat.mul_comm]
        rw [hv', e] at h
        exact (Nat.mul_dvd_mul_iff_left (by decide)).1 h

theorem two_pow_dvd_unique {v a b : Nat} (ha : 2 ^ a ∣ v) (ha' : ¬ 2 ^ (a + 1) ∣ v)
    (hb : 2 ^ b ∣ v) (hb' : ¬ 2 ^ (b + 1) ∣ v) : a = b := by
  rcases Nat.lt_trichotomy a b with h | h | h
  · exact absurd (Nat.dvd_trans (Nat.pow_dvd_pow 2 (show a + 1 ≤ b by omega)) hb) ha'
  · exact h
  · exact absurd (Nat.dvd_trans (Nat.pow_dvd_pow 2 (show b + 1 ≤ a by omega)) ha) hb'

theorem trailingZeros_eq_iff {W v k : Nat} (hv : v ≠ 0) :
    trailingZeros W v = k ↔ (2 ^ k ∣ v ∧ ¬ 2 ^ (k + 1) ∣ v) := by
  unfold trailingZeros; simp only [hv, if_false]
  have h := tzAux_spec (bitsOf v) v hv (lt_two_pow_size v)
  constructor
  · rintro rfl; exact h
  · rintro ⟨h1, h2⟩; exact two_pow_dvd_unique h.1 h.2 h1 h2

/-- bit `s-1` of `v` says whether the part below `2^s` is at least a half -/
theorem testBit_pred_eq {v s : Nat} (hs : 1 ≤ s) :
    v.testBit (s - 1) = decide (2 ^ s ≤ 2 * (v % 2 ^ s)) := by
  obtain ⟨t, rfl⟩ := Nat.exists_eq_add_of_le hs
  rw [Nat.add_comm, Nat.add_sub_cancel, Nat.testBit_eq_decide_div_mod_eq, Nat.pow_succ,
    ← Nat.mod_mul_right_div_self]
  have hpos : 0 < 2 ^ t := Nat.pow_pos (by decide)
  have hlt : v % (2 ^ t * 2) < 2 ^ t * 2 := Nat.mod_lt _ (by omega)
  generalize v % (2 ^ t * 2) = r at *
  congr 1; apply propext
  constructor
  · intro h
    have := Nat.div_mul_le_self r (2 ^ t); rw [h] at this; omega
  · intro h
    have h1 : 1 ≤ r / 2 ^ t := (Nat.le_div_iff_mul_le hpos).2 (by omega)
    have h2 : r / 2 ^ t < 2 := (Nat.div_lt_iff_lt_mul hpos).2 (by omega)
    omega

theorem roundUp_iff {W v s : Nat} (hs : 1 ≤ s) (hv : v ≠ 0) :
    (bit v (s - 1) && (bit (v / 2 ^ s) 0 || trailingZeros W v != s - 1)) = true ↔
      (2 * (v % 2 ^ s) > 2 ^ s ∨ (2 * (v % 2 ^ s) = 2 ^ s ∧ v / 2 ^ s % 2 = 1)) := by
  unfold bit
  rw [testBit_pred_eq hs, Nat.testBit_zero]
  have htz := trailingZeros_eq_iff (W := W) (k := s - 1) hv
  obtain ⟨t, rfl⟩ := Nat.exists_eq_add_of_le hs
  simp only [Nat.add_comm 1 t, Nat.add_sub_cancel] at *
  have hmm : v % 2 ^ (t + 1) % 2 ^ t = v % 2 ^ t :=
    Nat.mod_mod_of_dvd _ (Nat.pow_dvd_pow 2 (by omega))
  have hpos : 0 < 2 ^ t := Nat.pow_pos (by decide)
  have hlt : v % 2 ^ (t + 1) < 2 ^ (t + 1) := Nat.mod_lt _ (Nat.pow_pos (by decide))
  rw [Nat.dvd_iff_mod_eq_zero, Nat.dvd_iff_mod_eq_zero] at htz
  rw [Nat.pow_succ] at *
  generalize v % (2 ^ t * 2) = r at *
  generalize v / (2 ^ t * 2) = q at *
  simp only [Bool.and_eq_true, Bool.or_eq_true, decide_eq_true_eq, bne_iff_ne, ne_eq, htz]
  by_cases hge : 2 ^ t ≤ r
  · have : r % 2 ^ t = r - 2 ^ t := by
      rw [Nat.mod_eq_sub_mod hge]; exact Nat.mod_eq_of_lt (by omega)
    rw [← hmm, this]; omega
  · omega


/-! ### integer → float -/

theorem pow_split {a b : Nat} (h : b ≤ a) : 2 ^ a = 2 ^ b * 2 ^ (a - b) := by
  rw [← Nat.pow_add]; congr 1; omega

/-- the spec encoder on a value given as significand × power of two -/
theorem encodeNat_eq {F : Spec.Fmt} (hp : 1 ≤ F.p) {r e m : Nat}
    (h1 : 2 ^ (F.p - 1) ≤ m) (h2 : m < 2 ^ F.p)
    (hr : r * 2 ^ (F.p - 1) = m * 2 ^ e) (he : e < F.emax) :
    encodeNat F r = (e + F.emax - 1) * 2 ^ (F.p - 1) + (m - 2 ^ (F.p - 1)) := by
  have hpos : 0 < 2 ^ (F.p - 1) := Nat.pow_pos (by decide)
  have hepos : 0 < 2 ^ e := Nat.pow_pos (by decide)
  have hlo : 2 ^ e ≤ r := by
    have : 2 ^ e * 2 ^ (F.p - 1) ≤ r * 2 ^ (F.p - 1) := by
      rw [hr, Nat.mul_comm]; exact Nat.mul_le_mul_right _ h1
    exact Nat.le_of_mul_le_mul_right this hpos
  have hhi : r < 2 ^ (e + 1) := by
    have : r * 2 ^ (F.p - 1) < 2 ^ (e + 1) * 2 ^ (F.p - 1) := by
      rw [hr, Nat.pow_succ]
      calc m * 2 ^ e < 2 ^ F.p * 2 ^ e := Nat.mul_lt_mul_of_pos_right h2 hepos
        _ = 2 ^ e * 2 * 2 ^ (F.p - 1) := by
          rw [pow_split (show F.p - 1 ≤ F.p by omega), show F.p - (F.p - 1) = 1 by omega]; ring
    exact Nat.lt_of_mul_lt_mul_right this
  have hr0 : r ≠ 0 := by omega
  have hlog : Nat.log2 r = e := (Nat.log2_eq_iff hr0).2 ⟨hlo, hhi⟩
  have hfin : ¬ r ≥ 2 ^ F.emax := by
    have : 2 ^ (e + 1) ≤ 2 ^ F.emax := Nat.pow_le_pow_right (by decide) (by omega)
    omega
  unfold encodeNat
  simp only [hr0, hfin, if_false, hlog]
  congr 2
  split
  · next hge =>
    rw [pow_split hge, ← Nat.mul_assoc, Nat.mul_right_comm] at hr
    have := Nat.eq_of_mul_eq_mul_right hpos hr
    rw [this, Nat.mul_div_cancel _ (Nat.pow_pos (by decide))]
  · next hlt =>
    have hle : e ≤ F.p - 1 := by omega
    rw [pow_split hle, Nat.mul_comm (2 ^ e), ← Nat.mul_assoc] at hr
    exact Nat.eq_of_mul_eq_mul_right hepos hr

theorem encodeNat_overflow {F : Spec.Fmt} {r : Nat} (h : 2 ^ F.emax ≤ r) : encodeNat F r = posInf F := by
  have hr0 : r ≠ 0 := by have := Nat.pow_pos (n := F.emax) (show 0 < 2 by decide); omega
  unfold encodeNat; simp [hr0, h]

theorem infinity_eq {F : FloatFmt} (hF : F.Valid) : infinity F = posInf F.spec := by
  obtain ⟨hp, hb, hx, hem⟩ := hF
  unfold infinity posInf expBits FloatFmt.spec; simp only
  rw [hem, ← Nat.pow_succ']; congr 3; omega

theorem mantAdd_ok {F : FloatFmt} {dbg : Bool} {a b : Nat} (h : a + b < 2 ^ F.bits) :
    mantAdd F dbg a b = .ok (a + b) := by simp [mantAdd, h]

/-- the rounding block of `cast_float_from_uint` computes `rne` as significand × power of two -/
theorem roundMantissa_spec {F : FloatFmt} (hF : F.Valid) (W : Nat) (dbg : Bool) {v : Nat} (hv : v ≠ 0) :
    ∃ e m : Nat, roundMantissa F W dbg v (bitsOf v) ((bitsOf v - 1 : Nat) : Int) = .ok ((e : Int), m) ∧
      2 ^ (F.p - 1) ≤ m ∧ m < 2 ^ F.p ∧ rne F.p v * 2 ^ (F.p - 1) = m * 2 ^ e ∧
      (e = size v - 1 ∨ (e = size v ∧ m = 2 ^ (F.p - 1))) := by
  obtain ⟨hp, hb, hx, hem⟩ := hF
  rw [bitsOf_eq_size]
  have hn := size_pos hv
  have hlo := two_pow_size_le hv
  have hhi := lt_two_pow_size v
  have hpb : 2 ^ F.p < 2 ^ F.bits := Nat.pow_lt_pow_right (by decide) (by omega)
  unfold roundMantissa
  by_cases hs : size v ≤ F.p
  · -- exact
    simp only [hs, if_true]
    have hvb : v < 2 ^ F.bits := by
      have : 2 ^ size v ≤ 2 ^ F.p := Nat.pow_le_pow_right (by decide) hs
      omega
    have hm2 : v * 2 ^ (F.p - size v) < 2 ^ F.p := by
      rw [pow_split hs]; exact Nat.mul_lt_mul_of_pos_right hhi (Nat.pow_pos (by decide))
    have hm1 : 2 ^ (F.p - 1) ≤ v * 2 ^ (F.p - size v) := by
      rw [pow_split (show size v - 1 ≤ F.p - 1 by omega), show F.p - 1 - (size v - 1) = F.p - size v by omega]
      exact Nat.mul_le_mul_right _ hlo
    refine ⟨size v - 1, v * 2 ^ (F.p - size v), ?_, hm1, hm2, ?_, Or.inl rfl⟩
    · rw [Nat.mod_eq_of_lt hvb, Nat.shiftLeft_eq, Nat.mod_eq_of_lt (by omega)]
    · rw [rne_exact hs, Nat.mul_assoc, ← Nat.pow_add]; congr 2; omega
  · -- rounding
    have hs' : F.p < size v := by omega
    have hs1 : 1 ≤ size v - F.p := by omega
    simp only [hs, if_false]
    obtain ⟨hq1, hq2⟩ := rne_parts (show 1 ≤ F.p by omega) hs'
    have hs0 : size v - F.p ≠ 0 := by omega
    have hc := rne_cases (p := F.p) (v := v) rfl hs0
    rw [Nat.shiftRight_eq_div_pow, Nat.mod_eq_of_lt (show v / 2 ^ (size v - F.p) < 2 ^ F.bits by omega),
      ]
    have hru := roundUp_iff (W := W) hs1 hv
    have hexp : size v - 1 = (size v - F.p) + (F.p - 1) := by omega
    by_cases hcond : (bit v (size v - F.p - 1) && (bit (v / 2 ^ (size v - F.p)) 0 ||
        trailingZeros W v != size v - F.p - 1)) = true
    · have hup := hru.1 hcond
      have hr : rne F.p v = (v / 2 ^ (size v - F.p) + 1) * 2 ^ (size v - F.p) := by
        rcases hc with ⟨_, h⟩ | ⟨h, _⟩
        · omega
        · exact h
      rw [if_pos hcond, mantAdd_ok (by omega)]
      simp only [bit]
      by_cases hcarry : v / 2 ^ (size v - F.p) + 1 = 2 ^ F.p
      · rw [hcarry]
        simp only [Nat.testBit_two_pow_self, if_true]
        refine ⟨size v, 2 ^ (F.p - 1), ?_, Nat.le_refl _, Nat.pow_lt_pow_right (by decide) (by omega), ?_,
          Or.inr ⟨rfl, rfl⟩⟩
        · rw [Nat.shiftRight_eq_div_pow, Nat.pow_one]
          have : 2 ^ F.p / 2 = 2 ^ (F.p - 1) := by
            rw [pow_split (show 1 ≤ F.p by omega)]; simp
          rw [this]
          have : (((size v - 1 : Nat) : Int) + 1) = ((size v : Nat) : Int) := by omega
          rw [this]
        · rw [hr, hcarry, ← Nat.pow_add, ← Nat.pow_add, ← Nat.pow_add]; congr 1; omega
      · have hlt : v / 2 ^ (size v - F.p) + 1 < 2 ^ F.p := by omega
        simp only [Nat.testBit_lt_two_pow hlt, Bool.false_eq_true, if_false]
        refine ⟨size v - 1, _, rfl, by omega, hlt, ?_, Or.inl rfl⟩
        rw [hr, hexp, Nat.pow_add, Nat.mul_assoc]
    · have hup := fun h => hcond (hru.2 h)
      have hr : rne F.p v = (v / 2 ^ (size v - F.p)) * 2 ^ (size v - F.p) := by
        rcases hc with ⟨h, _⟩ | ⟨_, h⟩
        · exact h
        · exact absurd h hup
      rw [if_neg hcond]
      refine ⟨size v - 1, _, rfl, hq1, hq2, ?_, Or.inl rfl⟩
      rw [hr, hexp, Nat.pow_add, Nat.mul_assoc]


theorem emax_facts {F : FloatFmt} (hF : F.Valid) :
    2 * F.emax = 2 ^ (F.bits - F.p) ∧ 4 ≤ F.emax ∧ F.emax ≤ 2 ^ 30 := by
  obtain ⟨hp, hb, hx, hem⟩ := hF
  refine ⟨?_, ?_, ?_⟩
  · rw [hem, ← Nat.pow_succ']; congr 1; omega
  · rw [hem]; calc 4 = 2 ^ 2 := rfl
      _ ≤ _ := Nat.pow_le_pow_right (by decide) (by omega)
  · rw [hem]; exact Nat.pow_le_pow_right (by decide) (by omega)

/-- `cast_float_from_uint` returns the encoding of `rne p v` (+∞ on overflow) and never panics -/
theorem castFloatFromUint_spec {F : FloatFmt} (hF : F.Valid) (W : Nat) (dbg : Bool) (v : Nat) :
    castFloatFromUint F W dbg v = .ok (natToFloat F.spec v) := by
  obtain ⟨hem2, hem4, hem30⟩ := emax_facts hF
  have hp1 : 1 ≤ F.p := by have := hF.hp; omega
  unfold castFloatFromUint natToFloat
  by_cases hv : v = 0
  · subst hv; simp [bitsOf, zero, rne, size, encodeNat]
  · have hb0 : bitsOf v ≠ 0 := by rw [bitsOf_eq_size]; have := size_pos hv; omega
    simp only [hb0, if_false]
    obtain ⟨hlo, hhi⟩ := rne_bounds (p := F.p) hp1 hv
    by_cases hbig : F.emax ≤ size v - 1
    · -- overflow
      have hinf : encodeNat F.spec (rne F.spec.p v) = infinity F := by
        rw [infinity_eq hF]; apply encodeNat_overflow
        have : 2 ^ F.emax ≤ 2 ^ (size v - 1) := Nat.pow_le_pow_right (by decide) hbig
        exact Nat.le_trans this hlo
      rw [hinf, bitsOf_eq_size]
      by_cases h31 : 2 ^ 31 ≤ size v - 1
      · rw [if_pos h31]
      · have : ((size v - 1 : Nat) : Int) ≥ (F.emax : Int) := by omega
        rw [if_neg h31, if_pos this]
    · have h31 : ¬ 2 ^ 31 ≤ bitsOf v - 1 := by rw [bitsOf_eq_size]; omega
      have hlt : ¬ ((bitsOf v - 1 : Nat) : Int) ≥ (F.emax : Int) := by rw [bitsOf_eq_size]; omega
      simp only [h31, hlt, if_false]
      obtain ⟨e, m, hrm, hm1, hm2, hval, hcase⟩ := roundMantissa_spec hF W dbg hv
      rw [hrm]; simp only
      have he : e ≤ F.emax := by omega
      rw [fromSignedParts_eq hF dbg he hm1 hm2]
      congr 1
      by_cases hlt' : e < F.emax
      · exact (encodeNat_eq (F := F.spec) hp1 hm1 hm2 hval hlt').symm
      · have hee : e = F.emax := by omega
        have hmm : m = 2 ^ (F.p - 1) := by omega
        subst hmm
        rw [Nat.mul_comm (2 ^ (F.p - 1))] at hval
        have hr := Nat.eq_of_mul_eq_mul_right (Nat.pow_pos (by decide)) hval
        have : encodeNat F.spec (rne F.spec.p v) = posInf F.spec := by
          apply encodeNat_overflow; show 2 ^ F.emax ≤ rne F.p v; rw [hr, hee]
        rw [this, hee]; unfold posInf FloatFmt.spec; simp only
        rw [Nat.sub_self, Nat.add_zero]; congr 1; omega


theorem posInf_lt {F : FloatFmt} (hF : F.Valid) : posInf F.spec < 2 ^ (F.bits - 1) := by
  obtain ⟨hem2, hem4, hem30⟩ := emax_facts hF
  obtain ⟨hp, hb, hx, hem⟩ := hF
  unfold posInf FloatFmt.spec; simp only
  have : 2 ^ (F.bits - 1) = (2 * F.emax) * 2 ^ (F.p - 1) := by
    rw [hem2, ← Nat.pow_add]; congr 1; omega
  rw [this]
  exact Nat.mul_lt_mul_of_pos_right (by omega) (Nat.pow_pos (by decide))

/-- every result of the integer → float spec is a non-negative float `≤ +∞` -/
theorem natToFloat_le {F : FloatFmt} (hF : F.Valid) (v : Nat) : natToFloat F.spec v ≤ posInf F.spec := by
  have hp1 : 1 ≤ F.p := by have := hF.hp; omega
  by_cases hv : v = 0
  · subst hv; simp [natToFloat, rne, size, encodeNat]
  · obtain ⟨e, m, _, hm1, hm2, hval, hcase⟩ := roundMantissa_spec hF 0 true hv
    show encodeNat F.spec (rne F.p v) ≤ _
    by_cases hlt : e < F.emax
    · rw [encodeNat_eq (F := F.spec) hp1 hm1 hm2 hval hlt]
      unfold posInf FloatFmt.spec; simp only
      have h2 : m - 2 ^ (F.p - 1) < 2 ^ (F.p - 1) := by
        rw [pow_split (show F.p - 1 ≤ F.p by omega), show F.p - (F.p - 1) = 1 by omega] at hm2; omega
      have h3 : (e + F.emax - 1) + 1 ≤ 2 * F.emax - 1 := by omega
      have h4 := Nat.mul_le_mul_right (2 ^ (F.p - 1)) h3
      rw [Nat.add_mul] at h4; omega
    · unfold encodeNat; split
      · exact Nat.zero_le _
      · split
        · exact Nat.le_refl _
        · next h0 hfin =>
          exfalso; apply hfin
          have hpos : 0 < 2 ^ (F.p - 1) := Nat.pow_pos (by decide)
          have : 2 ^ F.emax * 2 ^ (F.p - 1) ≤ rne F.p v * 2 ^ (F.p - 1) := by
            rw [hval, Nat.mul_comm]
            exact Nat.mul_le_mul hm1 (Nat.pow_le_pow_right (by decide) (by omega))
          exact Nat.le_of_mul_le_mul_right this hpos

theorem patUnsignedAbs_eq {W pat : Nat} (hW : 1 ≤ W) (hpat : pat < 2 ^ W) :
    patUnsignedAbs W pat = (toInt (2 ^ W) pat).natAbs ∧
      (patIsNegative W pat = true ↔ toInt (2 ^ W) pat < 0) := by
  have h2 : 2 ^ W = 2 * 2 ^ (W - 1) := by
    rw [pow_split hW]; simp
  have hpos : 0 < 2 ^ (W - 1) := Nat.pow_pos (by decide)
  unfold patUnsignedAbs patIsNegative toInt
  generalize 2 ^ W = m at *; generalize 2 ^ (W - 1) = h at *
  by_cases hc : h ≤ pat
  · have hn : ¬ 2 * pat < m := by omega
    have hmod : (m - pat) % m = m - pat := Nat.mod_eq_of_lt (by omega)
    simp only [hc, hn, decide_true, if_true, if_false, hmod]
    constructor
    · omega
    · simp; omega
  · have hn : 2 * pat < m := by omega
    simp only [hc, hn, decide_false, if_true, Bool.false_eq_true, if_false]
    constructor
    · omega
    · simp

/-- `CastFrom<BInt<N>> for f32/f64`: the float nearest to the signed value, sign-symmetric -/
theorem floatFromBInt_spec {F : FloatFmt} (hF : F.Valid) {W : Nat} (hW : 1 ≤ W) (dbg : Bool) {pat : Nat}
    (hpat : pat < 2 ^ W) :
    floatFromBInt F W dbg pat = .ok (intToFloat F.spec (toInt (2 ^ W) pat)) := by
  obtain ⟨habs, hneg⟩ := patUnsignedAbs_eq hW hpat
  unfold floatFromBInt intToFloat
  rw [castFloatFromUint_spec hF, habs]; simp only
  have hle := natToFloat_le hF (toInt (2 ^ W) pat).natAbs
  have hlt := posInf_lt hF
  by_cases h : toInt (2 ^ W) pat < 0
  · rw [if_pos (hneg.2 h), if_pos h]
    unfold neg isSignNegative signBit
    rw [show F.spec.bits = F.bits from rfl]
    rw [decide_eq_false (by omega)]; simp only [Bool.false_eq_true, if_false]; rw [Nat.add_comm]
  · have : ¬ patIsNegative W pat = true := fun h' => h (hneg.1 h')
    rw [if_neg this, if_neg h]


/-! ### float → integer -/

theorem mask_shr {n j : Nat} (h : j ≤ n) : (2 ^ n - 1) >>> j = 2 ^ (n - j) - 1 := by
  rw [Nat.shiftRight_eq_div_pow, pow_split h]
  have hj : 0 < 2 ^ j := Nat.pow_pos (by decide)
  have ht : 0 < 2 ^ (n - j) := Nat.pow_pos (by decide)
  generalize 2 ^ j = a at *; generalize 2 ^ (n - j) = t at *
  obtain ⟨t', rfl⟩ : ∃ t', t = t' + 1 := ⟨t - 1, by omega⟩
  have : a * (t' + 1) - 1 = (a - 1) + a * t' := by rw [Nat.mul_add]; omega
  rw [this, Nat.add_mul_div_left _ _ hj, Nat.div_eq_of_lt (by omega)]; omega

/-- the three fields of a pattern -/
theorem fields {F : FloatFmt} (hF : F.Valid) {x : Nat} (_hx : x < 2 ^ F.bits) :
    let E := expField F.spec x
    let f := fracField F.spec x
    E < 2 * F.emax ∧ f < 2 ^ (F.p - 1) ∧ absBits F x = E * 2 ^ (F.p - 1) + f ∧
      intoRawParts F x = (signOf F.spec x, E, f) := by
  intro E f
  obtain ⟨hem2, hem4, hem30⟩ := emax_facts hF
  obtain ⟨hp, hb, hxx, hem⟩ := hF
  have hP : 0 < 2 ^ (F.p - 1) := Nat.pow_pos (by decide)
  have hsb : 2 ^ (F.bits - 1) = 2 ^ (F.p - 1) * (2 * F.emax) := by
    rw [hem2, ← Nat.pow_add]; congr 1; omega
  have hE : E = x % 2 ^ (F.bits - 1) / 2 ^ (F.p - 1) := rfl
  have hf : f = x % 2 ^ (F.p - 1) := rfl
  have hf' : f = x % 2 ^ (F.bits - 1) % 2 ^ (F.p - 1) := by
    rw [hf, Nat.mod_mod_of_dvd _ (Nat.pow_dvd_pow 2 (by omega))]
  have hablt : x % 2 ^ (F.bits - 1) < 2 ^ (F.bits - 1) := Nat.mod_lt _ (Nat.pow_pos (by decide))
  refine ⟨?_, ?_, ?_, ?_⟩
  · rw [hE, Nat.div_lt_iff_lt_mul hP, Nat.mul_comm, ← hsb]; exact hablt
  · rw [hf]; exact Nat.mod_lt _ hP
  · unfold absBits; rw [hE, hf', Nat.mul_comm]; exact (Nat.div_add_mod _ _).symm
  · unfold intoRawParts isSignNegative
    dsimp only
    rw [mask_shr (show 1 ≤ F.bits by omega), mask_shr (show F.bits - (F.p - 1) ≤ F.bits by omega),
      Nat.and_two_pow_sub_one_eq_mod, Nat.and_two_pow_sub_one_eq_mod, Nat.shiftRight_eq_div_pow,
      show F.bits - (F.bits - (F.p - 1)) = F.p - 1 by omega]
    rfl

theorem nan_inf_iff {F : FloatFmt} (hF : F.Valid) {x : Nat} (hx : x < 2 ^ F.bits) :
    isNan F x = Spec.isNaN F.spec x ∧ isInfinite F x = Spec.isInf F.spec x := by
  obtain ⟨hE, hf, habs, _⟩ := fields hF hx
  obtain ⟨hem2, hem4, hem30⟩ := emax_facts hF
  unfold isNan isInfinite Spec.isNaN Spec.isInf
  rw [habs, infinity_eq hF]; unfold posInf
  show (decide ((2 * F.emax - 1) * 2 ^ (F.p - 1) < _) = _) ∧ (decide (_ = (2 * F.emax - 1) * 2 ^ (F.p - 1)) = _)
  show (_ = (expField F.spec x == 2 * F.emax - 1 && _)) ∧ (_ = (expField F.spec x == 2 * F.emax - 1 && _))
  generalize expField F.spec x = E at *
  generalize fracField F.spec x = f at *
  generalize 2 ^ (F.p - 1) = P at *
  have key : ∀ a b : Bool, (a = true ↔ b = true) → a = b := fun a b h => by
    cases a <;> cases b <;> simp_all
  by_cases hEK : E = 2 * F.emax - 1
  · subst hEK
    constructor <;> apply key <;>
      simp only [decide_eq_true_eq, Bool.and_eq_true, beq_iff_eq, bne_iff_ne, ne_eq, true_and] <;>
      constructor <;> intro h <;> omega
  · have h1 : (E + 1) * P ≤ (2 * F.emax - 1) * P := Nat.mul_le_mul_right _ (by omega)
    rw [Nat.add_mul] at h1
    constructor <;> apply key <;>
      simp only [decide_eq_true_eq, Bool.and_eq_true, beq_iff_eq, bne_iff_ne, ne_eq] <;>
      constructor <;> intro h <;> omega


theorem or_one_shiftLeft {f k : Nat} (hf : f < 2 ^ k) : f ||| 1 <<< k = f + 2 ^ k := by
  have := Nat.two_pow_add_eq_or_of_lt hf 1
  rw [Nat.mul_one] at this
  rw [Nat.one_shiftLeft, Nat.or_comm, ← this, Nat.add_comm]

theorem normalised_normal {F : FloatFmt} (hF : F.Valid) {x : Nat} (hx : x < 2 ^ F.bits)
    (hE : expField F.spec x ≠ 0) :
    intoNormalisedSignedParts F x =
      (signOf F.spec x, (expField F.spec x : Int) - bias F, fracField F.spec x + 2 ^ (F.p - 1)) := by
  obtain ⟨_, hf, _, hraw⟩ := fields hF hx
  have hp := hF.hp
  unfold intoNormalisedSignedParts intoSignedParts intoSignedBiasedParts intoBiasedParts
  rw [hraw]; simp only [hE, if_false]
  rw [or_one_shiftLeft hf]
  have hm1 : 2 ^ (F.p - 1) ≤ fracField F.spec x + 2 ^ (F.p - 1) := by omega
  have hm2 : fracField F.spec x + 2 ^ (F.p - 1) < 2 ^ (F.p - 1 + 1) := by rw [Nat.pow_succ]; omega
  have hsz : bitsOf (fracField F.spec x + 2 ^ (F.p - 1)) = F.p := by
    rw [bitsOf_eq_size, size_eq_of_bounds hm1 hm2]; omega
  rw [hsz]; simp

theorem normalised_subnormal {F : FloatFmt} (hF : F.Valid) {x : Nat} (hx : x < 2 ^ F.bits)
    (hE : expField F.spec x = 0) :
    ∃ e m, intoNormalisedSignedParts F x = (signOf F.spec x, e, m) ∧ (m = 0 ∨ e ≤ -1) := by
  obtain ⟨_, hf, _, hraw⟩ := fields hF hx
  obtain ⟨hem2, hem4, hem30⟩ := emax_facts hF
  have hp := hF.hp
  unfold intoNormalisedSignedParts intoSignedParts intoSignedBiasedParts intoBiasedParts
  rw [hraw]; simp only [hE, if_true]
  split
  · next h =>
    refine ⟨_, _, rfl, ?_⟩
    simp only [Bool.or_eq_true, decide_eq_true_eq] at h
    rcases h with h | h
    · exact Or.inl h
    · exfalso
      have : bitsOf (fracField F.spec x) ≤ F.p - 1 := by rw [bitsOf_eq_size]; exact size_le_iff.2 hf
      omega
  · refine ⟨_, _, rfl, Or.inr ?_⟩
    unfold bias; omega

theorem truncMag_of_le {p m e : Nat} (hp : 1 ≤ p) (h : e ≤ p - 1) :
    truncMag m ((e : Int) - ((p : Int) - 1)) = m / 2 ^ (p - 1 - e) := by
  unfold truncMag
  by_cases h' : (e : Int) - ((p : Int) - 1) ≥ 0
  · have he : ((e : Int) - ((p : Int) - 1)).toNat = 0 := by omega
    have he' : p - 1 - e = 0 := by omega
    simp only [h', if_true, he, he']; simp
  · have he : (-((e : Int) - ((p : Int) - 1))).toNat = p - 1 - e := by omega
    simp only [h', if_false, he]

theorem truncMag_of_ge {p m e : Nat} (hp : 1 ≤ p) (h : p - 1 ≤ e) :
    truncMag m ((e : Int) - ((p : Int) - 1)) = m * 2 ^ (e - (p - 1)) := by
  unfold truncMag
  have h' : (e : Int) - ((p : Int) - 1) ≥ 0 := by omega
  have he : ((e : Int) - ((p : Int) - 1)).toNat = e - (p - 1) := by omega
  simp only [h', if_true, he]

/-- size of `⌊m·2^(e-(p-1))⌋` for a normalised significand -/
theorem truncMag_bounds {p m : Nat} (e : Nat) (hp : 1 ≤ p) (h1 : 2 ^ (p - 1) ≤ m) (h2 : m < 2 ^ p) :
    2 ^ e ≤ truncMag m ((e : Int) - ((p : Int) - 1)) ∧ truncMag m ((e : Int) - ((p : Int) - 1)) < 2 ^ (e + 1) := by
  by_cases h : p - 1 ≤ e
  · rw [truncMag_of_ge hp h]
    constructor
    · rw [pow_split h]; exact Nat.mul_le_mul_right _ h1
    · rw [pow_split (show p ≤ e + 1 by omega), show e + 1 - p = e - (p - 1) by omega]
      exact Nat.mul_lt_mul_of_pos_right h2 (Nat.pow_pos (by decide))
  · rw [truncMag_of_le hp (by omega)]
    have hpos : 0 < 2 ^ (p - 1 - e) := Nat.pow_pos (by decide)
    constructor
    · rw [Nat.le_div_iff_mul_le hpos, ← Nat.pow_add]
      rw [show e + (p - 1 - e) = p - 1 by omega]; exact h1
    · rw [Nat.div_lt_iff_lt_mul hpos, ← Nat.pow_add]
      rw [show e + 1 + (p - 1 - e) = p by omega]; exact h2

/-- the final shift of `cast_uint_from_float` on a normalised significand -/
theorem shiftMantissa_eq {p m : Nat} (W e : Nat) (hp : 1 ≤ p) (h1 : 2 ^ (p - 1) ≤ m) (h2 : m < 2 ^ p) :
    shiftMantissa W (e : Int) m = min (truncMag m ((e : Int) - ((p : Int) - 1))) (2 ^ W - 1) := by
  obtain ⟨hb1, hb2⟩ := truncMag_bounds e hp h1 h2
  have hsz : bitsOf m = p := by
    rw [bitsOf_eq_size, size_eq_of_bounds (k := p - 1) h1 (by rw [show p - 1 + 1 = p by omega]; exact h2)]
    omega
  have hWpos : 0 < 2 ^ W := Nat.pow_pos (by decide)
  unfold shiftMantissa
  have hn : ¬ ((e : Int) < 0) := by omega
  simp only [hn, if_false, Int.toNat_natCast, hsz]
  by_cases hW : e ≥ W
  · simp only [hW, if_true]
    have : 2 ^ W ≤ 2 ^ e := Nat.pow_le_pow_right (by decide) hW
    rw [Nat.min_eq_right (by omega)]
  · simp only [hW, if_false]
    have hlt : 2 ^ (e + 1) ≤ 2 ^ W := Nat.pow_le_pow_right (by decide) (by omega)
    rw [Nat.min_eq_left (by omega)]
    by_cases h : e ≤ p - 1
    · simp only [h, if_true]
      rw [truncMag_of_le hp h] at hb2 ⊢
      rw [Nat.shiftRight_eq_div_pow]
      exact Nat.mod_eq_of_lt (by omega)
    · simp only [h, if_false]
      rw [truncMag_of_ge hp (by omega)] at hb2 ⊢
      have hmW : m < 2 ^ W := by
        have : 2 ^ p ≤ 2 ^ W := Nat.pow_le_pow_right (by decide) (by omega)
        omega
      rw [Nat.mod_eq_of_lt hmW, Nat.shiftLeft_eq, Nat.mod_eq_of_lt (by omega)]


/-- `⌊|value|⌋` of a finite pattern -/
def truncOf (F : Spec.Fmt) (x : Nat) : Nat := truncMag (decodeFinite F x).1 (decodeFinite F x).2

theorem truncOf_subnormal {F : FloatFmt} (hF : F.Valid) {x : Nat} (hx : x < 2 ^ F.bits)
    (hE : expField F.spec x = 0) : truncOf F.spec x = 0 := by
  obtain ⟨_, hf, _, _⟩ := fields hF hx
  obtain ⟨hem2, hem4, hem30⟩ := emax_facts hF
  have hp := hF.hp
  unfold truncOf decodeFinite truncMag
  simp only [hE, if_true]
  show (if (2 - (F.emax : Int) - ((F.p : Int) - 1)) ≥ 0 then _ else _) = 0
  have hneg : ¬ (2 - (F.emax : Int) - ((F.p : Int) - 1)) ≥ 0 := by omega
  simp only [hneg, if_false]
  have he : (-(2 - (F.emax : Int) - ((F.p : Int) - 1))).toNat = (F.p - 1) + (F.emax - 2) := by omega
  show fracField F.spec x / 2 ^ (-(2 - (F.emax : Int) - ((F.p : Int) - 1))).toNat = 0
  rw [he]
  apply Nat.div_eq_of_lt
  have : 2 ^ (F.p - 1) ≤ 2 ^ (F.p - 1 + (F.emax - 2)) := Nat.pow_le_pow_right (by decide) (by omega)
  omega

theorem truncOf_normal {F : FloatFmt} {x : Nat} (hE : expField F.spec x ≠ 0) :
    truncOf F.spec x = truncMag (fracField F.spec x + 2 ^ (F.p - 1))
      ((expField F.spec x : Int) - bias F - ((F.p : Int) - 1)) := by
  unfold truncOf decodeFinite bias
  simp only [hE, if_false]; rfl

theorem truncMag_small {p m : Nat} {e : Int} (hp : 1 ≤ p) (h2 : m < 2 ^ p) (he : e ≤ -1) :
    truncMag m (e - ((p : Int) - 1)) = 0 := by
  unfold truncMag
  have hneg : ¬ (e - ((p : Int) - 1)) ≥ 0 := by omega
  simp only [hneg, if_false]
  apply Nat.div_eq_of_lt
  have : 2 ^ p ≤ 2 ^ (-(e - ((p : Int) - 1))).toNat := Nat.pow_le_pow_right (by decide) (by omega)
  omega

/-- `cast_uint_from_float` in terms of the decoded float -/
theorem castUintFromFloat_eq {F : FloatFmt} (hF : F.Valid) (W : Nat) {x : Nat} (hx : x < 2 ^ F.bits) :
    castUintFromFloat F W x =
      if Spec.isNaN F.spec x then 0
      else if signOf F.spec x then 0
      else if Spec.isInf F.spec x then 2 ^ W - 1
      else min (truncOf F.spec x) (2 ^ W - 1) := by
  obtain ⟨hElt, hf, _, _⟩ := fields hF hx
  obtain ⟨hem2, hem4, hem30⟩ := emax_facts hF
  obtain ⟨hnan, hinf⟩ := nan_inf_iff hF hx
  have hp := hF.hp
  unfold castUintFromFloat
  rw [hnan, hinf]
  by_cases hn : Spec.isNaN F.spec x = true
  · simp [hn]
  simp only [hn, Bool.false_eq_true, if_false]
  by_cases hE : expField F.spec x = 0
  · obtain ⟨e, m, hnorm, hcase⟩ := normalised_subnormal hF hx hE
    rw [hnorm]; simp only
    have hninf : Spec.isInf F.spec x = false := by
      unfold Spec.isInf; rw [hE]
      show ((0 : Nat) == 2 * F.emax - 1 && _) = false
      have : ((0 : Nat) == 2 * F.emax - 1) = false := by simp; omega
      rw [this]; rfl
    rw [truncOf_subnormal hF hx hE, hninf]
    by_cases hs : signOf F.spec x = true
    · simp [hs]
    · simp only [hs, Bool.false_eq_true, if_false, Nat.zero_min]
      rcases hcase with h | h
      · simp [h]
      · simp [h]
  · rw [normalised_normal hF hx hE, truncOf_normal hE]; simp only
    by_cases hs : signOf F.spec x = true
    · simp [hs]
    simp only [hs, Bool.false_eq_true, if_false]
    by_cases hi : Spec.isInf F.spec x = true
    · simp [hi]
    simp only [hi, Bool.false_eq_true, if_false]
    have hm1 : 2 ^ (F.p - 1) ≤ fracField F.spec x + 2 ^ (F.p - 1) := by omega
    have hm2 : fracField F.spec x + 2 ^ (F.p - 1) < 2 ^ F.p := by
      rw [pow_split (show F.p - 1 ≤ F.p by omega), show F.p - (F.p - 1) = 1 by omega]; omega
    have hm0 : fracField F.spec x + 2 ^ (F.p - 1) ≠ 0 := by
      have := Nat.pow_pos (n := F.p - 1) (show 0 < 2 by decide); omega
    simp only [hm0, if_false]
    by_cases hneg : (expField F.spec x : Int) - bias F ≤ -1
    · rw [if_pos hneg, truncMag_small (by omega) hm2 hneg]; simp
    · rw [if_neg hneg]
      have hcast : (expField F.spec x : Int) - bias F = ((expField F.spec x - (F.emax - 1) : Nat) : Int) := by
        unfold bias at *; omega
      rw [hcast]
      exact shiftMantissa_eq W _ (by omega) hm1 hm2


theorem wrapU_nonneg {m : Nat} {z : Int} (h0 : 0 ≤ z) (h1 : z < m) : wrapU m z = z.toNat := by
  unfold wrapU; rw [Int.emod_eq_of_lt h0 h1]

theorem wrapU_neg {m : Nat} {z : Int} (h0 : -(m : Int) ≤ z) (h1 : z < 0) : wrapU m z = (z + m).toNat := by
  unfold wrapU
  rw [← Int.add_emod_right, Int.emod_eq_of_lt (by omega) (by omega)]

/-- unsigned clamp of a non-negative integer -/
theorem clampU_pos {m : Nat} (hm : 0 < m) (t : Nat) : wrapU m (clamp false m (t : Int)) = min t (m - 1) := by
  unfold clamp minV maxV; simp only [Bool.false_eq_true, if_false]
  by_cases h : (t : Int) > (m : Int) - 1
  · have h' : ¬ (t : Int) < 0 := by omega
    simp only [h', h, if_true, if_false]; rw [wrapU_nonneg (by omega) (by omega)]; omega
  · have h' : ¬ (t : Int) < 0 := by omega
    simp only [h', h, if_false]; rw [wrapU_nonneg (by omega) (by omega)]; omega

theorem clampU_neg {m : Nat} (hm : 0 < m) (t : Nat) : wrapU m (clamp false m (-(t : Int))) = 0 := by
  unfold clamp minV maxV; simp only [Bool.false_eq_true, if_false]
  by_cases h : -(t : Int) < 0
  · simp only [h, if_true]; rfl
  · have h' : ¬ (-(t : Int) > (m : Int) - 1) := by omega
    simp only [h, h', if_false]; rw [wrapU_nonneg (by omega) (by omega)]; omega

theorem buintFromFloat_spec {F : FloatFmt} (hF : F.Valid) (W : Nat) {x : Nat} (hx : x < 2 ^ F.bits) :
    buintFromFloat F W x = Spec.floatToInt F.spec false (2 ^ W) x := by
  have hm : 0 < 2 ^ W := Nat.pow_pos (by decide)
  unfold buintFromFloat Spec.floatToInt
  rw [castUintFromFloat_eq hF W hx]
  by_cases hn : Spec.isNaN F.spec x = true
  · simp [hn]
  simp only [hn, Bool.false_eq_true, if_false]
  by_cases hs : signOf F.spec x = true
  · simp only [hs, if_true]
    by_cases hi : Spec.isInf F.spec x = true
    · simp only [hi, if_true, minV, Bool.false_eq_true, if_false]; rfl
    · simp only [hi, Bool.false_eq_true, if_false]
      exact (clampU_neg hm _).symm
  · simp only [hs, Bool.false_eq_true, if_false]
    by_cases hi : Spec.isInf F.spec x = true
    · simp only [hi, if_true, maxV, Bool.false_eq_true, if_false]
      rw [wrapU_nonneg (by omega) (by omega)]; omega
    · simp only [hi, Bool.false_eq_true, if_false]
      exact (clampU_pos hm _).symm


/-- negating a negative float clears the sign bit and keeps the other fields -/
theorem neg_fields {F : FloatFmt} (hF : F.Valid) {x : Nat} (hx : x < 2 ^ F.bits)
    (hs : signOf F.spec x = true) :
    neg F x < 2 ^ F.bits ∧ signOf F.spec (neg F x) = false ∧
      expField F.spec (neg F x) = expField F.spec x ∧ fracField F.spec (neg F x) = fracField F.spec x := by
  obtain ⟨hp, hb, _, _⟩ := hF
  have hsb : 2 ^ F.bits = 2 * 2 ^ (F.bits - 1) := by rw [pow_split (show 1 ≤ F.bits by omega)]; simp
  have hge : 2 ^ (F.bits - 1) ≤ x := of_decide_eq_true hs
  have hneg : neg F x = x - 2 ^ (F.bits - 1) := by
    unfold neg isSignNegative; simp [hge]
  have hmod : (x - 2 ^ (F.bits - 1)) % 2 ^ (F.bits - 1) = x % 2 ^ (F.bits - 1) := by
    rw [Nat.mod_eq_sub_mod hge]
  rw [hneg]
  refine ⟨by omega, ?_, ?_, ?_⟩
  · unfold signOf signBit FloatFmt.spec; simp only; simp; omega
  · unfold expField signBit FloatFmt.spec; simp only; rw [hmod]
  · unfold fracField FloatFmt.spec; simp only
    obtain ⟨k, hk⟩ : 2 ^ (F.p - 1) ∣ 2 ^ (F.bits - 1) := Nat.pow_dvd_pow 2 (by omega)
    obtain ⟨d, rfl⟩ := Nat.exists_eq_add_of_le hge
    rw [Nat.add_sub_cancel_left, hk, Nat.mul_add_mod]

theorem neg_decoded {F : FloatFmt} (hF : F.Valid) {x : Nat} (hx : x < 2 ^ F.bits)
    (hs : signOf F.spec x = true) :
    Spec.isNaN F.spec (neg F x) = Spec.isNaN F.spec x ∧ Spec.isInf F.spec (neg F x) = Spec.isInf F.spec x ∧
      truncOf F.spec (neg F x) = truncOf F.spec x := by
  obtain ⟨_, _, hE, hf⟩ := neg_fields hF hx hs
  unfold Spec.isNaN Spec.isInf truncOf decodeFinite
  rw [hE, hf]; exact ⟨rfl, rfl, rfl⟩

/-- signed clamps, `m = 2h` -/
theorem clampS_pos {m h : Nat} (hm : m = 2 * h) (hh : 0 < h) (t : Nat) :
    wrapU m (clamp true m (t : Int)) = if min t (m - 1) ≥ h then h - 1 else min t (m - 1) := by
  have hd : m / 2 = h := by omega
  unfold clamp minV maxV; simp only [if_true, hd]
  have h' : ¬ (t : Int) < -(h : Int) := by omega
  simp only [h', if_false]
  by_cases hc : (t : Int) > (h : Int) - 1
  · simp only [hc, if_true]; rw [wrapU_nonneg (by omega) (by omega)]
    rw [if_pos (by omega)]; omega
  · simp only [hc, if_false]; rw [wrapU_nonneg (by omega) (by omega)]
    rw [if_neg (by omega)]; omega

theorem clampS_neg {m h : Nat} (hm : m = 2 * h) (hh : 0 < h) (t : Nat) :
    wrapU m (clamp true m (-(t : Int))) = if min t (m - 1) ≥ h then h else (m - min t (m - 1)) % m := by
  have hd : m / 2 = h := by omega
  unfold clamp minV maxV; simp only [if_true, hd]
  by_cases hc : -(t : Int) < -(h : Int)
  · simp only [hc, if_true]; rw [wrapU_neg (by omega) (by omega), if_pos (by omega)]; omega
  · have h' : ¬ (-(t : Int) > (h : Int) - 1) := by omega
    simp only [hc, h', if_false]
    by_cases h0 : t = 0
    · subst h0; rw [wrapU_nonneg (by omega) (by omega), if_neg (by omega)]; simp
    · rw [wrapU_neg (by omega) (by omega)]
      by_cases hth : t = h
      · subst hth; rw [if_pos (by omega)]; omega
      · rw [if_neg (by omega), Nat.mod_eq_of_lt (by omega)]; omega

/-- `CastFrom<f32/f64> for BInt<N>`: NaN ↦ 0, else the truncated value clamped to `[MIN, MAX]` -/
theorem bintFromFloat_spec {F : FloatFmt} (hF : F.Valid) {W : Nat} (hW : 1 ≤ W) {x : Nat}
    (hx : x < 2 ^ F.bits) :
    bintFromFloat F W x = Spec.floatToInt F.spec true (2 ^ W) x := by
  have hm : 2 ^ W = 2 * 2 ^ (W - 1) := by rw [pow_split hW]; simp
  have hh : 0 < 2 ^ (W - 1) := Nat.pow_pos (by decide)
  have hd : 2 ^ W / 2 = 2 ^ (W - 1) := by omega
  unfold bintFromFloat Spec.floatToInt buintFromFloat patIsNegative
  have hsign : isSignNegative F x = signOf F.spec x := rfl
  rw [hsign]
  by_cases hs : signOf F.spec x = true
  · obtain ⟨hx', hs', _, _⟩ := neg_fields hF hx hs
    obtain ⟨hn', hi', ht'⟩ := neg_decoded hF hx hs
    simp only [hs, if_true]
    rw [castUintFromFloat_eq hF W hx', hn', hi', ht', hs']
    simp only [Bool.false_eq_true, if_false]
    by_cases hn : Spec.isNaN F.spec x = true
    · simp only [hn, if_true]
      rw [if_neg (by omega)]; simp
    simp only [hn, Bool.false_eq_true, if_false]
    by_cases hi : Spec.isInf F.spec x = true
    · simp only [hi, if_true, minV, hd]
      rw [if_pos (by omega), wrapU_neg (by omega) (by omega)]; omega
    · simp only [hi, Bool.false_eq_true, if_false]
      rw [clampS_neg hm hh]; rfl
  · simp only [hs, Bool.false_eq_true, if_false]
    rw [castUintFromFloat_eq hF W hx]
    simp only [hs, Bool.false_eq_true, if_false]
    by_cases hn : Spec.isNaN F.spec x = true
    · simp only [hn, if_true]
      rw [decide_eq_false (by omega)]; simp
    simp only [hn, Bool.false_eq_true, if_false]
    by_cases hi : Spec.isInf F.spec x = true
    · simp only [hi, if_true, maxV, hd]
      rw [decide_eq_true (by omega)]; simp only [if_true]
      rw [wrapU_nonneg (by omega) (by omega)]; omega
    · simp only [hi, Bool.false_eq_true, if_false]
      rw [clampS_pos hm hh]
      simp only [decide_eq_true_eq, ge_iff_le]; rfl


/-! ### the encoder against the decoder (sanity of the specification) -/

/-- decoding the encoding of a finite representable number gives back its significand and exponent -/
theorem decode_encode {F : FloatFmt} (hF : F.Valid) {r e m : Nat}
    (h1 : 2 ^ (F.p - 1) ≤ m) (h2 : m < 2 ^ F.p)
    (hr : r * 2 ^ (F.p - 1) = m * 2 ^ e) (he : e < F.emax) :
    let x := encodeNat F.spec r
    x < 2 ^ F.bits ∧ signOf F.spec x = false ∧ Spec.isNaN F.spec x = false ∧ Spec.isInf F.spec x = false ∧
      decodeFinite F.spec x = (m, (e : Int) - ((F.p : Int) - 1)) := by
  intro x
  obtain ⟨hem2, hem4, hem30⟩ := emax_facts hF
  have hp := hF.hp
  have hb := hF.hbits
  have hP : 0 < 2 ^ (F.p - 1) := Nat.pow_pos (by decide)
  have hx : x = (e + F.emax - 1) * 2 ^ (F.p - 1) + (m - 2 ^ (F.p - 1)) :=
    encodeNat_eq (F := F.spec) (by show 1 ≤ F.p; omega) h1 h2 hr he
  have hfr : m - 2 ^ (F.p - 1) < 2 ^ (F.p - 1) := by
    rw [pow_split (show F.p - 1 ≤ F.p by omega), show F.p - (F.p - 1) = 1 by omega] at h2; omega
  have hsb : 2 ^ (F.bits - 1) = (2 * F.emax) * 2 ^ (F.p - 1) := by
    rw [hem2, ← Nat.pow_add]; congr 1; omega
  have hxlt : x < 2 ^ (F.bits - 1) := by
    have h3 : (e + F.emax - 1) + 1 ≤ 2 * F.emax := by omega
    have h4 := Nat.mul_le_mul_right (2 ^ (F.p - 1)) h3
    rw [Nat.add_mul] at h4; rw [hx, hsb]; omega
  have hE : expField F.spec x = e + F.emax - 1 := by
    unfold expField signBit
    show x % 2 ^ (F.bits - 1) / 2 ^ (F.p - 1) = _
    rw [Nat.mod_eq_of_lt hxlt, hx, Nat.add_comm, Nat.mul_comm, Nat.add_mul_div_left _ _ hP,
      Nat.div_eq_of_lt hfr, Nat.zero_add]
  have hf : fracField F.spec x = m - 2 ^ (F.p - 1) := by
    unfold fracField
    show x % 2 ^ (F.p - 1) = _
    rw [hx, Nat.add_comm, Nat.mul_comm, Nat.add_mul_mod_self_left, Nat.mod_eq_of_lt hfr]
  have hbits : 2 ^ (F.bits - 1) < 2 ^ F.bits := Nat.pow_lt_pow_right (by decide) (by omega)
  have hne : (e + F.emax - 1 == 2 * F.emax - 1) = false := by simp; omega
  refine ⟨by omega, ?_, ?_, ?_, ?_⟩
  · unfold signOf signBit; show decide (2 ^ (F.bits - 1) ≤ x) = false; simp; omega
  · unfold Spec.isNaN; rw [hE]; show ((e + F.emax - 1 == 2 * F.emax - 1) && _) = false; rw [hne]; rfl
  · unfold Spec.isInf; rw [hE]; show ((e + F.emax - 1 == 2 * F.emax - 1) && _) = false; rw [hne]; rfl
  · unfold decodeFinite; rw [hE, hf]
    have h0 : e + F.emax - 1 ≠ 0 := by omega
    simp only [h0, if_false]
    show (m - 2 ^ (F.p - 1) + 2 ^ (F.p - 1), ((e + F.emax - 1 : Nat) : Int) - ((F.emax : Int) - 1) - ((F.p : Int) - 1)) = _
    congr 1
    · omega
    · omega

/-- round trip: the float produced for `v` has exactly the value `rne p v` (when finite) -/
theorem truncOf_natToFloat {F : FloatFmt} (hF : F.Valid) {v : Nat} (hfin : rne F.p v < 2 ^ F.emax) :
    truncOf F.spec (natToFloat F.spec v) = rne F.p v := by
  have hp := hF.hp
  by_cases hv : v = 0
  · subst hv
    have : natToFloat F.spec 0 = 0 := by simp [natToFloat, rne, size, encodeNat]
    rw [this, truncOf_subnormal hF (Nat.pow_pos (by decide))]
    · simp [rne, size]
    · unfold expField; simp
  · obtain ⟨e, m, _, hm1, hm2, hval, hcase⟩ := roundMantissa_spec hF 0 true hv
    have he : e < F.emax := by
      by_contra hge
      have hpos : 0 < 2 ^ (F.p - 1) := Nat.pow_pos (by decide)
      have : 2 ^ F.emax * 2 ^ (F.p - 1) ≤ rne F.p v * 2 ^ (F.p - 1) := by
        rw [hval, Nat.mul_comm]
        exact Nat.mul_le_mul hm1 (Nat.pow_le_pow_right (by decide) (by omega))
      have := Nat.le_of_mul_le_mul_right this hpos
      omega
    obtain ⟨_, _, _, _, hdec⟩ := decode_encode hF hm1 hm2 hval he
    unfold truncOf natToFloat
    show truncMag (decodeFinite F.spec (encodeNat F.spec (rne F.p v))).1 (decodeFinite F.spec (encodeNat F.spec (rne F.p v))).2 = _
    rw [hdec]; simp only
    by_cases hle : F.p - 1 ≤ e
    · rw [truncMag_of_ge (by omega) hle]
      rw [pow_split hle, ← Nat.mul_assoc, Nat.mul_right_comm] at hval
      exact (Nat.eq_of_mul_eq_mul_right (Nat.pow_pos (by decide)) hval).symm
    · rw [truncMag_of_le (by omega) (by omega)]
      rw [pow_split (show e ≤ F.p - 1 by omega), Nat.mul_comm (2 ^ e), ← Nat.mul_assoc] at hval
      have := Nat.eq_of_mul_eq_mul_right (Nat.pow_pos (by decide)) hval
      rw [← this, Nat.mul_div_cancel _ (Nat.pow_pos (by decide))]


end Flt
end Bnum
