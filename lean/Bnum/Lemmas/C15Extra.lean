/-
  Bnum.Lemmas.C15Extra — helper lemmas for the big-endian "short"/"long" clauses and the signed
  (two's-complement) reading of the `*_bytes` methods of Props/C15.lean.
-/
import Bnum.Lemmas.Endian
set_option autoImplicit false
namespace Bnum
namespace Endian
open Bnum.Spec.Endian

/-- the least significant `k` entries of the reversed list are the last `k` entries, reversed -/
theorem reverse_take_eq (bs : List Nat) (k : Nat) :
    bs.reverse.take k = (bs.drop (bs.length - k)).reverse := by
  rw [List.reverse_drop]
  by_cases h : k ≤ bs.length
  · congr 1; omega
  · have h1 : bs.length - (bs.length - k) = bs.length := by omega
    rw [h1, List.take_of_length_le (by simp; omega), List.take_of_length_le (by simp)]

/-- the entries of the reversed list beyond the first `k` are the first `len - k` entries, reversed -/
theorem reverse_drop_eq (bs : List Nat) (k : Nat) :
    bs.reverse.drop k = (bs.take (bs.length - k)).reverse := by
  rw [List.reverse_take]
  by_cases h : k ≤ bs.length
  · congr 1; omega
  · have h1 : bs.length - (bs.length - k) = bs.length := by omega
    rw [h1, List.drop_of_length_le (by simp; omega), List.drop_of_length_le (by simp)]

/-- the pattern of a well-formed integer is the two's-complement pattern of its signed value -/
theorem U_eq_wrapU_S {w n : Nat} {x : List Nat} (hx : WF w n x) : wrapU (M w n) (S w x) = U w x := by
  unfold S; rw [hx.1]; exact wrapU_toInt (U_lt hx)

theorem Bytes_leBytes (k v : Nat) : Bytes (leBytes k v) := by
  rw [leBytes_eq]; intro b hb; have := (WF_ofNat 8 k v).2 b hb; rwa [B8] at this

theorem leBytes_length (k v : Nat) : (leBytes k v).length = k := by
  rw [leBytes_eq]; exact ofNat_length 8 k v

theorem leValue_leBytes {k v : Nat} (hv : v < M 8 k) : leValue (leBytes k v) = v := by
  rw [leValue_eq, leBytes_eq, U_ofNat, Nat.mod_eq_of_lt hv]

/-- the little-endian two's-complement reading of the `n*bw` bytes of a pattern is its signed value -/
theorem twosLE_leBytes {bw n : Nat} {x : List Nat} (hx : WF (8 * bw) n x) :
    twosLE (leBytes (n * bw) (U (8 * bw) x)) = S (8 * bw) x := by
  have hv : U (8 * bw) x < M 8 (n * bw) := by
    have := U_lt hx; rwa [M_bytes, Nat.mul_comm bw n] at this
  rw [twosLE_eq (Bytes_leBytes _ _)]
  unfold S
  rw [leBytes_length, ← leValue_eq, leValue_leBytes hv, hx.1, M_bytes, Nat.mul_comm bw n]

theorem twosBE_beBytes {bw n : Nat} {x : List Nat} (hx : WF (8 * bw) n x) :
    twosBE (beBytes (n * bw) (U (8 * bw) x)) = S (8 * bw) x := by
  rw [twosBE_eq_twosLE_reverse]; unfold beBytes; rw [List.reverse_reverse]; exact twosLE_leBytes hx

/-- signed reading of a byte string of exactly `n*bw` bytes = signed value of the integer of that pattern -/
theorem S_of_U_eq_leValue {bw n : Nat} {x bytes : List Nat} (hx : WF (8 * bw) n x) (hb : Bytes bytes)
    (hlen : bytes.length = n * bw) (h : U (8 * bw) x = leValue bytes) : S (8 * bw) x = twosLE bytes := by
  rw [twosLE_eq hb]; unfold S
  rw [hx.1, hlen, M_bytes, Nat.mul_comm bw n, h, leValue_eq]

end Endian
end Bnum
