/-
  Bnum.Lemmas.C03Extra — additions to the C03 (division / remainder) lemma base.
    1. the `cfg(debug_assertions)`-dependent operators when the exact result is NOT representable
       (debug: panic, release: the wrapped value)
    2. `next_multiple_of` (unsigned and signed) when the multiple is not representable
    3. signed `div_floor` / `div_ceil` of `MIN / -1` (what the code does: `MIN`, no panic)
    4. Algorithm D never executes `q_hat -= 1` with `q_hat = 0` (the decrement is an overflow-checked
       subtraction in debug builds; Model/Div.lean writes it as truncated subtraction)
-/
import Bnum.Lemmas.Div
import Bnum.Model.C03Extra
namespace Bnum
namespace DivX
open DivL

/-! ### 1. operators on overflow -/

theorem ovfS_op_ovf {w n : Nat} {p : List Nat × Bool} {z : Int} (h : OvfS w n p z)
    (hrep : ¬ repS (M w n) z) :
    Outcome.expect (tupleToOption p) = .panic ∧ WF w n p.1 ∧ S w p.1 = wrapS (M w n) z := by
  obtain ⟨h1, h2, h3⟩ := h
  have hf : p.2 = true := by rw [h3]; simpa using hrep
  exact ⟨by simp [tupleToOption, hf, Outcome.expect], h1, h2⟩

theorem ovfU_op_ovf {w n : Nat} {p : List Nat × Bool} {z : Int} (h : OvfU w n p z)
    (hrep : ¬ repU (M w n) z) :
    Outcome.expect (tupleToOption p) = .panic ∧ WF w n p.1 ∧ (U w p.1 : Int) = wrapU (M w n) z := by
  obtain ⟨h1, h2, h3⟩ := h
  have hf : p.2 = true := by rw [h3]; simpa using hrep
  exact ⟨by simp [tupleToOption, hf, Outcome.expect], h1, h2⟩

/-- unsuffixed unsigned `add` on overflow: debug panics, release wraps -/
theorem uOpAdd_ovf {w n : Nat} {a b : List Nat} (ha : WF w n a) (hb : WF w n b)
    (hov : M w n ≤ U w a + U w b) :
    KD.uOpAdd true w a b = .panic ∧
    ∃ r, KD.uOpAdd false w a b = .ok r ∧ WF w n r ∧
      U w r = wrapU (M w n) ((U w a : Int) + (U w b : Int)) := by
  obtain ⟨h1, h2, h3⟩ := ovfU_op_ovf (UI.overflowingAdd_spec ha hb) (by unfold repU; omega)
  exact ⟨h1, _, rfl, h2, by exact_mod_cast h3⟩

/-- unsuffixed signed `add` on overflow -/
theorem iOpAdd_ovf {w n : Nat} {a b : List Nat} (hw : 2 ≤ w) (hn : 1 ≤ n) (ha : WF w n a)
    (hb : WF w n b) (hov : ¬ repS (M w n) (S w a + S w b)) :
    KD.iOpAdd true w a b = .panic ∧
    ∃ r, KD.iOpAdd false w a b = .ok r ∧ WF w n r ∧ S w r = wrapS (M w n) (S w a + S w b) := by
  obtain ⟨h1, _, _⟩ := ovfS_op_ovf (II.overflowingAdd_spec hw hn ha hb) hov
  obtain ⟨g1, g2⟩ := II.wrappingAdd_spec ha hb
  exact ⟨h1, _, rfl, g1, g2⟩

/-- unsuffixed signed `sub` on overflow -/
theorem iOpSub_ovf {w n : Nat} {a b : List Nat} (hw : 2 ≤ w) (hn : 1 ≤ n) (ha : WF w n a)
    (hb : WF w n b) (hov : ¬ repS (M w n) (S w a - S w b)) :
    KD.iOpSub true w a b = .panic ∧
    ∃ r, KD.iOpSub false w a b = .ok r ∧ WF w n r ∧ S w r = wrapS (M w n) (S w a - S w b) := by
  obtain ⟨h1, _, _⟩ := ovfS_op_ovf (II.overflowingSub_spec hw hn ha hb) hov
  obtain ⟨g1, g2⟩ := II.wrappingSub_spec ha hb
  exact ⟨h1, _, rfl, g1, g2⟩

/-! ### 2. `next_multiple_of` when the multiple is not representable -/

theorem nextMultiple_nat (x y : Nat) (hy : y ≠ 0) :
    Spec.nextMultiple x y = if x % y = 0 then (x : Int) else ((x + (y - x % y) : Nat) : Int) := by
  have hml := Nat.mod_lt x (show 0 < y by omega)
  rw [nextMultiple_eq _ _ (by omega), ← Int.natCast_mod]
  by_cases h : x % y = 0
  · simp [h]
  · have h' : ¬ (((x % y : Nat) : Int) = 0) := by omega
    rw [if_neg h', if_neg h, if_pos (by omega)]
    omega

/-- `BUint::next_multiple_of`, multiple ≥ 2^BITS: debug panics (`self + (rhs - rem)` is the
    overflow-checked `add`), release returns the multiple modulo 2^BITS -/
theorem u_nextMultipleOf_overflow {w n : Nat} {a b : List Nat} (hU : UDivSpec w n)
    (ha : WF w n a) (hb : WF w n b) (hb0 : U w b ≠ 0)
    (hov : ¬ (Spec.nextMultiple (U w a) (U w b) < M w n)) :
    UI.nextMultipleOf true w a b = .panic ∧
    ∃ r, UI.nextMultipleOf false w a b = .ok r ∧ WF w n r ∧
      U w r = wrapU (M w n) (Spec.nextMultiple (U w a) (U w b)) := by
  obtain ⟨q, r, h, wq, wr, uq, ur⟩ := hU a b ha hb hb0
  have hz : isZero b = false := (isZero_false_iff_U b).mpr hb0
  have hml := Nat.mod_lt (U w a) (show 0 < U w b by omega)
  have hla := U_lt ha
  unfold UI.nextMultipleOf UI.wrappingRem UI.checkedRem
  rw [hz]; simp only [Bool.false_eq_true, if_false, h, Outcome.map, Outcome.bind, Outcome.expect]
  rw [nextMultiple_nat _ _ hb0, ← ur] at hov ⊢
  have hzr : isZero r = decide (U w r = 0) := bool_eq_decide (isZero_iff_U r)
  rw [hzr]
  by_cases hr : U w r = 0
  · exfalso; rw [if_pos hr] at hov; apply hov; exact_mod_cast hla
  · simp only [hr, decide_false, Bool.false_eq_true, if_false] at hov ⊢
    obtain ⟨s, c1, c2, c3⟩ := uOpSub_ok hb wr (by omega) true
    obtain ⟨s', c1', c2', c3'⟩ := uOpSub_ok hb wr (by omega) false
    rw [c1, c1']; simp only
    have hge : M w n ≤ U w a + (U w b - U w r) := by
      have : ¬ (((U w a + (U w b - U w r) : Nat) : Int) < (M w n : Int)) := hov
      omega
    obtain ⟨p1, -⟩ := uOpAdd_ovf ha c2 (by rw [c3]; exact hge)
    obtain ⟨-, d, e1, e2, e3⟩ := uOpAdd_ovf ha c2' (by rw [c3']; exact hge)
    refine ⟨p1, d, e1, e2, ?_⟩
    rw [e3, c3']; push_cast [Nat.cast_sub (show U w r ≤ U w b by omega)]; rfl

/-- `BInt::next_multiple_of`, multiple outside `[MIN, MAX]`: debug panics (in the final `add` for a
    positive divisor, in the final `sub` for a negative one), release returns the two's-complement
    wrap of the multiple -/
theorem i_nextMultipleOf_overflow {w n : Nat} {a b : List Nat} (hw : 2 ≤ w) (hn : 1 ≤ n)
    (hU : UDivSpec w n) (ha : WF w n a) (hb : WF w n b) (hb0 : S w b ≠ 0)
    (hov : ¬ repS (M w n) (Spec.nextMultiple (S w a) (S w b))) :
    II.nextMultipleOf true w a b = .panic ∧
    ∃ r, II.nextMultipleOf false w a b = .ok r ∧ WF w n r ∧
      S w r = wrapS (M w n) (Spec.nextMultiple (S w a) (S w b)) := by
  have hw1 : 1 ≤ w := by omega
  unfold II.nextMultipleOf
  obtain ⟨r, h, wr, sr⟩ := II.i_wrappingRemEuclid_spec hw hn hU ha hb hb0 true
  obtain ⟨r', h', wr', sr'⟩ := II.i_wrappingRemEuclid_spec hw hn hU ha hb hb0 false
  have er : r' = r := S_inj wr' wr (by rw [sr, sr'])
  subst er
  rw [h, h']; simp only
  rw [nextMultiple_eq _ _ hb0, ← sr] at hov ⊢
  have hz : isZero r' = decide (S w r' = 0) := bool_eq_decide (II.isZero_iff_S wr)
  rw [hz, isNegative_eq_decide hw1 hn wr, isNegative_eq_decide hw1 hn hb]
  have hnn : 0 ≤ S w r' := by rw [sr]; exact Int.emod_nonneg _ hb0
  have hlt : S w r' < (S w b).natAbs := by rw [sr]; have := Int.emod_lt (S w a) hb0; omega
  have rb := S_repS hw1 hn hb
  have rA := S_repS hw1 hn ha
  unfold repS at rb
  have hme := M_even hw1 hn
  by_cases nr : S w r' = 0
  · exfalso; rw [if_pos nr] at hov; exact hov rA
  · have nrn : ¬ S w r' < 0 := by omega
    simp only [nr, nrn, decide_false, Bool.false_eq_true, if_false] at hov ⊢
    by_cases nb : S w b < 0
    · have pb : ¬ 0 < S w b := by omega
      simp only [nb, pb, decide_true, if_false, show (false == true) = false from rfl,
        Bool.false_eq_true] at hov ⊢
      exact iOpSub_ovf hw hn ha wr hov
    · have pb : 0 < S w b := by omega
      simp only [nb, pb, decide_false, if_true, beq_self_eq_true] at hov ⊢
      obtain ⟨s, c1, c2, c3⟩ := iOpSub_ok hw hn hb wr (by unfold repS; omega) true
      obtain ⟨s', c1', c2', c3'⟩ := iOpSub_ok hw hn hb wr (by unfold repS; omega) false
      rw [c1, c1']; simp only
      obtain ⟨p1, -⟩ := iOpAdd_ovf hw hn ha c2 (by rw [c3]; exact hov)
      obtain ⟨-, d, e1, e2, e3⟩ := iOpAdd_ovf hw hn ha c2' (by rw [c3']; exact hov)
      exact ⟨p1, d, e1, e2, by rw [e3, c3']⟩

/-! ### 3. signed `div_floor` / `div_ceil` of `MIN / -1` -/

/-- `BInt::div_rem_unchecked(MIN, -1)` = `(MIN, 0)` in both build modes: the magnitudes divide to
    `2^(BITS-1)`, whose bit pattern read back as a `BInt` is `MIN`; both signs are negative, so only
    the (zero) remainder is negated -/
theorem i_divRemUnchecked_min_neg_one {w n : Nat} {a b : List Nat} (hw : 2 ≤ w) (hn : 1 ≤ n)
    (hU : UDivSpec w n) (ha : WF w n a) (hb : WF w n b)
    (hov : S w a = -((M w n / 2 : Nat) : Int) ∧ S w b = -1) (dbg : Bool) :
    II.divRemUnchecked dbg w a b = .ok (iMin w n, zero n) := by
  have hw1 : 1 ≤ w := by omega
  have hM4 := M_ge_four hw hn
  have hme := M_even hw1 hn
  unfold II.divRemUnchecked
  rw [ha.1]
  have hone : isOne b = false := by
    cases h : isOne b with
    | false => rfl
    | true =>
      have := (II.isOne_iff_S hw hn hb).mp h
      omega
  simp only [hone, Bool.and_false, Bool.false_eq_true, if_false]
  obtain ⟨wa, ua⟩ := II.unsignedAbs_spec hw hn ha
  obtain ⟨wb, ub⟩ := II.unsignedAbs_spec hw hn hb
  obtain ⟨q, r, hqr, wq, wr, uq, ur⟩ := hU _ _ wa wb (by rw [ub, hov.2]; decide)
  rw [hqr]; simp only
  rw [ua, ub, hov.1, hov.2] at uq ur
  have e1 : (-((M w n / 2 : Nat) : Int)).natAbs = M w n / 2 := by omega
  have e2 : (-1 : Int).natAbs = 1 := rfl
  rw [e1, e2, Nat.div_one] at uq
  rw [e1, e2, Nat.mod_one] at ur
  have eq : q = iMin w n := U_injective wq (WF_iMin hw1 hn) (by rw [uq, U_iMin hw1 hn])
  have er : r = zero n := U_injective wr (WF_zero w n) (by rw [ur, U_zero])
  subst eq; subst er
  rw [isNegative_eq_decide hw1 hn ha, isNegative_eq_decide hw1 hn hb]
  have na : S w a < 0 := by omega
  have nb : S w b < 0 := by omega
  simp only [na, nb, decide_true]
  obtain ⟨r', e1, e2, e3⟩ := iOpNeg_ok hw hn (WF_zero w n) (by rw [S_zero]; unfold repS; omega) dbg
  rw [e1]
  have : r' = zero n := S_inj e2 (WF_zero w n) (by rw [e3, S_zero]; simp)
  rw [this]

/-- `BInt::div_floor(MIN, -1)` and `BInt::div_ceil(MIN, -1)` return `MIN` and do not panic, in both
    build modes (the exact quotient `2^(BITS-1)` is not representable; no overflow is reported) -/
theorem i_divFloorCeil_min_neg_one {w n : Nat} {a b : List Nat} (hw : 2 ≤ w) (hn : 1 ≤ n)
    (hU : UDivSpec w n) (ha : WF w n a) (hb : WF w n b)
    (hov : S w a = -((M w n / 2 : Nat) : Int) ∧ S w b = -1) (dbg : Bool) :
    II.divFloor dbg w a b = .ok (iMin w n) ∧ II.divCeil dbg w a b = .ok (iMin w n) := by
  have hz : isZero b = false := II.isZero_false hb (by omega)
  have hzz : isZero (zero n) = true := (isZero_iff_U (w := w) _).mpr (U_zero w n)
  unfold II.divFloor II.divCeil
  rw [hz, i_divRemUnchecked_min_neg_one hw hn hU ha hb hov dbg]
  simp [hzz]

end DivX

/-! ### 4. `q_hat -= 1` is never executed at `q_hat = 0` -/
namespace KD

/-- a correction test against the product `0 · v[n-2]` is false -/
theorem tupleGt_mul_zero (w vn2 : Nat) (p : Nat × Nat) :
    tupleGt (Digit.wideningMul w 0 vn2) p = false := by
  simp [tupleGt, Digit.wideningMul]

/-- … hence a correction decrement (D3) always finds `q_hat ≥ 1` -/
theorem tupleGt_pos {w qh vn2 : Nat} {p : Nat × Nat}
    (h : tupleGt (Digit.wideningMul w qh vn2) p = true) : qh ≠ 0 := by
  rintro rfl; rw [tupleGt_mul_zero] at h; cases h

theorem decDigit_pos (dbg : Bool) (w : Nat) {q : Nat} (h : q ≠ 0) : decDigit dbg w q = .ok (q - 1) := by
  simp [decDigit, h]

theorem mulLoop_zero (w : Nat) : ∀ (v : List Nat), mulLoop w 0 v 0 = List.replicate (v.length + 1) 0
  | [] => rfl
  | d :: ds => by
    have h : Digit.carryingMul w d 0 0 0 = (0, 0) := by simp [Digit.carryingMul]
    simp only [mulLoop, h, mulLoop_zero w ds, List.length_cons, List.replicate_succ]

/-- subtracting an all-zero product leaves no borrow -/
theorem subLoopK_zeros (w : Nat) : ∀ (k : Nat) (u : List Nat) (c : Nat),
    (subLoopK w k u (List.replicate c 0) false).2 = false
  | 0, _, _ => rfl
  | k + 1, [], c => by cases c <;> rfl
  | k + 1, x :: u, 0 => rfl
  | k + 1, x :: u, c + 1 => by
    have h : (Digit.borrowingSub w x 0 false).2 = false := by
      simp [Digit.borrowingSub, Prim.uOverflowingSub]
    simp only [List.replicate_succ, subLoopK, h]
    exact subLoopK_zeros w k u c

/-- … hence the add-back decrement (D5/D6) always finds `q_hat ≥ 1`: a borrow out of the
    multiply-subtract step is impossible with `q_hat = 0` -/
theorem remSub_borrow_pos {w : Nat} {u v : List Nat} {qh j n : Nat}
    (h : (remSub w u (mulNew w v qh) j n).2 = true) : qh ≠ 0 := by
  rintro rfl
  unfold remSub mulNew at h
  rw [mulLoop_zero] at h
  simp only at h
  rw [subLoopK_zeros] at h
  cases h

theorem qHatC_eq (dbg : Bool) (w n vn1 vn2 : Nat) (u : List Nat) (j : Nat) :
    qHatC dbg w n vn1 vn2 u j = .ok (qHat w n vn1 vn2 u j) := by
  unfold qHatC qHat
  simp only
  split_ifs with h1 h2
  · rw [decDigit_pos dbg w (tupleGt_pos h2)]
    simp only
    cases hc : uCheckedAdd w _ vn1 with
    | none => rfl
    | some rh' =>
      simp only
      split_ifs with h3
      · rw [decDigit_pos dbg w (tupleGt_pos h3)]
      · rfl
  · rfl
  · rfl

theorem stepC_eq (dbg : Bool) (w n : Nat) (v : List Nat) (vn1 vn2 : Nat) (u : List Nat) (j : Nat) :
    stepC dbg w n v vn1 vn2 u j = .ok (step w n v vn1 vn2 u j) := by
  unfold stepC step
  rw [qHatC_eq]
  simp only
  split_ifs with h
  · rw [decDigit_pos dbg w (remSub_borrow_pos h)]
  · rfl

theorem loopC_eq (dbg : Bool) (w n : Nat) (v : List Nat) (vn1 vn2 : Nat) :
    ∀ (j : Nat) (u q : List Nat),
      loopC dbg w n v vn1 vn2 j u q = .ok (loop w n v vn1 vn2 j u q)
  | 0, _, _ => rfl
  | j + 1, u, q => by
    unfold loopC loop
    rw [stepC_eq]
    exact loopC_eq dbg w n v vn1 vn2 j _ _

/-- Algorithm D with the decrements as compiled (checked in debug, wrapping in release) is the
    function of Model/Div.lean, on all inputs: no hidden debug panic, no release wrap-around -/
theorem basecaseDivRemC_eq (dbg : Bool) (w : Nat) (a v : List Nat) (n : Nat) :
    basecaseDivRemC dbg w a v n = basecaseDivRem w a v n := by
  unfold basecaseDivRemC basecaseDivRem
  simp only [loopC_eq]

end KD
end Bnum
