import Bnum.Model.Basic
import Mathlib.Tactic.Ring
import Mathlib.Tactic.Linarith
import Mathlib.Tactic.Positivity
import Mathlib.Tactic.LinearCombination

namespace Bnum

theorem B_pos (w : Nat) : 0 < B w := Nat.pow_pos (by decide)
theorem B_ge_two {w : Nat} (hw : 1 ≤ w) : 2 ≤ B w := by
  unfold B; calc 2 = 2 ^ 1 := rfl
    _ ≤ 2 ^ w := Nat.pow_le_pow_right (by decide) hw
theorem B_even {w : Nat} (hw : 1 ≤ w) : B w = 2 * (B w / 2) := by
  unfold B; obtain ⟨k, rfl⟩ := Nat.exists_eq_add_of_le hw
  rw [Nat.pow_add]; omega
theorem M_eq_pow (w n : Nat) : M w n = B w ^ n := by unfold M B; rw [Nat.pow_mul]
theorem M_pos (w n : Nat) : 0 < M w n := Nat.pow_pos (by decide)
theorem M_succ (w n : Nat) : M w (n + 1) = B w * M w n := by
  rw [M_eq_pow, M_eq_pow, Nat.pow_succ, Nat.mul_comm]
theorem M_zero (w : Nat) : M w 0 = 1 := by simp [M]
theorem M_even {w n : Nat} (hw : 1 ≤ w) (hn : 1 ≤ n) : M w n = 2 * (M w n / 2) := by
  obtain ⟨k, rfl⟩ := Nat.exists_eq_add_of_le hn
  rw [Nat.add_comm, M_succ]; have := B_even hw
  generalize M w k = m at *; generalize B w = b at *
  rw [this, Nat.mul_assoc]; omega

@[simp] theorem U_nil (w : Nat) : U w [] = 0 := rfl
@[simp] theorem U_cons (w d : Nat) (ds : List Nat) : U w (d :: ds) = d + B w * U w ds := rfl

theorem WF_nil (w : Nat) : WF w 0 [] := ⟨rfl, by simp⟩
theorem WF_cons {w n d : Nat} {ds : List Nat} :
    WF w (n + 1) (d :: ds) ↔ d < B w ∧ WF w n ds := by
  simp [WF]; constructor
  · rintro ⟨h1, h2, h3⟩; exact ⟨h2, h1, h3⟩
  · rintro ⟨h1, h2, h3⟩; exact ⟨h2, h1, h3⟩
theorem WF.length {w n : Nat} {x : List Nat} (h : WF w n x) : x.length = n := h.1

theorem U_lt {w n : Nat} {x : List Nat} (h : WF w n x) : U w x < M w n := by
  induction x generalizing n with
  | nil => obtain ⟨h1, _⟩ := h; simp at h1; subst h1; simp [M]
  | cons d ds ih =>
    cases n with
    | zero => exact absurd h.1 (by simp)
    | succ n =>
      rw [WF_cons] at h
      have := ih h.2
      rw [M_succ, U_cons]
      have hB := B_pos w
      generalize B w = b at *; generalize M w n = m at *; generalize U w ds = u at *
      have : b * (u + 1) ≤ b * m := Nat.mul_le_mul_left _ this
      rw [Nat.mul_add] at this; omega

theorem U_append (w : Nat) (x y : List Nat) : U w (x ++ y) = U w x + B w ^ x.length * U w y := by
  induction x with
  | nil => simp
  | cons d ds ih => simp [ih, Nat.pow_succ]; ring

theorem U_replicate_zero (w n : Nat) : U w (List.replicate n 0) = 0 := by
  induction n with
  | zero => rfl
  | succ n ih => simp [List.replicate_succ, ih]

/-- The representation is canonical: equal values ⇒ equal digit lists. -/
theorem U_injective {w n : Nat} {x y : List Nat} (hx : WF w n x) (hy : WF w n y)
    (h : U w x = U w y) : x = y := by
  induction x generalizing n y with
  | nil =>
    have := hx.1; simp at this; subst this
    have := hy.1; simp at this; exact this.symm
  | cons a as ih =>
    cases n with
    | zero => exact absurd hx.1 (by simp)
    | succ n =>
      cases y with
      | nil => exact absurd hy.1 (by simp)
      | cons b bs =>
        rw [WF_cons] at hx hy
        simp only [U_cons] at h
        have hB := B_pos w
        have h1 : (a + B w * U w as) % B w = (b + B w * U w bs) % B w := by rw [h]
        rw [Nat.add_mul_mod_self_left, Nat.add_mul_mod_self_left,
          Nat.mod_eq_of_lt hx.1, Nat.mod_eq_of_lt hy.1] at h1
        subst h1
        have h2 : U w as = U w bs := by
          have : B w * U w as = B w * U w bs := by omega
          exact Nat.eq_of_mul_eq_mul_left hB this
        rw [ih hx.2 hy.2 h2]

/-! ### two's complement -/
theorem toInt_of_lt {m u : Nat} (h : 2 * u < m) : toInt m u = u := by simp [toInt, h]
theorem toInt_of_ge {m u : Nat} (h : m ≤ 2 * u) : toInt m u = (u : Int) - m := by
  simp [toInt]; omega
theorem toInt_emod {m u : Nat} (hu : u < m) : (toInt m u) % (m : Int) = u := by
  unfold toInt; split
  · exact Int.emod_eq_of_lt (by omega) (by omega)
  · rw [Int.sub_emod, Int.emod_self, Int.sub_zero, Int.emod_emod_of_dvd _ (Int.dvd_refl _)]
    exact Int.emod_eq_of_lt (by omega) (by omega)
theorem wrapU_lt {m : Nat} (hm : 0 < m) (z : Int) : wrapU m z < m := by
  unfold wrapU
  have h1 := Int.emod_nonneg z (show (m : Int) ≠ 0 by omega)
  have h2 := Int.emod_lt_of_pos z (show (0 : Int) < m by omega)
  omega
theorem wrapU_of_rep {m : Nat} {z : Int} (h : repU m z) : (wrapU m z : Int) = z := by
  unfold wrapU repU at *
  rw [Int.emod_eq_of_lt h.1 h.2]; omega
theorem wrapU_natCast {m : Nat} (u : Nat) : wrapU m (u : Int) = u % m := by
  unfold wrapU; rw [← Int.natCast_mod]; exact Int.toNat_natCast _
theorem wrapU_toInt {m u : Nat} (hu : u < m) : wrapU m (toInt m u) = u := by
  unfold wrapU; rw [toInt_emod hu]; simp
theorem wrapU_congr {m : Nat} {z z' : Int} (h : z % (m : Int) = z' % m) : wrapU m z = wrapU m z' := by
  unfold wrapU; rw [h]
theorem toInt_repS {m u : Nat} (hm : m = 2 * (m / 2)) (hu : u < m) : repS m (toInt m u) := by
  unfold repS toInt; split <;> constructor <;> omega
theorem wrapS_of_rep {m : Nat} {z : Int} (hm : 0 < m) (h : repS m z) : wrapS m z = z := by
  unfold wrapS toInt repS wrapU at *
  have h1 := Int.emod_nonneg z (show (m : Int) ≠ 0 by omega)
  have h2 := Int.emod_lt_of_pos z (show (0 : Int) < m by omega)
  by_cases hz : 0 ≤ z
  · have : z % (m : Int) = z := Int.emod_eq_of_lt hz (by omega)
    rw [this]; split <;> omega
  · have : z % (m : Int) = z + m := by
      have : (z + m) % (m : Int) = z + m := Int.emod_eq_of_lt (by omega) (by omega)
      rw [← this]; simp
    rw [this]; split <;> omega

/-- a two's-complement value is determined by its residue and representability -/
theorem toInt_eq_of_emod {m u : Nat} {z : Int} (hm : 0 < m) (hu : u < m) (hz : repS m z)
    (h : z % (m : Int) = u) : toInt m u = z := by
  have := wrapS_of_rep hm hz
  unfold wrapS wrapU at this; rw [h] at this; simpa using this

theorem S_def (w : Nat) (x : List Nat) : S w x = toInt (M w x.length) (U w x) := rfl

end Bnum

namespace Bnum
theorem B_half_ge_two {w : Nat} (hw : 2 ≤ w) : 2 ≤ B w / 2 := by
  unfold B; obtain ⟨k, rfl⟩ := Nat.exists_eq_add_of_le hw
  rw [Nat.pow_add]; have := Nat.pow_pos (n := k) (show 0 < 2 by decide); omega

theorem bne_decide {P Q R : Prop} [Decidable P] [Decidable Q] [Decidable R]
    (h : ((P ∧ ¬Q) ∨ (¬P ∧ Q)) ↔ R) : (decide P != decide Q) = decide R := by
  by_cases hP : P <;> by_cases hQ : Q <;> by_cases hR : R <;> simp_all
end Bnum
