/-
  Bnum.Lemmas.C14Extra — additions to Lemmas/Float.lean for property C14:
  * `ExactValue m e r`: the finite float with significand `m` and exponent `e` has EXACTLY the value `r`
    (`m · 2^e = r` over the rationals, stated without division);
  * `natToFloat_finite` / `intToFloat_finite`: the float the spec (hence, by `castFloatFromUint_spec`, the
    model) produces for an integer whose rounded magnitude is below `2^emax` is a finite, non-NaN pattern
    with the right sign whose decoded value is exactly `± rne p |z|`;
  * `rne_overflow_iff`: rounding reaches `2^emax` exactly from `2^emax − 2^(emax−p−1)` on (the largest
    finite float plus half an ulp): the arithmetic meaning of "the magnitude exceeds the largest finite float";
  * `intToFloat_overflow`: signed infinity.
-/
import Bnum.Lemmas.Float
namespace Bnum
open Spec
namespace Flt

/-- `m · 2^e = r` as rational numbers -/
def ExactValue (m : Nat) (e : Int) (r : Nat) : Prop :=
  if 0 ≤ e then m * 2 ^ e.toNat = r else m = r * 2 ^ (-e).toNat

instance (m : Nat) (e : Int) (r : Nat) : Decidable (ExactValue m e r) := by
  unfold ExactValue; exact inferInstance

theorem exactValue_of_scaled {p m e r : Nat} (hp : 1 ≤ p) (h : r * 2 ^ (p - 1) = m * 2 ^ e) :
    ExactValue m ((e : Int) - ((p : Int) - 1)) r := by
  unfold ExactValue
  by_cases hle : p - 1 ≤ e
  · have h0 : (0 : Int) ≤ (e : Int) - ((p : Int) - 1) := by omega
    have he : ((e : Int) - ((p : Int) - 1)).toNat = e - (p - 1) := by omega
    rw [if_pos h0, he]
    rw [pow_split hle, ← Nat.mul_assoc, Nat.mul_right_comm] at h
    exact (Nat.eq_of_mul_eq_mul_right (Nat.pow_pos (by decide)) h).symm
  · have h0 : ¬ (0 : Int) ≤ (e : Int) - ((p : Int) - 1) := by omega
    have he : (-((e : Int) - ((p : Int) - 1))).toNat = p - 1 - e := by omega
    rw [if_neg h0, he]
    rw [pow_split (show e ≤ p - 1 by omega), Nat.mul_comm (2 ^ e), ← Nat.mul_assoc] at h
    exact (Nat.eq_of_mul_eq_mul_right (Nat.pow_pos (by decide)) h).symm

/-- the all-zero pattern is `+0.0` -/
theorem zero_pattern {F : FloatFmt} (hF : F.Valid) :
    signOf F.spec 0 = false ∧ Spec.isNaN F.spec 0 = false ∧ Spec.isInf F.spec 0 = false ∧
      (decodeFinite F.spec 0).1 = 0 := by
  obtain ⟨hem2, hem4, hem30⟩ := emax_facts hF
  have hE : expField F.spec 0 = 0 := by unfold expField; simp
  have hf : fracField F.spec 0 = 0 := by unfold fracField; simp
  have hne : ((0 : Nat) == 2 * F.emax - 1) = false := by simp; omega
  refine ⟨?_, ?_, ?_, ?_⟩
  · unfold signOf signBit
    have : 0 < 2 ^ (F.spec.bits - 1) := Nat.pow_pos (by decide)
    simp
  · unfold Spec.isNaN; rw [hE]; show ((0 == 2 * F.emax - 1) && _) = false; rw [hne]; rfl
  · unfold Spec.isInf; rw [hE]; show ((0 == 2 * F.emax - 1) && _) = false; rw [hne]; rfl
  · unfold decodeFinite; rw [hE, hf]; simp

/-- the float produced for a natural number whose rounding stays below `2^emax` is finite, non-negative,
    not a NaN, and its decoded value is EXACTLY `rne p v` -/
theorem natToFloat_finite {F : FloatFmt} (hF : F.Valid) {v : Nat} (hfin : rne F.p v < 2 ^ F.emax) :
    natToFloat F.spec v < 2 ^ F.bits ∧ signOf F.spec (natToFloat F.spec v) = false ∧
      Spec.isNaN F.spec (natToFloat F.spec v) = false ∧ Spec.isInf F.spec (natToFloat F.spec v) = false ∧
      ExactValue (decodeFinite F.spec (natToFloat F.spec v)).1 (decodeFinite F.spec (natToFloat F.spec v)).2
        (rne F.p v) := by
  have hp := hF.hp
  by_cases hv : v = 0
  · subst hv
    have h0 : natToFloat F.spec 0 = 0 := by simp [natToFloat, rne, size, encodeNat]
    have hr : rne F.p 0 = 0 := by simp [rne, size]
    obtain ⟨h1, h2, h3, h4⟩ := zero_pattern hF
    rw [h0, hr]
    refine ⟨Nat.pow_pos (by decide), h1, h2, h3, ?_⟩
    rw [h4]; unfold ExactValue; split <;> simp
  · obtain ⟨e, m, _, hm1, hm2, hval, _⟩ := roundMantissa_spec hF 0 true hv
    have he : e < F.emax := by
      by_contra hge
      have hpos : 0 < 2 ^ (F.p - 1) := Nat.pow_pos (by decide)
      have : 2 ^ F.emax * 2 ^ (F.p - 1) ≤ rne F.p v * 2 ^ (F.p - 1) := by
        rw [hval, Nat.mul_comm]
        exact Nat.mul_le_mul hm1 (Nat.pow_le_pow_right (by decide) (by omega))
      have := Nat.le_of_mul_le_mul_right this hpos
      omega
    obtain ⟨hx, hs, hn, hi, hdec⟩ := decode_encode hF hm1 hm2 hval he
    refine ⟨hx, hs, hn, hi, ?_⟩
    show ExactValue (decodeFinite F.spec (encodeNat F.spec (rne F.p v))).1
      (decodeFinite F.spec (encodeNat F.spec (rne F.p v))).2 _
    rw [hdec]
    exact exactValue_of_scaled (by omega) hval

/-- setting the sign bit changes neither the exponent field nor the fraction field -/
theorem fields_add_signBit {F : FloatFmt} (hF : F.Valid) (y : Nat) :
    expField F.spec (signBit F.spec + y) = expField F.spec y ∧
      fracField F.spec (signBit F.spec + y) = fracField F.spec y := by
  have hp := hF.hp
  have hb := hF.hbits
  constructor
  · unfold expField; rw [Nat.add_mod_left]
  · unfold fracField signBit
    show (2 ^ (F.bits - 1) + y) % 2 ^ (F.p - 1) = y % 2 ^ (F.p - 1)
    rw [pow_split (show F.p - 1 ≤ F.bits - 1 by omega), Nat.mul_add_mod_self_left]

/-- the float produced for an integer whose rounded magnitude stays below `2^emax`: finite, not a NaN, sign bit
    set exactly for negative integers, magnitude EXACTLY `rne p |z|` -/
theorem intToFloat_finite {F : FloatFmt} (hF : F.Valid) {z : Int} (hfin : rne F.p z.natAbs < 2 ^ F.emax) :
    intToFloat F.spec z < 2 ^ F.bits ∧ signOf F.spec (intToFloat F.spec z) = decide (z < 0) ∧
      Spec.isNaN F.spec (intToFloat F.spec z) = false ∧ Spec.isInf F.spec (intToFloat F.spec z) = false ∧
      ExactValue (decodeFinite F.spec (intToFloat F.spec z)).1 (decodeFinite F.spec (intToFloat F.spec z)).2
        (rne F.p z.natAbs) := by
  obtain ⟨hx, hs, hn, hi, hv⟩ := natToFloat_finite hF hfin
  have hb := hF.hbits
  unfold intToFloat
  by_cases hz : z < 0
  · rw [if_pos hz]
    generalize natToFloat F.spec z.natAbs = y at *
    have hylt : y < 2 ^ (F.bits - 1) := by
      unfold signOf signBit at hs
      have : y < 2 ^ (F.spec.bits - 1) := by simpa using hs
      exact this
    obtain ⟨hE, hf⟩ := fields_add_signBit hF y
    have h2 : 2 ^ F.bits = 2 * 2 ^ (F.bits - 1) := by
      rw [pow_split (show 1 ≤ F.bits by omega)]; simp
    refine ⟨?_, ?_, ?_, ?_, ?_⟩
    · show 2 ^ (F.bits - 1) + y < 2 ^ F.bits; omega
    · unfold signOf; simp [hz]
    · unfold Spec.isNaN at hn ⊢; rw [hE, hf]; exact hn
    · unfold Spec.isInf at hi ⊢; rw [hE, hf]; exact hi
    · unfold decodeFinite at hv ⊢; rw [hE, hf]; exact hv
  · rw [if_neg hz]
    exact ⟨hx, by rw [hs]; simp [hz], hn, hi, hv⟩

/-- signed infinity when the rounded magnitude reaches `2^emax` -/
theorem intToFloat_overflow {F : Spec.Fmt} {z : Int} (h : 2 ^ F.emax ≤ rne F.p z.natAbs) :
    intToFloat F z = if z < 0 then signBit F + posInf F else posInf F := by
  unfold intToFloat natToFloat; rw [encodeNat_overflow h]

/-- `rne p v` reaches `2^emax` exactly when `v ≥ 2^emax − 2^(emax−p−1)`, i.e. from the largest number with
    `p` significant bits below `2^emax` plus half a unit in its last place -/
theorem rne_overflow_iff {p emax v : Nat} (hp : 1 ≤ p) (hpe : p + 1 ≤ emax) :
    2 ^ emax ≤ rne p v ↔ 2 ^ emax - 2 ^ (emax - p - 1) ≤ v := by
  -- notation: s = emax - p ≥ 1, t = 2^(s-1), 2^s = 2t, P = 2^p, 2^emax = P * 2^s
  have hs1 : 1 ≤ emax - p := by omega
  have hE : 2 ^ emax = 2 ^ p * 2 ^ (emax - p) := pow_split (by omega)
  have hS : 2 ^ (emax - p) = 2 * 2 ^ (emax - p - 1) := by
    rw [pow_split hs1]; simp
  have hP : 2 ^ p = 2 * 2 ^ (p - 1) := by rw [pow_split hp]; simp
  have hE1 : 2 ^ emax = 2 * 2 ^ (emax - 1) := by rw [pow_split (show 1 ≤ emax by omega)]; simp
  have hTle : 2 ^ (emax - p - 1) ≤ 2 ^ (emax - 1) := Nat.pow_le_pow_right (by decide) (by omega)
  have htpos : 0 < 2 ^ (emax - p - 1) := Nat.pow_pos (by decide)
  have hspos : 0 < 2 ^ (emax - p) := Nat.pow_pos (by decide)
  -- the common part: `size v = emax`
  have key : 2 ^ (emax - 1) ≤ v → v < 2 ^ emax →
      (2 ^ emax ≤ rne p v ↔ 2 ^ emax - 2 ^ (emax - p - 1) ≤ v) := by
    intro hlo hhi
    have hsz : size v = emax := by
      have := size_eq_of_bounds (k := emax - 1) hlo (by rw [show emax - 1 + 1 = emax by omega]; exact hhi)
      omega
    have hs : emax - p = size v - p := by rw [hsz]
    have hq2 : v / 2 ^ (emax - p) < 2 ^ p := by
      rw [Nat.div_lt_iff_lt_mul hspos, ← hE]; exact hhi
    have hdm := Nat.div_add_mod v (2 ^ (emax - p))
    have hr := Nat.mod_lt v hspos
    generalize hq : v / 2 ^ (emax - p) = q at *
    generalize hrr : v % 2 ^ (emax - p) = r at *
    rcases rne_cases (p := p) (v := v) hs (by omega) with ⟨h1, h2⟩ | ⟨h1, h2⟩
    · rw [hq] at h1 h2; rw [hrr] at h2
      -- rounded down: finite, and v is below the threshold
      have hlt : rne p v < 2 ^ emax := by
        rw [h1, hE]; exact Nat.mul_lt_mul_of_pos_right hq2 hspos
      constructor
      · intro h; omega
      · intro h
        exfalso
        -- v ≥ threshold forces q = P - 1 and r ≥ t
        have hqP : q = 2 ^ p - 1 := by
          have : (2 ^ p - 1) * 2 ^ (emax - p) ≤ v := by
            rw [Nat.sub_mul, Nat.one_mul, ← hE]; omega
          have := (Nat.le_div_iff_mul_le hspos).2 this
          rw [hq] at this; omega
        have hX : 2 ^ (emax - p) * q = 2 ^ emax - 2 ^ (emax - p) := by
          rw [hqP, Nat.mul_sub, Nat.mul_one, Nat.mul_comm, ← hE]
        have hle : 2 ^ (emax - p) ≤ 2 ^ emax := Nat.pow_le_pow_right (by decide) (by omega)
        have hodd : q % 2 = 1 := by rw [hqP]; omega
        omega
    · rw [hq] at h1 h2; rw [hrr] at h2
      constructor
      · intro h
        -- (q+1) * 2^s ≥ P * 2^s gives q = P - 1; then r ≥ t
        have hqP : q + 1 = 2 ^ p := by
          have : 2 ^ p * 2 ^ (emax - p) ≤ (q + 1) * 2 ^ (emax - p) := by rw [← hE, ← h1]; exact h
          have := Nat.le_of_mul_le_mul_right this hspos
          omega
        have hX : 2 ^ (emax - p) * q + 2 ^ (emax - p) = 2 ^ emax := by
          rw [hE, ← hqP, Nat.add_mul, Nat.one_mul, Nat.mul_comm]
        omega
      · intro h
        have hqP : q = 2 ^ p - 1 := by
          have : (2 ^ p - 1) * 2 ^ (emax - p) ≤ v := by
            rw [Nat.sub_mul, Nat.one_mul, ← hE]; omega
          have := (Nat.le_div_iff_mul_le hspos).2 this
          rw [hq] at this; omega
        rw [h1, hqP, show 2 ^ p - 1 + 1 = 2 ^ p by omega, ← hE]
  by_cases hbig : 2 ^ emax ≤ v
  · -- at least 2^emax: both sides hold
    have hv : v ≠ 0 := by have := Nat.pow_pos (n := emax) (show 0 < 2 by decide); omega
    have hsz : emax ≤ size v - 1 := by
      have : ¬ size v ≤ emax := fun h => by have := size_le_iff.1 h; omega
      omega
    have := (rne_bounds (p := p) hp hv).1
    have h2 : 2 ^ emax ≤ 2 ^ (size v - 1) := Nat.pow_le_pow_right (by decide) hsz
    constructor
    · intro _; omega
    · intro _; omega
  · by_cases hsmall : v < 2 ^ (emax - 1)
    · -- below the top binade: neither side holds
      have hlt : rne p v < 2 ^ emax := by
        by_cases hv : v = 0
        · subst hv; rw [rne_exact (by simp [size])]; exact Nat.pow_pos (by decide)
        · have := (rne_bounds (p := p) hp hv).2
          have hsz : size v ≤ emax - 1 := size_le_iff.2 hsmall
          have h2 : 2 ^ size v ≤ 2 ^ (emax - 1) := Nat.pow_le_pow_right (by decide) hsz
          omega
      constructor
      · intro h; omega
      · intro h; omega
    · exact key (by omega) (by omega)

/-- the pattern `posInf` is recognised as an infinity by the spec's decoder -/
theorem isInf_posInf {F : FloatFmt} (hF : F.Valid) : Spec.isInf F.spec (posInf F.spec) = true := by
  have hlt := posInf_lt hF
  have hP : 0 < 2 ^ (F.p - 1) := Nat.pow_pos (by decide)
  have hE : expField F.spec (posInf F.spec) = 2 * F.emax - 1 := by
    unfold expField signBit
    show posInf F.spec % 2 ^ (F.bits - 1) / 2 ^ (F.p - 1) = _
    rw [Nat.mod_eq_of_lt hlt]; unfold posInf
    show (2 * F.emax - 1) * 2 ^ (F.p - 1) / 2 ^ (F.p - 1) = _
    exact Nat.mul_div_cancel _ hP
  have hf : fracField F.spec (posInf F.spec) = 0 := by
    unfold fracField posInf
    show (2 * F.emax - 1) * 2 ^ (F.p - 1) % 2 ^ (F.p - 1) = 0
    exact Nat.mul_mod_left _ _
  unfold Spec.isInf; rw [hE, hf]
  show ((2 * F.emax - 1 == 2 * F.emax - 1) && ((0 : Nat) == 0)) = true
  simp

/-- the integer → float spec returns +∞ exactly when the rounded value reaches `2^emax` -/
theorem natToFloat_eq_posInf_iff {F : FloatFmt} (hF : F.Valid) (v : Nat) :
    natToFloat F.spec v = posInf F.spec ↔ 2 ^ F.emax ≤ rne F.p v := by
  constructor
  · intro h
    by_contra hlt
    obtain ⟨_, _, _, hi, _⟩ := natToFloat_finite hF (show rne F.p v < 2 ^ F.emax by omega)
    rw [h, isInf_posInf hF] at hi
    exact Bool.noConfusion hi
  · intro h; exact encodeNat_overflow h

end Flt
end Bnum
