/-
  Bnum.Lemmas.Laws — helpers for Props/Laws.lean (algebraic laws of the fixed-width integer types as
  equalities of digit lists).  Everything here is a corollary of the spec theorems in Props/C01–C08.

  The working notion is `Laws.Rep w n r z`: "`r` is a well-formed `n`-digit list whose bit pattern is
  the residue of the exact integer `z` modulo `2^BITS`".  Every wrapping operation maps `Rep`s to
  `Rep`s (`rep_add`, `rep_sub`, `rep_neg`, `rep_mul`, …; the signed functions too, because a digit
  list `a` represents both `U w a` and `S w a`: `rep_U`, `rep_S`), and two lists representing
  congruent integers are EQUAL (`eq_of_rep`, by `U_injective`).  A ring law is then: build the `Rep`
  of both sides, and `ring`.
-/
import Bnum.Props.C01
import Bnum.Props.C02
import Bnum.Props.C03
import Bnum.Props.C05
import Bnum.Props.C06
import Bnum.Props.C07
import Bnum.Props.C08

namespace Bnum
namespace Laws

/-! ### residues -/

theorem emod_add_congr {a a' b b' m : Int} (ha : a % m = a' % m) (hb : b % m = b' % m) :
    (a + b) % m = (a' + b') % m := by rw [Int.add_emod, ha, hb, ← Int.add_emod]
theorem emod_sub_congr {a a' b b' m : Int} (ha : a % m = a' % m) (hb : b % m = b' % m) :
    (a - b) % m = (a' - b') % m := by rw [Int.sub_emod, ha, hb, ← Int.sub_emod]
theorem emod_mul_congr {a a' b b' m : Int} (ha : a % m = a' % m) (hb : b % m = b' % m) :
    (a * b) % m = (a' * b') % m := by rw [Int.mul_emod, ha, hb, ← Int.mul_emod]
theorem emod_neg_congr {a a' m : Int} (ha : a % m = a' % m) : (-a) % m = (-a') % m := by
  have := emod_sub_congr (m := m) (rfl : (0 : Int) % m = 0 % m) ha
  simpa using this
theorem emod_pow_congr {a a' m : Int} (ha : a % m = a' % m) (e : Nat) :
    (a ^ e) % m = (a' ^ e) % m := by
  induction e with
  | zero => simp
  | succ e ih => rw [pow_succ, pow_succ]; exact emod_mul_congr ih ha

/-- `r` is a well-formed digit list whose pattern is the residue of the exact integer `z` -/
def Rep (w n : Nat) (r : List Nat) (z : Int) : Prop :=
  WF w n r ∧ (U w r : Int) = z % (M w n : Int)

theorem Rep.wf {w n : Nat} {r : List Nat} {z : Int} (h : Rep w n r z) : WF w n r := h.1

/-- the representation is canonical: congruent integers have identical digit lists -/
theorem eq_of_rep {w n : Nat} {x y : List Nat} {z z' : Int} (hx : Rep w n x z) (hy : Rep w n y z')
    (h : z % (M w n : Int) = z' % (M w n : Int)) : x = y :=
  U_injective hx.1 hy.1 (by have := hx.2; have := hy.2; omega)

theorem eq_of_rep' {w n : Nat} {x y : List Nat} {z z' : Int} (hx : Rep w n x z) (hy : Rep w n y z')
    (h : z = z') : x = y := eq_of_rep hx hy (by rw [h])

theorem Rep.congr {w n : Nat} {r : List Nat} {z z' : Int} (h : Rep w n r z)
    (e : z % (M w n : Int) = z' % (M w n : Int)) : Rep w n r z' := ⟨h.1, by rw [h.2, e]⟩

theorem rep_of_add_mul {w n : Nat} {r : List Nat} {z : Int} (k : Int) (hr : WF w n r)
    (h : (U w r : Int) = z + k * M w n) : Rep w n r z := by
  refine ⟨hr, ?_⟩
  have hu := U_lt hr
  have : z % (M w n : Int) = (U w r : Int) % (M w n : Int) := by
    rw [h, Int.add_mul_emod_self_right]
  rw [this, Int.emod_eq_of_lt (by omega) (by omega)]

/-- a digit list represents its unsigned value … -/
theorem rep_U {w n : Nat} {a : List Nat} (ha : WF w n a) : Rep w n a (U w a) :=
  rep_of_add_mul 0 ha (by ring)

/-- … and its two's-complement value -/
theorem rep_S {w n : Nat} {a : List Nat} (ha : WF w n a) : Rep w n a (S w a) := by
  obtain ⟨k, hk⟩ := S_spec ha
  exact rep_of_add_mul (-k) ha (by rw [hk]; ring)

theorem Rep.S_emod {w n : Nat} {a : List Nat} {z : Int} (h : Rep w n a z) :
    S w a % (M w n : Int) = z % (M w n : Int) := by rw [Bnum.S_emod h.1, h.2]

theorem Rep.U_emod {w n : Nat} {a : List Nat} {z : Int} (h : Rep w n a z) :
    (U w a : Int) % (M w n : Int) = z % (M w n : Int) := by
  rw [h.2, Int.emod_emod_of_dvd _ (Int.dvd_refl _)]

theorem rep_wrapU {w n : Nat} {r : List Nat} {z : Int} (hr : WF w n r)
    (h : (U w r : Int) = wrapU (M w n) z) : Rep w n r z :=
  ⟨hr, by rw [h, wrapU_cast (M_pos w n)]⟩

theorem rep_wrapS {w n : Nat} {r : List Nat} {z : Int} (hr : WF w n r)
    (h : S w r = wrapS (M w n) z) : Rep w n r z := by
  obtain ⟨k, hk⟩ := wrapS_spec (M_pos w n) z
  obtain ⟨j, hj⟩ := S_spec hr
  exact rep_of_add_mul (-k - j) hr (by rw [hk, ← h, hj]; ring)

theorem rep_nat {w n : Nat} {r : List Nat} {v : Nat} (hr : WF w n r) (h : U w r = v % M w n) :
    Rep w n r (v : Int) := ⟨hr, by rw [h]; push_cast; rfl⟩

theorem rep_zero (w n : Nat) : Rep w n (zero n) 0 :=
  rep_of_add_mul 0 (WF_zero w n) (by rw [U_zero]; simp)

theorem rep_one {w n : Nat} (hw : 1 ≤ w) (hn : 1 ≤ n) : Rep w n (one n) 1 :=
  rep_of_add_mul 0 (WF_one hw hn) (by rw [U_one hn]; simp)

/-- all-ones pattern (`BUint::MAX`, `BInt::NEG_ONE`) represents `-1` -/
theorem rep_allOnes (w n : Nat) : Rep w n (allOnes w n) (-1) := by
  have := M_pos w n
  exact rep_of_add_mul 1 (WF_allOnes w n) (by rw [U_allOnes]; omega)

/-! ### the wrapping ring operations preserve `Rep` -/

theorem rep_add {w n : Nat} {a b : List Nat} {za zb : Int} (ha : Rep w n a za) (hb : Rep w n b zb) :
    Rep w n (UI.wrappingAdd w a b) (za + zb) := by
  obtain ⟨h1, h2⟩ := C01.u_wrapping_add ha.1 hb.1
  exact (rep_wrapU h1 h2).congr (emod_add_congr ha.U_emod hb.U_emod)

theorem rep_sub {w n : Nat} {a b : List Nat} {za zb : Int} (ha : Rep w n a za) (hb : Rep w n b zb) :
    Rep w n (UI.wrappingSub w a b) (za - zb) := by
  obtain ⟨h1, h2⟩ := C01.u_wrapping_sub ha.1 hb.1
  exact (rep_wrapU h1 h2).congr (emod_sub_congr ha.U_emod hb.U_emod)

theorem rep_mul {w n : Nat} {a b : List Nat} {za zb : Int} (ha : Rep w n a za) (hb : Rep w n b zb) :
    Rep w n (UI.wrappingMul w a b) (za * zb) := by
  obtain ⟨h1, h2⟩ := C02.u_wrapping_mul ha.1 hb.1
  exact (rep_wrapU h1 h2).congr (emod_mul_congr ha.U_emod hb.U_emod)

theorem rep_neg {w n : Nat} {a : List Nat} {za : Int} (hw : 1 ≤ w) (hn : 1 ≤ n) (ha : Rep w n a za) :
    Rep w n (UI.wrappingNeg w a) (-za) := by
  obtain ⟨h1, h2⟩ := C01.u_wrapping_neg hw hn ha.1
  exact (rep_wrapU h1 h2).congr (emod_neg_congr ha.U_emod)

/-- `BInt::wrapping_neg` (a separately written complement-and-increment loop) -/
theorem rep_ineg {w n : Nat} {a : List Nat} {za : Int} (hw : 2 ≤ w) (hn : 1 ≤ n) (ha : Rep w n a za) :
    Rep w n (II.wrappingNeg w a) (-za) := by
  obtain ⟨h1, h2⟩ := C01.i_wrapping_neg hw hn ha.1
  exact (rep_wrapS h1 h2).congr (emod_neg_congr ha.S_emod)

/-- value part of `BInt::overflowing_add` (a loop different from the unsigned one) -/
theorem rep_ioadd {w n : Nat} {a b : List Nat} {za zb : Int} (hw : 2 ≤ w) (hn : 1 ≤ n)
    (ha : Rep w n a za) (hb : Rep w n b zb) : Rep w n (II.overflowingAdd w a b).1 (za + zb) := by
  obtain ⟨h1, h2, _⟩ := C01.i_overflowing_add hw hn ha.1 hb.1
  exact (rep_wrapS h1 h2).congr (emod_add_congr ha.S_emod hb.S_emod)

theorem rep_iosub {w n : Nat} {a b : List Nat} {za zb : Int} (hw : 2 ≤ w) (hn : 1 ≤ n)
    (ha : Rep w n a za) (hb : Rep w n b zb) : Rep w n (II.overflowingSub w a b).1 (za - zb) := by
  obtain ⟨h1, h2, _⟩ := C01.i_overflowing_sub hw hn ha.1 hb.1
  exact (rep_wrapS h1 h2).congr (emod_sub_congr ha.S_emod hb.S_emod)

/-- value part of `BInt::overflowing_mul` (sign-magnitude algorithm) -/
theorem rep_iomul {w n : Nat} {a b : List Nat} {za zb : Int} (hw : 2 ≤ w) (hn : 1 ≤ n)
    (ha : Rep w n a za) (hb : Rep w n b zb) : Rep w n (II.overflowingMul w a b).1 (za * zb) := by
  obtain ⟨h1, h2, _⟩ := C02.i_overflowing_mul hw hn ha.1 hb.1
  exact (rep_wrapS h1 h2).congr (emod_mul_congr ha.S_emod hb.S_emod)

/-- `not` is `-1 - x` -/
theorem rep_not {w n : Nat} {a : List Nat} {za : Int} (ha : Rep w n a za) :
    Rep w n (UI.not w a) (-1 - za) := by
  obtain ⟨h1, h2, _⟩ := C06.not_spec ha.1
  have hu := U_lt ha.1
  have : Rep w n (UI.not w a) (-1 - (U w a : Int)) :=
    rep_of_add_mul 1 h1 (by rw [h2]; omega)
  exact this.congr (emod_sub_congr rfl ha.U_emod)

theorem rep_pow {w n : Nat} {a : List Nat} {za : Int} (hw : 1 ≤ w) (hn : 1 ≤ n) (ha : Rep w n a za)
    (e : Nat) : Rep w n (UI.wrappingPow w a e) (za ^ e) := by
  obtain ⟨h1, h2⟩ := C08.u_wrapping_pow hw hn ha.1 e
  have : Rep w n (UI.wrappingPow w a e) ((U w a : Int) ^ e) := by
    have := rep_nat h1 h2; push_cast at this; exact this
  exact this.congr (emod_pow_congr ha.U_emod e)

/-! ### flags of the overflowing forms are symmetric -/

theorem u_oadd_flag_comm {w n : Nat} {a b : List Nat} (ha : WF w n a) (hb : WF w n b) :
    (UI.overflowingAdd w a b).2 = (UI.overflowingAdd w b a).2 := by
  rw [(UI.overflowingAdd_spec ha hb).2.2, (UI.overflowingAdd_spec hb ha).2.2, Int.add_comm]

theorem i_oadd_flag_comm {w n : Nat} {a b : List Nat} (hw : 2 ≤ w) (hn : 1 ≤ n) (ha : WF w n a)
    (hb : WF w n b) : (II.overflowingAdd w a b).2 = (II.overflowingAdd w b a).2 := by
  rw [(II.overflowingAdd_spec hw hn ha hb).2.2, (II.overflowingAdd_spec hw hn hb ha).2.2,
    Int.add_comm]

theorem u_omul_flag_comm {w n : Nat} {a b : List Nat} (ha : WF w n a) (hb : WF w n b) :
    (UI.overflowingMul w a b).2 = (UI.overflowingMul w b a).2 := by
  rw [(UI.overflowingMul_spec ha hb).2.2, (UI.overflowingMul_spec hb ha).2.2, Int.mul_comm]

theorem i_omul_flag_comm {w n : Nat} {a b : List Nat} (hw : 2 ≤ w) (hn : 1 ≤ n) (ha : WF w n a)
    (hb : WF w n b) : (II.overflowingMul w a b).2 = (II.overflowingMul w b a).2 := by
  rw [(II.overflowingMul_spec hw hn ha hb).2.2, (II.overflowingMul_spec hw hn hb ha).2.2,
    Int.mul_comm]

/-! ### zero / MIN / -1 as digit lists -/

theorem U_ne_zero_of_ne {w n : Nat} {b : List Nat} (hb : WF w n b) (h : b ≠ zero n) : U w b ≠ 0 :=
  fun h0 => h (U_injective hb (WF_zero w n) (by rw [h0, U_zero]))

theorem S_ne_zero_of_ne {w n : Nat} {b : List Nat} (hb : WF w n b) (h : b ≠ zero n) : S w b ≠ 0 :=
  fun h0 => h (Cmp.S_injective hb (WF_zero w n) (by rw [h0, S_zero]))

theorem not_min_neg_one {w n : Nat} {a b : List Nat} (hw : 1 ≤ w) (hn : 1 ≤ n) (ha : WF w n a)
    (hb : WF w n b) (h : ¬ (a = iMin w n ∧ b = II.negOne w n)) :
    ¬ (S w a = -((M w n / 2 : Nat) : Int) ∧ S w b = -1) := by
  rintro ⟨h1, h2⟩
  refine h ⟨Cmp.S_injective ha (WF_iMin hw hn) (by rw [h1, S_iMin hw hn]), ?_⟩
  exact Cmp.S_injective hb (WF_allOnes w n) (by rw [h2]; exact (Shift.S_allOnes hw hn).symm)

/-! ### bitwise: equality of digit lists from equality of all bits -/

theorem eq_of_testBit {w n : Nat} {x y : List Nat} (hx : WF w n x) (hy : WF w n y)
    (h : ∀ i, (U w x).testBit i = (U w y).testBit i) : x = y :=
  U_injective hx hy (Nat.eq_of_testBit_eq h)

section bits
variable {w n : Nat} {a b : List Nat}
theorem wf_and (ha : WF w n a) (hb : WF w n b) : WF w n (UI.bitand a b) := (C06.logic_spec ha hb).1.1
theorem wf_or (ha : WF w n a) (hb : WF w n b) : WF w n (UI.bitor a b) := (C06.logic_spec ha hb).2.1.1
theorem wf_xor (ha : WF w n a) (hb : WF w n b) : WF w n (UI.bitxor a b) := (C06.logic_spec ha hb).2.2.1
theorem wf_not (ha : WF w n a) : WF w n (UI.not w a) := (C06.not_spec ha).1
theorem tb_and (ha : WF w n a) (hb : WF w n b) (i : Nat) :
    (U w (UI.bitand a b)).testBit i = ((U w a).testBit i && (U w b).testBit i) :=
  (C06.logic_testBit ha hb i).1
theorem tb_or (ha : WF w n a) (hb : WF w n b) (i : Nat) :
    (U w (UI.bitor a b)).testBit i = ((U w a).testBit i || (U w b).testBit i) :=
  (C06.logic_testBit ha hb i).2.1
theorem tb_xor (ha : WF w n a) (hb : WF w n b) (i : Nat) :
    (U w (UI.bitxor a b)).testBit i = ((U w a).testBit i ^^ (U w b).testBit i) :=
  (C06.logic_testBit ha hb i).2.2
theorem tb_not (ha : WF w n a) (i : Nat) :
    (U w (UI.not w a)).testBit i = (decide (i < w * n) && !(U w a).testBit i) :=
  (C06.not_spec ha).2.2 i
/-- bits at and above `BITS` are clear -/
theorem tb_high (ha : WF w n a) {i : Nat} (hi : ¬ i < w * n) : (U w a).testBit i = false := by
  apply Nat.testBit_lt_two_pow
  have := U_lt ha
  have : 2 ^ (w * n) ≤ 2 ^ i := Nat.pow_le_pow_right (by decide) (by omega)
  unfold M at *; omega
theorem tb_zero (w n i : Nat) : (U w (zero n)).testBit i = false := by rw [U_zero]; simp
end bits

/-! ### order -/

section order
variable {w n : Nat} {a b : List Nat}
theorem u_le_iff (ha : WF w n a) (hb : WF w n b) : CmpImpl.le UI.cmp a b = true ↔ U w a ≤ U w b :=
  (C07.u_order ha hb).2.1
theorem i_le_iff (hw : 1 ≤ w) (hn : 1 ≤ n) (ha : WF w n a) (hb : WF w n b) :
    CmpImpl.le (II.cmp w) a b = true ↔ S w a ≤ S w b := (C07.i_order hw hn ha hb).2.1
theorem wf_umax (ha : WF w n a) (hb : WF w n b) : WF w n (CmpImpl.max UI.cmp a b) := by
  rw [(C07.u_max_spec ha hb).1]; split <;> assumption
theorem wf_umin (ha : WF w n a) (hb : WF w n b) : WF w n (CmpImpl.min UI.cmp a b) := by
  rw [(C07.u_min_spec ha hb).1]; split <;> assumption
theorem wf_imax (hw : 1 ≤ w) (hn : 1 ≤ n) (ha : WF w n a) (hb : WF w n b) :
    WF w n (CmpImpl.max (II.cmp w) a b) := by
  rw [(C07.i_max_spec hw hn ha hb).1]; split <;> assumption
theorem wf_imin (hw : 1 ≤ w) (hn : 1 ≤ n) (ha : WF w n a) (hb : WF w n b) :
    WF w n (CmpImpl.min (II.cmp w) a b) := by
  rw [(C07.i_min_spec hw hn ha hb).1]; split <;> assumption
theorem U_umax (ha : WF w n a) (hb : WF w n b) :
    U w (CmpImpl.max UI.cmp a b) = max (U w a) (U w b) := (C07.u_max_spec ha hb).2
theorem U_umin (ha : WF w n a) (hb : WF w n b) :
    U w (CmpImpl.min UI.cmp a b) = min (U w a) (U w b) := (C07.u_min_spec ha hb).2
theorem S_imax (hw : 1 ≤ w) (hn : 1 ≤ n) (ha : WF w n a) (hb : WF w n b) :
    S w (CmpImpl.max (II.cmp w) a b) = max (S w a) (S w b) := (C07.i_max_spec hw hn ha hb).2
theorem S_imin (hw : 1 ≤ w) (hn : 1 ≤ n) (ha : WF w n a) (hb : WF w n b) :
    S w (CmpImpl.min (II.cmp w) a b) = min (S w a) (S w b) := (C07.i_min_spec hw hn ha hb).2
end order

/-! ### shifts -/

section shift
open Shift
variable {w n s t : Nat} {a : List Nat}

theorem wshl_spec (hw : 1 ≤ w) (ha : WF w n a) (hs : s < w * n) :
    WF w n (UI.wrappingShl w a s) ∧ U w (UI.wrappingShl w a s) = (U w a * 2 ^ s) % M w n := by
  rw [UI.wrappingShl_of_lt (by rw [ha.1]; exact hs)]; exact C05.shl_spec hw ha hs

theorem wshr_spec (hw : 1 ≤ w) (ha : WF w n a) (hs : s < w * n) :
    WF w n (UI.wrappingShr w a s) ∧ U w (UI.wrappingShr w a s) = U w a / 2 ^ s := by
  rw [UI.wrappingShr_of_lt (by rw [ha.1]; exact hs)]; exact C05.u_shr_spec hw ha hs

/-- `s ≤ leading_zeros(a)`: the top `s` bits of `a` are zero, i.e. `a * 2^s` still fits -/
theorem mul_pow_lt_of_leadingZeros (ha : WF w n a) (hs : s ≤ UI.leadingZeros w a) :
    U w a * 2 ^ s < M w n := by
  rw [Bits.leadingZeros_spec ha] at hs
  have h1 : Spec.bitLen (U w a) ≤ w * n := (Bits.bitLen_le_iff _ _).mpr (U_lt ha)
  have h2 : U w a < 2 ^ (w * n - s) := (Bits.bitLen_le_iff _ _).mp (by omega)
  have h3 : 2 ^ (w * n - s) * 2 ^ s = M w n := by
    unfold M; rw [← Nat.pow_add]; congr 1; omega
  rw [← h3]; exact Nat.mul_lt_mul_of_pos_right h2 (two_pow_pos s)

theorem shl_shl (hw : 1 ≤ w) (ha : WF w n a) (hst : s + t < w * n) :
    UI.wrappingShl w (UI.wrappingShl w a s) t = UI.wrappingShl w a (s + t) := by
  obtain ⟨h1, h2⟩ := wshl_spec hw ha (show s < w * n by omega)
  obtain ⟨h3, h4⟩ := wshl_spec hw h1 (show t < w * n by omega)
  obtain ⟨h5, h6⟩ := wshl_spec hw ha hst
  apply U_injective h3 h5
  rw [h4, h2, h6, Nat.mod_mul_mod, Nat.pow_add, Nat.mul_assoc]

theorem shr_shl (hw : 1 ≤ w) (ha : WF w n a) (hs : s < w * n) (hz : s ≤ UI.leadingZeros w a) :
    UI.wrappingShr w (UI.wrappingShl w a s) s = a := by
  obtain ⟨h1, h2⟩ := wshl_spec hw ha hs
  obtain ⟨h3, h4⟩ := wshr_spec hw h1 hs
  apply U_injective h3 ha
  rw [h4, h2, Nat.mod_eq_of_lt (mul_pow_lt_of_leadingZeros ha hz),
    Nat.mul_div_cancel _ (two_pow_pos s)]

/-- signed (arithmetic) `shr` undoes `shl` when `a * 2^s` is still representable -/
theorem ishr_shl (hw : 1 ≤ w) (hn : 1 ≤ n) (ha : WF w n a) (hs : s < w * n)
    (hfit : repS (M w n) (S w a * 2 ^ s)) : II.wrappingShr w (II.wrappingShl w a s) s = a := by
  rw [II.wrappingShl_of_lt (by rw [ha.1]; exact hs)]
  obtain ⟨h1, _⟩ := C05.shl_spec hw ha hs
  have h2 := C05.i_shl_spec hw ha hs
  rw [II.wrappingShr_of_lt (by rw [h1.1]; exact hs)]
  obtain ⟨h3, h4⟩ := C05.i_shr_spec hw hn h1 hs
  apply Cmp.S_injective h3 ha
  have hS : S w (UI.uncheckedShlInternal w a s) = S w a * 2 ^ s := by
    rw [S_eq h1]
    exact toInt_eq_of_emod (M_pos w n) (U_lt h1) hfit (by rw [h2, wrapU_cast (M_pos w n)])
  rw [h4, hS, Int.fdiv_eq_ediv_of_nonneg _ (by positivity)]
  exact Int.mul_ediv_cancel _ (by positivity)

/-- `unbounded_shl` composes for ALL amounts -/
theorem ushl_ushl (hw : 1 ≤ w) (ha : WF w n a) (s t : Nat) :
    UI.unboundedShl w (UI.unboundedShl w a s) t = UI.unboundedShl w a (s + t) := by
  obtain ⟨h1, h2⟩ := C05.u_unbounded_shl (s := s) hw ha
  obtain ⟨h3, h4⟩ := C05.u_unbounded_shl (s := t) hw h1
  obtain ⟨h5, h6⟩ := C05.u_unbounded_shl (s := s + t) hw ha
  apply U_injective h3 h5
  rw [h4, h2, h6]
  by_cases c1 : s + t < w * n
  · rw [if_pos c1, if_pos (by omega), if_pos (by omega), Nat.mod_mul_mod, Nat.pow_add,
      Nat.mul_assoc]
  · rw [if_neg c1]
    by_cases c2 : t < w * n
    · rw [if_pos c2]
      by_cases c3 : s < w * n
      · rw [if_pos c3, Nat.mod_mul_mod, Nat.mul_assoc, ← Nat.pow_add]
        have : M w n ∣ 2 ^ (s + t) := by
          unfold M; exact Nat.pow_dvd_pow 2 (by omega)
        exact Nat.mod_eq_zero_of_dvd (Dvd.dvd.mul_left this _)
      · rw [if_neg c3]; simp
    · rw [if_neg c2]

/-- `unbounded_shr` composes for ALL amounts (unsigned) -/
theorem ushr_ushr (hw : 1 ≤ w) (ha : WF w n a) (s t : Nat) :
    UI.unboundedShr w (UI.unboundedShr w a s) t = UI.unboundedShr w a (s + t) := by
  obtain ⟨h1, h2⟩ := C05.u_unbounded_shr (s := s) hw ha
  obtain ⟨h3, h4⟩ := C05.u_unbounded_shr (s := t) hw h1
  obtain ⟨h5, h6⟩ := C05.u_unbounded_shr (s := s + t) hw ha
  apply U_injective h3 h5
  rw [h4, h2, h6]
  have hu := U_lt ha
  by_cases c1 : s + t < w * n
  · rw [if_pos c1, if_pos (by omega), if_pos (by omega), Nat.div_div_eq_div_mul, ← Nat.pow_add]
  · rw [if_neg c1]
    by_cases c2 : t < w * n
    · rw [if_pos c2]
      by_cases c3 : s < w * n
      · rw [if_pos c3, Nat.div_div_eq_div_mul, ← Nat.pow_add]
        apply Nat.div_eq_of_lt
        have : M w n ≤ 2 ^ (s + t) := by unfold M; exact Nat.pow_le_pow_right (by decide) (by omega)
        omega
      · rw [if_neg c3]; simp
    · rw [if_neg c2]
end shift

/-! ### rotations -/

section rot
open Shift

theorem rotN_add_mod {W x : Nat} (hW : 0 < W) (hx : x < 2 ^ W) (j k : Nat) :
    rotN W (rotN W x (j % W)) (k % W) = rotN W x ((j + k) % W) := by
  have hj := Nat.mod_lt j hW
  have hk := Nat.mod_lt k hW
  have e : (j + k) % W = (j % W + k % W) % W := Nat.add_mod j k W
  rw [e]
  generalize j % W = r1 at *
  generalize k % W = r2 at *
  by_cases h : r1 + r2 < W
  · rw [Nat.mod_eq_of_lt h]; exact rotN_add hx (by omega)
  · have e2 : (r1 + r2) % W = r1 + r2 - W := by
      rw [Nat.mod_eq_sub_mod (by omega), Nat.mod_eq_of_lt (by omega)]
    rw [e2]
    have hx1 := rotN_lt (Nat.le_of_lt hj) hx
    have s1 : r2 = (W - r1) + (r1 + r2 - W) := by omega
    have hx2 : rotN W (rotN W x r1) (W - r1) = x := by
      rw [rotN_add hx (by omega), show r1 + (W - r1) = W by omega, rotN_full]
    conv_lhs => rw [s1]
    rw [← rotN_add hx1 (by omega), hx2]

theorem rotl_rotl {w n : Nat} {a : List Nat} (hw : 1 ≤ w) (hn : 1 ≤ n) (ha : WF w n a) (j k : Nat) :
    UI.rotateLeft w (UI.rotateLeft w a j) k = UI.rotateLeft w a (j + k) := by
  obtain ⟨h1, h2⟩ := C05.rotl_spec hw hn ha j
  obtain ⟨h3, h4⟩ := C05.rotl_spec hw hn h1 k
  obtain ⟨h5, h6⟩ := C05.rotl_spec hw hn ha (j + k)
  apply U_injective h3 h5
  have hx : U w a < 2 ^ (w * n) := U_lt ha
  have := rotN_add_mod (bits_pos hw hn) hx j k
  unfold rotN at this
  rw [h4, h2, h6]; exact this

theorem rotl_bits {w n : Nat} {a : List Nat} (hw : 1 ≤ w) (hn : 1 ≤ n) (ha : WF w n a) :
    UI.rotateLeft w a (w * n) = a := by
  obtain ⟨h1, h2⟩ := C05.rotl_spec hw hn ha (w * n)
  apply U_injective h1 ha
  have hx : U w a < 2 ^ (w * n) := U_lt ha
  have := rotN_zero (w * n) (U w a) hx
  unfold rotN at this
  rw [h2, Nat.mod_self]; exact this

theorem rotl_zero {w n : Nat} {a : List Nat} (hw : 1 ≤ w) (hn : 1 ≤ n) (ha : WF w n a) :
    UI.rotateLeft w a 0 = a := by
  obtain ⟨h1, h2⟩ := C05.rotl_spec hw hn ha 0
  apply U_injective h1 ha
  have hx : U w a < 2 ^ (w * n) := U_lt ha
  have := rotN_zero (w * n) (U w a) hx
  unfold rotN at this
  rw [h2, Nat.zero_mod]; exact this
end rot

end Laws
end Bnum
