/-
  Bnum.Lemmas.C13Extra — helper lemmas for the C13 extensions:
    * `tryFromPrim_spec`: the primitive → bnum dispatcher the driver runs satisfies the `ConvOk`
      shape for every in-scope source except the F6 combination (unsigned `K`-bit primitive into a
      signed target of exactly `K` bits);
    * the digit-array specification functions of `Drive/C13.lean` (`digitsValue`, `valueDigits`) are
      the positional value `U` and its inverse, and the `i`-th exposed digit is
      `value / B^i % B`.
-/
import Bnum.Lemmas.Cast
import Bnum.Drive.C13
namespace Bnum
open Bnum.Drive.C13

/-- an infallible `From` whose value is representable, seen through `Ok(..)` -/
theorem FromOk.toConvOk {s : Bool} {w n : Nat} {o : Outcome (List Nat)} {z : Int}
    (h : FromOk s w n o z) (hr : repOf s (M w n) z) : ConvOk s w n (o.map some) z := by
  obtain ⟨r, rfl, h2, h3⟩ := h
  exact Or.inl ⟨hr, r, rfl, h2, h3⟩

theorem repU_of_lt {p m : Nat} (h : p < m) : repOf false m (p : Int) := by
  simp only [repOf, Bool.false_eq_true, if_false, repU]; omega

theorem repS_of_two_mul_lt {p m : Nat} (h : 2 * p < m) : repOf true m (p : Int) := by
  simp only [repOf, if_true, repS]; omega

theorem repS_toInt_of_le {b m p : Nat} (hb : b = 2 * (b / 2)) (hp : p < b) (hbm : b ≤ m) :
    repOf true m (toInt b p) := by
  have h := toInt_repS hb hp
  simp only [repOf, if_true, repS] at h ⊢
  omega

/-- value-level theorem for the dispatcher `tryFromPrim` (what `try <prim> <bnum> v` runs) -/
theorem tryFromPrim_spec {w n : Nat} {t : PTy} {p : Nat} (s : Bool) (hw : 1 ≤ w) (hn : 1 ≤ n)
    (hk1 : 1 ≤ t.bits) (hk : t.bits ≤ w * n)
    (hF6 : ¬ (s = true ∧ t.signed = false ∧ t.bits = w * n)) (hp : p < B t.bits) :
    ConvOk s w n (tryFromPrim w n s t p) (PInt.val t p) := by
  have hBM : B t.bits ≤ M w n := Nat.pow_le_pow_right (by decide) hk
  have hpM : p < M w n := Nat.lt_of_lt_of_le hp hBM
  unfold tryFromPrim PInt.val
  cases s <;> cases hs : t.signed <;> simp only [Bool.false_eq_true, if_false, if_true]
  · exact (UI.fromUint_spec (n := n) hw hp hpM).toConvOk (repU_of_lt hpM)
  · exact UI.tryFromIint_spec hw hk hp
  · have hlt : t.bits < w * n := by
      rcases Nat.lt_or_ge t.bits (w * n) with h | h
      · exact h
      · exact absurd ⟨rfl, hs, Nat.le_antisymm hk h⟩ hF6
    have h2 : 2 * B t.bits ≤ M w n := by
      have : B (t.bits + 1) ≤ M w n := Nat.pow_le_pow_right (by decide) hlt
      unfold B at *; rw [Nat.pow_succ] at this; omega
    exact (II.fromUint_partial (n := n) hw hlt hp).toConvOk (repS_of_two_mul_lt (by omega))
  · exact (II.fromInt_spec hw hn hk1 hk hp).toConvOk (repS_toInt_of_le (B_even hk1) hp hBM)

/-! ### digit arrays: the driver's specification functions are `U` and its inverse -/

theorem digitsValue_eq_U (w : Nat) : ∀ ds : List Nat, digitsValue w ds = U w ds
  | [] => rfl
  | d :: ds => by
    have ih := digitsValue_eq_U w ds
    simp only [digitsValue, List.foldr_cons] at ih ⊢
    rw [ih]; rfl

theorem valueDigits_eq_ofNat (w : Nat) : ∀ n v : Nat, valueDigits w n v = ofNat w n v
  | 0, _ => rfl
  | n + 1, v => by
    simp only [valueDigits, ofNat, B]
    rw [valueDigits_eq_ofNat w n]

theorem ofNat_U' {w : Nat} : ∀ {n : Nat} {x : List Nat}, WF w n x → ofNat w n (U w x) = x
  | 0, [], _ => rfl
  | 0, _ :: _, h => by simp [WF] at h
  | n + 1, [], h => by simp [WF] at h
  | n + 1, d :: ds, h => by
    have hd : d < B w := h.2 d (by simp)
    have hds : WF w n ds := ⟨by have := h.1; simpa using this, fun e he => h.2 e (by simp [he])⟩
    have hB : 0 < B w := Nat.pow_pos (by decide)
    simp only [ofNat, U]
    rw [Nat.add_mul_mod_self_left, Nat.mod_eq_of_lt hd, Nat.add_mul_div_left _ _ hB,
      Nat.div_eq_of_lt hd, Nat.zero_add, ofNat_U' hds]

/-- `digits()` / `Into<[Digit; N]>` agree with the driver's specification -/
theorem valueDigits_U {w n : Nat} {x : List Nat} (hx : WF w n x) :
    valueDigits w n (U w x) = UI.digits x := by
  rw [valueDigits_eq_ofNat, ofNat_U' hx]; rfl

/-- little-endian: digit `i` of the exposed array is `value / B^i % B` -/
theorem digits_getD {w : Nat} : ∀ {n : Nat} {x : List Nat}, WF w n x → ∀ i, i < n →
    (UI.digits x).getD i 0 = U w x / B w ^ i % B w
  | _, [], h, i, hi => by have := h.1; simp at this; omega
  | n, d :: ds, h, i, hi => by
    have hd : d < B w := h.2 d (by simp)
    have hB : 0 < B w := Nat.pow_pos (by decide)
    have hds : WF w (n - 1) ds :=
      ⟨by have := h.1; simp at this; omega, fun e he => h.2 e (by simp [he])⟩
    cases i with
    | zero =>
      simp only [UI.digits, List.getD_cons_zero, U, Nat.pow_zero, Nat.div_one]
      rw [Nat.add_mul_mod_self_left, Nat.mod_eq_of_lt hd]
    | succ j =>
      have ih := digits_getD hds j (by omega)
      simp only [UI.digits, List.getD_cons_succ, U] at ih ⊢
      rw [ih, Nat.pow_succ, Nat.mul_comm (B w ^ j), ← Nat.div_div_eq_div_mul,
        Nat.add_mul_div_left _ _ hB, Nat.div_eq_of_lt hd, Nat.zero_add]

end Bnum
