/-
  Bnum.Lemmas.C18Extra — additional lemmas for C18:
    §1 the unsuffixed `+` / `-` in BOTH build profiles (panic ⇔ debug ∧ overflow; value = wrapped result)
    §2 `MulAdd` / `Signed::abs_sub` on the overflow branch (debug: panic, release: wrap)
    §3 `Signed::abs` / `signum` / `is_positive` / `is_negative` at value level
    §4 `MIN / -1` and zero divisors for `div_mod_floor`, `is_multiple_of`, `divides`
    §5 num-integer's provided `Integer` methods on the crate's operators (Model/C18Extra.lean)
-/
import Bnum.Lemmas.NumTraits
import Bnum.Model.C18Extra
namespace Bnum
namespace NumT
open DivL Bits

/-! ## §1 the unsuffixed operators in both profiles -/
section ops2
variable {w n : Nat} {a b : List Nat}

theorem uAdd_full (ha : WF w n a) (hb : WF w n b) (dbg : Bool) :
    (UI.add dbg w a b = .panic ↔ dbg = true ∧ M w n ≤ U w a + U w b) ∧
    (∀ r, UI.add dbg w a b = .ok r → WF w n r ∧ U w r = (U w a + U w b) % M w n) := by
  obtain ⟨h1, h2, h3⟩ := (UI.overflowingAdd_spec ha hb).expand
  have hu : U w (UI.overflowingAdd w a b).1 = (U w a + U w b) % M w n := by
    rw [show ((U w a : Int) + U w b) = ((U w a + U w b : Nat) : Int) by push_cast; rfl,
      wrapU_natCast] at h2
    exact_mod_cast h2
  have hrep : ¬ repU (M w n) ((U w a : Int) + U w b) ↔ M w n ≤ U w a + U w b := by
    unfold repU; omega
  unfold UI.add UI.strictAdd UI.checkedAdd UI.wrappingAdd
  cases dbg
  · refine ⟨by simp, ?_⟩
    intro r hr
    simp only [Bool.false_eq_true, if_false, Outcome.ok.injEq] at hr
    subst hr; exact ⟨h1, hu⟩
  · simp only [if_true, true_and]
    refine ⟨by rw [expect_panic_iff, tupleToOption_none_iff, h3, hrep], ?_⟩
    intro r hr
    rw [expect_ok_iff, tupleToOption_some_iff] at hr
    obtain ⟨-, rfl⟩ := hr
    exact ⟨h1, hu⟩

theorem uSub_full (ha : WF w n a) (hb : WF w n b) (dbg : Bool) :
    (UI.sub dbg w a b = .panic ↔ dbg = true ∧ U w a < U w b) ∧
    (∀ r, UI.sub dbg w a b = .ok r →
      WF w n r ∧ (U w r : Int) = wrapU (M w n) ((U w a : Int) - U w b)) := by
  obtain ⟨h1, h2, h3⟩ := (UI.overflowingSub_spec ha hb).expand
  have hrep : ¬ repU (M w n) ((U w a : Int) - U w b) ↔ U w a < U w b := by
    have := U_lt ha
    unfold repU; omega
  unfold UI.sub UI.strictSub UI.checkedSub UI.wrappingSub
  cases dbg
  · refine ⟨by simp, ?_⟩
    intro r hr
    simp only [Bool.false_eq_true, if_false, Outcome.ok.injEq] at hr
    subst hr; exact ⟨h1, h2⟩
  · simp only [if_true, true_and]
    refine ⟨by rw [expect_panic_iff, tupleToOption_none_iff, h3, hrep], ?_⟩
    intro r hr
    rw [expect_ok_iff, tupleToOption_some_iff] at hr
    obtain ⟨-, rfl⟩ := hr
    exact ⟨h1, h2⟩

theorem iAdd_full (hw : 2 ≤ w) (hn : 1 ≤ n) (ha : WF w n a) (hb : WF w n b) (dbg : Bool) :
    (II.add dbg w a b = .panic ↔ dbg = true ∧ ¬ repS (M w n) (S w a + S w b)) ∧
    (∀ r, II.add dbg w a b = .ok r → WF w n r ∧ S w r = wrapS (M w n) (S w a + S w b)) := by
  unfold II.add II.strictAdd II.checkedAdd
  cases dbg
  · refine ⟨by simp, ?_⟩
    intro r hr
    simp only [Bool.false_eq_true, if_false, Outcome.ok.injEq] at hr
    subst hr; exact II.wrappingAdd_spec ha hb
  · obtain ⟨s1, s2⟩ := (II.overflowingAdd_spec hw hn ha hb).strict
    simp only [if_true, true_and]
    refine ⟨s1, ?_⟩
    intro r hr
    obtain ⟨g1, g2⟩ := s2 r hr
    have hrep : repS (M w n) (S w a + S w b) := by
      by_contra hc
      rw [s1.mpr hc] at hr; cases hr
    exact ⟨g1, by rw [g2, wrapS_of_rep (M_pos w n) hrep]⟩

theorem iSub_full (hw : 2 ≤ w) (hn : 1 ≤ n) (ha : WF w n a) (hb : WF w n b) (dbg : Bool) :
    (II.sub dbg w a b = .panic ↔ dbg = true ∧ ¬ repS (M w n) (S w a - S w b)) ∧
    (∀ r, II.sub dbg w a b = .ok r → WF w n r ∧ S w r = wrapS (M w n) (S w a - S w b)) := by
  unfold II.sub II.strictSub II.checkedSub
  cases dbg
  · refine ⟨by simp, ?_⟩
    intro r hr
    simp only [Bool.false_eq_true, if_false, Outcome.ok.injEq] at hr
    subst hr; exact II.wrappingSub_spec ha hb
  · obtain ⟨s1, s2⟩ := (II.overflowingSub_spec hw hn ha hb).strict
    simp only [if_true, true_and]
    refine ⟨s1, ?_⟩
    intro r hr
    obtain ⟨g1, g2⟩ := s2 r hr
    have hrep : repS (M w n) (S w a - S w b) := by
      by_contra hc
      rw [s1.mpr hc] at hr; cases hr
    exact ⟨g1, by rw [g2, wrapS_of_rep (M_pos w n) hrep]⟩

end ops2

/-! ## §2 `MulAdd`, `abs_sub`: complete description (overflow branch included) -/
section muladd
variable {w n : Nat} {a x c : List Nat}

/-- `MulAdd::mul_add` for `BUint`, both profiles: a debug build panics exactly when `x*a + c` does
    not fit (the product or the sum overflows), every other run returns `x*a + c` reduced mod
    `2^BITS` (a release build wraps the product first; the sum of the wrapped product wraps to the
    same pattern) -/
theorem U.mulAdd_full (hx : WF w n x) (ha : WF w n a) (hc : WF w n c) (dbg : Bool) :
    (U.mulAdd dbg w x a c = .panic ↔ dbg = true ∧ M w n ≤ U w x * U w a + U w c) ∧
    (∀ r, U.mulAdd dbg w x a c = .ok r →
      WF w n r ∧ U w r = (U w x * U w a + U w c) % M w n) := by
  obtain ⟨m1, m2⟩ := UI.mul_spec hx ha dbg
  have hM := M_pos w n
  have hrepm : ¬ repU (M w n) ((U w x : Int) * U w a) ↔ M w n ≤ U w x * U w a := by
    unfold repU
    constructor
    · intro h; by_contra hc'
      exact h ⟨by positivity, by exact_mod_cast (by omega : U w x * U w a < M w n)⟩
    · intro h hc'; have := hc'.2; have : U w x * U w a < M w n := by exact_mod_cast this
      omega
  unfold U.mulAdd
  cases hm : UI.mul w dbg x a with
  | panic =>
    obtain ⟨hd, hov⟩ := m1.mp hm
    refine ⟨by simp only [Outcome.bind, true_iff]; exact ⟨hd, by have := hrepm.mp hov; omega⟩, ?_⟩
    intro r hr; cases hr
  | ok p =>
    obtain ⟨p1, p2, p3⟩ := m2 p hm
    obtain ⟨a1, a2⟩ := uAdd_full p1 hc dbg
    dsimp only [Outcome.bind]
    have hp : U w p = (U w x * U w a) % M w n := by
      rw [show ((U w x : Int) * U w a) = ((U w x * U w a : Nat) : Int) by push_cast; rfl,
        wrapU_natCast] at p2
      exact_mod_cast p2
    constructor
    · rw [a1]
      constructor
      · rintro ⟨hd, hov⟩
        refine ⟨hd, ?_⟩
        have := Nat.mod_le (U w x * U w a) (M w n)
        omega
      · rintro ⟨hd, hov⟩
        refine ⟨hd, ?_⟩
        have hnp : ¬ (dbg = true ∧ ¬ repU (M w n) ((U w x : Int) * U w a)) := by
          rw [← m1, hm]; simp
        have hfit : U w x * U w a < M w n := by
          by_contra hc'
          exact hnp ⟨hd, hrepm.mpr (by omega)⟩
        rw [hp, Nat.mod_eq_of_lt hfit]; exact hov
    · intro r hr
      obtain ⟨r1, r2⟩ := a2 r hr
      exact ⟨r1, by rw [r2, hp, Nat.mod_add_mod]⟩

/-- `MulAdd::mul_add` for `BInt`, both profiles -/
theorem I.mulAdd_full (hw : 2 ≤ w) (hn : 1 ≤ n) (hx : WF w n x) (ha : WF w n a) (hc : WF w n c)
    (dbg : Bool) :
    (I.mulAdd dbg w x a c = .panic ↔
      dbg = true ∧ (¬ repS (M w n) (S w x * S w a) ∨ ¬ repS (M w n) (S w x * S w a + S w c))) ∧
    (∀ r, I.mulAdd dbg w x a c = .ok r →
      WF w n r ∧ S w r = wrapS (M w n) (S w x * S w a + S w c)) := by
  obtain ⟨m1, m2⟩ := II.mul_spec hw hn hx ha dbg
  have hM := M_pos w n
  unfold I.mulAdd
  cases hm : II.mul w dbg x a with
  | panic =>
    obtain ⟨hd, hov⟩ := m1.mp hm
    refine ⟨by simp only [Outcome.bind, true_iff]; exact ⟨hd, Or.inl hov⟩, ?_⟩
    intro r hr; cases hr
  | ok p =>
    obtain ⟨p1, p2, p3⟩ := m2 p hm
    obtain ⟨a1, a2⟩ := iAdd_full hw hn p1 hc dbg
    dsimp only [Outcome.bind]
    constructor
    · rw [a1]
      constructor
      · rintro ⟨hd, hov⟩
        exact ⟨hd, Or.inr (by rw [← p3 hd]; exact hov)⟩
      · rintro ⟨hd, hov⟩
        refine ⟨hd, ?_⟩
        have hnp : ¬ (dbg = true ∧ ¬ repS (M w n) (S w x * S w a)) := by
          rw [← m1, hm]; simp
        rcases hov with h | h
        · exact absurd ⟨hd, h⟩ hnp
        · rw [p3 hd]; exact h
    · intro r hr
      obtain ⟨r1, r2⟩ := a2 r hr
      exact ⟨r1, by rw [r2, p2, wrapS_wrapS_add hM]⟩

/-- `Signed::abs_sub`, both profiles: `0` when `self ≤ other`; otherwise `self - other`, which a debug
    build refuses (panic) exactly when the difference is not representable and a release build wraps -/
theorem I.absSub_full {b : List Nat} (hw : 2 ≤ w) (hn : 1 ≤ n) (ha : WF w n a) (hb : WF w n b)
    (dbg : Bool) :
    (S w a ≤ S w b → I.absSub dbg w a b = .ok (zero n)) ∧
    (S w b < S w a →
      (I.absSub dbg w a b = .panic ↔ dbg = true ∧ ¬ repS (M w n) (S w a - S w b)) ∧
      (∀ r, I.absSub dbg w a b = .ok r → WF w n r ∧ S w r = wrapS (M w n) (S w a - S w b))) := by
  unfold I.absSub
  rw [opLe_eq (by omega) hn ha hb, ha.1]
  constructor
  · intro h; simp [h]
  · intro h
    simp only [show ¬ S w a ≤ S w b by omega, decide_false, Bool.false_eq_true, if_false]
    exact iSub_full hw hn ha hb dbg

end muladd

/-! ## §3 `Signed` at value level -/
section signed
variable {w n : Nat} {a : List Nat}

/-- `Signed::abs`: `|self|`; for `MIN` a debug build panics and a release build returns `MIN` -/
theorem I.abs_spec (hw : 2 ≤ w) (hn : 1 ≤ n) (ha : WF w n a) (dbg : Bool) :
    (S w a ≠ -((M w n / 2 : Nat) : Int) →
      ∃ r, I.abs dbg w a = .ok r ∧ WF w n r ∧ S w r = ((S w a).natAbs : Int)) ∧
    (S w a = -((M w n / 2 : Nat) : Int) →
      I.abs true w a = .panic ∧ I.abs false w a = .ok (iMin w n) ∧
      S w (iMin w n) = -((M w n / 2 : Nat) : Int)) := by
  have hw1 : 1 ≤ w := by omega
  have hra := S_repS hw1 hn ha
  have hm := M_even hw1 hn
  constructor
  · intro hne
    exact abs_ok hw hn ha (by unfold repS at *; omega) dbg
  · intro he
    have h := II.overflowingAbs_spec hw hn ha
    obtain ⟨c1, -⟩ := h.checked
    have hnone : II.checkedAbs w a = none := by
      unfold II.checkedAbs
      exact c1.mpr (by unfold repS; omega)
    refine ⟨?_, ?_, S_iMin hw1 hn⟩
    · unfold I.abs Inh.abs II.strictAbs; rw [hnone]; rfl
    · unfold I.abs Inh.abs; rw [hnone, ha.1]; rfl

/-- `Signed::signum` / `is_positive` / `is_negative` -/
theorem I.signum_spec (hw : 2 ≤ w) (hn : 1 ≤ n) (ha : WF w n a) :
    WF w n (I.signum w a) ∧
    S w (I.signum w a) = if S w a < 0 then -1 else if S w a = 0 then 0 else 1 :=
  II.signum_spec hw hn ha

theorem I.isPositive_spec (hw : 1 ≤ w) (hn : 1 ≤ n) (ha : WF w n a) :
    I.isPositive w a = decide (0 < S w a) :=
  bool_eq_decide (II.isPositive_iff hw hn ha)

theorem I.isNegativeT_spec (hw : 1 ≤ w) (hn : 1 ≤ n) (ha : WF w n a) :
    I.isNegativeT w a = decide (S w a < 0) :=
  isNegative_eq_decide hw hn ha

end signed

/-! ## §4 the rest of the division family on `MIN / -1` and on a zero divisor -/
section spanic2
variable {w n : Nat} {a b : List Nat}

theorem I.min_neg_one_rest (hw : 1 ≤ w) (hn : 1 ≤ n) (ha : WF w n a) (hb : WF w n b)
    (hov : S w a = -((M w n / 2 : Nat) : Int) ∧ S w b = -1) (dbg : Bool) :
    I.divModFloor dbg w a b = .panic ∧ I.isMultipleOf dbg w a b = .panic ∧
    I.divides dbg w a b = .panic := by
  obtain ⟨-, h2, h3⟩ := I.min_neg_one hw hn ha hb hov dbg
  have h5 : I.isMultipleOf dbg w a b = .panic := by unfold I.isMultipleOf; rw [h3]; rfl
  exact ⟨by unfold I.divModFloor; rw [h2]; rfl, h5, h5⟩

end spanic2

/-! ## §5 num-integer's provided `Integer` methods on the crate's operators -/
section provided_u
variable {w n : Nat} {a b : List Nat}

/-- `div_ceil` for `BUint`: the quotient rounded up; no panic for a non-zero divisor -/
theorem U.divCeil_spec (hw : 1 ≤ w) (hn : 1 ≤ n) (ha : WF w n a) (hb : WF w n b)
    (hb0 : U w b ≠ 0) (dbg : Bool) :
    ∃ r, U.divCeil dbg w a b = .ok r ∧ WF w n r ∧
      U w r = U w a / U w b + (if U w a % U w b = 0 then 0 else 1) := by
  obtain ⟨q, r, h, wq, wr, sq, sr⟩ := U.divModFloor_spec hw hn ha hb hb0
  unfold U.divCeil
  rw [h]; dsimp only [Outcome.bind]
  unfold U.isZeroT
  rw [isZero_eq (w := w) r, sr]
  by_cases h0 : U w a % U w b = 0
  · simp only [h0, decide_true, if_true]
    exact ⟨q, rfl, wq, by rw [sq]; simp⟩
  · simp only [h0, decide_false, Bool.false_eq_true, if_false]
    have hlt := U_lt ha
    have ha0 : 0 < U w a := by
      rcases Nat.eq_zero_or_pos (U w a) with h | h
      · rw [h] at h0; simp at h0
      · exact h
    have hb1 : 1 < U w b := by
      rcases Nat.lt_or_ge 1 (U w b) with h | h
      · exact h
      · have : U w b = 1 := by omega
        rw [this] at h0; omega
    have hq := Nat.div_lt_self ha0 hb1
    unfold U.oneV
    rw [ha.1]
    obtain ⟨t, t1, t2, t3⟩ := uAdd_ok wq (WF_one hw hn) (by rw [U_one hn, sq]; omega) dbg
    exact ⟨t, t1, t2, by rw [t3, U_one hn, sq]⟩

/-- `prev_multiple_of` for `BUint`: `self - self % other`, never overflows -/
theorem U.prevMultipleOf_spec (hw : 1 ≤ w) (hn : 1 ≤ n) (ha : WF w n a) (hb : WF w n b)
    (hb0 : U w b ≠ 0) (dbg : Bool) :
    ∃ r, U.prevMultipleOf dbg w a b = .ok r ∧ WF w n r ∧ U w r = U w a - U w a % U w b := by
  obtain ⟨m, h, wm, sm⟩ := U.modFloor_spec hw hn ha hb hb0
  unfold U.prevMultipleOf
  rw [h]; dsimp only [Outcome.bind]
  obtain ⟨t, t1, t2, t3⟩ := uSub_ok ha wm (by rw [sm]; exact Nat.mod_le _ _) dbg
  exact ⟨t, t1, t2, by rw [t3, sm]⟩

/-- `next_multiple_of` for `BUint`, both profiles: the next multiple `t`; when it does not fit a debug
    build panics and a release build wraps -/
theorem U.nextMultipleOf_full (hw : 1 ≤ w) (hn : 1 ≤ n) (ha : WF w n a) (hb : WF w n b)
    (hb0 : U w b ≠ 0) (dbg : Bool) :
    let t := U w a + (if U w a % U w b = 0 then 0 else U w b - U w a % U w b)
    (U.nextMultipleOf dbg w a b = .panic ↔ dbg = true ∧ M w n ≤ t) ∧
    (∀ r, U.nextMultipleOf dbg w a b = .ok r → WF w n r ∧ U w r = t % M w n) := by
  intro t
  obtain ⟨m, h, wm, sm⟩ := U.modFloor_spec hw hn ha hb hb0
  have hml : U w a % U w b < U w b := Nat.mod_lt _ (by omega)
  unfold U.nextMultipleOf
  rw [h]; dsimp only [Outcome.bind]
  unfold U.isZeroT
  rw [isZero_eq (w := w) m, sm]
  by_cases h0 : U w a % U w b = 0
  · simp only [h0, decide_true, if_true]
    try dsimp only [Outcome.bind]
    unfold U.zeroV; rw [ha.1]
    obtain ⟨a1, a2⟩ := uAdd_full ha (WF_zero w n) dbg
    rw [U_zero] at a1 a2
    have ht : t = U w a + 0 := by simp only [t, h0, if_true]
    rw [ht]; exact ⟨a1, a2⟩
  · simp only [h0, decide_false, Bool.false_eq_true, if_false]
    obtain ⟨d, d1, d2, d3⟩ := uSub_ok hb wm (by rw [sm]; omega) dbg
    rw [d1]; dsimp only [Outcome.bind]
    obtain ⟨a1, a2⟩ := uAdd_full ha d2 dbg
    rw [d3, sm] at a1 a2
    have ht : t = U w a + (U w b - U w a % U w b) := by simp only [t, h0, if_false]
    rw [ht]; exact ⟨a1, a2⟩

/-- `gcd_lcm` for `BUint` whenever the lcm is representable -/
theorem U.gcdLcm_spec (hw : 1 ≤ w) (hn : 1 ≤ n) (ha : WF w n a) (hb : WF w n b)
    (hrep : Nat.lcm (U w a) (U w b) < M w n) (dbg : Bool) :
    ∃ g l, U.gcdLcm dbg w a b = .ok (g, l) ∧ WF w n g ∧ WF w n l ∧
      U w g = Nat.gcd (U w a) (U w b) ∧ U w l = Nat.lcm (U w a) (U w b) := by
  obtain ⟨g, g1, g2, g3⟩ := U.gcd_spec hw ha hb dbg
  obtain ⟨l, l1, l2, l3⟩ := U.lcm_spec hw hn ha hb hrep dbg
  unfold U.gcdLcm; rw [g1, l1]
  exact ⟨g, l, rfl, g2, l2, g3, l3⟩

/-- `inc` / `dec` for `BUint`, both profiles -/
theorem U.inc_full (hw : 1 ≤ w) (hn : 1 ≤ n) (ha : WF w n a) (dbg : Bool) :
    (U.inc dbg w a = .panic ↔ dbg = true ∧ M w n ≤ U w a + 1) ∧
    (∀ r, U.inc dbg w a = .ok r → WF w n r ∧ U w r = (U w a + 1) % M w n) := by
  unfold U.inc U.oneV; rw [ha.1]
  have := uAdd_full ha (WF_one hw hn) dbg
  rwa [U_one hn] at this

theorem U.dec_full (hw : 1 ≤ w) (hn : 1 ≤ n) (ha : WF w n a) (dbg : Bool) :
    (U.dec dbg w a = .panic ↔ dbg = true ∧ U w a = 0) ∧
    (∀ r, U.dec dbg w a = .ok r → WF w n r ∧ (U w r : Int) = wrapU (M w n) ((U w a : Int) - 1)) := by
  unfold U.dec U.oneV; rw [ha.1]
  obtain ⟨h1, h2⟩ := uSub_full ha (WF_one hw hn) dbg
  rw [U_one hn] at h1 h2
  exact ⟨by rw [h1]; constructor <;> rintro ⟨x, y⟩ <;> exact ⟨x, by omega⟩, by exact_mod_cast h2⟩

end provided_u

section provided_i
variable {w n : Nat} {a b : List Nat} (hw : 2 ≤ w) (hn : 1 ≤ n) (ha : WF w n a) (hb : WF w n b)
  (hb0 : S w b ≠ 0) (hov : ¬ (S w a = -((M w n / 2 : Nat) : Int) ∧ S w b = -1)) (dbg : Bool)
include hw hn ha hb hb0 hov

/-- `div_ceil` for `BInt`: floor quotient, plus one when the remainder is non-zero (that is the
    quotient rounded toward `+∞`); the `+ 1` never overflows -/
theorem I.divCeil_spec :
    ∃ r, I.divCeil dbg w a b = .ok r ∧ WF w n r ∧
      S w r = (S w a).fdiv (S w b) + (if (S w a).fmod (S w b) = 0 then 0 else 1) := by
  obtain ⟨q, r, h, wq, wr, sq, sr⟩ := I.divModFloor_spec hw hn ha hb hb0 hov dbg
  have hw1 : 1 ≤ w := by omega
  unfold I.divCeil
  rw [h]; dsimp only [Outcome.bind]
  unfold I.isZeroT
  by_cases h0 : (S w a).fmod (S w b) = 0
  · have hz : isZero r = true := (II.isZero_iff_S wr).mpr (by rw [sr]; exact h0)
    simp only [hz, if_true, h0]
    exact ⟨q, rfl, wq, by rw [sq]; simp⟩
  · have hz : isZero r = false := by
      cases hc : isZero r with
      | false => rfl
      | true => exact absurd (by rw [← sr]; exact (II.isZero_iff_S wr).mp hc) h0
    simp only [hz, Bool.false_eq_true, if_false, h0]
    -- the floor quotient is not `MAX` when the remainder is non-zero
    have hrq := S_repS hw1 hn wq
    have hra := S_repS hw1 hn ha
    have hm := M_even hw1 hn
    have hM4 := M_ge_four hw hn
    have hdec := fdiv_fmod (S w a) (S w b)
    have hsign := fmod_sign (S w a) (S w b) hb0
    rw [← sq, ← sr] at hdec
    rw [← sr] at hsign h0
    have hrep : repS (M w n) (S w q + 1) := by
      unfold repS at *
      refine ⟨by omega, ?_⟩
      by_contra hc
      have hq : S w q = ((M w n / 2 : Nat) : Int) - 1 := by omega
      rcases Int.lt_or_gt_of_ne hb0 with hneg | hpos
      · obtain ⟨s1, s2⟩ := hsign.2 hneg
        have hb2 : S w b ≤ -2 := by omega
        have : S w b * S w q ≤ (-2) * S w q :=
          Int.mul_le_mul_of_nonneg_right hb2 (by omega)
        omega
      · obtain ⟨s1, s2⟩ := hsign.1 hpos
        have hb2 : 2 ≤ S w b := by omega
        have : 2 * S w q ≤ S w b * S w q :=
          Int.mul_le_mul_of_nonneg_right hb2 (by omega)
        omega
    unfold I.oneV; rw [ha.1]
    obtain ⟨t, t1, t2, t3⟩ := iOpAdd_ok hw hn wq (WF_one hw1 hn) (by rw [S_one hw hn]; exact hrep) dbg
    exact ⟨t, t1, t2, by rw [t3, S_one hw hn, sq]⟩

/-- `prev_multiple_of` for `BInt`, both profiles: `self - self.mod_floor(other)` -/
theorem I.prevMultipleOf_full :
    let t := S w a - (S w a).fmod (S w b)
    (I.prevMultipleOf dbg w a b = .panic ↔ dbg = true ∧ ¬ repS (M w n) t) ∧
    (∀ r, I.prevMultipleOf dbg w a b = .ok r → WF w n r ∧ S w r = wrapS (M w n) t) := by
  intro t
  obtain ⟨m, h, wm, sm⟩ := I.modFloor_spec hw hn ha hb hb0 hov dbg
  unfold I.prevMultipleOf
  rw [h]; dsimp only [Outcome.bind]
  have := iSub_full hw hn ha wm dbg
  rwa [sm] at this

/-- `next_multiple_of` for `BInt`, both profiles:
    `self + (if m = 0 then 0 else other - m)` with `m = self.mod_floor(other)` -/
theorem I.nextMultipleOf_full :
    let m := (S w a).fmod (S w b)
    let t := S w a + (if m = 0 then 0 else S w b - m)
    (I.nextMultipleOf dbg w a b = .panic ↔ dbg = true ∧ ¬ repS (M w n) t) ∧
    (∀ r, I.nextMultipleOf dbg w a b = .ok r → WF w n r ∧ S w r = wrapS (M w n) t) := by
  intro m0 t
  obtain ⟨m, h, wm, sm⟩ := I.modFloor_spec hw hn ha hb hb0 hov dbg
  have hw1 : 1 ≤ w := by omega
  unfold I.nextMultipleOf
  rw [h]; dsimp only [Outcome.bind]
  unfold I.isZeroT
  by_cases h0 : (S w a).fmod (S w b) = 0
  · have hz : isZero m = true := (II.isZero_iff_S wm).mpr (by rw [sm]; exact h0)
    simp only [hz, if_true]
    try dsimp only [Outcome.bind]
    unfold I.zeroV; rw [ha.1]
    have := iAdd_full hw hn ha (WF_zero w n) dbg
    rw [S_zero] at this
    have ht : t = S w a + 0 := by simp only [t, m0, h0, if_true]
    rw [ht]; exact this
  · have hz : isZero m = false := by
      cases hc : isZero m with
      | false => rfl
      | true => exact absurd (by rw [← sm]; exact (II.isZero_iff_S wm).mp hc) h0
    simp only [hz, Bool.false_eq_true, if_false]
    have hrb := S_repS hw1 hn hb
    have hsign := fmod_sign (S w a) (S w b) hb0
    have hrep : repS (M w n) (S w b - S w m) := by
      rw [sm]
      unfold repS at *
      rcases Int.lt_or_gt_of_ne hb0 with hneg | hpos
      · obtain ⟨s1, s2⟩ := hsign.2 hneg; omega
      · obtain ⟨s1, s2⟩ := hsign.1 hpos; omega
    obtain ⟨d, d1, d2, d3⟩ := iOpSub_ok hw hn hb wm hrep dbg
    have d1' : II.sub dbg w b m = .ok d := d1
    rw [d1']; dsimp only [Outcome.bind]
    have := iAdd_full hw hn ha d2 dbg
    rw [d3, sm] at this
    have ht : t = S w a + (S w b - (S w a).fmod (S w b)) := by simp only [t, m0, h0, if_false]
    rw [ht]; exact this

end provided_i

section provided_i2
variable {w n : Nat} {a b : List Nat}

/-- `gcd_lcm` for `BInt` whenever the lcm (hence the gcd, unless both operands are zero) is
    representable -/
theorem I.gcdLcm_spec (hw : 2 ≤ w) (hn : 1 ≤ n) (ha : WF w n a) (hb : WF w n b)
    (hrepg : 2 * Nat.gcd (S w a).natAbs (S w b).natAbs < M w n)
    (hrepl : 2 * Nat.lcm (S w a).natAbs (S w b).natAbs < M w n) (dbg : Bool) :
    ∃ g l, I.gcdLcm dbg w a b = .ok (g, l) ∧ WF w n g ∧ WF w n l ∧
      S w g = (Nat.gcd (S w a).natAbs (S w b).natAbs : Int) ∧
      S w l = (Nat.lcm (S w a).natAbs (S w b).natAbs : Int) := by
  obtain ⟨g, g1, g2, g3⟩ := I.gcd_spec hw hn ha hb hrepg dbg
  obtain ⟨l, l1, l2, l3⟩ := I.lcm_spec hw hn ha hb hrepl dbg
  unfold I.gcdLcm; rw [g1, l1]
  exact ⟨g, l, rfl, g2, l2, g3, l3⟩

/-- `inc` / `dec` for `BInt`, both profiles -/
theorem I.inc_full (hw : 2 ≤ w) (hn : 1 ≤ n) (ha : WF w n a) (dbg : Bool) :
    (I.inc dbg w a = .panic ↔ dbg = true ∧ ¬ repS (M w n) (S w a + 1)) ∧
    (∀ r, I.inc dbg w a = .ok r → WF w n r ∧ S w r = wrapS (M w n) (S w a + 1)) := by
  unfold I.inc I.oneV; rw [ha.1]
  have := iAdd_full hw hn ha (WF_one (by omega) hn) dbg
  rwa [S_one hw hn] at this

theorem I.dec_full (hw : 2 ≤ w) (hn : 1 ≤ n) (ha : WF w n a) (dbg : Bool) :
    (I.dec dbg w a = .panic ↔ dbg = true ∧ ¬ repS (M w n) (S w a - 1)) ∧
    (∀ r, I.dec dbg w a = .ok r → WF w n r ∧ S w r = wrapS (M w n) (S w a - 1)) := by
  unfold I.dec I.oneV; rw [ha.1]
  have := iSub_full hw hn ha (WF_one (by omega) hn) dbg
  rwa [S_one hw hn] at this

end provided_i2

end NumT
end Bnum
