/-
  Bnum.Lemmas.C08Extra — additional lemmas for property C08 (powers and integer logarithms).

  `Pow.spec_saturatingPow_eq`: the executable `Spec.saturatingPow` (the differential driver's answer for
  `saturating_pow`: bound chosen by sign and parity when `powOverflows`, else the modular power) is
  `Spec.saturating` of the exact power, i.e. the pattern of `a ^ e` clamped into the type's range.
  (Lemmas/Pow.lean has the corresponding facts for `Spec.overflowingPow`, `Spec.checkedPow`, `Spec.powWrapped`.)
-/
import Bnum.Lemmas.Pow
namespace Bnum.Pow
open Bnum Bnum.Spec

/-- the executable `Spec.saturatingPow` is `Spec.saturating` (clamp, then pattern) of the exact power -/
theorem spec_saturatingPow_eq {signed : Bool} {m : Nat} (hm : 0 < m) (he2 : m = 2 * (m / 2)) (a : Int)
    (e : Nat) (hu : signed = false → 0 ≤ a) :
    saturatingPow signed m a e = saturating signed m (a ^ e) := by
  unfold saturatingPow saturating
  rw [powOverflows_eq hm he2 a e hu, powWrapped_eq hm]
  cases hr : rep signed m (a ^ e)
  · -- not representable
    simp only [Bool.not_false, if_true]
    cases signed
    · have ha := hu rfl
      simp only [Bool.false_eq_true, if_false]
      have hz : 0 ≤ a ^ e := pow_nonneg ha e
      have hnr : ¬ repU m (a ^ e) := by
        unfold rep at hr; simpa using hr
      unfold clamp minV maxV
      simp only [Bool.false_eq_true, if_false]
      unfold repU at hnr
      rw [if_neg (by omega), if_pos (by omega)]
      unfold wrapU
      rw [Int.emod_eq_of_lt (by omega) (by omega)]; omega
    · simp only [if_true]
      have hnr : ¬ repS m (a ^ e) := by
        unfold rep at hr; simpa using hr
      unfold clamp minV maxV
      simp only [if_true]
      unfold repS at hnr
      generalize hh : m / 2 = h at *
      by_cases hneg : a < 0 ∧ e % 2 = 1
      · rw [if_pos hneg]
        have hz := Pow.int_pow_neg a e hneg.1 hneg.2
        generalize a.natAbs ^ e = P at hz
        rw [if_pos (by omega)]
        unfold wrapU
        have : (-(h : Int)) % (m : Int) = h := by
          have e1 : (-(h : Int)) = h + (m : Int) * (-1) := by omega
          rw [e1, Int.add_mul_emod_self_left]; exact Int.emod_eq_of_lt (by omega) (by omega)
        rw [this]; omega
      · rw [if_neg hneg]
        have hz := Pow.int_pow_nonneg a e hneg
        generalize a.natAbs ^ e = P at hz
        rw [if_neg (by omega), if_pos (by omega)]
        unfold wrapU
        rw [Int.emod_eq_of_lt (by omega) (by omega)]; omega
  · -- representable: the clamp is the identity
    simp only [Bool.not_true, Bool.false_eq_true, if_false]
    congr 1
    unfold clamp minV maxV
    cases signed
    · have : repU m (a ^ e) := by unfold rep at hr; simpa using hr
      unfold repU at this
      simp only [Bool.false_eq_true, if_false]
      rw [if_neg (by omega), if_neg (by omega)]
    · have : repS m (a ^ e) := by unfold rep at hr; simpa using hr
      unfold repS at this
      simp only [if_true]
      rw [if_neg (by omega), if_neg (by omega)]

end Bnum.Pow
