/-
  Bnum.Lemmas.Endian — lemmas about Model/Endian.lean (C15).
-/
import Bnum.Lemmas.Basic
import Bnum.Lemmas.AddSub
import Bnum.Model.Endian
import Bnum.Spec.Endian
set_option autoImplicit false
namespace Bnum
namespace Endian
open List

theorem idx_eq {a : List Nat} {i : Nat} (h : i < a.length) : idx a i = .ok a[i] := by
  simp [idx, h]
theorem setIdx_eq {a : List Nat} {i : Nat} (v : Nat) (h : i < a.length) :
    setIdx a i v = .ok (a.set i v) := by simp [setIdx, h]
theorem usub_eq {a b : Nat} (h : b ≤ a) : usub a b = .ok (a - b) := by simp [usub, h]

theorem take_set_succ {db : List Nat} {p v : Nat} (h : p < db.length) :
    (db.set p v).take (p + 1) = db.take p ++ [v] := by
  rw [List.take_succ_eq_append_getElem (by simpa using h)]
  simp [List.take_set_of_le]
theorem drop_set_succ {db : List Nat} {p v k : Nat} :
    (db.set p v).drop (p + 1 + k) = db.drop (p + 1 + k) := by
  rw [List.drop_set_of_lt (by omega)]

/-- generic copy loop: `k` iterations, iteration `t` stores `src[q+t]` at `dst[p+t]` -/
theorem forLoop_copy (body : Nat → List Nat → Outcome (List Nat)) (src : List Nat) (L : Nat) :
    ∀ (k lo p q : Nat) (db : List Nat),
      (∀ t (db' : List Nat) (h : q + t < src.length), t < k → db'.length = L →
          body (lo + t) db' = .ok (db'.set (p + t) src[q + t])) →
      db.length = L → p + k ≤ L → q + k ≤ src.length →
      forLoop body k lo db = .ok (db.take p ++ (src.drop q).take k ++ db.drop (p + k)) := by
  intro k
  induction k with
  | zero => intro lo p q db _ _ _ _; simp [forLoop]
  | succ k ih =>
    intro lo p q db hb hL hp hq
    have h0 := hb 0 db (by omega) (by omega) hL
    simp only [Nat.add_zero] at h0
    rw [forLoop, h0]
    simp only
    rw [ih (lo + 1) (p + 1) (q + 1) (db.set p src[q]) (by
        intro t db' h ht hl
        have := hb (t + 1) db' (by omega) (by omega) hl
        simpa [Nat.add_assoc, Nat.add_comm 1 t] using this) (by simpa using hL) (by omega) (by omega)]
    congr 1
    have hpl : p < db.length := by omega
    rw [take_set_succ hpl, drop_set_succ, show p + (k + 1) = p + 1 + k by omega]
    have : (src.drop q).take (k + 1) = src[q] :: (src.drop (q + 1)).take k := by
      rw [List.drop_eq_getElem_cons (show q < src.length by omega), List.take_succ_cons]
    rw [this]; simp
theorem byteShift_pow (sh : Nat) : byteShift (2 ^ sh) = sh := by
  unfold byteShift; exact Nat.log2_two_pow
theorem shl_byteShift {bw sh : Nat} (hbw : bw = 2 ^ sh) (i : Nat) : i <<< byteShift bw = i * bw := by
  subst hbw; rw [byteShift_pow, Nat.shiftLeft_eq]
theorem shr_byteShift {bw sh : Nat} (hbw : bw = 2 ^ sh) (i : Nat) : i >>> byteShift bw = i / bw := by
  subst hbw; rw [byteShift_pow, Nat.shiftRight_eq_div_pow]
theorem and_bw {bw sh : Nat} (hbw : bw = 2 ^ sh) (i : Nat) : i &&& (bw - 1) = i % bw := by
  subst hbw; exact Nat.and_two_pow_sub_one_eq_mod _ _

theorem leDigit_eq {bw sh : Nat} (hbw : bw = 2 ^ sh) (slice : List Nat) (i : Nat)
    (h : (i + 1) * bw ≤ slice.length) :
    leDigit bw slice i = .ok (Prim.fromLeBytes ((slice.drop (i * bw)).take bw)) := by
  unfold leDigit
  simp only [shl_byteShift hbw]
  have hk : i * bw + bw - i * bw = bw := by omega
  have hle : i * bw + bw ≤ slice.length := by rw [Nat.add_mul] at h; omega
  rw [hk, forLoop_copy _ slice bw bw (i * bw) 0 (i * bw) _ _ (by simp) (by omega) hle]
  · simp
  · intro t db' h1 ht hl
    rw [usub_eq (by omega), idx_eq h1]
    simp only
    rw [setIdx_eq _ (by omega)]
    simp

theorem beDigit_eq {bw sh : Nat} (hbw : bw = 2 ^ sh) (slice : List Nat) (i : Nat)
    (h : (i + 1) * bw ≤ slice.length) :
    beDigit bw slice slice.length i
      = .ok (Prim.fromBeBytes ((slice.drop (slice.length - bw - i * bw)).take bw)) := by
  unfold beDigit
  rw [Nat.add_mul] at h
  simp only [shl_byteShift hbw]
  rw [usub_eq (by omega)]
  simp only
  have hk : slice.length - (slice.length - bw) = bw := by omega
  rw [hk, forLoop_copy _ slice bw bw (slice.length - bw) 0 (slice.length - bw - i * bw) _ _
    (by simp) (by omega) (by omega)]
  · simp
  · intro t db' h1 ht hl
    rw [usub_eq (by omega), usub_eq (by omega)]
    simp only
    have e : slice.length - bw + t - i * bw = slice.length - bw - i * bw + t := by omega
    rw [idx_eq (by omega)]
    simp only
    rw [setIdx_eq _ (by omega)]
    simp [e]

theorem beLastDigit_eq (bw : Nat) (slice : List Nat) (rem pad : Nat)
    (h1 : rem ≤ bw) (h2 : rem ≤ slice.length) :
    beLastDigit bw slice rem pad
      = .ok (Prim.fromBeBytes (List.replicate (bw - rem) pad ++ slice.take rem)) := by
  unfold beLastDigit
  rw [forLoop_copy _ slice bw rem 0 (bw - rem) 0 _ _ (by simp) (by omega) (by omega)]
  · simp [show bw - rem + rem = bw by omega, List.take_replicate]
  · intro t db' h1 ht hl
    rw [usub_eq (by omega)]
    simp only [Nat.zero_add] at h1 ⊢
    rw [idx_eq h1]
    simp only
    rw [setIdx_eq _ (by omega)]

theorem leLastDigit_eq {bw sh : Nat} (hbw : bw = 2 ^ sh) (slice : List Nat) (exact pad : Nat)
    (h1 : exact * bw ≤ slice.length) (h2 : slice.length - exact * bw ≤ bw) :
    leLastDigit bw slice exact pad
      = .ok (Prim.fromLeBytes (slice.drop (exact * bw)
              ++ List.replicate (bw - (slice.length - exact * bw)) pad)) := by
  unfold leLastDigit
  simp only [shl_byteShift hbw]
  rw [forLoop_copy _ slice bw (slice.length - exact * bw) 0 0 (exact * bw) _ _ (by simp) (by omega)
    (by omega)]
  · rw [List.take_of_length_le (l := drop (exact * bw) slice) (by simp)]; simp [List.drop_replicate]
  · intro t db' h1 ht hl
    simp only [Nat.zero_add]
    rw [show t + exact * bw = exact * bw + t by omega, idx_eq h1]
    simp only
    rw [setIdx_eq _ (by omega)]
/-- acceptance test of `BUint`'s digit store -/
def accU (n i d : Nat) : Bool := decide (i < n) || d == 0
/-- acceptance test of `BInt`'s `set_digit!` -/
def accI (w n : Nat) (neg : Bool) (sb i d : Nat) : Bool :=
  if i = n - 1 then Bnum.Prim.isNeg w d == neg else (decide (i < n) || d == sb)

/-- pure form of the digit-store loop -/
def place (acc : Nat → Nat → Bool) (n : Nat) : Nat → List Nat → List Nat → Option (List Nat)
  | _, [], out => some out
  | i, d :: ds, out =>
    if acc i d then place acc n (i + 1) ds (if i < n then out.set i d else out) else none

theorem setDigitU_eq {n i d : Nat} {out : List Nat} (h : out.length = n) :
    setDigitU n i d out
      = .ok (if accU n i d then some (if i < n then out.set i d else out) else none) := by
  unfold setDigitU accU
  by_cases hi : i < n
  · simp [hi, setIdx_eq _ (h ▸ hi)]
  · by_cases hd : d = 0 <;> simp [hi, hd]

theorem setDigitI_eq {w n i d sb : Nat} {neg : Bool} {out : List Nat} (hn : 1 ≤ n)
    (h : out.length = n) :
    setDigitI w n neg sb i d out
      = .ok (if accI w n neg sb i d then some (if i < n then out.set i d else out) else none) := by
  unfold setDigitI accI
  by_cases h1 : i = n - 1
  · subst h1
    have hi : n - 1 < n := by omega
    have hi' : n - 1 < out.length := by omega
    by_cases h2 : Bnum.Prim.isNeg w d = neg <;> simp [h2, hi, setIdx_eq _ hi']
  · by_cases hi : i < n
    · simp [h1, hi, setIdx_eq _ (h ▸ hi)]
    · by_cases hd : d = sb <;> simp [h1, hi, hd]

theorem sliceLoop_eq (getDigit : Nat → Outcome Nat)
    (setDigit : Nat → Nat → List Nat → Outcome (Option (List Nat)))
    (acc : Nat → Nat → Bool) (n : Nat)
    (hset : ∀ i d (out : List Nat), out.length = n →
      setDigit i d out = .ok (if acc i d then some (if i < n then out.set i d else out) else none)) :
    ∀ (ds : List Nat) (i : Nat) (out : List Nat), out.length = n →
      (∀ t (h : t < ds.length), getDigit (i + t) = .ok ds[t]) →
      sliceLoop getDigit setDigit ds.length i out = .ok (place acc n i ds out) := by
  intro ds
  induction ds with
  | nil => intro i out _ _; simp [sliceLoop, place]
  | cons d ds ih =>
    intro i out hl hg
    have h0 := hg 0 (by simp)
    simp only [Nat.add_zero, List.getElem_cons_zero] at h0
    simp only [List.length_cons, sliceLoop, h0, hset i d out hl, place]
    by_cases ha : acc i d
    · simp only [ha, if_true]
      apply ih
      · split <;> simp [hl]
      · intro t h
        have := hg (t + 1) (by simpa using h)
        simpa [Nat.add_assoc, Nat.add_comm 1 t] using this
    · simp [ha]

theorem place_append (acc : Nat → Nat → Bool) (n : Nat) :
    ∀ (ds es : List Nat) (i : Nat) (out : List Nat),
      place acc n i (ds ++ es) out
        = (place acc n i ds out).bind (fun o => place acc n (i + ds.length) es o) := by
  intro ds
  induction ds with
  | nil => intro es i out; simp [place]
  | cons d ds ih =>
    intro es i out
    simp only [List.cons_append, place, List.length_cons]
    by_cases ha : acc i d
    · simp only [ha, if_true]; rw [ih]; simp [Nat.add_assoc, Nat.add_comm 1]
    · simp [ha]

/-- closed form of `place` -/
theorem place_eq (acc : Nat → Nat → Bool) (n : Nat) :
    ∀ (ds : List Nat) (i : Nat) (out : List Nat), out.length = n →
      place acc n i ds out
        = if ∀ t (h : t < ds.length), acc (i + t) ds[t] = true
          then some (out.take i ++ ds.take (n - i) ++ out.drop (i + ds.length)) else none := by
  intro ds
  induction ds with
  | nil => intro i out _; simp [place]
  | cons d ds ih =>
    intro i out hl
    simp only [place]
    by_cases ha : acc i d
    · simp only [ha, if_true]
      rw [ih _ _ (by split <;> simp [hl])]
      have hiff : (∀ t (h : t < ds.length), acc (i + 1 + t) ds[t] = true)
          ↔ (∀ t (h : t < (d :: ds).length), acc (i + t) (d :: ds)[t] = true) := by
        constructor
        · intro h t ht
          cases t with
          | zero => simpa using ha
          | succ t => have := h t (by simpa using ht); simpa [Nat.add_assoc, Nat.add_comm 1 t] using this
        · intro h t ht
          have := h (t + 1) (by simpa using ht)
          simpa [Nat.add_assoc, Nat.add_comm 1 t] using this
      by_cases hall : ∀ t (h : t < ds.length), acc (i + 1 + t) ds[t] = true
      · rw [if_pos hall, if_pos (hiff.mp hall)]
        congr 1
        by_cases hi : i < n
        · simp only [hi, if_true]
          rw [take_set_succ (by omega), drop_set_succ,
            show n - i = (n - (i + 1)) + 1 by omega, List.take_succ_cons]
          simp [Nat.add_assoc, Nat.add_comm 1]
        · simp only [hi, if_false]
          have h1 : n - i = 0 := by omega
          have h2 : n - (i + 1) = 0 := by omega
          rw [h1, h2, List.take_of_length_le (by omega), List.take_of_length_le (i := i) (by omega),
            List.drop_of_length_le (by omega), List.drop_of_length_le (by simp; omega)]
          simp
      · rw [if_neg hall, if_neg (fun h => hall (hiff.mpr h))]
    · rw [if_neg ha, if_neg]
      intro h; have h0 := h 0 (by simp); simp only [Nat.add_zero, List.getElem_cons_zero] at h0; exact ha h0
theorem place_length (acc : Nat → Nat → Bool) (n : Nat) :
    ∀ (ds : List Nat) (i : Nat) (out o : List Nat), place acc n i ds out = some o →
      o.length = out.length := by
  intro ds
  induction ds with
  | nil => intro i out o h; simp [place] at h; subst h; rfl
  | cons d ds ih =>
    intro i out o h
    simp only [place] at h
    by_cases ha : acc i d
    · simp only [ha, if_true] at h
      have := ih _ _ _ h
      rw [this]; split <;> simp
    · simp [ha] at h

/-- `k` consecutive `bw`-byte chunks -/
def chunks (bw : Nat) : Nat → List Nat → List (List Nat)
  | 0, _ => []
  | k + 1, bs => bs.take bw :: chunks bw k (bs.drop bw)

theorem chunks_length (bw : Nat) : ∀ (k : Nat) (bs : List Nat), (chunks bw k bs).length = k := by
  intro k; induction k with
  | zero => intro bs; rfl
  | succ k ih => intro bs; simp [chunks, ih]

theorem chunks_getElem (bw : Nat) : ∀ (k : Nat) (bs : List Nat) (t : Nat) (h : t < (chunks bw k bs).length),
    (chunks bw k bs)[t] = (bs.drop (t * bw)).take bw := by
  intro k; induction k with
  | zero => intro bs t h; simp [chunks] at h
  | succ k ih =>
    intro bs t h
    cases t with
    | zero => simp [chunks]
    | succ t =>
      simp only [chunks, List.getElem_cons_succ]
      rw [ih]; simp [Nat.add_mul, Nat.add_comm]

/-- the digits denoted by a little-endian byte string; the incomplete top digit is padded with `pad` -/
def digitsLE (bw pad : Nat) (bs : List Nat) : List Nat :=
  (chunks bw (bs.length / bw) bs).map (U 8) ++
    (if bs.length % bw = 0 then []
     else [U 8 (bs.drop (bs.length / bw * bw) ++ List.replicate (bw - bs.length % bw) pad)])

theorem place_single (acc : Nat → Nat → Bool) (n i d : Nat) (out : List Nat) :
    place acc n i [d] out = if acc i d then some (if i < n then out.set i d else out) else none := by
  simp [place]

/-- common tail of the four slice constructors, in pure form -/
theorem slice_tail (acc : Nat → Nat → Bool) (n : Nat) (ds : List Nat) (out : List Nat)
    (last : List Nat) :
    place acc n 0 (ds ++ last) out = (place acc n 0 ds out).bind (fun o => place acc n ds.length last o) := by
  rw [place_append]; simp


theorem take_drop_reverse (bs : List Nat) (a b : Nat) (h : a + b ≤ bs.length) :
    (bs.reverse.drop a).take b = ((bs.drop (bs.length - b - a)).take b).reverse := by
  rw [List.drop_reverse, List.take_reverse, List.length_take, Nat.min_eq_left (by omega),
    List.drop_take, show bs.length - a - (bs.length - a - b) = b by omega,
    show bs.length - a - b = bs.length - b - a by omega]

section common
variable {bw sh : Nat} (hbw : bw = 2 ^ sh) (n : Nat)
  (setDigit : Nat → Nat → List Nat → Outcome (Option (List Nat))) (acc : Nat → Nat → Bool)
  (hset : ∀ i d (out : List Nat), out.length = n →
      setDigit i d out = .ok (if acc i d then some (if i < n then out.set i d else out) else none))
include hbw hset

theorem leSlice_common (bs out : List Nat) (pad : Nat) (hout : out.length = n) :
    (match sliceLoop (leDigit bw bs) setDigit (bs.length / bw) 0 out with
      | .panic => .panic
      | .ok none => .ok none
      | .ok (some out) =>
        if (bs.length % bw == 0) = true then .ok (some out)
        else
          match leLastDigit bw bs (bs.length / bw) pad with
          | .panic => .panic
          | .ok digit => setDigit (bs.length / bw) digit out : Outcome (Option (List Nat)))
      = .ok (place acc n 0 (digitsLE bw pad bs) out) := by
  have hpos : 0 < bw := by subst hbw; exact Nat.pow_pos (by decide)
  unfold digitsLE
  have hdm := Nat.div_add_mod bs.length bw
  have hml := Nat.mod_lt bs.length hpos
  have hmul : bs.length / bw * bw = bw * (bs.length / bw) := Nat.mul_comm _ _
  have hloop := sliceLoop_eq (leDigit bw bs) setDigit acc n hset
    ((chunks bw (bs.length / bw) bs).map (U 8)) 0 out hout (by
      intro t h
      simp only [List.length_map, chunks_length] at h
      rw [Nat.zero_add, leDigit_eq hbw bs t (by
        have : (t + 1) * bw ≤ bs.length / bw * bw := Nat.mul_le_mul_right _ h
        omega)]
      simp [chunks_getElem, Prim.fromLeBytes])
  simp only [List.length_map, chunks_length] at hloop
  rw [hloop, slice_tail]
  cases hr : place acc n 0 ((chunks bw (bs.length / bw) bs).map (U 8)) out with
  | none => simp
  | some o =>
    have hol := place_length _ _ _ _ _ _ hr
    rw [hout] at hol
    by_cases hrem : bs.length % bw = 0
    · simp [hrem, place]
    · simp only [hrem, beq_iff_eq, if_false, Option.bind_some, List.length_map, chunks_length,
        place_single]
      rw [leLastDigit_eq hbw bs _ pad (by omega) (by omega)]
      simp only [hset _ _ _ hol, Prim.fromLeBytes]
      rw [show bs.length - bs.length / bw * bw = bs.length % bw by omega]

theorem beSlice_common (bs out : List Nat) (pad : Nat) (hout : out.length = n) :
    (match sliceLoop (beDigit bw bs bs.length) setDigit (bs.length / bw) 0 out with
      | .panic => .panic
      | .ok none => .ok none
      | .ok (some out) =>
        if (bs.length % bw == 0) = true then .ok (some out)
        else
          match beLastDigit bw bs (bs.length % bw) pad with
          | .panic => .panic
          | .ok digit => setDigit (bs.length / bw) digit out : Outcome (Option (List Nat)))
      = .ok (place acc n 0 (digitsLE bw pad bs.reverse) out) := by
  have hpos : 0 < bw := by subst hbw; exact Nat.pow_pos (by decide)
  unfold digitsLE
  simp only [List.length_reverse]
  have hdm := Nat.div_add_mod bs.length bw
  have hml := Nat.mod_lt bs.length hpos
  have hmul : bs.length / bw * bw = bw * (bs.length / bw) := Nat.mul_comm _ _
  have hloop := sliceLoop_eq (beDigit bw bs bs.length) setDigit acc n hset
    ((chunks bw (bs.length / bw) bs.reverse).map (U 8)) 0 out hout (by
      intro t h
      simp only [List.length_map, chunks_length] at h
      have : (t + 1) * bw ≤ bs.length / bw * bw := Nat.mul_le_mul_right _ h
      rw [Nat.add_mul] at this
      rw [Nat.zero_add, beDigit_eq hbw bs t (by rw [Nat.add_mul]; omega)]
      simp only [List.getElem_map, chunks_getElem, Prim.fromBeBytes]
      rw [take_drop_reverse bs _ _ (by omega)])
  simp only [List.length_map, chunks_length] at hloop
  rw [hloop, slice_tail]
  cases hr : place acc n 0 ((chunks bw (bs.length / bw) bs.reverse).map (U 8)) out with
  | none => simp
  | some o =>
    have hol := place_length _ _ _ _ _ _ hr
    rw [hout] at hol
    by_cases hrem : bs.length % bw = 0
    · simp [hrem, place]
    · simp only [hrem, beq_iff_eq, if_false, Option.bind_some, List.length_map, chunks_length,
        place_single]
      rw [beLastDigit_eq bw bs _ pad (by omega) (by omega)]
      simp only [hset _ _ _ hol, Prim.fromBeBytes]
      rw [List.reverse_append, List.reverse_replicate, List.drop_reverse,
        show bs.length - bs.length / bw * bw = bs.length % bw by omega]
end common
end Endian

open Endian
theorem UI.fromLeSlice_eq {bw sh : Nat} (hbw : bw = 2 ^ sh) (n : Nat) (bs : List Nat) :
    UI.fromLeSlice bw n bs
      = .ok (place (accU n) n 0 (digitsLE bw 0 bs) (List.replicate n 0)) := by
  unfold UI.fromLeSlice
  simp only [shr_byteShift hbw, and_bw hbw]
  exact leSlice_common hbw n (setDigitU n) (accU n) (fun i d out h => setDigitU_eq h) bs _ 0 (by simp)

theorem UI.fromBeSlice_eq {bw sh : Nat} (hbw : bw = 2 ^ sh) (n : Nat) (bs : List Nat) :
    UI.fromBeSlice bw n bs
      = .ok (place (accU n) n 0 (digitsLE bw 0 bs.reverse) (List.replicate n 0)) := by
  unfold UI.fromBeSlice
  simp only [shr_byteShift hbw, and_bw hbw]
  exact beSlice_common hbw n (setDigitU n) (accU n) (fun i d out h => setDigitU_eq h) bs _ 0 (by simp)

theorem UI.fromBeSlice_eq_fromLeSlice {bw sh : Nat} (hbw : bw = 2 ^ sh) (n : Nat) (bs : List Nat) :
    UI.fromBeSlice bw n bs = UI.fromLeSlice bw n bs.reverse := by
  rw [UI.fromBeSlice_eq hbw, UI.fromLeSlice_eq hbw]
/-- sign digit (`Digit::MAX` / `Digit::MIN`) chosen by the slice constructors -/
def Endian.signBits (w : Nat) (neg : Bool) : Nat := if neg then B w - 1 else 0
/-- pad byte (`u8::MAX` / `0`) -/
def Endian.padByte (neg : Bool) : Nat := if neg then 255 else 0

theorem II.fromLeSlice_nil (bw n : Nat) : II.fromLeSlice bw n [] = .ok (some (List.replicate n 0)) := by
  simp [II.fromLeSlice]

theorem II.fromBeSlice_nil (bw n : Nat) : II.fromBeSlice bw n [] = .ok (some (List.replicate n 0)) := by
  simp [II.fromBeSlice]

theorem II.fromLeSlice_eq {bw sh : Nat} (hbw : bw = 2 ^ sh) {n : Nat} (hn : 1 ≤ n) (bs : List Nat)
    (hne : bs ≠ []) :
    II.fromLeSlice bw n bs
      = .ok (place (accI (8 * bw) n (Prim.byteIsNeg (bs.getLast hne))
                (signBits (8 * bw) (Prim.byteIsNeg (bs.getLast hne)))) n 0
              (digitsLE bw (padByte (Prim.byteIsNeg (bs.getLast hne))) bs)
              (List.replicate n (signBits (8 * bw) (Prim.byteIsNeg (bs.getLast hne))))) := by
  have hlen : 0 < bs.length := List.length_pos_iff.mpr hne
  unfold II.fromLeSlice
  simp only [shr_byteShift hbw, and_bw hbw]
  rw [if_neg (by simp; omega), usub_eq (by omega)]
  simp only
  rw [idx_eq (by omega)]
  simp only
  have hl : bs[bs.length - 1] = bs.getLast hne := by rw [List.getLast_eq_getElem]
  rw [hl]
  exact leSlice_common hbw n _ _ (fun i d out h => setDigitI_eq hn h) bs _ _ (by simp)

theorem II.fromBeSlice_eq {bw sh : Nat} (hbw : bw = 2 ^ sh) {n : Nat} (hn : 1 ≤ n) (bs : List Nat)
    (hne : bs ≠ []) :
    II.fromBeSlice bw n bs
      = .ok (place (accI (8 * bw) n (Prim.byteIsNeg (bs.head hne))
                (signBits (8 * bw) (Prim.byteIsNeg (bs.head hne)))) n 0
              (digitsLE bw (padByte (Prim.byteIsNeg (bs.head hne))) bs.reverse)
              (List.replicate n (signBits (8 * bw) (Prim.byteIsNeg (bs.head hne))))) := by
  have hlen : 0 < bs.length := List.length_pos_iff.mpr hne
  unfold II.fromBeSlice
  simp only [shr_byteShift hbw, and_bw hbw]
  rw [if_neg (by simp; omega), idx_eq (by omega)]
  simp only
  have hl : bs[0] = bs.head hne := by rw [List.head_eq_getElem]
  rw [hl]
  have hout : (if Prim.byteIsNeg (bs.head hne) = true then List.replicate n (B (8 * bw) - 1)
      else List.replicate n 0) = List.replicate n (signBits (8 * bw) (Prim.byteIsNeg (bs.head hne))) := by
    unfold signBits; split <;> rfl
  rw [hout]
  exact beSlice_common hbw n _ _ (fun i d out h => setDigitI_eq hn h) bs _ _ (by simp)

theorem II.fromBeSlice_eq_fromLeSlice {bw sh : Nat} (hbw : bw = 2 ^ sh) {n : Nat} (hn : 1 ≤ n)
    (bs : List Nat) : II.fromBeSlice bw n bs = II.fromLeSlice bw n bs.reverse := by
  by_cases hne : bs = []
  · subst hne; simp [II.fromBeSlice_nil, II.fromLeSlice_nil]
  · rw [II.fromBeSlice_eq hbw hn bs hne, II.fromLeSlice_eq hbw hn bs.reverse (by simpa using hne)]
    simp [List.getLast_reverse]
namespace Endian
theorem U_eq_zero_iff (w : Nat) (x : List Nat) : U w x = 0 ↔ ∀ d ∈ x, d = 0 := by
  induction x with
  | nil => simp
  | cons d ds ih =>
    have hB := B_pos w
    simp only [U_cons, List.mem_cons, forall_eq_or_imp, ← ih]
    constructor
    · intro h
      have h1 : d = 0 := by omega
      have h2 : B w * U w ds = 0 := by omega
      exact ⟨h1, by rcases Nat.mul_eq_zero.mp h2 with h | h <;> omega⟩
    · rintro ⟨h1, h2⟩; simp [h1, h2]

theorem U_replicate_max (w k : Nat) : U w (List.replicate k (B w - 1)) + 1 = M w k := by
  induction k with
  | zero => simp [M]
  | succ k ih =>
    rw [List.replicate_succ, U_cons, M_succ, ← ih]
    have hB := B_pos w
    generalize U w (List.replicate k (B w - 1)) = u
    generalize B w = b at *
    have : b * (u + 1) = b * u + b := by ring
    omega

theorem WF_replicate {w k d : Nat} (hd : d < B w) : WF w k (List.replicate k d) := by
  refine ⟨by simp, ?_⟩
  intro e he; rw [List.mem_replicate] at he; omega

theorem WF_append {w n k : Nat} {x y : List Nat} (hx : WF w n x) (hy : WF w k y) :
    WF w (n + k) (x ++ y) := by
  refine ⟨by simp [hx.1, hy.1], ?_⟩
  intro d hd; rw [List.mem_append] at hd
  rcases hd with h | h
  · exact hx.2 d h
  · exact hy.2 d h

theorem M_add (w n k : Nat) : M w (n + k) = M w n * M w k := by
  unfold M; rw [Nat.mul_add, Nat.pow_add]

theorem M_le {w n k : Nat} (h : n ≤ k) : M w n ≤ M w k := by
  unfold M; exact Nat.pow_le_pow_right (by decide) (Nat.mul_le_mul_left _ h)

theorem S_neg_iff {w n : Nat} {x : List Nat} (hx : WF w n x) :
    S w x < 0 ↔ M w n ≤ 2 * U w x := by
  have := U_lt hx
  unfold S toInt; rw [hx.1]; split <;> omega

theorem S_eq_of_nonneg {w n : Nat} {x : List Nat} (hx : WF w n x) (h : ¬ S w x < 0) :
    S w x = U w x := by
  have h' := (S_neg_iff hx).not.mp h
  unfold S; rw [hx.1]; exact toInt_of_lt (by omega)

theorem S_eq_of_neg {w n : Nat} {x : List Nat} (hx : WF w n x) (h : S w x < 0) :
    S w x = (U w x : Int) - M w n := by
  have h' := (S_neg_iff hx).mp h
  unfold S; rw [hx.1]; exact toInt_of_ge h'

/-- the sign is the top bit of the most significant digit -/
theorem S_neg_top {w : Nat} (hw : 1 ≤ w) : ∀ {n : Nat} {x : List Nat}, 1 ≤ n → WF w n x →
    (S w x < 0 ↔ B w ≤ 2 * x.getLastD 0) := by
  intro n x
  induction x generalizing n with
  | nil => intro hn hx; have := hx.1; simp at this; omega
  | cons d ds ih =>
    intro hn hx
    cases n with
    | zero => omega
    | succ n =>
      rw [WF_cons] at hx
      cases ds with
      | nil =>
        rw [S_singleton]
        have := hx.1
        simp only [List.getLastD_cons, List.getLastD_nil]
        unfold toInt; split <;> omega
      | cons e es =>
        have hn' : 1 ≤ n := by have := hx.2.1; simp at this; omega
        rw [S_cons hw hn' hx.1 hx.2]
        have := ih hn' hx.2
        simp only [List.getLastD_cons] at this ⊢
        rw [← this]
        have hB := B_pos w
        have hd := hx.1
        generalize S w (e :: es) = s
        generalize B w = b at *
        constructor
        · intro h
          by_contra hs
          have : (0 : Int) ≤ b * s := Int.mul_nonneg (by omega) (by omega)
          omega
        · intro h
          have : (b : Int) * s ≤ b * (-1) := Int.mul_le_mul_of_nonneg_left (by omega) (by omega)
          omega

/-- sign extension does not change the value -/
theorem S_sign_extend {w n : Nat} {x : List Nat} (hw : 1 ≤ w) (hn : 1 ≤ n) (hx : WF w n x) (k : Nat) :
    S w (x ++ List.replicate k (if S w x < 0 then B w - 1 else 0)) = S w x := by
  have hB := B_pos w
  have hxu := U_lt hx
  have hsb : (if S w x < 0 then B w - 1 else 0) < B w := by split <;> omega
  have hwf := WF_append hx (WF_replicate (k := k) hsb)
  have hrep := S_repS hw hn hx
  have hMk := M_pos w k
  have hMn := M_pos w n
  unfold S at *
  rw [hwf.1, hx.1] at *
  apply toInt_eq_of_emod (M_pos _ _) (U_lt hwf)
  · unfold repS at *
    rw [M_add]; push_cast
    have : (M w n : Int) ≤ M w n * M w k := by
      have : (M w n : Int) * 1 ≤ M w n * M w k := Int.mul_le_mul_of_nonneg_left (by omega) (by omega)
      omega
    omega
  · rw [U_append, hx.1, ← M_eq_pow, M_add]
    by_cases hneg : toInt (M w n) (U w x) < 0
    · simp only [hneg, if_true]
      have hum := U_replicate_max w k
      have h2 : toInt (M w n) (U w x) = (U w x : Int) - M w n := by
        unfold toInt at hneg ⊢
        split at hneg
        · omega
        · rename_i hc; rw [if_neg hc]
      rw [h2]
      generalize U w (List.replicate k (B w - 1)) = r at *
      rw [← hum]; push_cast
      have : ((U w x : Int) - M w n) = (U w x + M w n * r) + (M w n * (r + 1)) * (-1) := by ring
      rw [this, Int.add_mul_emod_self_left]
      apply Int.emod_eq_of_lt (by positivity)
      have : (M w n : Int) * r + M w n = M w n * (r + 1) := by ring
      omega
    · simp only [hneg, if_false, U_replicate_zero]
      have h2 : toInt (M w n) (U w x) = (U w x : Int) := by
        unfold toInt at hneg ⊢; split at hneg <;> simp_all
      rw [h2]; simp only [Nat.mul_zero, Nat.add_zero]
      apply Int.emod_eq_of_lt (by positivity)
      have : (M w n : Int) * 1 ≤ M w n * M w k := Int.mul_le_mul_of_nonneg_left (by omega) (by omega)
      push_cast; omega
theorem WF_of_forall {w : Nat} {D : List Nat} (h : ∀ d ∈ D, d < B w) : WF w D.length D := ⟨rfl, h⟩

theorem WF_take {w n : Nat} {D : List Nat} (h : ∀ d ∈ D, d < B w) (hn : n ≤ D.length) :
    WF w n (D.take n) :=
  ⟨by simp [hn], fun d hd => h d (List.mem_of_mem_take hd)⟩

theorem WF_drop {w n : Nat} {D : List Nat} (h : ∀ d ∈ D, d < B w) :
    WF w (D.length - n) (D.drop n) :=
  ⟨by simp, fun d hd => h d (List.mem_of_mem_drop hd)⟩

theorem WF_takePad {w n sb : Nat} {D : List Nat} (h : ∀ d ∈ D, d < B w) (hsb : sb < B w) :
    WF w n (D.take n ++ List.replicate (n - D.length) sb) := by
  refine ⟨by simp; omega, ?_⟩
  intro d hd; rw [List.mem_append] at hd
  rcases hd with hd | hd
  · exact h d (List.mem_of_mem_take hd)
  · rw [List.mem_replicate] at hd; omega

theorem U_split (w n : Nat) (D : List Nat) (hn : n ≤ D.length) :
    U w D = U w (D.take n) + M w n * U w (D.drop n) := by
  conv_lhs => rw [← List.take_append_drop n D]
  rw [U_append, List.length_take, Nat.min_eq_left hn, M_eq_pow]

/-! ### unsigned digit store -/
theorem accU_all_iff (n : Nat) (D : List Nat) :
    (∀ t (h : t < D.length), accU n (0 + t) D[t] = true) ↔ ∀ d ∈ D.drop n, d = 0 := by
  constructor
  · intro h d hd
    obtain ⟨j, hj, rfl⟩ := List.getElem_of_mem hd
    rw [List.length_drop] at hj
    have := h (n + j) (by omega)
    rw [List.getElem_drop]
    simpa [accU] using this
  · intro h t ht
    by_cases hlt : t < n
    · simp [accU, hlt]
    · have : D[t] ∈ D.drop n := by
        rw [List.mem_iff_getElem]
        exact ⟨t - n, by simp; omega, by rw [List.getElem_drop]; congr 1; omega⟩
      simp [accU, h _ this]

theorem placeU_spec {w n : Nat} (D : List Nat) (hD : ∀ d ∈ D, d < B w) :
    place (accU n) n 0 D (List.replicate n 0)
      = if U w D < M w n then some (D.take n ++ List.replicate (n - D.length) 0) else none := by
  rw [place_eq _ _ _ _ _ (by simp)]
  have hiff : (∀ t (h : t < D.length), accU n (0 + t) D[t] = true) ↔ U w D < M w n := by
    rw [accU_all_iff, ← U_eq_zero_iff w]
    by_cases hl : D.length ≤ n
    · rw [List.drop_of_length_le hl]
      have := U_lt (WF_of_forall hD)
      have := M_le (w := w) hl
      simp; omega
    · have hn : n ≤ D.length := by omega
      rw [U_split w n D hn]
      have h1 := U_lt (WF_take hD hn)
      have hM := M_pos w n
      generalize U w (D.drop n) = r
      generalize U w (D.take n) = t at *
      generalize M w n = m at *
      constructor
      · intro h; subst h; simpa using h1
      · intro h
        by_contra hr
        have : m * 1 ≤ m * r := Nat.mul_le_mul_left _ (by omega)
        omega
  by_cases hc : U w D < M w n
  · rw [if_pos (hiff.mpr hc), if_pos hc]; simp [List.drop_replicate]
  · rw [if_neg (fun h => hc (hiff.mp h)), if_neg hc]

theorem U_takePad {w n : Nat} (D : List Nat) (h : U w D < M w n) :
    U w (D.take n ++ List.replicate (n - D.length) 0) = U w D := by
  rw [U_append, U_replicate_zero, Nat.mul_zero, Nat.add_zero]
  by_cases hl : D.length ≤ n
  · rw [List.take_of_length_le hl]
  · have hn : n ≤ D.length := by omega
    rw [U_split w n D hn] at h ⊢
    have hM := M_pos w n
    generalize U w (D.drop n) = r at *
    generalize U w (D.take n) = t at *
    generalize M w n = m at *
    have : r = 0 := by
      by_contra hr
      have : m * 1 ≤ m * r := Nat.mul_le_mul_left _ (by omega)
      omega
    subst this; simp
theorem signBits_lt (w : Nat) (neg : Bool) : signBits w neg < B w := by
  have := B_pos w; unfold signBits; split <;> omega

theorem signBits_decide (w : Nat) (p : Prop) [Decidable p] :
    signBits w (decide p) = if p then B w - 1 else 0 := by
  unfold signBits; by_cases h : p <;> simp [h]

/-- truncating a two's-complement digit string whose value fits `n` digits -/
theorem S_truncate {w n : Nat} (hw : 1 ≤ w) (hn : 1 ≤ n) {D : List Nat} (hD : ∀ d ∈ D, d < B w)
    (hL : n ≤ D.length) (hrep : repS (M w n) (S w D)) :
    S w (D.take n) = S w D ∧
      D = D.take n ++ List.replicate (D.length - n) (signBits w (decide (S w D < 0))) := by
  have hX := WF_take hD hL
  have hDwf := WF_of_forall hD
  have hMn := M_pos w n
  have hSX : S w (D.take n) = S w D := by
    unfold S; rw [hX.1]
    apply toInt_eq_of_emod hMn (U_lt hX) hrep
    have h1 := S_emod hDwf
    have hdvd : (M w n : Int) ∣ (M w D.length : Int) := by
      rw [show D.length = n + (D.length - n) by omega, M_add]; push_cast
      exact Int.dvd_mul_right _ _
    have h2 : S w D % (M w n : Int) = (S w D % (M w D.length : Int)) % (M w n : Int) :=
      (Int.emod_emod_of_dvd _ hdvd).symm
    rw [h2, h1, U_split w n D hL]
    push_cast
    rw [Int.add_mul_emod_self_left]
    exact Int.emod_eq_of_lt (by positivity) (by have := U_lt hX; omega)
  refine ⟨hSX, ?_⟩
  have hext := S_sign_extend hw hn hX (D.length - n)
  rw [hSX] at hext
  rw [signBits_decide]
  have hsb : (if S w D < 0 then B w - 1 else 0) < B w := by have := B_pos w; split <;> omega
  have hY : WF w D.length (D.take n ++ List.replicate (D.length - n) (if S w D < 0 then B w - 1 else 0)) := by
    have := WF_append hX (WF_replicate (k := D.length - n) hsb)
    rwa [show n + (D.length - n) = D.length by omega] at this
  apply U_injective hDwf hY
  have e1 := S_emod hDwf
  have e2 := S_emod hY
  rw [hext, e1] at e2
  exact_mod_cast e2

theorem accI_all_iff {w n : Nat} (hn : 1 ≤ n) (neg : Bool) (sb : Nat) (D : List Nat)
    (hL : n ≤ D.length) :
    (∀ t (h : t < D.length), accI w n neg sb (0 + t) D[t] = true) ↔
      (decide (B w ≤ 2 * (D.take n).getLastD 0) = neg ∧ ∀ d ∈ D.drop n, d = sb) := by
  have hlast : (D.take n).getLastD 0 = D[n - 1]'(by omega) := by
    have hne : D.take n ≠ [] := by
      intro h; have := congrArg List.length h; rw [List.length_take, List.length_nil] at this; omega
    rw [List.getLastD_eq_getLast?, List.getLast?_eq_some_getLast hne, Option.getD_some,
      List.getLast_eq_getElem]
    simp [Nat.min_eq_left hL]
  constructor
  · intro h
    refine ⟨?_, ?_⟩
    · have := h (n - 1) (by omega)
      simp only [accI, Nat.zero_add, if_true, Bnum.Prim.isNeg] at this
      rw [hlast]; simpa using this
    · intro d hd
      obtain ⟨j, hj, rfl⟩ := List.getElem_of_mem hd
      rw [List.length_drop] at hj
      have := h (n + j) (by omega)
      rw [List.getElem_drop]
      have h1 : ¬ (n + j = n - 1) := by omega
      have h2 : ¬ (n + j < n) := by omega
      simpa [accI, h1, h2] using this
  · rintro ⟨h1, h2⟩ t ht
    rw [Nat.zero_add]
    unfold accI
    by_cases ht1 : t = n - 1
    · subst ht1; rw [hlast] at h1; simp [Bnum.Prim.isNeg, h1]
    · by_cases hlt : t < n
      · simp [ht1, hlt]
      · have : D[t] ∈ D.drop n := by
          rw [List.mem_iff_getElem]
          exact ⟨t - n, by simp; omega, by rw [List.getElem_drop]; congr 1; omega⟩
        simp [ht1, h2 _ this]

theorem placeI_spec {w n : Nat} (hw : 1 ≤ w) (hn : 1 ≤ n) (D : List Nat) (hne : D ≠ [])
    (hD : ∀ d ∈ D, d < B w) :
    place (accI w n (decide (S w D < 0)) (signBits w (decide (S w D < 0)))) n 0 D
        (List.replicate n (signBits w (decide (S w D < 0))))
      = if repS (M w n) (S w D)
        then some (D.take n ++ List.replicate (n - D.length) (signBits w (decide (S w D < 0))))
        else none := by
  have hLpos : 1 ≤ D.length := List.length_pos_iff.mpr hne
  have hDwf := WF_of_forall hD
  rw [place_eq _ _ _ _ _ (by simp)]
  have hiff : (∀ t (h : t < D.length), accI w n (decide (S w D < 0))
      (signBits w (decide (S w D < 0))) (0 + t) D[t] = true) ↔ repS (M w n) (S w D) := by
    by_cases hl : D.length ≤ n
    · have hrep : repS (M w n) (S w D) := by
        have h1 := S_repS hw hLpos hDwf
        have h2 := M_le (w := w) hl
        unfold repS at *; omega
      refine ⟨fun _ => hrep, fun _ t ht => ?_⟩
      rw [Nat.zero_add]; unfold accI
      by_cases ht1 : t = n - 1
      · have hlen : D.length = n := by omega
        subst ht1
        have htop : D[n - 1] = D.getLastD 0 := by
          rw [List.getLastD_eq_getLast?, List.getLast?_eq_some_getLast hne, Option.getD_some,
            List.getLast_eq_getElem]
          congr 1; omega
        have := S_neg_top hw hLpos hDwf
        simp only [if_true, Bnum.Prim.isNeg, htop, beq_iff_eq]
        exact decide_eq_decide.mpr this.symm
      · have : t < n := by omega
        simp [ht1, this]
    · have hL : n ≤ D.length := by omega
      rw [accI_all_iff hn _ _ _ hL]
      constructor
      · rintro ⟨h1, h2⟩
        have hX := WF_take hD hL
        have hsx := S_neg_top hw hn hX
        have hsign : S w (D.take n) < 0 ↔ S w D < 0 := hsx.trans (decide_eq_decide.mp h1)
        have hR : D.drop n = List.replicate (D.length - n) (signBits w (decide (S w D < 0))) := by
          rw [List.eq_replicate_iff]; exact ⟨by simp, h2⟩
        have hext := S_sign_extend hw hn hX (D.length - n)
        have hDeq : D = D.take n ++ List.replicate (D.length - n)
            (if S w (D.take n) < 0 then B w - 1 else 0) := by
          conv_lhs => rw [← List.take_append_drop n D, hR, signBits_decide]
          congr 2
          by_cases hs : S w D < 0
          · simp [hs, hsign.mpr hs]
          · simp [hs, mt hsign.mp hs]
        rw [← hDeq] at hext
        rw [hext]; exact S_repS hw hn hX
      · intro hrep
        obtain ⟨hSX, hDeq⟩ := S_truncate hw hn hD hL hrep
        have hX := WF_take hD hL
        have hsx := S_neg_top hw hn hX
        refine ⟨?_, ?_⟩
        · rw [hSX] at hsx
          exact decide_eq_decide.mpr hsx.symm
        · intro d hd
          have : D.drop n = List.replicate (D.length - n) (signBits w (decide (S w D < 0))) := by
            conv_lhs => rw [hDeq]
            rw [List.drop_append_of_le_length (by simp [hL])]
            simp
          rw [this, List.mem_replicate] at hd
          exact hd.2
  by_cases hc : repS (M w n) (S w D)
  · rw [if_pos (hiff.mpr hc), if_pos hc]; simp [List.drop_replicate]
  · rw [if_neg (fun h => hc (hiff.mp h)), if_neg hc]

theorem S_takePad {w n : Nat} (hw : 1 ≤ w) (hn : 1 ≤ n) (D : List Nat) (hne : D ≠ [])
    (hD : ∀ d ∈ D, d < B w) (hrep : repS (M w n) (S w D)) :
    S w (D.take n ++ List.replicate (n - D.length) (signBits w (decide (S w D < 0)))) = S w D := by
  have hLpos : 1 ≤ D.length := List.length_pos_iff.mpr hne
  by_cases hl : D.length ≤ n
  · rw [List.take_of_length_le hl, signBits_decide]
    exact S_sign_extend hw hLpos (WF_of_forall hD) _
  · have hL : n ≤ D.length := by omega
    rw [show n - D.length = 0 by omega]
    simp only [List.replicate_zero, List.append_nil]
    exact (S_truncate hw hn hD hL hrep).1
/-- a byte string -/
def Bytes (bs : List Nat) : Prop := ∀ b ∈ bs, b < 256
instance (bs : List Nat) : Decidable (Bytes bs) := by unfold Bytes; exact inferInstance

theorem B8 : B 8 = 256 := by unfold B; rfl
theorem B_bytes (bw : Nat) : B (8 * bw) = M 8 bw := rfl
theorem M_bytes (bw k : Nat) : M (8 * bw) k = M 8 (bw * k) := by unfold M; rw [Nat.mul_assoc]

theorem Bytes.wf {bs : List Nat} (h : Bytes bs) : WF 8 bs.length bs := ⟨rfl, by rw [B8]; exact h⟩

/-- the byte string padded to a whole number of digits -/
def padTo (bw pad : Nat) (bs : List Nat) : List Nat :=
  bs ++ List.replicate (if bs.length % bw = 0 then 0 else bw - bs.length % bw) pad

theorem U_chunks (bw : Nat) : ∀ (k : Nat) (bs : List Nat), k * bw ≤ bs.length →
    U (8 * bw) ((chunks bw k bs).map (U 8)) = U 8 (bs.take (k * bw)) := by
  intro k
  induction k with
  | zero => intro bs _; simp [chunks]
  | succ k ih =>
    intro bs h
    rw [Nat.add_mul, Nat.one_mul] at h
    simp only [chunks, List.map_cons, U_cons]
    rw [ih _ (by simp; omega), Nat.add_mul, Nat.one_mul, Nat.add_comm (k * bw) bw, List.take_add,
      U_append, List.length_take, Nat.min_eq_left (by omega), ← M_eq_pow, B_bytes]

theorem chunks_lt (bw : Nat) : ∀ (k : Nat) (bs : List Nat), Bytes bs → k * bw ≤ bs.length →
    ∀ d ∈ (chunks bw k bs).map (U 8), d < B (8 * bw) := by
  intro k
  induction k with
  | zero => intro bs _ _ d hd; simp [chunks] at hd
  | succ k ih =>
    intro bs hb h d hd
    rw [Nat.add_mul, Nat.one_mul] at h
    simp only [chunks, List.map_cons, List.mem_cons] at hd
    rcases hd with rfl | hd
    · rw [B_bytes]
      apply U_lt
      exact ⟨by simp; omega, fun b hb' => by rw [B8]; exact hb b (List.mem_of_mem_take hb')⟩
    · exact ih (bs.drop bw) (fun b hb' => hb b (List.mem_of_mem_drop hb')) (by simp; omega) d hd

theorem digitsLE_lt {bw pad : Nat} (hbw : 0 < bw) (hpad : pad < 256) {bs : List Nat} (hb : Bytes bs) :
    ∀ d ∈ digitsLE bw pad bs, d < B (8 * bw) := by
  intro d hd
  unfold digitsLE at hd
  have hdm := Nat.div_add_mod bs.length bw
  have hml := Nat.mod_lt bs.length hbw
  have hmul : bs.length / bw * bw = bw * (bs.length / bw) := Nat.mul_comm _ _
  rw [List.mem_append] at hd
  rcases hd with hd | hd
  · exact chunks_lt bw _ bs hb (by omega) d hd
  · split at hd
    · simp at hd
    · simp only [List.mem_singleton] at hd
      subst hd
      rw [B_bytes]
      apply U_lt
      refine ⟨by simp; omega, ?_⟩
      intro b hb'
      rw [B8]
      rw [List.mem_append] at hb'
      rcases hb' with h | h
      · exact hb b (List.mem_of_mem_drop h)
      · rw [List.mem_replicate] at h; omega

theorem digitsLE_length {bw : Nat} (hbw : 0 < bw) (pad : Nat) (bs : List Nat) :
    bw * (digitsLE bw pad bs).length = (padTo bw pad bs).length := by
  unfold digitsLE padTo
  have hdm := Nat.div_add_mod bs.length bw
  have hml := Nat.mod_lt bs.length hbw
  by_cases h : bs.length % bw = 0
  · simp [h, chunks_length]; omega
  · simp [h, chunks_length, Nat.mul_add]; omega

theorem digitsLE_U {bw : Nat} (hbw : 0 < bw) (pad : Nat) (bs : List Nat) :
    U (8 * bw) (digitsLE bw pad bs) = U 8 (padTo bw pad bs) := by
  unfold digitsLE padTo
  have hdm := Nat.div_add_mod bs.length bw
  have hml := Nat.mod_lt bs.length hbw
  have hmul : bs.length / bw * bw = bw * (bs.length / bw) := Nat.mul_comm _ _
  by_cases h : bs.length % bw = 0
  · simp only [h, if_true, List.append_nil, List.replicate_zero]
    rw [U_chunks bw _ bs (by omega), List.take_of_length_le (by omega)]
  · simp only [h, if_false]
    rw [U_append, U_chunks bw _ bs (by omega), List.length_map, chunks_length, U_cons, U_nil,
      Nat.mul_zero, Nat.add_zero, ← M_eq_pow, M_bytes]
    conv_rhs => rw [← List.take_append_drop (bs.length / bw * bw) bs, List.append_assoc, U_append]
    rw [List.length_take, Nat.min_eq_left (by omega), ← M_eq_pow, hmul, List.take_append_drop]

theorem digitsLE_ne_nil {bw : Nat} (hbw : 0 < bw) (pad : Nat) {bs : List Nat} (hne : bs ≠ []) :
    digitsLE bw pad bs ≠ [] := by
  intro h
  have h1 := digitsLE_length hbw pad bs
  rw [h] at h1
  have : 0 < bs.length := List.length_pos_iff.mpr hne
  simp [padTo] at h1; omega

theorem digitsLE_S {bw : Nat} (hbw : 0 < bw) (pad : Nat) (bs : List Nat) :
    S (8 * bw) (digitsLE bw pad bs) = S 8 (padTo bw pad bs) := by
  unfold S
  rw [digitsLE_U hbw, M_bytes, digitsLE_length hbw]
theorem ofNat_length (w : Nat) : ∀ (n v : Nat), (ofNat w n v).length = n := by
  intro n; induction n with
  | zero => intro v; rfl
  | succ n ih => intro v; simp [ofNat, ih]

theorem WF_ofNat (w : Nat) : ∀ (n v : Nat), WF w n (ofNat w n v) := by
  intro n; induction n with
  | zero => intro v; exact WF_nil w
  | succ n ih => intro v; rw [ofNat, WF_cons]; exact ⟨Nat.mod_lt _ (B_pos w), ih _⟩

theorem U_ofNat (w : Nat) : ∀ (n v : Nat), U w (ofNat w n v) = v % M w n := by
  intro n; induction n with
  | zero => intro v; simp [ofNat, M_zero, Nat.mod_one]
  | succ n ih =>
    intro v
    rw [ofNat, U_cons, ih, M_succ, Nat.mod_mul]

theorem eq_ofNat {w n : Nat} {x : List Nat} (hx : WF w n x) : x = ofNat w n (U w x) := by
  apply U_injective hx (WF_ofNat w n _)
  rw [U_ofNat, Nat.mod_eq_of_lt (U_lt hx)]

theorem eq_ofInt {w n : Nat} {x : List Nat} (hx : WF w n x) : x = ofInt w n (S w x) := by
  unfold ofInt wrapU
  rw [S_emod hx]; simpa using eq_ofNat hx

theorem ofNat_zero (w : Nat) : ∀ n, ofNat w n 0 = List.replicate n 0 := by
  intro n; induction n with
  | zero => rfl
  | succ n ih => simp [ofNat, ih, List.replicate_succ]

theorem ofNat_mod (w n v : Nat) : ofNat w n (v % M w n) = ofNat w n v := by
  apply U_injective (WF_ofNat _ _ _) (WF_ofNat _ _ _)
  rw [U_ofNat, U_ofNat, Nat.mod_mod]

/-! ### Spec ↔ `U 8` / `S 8` -/
open Spec.Endian

theorem leValue_eq (bs : List Nat) : leValue bs = U 8 bs := by
  induction bs with
  | nil => rfl
  | cons b bs ih => rw [leValue, U_cons, ih, B8]

theorem beValue_append (bs : List Nat) (b : Nat) : beValue (bs ++ [b]) = beValue bs * 256 + b := by
  unfold beValue; rw [List.foldl_append]; rfl

theorem beValue_eq (bs : List Nat) : beValue bs = U 8 bs.reverse := by
  induction bs using List.reverseRecOn with
  | nil => rfl
  | append_singleton bs b ih =>
    rw [beValue_append, ih, List.reverse_append, List.reverse_singleton, List.singleton_append,
      U_cons, B8]; omega

theorem beValue_eq_leValue_reverse (bs : List Nat) : beValue bs = leValue bs.reverse := by
  rw [beValue_eq, leValue_eq]

theorem byteIsNeg_last {bs : List Nat} (hb : Bytes bs) (hne : bs ≠ []) :
    Prim.byteIsNeg (bs.getLast hne) = decide (S 8 bs < 0) := by
  have hl : 1 ≤ bs.length := List.length_pos_iff.mpr hne
  have := S_neg_top (w := 8) (by decide) hl hb.wf
  unfold Prim.byteIsNeg
  apply decide_eq_decide.mpr
  rw [this, List.getLastD_eq_getLast?, List.getLast?_eq_some_getLast hne, Option.getD_some, B8]
  omega

theorem twosLE_eq {bs : List Nat} (hb : Bytes bs) : twosLE bs = S 8 bs := by
  unfold twosLE
  by_cases hne : bs = []
  · subst hne; simp [S, toInt, M]
  · rw [List.getLast?_eq_some_getLast hne]
    simp only
    have h1 := byteIsNeg_last hb hne
    unfold Prim.byteIsNeg at h1
    have h2 := decide_eq_decide.mp h1
    have hM : (256 : Int) ^ bs.length = (M 8 bs.length : Int) := by
      unfold M; rw [Nat.pow_mul]; push_cast; rfl
    rw [leValue_eq, hM]
    split
    · rename_i h; exact (S_eq_of_neg hb.wf (h2.mp h)).symm
    · rename_i h; exact (S_eq_of_nonneg hb.wf (mt h2.mpr h)).symm

theorem twosBE_eq_twosLE_reverse (bs : List Nat) : twosBE bs = twosLE bs.reverse := by
  cases bs with
  | nil => rfl
  | cons b bs =>
    unfold twosBE twosLE
    simp only [List.reverse_cons, List.getLast?_append, List.getLast?_singleton, Option.some_or]
    rw [beValue_eq_leValue_reverse]; simp

theorem Bytes.reverse {bs : List Nat} (h : Bytes bs) : Bytes bs.reverse := by
  intro b hb; exact h b (List.mem_reverse.mp hb)

theorem padTo_zero_U (bw : Nat) (bs : List Nat) : U 8 (padTo bw 0 bs) = U 8 bs := by
  unfold padTo; rw [U_append, U_replicate_zero]; simp

theorem padTo_sign_S {bs : List Nat} (bw : Nat) (hb : Bytes bs) (hne : bs ≠ []) :
    S 8 (padTo bw (padByte (Prim.byteIsNeg (bs.getLast hne))) bs) = S 8 bs := by
  have hl : 1 ≤ bs.length := List.length_pos_iff.mpr hne
  have := S_sign_extend (w := 8) (by decide) hl hb.wf
    (if bs.length % bw = 0 then 0 else bw - bs.length % bw)
  rw [B8] at this
  unfold padTo padByte
  rw [byteIsNeg_last hb hne]
  simpa using this
end Endian
open Endian List Spec.Endian

theorem pow_pos_bw {bw sh : Nat} (hbw : bw = 2 ^ sh) : 0 < bw := by
  subst hbw; exact Nat.pow_pos (by decide)

/-- closed form of `BUint::from_le_slice` -/
theorem UI.fromLeSlice_closed {bw sh : Nat} (hbw : bw = 2 ^ sh) (n : Nat) {bs : List Nat}
    (hb : Bytes bs) :
    UI.fromLeSlice bw n bs
      = .ok (if leValue bs < M (8 * bw) n then some (ofNat (8 * bw) n (leValue bs)) else none) := by
  have hpos := pow_pos_bw hbw
  have hD := digitsLE_lt hpos (by decide : 0 < 256) hb
  have hU : U (8 * bw) (digitsLE bw 0 bs) = leValue bs := by
    rw [digitsLE_U hpos, padTo_zero_U, leValue_eq]
  rw [UI.fromLeSlice_eq hbw, placeU_spec _ hD, hU]
  congr 1
  split
  · rename_i h
    congr 1
    have hwf : WF (8 * bw) n _ := WF_takePad (n := n) hD (B_pos _)
    rw [eq_ofNat hwf, U_takePad _ (by rw [hU]; exact h), hU]
  · rfl

/-- closed form of `BUint::from_be_slice` -/
theorem UI.fromBeSlice_closed {bw sh : Nat} (hbw : bw = 2 ^ sh) (n : Nat) {bs : List Nat}
    (hb : Bytes bs) :
    UI.fromBeSlice bw n bs
      = .ok (if beValue bs < M (8 * bw) n then some (ofNat (8 * bw) n (beValue bs)) else none) := by
  rw [UI.fromBeSlice_eq_fromLeSlice hbw, UI.fromLeSlice_closed hbw n hb.reverse,
    beValue_eq_leValue_reverse]

/-- closed form of `BInt::from_le_slice` -/
theorem II.fromLeSlice_closed {bw sh : Nat} (hbw : bw = 2 ^ sh) {n : Nat} (hn : 1 ≤ n)
    {bs : List Nat} (hb : Bytes bs) :
    II.fromLeSlice bw n bs
      = .ok (if repS (M (8 * bw) n) (twosLE bs) then some (ofInt (8 * bw) n (twosLE bs)) else none) := by
  have hpos := pow_pos_bw hbw
  have hw : 1 ≤ 8 * bw := by omega
  by_cases hne : bs = []
  · subst hne
    have hM := M_pos (8 * bw) n
    have : repS (M (8 * bw) n) (twosLE []) := by unfold repS twosLE; simp; omega
    rw [II.fromLeSlice_nil, if_pos this]
    simp [twosLE, ofInt, wrapU, ofNat_zero]
  · rw [II.fromLeSlice_eq hbw hn bs hne]
    have hpad : padByte (Prim.byteIsNeg (bs.getLast hne)) < 256 := by unfold padByte; split <;> omega
    have hD := digitsLE_lt hpos hpad hb
    have hDne := digitsLE_ne_nil hpos (padByte (Prim.byteIsNeg (bs.getLast hne))) hne
    have hS : S (8 * bw) (digitsLE bw (padByte (Prim.byteIsNeg (bs.getLast hne))) bs) = twosLE bs := by
      rw [digitsLE_S hpos, padTo_sign_S bw hb hne, twosLE_eq hb]
    have hneg : Prim.byteIsNeg (bs.getLast hne)
        = decide (S (8 * bw) (digitsLE bw (padByte (Prim.byteIsNeg (bs.getLast hne))) bs) < 0) := by
      rw [hS, twosLE_eq hb]; exact byteIsNeg_last hb hne
    generalize hDdef : digitsLE bw (padByte (Prim.byteIsNeg (bs.getLast hne))) bs = D at *
    rw [hneg, placeI_spec hw hn D hDne hD, ← hS]
    congr 1
    split
    · rename_i h
      congr 1
      have hwf : WF (8 * bw) n _ :=
        WF_takePad (n := n) hD (signBits_lt (8 * bw) (decide (S (8 * bw) D < 0)))
      rw [eq_ofInt hwf, S_takePad hw hn D hDne hD h]
    · rfl

/-- closed form of `BInt::from_be_slice` -/
theorem II.fromBeSlice_closed {bw sh : Nat} (hbw : bw = 2 ^ sh) {n : Nat} (hn : 1 ≤ n)
    {bs : List Nat} (hb : Bytes bs) :
    II.fromBeSlice bw n bs
      = .ok (if repS (M (8 * bw) n) (twosBE bs) then some (ofInt (8 * bw) n (twosBE bs)) else none) := by
  rw [II.fromBeSlice_eq_fromLeSlice hbw hn, II.fromLeSlice_closed hbw hn hb.reverse,
    twosBE_eq_twosLE_reverse]
namespace Endian
/-- a loop whose successive states are `f 0, f 1, …` -/
theorem forLoop_seq {σ : Type} (body : Nat → σ → Outcome σ) :
    ∀ (k lo : Nat) (f : Nat → σ), (∀ t, t < k → body (lo + t) (f t) = .ok (f (t + 1))) →
      forLoop body k lo (f 0) = .ok (f k) := by
  intro k
  induction k with
  | zero => intro lo f _; rfl
  | succ k ih =>
    intro lo f h
    have h0 := h 0 (by omega)
    rw [Nat.add_zero] at h0
    rw [forLoop, h0]
    simp only
    exact ih (lo + 1) (fun t => f (t + 1)) (by
      intro t ht
      have := h (t + 1) (by omega)
      simpa [Nat.add_assoc, Nat.add_comm 1 t] using this)

theorem putDigitBytes_eq {bw sh : Nat} (hbw : bw = 2 ^ sh) (i : Nat) (db bytes : List Nat)
    (hdb : db.length = bw) (h : i * bw + bw ≤ bytes.length) :
    putDigitBytes bw i db bytes = .ok (bytes.take (i * bw) ++ db ++ bytes.drop (i * bw + bw)) := by
  unfold putDigitBytes
  simp only [shl_byteShift hbw]
  rw [forLoop_copy _ db bytes.length bw 0 (i * bw) 0 bytes _ rfl h (by omega)]
  · simp [← hdb]
  · intro t db' h1 ht hl
    simp only [Nat.zero_add] at h1 ⊢
    rw [idx_eq h1]
    simp only
    rw [setIdx_eq _ (by omega)]

/-- the little-endian byte pattern of a digit list -/
def bytesOf (bw : Nat) (x : List Nat) : List Nat := x.flatMap (Prim.toLeBytes bw)

theorem toLeBytes_length (bw d : Nat) : (Prim.toLeBytes bw d).length = bw := ofNat_length 8 bw d

theorem bytesOf_length (bw : Nat) (x : List Nat) : (bytesOf bw x).length = x.length * bw := by
  induction x with
  | nil => simp [bytesOf]
  | cons d ds ih =>
    unfold bytesOf at *
    rw [List.flatMap_cons, List.length_append, ih, toLeBytes_length, List.length_cons, Nat.add_mul]
    omega

theorem bytesOf_take_succ (bw : Nat) (x : List Nat) (t : Nat) (ht : t < x.length) :
    bytesOf bw (x.take (t + 1)) = bytesOf bw (x.take t) ++ Prim.toLeBytes bw x[t] := by
  unfold bytesOf
  rw [List.take_succ_eq_append_getElem ht, List.flatMap_append]; simp
end Endian

theorem UI.toLeBytes_eq {bw sh : Nat} (hbw : bw = 2 ^ sh) {n : Nat} {x : List Nat} (hx : x.length = n) :
    UI.toLeBytes bw n x = .ok (bytesOf bw x) := by
  unfold UI.toLeBytes
  have := forLoop_seq (fun i bytes =>
      match idx x i with
      | .ok d => putDigitBytes bw i (Prim.toLeBytes bw d) bytes
      | .panic => .panic) n 0
    (fun t => bytesOf bw (x.take t) ++ List.replicate ((n - t) * bw) 0) (by
      intro t ht
      simp only [Nat.zero_add]
      rw [idx_eq (by omega)]
      simp only
      have hlen : (bytesOf bw (x.take t)).length = t * bw := by
        rw [bytesOf_length, List.length_take, Nat.min_eq_left (by omega)]
      have hsub : (n - t) * bw = bw + (n - (t + 1)) * bw := by
        rw [show n - t = (n - (t + 1)) + 1 by omega, Nat.add_mul]; omega
      rw [putDigitBytes_eq hbw t _ _ (toLeBytes_length _ _) (by simp [hlen, hsub]),
        bytesOf_take_succ bw x t (by omega)]
      rw [List.take_left' hlen, show t * bw + bw = (bytesOf bw (x.take t)).length + bw by omega,
        List.drop_append, hsub]
      simp [List.drop_replicate])
  simp only [List.take_zero, Nat.sub_zero, Nat.sub_self, Nat.zero_mul, List.replicate_zero,
    List.append_nil] at this
  rw [show bytesOf bw [] = [] from rfl, List.nil_append] at this
  rw [List.take_of_length_le (by omega)] at this
  exact this

/-- invariant of the `to_be_bytes` loop -/
theorem Endian.toBeBytesLoop_eq {bw sh : Nat} (hbw : bw = 2 ^ sh) {n : Nat} {x : List Nat}
    (hx : x.length = n) :
    ∀ (i : Nat) (suffix : List Nat), i ≤ n → suffix.length = (n - i) * bw →
      toBeBytesLoop bw n x i (List.replicate (i * bw) 0 ++ suffix)
        = .ok ((x.drop (n - i)).reverse.flatMap (Prim.toBeBytes bw) ++ suffix) := by
  intro i
  induction i with
  | zero => intro suffix _ _; simp [toBeBytesLoop, List.drop_of_length_le (Nat.le_of_eq hx)]
  | succ i ih =>
    intro suffix hi hs
    rw [toBeBytesLoop, usub_eq hi]
    simp only
    rw [idx_eq (by omega)]
    simp only
    have hdl : (Prim.toBeBytes bw x[n - (i + 1)]).length = bw := by
      unfold Prim.toBeBytes; rw [List.length_reverse, toLeBytes_length]
    rw [putDigitBytes_eq hbw i _ _ hdl (by simp [Nat.add_mul])]
    simp only
    have e1 : (List.replicate ((i + 1) * bw) 0 ++ suffix).take (i * bw) = List.replicate (i * bw) 0 := by
      rw [List.take_append_of_le_length (by simp [Nat.add_mul]), List.take_replicate,
        Nat.min_eq_left (by rw [Nat.add_mul]; omega)]
    have e2 : (List.replicate ((i + 1) * bw) 0 ++ suffix).drop (i * bw + bw) = suffix := by
      rw [show i * bw + bw = (List.replicate ((i + 1) * bw) 0).length by simp [Nat.add_mul],
        List.drop_left]
    rw [e1, e2, List.append_assoc, ih _ (by omega) (by
      rw [List.length_append, hdl, hs, show n - i = (n - (i + 1)) + 1 by omega, Nat.add_mul]; omega)]
    have e3 : (x.drop (n - i)).reverse.flatMap (Prim.toBeBytes bw) ++ Prim.toBeBytes bw x[n - (i + 1)]
        = (x.drop (n - (i + 1))).reverse.flatMap (Prim.toBeBytes bw) := by
      rw [List.drop_eq_getElem_cons (show n - (i + 1) < x.length by omega), List.reverse_cons,
        List.flatMap_append, show n - (i + 1) + 1 = n - i by omega]
      simp
    rw [← List.append_assoc, e3]

theorem UI.toBeBytes_eq {bw sh : Nat} (hbw : bw = 2 ^ sh) {n : Nat} {x : List Nat} (hx : x.length = n) :
    UI.toBeBytes bw n x = .ok (bytesOf bw x).reverse := by
  unfold UI.toBeBytes
  have := toBeBytesLoop_eq hbw hx n [] (Nat.le_refl _) (by simp)
  rw [List.append_nil] at this
  rw [this]
  simp only [Nat.sub_self, List.drop_zero, List.append_nil, bytesOf, List.reverse_flatMap]
  rfl
theorem UI.fromLeBytes_eq {bw sh : Nat} (hbw : bw = 2 ^ sh) {n : Nat} {bytes : List Nat}
    (hlen : bytes.length = n * bw) :
    UI.fromLeBytes bw n bytes = .ok ((chunks bw n bytes).map (U 8)) := by
  unfold UI.fromLeBytes
  rw [forLoop_copy _ ((chunks bw n bytes).map (U 8)) n n 0 0 0 _ _ (by simp) (by omega)
    (by simp [chunks_length])]
  · simp [chunks_length]
  · intro t db' h1 ht hl
    simp only [Nat.zero_add] at h1 ⊢
    rw [leDigit_eq hbw bytes t (by
      have : (t + 1) * bw ≤ n * bw := Nat.mul_le_mul_right _ ht
      omega)]
    simp only
    rw [setIdx_eq _ (by omega)]
    simp [chunks_getElem, Prim.fromLeBytes]

theorem UI.fromBeBytes_eq {bw sh : Nat} (hbw : bw = 2 ^ sh) {n : Nat} {bytes : List Nat}
    (hlen : bytes.length = n * bw) :
    UI.fromBeBytes bw n bytes = .ok ((chunks bw n bytes.reverse).map (U 8)) := by
  unfold UI.fromBeBytes
  rw [forLoop_copy _ ((chunks bw n bytes.reverse).map (U 8)) n n 0 0 0 _ _ (by simp) (by omega)
    (by simp [chunks_length])]
  · simp [chunks_length]
  · intro t db' h1 ht hl
    simp only [Nat.zero_add] at h1 ⊢
    have hle : (t + 1) * bw ≤ n * bw := Nat.mul_le_mul_right _ ht
    rw [← hlen, beDigit_eq hbw bytes t (by omega)]
    simp only
    rw [setIdx_eq _ (by omega)]
    simp only [List.getElem_map, chunks_getElem, Prim.fromBeBytes]
    rw [Nat.add_mul] at hle
    rw [take_drop_reverse bytes _ _ (by omega)]

theorem UI.fromBeBytes_eq_fromLeBytes_reverse {bw sh : Nat} (hbw : bw = 2 ^ sh) {n : Nat}
    {bytes : List Nat} (hlen : bytes.length = n * bw) :
    UI.fromBeBytes bw n bytes = UI.fromLeBytes bw n bytes.reverse := by
  rw [UI.fromBeBytes_eq hbw hlen, UI.fromLeBytes_eq hbw (by simpa using hlen)]

namespace Endian
theorem chunks_bytesOf (bw : Nat) : ∀ (x : List Nat),
    chunks bw x.length (bytesOf bw x) = x.map (Prim.toLeBytes bw) := by
  intro x
  induction x with
  | nil => rfl
  | cons d ds ih =>
    have : bytesOf bw (d :: ds) = Prim.toLeBytes bw d ++ bytesOf bw ds := by simp [bytesOf]
    rw [List.length_cons, chunks, this, List.take_left' (toLeBytes_length bw d),
      List.drop_left' (toLeBytes_length bw d), ih, List.map_cons]

theorem U_toLeBytes {bw d : Nat} (hd : d < B (8 * bw)) : U 8 (Prim.toLeBytes bw d) = d := by
  unfold Prim.toLeBytes; rw [U_ofNat, ← B_bytes, Nat.mod_eq_of_lt hd]

theorem toLeBytes_U {bw : Nat} {c : List Nat} (hc : WF 8 bw c) : Prim.toLeBytes bw (U 8 c) = c := by
  unfold Prim.toLeBytes; exact (eq_ofNat hc).symm

theorem Bytes_toLeBytes (bw d : Nat) : Bytes (Prim.toLeBytes bw d) := by
  have := (WF_ofNat 8 bw d).2; rw [B8] at this; exact this

theorem Bytes_bytesOf (bw : Nat) (x : List Nat) : Bytes (bytesOf bw x) := by
  intro b hb
  unfold bytesOf at hb
  rw [List.mem_flatMap] at hb
  obtain ⟨d, _, hd⟩ := hb
  exact Bytes_toLeBytes bw d b hd

/-- the byte pattern denotes the same number -/
theorem U_bytesOf {bw n : Nat} {x : List Nat} (hx : WF (8 * bw) n x) : U 8 (bytesOf bw x) = U (8 * bw) x := by
  induction x generalizing n with
  | nil => rfl
  | cons d ds ih =>
    cases n with
    | zero => exact absurd hx.1 (by simp)
    | succ n =>
      rw [WF_cons] at hx
      have : bytesOf bw (d :: ds) = Prim.toLeBytes bw d ++ bytesOf bw ds := by simp [bytesOf]
      rw [this, U_append, toLeBytes_length, ← M_eq_pow, ← B_bytes, U_toLeBytes hx.1, ih hx.2, U_cons]

/-- flattening the chunks gives the bytes back -/
theorem chunks_flatten (bw : Nat) : ∀ (k : Nat) (bs : List Nat), bs.length = k * bw →
    (chunks bw k bs).flatten = bs := by
  intro k
  induction k with
  | zero => intro bs h; simp at h; subst h; rfl
  | succ k ih =>
    intro bs h
    rw [Nat.add_mul, Nat.one_mul] at h
    rw [chunks, List.flatten_cons, ih _ (by simp; omega), List.take_append_drop]

theorem chunks_WF (bw : Nat) : ∀ (k : Nat) (bs : List Nat), Bytes bs → bs.length = k * bw →
    ∀ c ∈ chunks bw k bs, WF 8 bw c := by
  intro k
  induction k with
  | zero => intro bs _ _ c hc; simp [chunks] at hc
  | succ k ih =>
    intro bs hb h c hc
    rw [Nat.add_mul, Nat.one_mul] at h
    simp only [chunks, List.mem_cons] at hc
    rcases hc with rfl | hc
    · exact ⟨by simp; omega, fun b hb' => by rw [B8]; exact hb b (List.mem_of_mem_take hb')⟩
    · exact ih (bs.drop bw) (fun b hb' => hb b (List.mem_of_mem_drop hb')) (by simp; omega) c hc

theorem bytesOf_chunks {bw n : Nat} {bytes : List Nat} (hb : Bytes bytes) (hlen : bytes.length = n * bw) :
    bytesOf bw ((chunks bw n bytes).map (U 8)) = bytes := by
  unfold bytesOf
  rw [List.flatMap_def, List.map_map]
  have : (chunks bw n bytes).map (Prim.toLeBytes bw ∘ U 8) = chunks bw n bytes := by
    conv_rhs => rw [← List.map_id (chunks bw n bytes)]
    apply List.map_congr_left
    intro c hc
    exact toLeBytes_U (chunks_WF bw n bytes hb hlen c hc)
  rw [this, chunks_flatten bw n bytes hlen]

theorem map_U_toLeBytes {bw n : Nat} {x : List Nat} (hx : WF (8 * bw) n x) :
    (x.map (Prim.toLeBytes bw)).map (U 8) = x := by
  rw [List.map_map]
  conv_rhs => rw [← List.map_id x]
  apply List.map_congr_left
  intro d hd
  exact U_toLeBytes (hx.2 d hd)
end Endian

/-- `from_le_bytes(to_le_bytes(a)) = a` -/
theorem UI.fromLeBytes_toLeBytes {bw sh : Nat} (hbw : bw = 2 ^ sh) {n : Nat} {x : List Nat}
    (hx : WF (8 * bw) n x) :
    (UI.toLeBytes bw n x).bind (UI.fromLeBytes bw n) = .ok x := by
  rw [UI.toLeBytes_eq hbw hx.1]
  simp only [Outcome.bind]
  rw [UI.fromLeBytes_eq hbw (by rw [bytesOf_length, hx.1])]
  conv_lhs => rw [← hx.1, chunks_bytesOf, map_U_toLeBytes hx]

/-- `from_be_bytes(to_be_bytes(a)) = a` -/
theorem UI.fromBeBytes_toBeBytes {bw sh : Nat} (hbw : bw = 2 ^ sh) {n : Nat} {x : List Nat}
    (hx : WF (8 * bw) n x) :
    (UI.toBeBytes bw n x).bind (UI.fromBeBytes bw n) = .ok x := by
  rw [UI.toBeBytes_eq hbw hx.1]
  simp only [Outcome.bind]
  rw [UI.fromBeBytes_eq hbw (by rw [List.length_reverse, bytesOf_length, hx.1]), List.reverse_reverse]
  conv_lhs => rw [← hx.1, chunks_bytesOf, map_U_toLeBytes hx]

/-- `to_le_bytes(from_le_bytes(b)) = b` -/
theorem UI.toLeBytes_fromLeBytes {bw sh : Nat} (hbw : bw = 2 ^ sh) {n : Nat} {bytes : List Nat}
    (hb : Bytes bytes) (hlen : bytes.length = n * bw) :
    (UI.fromLeBytes bw n bytes).bind (UI.toLeBytes bw n) = .ok bytes := by
  rw [UI.fromLeBytes_eq hbw hlen]
  simp only [Outcome.bind]
  rw [UI.toLeBytes_eq hbw (by simp [chunks_length]), bytesOf_chunks hb hlen]

/-- `to_be_bytes(from_be_bytes(b)) = b` -/
theorem UI.toBeBytes_fromBeBytes {bw sh : Nat} (hbw : bw = 2 ^ sh) {n : Nat} {bytes : List Nat}
    (hb : Bytes bytes) (hlen : bytes.length = n * bw) :
    (UI.fromBeBytes bw n bytes).bind (UI.toBeBytes bw n) = .ok bytes := by
  rw [UI.fromBeBytes_eq hbw hlen]
  simp only [Outcome.bind]
  rw [UI.toBeBytes_eq hbw (by simp [chunks_length]),
    bytesOf_chunks hb.reverse (by simpa using hlen), List.reverse_reverse]

/-- `from_le_bytes` produces the integer whose pattern is the little-endian number -/
theorem UI.fromLeBytes_value {bw sh : Nat} (hbw : bw = 2 ^ sh) {n : Nat} {bytes : List Nat}
    (hb : Bytes bytes) (hlen : bytes.length = n * bw) :
    ∃ x, UI.fromLeBytes bw n bytes = .ok x ∧ WF (8 * bw) n x ∧ U (8 * bw) x = U 8 bytes := by
  refine ⟨_, UI.fromLeBytes_eq hbw hlen, ⟨by simp [chunks_length], ?_⟩, ?_⟩
  · exact chunks_lt bw n bytes hb (by omega)
  · rw [U_chunks bw n bytes (by omega), List.take_of_length_le (by omega)]
namespace Endian
theorem Prim.swapBytes_lt (bw d : Nat) : Prim.swapBytes bw d < B (8 * bw) := by
  unfold Prim.swapBytes Prim.fromBeBytes
  rw [B_bytes]
  apply U_lt
  have := WF_ofNat 8 bw d
  exact ⟨by simp [Prim.toLeBytes, this.1], fun b hb => this.2 b (List.mem_reverse.mp hb)⟩

/-- the bytes of a swapped digit are the reversed bytes -/
theorem Prim.toLeBytes_swapBytes (bw d : Nat) :
    Prim.toLeBytes bw (Prim.swapBytes bw d) = (Prim.toLeBytes bw d).reverse := by
  unfold Prim.swapBytes Prim.fromBeBytes
  apply toLeBytes_U
  have := WF_ofNat 8 bw d
  exact ⟨by simp [Prim.toLeBytes, this.1], fun b hb => this.2 b (List.mem_reverse.mp hb)⟩

theorem Prim.swapBytes_swapBytes {bw d : Nat} (hd : d < B (8 * bw)) :
    Prim.swapBytes bw (Prim.swapBytes bw d) = d := by
  have h := Prim.toLeBytes_swapBytes bw d
  have : Prim.swapBytes bw (Prim.swapBytes bw d)
      = Prim.fromBeBytes (Prim.toLeBytes bw (Prim.swapBytes bw d)) := rfl
  rw [this, h]
  unfold Prim.fromBeBytes
  rw [List.reverse_reverse, U_toLeBytes hd]

theorem swapBytes_WF {bw n : Nat} {x : List Nat} (hx : x.length = n) :
    WF (8 * bw) n (swapBytes bw x) := by
  refine ⟨by simp [swapBytes, hx], ?_⟩
  intro d hd
  unfold swapBytes at hd
  rw [List.mem_map] at hd
  obtain ⟨e, _, rfl⟩ := hd
  exact Prim.swapBytes_lt bw e

/-- `swap_bytes` is an involution -/
theorem swapBytes_swapBytes {bw n : Nat} {x : List Nat} (hx : WF (8 * bw) n x) :
    swapBytes bw (swapBytes bw x) = x := by
  unfold swapBytes
  rw [← List.map_reverse, List.reverse_reverse, List.map_map]
  conv_rhs => rw [← List.map_id x]
  apply List.map_congr_left
  intro d hd
  exact Prim.swapBytes_swapBytes (hx.2 d hd)

/-- `swap_bytes` reverses the byte order of the pattern -/
theorem bytesOf_swapBytes (bw : Nat) (x : List Nat) :
    bytesOf bw (swapBytes bw x) = (bytesOf bw x).reverse := by
  unfold bytesOf swapBytes
  rw [List.reverse_flatMap, List.flatMap_def, List.flatMap_def, List.map_map]
  congr 2
  funext d
  exact Prim.toLeBytes_swapBytes bw d
end Endian

theorem UI.toBe_def (e : Bool) (bw : Nat) (x : List Nat) :
    UI.toBe e bw x = if e then swapBytes bw x else x := rfl
theorem UI.toLe_def (e : Bool) (bw : Nat) (x : List Nat) :
    UI.toLe e bw x = if e then x else swapBytes bw x := rfl
theorem UI.fromBe_toBe {bw n : Nat} (e : Bool) {x : List Nat} (hx : WF (8 * bw) n x) :
    UI.fromBe e bw (UI.toBe e bw x) = x := by
  unfold UI.toBe UI.fromBe; cases e <;> simp [swapBytes_swapBytes hx]
theorem UI.fromLe_toLe {bw n : Nat} (e : Bool) {x : List Nat} (hx : WF (8 * bw) n x) :
    UI.fromLe e bw (UI.toLe e bw x) = x := by
  unfold UI.toLe UI.fromLe; cases e <;> simp [swapBytes_swapBytes hx]
theorem UI.toBe_WF {bw n : Nat} (e : Bool) {x : List Nat} (hx : WF (8 * bw) n x) :
    WF (8 * bw) n (UI.toBe e bw x) := by
  unfold UI.toBe UI.fromBe; cases e
  · simpa using hx
  · simpa using swapBytes_WF hx.1
theorem UI.toLe_WF {bw n : Nat} (e : Bool) {x : List Nat} (hx : WF (8 * bw) n x) :
    WF (8 * bw) n (UI.toLe e bw x) := by
  unfold UI.toLe UI.fromLe; cases e
  · simpa using swapBytes_WF hx.1
  · simpa using hx
namespace Endian
theorem leBytes_eq (k v : Nat) : leBytes k v = ofNat 8 k v := by
  induction k generalizing v with
  | zero => rfl
  | succ k ih => rw [leBytes, ofNat, ih, B8]

/-- the model's byte pattern is the `N*BYTES` little-endian bytes of the pattern value -/
theorem bytesOf_eq_leBytes {bw n : Nat} {x : List Nat} (hx : WF (8 * bw) n x) :
    bytesOf bw x = leBytes (n * bw) (U (8 * bw) x) := by
  rw [leBytes_eq, ← U_bytesOf hx]
  have hwf : WF 8 (n * bw) (bytesOf bw x) := by
    have := (Bytes_bytesOf bw x).wf
    rwa [bytesOf_length, hx.1] at this
  exact eq_ofNat hwf

theorem U_swapBytes {bw n : Nat} {x : List Nat} (hx : WF (8 * bw) n x) :
    U (8 * bw) (swapBytes bw x) = swapPattern (n * bw) (U (8 * bw) x) := by
  unfold swapPattern
  rw [beValue_eq, ← bytesOf_eq_leBytes hx, ← bytesOf_swapBytes, U_bytesOf (swapBytes_WF hx.1)]

theorem M_eq_two_H {w n : Nat} (hw : 1 ≤ w) (hn : 1 ≤ n) : M w n = 2 * H w n := by
  unfold M H
  have : 1 ≤ w * n := Nat.mul_le_mul hw hn
  obtain ⟨k, hk⟩ := Nat.exists_eq_add_of_le this
  rw [hk, Nat.add_comm, Nat.pow_succ]; simp; omega

theorem repS_iff_H {w n : Nat} (hw : 1 ≤ w) (hn : 1 ≤ n) (z : Int) :
    repS (M w n) z ↔ (-(H w n : Int) ≤ z ∧ z < H w n) := by
  unfold repS; rw [M_eq_two_H hw hn]; push_cast; omega

/-- a long two's-complement byte string fits `K` bytes iff the excess is pure sign padding -/
theorem twos_fits_iff {K : Nat} (hK : 1 ≤ K) {bs : List Nat} (hb : Bytes bs) (hL : K ≤ bs.length) :
    repS (M 8 K) (S 8 bs) ↔
      bs.drop K = List.replicate (bs.length - K) (if S 8 (bs.take K) < 0 then 255 else 0) := by
  have hD : ∀ d ∈ bs, d < B 8 := by rw [B8]; exact hb
  have hX := WF_take hD hL
  constructor
  · intro hrep
    obtain ⟨h1, h2⟩ := S_truncate (w := 8) (by decide) hK hD hL hrep
    rw [signBits_decide, B8] at h2
    rw [h1]
    conv_lhs => rw [h2]
    rw [List.drop_append_of_le_length (by simp [hL])]
    simp
  · intro h
    have hext := S_sign_extend (w := 8) (by decide) hK hX (bs.length - K)
    rw [B8, ← h, List.take_append_drop] at hext
    rw [hext]; exact S_repS (by decide) hK hX

/-- an over-long unsigned byte string fits iff the excess bytes are zero -/
theorem le_fits_iff {K : Nat} {bs : List Nat} (hb : Bytes bs) (hL : K ≤ bs.length) :
    U 8 bs < M 8 K ↔ ∀ b ∈ bs.drop K, b = 0 := by
  have hD : ∀ d ∈ bs, d < B 8 := by rw [B8]; exact hb
  rw [← U_eq_zero_iff 8, U_split 8 K bs hL]
  have h1 := U_lt (WF_take hD hL)
  have hM := M_pos 8 K
  generalize U 8 (bs.drop K) = r
  generalize U 8 (bs.take K) = t at *
  generalize M 8 K = m at *
  constructor
  · intro h
    by_contra hr
    have : m * 1 ≤ m * r := Nat.mul_le_mul_left _ (by omega)
    omega
  · intro h; subst h; simpa using h1
end Endian
end Bnum
