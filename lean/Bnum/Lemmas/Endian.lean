/-
  Bnum.Lemmas.Endian — lemmas about Model/Endian.lean (C15).
-/
import Bnum.Lemmas.Basic
import Bnum.Model.Endian
import Bnum.Spec.Endian
set_option autoImplicit false
namespace Bnum
namespace Endian
open List

theorem idx_eq {a : List Nat} {i : Nat} (h : i < a.length) : idx a i = .ok a[i] := by
  simp [idx, h]
theorem setIdx_eq {a : List Nat} {i : Nat} (v : Nat) (h : i < a.length) :
    setIdx a i v = .ok (a.set i v) := by simp [setIdx, h]
theorem usub_eq {a b : Nat} (h : b ≤ a) : usub a b = .ok (a - b) := by simp [usub, h]

theorem take_set_succ {db : List Nat} {p v : Nat} (h : p < db.length) :
    (db.set p v).take (p + 1) = db.take p ++ [v] := by
  rw [List.take_succ_eq_append_getElem (by simpa using h)]
  simp [List.take_set_of_le]
theorem drop_set_succ {db : List Nat} {p v k : Nat} :
    (db.set p v).drop (p + 1 + k) = db.drop (p + 1 + k) := by
  rw [List.drop_set_of_lt (by omega)]

/-- generic copy loop: `k` iterations, iteration `t` stores `src[q+t]` at `dst[p+t]` -/
theorem forLoop_copy (body : Nat → List Nat → Outcome (List Nat)) (src : List Nat) (L : Nat) :
    ∀ (k lo p q : Nat) (db : List Nat),
      (∀ t (db' : List Nat) (h : q + t < src.length), t < k → db'.length = L →
          body (lo + t) db' = .ok (db'.set (p + t) src[q + t])) →
      db.length = L → p + k ≤ L → q + k ≤ src.length →
      forLoop body k lo db = .ok (db.take p ++ (src.drop q).take k ++ db.drop (p + k)) := by
  intro k
  induction k with
  | zero => intro lo p q db _ _ _ _; simp [forLoop]
  | succ k ih =>
    intro lo p q db hb hL hp hq
    have h0 := hb 0 db (by omega) (by omega) hL
    simp only [Nat.add_zero] at h0
    rw [forLoop, h0]
    simp only
    rw [ih (lo + 1) (p + 1) (q + 1) (db.set p src[q]) (by
        intro t db' h ht hl
        have := hb (t + 1) db' (by omega) (by omega) hl
        simpa [Nat.add_assoc, Nat.add_comm 1 t] using this) (by simpa using hL) (by omega) (by omega)]
    congr 1
    have hpl : p < db.length := by omega
    rw [take_set_succ hpl, drop_set_succ, show p + (k + 1) = p + 1 + k by omega]
    have : (src.drop q).take (k + 1) = src[q] :: (src.drop (q + 1)).take k := by
      rw [List.drop_eq_getElem_cons (show q < src.length by omega), List.take_succ_cons]
    rw [this]; simp
theorem byteShift_pow (sh : Nat) : byteShift (2 ^ sh) = sh := by
  unfold byteShift; exact Nat.log2_two_pow
theorem shl_byteShift {bw sh : Nat} (hbw : bw = 2 ^ sh) (i : Nat) : i <<< byteShift bw = i * bw := by
  subst hbw; rw [byteShift_pow, Nat.shiftLeft_eq]
theorem shr_byteShift {bw sh : Nat} (hbw : bw = 2 ^ sh) (i : Nat) : i >>> byteShift bw = i / bw := by
  subst hbw; rw [byteShift_pow, Nat.shiftRight_eq_div_pow]
theorem and_bw {bw sh : Nat} (hbw : bw = 2 ^ sh) (i : Nat) : i &&& (bw - 1) = i % bw := by
  subst hbw; exact Nat.and_two_pow_sub_one_eq_mod _ _

theorem leDigit_eq {bw sh : Nat} (hbw : bw = 2 ^ sh) (slice : List Nat) (i : Nat)
    (h : (i + 1) * bw ≤ slice.length) :
    leDigit bw slice i = .ok (Prim.fromLeBytes ((slice.drop (i * bw)).take bw)) := by
  unfold leDigit
  simp only [shl_byteShift hbw]
  have hk : i * bw + bw - i * bw = bw := by omega
  have hle : i * bw + bw ≤ slice.length := by rw [Nat.add_mul] at h; omega
  rw [hk, forLoop_copy _ slice bw bw (i * bw) 0 (i * bw) _ _ (by simp) (by omega) hle]
  · simp
  · intro t db' h1 ht hl
    rw [usub_eq (by omega), idx_eq h1]
    simp only
    rw [setIdx_eq _ (by omega)]
    simp

theorem beDigit_eq {bw sh : Nat} (hbw : bw = 2 ^ sh) (slice : List Nat) (i : Nat)
    (h : (i + 1) * bw ≤ slice.length) :
    beDigit bw slice slice.length i
      = .ok (Prim.fromBeBytes ((slice.drop (slice.length - bw - i * bw)).take bw)) := by
  unfold beDigit
  rw [Nat.add_mul] at h
  simp only [shl_byteShift hbw]
  rw [usub_eq (by omega)]
  simp only
  have hk : slice.length - (slice.length - bw) = bw := by omega
  rw [hk, forLoop_copy _ slice bw bw (slice.length - bw) 0 (slice.length - bw - i * bw) _ _
    (by simp) (by omega) (by omega)]
  · simp
  · intro t db' h1 ht hl
    rw [usub_eq (by omega), usub_eq (by omega)]
    simp only
    have e : slice.length - bw + t - i * bw = slice.length - bw - i * bw + t := by omega
    rw [idx_eq (by omega)]
    simp only
    rw [setIdx_eq _ (by omega)]
    simp [e]

theorem beLastDigit_eq (bw : Nat) (slice : List Nat) (rem pad : Nat)
    (h1 : rem ≤ bw) (h2 : rem ≤ slice.length) :
    beLastDigit bw slice rem pad
      = .ok (Prim.fromBeBytes (List.replicate (bw - rem) pad ++ slice.take rem)) := by
  unfold beLastDigit
  rw [forLoop_copy _ slice bw rem 0 (bw - rem) 0 _ _ (by simp) (by omega) (by omega)]
  · simp [show bw - rem + rem = bw by omega, List.take_replicate]
  · intro t db' h1 ht hl
    rw [usub_eq (by omega)]
    simp only [Nat.zero_add] at h1 ⊢
    rw [idx_eq h1]
    simp only
    rw [setIdx_eq _ (by omega)]

theorem leLastDigit_eq {bw sh : Nat} (hbw : bw = 2 ^ sh) (slice : List Nat) (exact pad : Nat)
    (h1 : exact * bw ≤ slice.length) (h2 : slice.length - exact * bw ≤ bw) :
    leLastDigit bw slice exact pad
      = .ok (Prim.fromLeBytes (slice.drop (exact * bw)
              ++ List.replicate (bw - (slice.length - exact * bw)) pad)) := by
  unfold leLastDigit
  simp only [shl_byteShift hbw]
  rw [forLoop_copy _ slice bw (slice.length - exact * bw) 0 0 (exact * bw) _ _ (by simp) (by omega)
    (by omega)]
  · rw [List.take_of_length_le (l := drop (exact * bw) slice) (by simp)]; simp [List.drop_replicate]
  · intro t db' h1 ht hl
    simp only [Nat.zero_add]
    rw [show t + exact * bw = exact * bw + t by omega, idx_eq h1]
    simp only
    rw [setIdx_eq _ (by omega)]
end Endian
end Bnum
