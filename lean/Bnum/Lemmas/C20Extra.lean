/-
  Bnum.Lemmas.C20Extra — additional lemmas for property C20:
  Part A: a `BYTES`-byte word is determined by its value (injectivity of the little-endian reading),
          the full range maps every word to itself;
  Part B: END-TO-END preimage counts: the number of one-word streams on which a sampler returns a
          given value, for the samplers themselves (not only for their closed-form predicate),
          full range included;
  Part C: one stored sampler drawn from several times (`Model/C20Extra.lean`): digit level refines
          value level, value level = Spec, every draw lies in the range.
-/
import Bnum.Lemmas.Random
import Bnum.Lemmas.RandomD
import Bnum.Model.C20Extra
import Bnum.Spec.C20Extra
namespace Bnum.Rand

/-! ## Part A -/

/-- exactly one `v < N` equals a given `x < N` -/
theorem countBelow_eq_one {x N : Nat} (hx : x < N) : countBelow (fun v => decide (v = x)) N = 1 := by
  rw [countBelow_congr (q := fun v => decide (x ≤ v ∧ v < x + 1))
    (fun v _ => by congr 1; apply propext; omega), countBelow_interval]
  omega

theorem countBelow_zero {p : Nat → Bool} {N : Nat} (h : ∀ v < N, p v = false) : countBelow p N = 0 := by
  induction N with
  | zero => rfl
  | succ N ih => rw [countBelow, ih (fun v hv => h v (by omega)), h N (by omega)]; rfl

/-- the little-endian reading is injective on byte strings of one length -/
theorem leValue_inj : ∀ {a b : List Nat}, a.length = b.length → StreamOK a → StreamOK b →
    leValue a = leValue b → a = b
  | [], [], _, _, _, _ => rfl
  | [], _ :: _, hl, _, _, _ => by simp at hl
  | _ :: _, [], hl, _, _, _ => by simp at hl
  | x :: xs, y :: ys, hl, ha, hb, h => by
    simp only [leValue] at h
    have hx : x < 256 := ha x (by simp)
    have hy : y < 256 := hb y (by simp)
    have h1 : x = y := by omega
    have h2 : leValue xs = leValue ys := by omega
    have := leValue_inj (a := xs) (b := ys) (by simpa using hl)
      (fun b hb' => ha b (by simp [hb'])) (fun b hb' => hb b (by simp [hb'])) h2
    rw [h1, this]

/-- two streams on which `rng.gen()` returns the same value start with the same `BYTES` bytes -/
theorem genVal_word_unique {k n : Nat} {s s' r r' : Stream} {v : Nat}
    (hs : StreamOK s) (hs' : StreamOK s')
    (h : genVal (8 * k) n s = some (v, r)) (h' : genVal (8 * k) n s' = some (v, r')) :
    s.take (n * k) = s'.take (n * k) := by
  obtain ⟨_, hl⟩ := genVal_rest h
  obtain ⟨_, hl'⟩ := genVal_rest h'
  rw [genVal_eq hl] at h
  rw [genVal_eq hl'] at h'
  simp only [Option.some.injEq, Prod.mk.injEq] at h h'
  apply leValue_inj _ (hs.take _) (hs'.take _) (by rw [h.1, h'.1])
  rw [List.length_take, List.length_take, Nat.min_eq_left hl, Nat.min_eq_left hl']

theorem rejectLoop_nil {k n low range zone fuel : Nat} (hnk : 1 ≤ n * k) :
    rejectLoop (8 * k) n low range zone fuel [] = none := by
  cases fuel with
  | zero => rfl
  | succ f => rw [rejectLoop_succ, genVal_none (by rw [List.length_nil]; omega)]

/-- the sampler's closed form on the one-word stream of `v` -/
theorem closed_form_word {k n low range zone v : Nat} (hnk : 1 ≤ n * k) (hv : v < M (8 * k) n) :
    (if range = 0 then genVal (8 * k) n (ofNat 8 (n * k) v)
     else rejectLoop (8 * k) n low range zone ((ofNat 8 (n * k) v).length + 1) (ofNat 8 (n * k) v)) =
    if range = 0 then some (v, [])
    else if (v * range) % M (8 * k) n ≤ zone
      then some (wrappingAdd (M (8 * k) n) low ((v * range) / M (8 * k) n), []) else none := by
  by_cases h0 : range = 0
  · rw [if_pos h0, if_pos h0, genVal_surjective k n v hv]
  · rw [if_neg h0, if_neg h0]
    have hl : (ofNat 8 (n * k) v).length = n * k := ofNat_length _ _ _
    have hv' : v < 256 ^ (n * k) := by
      rw [M_eq_pow, B_eq_256, ← Nat.pow_mul, Nat.mul_comm k n] at hv; exact hv
    have := rejectLoop_word (low := low) (range := range) (zone := zone) (fuel := n * k) (t := []) hl
    rw [List.append_nil, leValue_ofNat, Nat.mod_eq_of_lt hv', rejectLoop_nil hnk] at this
    rw [hl, this]

/-! ## Part B -/

/-- does the outcome return the pattern `x`? -/
def hits (o : Outcome Draw) (x : Nat) : Bool :=
  match o with
  | .ok (some (y, _)) => decide (y = x)
  | _ => false

/-- number of RNG words `v < 2^BITS` for which the sampler `f`, run on the one-word stream of `v`
    (its `BYTES` little-endian bytes), returns `x` — i.e. accepts `v` and maps it to `x` -/
def wordCount (f : Stream → Outcome Draw) (k n x : Nat) : Nat :=
  ((List.range (M (8 * k) n)).filter (fun v => hits (f (ofNat 8 (n * k) v)) x)).length

/-- a sampler whose closed form is "full range ⇒ the word itself, else the rejection loop with
    `zone`": every `x ∈ [low, high]` is returned for exactly `1` (full range) resp.
    `(zone+1)/range` words -/
theorem wordCount_closed {f : Stream → Outcome Draw} {signed : Bool} {k n low high zone x : Nat}
    (hk : 1 ≤ k) (hn : 1 ≤ n) (hl : low < M (8 * k) n) (hh : high < M (8 * k) n)
    (hle : val signed (M (8 * k) n) low ≤ val signed (M (8 * k) n) high)
    (hx : x < M (8 * k) n) (hin : InRange signed (M (8 * k) n) low high x)
    (hz : rangeOf (M (8 * k) n) low high ≠ 0 →
      zone < M (8 * k) n ∧ rangeOf (M (8 * k) n) low high ∣ zone + 1)
    (hf : ∀ s, f s = .ok (if rangeOf (M (8 * k) n) low high = 0 then genVal (8 * k) n s
      else rejectLoop (8 * k) n low (rangeOf (M (8 * k) n) low high) zone (s.length + 1) s)) :
    wordCount f k n x =
      if rangeOf (M (8 * k) n) low high = 0 then 1 else (zone + 1) / rangeOf (M (8 * k) n) low high := by
  have hnk : 1 ≤ n * k := Nat.mul_le_mul hn hk
  have hW : 1 ≤ 8 * k * n := by have := Nat.mul_le_mul (Nat.mul_le_mul_left 8 hk) hn; omega
  unfold wordCount
  rw [← countBelow_eq_filter]
  by_cases h0 : rangeOf (M (8 * k) n) low high = 0
  · rw [if_pos h0, ← countBelow_eq_one hx]
    apply countBelow_congr
    intro v hv
    rw [hf, closed_form_word hnk hv, if_pos h0]; rfl
  · rw [if_neg h0]
    obtain ⟨hz1, hz2⟩ := hz h0
    rw [← preimage_count (M_even' hW) (M_ge_two hW) hl hh hle h0 hz1 hz2 hx hin]
    apply countBelow_congr
    intro v hv
    rw [hf, closed_form_word hnk hv, if_neg h0]
    by_cases hacc : (v * rangeOf (M (8 * k) n) low high) % M (8 * k) n ≤ zone
    · rw [if_pos hacc]; simp [hits, hacc]
    · rw [if_neg hacc]; simp [hits, hacc]

theorem wordCount_congr {f g : Stream → Outcome Draw} {k n x : Nat}
    (h : ∀ s, StreamOK s → f s = g s) : wordCount f k n x = wordCount g k n x := by
  unfold wordCount
  rw [← countBelow_eq_filter, ← countBelow_eq_filter]
  exact countBelow_congr (fun v _ => by rw [h _ (ofNat_ok _ _)])

/-- a value outside `[low, high]` is returned for no word at all -/
theorem wordCount_outside {f : Stream → Outcome Draw} {signed : Bool} {k n low high x : Nat}
    (hin : ¬ InRange signed (M (8 * k) n) low high x)
    (hf : ∀ s y rest, StreamOK s → f s = .ok (some (y, rest)) → InRange signed (M (8 * k) n) low high y) :
    wordCount f k n x = 0 := by
  unfold wordCount
  rw [← countBelow_eq_filter]
  apply countBelow_zero
  intro v _
  cases hfv : f (ofNat 8 (n * k) v) with
  | panic => rfl
  | ok d =>
    cases d with
    | none => rfl
    | some p =>
      obtain ⟨y, rest⟩ := p
      have := hf _ y rest (ofNat_ok _ _) hfv
      simp only [hits, decide_eq_false_iff_not]
      intro e; subst e; exact hin this

/-! ## Part C — one stored sampler, several draws -/

/-- a successful `sample` returns a suffix of the stream -/
theorem sample_rest {dbg : Bool} {k n : Nat} {u : UniformInt} {s rest : Stream} {x : Nat}
    (hok : StreamOK s) (h : sample dbg (8 * k) n u s = .ok (some (x, rest))) :
    ∃ j, j ≤ s.length ∧ rest = s.drop j := by
  unfold sample at h
  by_cases h0 : u.range = 0
  · simp only [h0, ne_eq, not_true_eq_false, if_false] at h
    obtain ⟨a, b⟩ := genVal_rest (Outcome.ok.inj h)
    exact ⟨_, b, a⟩
  · simp only [ne_eq, h0, not_false_eq_true, if_true] at h
    cases hs : opSub false dbg (M (8 * k) n) (M (8 * k) n - 1) u.z with
    | panic => rw [hs] at h; cases h
    | ok zone =>
      rw [hs, Outcome.bind_ok] at h
      obtain ⟨_, j, _, _, _, _, e, f, _⟩ := rejectLoop_some hok (Outcome.ok.inj h)
      exact ⟨_, e, f⟩

/-- the Spec's view of several draws: (values, bytes consumed) -/
def drawsView (signed : Bool) (m : Nat) (s : Stream) (d : Draws) : Option (List Int × Nat) :=
  d.map (fun p => (p.1.map (val signed m), s.length - p.2.length))

/-- `k` draws from the sampler that `new_inclusive` builds = the Spec's law applied `k` times -/
theorem sampleMany_eq_spec {signed dbg : Bool} {k n low high : Nat}
    (hW : 1 ≤ 8 * k * n) (hl : low < M (8 * k) n) (hh : high < M (8 * k) n)
    (hle : val signed (M (8 * k) n) low ≤ val signed (M (8 * k) n) high) :
    ∀ (cnt : Nat) (s : Stream), StreamOK s →
    ∃ d, sampleMany dbg (8 * k) n
        { low := low, range := rangeOf (M (8 * k) n) low high,
          z := if rangeOf (M (8 * k) n) low high ≠ 0
               then M (8 * k) n % rangeOf (M (8 * k) n) low high else 0 } cnt s = .ok d ∧
      drawsView signed (M (8 * k) n) s d =
        Spec.Random.sampleManyInclusive signed (M (8 * k) n) (n * k)
          (Spec.Random.zoneExact (M (8 * k) n))
          (val signed (M (8 * k) n) low) (val signed (M (8 * k) n) high) cnt s
  | 0, s, _ => ⟨_, rfl, by simp [drawsView, Spec.Random.sampleManyInclusive]⟩
  | cnt + 1, s, hok => by
    have hr := rangeOf_lt (low := low) (high := high) (M_pos (8 * k) n)
    have hsp := draw_eq_spec (signed := signed) (zone := zoneExact (M (8 * k) n) (rangeOf (M (8 * k) n) low high))
      (zone' := Spec.Random.zoneExact (M (8 * k) n)) hW hok hl hh hle (fun _ => spec_zoneExact _ _)
    have hse := sample_eq (dbg := dbg) (low := low) (s := s) hW hr
    rw [sampleMany, hse, Outcome.bind_ok, Spec.Random.sampleManyInclusive, ← hsp]
    generalize hd : (if rangeOf (M (8 * k) n) low high = 0 then genVal (8 * k) n s
      else rejectLoop (8 * k) n low (rangeOf (M (8 * k) n) low high)
        (zoneExact (M (8 * k) n) (rangeOf (M (8 * k) n) low high)) (s.length + 1) s) = d
    cases d with
    | none => exact ⟨_, rfl, rfl⟩
    | some p =>
      obtain ⟨x, rest⟩ := p
      obtain ⟨j, hj, hrest⟩ := sample_rest hok (hse.trans (by rw [hd]))
      obtain ⟨d', e', hs'⟩ := sampleMany_eq_spec (dbg := dbg) hW hl hh hle cnt rest (hrest ▸ hok.drop j)
      have hc : s.length - rest.length = j := by rw [hrest, List.length_drop]; omega
      simp only [drawView, Option.map_some, hc, ← hrest]
      rw [e', Outcome.bind_ok, ← hs']
      cases d' with
      | none => exact ⟨_, rfl, rfl⟩
      | some q =>
        refine ⟨_, rfl, ?_⟩
        have hq : q.2.length ≤ rest.length := by
          -- the remaining stream only shrinks
          have : ∀ (c : Nat) (t : Stream) (q : List Nat × Stream), StreamOK t →
              sampleMany dbg (8 * k) n
                { low := low, range := rangeOf (M (8 * k) n) low high,
                  z := if rangeOf (M (8 * k) n) low high ≠ 0
                       then M (8 * k) n % rangeOf (M (8 * k) n) low high else 0 } c t = .ok (some q) →
              q.2.length ≤ t.length := by
            intro c
            induction c with
            | zero => intro t q _ h; simp only [sampleMany, Outcome.ok.injEq, Option.some.injEq] at h; rw [← h]
            | succ c ih =>
              intro t q ht h
              rw [sampleMany] at h
              cases h1 : sample dbg (8 * k) n
                { low := low, range := rangeOf (M (8 * k) n) low high,
                  z := if rangeOf (M (8 * k) n) low high ≠ 0
                       then M (8 * k) n % rangeOf (M (8 * k) n) low high else 0 } t with
              | panic => rw [h1] at h; cases h
              | ok d1 =>
                rw [h1, Outcome.bind_ok] at h
                cases d1 with
                | none => cases h
                | some p1 =>
                  obtain ⟨x1, r1⟩ := p1
                  obtain ⟨j1, hj1, hr1⟩ := sample_rest ht h1
                  simp only at h
                  cases h2 : sampleMany dbg (8 * k) n
                    { low := low, range := rangeOf (M (8 * k) n) low high,
                      z := if rangeOf (M (8 * k) n) low high ≠ 0
                           then M (8 * k) n % rangeOf (M (8 * k) n) low high else 0 } c r1 with
                  | panic => rw [h2] at h; cases h
                  | ok d2 =>
                    rw [h2, Outcome.bind_ok] at h
                    cases d2 with
                    | none => cases h
                    | some q2 =>
                      simp only [Outcome.ok.injEq, Option.some.injEq] at h
                      have := ih r1 q2 (hr1 ▸ ht.drop j1) h2
                      rw [← h]
                      have hl1 : r1.length ≤ t.length := by rw [hr1, List.length_drop]; omega
                      simp only; omega
          exact this cnt rest q (hrest ▸ hok.drop j) e'
        have hrl : rest.length = s.length - j := by rw [hrest, List.length_drop]
        simp only [drawsView, Option.map_some, List.map_cons]
        congr 2
        omega

/-- the sampler `new_inclusive` builds for a non-empty range -/
def closedSampler (m low high : Nat) : UniformInt :=
  { low := low, range := rangeOf m low high,
    z := if rangeOf m low high ≠ 0 then m % rangeOf m low high else 0 }

/-- every one of the `cnt` draws lies in `[low, high]` -/
theorem sampleMany_in_range {signed dbg : Bool} {k n low high : Nat}
    (hW : 1 ≤ 8 * k * n) (hl : low < M (8 * k) n) (hh : high < M (8 * k) n)
    (hle : le signed (M (8 * k) n) low high = true) :
    ∀ (cnt : Nat) (s : Stream) (xs : List Nat) (rest : Stream), StreamOK s →
      sampleMany dbg (8 * k) n (closedSampler (M (8 * k) n) low high) cnt s = .ok (some (xs, rest)) →
      xs.length = cnt ∧ ∀ x ∈ xs, x < M (8 * k) n ∧ InRange signed (M (8 * k) n) low high x
  | 0, s, xs, rest, _, h => by
    simp only [sampleMany, Outcome.ok.injEq, Option.some.injEq, Prod.mk.injEq] at h
    rw [← h.1]; exact ⟨rfl, fun x hx => by cases hx⟩
  | cnt + 1, s, xs, rest, hok, h => by
    have hr := rangeOf_lt (low := low) (high := high) (M_pos (8 * k) n)
    have hse := sample_eq (dbg := dbg) (low := low) (s := s) hW hr
    rw [sampleMany, closedSampler, hse, Outcome.bind_ok] at h
    generalize hd : (if rangeOf (M (8 * k) n) low high = 0 then genVal (8 * k) n s
      else rejectLoop (8 * k) n low (rangeOf (M (8 * k) n) low high)
        (zoneExact (M (8 * k) n) (rangeOf (M (8 * k) n) low high)) (s.length + 1) s) = d at h
    cases d with
    | none => cases h
    | some p =>
      obtain ⟨x, r1⟩ := p
      obtain ⟨j, _, hr1⟩ := sample_rest hok (hse.trans (by rw [hd]))
      have hx := draw_in_range hW hok hl hh hle hd
      simp only at h
      cases h2 : sampleMany dbg (8 * k) n (closedSampler (M (8 * k) n) low high) cnt r1 with
      | panic => rw [closedSampler] at h2; rw [h2] at h; cases h
      | ok d2 =>
        have h2' := h2
        rw [closedSampler] at h2'
        rw [h2', Outcome.bind_ok] at h
        cases d2 with
        | none => cases h
        | some q =>
          obtain ⟨ys, r2⟩ := q
          simp only [Outcome.ok.injEq, Option.some.injEq, Prod.mk.injEq] at h
          obtain ⟨a, b⟩ := sampleMany_in_range hW hl hh hle cnt r1 ys r2 (hr1 ▸ hok.drop j) h2
          rw [← h.1]
          refine ⟨by simp [a], fun y hy => ?_⟩
          rcases List.mem_cons.mp hy with rfl | hy
          · exact hx
          · exact b y hy

/-- `Uniform::new_inclusive(low, high)` + `cnt` draws: never panics on a non-empty range, equals
    the Spec's law applied `cnt` times, every draw in `[low, high]` -/
theorem uniformMany_inclusive_eq {signed dbg : Bool} {k n low high cnt : Nat} {s : Stream}
    (hW : 1 ≤ 8 * k * n) (hle : le signed (M (8 * k) n) low high = true) :
    uniformMany signed dbg true (8 * k) n low high cnt s =
      sampleMany dbg (8 * k) n (closedSampler (M (8 * k) n) low high) cnt s := by
  rw [uniformMany, if_pos rfl, newInclusive_eq hW hle, Outcome.bind_ok]; rfl

/-- `Uniform::new(low, high)` + `cnt` draws = the same with `new_inclusive(low, high - 1)` -/
theorem uniformMany_exclusive_eq {signed dbg : Bool} {k n low high cnt : Nat} {s : Stream}
    (hW : 2 ≤ 8 * k * n) (hl : low < M (8 * k) n) (hh : high < M (8 * k) n)
    (hlt : lt signed (M (8 * k) n) low high = true) :
    uniformMany signed dbg false (8 * k) n low high cnt s =
      uniformMany signed dbg true (8 * k) n low (wrappingSub (M (8 * k) n) high 1) cnt s := by
  rw [uniformMany, uniformMany, if_neg (by simp), if_pos rfl, new_eq hW hl hh hlt]

theorem uniformMany_panic {signed dbg incl : Bool} {w n low high cnt : Nat} {s : Stream}
    (h : (if incl then le signed (M w n) low high else lt signed (M w n) low high) = false) :
    uniformMany signed dbg incl w n low high cnt s = .panic := by
  cases incl
  · simp only [Bool.false_eq_true, if_false] at h
    rw [uniformMany, if_neg (by simp), new_panic h]; rfl
  · simp only [if_true] at h
    rw [uniformMany, if_pos rfl, newInclusive_panic h]; rfl

end Bnum.Rand

namespace Bnum.RandD
open Rand (Stream StreamOK)

/-- refinement of several draws -/
def RefDs (w n : Nat) : Draws → Rand.Draws → Prop
  | none, none => True
  | some p, some q => (∀ x ∈ p.1, WF w n x) ∧ p.1.map (U w) = q.1 ∧ p.2 = q.2
  | _, _ => False

def RefOs (w n : Nat) : Outcome Draws → Outcome Rand.Draws → Prop
  | .ok d, .ok v => RefDs w n d v
  | .panic, .panic => True
  | _, _ => False

theorem sampleMany_ref {signed dbg : Bool} {k n : Nat} {u : UniformInt} {v : Rand.UniformInt}
    (hn : 1 ≤ n) (huv : RefU (8 * k) n u v) :
    ∀ (cnt : Nat) (s : Stream), StreamOK s →
    RefOs (8 * k) n (sampleMany signed dbg (8 * k) n u cnt s) (Rand.sampleMany dbg (8 * k) n v cnt s)
  | 0, s, _ => (show RefDs (8 * k) n (some ([], s)) (some ([], s)) from
      ⟨fun x hx => (by cases hx), rfl, rfl⟩)
  | cnt + 1, s, hok => by
    rw [sampleMany, Rand.sampleMany]
    have h := sample_ref (signed := signed) (dbg := dbg) hn hok huv
    match hA : sample signed dbg (8 * k) n u s, hB : Rand.sample dbg (8 * k) n v s, h with
    | .panic, .panic, _ => exact (show True from trivial)
    | .ok none, .ok none, _ => exact (show True from trivial)
    | .ok (some (x, r)), .ok (some (y, r')), ⟨h1, h2, h3⟩ =>
      simp only at h1 h2 h3
      subst h3
      obtain ⟨j, _, hr⟩ := Rand.sample_rest hok hB
      have ih := sampleMany_ref (signed := signed) (dbg := dbg) hn huv cnt r (hr ▸ hok.drop j)
      simp only [Rand.Outcome.bind_ok]
      match hC : sampleMany signed dbg (8 * k) n u cnt r, hD : Rand.sampleMany dbg (8 * k) n v cnt r, ih with
      | .panic, .panic, _ => exact (show True from trivial)
      | .ok none, .ok none, _ => exact (show True from trivial)
      | .ok (some (xs, t)), .ok (some (ys, t')), ⟨g1, g2, g3⟩ =>
        simp only at g1 g2 g3
        refine (show RefDs (8 * k) n (some (x :: xs, t)) (some (y :: ys, t')) from ⟨?_, ?_, g3⟩)
        · intro z hz
          rcases List.mem_cons.mp hz with rfl | hz
          · exact h1
          · exact g1 z hz
        · simp only [List.map_cons, h2, g2]

theorem uniformMany_ref {signed dbg incl : Bool} {k n cnt : Nat} {low high : List Nat} {s : Stream}
    (hk : 1 ≤ k) (hn : 1 ≤ n) (hok : StreamOK s) (hl : WF (8 * k) n low) (hh : WF (8 * k) n high) :
    RefOs (8 * k) n (uniformMany signed dbg incl (8 * k) n low high cnt s)
      (Rand.uniformMany signed dbg incl (8 * k) n (U (8 * k) low) (U (8 * k) high) cnt s) := by
  unfold uniformMany Rand.uniformMany
  have h : RefOU (8 * k) n
      (if incl then newInclusive signed dbg (8 * k) n low high else new signed dbg (8 * k) n low high)
      (if incl then Rand.newInclusive signed dbg (8 * k) n (U (8 * k) low) (U (8 * k) high)
       else Rand.new signed dbg (8 * k) n (U (8 * k) low) (U (8 * k) high)) := by
    cases incl
    · exact new_ref (by omega) hn hl hh
    · exact newInclusive_ref (by omega) hn hl hh
  match hA : (if incl then newInclusive signed dbg (8 * k) n low high else new signed dbg (8 * k) n low high),
    hB : (if incl then Rand.newInclusive signed dbg (8 * k) n (U (8 * k) low) (U (8 * k) high)
       else Rand.new signed dbg (8 * k) n (U (8 * k) low) (U (8 * k) high)), h with
  | .panic, .panic, _ => exact (show True from trivial)
  | .ok u, .ok v, huv => exact sampleMany_ref hn huv cnt s hok

/-- spelled out: values of the returned digit lists = the value-level result; all well-formed -/
def viewDs (w : Nat) (o : Outcome Draws) : Outcome Rand.Draws :=
  o.map (Option.map (fun p => (p.1.map (U w), p.2)))

theorem RefOs.view {w n : Nat} {o : Outcome Draws} {v : Outcome Rand.Draws} (h : RefOs w n o v) :
    viewDs w o = v ∧ ∀ xs rest, o = .ok (some (xs, rest)) → ∀ x ∈ xs, WF w n x := by
  match o, v, h with
  | .ok none, .ok none, _ => exact ⟨rfl, fun _ _ h => by cases h⟩
  | .ok (some p), .ok (some q), ⟨h1, h2, h3⟩ =>
    refine ⟨?_, fun xs rest h => ?_⟩
    · simp only [viewDs, Outcome.map, Option.map_some, h2, h3]
    · cases h; exact h1
  | .panic, .panic, _ => exact ⟨rfl, fun _ _ h => by cases h⟩

end Bnum.RandD
