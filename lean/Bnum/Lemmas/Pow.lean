/-
  Bnum.Lemmas.Pow — C08: powers and integer logarithms.

  Unsigned pow.  Loop invariant of the square-and-multiply loop on EXACT naturals `X`, `Y`
  (`Pow.Inv`): `U x = X mod M`, `U y = Y mod M`, `Y * X ^ pow = A` (`A = a ^ e`), `1 ≤ pow`,
  `1 ≤ Y ∨ X = 0`, and for the sticky flag: `ov → M ≤ A`, `¬ov → X < M ∧ Y < M` (so while no
  overflow has been seen the registers hold the exact values).  Every intermediate product
  (`Y * X`, `X * X`) is `≤ Y * X ^ pow = A`, hence an intermediate overflow implies `M ≤ A`.
  The three separately written loops are related by `Pow.loopW_eq` / `Pow.loopC_eq`.
-/
import Bnum.Model.Pow
import Bnum.Spec.Pow
import Bnum.Lemmas.Mul
import Bnum.Lemmas.Div
import Bnum.Lemmas.Bits
import Mathlib.Data.Nat.Log

namespace Bnum

/-! ## A. unsigned `pow` -/

namespace Pow

theorem omul {w n : Nat} {a b : List Nat} (ha : WF w n a) (hb : WF w n b) :
    WF w n (UI.overflowingMul w a b).1 ∧
    U w (UI.overflowingMul w a b).1 = (U w a * U w b) % M w n ∧
    ((UI.overflowingMul w a b).2 = true ↔ M w n ≤ U w a * U w b) := by
  obtain ⟨h1, h2, h3⟩ := UI.u_longMul_spec ha hb
  exact ⟨h3, h1, h2⟩

theorem omul_comm {w n : Nat} {a b : List Nat} (ha : WF w n a) (hb : WF w n b) :
    UI.overflowingMul w a b = UI.overflowingMul w b a := by
  obtain ⟨h1, h2, h3⟩ := omul ha hb
  obtain ⟨g1, g2, g3⟩ := omul hb ha
  apply Prod.ext
  · exact U_injective h1 g1 (by rw [h2, g2, Nat.mul_comm])
  · rw [Bool.eq_iff_iff, h3, g3, Nat.mul_comm]

theorem and_one_beq (p : Nat) : (p &&& 1 == 1) = decide (p % 2 = 1) := by
  rw [Nat.and_one_is_mod]; rfl

theorem shr_one (p : Nat) : p >>> 1 = p / 2 := by
  rw [Nat.shiftRight_eq_div_pow]

/-- the loop invariant (see the header) -/
def Inv (w n A : Nat) (x y : List Nat) (ov : Bool) (pow : Nat) : Prop :=
  WF w n x ∧ WF w n y ∧ 1 ≤ pow ∧ ∃ X Y : Nat, U w x = X % M w n ∧ U w y = Y % M w n ∧
    Y * X ^ pow = A ∧ (1 ≤ Y ∨ X = 0) ∧ (ov = true → M w n ≤ A) ∧
    (ov = false → X < M w n ∧ Y < M w n)

theorem sq_le_of {X Y p : Nat} (hp : 2 ≤ p) (hY : 1 ≤ Y ∨ X = 0) : X * X ≤ Y * X ^ p := by
  rcases hY with hY | rfl
  · rcases Nat.eq_zero_or_pos X with rfl | hX
    · simp
    · calc X * X = 1 * X ^ 2 := by ring
        _ ≤ Y * X ^ p := Nat.mul_le_mul hY (Nat.pow_le_pow_right hX hp)
  · simp

theorem mul_le_of {X Y p : Nat} (hp : 1 ≤ p) : Y * X ≤ Y * X ^ p :=
  Nat.mul_le_mul_left _ (Nat.le_self_pow (by omega) X)

/-- one iteration with an odd exponent -/
theorem inv_step_odd {w n A : Nat} {x y : List Nat} {ov : Bool} {pow : Nat}
    (h : Inv w n A x y ov pow) (hp : 1 < pow) (ho : pow % 2 = 1) :
    Inv w n A (UI.overflowingMul w x x).1 (UI.overflowingMul w y x).1
      ((ov || (UI.overflowingMul w y x).2) || (UI.overflowingMul w x x).2) (pow / 2) := by
  obtain ⟨hx, hy, _, X, Y, eX, eY, hA, hY, h1, h2⟩ := h
  obtain ⟨a1, a2, a3⟩ := omul hy hx
  obtain ⟨b1, b2, b3⟩ := omul hx hx
  refine ⟨b1, a1, by omega, X * X, Y * X, ?_, ?_, ?_, ?_, ?_, ?_⟩
  · rw [b2, eX, ← Nat.mul_mod]
  · rw [a2, eY, eX, ← Nat.mul_mod]
  · rw [← hA]
    have : pow = 2 * (pow / 2) + 1 := by omega
    conv => rhs; rw [this]
    rw [Nat.pow_succ, Nat.pow_mul]; ring
  · rcases hY with hY | rfl
    · rcases Nat.eq_zero_or_pos X with rfl | hX
      · right; rfl
      · left; exact Nat.mul_pos hY hX
    · right; rfl
  · intro hov
    cases hv : ov
    · obtain ⟨l1, l2⟩ := h2 hv
      rw [Nat.mod_eq_of_lt l1] at eX; rw [Nat.mod_eq_of_lt l2] at eY
      rw [hv, Bool.false_or, Bool.or_eq_true, a3, b3, eX, eY] at hov
      rw [← hA]
      rcases hov with hov | hov
      · exact Nat.le_trans hov (mul_le_of (by omega))
      · exact Nat.le_trans hov (sq_le_of (by omega) hY)
    · exact h1 hv
  · intro hov
    rw [Bool.or_eq_false_iff, Bool.or_eq_false_iff] at hov
    obtain ⟨⟨hv, o1⟩, o2⟩ := hov
    obtain ⟨l1, l2⟩ := h2 hv
    rw [Nat.mod_eq_of_lt l1] at eX; rw [Nat.mod_eq_of_lt l2] at eY
    have n1 : ¬ M w n ≤ U w y * U w x := fun hc => by rw [a3.2 hc] at o1; cases o1
    have n2 : ¬ M w n ≤ U w x * U w x := fun hc => by rw [b3.2 hc] at o2; cases o2
    rw [eX, eY] at n1; rw [eX] at n2
    omega

/-- one iteration with an even exponent -/
theorem inv_step_even {w n A : Nat} {x y : List Nat} {ov : Bool} {pow : Nat}
    (h : Inv w n A x y ov pow) (hp : 1 < pow) (ho : ¬ pow % 2 = 1) :
    Inv w n A (UI.overflowingMul w x x).1 y (ov || (UI.overflowingMul w x x).2) (pow / 2) := by
  obtain ⟨hx, hy, _, X, Y, eX, eY, hA, hY, h1, h2⟩ := h
  obtain ⟨b1, b2, b3⟩ := omul hx hx
  refine ⟨b1, hy, by omega, X * X, Y, ?_, eY, ?_, ?_, ?_, ?_⟩
  · rw [b2, eX, ← Nat.mul_mod]
  · rw [← hA]
    have : pow = 2 * (pow / 2) := by omega
    conv => rhs; rw [this]
    rw [Nat.pow_mul]; ring
  · rcases hY with hY | rfl
    · left; exact hY
    · right; rfl
  · intro hov
    cases hv : ov
    · obtain ⟨l1, l2⟩ := h2 hv
      rw [Nat.mod_eq_of_lt l1] at eX
      rw [hv, Bool.false_or, b3, eX] at hov
      rw [← hA]
      exact Nat.le_trans hov (sq_le_of (by omega) hY)
    · exact h1 hv
  · intro hov
    rw [Bool.or_eq_false_iff] at hov
    obtain ⟨hv, o2⟩ := hov
    obtain ⟨l1, l2⟩ := h2 hv
    rw [Nat.mod_eq_of_lt l1] at eX
    have n2 : ¬ M w n ≤ U w x * U w x := fun hc => by rw [b3.2 hc] at o2; cases o2
    rw [eX] at n2
    exact ⟨by omega, l2⟩

/-- the `overflowing_pow` loop establishes the invariant with `pow = 1` -/
theorem loopO_inv {w n A : Nat} : ∀ (f : Nat) (x y : List Nat) (ov : Bool) (pow : Nat),
    pow ≤ f + 1 → Inv w n A x y ov pow →
    Inv w n A (UI.powLoopO w f x y ov pow).1 (UI.powLoopO w f x y ov pow).2.1
      (UI.powLoopO w f x y ov pow).2.2 1
  | 0, x, y, ov, pow, hf, h => by
    have : pow = 1 := by have := h.2.2.1; omega
    subst this; exact h
  | f + 1, x, y, ov, pow, hf, h => by
    unfold UI.powLoopO
    by_cases hp : pow > 1
    · rw [if_pos hp, and_one_beq, shr_one]
      by_cases ho : pow % 2 = 1
      · simp only [ho, decide_true, if_true]
        exact loopO_inv f _ _ _ _ (by omega) (inv_step_odd h hp ho)
      · simp only [ho, decide_false, Bool.false_eq_true, if_false]
        exact loopO_inv f _ _ _ _ (by omega) (inv_step_even h hp ho)
    · rw [if_neg hp]
      have : pow = 1 := by have := h.2.2.1; omega
      subst this; exact h

end Pow

namespace UI

/-- `BUint::overflowing_pow` on naturals: the value is `a ^ e mod 2^BITS` (in particular `0 ^ 0 = 1`),
    the flag is set exactly when `a ^ e` does not fit -/
theorem u_overflowingPow_nat {w n : Nat} {a : List Nat} (hw : 1 ≤ w) (hn : 1 ≤ n) (ha : WF w n a)
    (e : Nat) :
    WF w n (overflowingPow w a e).1 ∧
    U w (overflowingPow w a e).1 = (U w a ^ e) % M w n ∧
    ((overflowingPow w a e).2 = true ↔ M w n ≤ U w a ^ e) := by
  have hM2 : 2 ≤ M w n := by
    have := B_ge_two hw
    obtain ⟨k, rfl⟩ : ∃ k, n = k + 1 := ⟨n - 1, by omega⟩
    rw [M_succ]; have := M_pos w k
    calc 2 = 2 * 1 := rfl
      _ ≤ B w * M w k := Nat.mul_le_mul ‹2 ≤ B w› this
  unfold overflowingPow
  by_cases he : e = 0
  · subst he
    simp only [beq_self_eq_true, if_true, Nat.pow_zero]
    rw [ha.1]
    refine ⟨WF_one hw hn, ?_, ?_⟩
    · rw [U_one hn, Nat.mod_eq_of_lt (by omega)]
    · simp; omega
  · have he' : (e == 0) = false := by simpa using he
    simp only [he', Bool.false_eq_true, if_false]
    rw [ha.1]
    have h0 : Pow.Inv w n (U w a ^ e) a (one n) false e :=
      ⟨ha, WF_one hw hn, by omega, U w a, 1, (Nat.mod_eq_of_lt (U_lt ha)).symm,
        by rw [U_one hn, Nat.mod_eq_of_lt (by omega)], by simp, Or.inl (Nat.le_refl 1),
        by simp, fun _ => ⟨U_lt ha, by omega⟩⟩
    obtain ⟨hx, hy, _, X, Y, eX, eY, hA, hY, h1, h2⟩ := Pow.loopO_inv e a (one n) false e (by omega) h0
    generalize (powLoopO w e a (one n) false e).1 = x at *
    generalize (powLoopO w e a (one n) false e).2.1 = y at *
    generalize (powLoopO w e a (one n) false e).2.2 = ov at *
    obtain ⟨c1, c2, c3⟩ := Pow.omul hx hy
    rw [Nat.pow_one] at hA
    refine ⟨c1, ?_, ?_⟩
    · rw [c2, eX, eY, ← Nat.mul_mod, ← hA, Nat.mul_comm]
    · rw [Bool.or_eq_true, c3]
      cases hv : ov
      · obtain ⟨l1, l2⟩ := h2 hv
        rw [Nat.mod_eq_of_lt l1] at eX; rw [Nat.mod_eq_of_lt l2] at eY
        rw [eX, eY, ← hA, Nat.mul_comm]; simp
      · have := h1 hv; simp [this]


/-- `overflowing_pow` in the common `OvfU` shape -/
theorem overflowingPow_spec {w n : Nat} {a : List Nat} (hw : 1 ≤ w) (hn : 1 ≤ n) (ha : WF w n a)
    (e : Nat) : OvfU w n (overflowingPow w a e) ((U w a : Int) ^ e) := by
  obtain ⟨h1, h2, h3⟩ := u_overflowingPow_nat hw hn ha e
  refine ⟨h1, ?_, ?_⟩
  · rw [h2, ← Int.natCast_pow, wrapU_natCast]
  · apply bool_eq_decide
    rw [h3]; unfold repU
    rw [← Int.natCast_pow]
    constructor
    · intro h hc; have := hc.2; omega
    · intro h; by_contra hc; exact h ⟨by omega, by omega⟩

end UI

/-! ### the three separately written loops agree -/
namespace Pow

theorem loopO_sticky {w : Nat} : ∀ (f : Nat) (x y : List Nat) (pow : Nat),
    (UI.powLoopO w f x y true pow).2.2 = true
  | 0, _, _, _ => rfl
  | f + 1, x, y, pow => by
    unfold UI.powLoopO
    by_cases hp : pow > 1
    · rw [if_pos hp]
      by_cases ho : (pow &&& 1 == 1) = true
      · simp only [ho, if_true, Bool.true_or]; exact loopO_sticky f _ _ _
      · simp only [ho, Bool.false_eq_true, if_false, Bool.true_or]; exact loopO_sticky f _ _ _
    · rw [if_neg hp]

theorem loopW_eq {w n : Nat} : ∀ (f : Nat) (x y : List Nat) (ov : Bool) (pow : Nat),
    WF w n x → WF w n y →
    UI.powLoopW w f x y pow = ((UI.powLoopO w f x y ov pow).1, (UI.powLoopO w f x y ov pow).2.1)
  | 0, _, _, _, _, _, _ => rfl
  | f + 1, x, y, ov, pow, hx, hy => by
    unfold UI.powLoopW UI.powLoopO
    by_cases hp : pow > 1
    · rw [if_pos hp, if_pos hp]
      have e1 : UI.wrappingMul w x y = (UI.overflowingMul w y x).1 := by
        unfold UI.wrappingMul; rw [omul_comm hx hy]
      by_cases ho : (pow &&& 1 == 1) = true
      · simp only [ho, if_true]; rw [e1]
        exact loopW_eq f _ _ _ _ (omul hx hx).1 (omul hy hx).1
      · simp only [ho, Bool.false_eq_true, if_false]
        exact loopW_eq f _ _ _ _ (omul hx hx).1 hy
    · rw [if_neg hp, if_neg hp]

theorem loopC_eq {w n : Nat} : ∀ (f : Nat) (x y : List Nat) (pow : Nat),
    WF w n x → WF w n y →
    UI.powLoopC w f x y pow =
      if (UI.powLoopO w f x y false pow).2.2 = true then none
      else some ((UI.powLoopO w f x y false pow).1, (UI.powLoopO w f x y false pow).2.1)
  | 0, _, _, _, _, _ => by simp [UI.powLoopC, UI.powLoopO]
  | f + 1, x, y, pow, hx, hy => by
    unfold UI.powLoopC UI.powLoopO
    by_cases hp : pow > 1
    · rw [if_pos hp, if_pos hp]
      have e1 : UI.checkedMul w x y = tupleToOption (UI.overflowingMul w y x) := by
        unfold UI.checkedMul; rw [omul_comm hx hy]
      have e2 : UI.checkedMul w x x = tupleToOption (UI.overflowingMul w x x) := rfl
      rw [e1, e2]
      by_cases ho : (pow &&& 1 == 1) = true
      · simp only [ho, if_true, Bool.false_or]
        cases h1 : (UI.overflowingMul w y x).2
        · cases h2 : (UI.overflowingMul w x x).2
          · simp only [tupleToOption, h1, h2, Bool.false_eq_true, if_false, Bool.or_false]
            exact loopC_eq f _ _ _ (omul hx hx).1 (omul hy hx).1
          · simp only [tupleToOption, h1, h2, Bool.false_eq_true, if_false, if_true, Bool.or_true,
              loopO_sticky]
        · simp only [tupleToOption, h1, if_true, Bool.true_or, loopO_sticky]
      · simp only [ho, Bool.false_eq_true, if_false, Bool.false_or]
        cases h2 : (UI.overflowingMul w x x).2
        · simp only [tupleToOption, h2, Bool.false_eq_true, if_false]
          exact loopC_eq f _ _ _ (omul hx hx).1 hy
        · simp only [tupleToOption, h2, if_true, loopO_sticky]
    · rw [if_neg hp, if_neg hp]; simp

end Pow

namespace UI

/-- `wrapping_pow` (its own loop) computes the first component of `overflowing_pow` -/
theorem wrappingPow_eq {w n : Nat} {a : List Nat} (hw : 1 ≤ w) (hn : 1 ≤ n) (ha : WF w n a)
    (e : Nat) : wrappingPow w a e = (overflowingPow w a e).1 := by
  unfold wrappingPow overflowingPow
  by_cases he : (e == 0) = true
  · simp only [he, if_true]
  · simp only [he, Bool.false_eq_true, if_false]
    rw [Pow.loopW_eq e a (one a.length) false e ha (by rw [ha.1]; exact WF_one hw hn)]
    rfl

/-- `checked_pow` (its own loop, with early `return None`) is the projection of `overflowing_pow` -/
theorem checkedPow_eq {w n : Nat} {a : List Nat} (hw : 1 ≤ w) (hn : 1 ≤ n) (ha : WF w n a)
    (e : Nat) : checkedPow w a e = tupleToOption (overflowingPow w a e) := by
  unfold checkedPow overflowingPow
  by_cases he : (e == 0) = true
  · simp only [he, if_true]; rfl
  · simp only [he, Bool.false_eq_true, if_false]
    rw [Pow.loopC_eq e a (one a.length) e ha (by rw [ha.1]; exact WF_one hw hn)]
    cases hv : (powLoopO w e a (one a.length) false e).2.2
    · simp only [Bool.false_eq_true, if_false, Bool.or_false]; rfl
    · simp only [if_true, Bool.or_true]; rfl

end UI

/-! ## B. signed `pow` -/

namespace Pow

theorem int_pow_nonneg (z : Int) (e : Nat) (h : ¬ (z < 0 ∧ e % 2 = 1)) :
    z ^ e = ((z.natAbs ^ e : Nat) : Int) := by
  push_cast
  by_cases hz : z < 0
  · have he : Even e := by rw [Nat.even_iff]; omega
    rw [abs_of_neg hz, he.neg_pow]
  · rw [abs_of_nonneg (by omega)]

theorem int_pow_neg (z : Int) (e : Nat) (hz : z < 0) (he : e % 2 = 1) :
    z ^ e = -((z.natAbs ^ e : Nat) : Int) := by
  push_cast
  rw [abs_of_neg hz, (Nat.odd_iff.mpr he).neg_pow, neg_neg]

end Pow

namespace II

theorem overflowingPow_spec {w n : Nat} {a : List Nat} (hw : 2 ≤ w) (hn : 1 ≤ n) (ha : WF w n a)
    (e : Nat) : OvfS w n (overflowingPow w a e) (S w a ^ e) := by
  have hw1 : 1 ≤ w := by omega
  obtain ⟨hua, hUa⟩ := unsignedAbs_spec hw hn ha
  obtain ⟨h1, h2, h3⟩ := UI.u_overflowingPow_nat hw1 hn hua e
  rw [hUa] at h2 h3
  have hM := M_pos w n
  have hMe := M_even hw1 hn
  unfold overflowingPow
  rw [isNegative_eq_decide hw1 hn ha, Pow.and_one_beq]
  generalize UI.overflowingPow w (unsignedAbs w a) e = r at *
  obtain ⟨u, f⟩ := r
  simp only at h1 h2 h3 ⊢
  generalize hP : (S w a).natAbs ^ e = P at *
  have hul := U_lt h1
  by_cases hneg : S w a < 0 ∧ e % 2 = 1
  · -- negative result
    have hz : S w a ^ e = -(P : Int) := by rw [Pow.int_pow_neg _ _ hneg.1 hneg.2, hP]
    have hPpos : 1 ≤ P := by
      rw [← hP]; exact Nat.pow_pos (by omega)
    simp only [hneg.1, hneg.2, decide_true, Bool.and_self, if_true]
    rw [hz]
    obtain ⟨g1, g2, _⟩ := overflowingNeg_spec hw hn h1
    have g1' : WF w n (wrappingNeg w u) := g1
    have hval : S w (wrappingNeg w u) = wrapS (M w n) (-(P : Int)) := by
      unfold wrappingNeg
      rw [g2]
      obtain ⟨k, hk⟩ := S_spec h1
      obtain ⟨q, hq⟩ := exists_of_mod h2
      rw [hk, show -((U w u : Int) + k * M w n) = -(P : Int) + (q - k) * M w n by rw [hq]; ring,
        wrapS_add_mul]
    refine ⟨g1, hval, ?_⟩
    apply bool_eq_decide
    rw [Bool.or_eq_true, h3, isNegative_eq_decide hw1 hn g1', hval]
    by_cases hov : M w n ≤ P
    · unfold repS; constructor
      · intro _; omega
      · intro _; exact Or.inl hov
    · have hwu : wrapU (M w n) (-(P : Int)) = M w n - P :=
        wrapU_eq_of (k := -1) (by omega) (by push_cast [show P ≤ M w n by omega]; ring)
      unfold wrapS toInt repS; rw [hwu]
      simp only [Bool.not_eq_true', decide_eq_false_iff_not]
      push_cast [show P ≤ M w n by omega]
      split_ifs <;> omega
  · have hz : S w a ^ e = (P : Int) := by rw [Pow.int_pow_nonneg _ _ hneg, hP]
    have hd : (decide (S w a < 0) && decide (e % 2 = 1)) = false := by
      rw [Bool.and_eq_false_iff]; simp only [decide_eq_false_iff_not]; tauto
    simp only [hd, Bool.false_eq_true, if_false]
    rw [hz]
    have hval : S w u = wrapS (M w n) (P : Int) := by
      rw [S_eq h1]; unfold wrapS; rw [wrapU_natCast, h2]
    refine ⟨h1, hval, ?_⟩
    apply bool_eq_decide
    rw [Bool.or_eq_true, h3, isNegative_eq_decide hw1 hn h1, decide_eq_true_iff]
    by_cases hov : M w n ≤ P
    · unfold repS; constructor
      · intro _; omega
      · intro _; exact Or.inl hov
    · rw [Nat.mod_eq_of_lt (by omega)] at h2
      rw [S_eq h1, h2]; unfold toInt repS
      split_ifs <;> omega

end II

/-! ### projections (both signednesses) -/
namespace Pow
theorem and_one_beq0 (p : Nat) : (p &&& 1 == 0) = !(p &&& 1 == 1) := by
  rw [Nat.and_one_is_mod]
  rcases Nat.mod_two_eq_zero_or_one p with h | h <;> rw [h] <;> rfl

theorem and_one_bne0 (p : Nat) : (p &&& 1 != 0) = (p &&& 1 == 1) := by
  rw [Nat.and_one_is_mod]
  rcases Nat.mod_two_eq_zero_or_one p with h | h <;> rw [h] <;> rfl

/-- congruent bases have congruent powers -/
theorem pow_congr (u k m : Int) : ∀ e : Nat, ∃ j : Int, (u + k * m) ^ e = u ^ e + j * m
  | 0 => ⟨0, by simp⟩
  | e + 1 => by
    obtain ⟨j, hj⟩ := pow_congr u k m e
    refine ⟨j * u + u ^ e * k + j * k * m, ?_⟩
    rw [pow_succ, hj]; ring
end Pow

namespace UI

theorem saturatingPow_spec {w n : Nat} {a : List Nat} (hw : 1 ≤ w) (hn : 1 ≤ n) (ha : WF w n a)
    (e : Nat) :
    WF w n (saturatingPow w a e) ∧
    (U w (saturatingPow w a e) : Int) = Spec.clamp false (M w n) ((U w a : Int) ^ e) := by
  unfold saturatingPow; rw [ha.1]
  exact saturateUp_spec (overflowingPow_spec hw hn ha e) (by positivity)

/-- `BUint::pow`: panics exactly in debug builds when `a ^ e` does not fit; otherwise the wrapped
    (in debug: exact) power -/
theorem pow_spec {w n : Nat} {a : List Nat} (hw : 1 ≤ w) (hn : 1 ≤ n) (ha : WF w n a) (e : Nat)
    (dbg : Bool) :
    (pow w dbg a e = Outcome.panic ↔ (dbg = true ∧ ¬ repU (M w n) ((U w a : Int) ^ e))) ∧
    (∀ r, pow w dbg a e = Outcome.ok r →
      WF w n r ∧ (U w r : Int) = wrapU (M w n) ((U w a : Int) ^ e) ∧
      (dbg = true → (U w r : Int) = (U w a : Int) ^ e)) := by
  have h := overflowingPow_spec hw hn ha e
  unfold pow strictPow
  rw [checkedPow_eq hw hn ha, wrappingPow_eq hw hn ha]
  cases dbg
  · simp only [Bool.false_eq_true, if_false, false_and, iff_false, false_implies, and_true]
    refine ⟨by simp, ?_⟩
    intro r hr
    cases hr
    exact h.wrapping
  · simp only [if_true, true_and, true_implies]
    refine ⟨h.strict.1, ?_⟩
    intro r hr
    obtain ⟨g1, g2⟩ := h.strict.2 r hr
    refine ⟨g1, ?_, g2⟩
    rw [g2, wrapU_of_rep]
    rw [← g2]; exact ⟨by omega, by have := U_lt g1; omega⟩

end UI

namespace II

/-- `BInt::checked_pow` (written separately in Rust) is the projection of `overflowing_pow` -/
theorem checkedPow_eq {w n : Nat} {a : List Nat} (hw : 2 ≤ w) (hn : 1 ≤ n) (ha : WF w n a)
    (e : Nat) : checkedPow w a e = tupleToOption (overflowingPow w a e) := by
  obtain ⟨hua, _⟩ := unsignedAbs_spec hw hn ha
  unfold checkedPow overflowingPow
  rw [UI.checkedPow_eq (by omega) hn hua, Pow.and_one_beq0]
  generalize UI.overflowingPow w (unsignedAbs w a) e = r
  obtain ⟨u, f⟩ := r
  cases f <;> cases isNegative w a <;> cases (e &&& 1 == 1) <;>
    simp [tupleToOption]

theorem wrappingPow_spec {w n : Nat} {a : List Nat} (hw : 1 ≤ w) (hn : 1 ≤ n) (ha : WF w n a)
    (e : Nat) :
    WF w n (wrappingPow w a e) ∧ S w (wrappingPow w a e) = wrapS (M w n) (S w a ^ e) := by
  obtain ⟨h1, h2, _⟩ := UI.u_overflowingPow_nat hw hn ha e
  unfold wrappingPow
  rw [UI.wrappingPow_eq hw hn ha]
  refine ⟨h1, ?_⟩
  obtain ⟨q, hq⟩ := exists_of_mod h2
  obtain ⟨k, hk⟩ := S_spec ha
  obtain ⟨j, hj⟩ := Pow.pow_congr (U w a) k (M w n) e
  apply S_eq_wrapS h1 (k := q + j)
  rw [hk, hj]; push_cast at hq; rw [hq]; ring

theorem saturatingPow_spec {w n : Nat} {a : List Nat} (hw : 2 ≤ w) (hn : 1 ≤ n) (ha : WF w n a)
    (e : Nat) :
    WF w n (saturatingPow w a e) ∧
    S w (saturatingPow w a e) = Spec.clamp true (M w n) (S w a ^ e) := by
  have hw1 : 1 ≤ w := by omega
  have hm := M_even hw1 hn
  have hM := M_pos w n
  by_cases hN : S w a < 0 ∧ e % 2 = 1
  · refine saturate_spec hw1 hn (overflowingPow_spec hw hn ha e) (WF_iMin hw1 hn) ?_ _
      (by unfold saturatingPow
          rw [checkedPow_eq hw hn ha, Pow.and_one_bne0, Pow.and_one_beq,
            isNegative_eq_decide hw1 hn ha, ha.1]
          simp only [hN.1, hN.2, decide_true, Bool.and_self, if_true]; rfl)
    intro hr
    rw [Pow.int_pow_neg _ _ hN.1 hN.2] at hr ⊢
    rw [S_iMin hw1 hn, clampS_lo hm (by unfold repS at hr; omega)]
  · refine saturate_spec hw1 hn (overflowingPow_spec hw hn ha e) (WF_iMax hw1 hn) ?_ _
      (by unfold saturatingPow
          rw [checkedPow_eq hw hn ha, Pow.and_one_bne0, Pow.and_one_beq,
            isNegative_eq_decide hw1 hn ha, ha.1]
          have hd : (decide (S w a < 0) && decide (e % 2 = 1)) = false := by
            rw [Bool.and_eq_false_iff]; simp only [decide_eq_false_iff_not]; tauto
          simp only [hd, Bool.false_eq_true, if_false]; rfl)
    intro hr
    rw [Pow.int_pow_nonneg _ _ hN] at hr ⊢
    rw [S_iMax hw1 hn, clampS_hi hm (by unfold repS at hr; omega)]

/-- on overflow `saturating_pow` returns MIN exactly for a negative base with an odd exponent -/
theorem saturatingPow_side {w n : Nat} {a : List Nat} (hw : 2 ≤ w) (hn : 1 ≤ n) (ha : WF w n a)
    (e : Nat) (hov : ¬ repS (M w n) (S w a ^ e)) :
    ((S w a < 0 ∧ e % 2 = 1) → saturatingPow w a e = iMin w n) ∧
    (¬ (S w a < 0 ∧ e % 2 = 1) → saturatingPow w a e = iMax w n) := by
  have hw1 : 1 ≤ w := by omega
  have hnone : checkedPow w a e = none := by
    rw [checkedPow_eq hw hn ha]
    exact (overflowingPow_spec hw hn ha e).checked.1.2 hov
  unfold saturatingPow
  rw [hnone, Pow.and_one_bne0, Pow.and_one_beq, isNegative_eq_decide hw1 hn ha, ha.1]
  constructor
  · intro h; simp [h.1, h.2]
  · intro h
    have hd : (decide (S w a < 0) && decide (e % 2 = 1)) = false := by
      rw [Bool.and_eq_false_iff]; simp only [decide_eq_false_iff_not]; tauto
    simp [hd]

theorem pow_spec {w n : Nat} {a : List Nat} (hw : 2 ≤ w) (hn : 1 ≤ n) (ha : WF w n a) (e : Nat)
    (dbg : Bool) :
    (pow w dbg a e = Outcome.panic ↔ (dbg = true ∧ ¬ repS (M w n) (S w a ^ e))) ∧
    (∀ r, pow w dbg a e = Outcome.ok r →
      WF w n r ∧ S w r = wrapS (M w n) (S w a ^ e) ∧ (dbg = true → S w r = S w a ^ e)) := by
  have h := overflowingPow_spec hw hn ha e
  unfold pow strictPow
  rw [checkedPow_eq hw hn ha]
  cases dbg
  · simp only [Bool.false_eq_true, if_false, false_and, iff_false, false_implies, and_true]
    refine ⟨by simp, ?_⟩
    intro r hr
    cases hr
    exact wrappingPow_spec (by omega) hn ha e
  · simp only [if_true, true_and, true_implies]
    refine ⟨h.strict.1, ?_⟩
    intro r hr
    obtain ⟨g1, g2⟩ := h.strict.2 r hr
    refine ⟨g1, ?_, g2⟩
    rw [g2, wrapS_of_rep (M_pos w n)]
    rw [← g2]; exact S_repS (by omega) hn g1

end II

/-! ## C. integer logarithms -/
namespace Ilog

/-- the arithmetic of one level of Jaffer's recursion: with `L' = log_{b²} ⌊k / b⌋` and
    `q = ⌊k / b⌋ / (b²)^L'`, `log_b k` is `2 L' + 1` when `q < b` and `2 L' + 2` otherwise, and the
    returned cofactor is `⌊k / b ^ log_b k⌋` -/
theorem log_step {b k : Nat} (hb : 2 ≤ b) (hk : b ≤ k) :
    (k / b / (b * b) ^ Nat.log (b * b) (k / b) < b →
      Nat.log b k = 2 * Nat.log (b * b) (k / b) + 1 ∧
      k / b / (b * b) ^ Nat.log (b * b) (k / b) = k / b ^ Nat.log b k) ∧
    (b ≤ k / b / (b * b) ^ Nat.log (b * b) (k / b) →
      Nat.log b k = 2 * Nat.log (b * b) (k / b) + 2 ∧
      k / b / (b * b) ^ Nat.log (b * b) (k / b) / b = k / b ^ Nat.log b k) := by
  have hbpos : 0 < b := by omega
  have hkb : k / b ≠ 0 := by
    have : 1 ≤ k / b := (Nat.le_div_iff_mul_le hbpos).2 (by omega)
    omega
  have hbb : 1 < b * b := by nlinarith
  generalize hL : Nat.log (b * b) (k / b) = L
  have hsq : (b * b) ^ L = b ^ (2 * L) := by rw [← Nat.pow_two, ← Nat.pow_mul]
  have hpp : 0 < b ^ (2 * L + 1) := Nat.pow_pos hbpos
  -- `b^(2L+1) ≤ k < b^(2L+3)`
  have h1 : b ^ (2 * L + 1) ≤ k := by
    have := Nat.pow_log_le_self (b * b) hkb
    rw [hL, hsq, Nat.le_div_iff_mul_le hbpos] at this
    rw [Nat.pow_succ]; exact this
  have h2 : k < b ^ (2 * L + 3) := by
    have := Nat.lt_pow_succ_log_self hbb (k / b)
    rw [hL, Nat.div_lt_iff_lt_mul hbpos, Nat.succ_eq_add_one, ← Nat.pow_two, ← Nat.pow_mul,
      ← Nat.pow_succ] at this
    exact this
  have hq : k / b / (b * b) ^ L = k / b ^ (2 * L + 1) := by
    rw [Nat.div_div_eq_div_mul, hsq, Nat.pow_succ, Nat.mul_comm]
  rw [hq]
  constructor
  · intro hlt
    have h3 : k < b ^ (2 * L + 1 + 1) := by
      rw [Nat.div_lt_iff_lt_mul hpp] at hlt
      rw [Nat.pow_succ, Nat.mul_comm]; exact hlt
    have := Nat.log_eq_of_pow_le_of_lt_pow h1 h3
    exact ⟨this, by rw [this]⟩
  · intro hge
    have h3 : b ^ (2 * L + 2) ≤ k := by
      rw [Nat.le_div_iff_mul_le hpp] at hge
      rw [Nat.pow_succ, Nat.mul_comm]; exact hge
    have := Nat.log_eq_of_pow_le_of_lt_pow h3 h2
    refine ⟨this, ?_⟩
    rw [this, Nat.div_div_eq_div_mul, ← Nat.pow_succ]


theorem gt_iff {w n : Nat} {a b : List Nat} (ha : WF w n a) (hb : WF w n b) :
    CmpImpl.gt UI.cmp a b = true ↔ U w b < U w a := by
  unfold CmpImpl.gt; rw [UI.cmp_spec ha hb, ← compare_gt_iff_gt]
  cases compare (U w a) (U w b) <;> simp

theorem le_iff {w n : Nat} {a b : List Nat} (ha : WF w n a) (hb : WF w n b) :
    CmpImpl.le UI.cmp a b = true ↔ U w a ≤ U w b := by
  unfold CmpImpl.le; rw [UI.cmp_spec ha hb, ← not_lt, ← compare_gt_iff_gt]
  cases compare (U w a) (U w b) <;> simp

/-- the unsuffixed `mul` does not panic (in either build mode) when the product fits -/
theorem mul_ok {w n : Nat} {a b : List Nat} (ha : WF w n a) (hb : WF w n b)
    (h : U w a * U w b < M w n) (dbg : Bool) :
    ∃ r, UI.mul w dbg a b = .ok r ∧ WF w n r ∧ U w r = U w a * U w b := by
  obtain ⟨h1, h2⟩ := UI.mul_spec ha hb dbg
  have hrep : repU (M w n) ((U w a : Int) * U w b) := ⟨by positivity, by exact_mod_cast h⟩
  cases hm : UI.mul w dbg a b with
  | panic => exact absurd hrep (h1.1 hm).2
  | ok r =>
    obtain ⟨g1, g2, _⟩ := h2 r hm
    refine ⟨r, rfl, g1, ?_⟩
    rw [wrapU_of_rep hrep] at g2; exact_mod_cast g2

/-- `div` (= `wrapping_div`) by a non-zero divisor, granted `div_rem_unchecked` -/
theorem div_ok {w n : Nat} (hD : UDivSpec w n) {a b : List Nat} (ha : WF w n a) (hb : WF w n b)
    (hb0 : U w b ≠ 0) :
    ∃ d, UI.div w a b = .ok d ∧ WF w n d ∧ U w d = U w a / U w b := by
  obtain ⟨q, r, h1, h2, _, h4, _⟩ := hD a b ha hb hb0
  have hz : isZero b = false := (DivL.isZero_false_iff_U (w := w) b).2 hb0
  refine ⟨q, ?_, h2, h4⟩
  unfold UI.div UI.wrappingDiv UI.checkedDiv
  rw [hz, h1]; rfl

theorem u32Shl1_eq {m : Nat} (h : 2 * m < 2 ^ 32) : Prim.u32Shl1 m = 2 * m := by
  unfold Prim.u32Shl1
  rw [Nat.shiftLeft_eq, Nat.pow_one, Nat.mod_eq_of_lt (by omega)]; omega

theorem u32Add_ok {a b : Nat} (h : a + b < 2 ^ 32) (dbg : Bool) : Prim.u32Add dbg a b = .ok (a + b) := by
  unfold Prim.u32Add; rw [if_pos h]

/-- `iilog(m, b, k)` returns `(m * (log_b k + 1), ⌊k / b ^ log_b k⌋)`; the fuel is never exhausted and
    no inner `mul` / `+` / `div` panics, in either build mode, provided `b * k` fits the type and the
    first component fits `u32`. -/
theorem iilog_spec {w n : Nat} (hD : UDivSpec w n) (dbg : Bool) :
    ∀ (f m : Nat) (b k : List Nat), WF w n b → WF w n k → 2 ≤ U w b → U w b * U w k < M w n →
      U w k < f → m * (Nat.log (U w b) (U w k) + 1) < 2 ^ 32 →
      ∃ q, UI.iilog dbg w f m b k = .ok (m * (Nat.log (U w b) (U w k) + 1), q) ∧ WF w n q ∧
        U w q = U w k / U w b ^ Nat.log (U w b) (U w k)
  | 0, _, _, _, _, _, _, _, hf, _ => by omega
  | f + 1, m, b, k, hb, hk, hb2, hbk, hf, hm => by
    unfold UI.iilog
    by_cases hgt : U w k < U w b
    · rw [if_pos ((gt_iff hb hk).2 hgt), Nat.log_of_lt hgt]
      exact ⟨k, by simp, hk, by simp⟩
    · have hle : U w b ≤ U w k := by omega
      rw [if_neg (by rw [gt_iff hb hk]; exact hgt)]
      simp only
      -- b.mul(b)
      have hbb : U w b * U w b < M w n := Nat.lt_of_le_of_lt (Nat.mul_le_mul_left _ hle) hbk
      obtain ⟨bb, e1, wbb, ubb⟩ := mul_ok hb hb hbb dbg
      rw [e1]; simp only
      -- k.div_rem_unchecked(b).0
      obtain ⟨q0, r0, e2, wq0, _, uq0, _⟩ := hD k b hk hb (by omega)
      rw [e2]; simp only
      -- facts about the logarithm
      obtain ⟨s1, s2⟩ := log_step hb2 hle
      have hLpos : 1 ≤ Nat.log (U w b) (U w k) :=
        (Nat.le_log_iff_pow_le (by omega) (by omega)).2 (by rw [Nat.pow_one]; exact hle)
      have hdl : U w k / U w b < U w k := Nat.div_lt_self (by omega) (by omega)
      have hmul : U w k / U w b * U w b ≤ U w k := Nat.div_mul_le_self _ _
      have hL2 : 2 * Nat.log (U w b * U w b) (U w k / U w b) + 1 ≤ Nat.log (U w b) (U w k) := by
        by_cases hc : U w k / U w b / (U w b * U w b) ^ Nat.log (U w b * U w b) (U w k / U w b) < U w b
        · have := (s1 hc).1; omega
        · have := (s2 (by omega)).1; omega
      have hm2 : 2 * m < 2 ^ 32 := by
        have : m * 2 ≤ m * (Nat.log (U w b) (U w k) + 1) := Nat.mul_le_mul_left _ (by omega)
        omega
      rw [u32Shl1_eq hm2]
      -- the recursive call
      have hrec := iilog_spec hD dbg f (2 * m) bb q0 wbb wq0 (by rw [ubb]; nlinarith)
        (by rw [ubb, uq0]
            calc U w b * U w b * (U w k / U w b) = U w b * (U w k / U w b * U w b) := by ring
              _ ≤ U w b * U w k := Nat.mul_le_mul_left _ hmul
              _ < M w n := hbk)
        (by rw [uq0]; omega)
        (by rw [ubb, uq0]
            have : 2 * m * (Nat.log (U w b * U w b) (U w k / U w b) + 1)
                ≤ m * (Nat.log (U w b) (U w k) + 1) := by
              rw [Nat.mul_comm 2 m, Nat.mul_assoc]; exact Nat.mul_le_mul_left _ (by omega)
            omega)
      obtain ⟨q, e3, wq, uq⟩ := hrec
      rw [ubb, uq0] at e3 uq
      rw [e3]; simp only
      by_cases hc : U w q < U w b
      · rw [if_pos ((gt_iff hb wq).2 hc)]
        obtain ⟨t1, t2⟩ := s1 (by rw [← uq]; exact hc)
        refine ⟨q, ?_, wq, by rw [uq, t2]⟩
        rw [t1]; congr 2; ring
      · rw [if_neg (by rw [gt_iff hb wq]; exact hc)]
        obtain ⟨t1, t2⟩ := s2 (by rw [← uq]; omega)
        have hsum : 2 * m * (Nat.log (U w b * U w b) (U w k / U w b) + 1) + m
            = m * (Nat.log (U w b) (U w k) + 1) := by rw [t1]; ring
        rw [u32Add_ok (by rw [hsum]; exact hm) dbg]; simp only
        obtain ⟨d, e4, wd, ud⟩ := div_ok hD wq hb (by omega)
        rw [e4]; simp only
        exact ⟨d, by rw [hsum], wd, by rw [ud, uq, t2]⟩


theorem U_two {w n : Nat} (hn : 1 ≤ n) : U w (two n) = 2 := U_fromDigit 2 hn
theorem WF_two {w n : Nat} (hw : 2 ≤ w) (hn : 1 ≤ n) : WF w n (two n) :=
  WF_fromDigit hn (by have := B_half_ge_two hw; have := B_even (show 1 ≤ w by omega); omega)
theorem U_ten {w n : Nat} (hn : 1 ≤ n) : U w (ten n) = 10 := U_fromDigit 10 hn
theorem WF_ten {w n : Nat} (h10 : 10 < B w) (hn : 1 ≤ n) : WF w n (ten n) := WF_fromDigit hn h10

/-- a logarithm of a `W`-bit number is below `W` -/
theorem log_lt_bits {b a W : Nat} (hb : 2 ≤ b) (ha : a < 2 ^ W) (ha0 : a ≠ 0) : Nat.log b a < W := by
  have h1 := Nat.pow_log_le_self b ha0
  have h2 : 2 ^ Nat.log b a ≤ b ^ Nat.log b a := Nat.pow_le_pow_left hb _
  exact (Nat.pow_lt_pow_iff_right (show 1 < 2 by omega)).1 (by omega)

/-- `checked_ilog2` -/
theorem checkedIlog2_eq {w n : Nat} {a : List Nat} (ha : WF w n a) :
    UI.checkedIlog2 w a = if U w a = 0 then none else some (Nat.log 2 (U w a)) := by
  unfold UI.checkedIlog2 Prim.u32CheckedSub
  rw [Bits.bits_spec ha]; unfold Spec.bitLen
  by_cases h0 : U w a = 0
  · simp [h0]
  · simp [h0, Nat.log2_eq_log_two]

/-- the call `iilog(1, base, self / base)` made by `checked_ilog` / `checked_ilog10` -/
theorem iilog_top {w n : Nat} (hD : UDivSpec w n) (hW : w * n < 2 ^ 32) (dbg : Bool)
    {a b k : List Nat} (ha : WF w n a) (hb : WF w n b) (hk : WF w n k) (hb2 : 2 ≤ U w b)
    (hle : U w b ≤ U w a) (hku : U w k = U w a / U w b) :
    ∃ q, UI.iilog dbg w (U w k + 1) 1 b k = .ok (Nat.log (U w b) (U w a), q) := by
  have hL1 : 1 ≤ Nat.log (U w b) (U w a) :=
    (Nat.le_log_iff_pow_le (by omega) (by omega)).2 (by rw [Nat.pow_one]; exact hle)
  have hlog : Nat.log (U w b) (U w k) + 1 = Nat.log (U w b) (U w a) := by
    rw [hku, Nat.log_div_base]; omega
  have hbits : Nat.log (U w b) (U w a) < w * n :=
    log_lt_bits hb2 (by have := U_lt ha; rwa [Bits.M_eq_two_pow] at this) (by omega)
  obtain ⟨q, h, _, _⟩ := iilog_spec hD dbg (U w k + 1) 1 b k hb hk hb2
    (by rw [hku]
        calc U w b * (U w a / U w b) ≤ U w a := Nat.mul_div_le _ _
          _ < M w n := U_lt ha)
    (by omega) (by rw [hlog, Nat.one_mul]; omega)
  rw [hlog, Nat.one_mul] at h
  exact ⟨q, h⟩

end Ilog

namespace UI

/-- `BUint::checked_ilog`: `Some(⌊log_base self⌋)` when `self ≥ 1` and `base ≥ 2`, `None` otherwise;
    never an internal panic -/
theorem checkedIlog_spec {w n : Nat} (hw : 2 ≤ w) (hn : 1 ≤ n) (hD : UDivSpec w n)
    (hW : w * n < 2 ^ 32) {a b : List Nat} (ha : WF w n a) (hb : WF w n b) (dbg : Bool) :
    checkedIlog dbg w a b =
      .ok (if 1 ≤ U w a ∧ 2 ≤ U w b then some (Nat.log (U w b) (U w a)) else none) := by
  unfold checkedIlog
  rw [ha.1, cmp_spec hb (Ilog.WF_two hw hn), Ilog.U_two hn]
  rcases Nat.lt_trichotomy (U w b) 2 with hlt | heq | hgt
  · rw [Nat.compare_eq_lt.mpr hlt]
    simp only; rw [if_neg (by omega)]
  · rw [Nat.compare_eq_eq.mpr heq]
    simp only; rw [Ilog.checkedIlog2_eq ha, heq]
    by_cases h0 : U w a = 0
    · rw [if_pos h0, if_neg (by omega)]
    · rw [if_neg h0, if_pos (by omega)]
  · rw [Nat.compare_eq_gt.mpr hgt]
    simp only
    by_cases h0 : U w a = 0
    · rw [if_pos ((DivL.isZero_iff_U (w := w) a).2 h0), if_neg (by omega)]
    · rw [if_neg (by rw [DivL.isZero_iff_U (w := w) a]; exact h0)]
      by_cases hlt : U w a < U w b
      · rw [if_pos ((Ilog.gt_iff hb ha).2 hlt), if_pos (by omega), Nat.log_of_lt hlt]
      · rw [if_neg (by rw [Ilog.gt_iff hb ha]; exact hlt), if_pos (by omega)]
        obtain ⟨k, e1, wk, uk⟩ := Ilog.div_ok hD ha hb (by omega)
        rw [e1]; simp only
        obtain ⟨q, e2⟩ := Ilog.iilog_top hD hW dbg ha hb wk (by omega) (by omega) uk
        rw [e2]

/-- `BUint::checked_ilog10` (digit types of at least 4 bits, so that `TEN` is a digit) -/
theorem checkedIlog10_spec {w n : Nat} (h10 : 10 < B w) (hn : 1 ≤ n) (hD : UDivSpec w n)
    (hW : w * n < 2 ^ 32) {a : List Nat} (ha : WF w n a) (dbg : Bool) :
    checkedIlog10 dbg w a = .ok (if 1 ≤ U w a then some (Nat.log 10 (U w a)) else none) := by
  unfold checkedIlog10
  rw [ha.1]
  have wt := Ilog.WF_ten h10 hn
  have ut := Ilog.U_ten (w := w) hn
  by_cases h0 : U w a = 0
  · rw [if_pos ((DivL.isZero_iff_U (w := w) a).2 h0), if_neg (by omega)]
  · rw [if_neg (by rw [DivL.isZero_iff_U (w := w) a]; exact h0)]
    have hr : (if 1 ≤ U w a then some (Nat.log 10 (U w a)) else none)
        = some (Nat.log 10 (U w a)) := if_pos (by omega)
    rw [hr]
    by_cases hlt : U w a < 10
    · rw [if_pos ((Ilog.gt_iff wt ha).2 (by rw [ut]; exact hlt)), Nat.log_of_lt hlt]
    · rw [if_neg (by rw [Ilog.gt_iff wt ha, ut]; exact hlt)]
      obtain ⟨q, r, e1, e2, e3, wq⟩ := u_divRemDigit_spec (w := w) (d := 10) (by omega) h10 ha
      rw [e1]; simp only
      have uk : U w q = U w a / U w (ten n) := by
        rw [ut]
        have : U w a = 10 * U w q + r := by omega
        rw [this, Nat.mul_add_div (by omega), Nat.div_eq_of_lt e3]; omega
      obtain ⟨q', e4⟩ := Ilog.iilog_top hD hW dbg ha wt wq (by omega) (by omega) uk
      rw [e4, ut]

end UI

/-! ### panicking wrappers and the signed layer -/
namespace UI

theorem ilog2_spec {w n : Nat} {a : List Nat} (ha : WF w n a) :
    ilog2 w a = if 1 ≤ U w a then .ok (Nat.log 2 (U w a)) else .panic := by
  unfold ilog2; rw [Ilog.checkedIlog2_eq ha]
  by_cases h0 : U w a = 0
  · rw [if_pos h0, if_neg (by omega)]; rfl
  · rw [if_neg h0, if_pos (by omega)]; rfl

theorem ilog10_spec {w n : Nat} (h10 : 10 < B w) (hn : 1 ≤ n) (hD : UDivSpec w n)
    (hW : w * n < 2 ^ 32) {a : List Nat} (ha : WF w n a) (dbg : Bool) :
    ilog10 dbg w a = if 1 ≤ U w a then .ok (Nat.log 10 (U w a)) else .panic := by
  unfold ilog10; rw [checkedIlog10_spec h10 hn hD hW ha dbg]
  by_cases h0 : 1 ≤ U w a
  · rw [if_pos h0, if_pos h0]; rfl
  · rw [if_neg h0, if_neg h0]; rfl

theorem ilog_spec {w n : Nat} (hw : 2 ≤ w) (hn : 1 ≤ n) (hD : UDivSpec w n)
    (hW : w * n < 2 ^ 32) {a b : List Nat} (ha : WF w n a) (hb : WF w n b) (dbg : Bool) :
    ilog dbg w a b =
      if 1 ≤ U w a ∧ 2 ≤ U w b then .ok (Nat.log (U w b) (U w a)) else .panic := by
  unfold ilog
  rw [ha.1, checkedIlog_spec hw hn hD hW ha hb dbg]
  have h1 := Ilog.le_iff hb (WF_one (show 1 ≤ w by omega) hn)
  rw [U_one hn] at h1
  by_cases hb1 : U w b ≤ 1
  · rw [if_pos (h1.2 hb1), if_neg (by omega)]
  · rw [if_neg (by rw [h1]; exact hb1)]
    by_cases h0 : 1 ≤ U w a ∧ 2 ≤ U w b
    · rw [if_pos h0, if_pos h0]; rfl
    · rw [if_neg h0, if_neg h0]; rfl

end UI

namespace Ilog
theorem ile_iff {w n : Nat} (hw : 1 ≤ w) (hn : 1 ≤ n) {a b : List Nat} (ha : WF w n a)
    (hb : WF w n b) : CmpImpl.le (II.cmp w) a b = true ↔ S w a ≤ S w b := by
  unfold CmpImpl.le; rw [II.cmp_spec hw hn ha hb, ← not_lt, ← compare_gt_iff_gt]
  cases compare (S w a) (S w b) <;> simp
end Ilog

namespace II

theorem checkedIlog_spec {w n : Nat} (hw : 2 ≤ w) (hn : 1 ≤ n) (hD : UDivSpec w n)
    (hW : w * n < 2 ^ 32) {a b : List Nat} (ha : WF w n a) (hb : WF w n b) (dbg : Bool) :
    checkedIlog dbg w a b =
      .ok (if 1 ≤ S w a ∧ 2 ≤ S w b then some (Nat.log (S w b).toNat (S w a).toNat) else none) := by
  have hw1 : 1 ≤ w := by omega
  unfold checkedIlog
  rw [isNegative_eq_decide hw1 hn ha, isNegative_eq_decide hw1 hn hb]
  by_cases hneg : S w b < 0 ∨ S w a < 0
  · have : (decide (S w b < 0) || decide (S w a < 0)) = true := by simpa using hneg
    rw [if_pos this, if_neg (by omega)]
  · have : ¬ (decide (S w b < 0) || decide (S w a < 0)) = true := by simpa using hneg
    rw [if_neg this, UI.checkedIlog_spec hw hn hD hW ha hb dbg]
    have ea := S_of_nonneg ha (by omega)
    have eb := S_of_nonneg hb (by omega)
    rw [ea, eb]; simp only [Int.toNat_natCast]
    congr 1
    by_cases hc : 1 ≤ U w a ∧ 2 ≤ U w b
    · rw [if_pos hc, if_pos (by omega)]
    · rw [if_neg hc, if_neg (by omega)]

theorem checkedIlog2_spec {w n : Nat} (hw : 2 ≤ w) (hn : 1 ≤ n) {a : List Nat} (ha : WF w n a) :
    checkedIlog2 w a = if 1 ≤ S w a then some (Nat.log 2 (S w a).toNat) else none := by
  have hw1 : 1 ≤ w := by omega
  unfold checkedIlog2
  rw [isNegative_eq_decide hw1 hn ha]
  by_cases hneg : S w a < 0
  · rw [if_pos (by simpa using hneg), if_neg (by omega)]
  · rw [if_neg (by simpa using hneg), Ilog.checkedIlog2_eq ha]
    have ea := S_of_nonneg ha (by omega)
    rw [ea]; simp only [Int.toNat_natCast]
    by_cases hc : U w a = 0
    · rw [if_pos hc, if_neg (by omega)]
    · rw [if_neg hc, if_pos (by omega)]

theorem checkedIlog10_spec {w n : Nat} (hw : 2 ≤ w) (h10 : 10 < B w) (hn : 1 ≤ n)
    (hD : UDivSpec w n) (hW : w * n < 2 ^ 32) {a : List Nat} (ha : WF w n a) (dbg : Bool) :
    checkedIlog10 dbg w a =
      .ok (if 1 ≤ S w a then some (Nat.log 10 (S w a).toNat) else none) := by
  have hw1 : 1 ≤ w := by omega
  unfold checkedIlog10
  rw [isNegative_eq_decide hw1 hn ha]
  by_cases hneg : S w a < 0
  · rw [if_pos (by simpa using hneg), if_neg (by omega)]
  · rw [if_neg (by simpa using hneg), UI.checkedIlog10_spec h10 hn hD hW ha dbg]
    have ea := S_of_nonneg ha (by omega)
    rw [ea]; simp only [Int.toNat_natCast]
    congr 1
    by_cases hc : 1 ≤ U w a
    · rw [if_pos hc, if_pos (by omega)]
    · rw [if_neg hc, if_neg (by omega)]

theorem ilog_spec {w n : Nat} (hw : 2 ≤ w) (hn : 1 ≤ n) (hD : UDivSpec w n)
    (hW : w * n < 2 ^ 32) {a b : List Nat} (ha : WF w n a) (hb : WF w n b) (dbg : Bool) :
    ilog dbg w a b =
      if 1 ≤ S w a ∧ 2 ≤ S w b then .ok (Nat.log (S w b).toNat (S w a).toNat) else .panic := by
  have hw1 : 1 ≤ w := by omega
  unfold ilog
  rw [ha.1, isNegative_eq_decide hw1 hn ha]
  have h1 := Ilog.ile_iff hw1 hn hb (WF_one hw1 hn)
  rw [S_one hw hn] at h1
  by_cases hb1 : S w b ≤ 1
  · rw [if_pos (h1.2 hb1), if_neg (by omega)]
  · rw [if_neg (by rw [h1]; exact hb1)]
    by_cases hneg : S w a < 0
    · rw [if_pos (by simpa using hneg), if_neg (by omega)]
    · rw [if_neg (by simpa using hneg), UI.ilog_spec hw hn hD hW ha hb dbg]
      have ea := S_of_nonneg ha (by omega)
      have eb := S_of_nonneg hb (by omega)
      rw [ea, eb]; simp only [Int.toNat_natCast]
      by_cases hc : 1 ≤ U w a ∧ 2 ≤ U w b
      · rw [if_pos hc, if_pos (by omega)]
      · rw [if_neg hc, if_neg (by omega)]

theorem ilog2_spec {w n : Nat} (hw : 2 ≤ w) (hn : 1 ≤ n) {a : List Nat} (ha : WF w n a) :
    ilog2 w a = if 1 ≤ S w a then .ok (Nat.log 2 (S w a).toNat) else .panic := by
  have hw1 : 1 ≤ w := by omega
  unfold ilog2
  rw [isNegative_eq_decide hw1 hn ha]
  by_cases hneg : S w a < 0
  · rw [if_pos (by simpa using hneg), if_neg (by omega)]
  · rw [if_neg (by simpa using hneg), UI.ilog2_spec ha]
    have ea := S_of_nonneg ha (by omega)
    rw [ea]; simp only [Int.toNat_natCast]
    by_cases hc : 1 ≤ U w a
    · rw [if_pos hc, if_pos (by omega)]
    · rw [if_neg hc, if_neg (by omega)]

theorem ilog10_spec {w n : Nat} (hw : 2 ≤ w) (h10 : 10 < B w) (hn : 1 ≤ n)
    (hD : UDivSpec w n) (hW : w * n < 2 ^ 32) {a : List Nat} (ha : WF w n a) (dbg : Bool) :
    ilog10 dbg w a = if 1 ≤ S w a then .ok (Nat.log 10 (S w a).toNat) else .panic := by
  have hw1 : 1 ≤ w := by omega
  unfold ilog10
  rw [isNegative_eq_decide hw1 hn ha]
  by_cases hneg : S w a < 0
  · rw [if_pos (by simpa using hneg), if_neg (by omega)]
  · rw [if_neg (by simpa using hneg), UI.ilog10_spec h10 hn hD hW ha dbg]
    have ea := S_of_nonneg ha (by omega)
    rw [ea]; simp only [Int.toNat_natCast]
    by_cases hc : 1 ≤ U w a
    · rw [if_pos hc, if_pos (by omega)]
    · rw [if_neg hc, if_neg (by omega)]

end II

namespace Pow
open Spec

/-! ## D. the executable specifications of Spec/Pow.lean compute the mathematical objects -/

theorem ilog_eq_log (b : Nat) : ∀ a : Nat, ilog b a = Nat.log b a := by
  intro a
  induction a using Nat.strong_induction_on with
  | _ a ih =>
    rw [ilog]
    by_cases h : b ≤ a ∧ 2 ≤ b
    · rw [dif_pos h, ih (a / b) (Nat.div_lt_self (by omega) (by omega)),
        Nat.log_of_one_lt_of_le (by omega) h.1]
    · rw [dif_neg h]
      by_cases hb : 2 ≤ b
      · rw [Nat.log_of_lt (by omega)]
      · rw [Nat.log_of_left_le_one (by omega)]

theorem powMod_eq (m a : Nat) : ∀ e : Nat, powMod m a e = a ^ e % m := by
  intro e
  induction e using Nat.strong_induction_on with
  | _ e ih =>
    rw [powMod]
    by_cases h : e = 0
    · rw [dif_pos h, h, Nat.pow_zero]
    · rw [dif_neg h]
      simp only
      rw [ih (e / 2) (by omega), ← Nat.mul_mod, ← Nat.pow_add]
      by_cases ho : e % 2 = 1
      · rw [if_pos ho, Nat.mod_mul_mod, ← Nat.pow_succ]
        congr 2; omega
      · rw [if_neg ho]; congr 2; omega

theorem powCappedLoop_gt (cap a : Nat) (ha : 1 ≤ a) : ∀ (e acc : Nat),
    (cap < powCappedLoop cap a e acc ↔ cap < acc * a ^ e) ∧
    (acc * a ^ e ≤ cap → powCappedLoop cap a e acc = acc * a ^ e)
  | 0, acc => by simp [powCappedLoop]
  | e + 1, acc => by
    unfold powCappedLoop
    have hmono : acc ≤ acc * a ^ (e + 1) := Nat.le_mul_of_pos_right _ (Nat.pow_pos ha)
    by_cases h : cap < acc
    · rw [if_pos h]
      exact ⟨⟨fun _ => by omega, fun _ => h⟩, fun hc => by omega⟩
    · rw [if_neg h]
      have := powCappedLoop_gt cap a ha e (acc * a)
      rw [show acc * a * a ^ e = acc * a ^ (e + 1) by rw [Nat.pow_succ]; ring] at this
      exact this

/-- the early cut-off decides the comparison with the exact power -/
theorem powCapped_gt_iff (cap a e : Nat) : cap < powCapped cap a e ↔ cap < a ^ e := by
  unfold powCapped
  by_cases h0 : a = 0
  · rw [if_pos h0, h0]
    by_cases he : e = 0
    · rw [if_pos he, he]; simp
    · rw [if_neg he, Nat.zero_pow (by omega)]
  · rw [if_neg h0]
    by_cases h1 : a = 1
    · rw [if_pos h1, h1, Nat.one_pow]
    · rw [if_neg h1, (powCappedLoop_gt cap a (by omega) e 1).1, Nat.one_mul]

/-- `powWrapped` is the pattern of the exact power -/
theorem powWrapped_eq {m : Nat} (hm : 0 < m) (a : Int) (e : Nat) :
    powWrapped m a e = wrapU m (a ^ e) := by
  unfold powWrapped
  rw [powMod_eq]
  obtain ⟨k, hk⟩ := wrapU_spec hm a
  obtain ⟨j, hj⟩ := Pow.pow_congr (wrapU m a) k m e
  rw [← hk] at hj
  rw [hj, wrapU_add_mul, ← Int.natCast_pow, wrapU_natCast]

theorem dec_not {P Q : Prop} [Decidable P] [Decidable Q] (h : P ↔ ¬ Q) :
    decide P = !decide Q := by
  by_cases hq : Q <;> simp_all

/-- `powOverflows` decides representability of the exact power (unsigned: for a non-negative base) -/
theorem powOverflows_eq {signed : Bool} {m : Nat} (hm : 0 < m) (he2 : m = 2 * (m / 2)) (a : Int)
    (e : Nat) (hu : signed = false → 0 ≤ a) :
    powOverflows signed m a e = !rep signed m (a ^ e) := by
  unfold powOverflows rep
  cases signed
  · have ha := hu rfl
    simp only [Bool.false_eq_true, if_false]
    simp only [powCapped_gt_iff]
    rw [Pow.int_pow_nonneg a e (by omega)]
    generalize a.natAbs ^ e = P
    apply dec_not; unfold repU
    constructor <;> intro _ <;> omega
  · simp only [if_true]
    by_cases hneg : a < 0 ∧ e % 2 = 1
    · rw [if_pos hneg]; simp only [powCapped_gt_iff]
      rw [Pow.int_pow_neg a e hneg.1 hneg.2]
      generalize a.natAbs ^ e = P
      apply dec_not; unfold repS
      constructor <;> intro _ <;> omega
    · rw [if_neg hneg]; simp only [powCapped_gt_iff]
      rw [Pow.int_pow_nonneg a e hneg]
      generalize a.natAbs ^ e = P
      apply dec_not; unfold repS
      constructor <;> intro _ <;> omega

/-- the executable `Spec.overflowingPow` is `Spec.overflowing` of the exact power -/
theorem spec_overflowingPow_eq {signed : Bool} {m : Nat} (hm : 0 < m) (he2 : m = 2 * (m / 2)) (a : Int)
    (e : Nat) (hu : signed = false → 0 ≤ a) :
    overflowingPow signed m a e = overflowing signed m (a ^ e) := by
  unfold overflowingPow overflowing
  rw [powWrapped_eq hm, powOverflows_eq hm he2 a e hu]

theorem spec_checkedPow_eq {signed : Bool} {m : Nat} (hm : 0 < m) (he2 : m = 2 * (m / 2)) (a : Int)
    (e : Nat) (hu : signed = false → 0 ≤ a) :
    checkedPow signed m a e = checked signed m (a ^ e) := by
  unfold checkedPow checked
  rw [powWrapped_eq hm, powOverflows_eq hm he2 a e hu]
  cases rep signed m (a ^ e) <;> rfl

end Pow

namespace Pow

/-! ### the fuel-exhausted equations of the three loops are dead code -/

theorem loopO_step {w : Nat} (f : Nat) (x y : List Nat) (ov : Bool) (pow : Nat) :
    UI.powLoopO w (f + 1) x y ov pow =
      if pow > 1 then
        UI.powLoopO w f (UI.overflowingMul w x x).1
          (if pow &&& 1 == 1 then ((UI.overflowingMul w y x).1, ov || (UI.overflowingMul w y x).2)
            else (y, ov)).1
          ((if pow &&& 1 == 1 then ((UI.overflowingMul w y x).1, ov || (UI.overflowingMul w y x).2)
            else (y, ov)).2 || (UI.overflowingMul w x x).2) (pow >>> 1)
      else (x, y, ov) := rfl

theorem loopO_fuel {w : Nat} : ∀ (f : Nat) (x y : List Nat) (ov : Bool) (pow : Nat), pow ≤ f + 1 →
    UI.powLoopO w (f + 1) x y ov pow = UI.powLoopO w f x y ov pow
  | 0, x, y, ov, pow, h => by
    rw [loopO_step, if_neg (by omega)]; rfl
  | f + 1, x, y, ov, pow, h => by
    rw [loopO_step (f + 1) x y ov pow, loopO_step f x y ov pow]
    by_cases hp : pow > 1
    · rw [if_pos hp, if_pos hp]
      exact loopO_fuel f _ _ _ _ (by rw [shr_one]; omega)
    · rw [if_neg hp, if_neg hp]

/-- any fuel `≥ pow - 1` gives the same result as the fuel `pow` used by `overflowing_pow` -/
theorem loopO_fuel_irrel {w : Nat} (x y : List Nat) (ov : Bool) (pow : Nat) : ∀ d : Nat,
    UI.powLoopO w (pow + d) x y ov pow = UI.powLoopO w pow x y ov pow
  | 0 => rfl
  | d + 1 => by
    rw [← Nat.add_assoc, loopO_fuel _ _ _ _ _ (by omega)]; exact loopO_fuel_irrel x y ov pow d

end Pow

namespace UI

/-- `checked_pow` on naturals -/
theorem checkedPow_nat {w n : Nat} {a : List Nat} (hw : 1 ≤ w) (hn : 1 ≤ n) (ha : WF w n a)
    (e : Nat) :
    (checkedPow w a e = none ↔ M w n ≤ U w a ^ e) ∧
    (∀ r, checkedPow w a e = some r → WF w n r ∧ U w r = U w a ^ e) := by
  obtain ⟨h1, h2, h3⟩ := u_overflowingPow_nat hw hn ha e
  rw [checkedPow_eq hw hn ha]
  refine ⟨by rw [tupleToOption_none_iff, h3], ?_⟩
  intro r hr
  rw [tupleToOption_some_iff] at hr
  obtain ⟨hf, rfl⟩ := hr
  have : ¬ M w n ≤ U w a ^ e := fun hc => by rw [h3.2 hc] at hf; cases hf
  exact ⟨h1, by rw [h2, Nat.mod_eq_of_lt (by omega)]⟩

/-- `checked_pow` returns `Some` exactly when the power fits -/
theorem checkedPow_isSome_iff {w n : Nat} {a : List Nat} (hw : 1 ≤ w) (hn : 1 ≤ n) (ha : WF w n a)
    (e : Nat) : (∃ r, checkedPow w a e = some r) ↔ U w a ^ e < M w n := by
  obtain ⟨h1, _⟩ := checkedPow_nat hw hn ha e
  constructor
  · rintro ⟨r, hr⟩
    by_contra hc
    rw [h1.2 (by omega)] at hr; cases hr
  · intro hlt
    cases hc : checkedPow w a e with
    | none => have := h1.1 hc; omega
    | some r => exact ⟨r, rfl⟩

theorem strictPow_nat {w n : Nat} {a : List Nat} (hw : 1 ≤ w) (hn : 1 ≤ n) (ha : WF w n a)
    (e : Nat) :
    (strictPow w a e = .panic ↔ M w n ≤ U w a ^ e) ∧
    (∀ r, strictPow w a e = .ok r → WF w n r ∧ U w r = U w a ^ e) := by
  obtain ⟨h1, h2⟩ := checkedPow_nat hw hn ha e
  unfold strictPow
  exact ⟨by rw [expect_panic_iff, h1], fun r hr => h2 r ((expect_ok_iff _ _).1 hr)⟩

end UI

namespace Ilog
/-- `Nat.log b a` is the greatest `k` with `b ^ k ≤ a` -/
theorem log_greatest {b a : Nat} (hb : 2 ≤ b) (ha : 1 ≤ a) :
    b ^ Nat.log b a ≤ a ∧ ∀ k, b ^ k ≤ a → k ≤ Nat.log b a :=
  ⟨Nat.pow_log_le_self b (by omega),
   fun _ hk => (Nat.le_log_iff_pow_le (by omega) (by omega)).2 hk⟩
end Ilog
end Bnum
