/-
  Bnum.Lemmas.Pow — C08: powers and integer logarithms.

  Unsigned pow.  Loop invariant of the square-and-multiply loop on EXACT naturals `X`, `Y`
  (`Pow.Inv`): `U x = X mod M`, `U y = Y mod M`, `Y * X ^ pow = A` (`A = a ^ e`), `1 ≤ pow`,
  `1 ≤ Y ∨ X = 0`, and for the sticky flag: `ov → M ≤ A`, `¬ov → X < M ∧ Y < M` (so while no
  overflow has been seen the registers hold the exact values).  Every intermediate product
  (`Y * X`, `X * X`) is `≤ Y * X ^ pow = A`, hence an intermediate overflow implies `M ≤ A`.
  The three separately written loops are related by `Pow.loopW_eq` / `Pow.loopC_eq`.
-/
import Bnum.Model.Pow
import Bnum.Spec.Pow
import Bnum.Lemmas.Mul
import Bnum.Lemmas.Div
import Bnum.Lemmas.Bits
import Mathlib.Data.Nat.Log

namespace Bnum

/-! ## A. unsigned `pow` -/

namespace Pow

theorem omul {w n : Nat} {a b : List Nat} (ha : WF w n a) (hb : WF w n b) :
    WF w n (UI.overflowingMul w a b).1 ∧
    U w (UI.overflowingMul w a b).1 = (U w a * U w b) % M w n ∧
    ((UI.overflowingMul w a b).2 = true ↔ M w n ≤ U w a * U w b) := by
  obtain ⟨h1, h2, h3⟩ := UI.u_longMul_spec ha hb
  exact ⟨h3, h1, h2⟩

theorem omul_comm {w n : Nat} {a b : List Nat} (ha : WF w n a) (hb : WF w n b) :
    UI.overflowingMul w a b = UI.overflowingMul w b a := by
  obtain ⟨h1, h2, h3⟩ := omul ha hb
  obtain ⟨g1, g2, g3⟩ := omul hb ha
  apply Prod.ext
  · exact U_injective h1 g1 (by rw [h2, g2, Nat.mul_comm])
  · rw [Bool.eq_iff_iff, h3, g3, Nat.mul_comm]

theorem and_one_beq (p : Nat) : (p &&& 1 == 1) = decide (p % 2 = 1) := by
  rw [Nat.and_one_is_mod]; rfl

theorem shr_one (p : Nat) : p >>> 1 = p / 2 := by
  rw [Nat.shiftRight_eq_div_pow]

/-- the loop invariant (see the header) -/
def Inv (w n A : Nat) (x y : List Nat) (ov : Bool) (pow : Nat) : Prop :=
  WF w n x ∧ WF w n y ∧ 1 ≤ pow ∧ ∃ X Y : Nat, U w x = X % M w n ∧ U w y = Y % M w n ∧
    Y * X ^ pow = A ∧ (1 ≤ Y ∨ X = 0) ∧ (ov = true → M w n ≤ A) ∧
    (ov = false → X < M w n ∧ Y < M w n)

theorem sq_le_of {X Y p : Nat} (hp : 2 ≤ p) (hY : 1 ≤ Y ∨ X = 0) : X * X ≤ Y * X ^ p := by
  rcases hY with hY | rfl
  · rcases Nat.eq_zero_or_pos X with rfl | hX
    · simp
    · calc X * X = 1 * X ^ 2 := by ring
        _ ≤ Y * X ^ p := Nat.mul_le_mul hY (Nat.pow_le_pow_right hX hp)
  · simp

theorem mul_le_of {X Y p : Nat} (hp : 1 ≤ p) : Y * X ≤ Y * X ^ p :=
  Nat.mul_le_mul_left _ (Nat.le_self_pow (by omega) X)

/-- one iteration with an odd exponent -/
theorem inv_step_odd {w n A : Nat} {x y : List Nat} {ov : Bool} {pow : Nat}
    (h : Inv w n A x y ov pow) (hp : 1 < pow) (ho : pow % 2 = 1) :
    Inv w n A (UI.overflowingMul w x x).1 (UI.overflowingMul w y x).1
      ((ov || (UI.overflowingMul w y x).2) || (UI.overflowingMul w x x).2) (pow / 2) := by
  obtain ⟨hx, hy, _, X, Y, eX, eY, hA, hY, h1, h2⟩ := h
  obtain ⟨a1, a2, a3⟩ := omul hy hx
  obtain ⟨b1, b2, b3⟩ := omul hx hx
  refine ⟨b1, a1, by omega, X * X, Y * X, ?_, ?_, ?_, ?_, ?_, ?_⟩
  · rw [b2, eX, ← Nat.mul_mod]
  · rw [a2, eY, eX, ← Nat.mul_mod]
  · rw [← hA]
    have : pow = 2 * (pow / 2) + 1 := by omega
    conv => rhs; rw [this]
    rw [Nat.pow_succ, Nat.pow_mul]; ring
  · rcases hY with hY | rfl
    · rcases Nat.eq_zero_or_pos X with rfl | hX
      · right; rfl
      · left; exact Nat.mul_pos hY hX
    · right; rfl
  · intro hov
    cases hv : ov
    · obtain ⟨l1, l2⟩ := h2 hv
      rw [Nat.mod_eq_of_lt l1] at eX; rw [Nat.mod_eq_of_lt l2] at eY
      rw [hv, Bool.false_or, Bool.or_eq_true, a3, b3, eX, eY] at hov
      rw [← hA]
      rcases hov with hov | hov
      · exact Nat.le_trans hov (mul_le_of (by omega))
      · exact Nat.le_trans hov (sq_le_of (by omega) hY)
    · exact h1 hv
  · intro hov
    rw [Bool.or_eq_false_iff, Bool.or_eq_false_iff] at hov
    obtain ⟨⟨hv, o1⟩, o2⟩ := hov
    obtain ⟨l1, l2⟩ := h2 hv
    rw [Nat.mod_eq_of_lt l1] at eX; rw [Nat.mod_eq_of_lt l2] at eY
    have n1 : ¬ M w n ≤ U w y * U w x := fun hc => by rw [a3.2 hc] at o1; cases o1
    have n2 : ¬ M w n ≤ U w x * U w x := fun hc => by rw [b3.2 hc] at o2; cases o2
    rw [eX, eY] at n1; rw [eX] at n2
    omega

/-- one iteration with an even exponent -/
theorem inv_step_even {w n A : Nat} {x y : List Nat} {ov : Bool} {pow : Nat}
    (h : Inv w n A x y ov pow) (hp : 1 < pow) (ho : ¬ pow % 2 = 1) :
    Inv w n A (UI.overflowingMul w x x).1 y (ov || (UI.overflowingMul w x x).2) (pow / 2) := by
  obtain ⟨hx, hy, _, X, Y, eX, eY, hA, hY, h1, h2⟩ := h
  obtain ⟨b1, b2, b3⟩ := omul hx hx
  refine ⟨b1, hy, by omega, X * X, Y, ?_, eY, ?_, ?_, ?_, ?_⟩
  · rw [b2, eX, ← Nat.mul_mod]
  · rw [← hA]
    have : pow = 2 * (pow / 2) := by omega
    conv => rhs; rw [this]
    rw [Nat.pow_mul]; ring
  · rcases hY with hY | rfl
    · left; exact hY
    · right; rfl
  · intro hov
    cases hv : ov
    · obtain ⟨l1, l2⟩ := h2 hv
      rw [Nat.mod_eq_of_lt l1] at eX
      rw [hv, Bool.false_or, b3, eX] at hov
      rw [← hA]
      exact Nat.le_trans hov (sq_le_of (by omega) hY)
    · exact h1 hv
  · intro hov
    rw [Bool.or_eq_false_iff] at hov
    obtain ⟨hv, o2⟩ := hov
    obtain ⟨l1, l2⟩ := h2 hv
    rw [Nat.mod_eq_of_lt l1] at eX
    have n2 : ¬ M w n ≤ U w x * U w x := fun hc => by rw [b3.2 hc] at o2; cases o2
    rw [eX] at n2
    exact ⟨by omega, l2⟩

/-- the `overflowing_pow` loop establishes the invariant with `pow = 1` -/
theorem loopO_inv {w n A : Nat} : ∀ (f : Nat) (x y : List Nat) (ov : Bool) (pow : Nat),
    pow ≤ f + 1 → Inv w n A x y ov pow →
    Inv w n A (UI.powLoopO w f x y ov pow).1 (UI.powLoopO w f x y ov pow).2.1
      (UI.powLoopO w f x y ov pow).2.2 1
  | 0, x, y, ov, pow, hf, h => by
    have : pow = 1 := by have := h.2.2.1; omega
    subst this; exact h
  | f + 1, x, y, ov, pow, hf, h => by
    unfold UI.powLoopO
    by_cases hp : pow > 1
    · rw [if_pos hp, and_one_beq, shr_one]
      by_cases ho : pow % 2 = 1
      · simp only [ho, decide_true, if_true]
        exact loopO_inv f _ _ _ _ (by omega) (inv_step_odd h hp ho)
      · simp only [ho, decide_false, Bool.false_eq_true, if_false]
        exact loopO_inv f _ _ _ _ (by omega) (inv_step_even h hp ho)
    · rw [if_neg hp]
      have : pow = 1 := by have := h.2.2.1; omega
      subst this; exact h

end Pow

namespace UI

/-- `BUint::overflowing_pow` on naturals: the value is `a ^ e mod 2^BITS` (in particular `0 ^ 0 = 1`),
    the flag is set exactly when `a ^ e` does not fit -/
theorem u_overflowingPow_nat {w n : Nat} {a : List Nat} (hw : 1 ≤ w) (hn : 1 ≤ n) (ha : WF w n a)
    (e : Nat) :
    WF w n (overflowingPow w a e).1 ∧
    U w (overflowingPow w a e).1 = (U w a ^ e) % M w n ∧
    ((overflowingPow w a e).2 = true ↔ M w n ≤ U w a ^ e) := by
  have hM2 : 2 ≤ M w n := by
    have := B_ge_two hw
    obtain ⟨k, rfl⟩ : ∃ k, n = k + 1 := ⟨n - 1, by omega⟩
    rw [M_succ]; have := M_pos w k
    calc 2 = 2 * 1 := rfl
      _ ≤ B w * M w k := Nat.mul_le_mul ‹2 ≤ B w› this
  unfold overflowingPow
  by_cases he : e = 0
  · subst he
    simp only [beq_self_eq_true, if_true, Nat.pow_zero]
    rw [ha.1]
    refine ⟨WF_one hw hn, ?_, ?_⟩
    · rw [U_one hn, Nat.mod_eq_of_lt (by omega)]
    · simp; omega
  · have he' : (e == 0) = false := by simpa using he
    simp only [he', Bool.false_eq_true, if_false]
    rw [ha.1]
    have h0 : Pow.Inv w n (U w a ^ e) a (one n) false e :=
      ⟨ha, WF_one hw hn, by omega, U w a, 1, (Nat.mod_eq_of_lt (U_lt ha)).symm,
        by rw [U_one hn, Nat.mod_eq_of_lt (by omega)], by simp, Or.inl (Nat.le_refl 1),
        by simp, fun _ => ⟨U_lt ha, by omega⟩⟩
    obtain ⟨hx, hy, _, X, Y, eX, eY, hA, hY, h1, h2⟩ := Pow.loopO_inv e a (one n) false e (by omega) h0
    generalize (powLoopO w e a (one n) false e).1 = x at *
    generalize (powLoopO w e a (one n) false e).2.1 = y at *
    generalize (powLoopO w e a (one n) false e).2.2 = ov at *
    obtain ⟨c1, c2, c3⟩ := Pow.omul hx hy
    rw [Nat.pow_one] at hA
    refine ⟨c1, ?_, ?_⟩
    · rw [c2, eX, eY, ← Nat.mul_mod, ← hA, Nat.mul_comm]
    · rw [Bool.or_eq_true, c3]
      cases hv : ov
      · obtain ⟨l1, l2⟩ := h2 hv
        rw [Nat.mod_eq_of_lt l1] at eX; rw [Nat.mod_eq_of_lt l2] at eY
        rw [eX, eY, ← hA, Nat.mul_comm]; simp
      · have := h1 hv; simp [this]


/-- `overflowing_pow` in the common `OvfU` shape -/
theorem overflowingPow_spec {w n : Nat} {a : List Nat} (hw : 1 ≤ w) (hn : 1 ≤ n) (ha : WF w n a)
    (e : Nat) : OvfU w n (overflowingPow w a e) ((U w a : Int) ^ e) := by
  obtain ⟨h1, h2, h3⟩ := u_overflowingPow_nat hw hn ha e
  refine ⟨h1, ?_, ?_⟩
  · rw [h2, ← Int.natCast_pow, wrapU_natCast]
  · apply bool_eq_decide
    rw [h3]; unfold repU
    rw [← Int.natCast_pow]
    constructor
    · intro h hc; have := hc.2; omega
    · intro h; by_contra hc; exact h ⟨by omega, by omega⟩

end UI

/-! ### the three separately written loops agree -/
namespace Pow

theorem loopO_sticky {w : Nat} : ∀ (f : Nat) (x y : List Nat) (pow : Nat),
    (UI.powLoopO w f x y true pow).2.2 = true
  | 0, _, _, _ => rfl
  | f + 1, x, y, pow => by
    unfold UI.powLoopO
    by_cases hp : pow > 1
    · rw [if_pos hp]
      by_cases ho : (pow &&& 1 == 1) = true
      · simp only [ho, if_true, Bool.true_or]; exact loopO_sticky f _ _ _
      · simp only [ho, Bool.false_eq_true, if_false, Bool.true_or]; exact loopO_sticky f _ _ _
    · rw [if_neg hp]

theorem loopW_eq {w n : Nat} : ∀ (f : Nat) (x y : List Nat) (ov : Bool) (pow : Nat),
    WF w n x → WF w n y →
    UI.powLoopW w f x y pow = ((UI.powLoopO w f x y ov pow).1, (UI.powLoopO w f x y ov pow).2.1)
  | 0, _, _, _, _, _, _ => rfl
  | f + 1, x, y, ov, pow, hx, hy => by
    unfold UI.powLoopW UI.powLoopO
    by_cases hp : pow > 1
    · rw [if_pos hp, if_pos hp]
      have e1 : UI.wrappingMul w x y = (UI.overflowingMul w y x).1 := by
        unfold UI.wrappingMul; rw [omul_comm hx hy]
      by_cases ho : (pow &&& 1 == 1) = true
      · simp only [ho, if_true]; rw [e1]
        exact loopW_eq f _ _ _ _ (omul hx hx).1 (omul hy hx).1
      · simp only [ho, Bool.false_eq_true, if_false]
        exact loopW_eq f _ _ _ _ (omul hx hx).1 hy
    · rw [if_neg hp, if_neg hp]

theorem loopC_eq {w n : Nat} : ∀ (f : Nat) (x y : List Nat) (pow : Nat),
    WF w n x → WF w n y →
    UI.powLoopC w f x y pow =
      if (UI.powLoopO w f x y false pow).2.2 = true then none
      else some ((UI.powLoopO w f x y false pow).1, (UI.powLoopO w f x y false pow).2.1)
  | 0, _, _, _, _, _ => by simp [UI.powLoopC, UI.powLoopO]
  | f + 1, x, y, pow, hx, hy => by
    unfold UI.powLoopC UI.powLoopO
    by_cases hp : pow > 1
    · rw [if_pos hp, if_pos hp]
      have e1 : UI.checkedMul w x y = tupleToOption (UI.overflowingMul w y x) := by
        unfold UI.checkedMul; rw [omul_comm hx hy]
      have e2 : UI.checkedMul w x x = tupleToOption (UI.overflowingMul w x x) := rfl
      rw [e1, e2]
      by_cases ho : (pow &&& 1 == 1) = true
      · simp only [ho, if_true, Bool.false_or]
        cases h1 : (UI.overflowingMul w y x).2
        · cases h2 : (UI.overflowingMul w x x).2
          · simp only [tupleToOption, h1, h2, Bool.false_eq_true, if_false, Bool.or_false]
            exact loopC_eq f _ _ _ (omul hx hx).1 (omul hy hx).1
          · simp only [tupleToOption, h1, h2, Bool.false_eq_true, if_false, if_true, Bool.or_true,
              loopO_sticky]
        · simp only [tupleToOption, h1, if_true, Bool.true_or, loopO_sticky]
      · simp only [ho, Bool.false_eq_true, if_false, Bool.false_or]
        cases h2 : (UI.overflowingMul w x x).2
        · simp only [tupleToOption, h2, Bool.false_eq_true, if_false]
          exact loopC_eq f _ _ _ (omul hx hx).1 hy
        · simp only [tupleToOption, h2, if_true, loopO_sticky]
    · rw [if_neg hp, if_neg hp]; simp

end Pow

namespace UI

/-- `wrapping_pow` (its own loop) computes the first component of `overflowing_pow` -/
theorem wrappingPow_eq {w n : Nat} {a : List Nat} (hw : 1 ≤ w) (hn : 1 ≤ n) (ha : WF w n a)
    (e : Nat) : wrappingPow w a e = (overflowingPow w a e).1 := by
  unfold wrappingPow overflowingPow
  by_cases he : (e == 0) = true
  · simp only [he, if_true]
  · simp only [he, Bool.false_eq_true, if_false]
    rw [Pow.loopW_eq e a (one a.length) false e ha (by rw [ha.1]; exact WF_one hw hn)]
    rfl

/-- `checked_pow` (its own loop, with early `return None`) is the projection of `overflowing_pow` -/
theorem checkedPow_eq {w n : Nat} {a : List Nat} (hw : 1 ≤ w) (hn : 1 ≤ n) (ha : WF w n a)
    (e : Nat) : checkedPow w a e = tupleToOption (overflowingPow w a e) := by
  unfold checkedPow overflowingPow
  by_cases he : (e == 0) = true
  · simp only [he, if_true]; rfl
  · simp only [he, Bool.false_eq_true, if_false]
    rw [Pow.loopC_eq e a (one a.length) e ha (by rw [ha.1]; exact WF_one hw hn)]
    cases hv : (powLoopO w e a (one a.length) false e).2.2
    · simp only [Bool.false_eq_true, if_false, Bool.or_false]; rfl
    · simp only [if_true, Bool.or_true]; rfl

end UI
end Bnum
