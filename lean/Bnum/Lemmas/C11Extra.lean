/-
  Bnum.Lemmas.C11Extra — helpers for the additional C11 theorems: the remaining string-parsing entry points
  (`parse_bytes`, `FromStr`, `parse_str_radix`) applied to a string on which `from_str_radix` succeeds, and
  "the canonical numeral is ASCII".
-/
import Bnum.Lemmas.Radix
namespace Bnum
open Bnum.Radix Bnum.Spec.Radix

/-- every byte of a canonical numeral (radix `≤ 36`) is ASCII -/
theorem canonStr_ascii {r : Nat} (hr : 2 ≤ r) (hr36 : r ≤ 36) (z : Int) : ∀ b ∈ canonStr r z, b < 128 :=
  Grammar_ascii (Grammar_canonStr hr hr36 true z (Or.inl rfl))

theorem canonStr_utf8Valid {r : Nat} (hr : 2 ≤ r) (hr36 : r ≤ 36) (z : Int) :
    Prim.utf8Valid (canonStr r z) = true := ascii_utf8Valid _ (canonStr_ascii hr hr36 z)

/-- the unsigned numeral is the canonical string of the non-negative value -/
theorem canonStr_ofNat (r v : Nat) : canonStr r (v : Int) = (canonBE r v).map digitChar := by
  unfold canonStr; rw [if_neg (by omega)]; rfl

/-- the properties of the canonical string listed by C11 (used by `C11.canonStr_props`) -/
theorem canonStr_props {r : Nat} (hr : 2 ≤ r) (hr36 : r ≤ 36) (z : Int) :
    canonStr r 0 = [48] ∧
    (z < 0 → canonStr r z = 45 :: canonStr r (-z)) ∧
    (0 ≤ z → (canonStr r z).head? ≠ some 45) ∧
    (0 < z → (canonStr r z).head? ≠ some 48) ∧
    (∀ b ∈ canonStr r z, b = 45 ∨ (48 ≤ b ∧ b ≤ 57) ∨ (97 ≤ b ∧ b ≤ 122)) ∧
    (∃ g, Grammar r true (canonStr r z) = some g ∧ denote r g = z) := by
  have hdc : ∀ v, ∀ b ∈ (canonBE r v).map digitChar, (48 ≤ b ∧ b ≤ 57) ∨ (97 ≤ b ∧ b ≤ 122) := by
    intro v b hb
    obtain ⟨d, hd, rfl⟩ := List.mem_map.mp hb
    have : d < r := canonLE_lt hr d (by unfold canonBE at hd; simpa using hd)
    unfold digitChar; split <;> omega
  have hhead : ∀ v, v ≠ 0 → ((canonBE r v).map digitChar).head? ≠ some 48 := by
    intro v hv h
    have hl := canonLE_getLast hr hv
    unfold canonBE at h
    rw [List.head?_map, List.head?_reverse] at h
    cases hg : (canonLE r v).getLast? with
    | none => rw [hg] at h; cases h
    | some d =>
      rw [hg] at h
      have hd : d < r := canonLE_lt hr d (List.mem_of_getLast? hg)
      simp only [Option.map_some, Option.some.injEq] at h
      have : d = 0 := by unfold digitChar at h; split at h <;> omega
      exact hl (by rw [hg, this])
  refine ⟨by simp [canonStr, canonBE, canonLE, digitChar], ?_, ?_, ?_, ?_, ?_⟩
  · intro hz
    have hn : ¬ (-z < 0) := by omega
    unfold canonStr; rw [if_pos hz, if_neg hn, Int.natAbs_neg]
  · intro hz h
    unfold canonStr at h; rw [if_neg (by omega)] at h
    cases hl : (canonBE r z.natAbs).map digitChar with
    | nil => rw [hl] at h; cases h
    | cons b bs =>
      rw [hl] at h
      have := hdc z.natAbs b (by rw [hl]; simp)
      simp only [List.head?_cons, Option.some.injEq] at h
      omega
  · intro hz
    unfold canonStr; rw [if_neg (by omega)]
    exact hhead z.natAbs (by omega)
  · intro b hb
    unfold canonStr at hb
    split at hb
    · rcases List.mem_cons.mp hb with h | h
      · exact Or.inl h
      · exact Or.inr (hdc _ b h)
    · exact Or.inr (hdc _ b hb)
  · exact ⟨_, Grammar_canonStr hr hr36 true z (Or.inl rfl), denote_canon hr z⟩

theorem UI.parseBytes_of_ok {w n r : Nat} {s x : List Nat} (hu : Prim.utf8Valid s = true)
    (h : UI.fromStrRadix w n s r = .ok (.ok x)) : UI.parseBytes w n s r = .ok (some x) := by
  unfold UI.parseBytes; rw [hu, h]; rfl

theorem II.parseBytes_of_ok {w n r : Nat} {s x : List Nat} (hu : Prim.utf8Valid s = true)
    (h : II.fromStrRadix w n s r = .ok (.ok x)) : II.parseBytes w n s r = .ok (some x) := by
  unfold II.parseBytes; rw [hu, h]; rfl

theorem UI.parseStrRadix_of_ok {w n r : Nat} {s x : List Nat}
    (h : UI.fromStrRadix w n s r = .ok (.ok x)) : UI.parseStrRadix w n s r = .ok x := by
  unfold UI.parseStrRadix; rw [h]

theorem II.parseStrRadix_of_ok {w n r : Nat} {s x : List Nat}
    (h : II.fromStrRadix w n s r = .ok (.ok x)) : II.parseStrRadix w n s r = .ok x := by
  unfold II.parseStrRadix; rw [h]

/-- a composed request `print.bind parse` whose printing half is known -/
theorem Outcome.bind_ok_eq {α β} {p : Outcome α} {a : α} (f : α → Outcome β) (hp : p = .ok a) :
    p.bind f = f a := by subst hp; rfl

theorem Outcome.bind_panic_iff {α β} (p : Outcome α) (f : α → Outcome β) (hf : ∀ a, f a ≠ .panic) :
    p.bind f = .panic ↔ p = .panic := by
  cases p with
  | ok a => simp [Outcome.bind, hf a]
  | panic => simp [Outcome.bind]

end Bnum
