/-
  Bnum.Lemmas.C10Extra — helper lemmas for the C10 theorems added after the gap audit:
  * `utf8_valid_eq`: the definitional UTF-8 validator `Spec.Utf8.valid` (decode the scalar value, test
    shortest form / surrogates / U+10FFFF) agrees with `Prim.utf8Valid` (Unicode Table 3-7) on every
    byte list;
  * `U_eq_iff_S_eq_wrapS`: a bit pattern has unsigned value `v < 2^BITS` iff its two's-complement value
    is `wrapS (2^BITS) v` (used to restate `from_radix_be/le` for `BInt`).
-/
import Bnum.Lemmas.Radix
import Bnum.Spec.C10Extra
namespace Bnum
open Bnum.Spec

namespace Utf8Eq
theorem and_congr_left {a b c : Bool} (h : a = b) : (a && c) = (b && c) := by rw [h]

theorem cont_of {b : Nat} (h : 0x80 ≤ b ∧ b < 0xC0) : Utf8.cont b = some (b - 0x80) := by
  unfold Utf8.cont; rw [if_pos h]
theorem cont_not {b : Nat} (h : ¬ (0x80 ≤ b ∧ b < 0xC0)) : Utf8.cont b = none := by
  unfold Utf8.cont; rw [if_neg h]
theorem pcont_of {b : Nat} (h : 0x80 ≤ b ∧ b < 0xC0) : Prim.utf8Cont b = true := by
  unfold Prim.utf8Cont; exact decide_eq_true (by omega)
theorem pcont_not {b : Nat} (h : ¬ (0x80 ≤ b ∧ b < 0xC0)) : Prim.utf8Cont b = false := by
  unfold Prim.utf8Cont; exact decide_eq_false (by omega)

theorem two (b0 b1 : Nat) (h0 : 0xC0 ≤ b0 ∧ b0 < 0xE0) :
    Utf8.seq2 b0 b1 = (decide (0xC2 ≤ b0) && Prim.utf8Cont b1) := by
  unfold Utf8.seq2
  by_cases hc : 0x80 ≤ b1 ∧ b1 < 0xC0
  · rw [cont_of hc, pcont_of hc]
    simp only [Utf8.scalarOfLen, Bool.and_true]
    exact decide_eq_decide.mpr (by omega)
  · rw [cont_not hc, pcont_not hc]; simp

theorem three (b0 b1 b2 : Nat) (h0 : 0xE0 ≤ b0 ∧ b0 < 0xF0) :
    Utf8.seq3 b0 b1 b2 = ((if b0 = 0xE0 then decide (0xA0 ≤ b1 ∧ b1 ≤ 0xBF)
        else if b0 = 0xED then decide (0x80 ≤ b1 ∧ b1 ≤ 0x9F)
        else Prim.utf8Cont b1) && Prim.utf8Cont b2) := by
  unfold Utf8.seq3
  by_cases hc1 : 0x80 ≤ b1 ∧ b1 < 0xC0 <;> by_cases hc2 : 0x80 ≤ b2 ∧ b2 < 0xC0
  · rw [cont_of hc1, cont_of hc2, pcont_of hc1, pcont_of hc2]
    simp only [Utf8.scalarOfLen, Bool.and_true]
    split_ifs <;> first | exact decide_eq_decide.mpr (by omega) | exact decide_eq_true (by omega)
  · rw [cont_of hc1, cont_not hc2, pcont_not hc2]; simp
  · rw [cont_not hc1, pcont_not hc1]
    split_ifs <;> simp <;> omega
  · rw [cont_not hc1, pcont_not hc2]; simp

theorem four (b0 b1 b2 b3 : Nat) (h0 : 0xF0 ≤ b0 ∧ b0 < 0xF8) :
    Utf8.seq4 b0 b1 b2 b3 = (decide (b0 ≤ 0xF4) && (if b0 = 0xF0 then decide (0x90 ≤ b1 ∧ b1 ≤ 0xBF)
        else if b0 = 0xF4 then decide (0x80 ≤ b1 ∧ b1 ≤ 0x8F)
        else Prim.utf8Cont b1) && Prim.utf8Cont b2 && Prim.utf8Cont b3) := by
  unfold Utf8.seq4
  by_cases hc1 : 0x80 ≤ b1 ∧ b1 < 0xC0 <;> by_cases hc2 : 0x80 ≤ b2 ∧ b2 < 0xC0 <;>
    by_cases hc3 : 0x80 ≤ b3 ∧ b3 < 0xC0
  · rw [cont_of hc1, cont_of hc2, cont_of hc3, pcont_of hc1, pcont_of hc2, pcont_of hc3]
    simp only [Utf8.scalarOfLen, Bool.and_true]
    by_cases h4 : b0 ≤ 0xF4
    · rw [decide_eq_true h4, Bool.true_and]
      split_ifs <;> first | exact decide_eq_decide.mpr (by omega) | exact decide_eq_true (by omega)
    · rw [decide_eq_false h4, Bool.false_and]; exact decide_eq_false (by omega)
  · rw [cont_of hc1, cont_of hc2, cont_not hc3, pcont_not hc3]; simp
  · rw [cont_of hc1, cont_not hc2, pcont_not hc2]; simp
  · rw [cont_of hc1, cont_not hc2, pcont_not hc2]; simp
  · rw [cont_not hc1, pcont_not hc1]
    split_ifs <;> simp <;> omega
  · rw [cont_not hc1, pcont_not hc3]; simp
  · rw [cont_not hc1, pcont_not hc2]; simp
  · rw [cont_not hc1, pcont_not hc2]; simp
end Utf8Eq

theorem utf8_valid_eq (buf : List Nat) : Utf8.valid buf = Prim.utf8Valid buf := by
  fun_induction Prim.utf8Valid buf
  case case1 => rfl
  case case2 b0 rest h ih => rw [Utf8.valid.eq_def]; simp only [if_pos h, ih]
  case case3 b0 h1 h2 b1 r ih =>
    rw [Utf8.valid.eq_def]
    simp only [if_neg h1, if_pos (show 0xC0 ≤ b0 ∧ b0 < 0xE0 by omega), ih]
    rw [Utf8Eq.two b0 b1 (by omega), decide_eq_true (show 0xC2 ≤ b0 by omega), Bool.true_and]
  case case4 b0 rest h1 h2 hx =>
    rw [Utf8.valid.eq_def]
    simp only [if_neg h1, if_pos (show 0xC0 ≤ b0 ∧ b0 < 0xE0 by omega)]
  case case5 b0 h1 h2 h3 b1 b2 r ih =>
    rw [Utf8.valid.eq_def]
    simp only [if_neg h1, if_neg (show ¬ (0xC0 ≤ b0 ∧ b0 < 0xE0) by omega),
      if_pos (show 0xE0 ≤ b0 ∧ b0 < 0xF0 by omega), ih]
    rw [Utf8Eq.three b0 b1 b2 (by omega)]
  case case6 b0 rest h1 h2 h3 hx =>
    rw [Utf8.valid.eq_def]
    simp only [if_neg h1, if_neg (show ¬ (0xC0 ≤ b0 ∧ b0 < 0xE0) by omega),
      if_pos (show 0xE0 ≤ b0 ∧ b0 < 0xF0 by omega)]
  case case7 b0 h1 h2 h3 h4 b1 b2 b3 r ih =>
    rw [Utf8.valid.eq_def]
    simp only [if_neg h1, if_neg (show ¬ (0xC0 ≤ b0 ∧ b0 < 0xE0) by omega),
      if_neg (show ¬ (0xE0 ≤ b0 ∧ b0 < 0xF0) by omega),
      if_pos (show 0xF0 ≤ b0 ∧ b0 < 0xF8 by omega), ih]
    rw [Utf8Eq.four b0 b1 b2 b3 (by omega), decide_eq_true (show b0 ≤ 0xF4 by omega), Bool.true_and]
  case case8 b0 rest h1 h2 h3 h4 hx =>
    rw [Utf8.valid.eq_def]
    simp only [if_neg h1, if_neg (show ¬ (0xC0 ≤ b0 ∧ b0 < 0xE0) by omega),
      if_neg (show ¬ (0xE0 ≤ b0 ∧ b0 < 0xF0) by omega),
      if_pos (show 0xF0 ≤ b0 ∧ b0 < 0xF8 by omega)]
  case case9 b0 rest h1 h2 h3 h4 =>
    rw [Utf8.valid.eq_def]
    simp only [if_neg h1, if_neg (show ¬ (0xE0 ≤ b0 ∧ b0 < 0xF0) by omega)]
    by_cases hlow : 0xC0 ≤ b0 ∧ b0 < 0xE0
    · -- 0xC0, 0xC1: overlong two-byte forms
      rw [if_pos hlow]
      match rest with
      | [] => rfl
      | b1 :: r =>
        simp only []
        rw [Utf8Eq.two b0 b1 hlow, decide_eq_false (show ¬ 0xC2 ≤ b0 by omega)]; rfl
    · rw [if_neg hlow]
      by_cases hhi : 0xF0 ≤ b0 ∧ b0 < 0xF8
      · -- 0xF5..0xF7: beyond U+10FFFF
        rw [if_pos hhi]
        match rest with
        | [] => rfl
        | [_] => rfl
        | [_, _] => rfl
        | b1 :: b2 :: b3 :: r =>
          simp only []
          rw [Utf8Eq.four b0 b1 b2 b3 hhi, decide_eq_false (show ¬ b0 ≤ 0xF4 by omega)]; rfl
      · rw [if_neg hhi]

theorem toInt_inj {m u v : Nat} (hu : u < m) (hv : v < m) (h : toInt m u = toInt m v) : u = v := by
  unfold toInt at h
  split_ifs at h <;> omega

theorem U_eq_iff_S_eq_wrapS {w n : Nat} {x : List Nat} {v : Nat} (hx : WF w n x) (hv : v < M w n) :
    U w x = v ↔ S w x = wrapS (M w n) (v : Int) := by
  have hS : S w x = toInt (M w n) (U w x) := by rw [S_def, hx.1]
  have hW : wrapS (M w n) (v : Int) = toInt (M w n) v := by
    unfold wrapS; rw [wrapU_natCast, Nat.mod_eq_of_lt hv]
  rw [hS, hW]
  constructor
  · intro h; rw [h]
  · intro h; exact toInt_inj (U_lt hx) hv h

end Bnum
