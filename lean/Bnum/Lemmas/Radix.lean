/-
  Bnum.Lemmas.Radix — lemmas about Model/Radix.lean (C10 parsing, C11 printing).

  Plan
  * `digs fs bs` are the digit values of a byte view; `hasInvalid` ⇔ some digit `≥ radix`.
  * general arm (chunked Horner): `accLoop_spec` (one chunk, no `$Digit` overflow because a chunk has
    at most `power` digits and `radix^power < B w`), `mulDigitLoop_spec`, `checkedAdd_nat`,
    `chunkLoop_spec` (invariant `U out = valueOf (consumed prefix)`), `generalArm_spec`.
  * power-of-two arm: `packLoop_spec`, `packAll_spec` (bit packing = little-endian value in base
    `radix = 2^k`, `k ∣ w`), `skipZerosLoop`, `pow2Arm_spec`.
-/
import Bnum.Model.Radix
import Bnum.Spec.Radix
import Bnum.Lemmas.AddSub2
import Bnum.Lemmas.Mul
import Bnum.Lemmas.Div
import Bnum.Lemmas.Bits
set_option autoImplicit false
namespace Bnum
namespace Radix
open Spec.Radix

/-! ### Horner values -/

/-- Horner fold with a start value -/
def horner (r acc : Nat) (ds : List Nat) : Nat := ds.foldl (fun a d => a * r + d) acc

theorem valueOf_eq_horner (r : Nat) (ds : List Nat) : valueOf r ds = horner r 0 ds := rfl
@[simp] theorem horner_nil (r acc : Nat) : horner r acc [] = acc := rfl
@[simp] theorem horner_cons (r acc d : Nat) (ds : List Nat) :
    horner r acc (d :: ds) = horner r (acc * r + d) ds := rfl
theorem horner_append (r acc : Nat) (a b : List Nat) :
    horner r acc (a ++ b) = horner r (horner r acc a) b := by
  simp [horner, List.foldl_append]
theorem horner_eq (r : Nat) : ∀ (ds : List Nat) (acc : Nat),
    horner r acc ds = acc * r ^ ds.length + valueOf r ds
  | [], acc => by simp [valueOf]
  | d :: ds, acc => by
    have h1 := horner_eq r ds (acc * r + d)
    have h2 := horner_eq r ds (0 * r + d)
    rw [horner_cons, h1]
    show _ = _ + horner r 0 (d :: ds)
    rw [horner_cons, h2]; simp only [List.length_cons, Nat.pow_succ]; ring
theorem valueOf_nil (r : Nat) : valueOf r [] = 0 := rfl
theorem valueOf_cons (r d : Nat) (ds : List Nat) :
    valueOf r (d :: ds) = d * r ^ ds.length + valueOf r ds := by
  rw [valueOf_eq_horner, horner_cons, horner_eq]; simp
theorem valueOf_append (r : Nat) (a b : List Nat) :
    valueOf r (a ++ b) = valueOf r a * r ^ b.length + valueOf r b := by
  rw [valueOf_eq_horner, horner_append, horner_eq, ← valueOf_eq_horner]
theorem valueOf_lt {r : Nat} : ∀ (ds : List Nat), (∀ d ∈ ds, d < r) → valueOf r ds < r ^ ds.length
  | [], _ => by simp [valueOf]
  | d :: ds, h => by
    have h1 : d < r := h d (by simp)
    have h2 := valueOf_lt ds (fun e he => h e (by simp [he]))
    rw [valueOf_cons, List.length_cons, Nat.pow_succ]
    generalize r ^ ds.length = p at *
    have : (d + 1) * p ≤ r * p := Nat.mul_le_mul_right _ h1
    rw [Nat.add_mul] at this
    rw [Nat.mul_comm p r]; omega
theorem valueOf_replicate_zero (r k : Nat) (ds : List Nat) :
    valueOf r (List.replicate k 0 ++ ds) = valueOf r ds := by
  induction k with
  | zero => simp
  | succ k ih => rw [List.replicate_succ, List.cons_append, valueOf_cons]; simpa using ih
theorem valueOfLE_reverse (r : Nat) : ∀ (ds : List Nat), valueOfLE r ds.reverse = valueOf r ds
  | [] => rfl
  | d :: ds => by
    rw [List.reverse_cons, valueOf_cons]
    have : ∀ (a : List Nat) (x : Nat), valueOfLE r (a ++ [x]) = valueOfLE r a + r ^ a.length * x := by
      intro a x
      induction a with
      | nil => simp [valueOfLE]
      | cons y ys ih => simp only [List.cons_append, valueOfLE, ih, List.length_cons, Nat.pow_succ]; ring
    rw [this, valueOfLE_reverse r ds]; simp; ring
theorem valueOf_reverse (r : Nat) (ds : List Nat) : valueOf r ds.reverse = valueOfLE r ds := by
  rw [← valueOfLE_reverse, List.reverse_reverse]

/-! ### bytes and digits -/

/-- digit values of a byte view -/
def digs (fs : Bool) (bs : List Nat) : List Nat := bs.map (byteToDigit fs)

@[simp] theorem digs_nil (fs : Bool) : digs fs [] = [] := rfl
@[simp] theorem digs_cons (fs : Bool) (b : Nat) (bs : List Nat) :
    digs fs (b :: bs) = byteToDigit fs b :: digs fs bs := rfl
@[simp] theorem digs_length (fs : Bool) (bs : List Nat) : (digs fs bs).length = bs.length := by
  simp [digs]
theorem digs_append (fs : Bool) (a b : List Nat) : digs fs (a ++ b) = digs fs a ++ digs fs b := by
  simp [digs]
theorem digs_take (fs : Bool) (k : Nat) (a : List Nat) : digs fs (a.take k) = (digs fs a).take k := by
  simp [digs, List.map_take]
theorem digs_drop (fs : Bool) (k : Nat) (a : List Nat) : digs fs (a.drop k) = (digs fs a).drop k := by
  simp [digs, List.map_drop]
theorem digs_reverse (fs : Bool) (a : List Nat) : digs fs a.reverse = (digs fs a).reverse := by
  simp [digs]

theorem hasInvalid_false_iff {fs : Bool} {radix : Nat} : ∀ {bs : List Nat},
    hasInvalid fs radix bs = false ↔ ∀ d ∈ digs fs bs, d < radix % 256
  | [] => by simp [hasInvalid]
  | b :: bs => by
    have ih := hasInvalid_false_iff (fs := fs) (radix := radix) (bs := bs)
    unfold hasInvalid
    by_cases h : byteToDigit fs b ≥ radix % 256
    · simp [h]
    · simp only [h, if_false, ih, digs_cons, List.mem_cons, forall_eq_or_imp]
      constructor
      · intro g; exact ⟨by omega, g⟩
      · intro g; exact g.2
theorem hasInvalid_append (fs : Bool) (radix : Nat) : ∀ (a b : List Nat),
    hasInvalid fs radix (a ++ b) = (hasInvalid fs radix a || hasInvalid fs radix b)
  | [], b => by simp [hasInvalid]
  | x :: a, b => by
    simp only [List.cons_append, hasInvalid]
    split
    · simp
    · exact hasInvalid_append fs radix a b
theorem hasInvalid_take_drop (fs : Bool) (radix k : Nat) (a : List Nat) :
    hasInvalid fs radix a = (hasInvalid fs radix (a.take k) || hasInvalid fs radix (a.drop k)) := by
  rw [← hasInvalid_append, List.take_append_drop]
theorem hasInvalid_reverse (fs : Bool) (radix : Nat) (a : List Nat) :
    hasInvalid fs radix a.reverse = hasInvalid fs radix a := by
  cases h1 : hasInvalid fs radix a.reverse <;> cases h2 : hasInvalid fs radix a <;> try rfl
  · rw [hasInvalid_false_iff] at h1
    have : hasInvalid fs radix a = false := by
      rw [hasInvalid_false_iff]; intro d hd; apply h1; rw [digs_reverse]; simpa using hd
    simp [this] at h2
  · rw [hasInvalid_false_iff] at h2
    have : hasInvalid fs radix a.reverse = false := by
      rw [hasInvalid_false_iff]; intro d hd; apply h2; rw [digs_reverse] at hd; simpa using hd
    simp [this] at h1

/-! ### `radix_base` -/

theorem two_pow_le_pow {r : Nat} (hr : 2 ≤ r) (k : Nat) : 2 ^ k ≤ r ^ k := Nat.pow_le_pow_left hr k

theorem radixBaseLoop_spec {w r : Nat} (hr : 2 ≤ r) : ∀ (f base power : Nat),
    base = r ^ power → base < B w → power + f = w + 1 → 1 ≤ power →
    ∃ p, radixBaseLoop w r f base power = (r ^ p, p) ∧ 1 ≤ p ∧ r ^ p < B w ∧ B w ≤ r ^ (p + 1)
  | 0, base, power, hb, hlt, hf, _ => by
    exfalso
    have : power = w + 1 := by omega
    subst this
    have h1 := two_pow_le_pow hr (w + 1)
    have h2 : 2 ^ w < 2 ^ (w + 1) := Nat.pow_lt_pow_right (by omega) (by omega)
    unfold B at hlt; omega
  | f + 1, base, power, hb, hlt, hf, hp => by
    unfold radixBaseLoop
    by_cases h : base * r < B w
    · rw [if_pos h]
      exact radixBaseLoop_spec hr f (base * r) (power + 1) (by rw [hb, Nat.pow_succ]) h (by omega)
        (by omega)
    · rw [if_neg h]
      exact ⟨power, by rw [hb], hp, by rw [← hb]; exact hlt, by rw [Nat.pow_succ, ← hb]; omega⟩

theorem radixBase_spec {w r : Nat} (hr : 2 ≤ r) (hlt : r < B w) :
    ∃ p, radixBase w r = (r ^ p, p) ∧ 1 ≤ p ∧ r ^ p < B w ∧ B w ≤ r ^ (p + 1) := by
  unfold radixBase
  rw [Nat.mod_eq_of_lt hlt]
  exact radixBaseLoop_spec hr w r 1 (by simp) hlt (by omega) (by omega)

/-! ### one chunk: `accLoop` -/

theorem accLoop_spec {w : Nat} {fs : Bool} {radix : Nat} (h256 : radix % 256 = radix)
    (hB : radix % B w = radix) : ∀ (bs : List Nat) (acc : Nat),
    (acc + 1) * radix ^ bs.length ≤ B w →
    accLoop w fs radix bs acc
      = .ok (if hasInvalid fs radix bs then none else some (horner radix acc (digs fs bs)))
  | [], acc, _ => by simp [accLoop, hasInvalid]
  | b :: bs, acc, h => by
    unfold accLoop hasInvalid
    simp only [h256, hB]
    by_cases hd : byteToDigit fs b ≥ radix
    · simp [hd]
    · simp only [hd, if_false]
      rw [List.length_cons, Nat.pow_succ] at h
      have hpos : 0 < radix ^ bs.length := Nat.pow_pos (by omega)
      have h1 : (acc * radix + byteToDigit fs b + 1) * radix ^ bs.length ≤ B w := by
        calc (acc * radix + byteToDigit fs b + 1) * radix ^ bs.length
            ≤ ((acc + 1) * radix) * radix ^ bs.length :=
              Nat.mul_le_mul_right _ (by rw [Nat.add_mul]; omega)
          _ = (acc + 1) * (radix ^ bs.length * radix) := by ring
          _ ≤ B w := h
      have h2 : acc * radix + byteToDigit fs b + 1 ≤ B w :=
        Nat.le_trans (Nat.le_mul_of_pos_right _ hpos) h1
      rw [if_neg (by omega), accLoop_spec h256 hB bs _ h1]
      simp

/-! ### `out * base` : `mulDigitLoop` -/

theorem mulDigitLoop_spec {w base : Nat} (hb : base < B w) : ∀ (n : Nat) (out : List Nat) (carry : Nat),
    WF w n out → carry < B w →
    WF w n (mulDigitLoop w base out carry).1 ∧ (mulDigitLoop w base out carry).2 < B w ∧
    U w (mulDigitLoop w base out carry).1 + M w n * (mulDigitLoop w base out carry).2
      = U w out * base + carry
  | 0, out, carry, ho, hc => by
    have := ho.1; simp at this; subst this
    simp [mulDigitLoop, WF_nil, hc, M_zero]
  | n + 1, [], _, ho, _ => absurd ho.1 (by simp)
  | n + 1, d :: ds, carry, ho, hc => by
    rw [WF_cons] at ho
    obtain ⟨g1, g2, g3⟩ := Digit.carryingMul_spec ho.1 hb hc (B_pos w)
    obtain ⟨i1, i2, i3⟩ := mulDigitLoop_spec hb n ds (Digit.carryingMul w d base carry 0).2 ho.2 g3
    simp only [mulDigitLoop]
    refine ⟨WF_cons.mpr ⟨g2, i1⟩, i2, ?_⟩
    simp only [U_cons, M_succ]
    generalize (Digit.carryingMul w d base carry 0).1 = lo at *
    generalize (Digit.carryingMul w d base carry 0).2 = hi at *
    generalize (mulDigitLoop w base ds hi).1 = r1 at *
    generalize (mulDigitLoop w base ds hi).2 = r2 at *
    have : lo + B w * U w r1 + B w * M w n * r2 = lo + B w * (U w r1 + M w n * r2) := by ring
    rw [this, i3]
    have : (d + B w * U w ds) * base + carry = (d * base + carry + 0) + B w * (U w ds * base) := by ring
    rw [this, ← g1]; ring

/-! ### `checked_add` on naturals -/

theorem checkedAdd_nat {w n : Nat} {a b : List Nat} (ha : WF w n a) (hb : WF w n b) :
    (U w a + U w b < M w n →
      ∃ o, UI.checkedAdd w a b = some o ∧ WF w n o ∧ U w o = U w a + U w b) ∧
    (M w n ≤ U w a + U w b → UI.checkedAdd w a b = none) := by
  obtain ⟨h1, h2⟩ := UI.addLoop_spec n a b false ha hb
  have hr := U_lt h1
  unfold UI.checkedAdd UI.overflowingAdd tupleToOption
  cases hf : (UI.addLoop w a b false).2 <;> rw [hf] at h2 <;>
    simp only [Bool.toNat_false, Bool.toNat_true, Nat.mul_zero, Nat.mul_one, Nat.add_zero] at h2
  · constructor
    · intro _; exact ⟨_, by simp, h1, h2⟩
    · intro h; omega
  · constructor
    · intro h; omega
    · intro _; simp

/-! ### `ofNat` -/

theorem WF_ofNat (w : Nat) : ∀ (n v : Nat), WF w n (ofNat w n v)
  | 0, _ => WF_nil w
  | n + 1, v => WF_cons.mpr ⟨Nat.mod_lt _ (B_pos w), WF_ofNat w n _⟩
theorem U_ofNat (w : Nat) : ∀ (n v : Nat), U w (ofNat w n v) = v % M w n
  | 0, v => by simp [ofNat, M_zero, Nat.mod_one]
  | n + 1, v => by
    simp only [ofNat, U_cons, U_ofNat w n, M_succ]
    rw [Nat.mod_mul, Nat.add_comm]
theorem eq_ofNat {w n : Nat} {x : List Nat} (hx : WF w n x) : x = ofNat w n (U w x) :=
  U_injective hx (WF_ofNat w n _) (by rw [U_ofNat, Nat.mod_eq_of_lt (U_lt hx)])

/-! ### the chunk loop of the general arm -/

theorem chunkLoop_nil (w : Nat) (fs : Bool) (radix base power f : Nat) (out : List Nat) :
    chunkLoop w fs radix base power f [] out = .ok (.ok out) := by cases f <;> rfl

theorem chunkLoop_succ (w : Nat) (fs : Bool) (radix base power f : Nat) (rest out : List Nat)
    (hne : rest ≠ []) :
    chunkLoop w fs radix base power (f + 1) rest out =
      if (mulDigitLoop w base out 0).2 ≠ 0 then
        (if hasInvalid fs radix (rest.take power) then .ok (.err .invalidDigit)
         else .ok (.err .posOverflow))
      else
        match accLoop w fs radix (rest.take power) 0 with
        | .panic => .panic
        | .ok none => .ok (.err .invalidDigit)
        | .ok (some nn) =>
          match UI.checkedAdd w (mulDigitLoop w base out 0).1 (fromDigit out.length nn) with
          | none => .ok (.err .posOverflow)
          | some o => chunkLoop w fs radix base power f (rest.drop power) o := by
  cases rest with
  | nil => exact absurd rfl hne
  | cons b bs => rfl

theorem pow_split {r p L : Nat} (h : p ≤ L) : r ^ L = r ^ p * r ^ (L - p) := by
  rw [← Nat.pow_add]; congr 1; omega

theorem chunkLoop_spec {w n : Nat} {fs : Bool} {radix p : Nat} (hn : 1 ≤ n)
    (h256 : radix % 256 = radix) (hB : radix % B w = radix) (hr : 2 ≤ radix) (hp : 1 ≤ p)
    (hbase : radix ^ p < B w) :
    ∀ (f : Nat) (rest out : List Nat), WF w n out → p ∣ rest.length → rest.length ≤ f →
    (hasInvalid fs radix rest = false →
      chunkLoop w fs radix (radix ^ p) p f rest out = .ok (
        if horner radix (U w out) (digs fs rest) < M w n
        then .ok (ofNat w n (horner radix (U w out) (digs fs rest))) else .err .posOverflow)) ∧
    (hasInvalid fs radix rest = true →
      ∃ k, chunkLoop w fs radix (radix ^ p) p f rest out = .ok (.err k) ∧
        ((U w out + 1) * radix ^ rest.length ≤ M w n → k = .invalidDigit)) := by
  intro f
  induction f with
  | zero =>
    intro rest out ho _ hf
    have : rest = [] := List.eq_nil_of_length_eq_zero (by omega)
    subst this
    rw [chunkLoop_nil]
    constructor
    · intro _; simp [U_lt ho, ← eq_ofNat ho]
    · intro h; simp [hasInvalid] at h
  | succ f ih =>
    intro rest out ho hdvd hf
    by_cases hne : rest = []
    · subst hne
      rw [chunkLoop_nil]
      constructor
      · intro _; simp [U_lt ho, ← eq_ofNat ho]
      · intro h; simp [hasInvalid] at h
    have hLpos : 0 < rest.length := List.length_pos_iff.mpr hne
    have hpL : p ≤ rest.length := Nat.le_of_dvd hLpos hdvd
    have hdvd' : p ∣ (rest.drop p).length := by
      rw [List.length_drop]; exact Nat.dvd_sub hdvd (Nat.dvd_refl p)
    have hf' : (rest.drop p).length ≤ f := by rw [List.length_drop]; omega
    have htl : (rest.take p).length = p := by rw [List.length_take]; omega
    rw [chunkLoop_succ _ _ _ _ _ _ _ _ hne]
    obtain ⟨m1, m2, m3⟩ := mulDigitLoop_spec hbase n out 0 ho (B_pos w)
    have hacc := accLoop_spec (fs := fs) h256 hB (rest.take p) 0 (by rw [htl]; omega)
    have hinv := hasInvalid_take_drop fs radix p rest
    have hsplit : horner radix (U w out) (digs fs rest)
        = horner radix (U w out * radix ^ p + valueOf radix (digs fs (rest.take p)))
            (digs fs (rest.drop p)) := by
      have e : digs fs rest = digs fs (rest.take p) ++ digs fs (rest.drop p) := by
        rw [← digs_append, List.take_append_drop]
      rw [e, horner_append, horner_eq radix (digs fs (rest.take p)), digs_length, htl]
    rw [ho.1]
    generalize hm : mulDigitLoop w (radix ^ p) out 0 = m at *
    have hum := U_lt m1
    have hMpos := M_pos w n
    constructor
    · -- all bytes valid
      intro hv
      rw [hv] at hinv
      have hv1 : hasInvalid fs radix (rest.take p) = false := by
        cases h : hasInvalid fs radix (rest.take p)
        · rfl
        · rw [h] at hinv; simp at hinv
      have hv2 : hasInvalid fs radix (rest.drop p) = false := by
        cases h : hasInvalid fs radix (rest.drop p)
        · rfl
        · rw [h] at hinv; simp at hinv
      have hlt : valueOf radix (digs fs (rest.take p)) < radix ^ p := by
        have := valueOf_lt (r := radix) (digs fs (rest.take p))
          (by have := hasInvalid_false_iff.mp hv1; rwa [h256] at this)
        rwa [digs_length, htl] at this
      have hge : U w out * radix ^ p + valueOf radix (digs fs (rest.take p))
          ≤ horner radix (U w out) (digs fs rest) := by
        rw [hsplit, horner_eq]
        have : 0 < radix ^ (digs fs (rest.drop p)).length := Nat.pow_pos (by omega)
        exact Nat.le_trans (Nat.le_mul_of_pos_right _ this) (Nat.le_add_right _ _)
      by_cases hc : m.2 ≠ 0
      · rw [if_pos hc, hv1]
        have : M w n ≤ U w out * radix ^ p := by
          have : M w n * 1 ≤ M w n * m.2 := Nat.mul_le_mul_left _ (by omega)
          omega
        simp only [Bool.false_eq_true, if_false]
        rw [if_neg (by omega)]
      · rw [if_neg hc]
        have hc0 : m.2 = 0 := by omega
        rw [hc0] at m3
        rw [hacc, hv1]
        simp only [Bool.false_eq_true, if_false]
        rw [← valueOf_eq_horner]
        obtain ⟨a1, a2⟩ := checkedAdd_nat m1 (WF_fromDigit (w := w) hn (Nat.lt_trans hlt hbase))
        rw [U_fromDigit _ hn] at a1 a2
        by_cases hfit : U w m.1 + valueOf radix (digs fs (rest.take p)) < M w n
        · obtain ⟨o, e1, e2, e3⟩ := a1 hfit
          rw [e1]
          simp only
          have m3' : U w m.1 = U w out * radix ^ p := by omega
          rw [(ih (rest.drop p) o e2 hdvd' hf').1 hv2, hsplit, e3, m3']
        · rw [a2 (by omega)]
          simp only
          rw [if_neg (by omega)]
    · -- some byte invalid
      intro hv
      rw [hv] at hinv
      by_cases hc : m.2 ≠ 0
      · rw [if_pos hc]
        have hcontra : (U w out + 1) * radix ^ rest.length ≤ M w n → False := by
          intro hs
          have h1 : radix ^ p ≤ radix ^ rest.length := Nat.pow_le_pow_right (by omega) hpL
          have h2 : U w out * radix ^ p ≤ U w out * radix ^ rest.length := Nat.mul_le_mul_left _ h1
          have h3 : 0 < radix ^ rest.length := Nat.pow_pos (by omega)
          have h4 : M w n * 1 ≤ M w n * m.2 := Nat.mul_le_mul_left _ (by omega)
          rw [Nat.add_mul] at hs
          omega
        cases hasInvalid fs radix (rest.take p)
        · exact ⟨_, rfl, fun hs => (hcontra hs).elim⟩
        · exact ⟨_, rfl, fun _ => rfl⟩
      · rw [if_neg hc]
        have hc0 : m.2 = 0 := by omega
        rw [hc0] at m3
        rw [hacc]
        cases hv1 : hasInvalid fs radix (rest.take p)
        · have hv2 : hasInvalid fs radix (rest.drop p) = true := by
            rw [hv1] at hinv; simpa using hinv.symm
          simp only [Bool.false_eq_true, if_false]
          rw [← valueOf_eq_horner]
          have hlt : valueOf radix (digs fs (rest.take p)) < radix ^ p := by
            have := valueOf_lt (r := radix) (digs fs (rest.take p))
              (by have := hasInvalid_false_iff.mp hv1; rwa [h256] at this)
            rwa [digs_length, htl] at this
          obtain ⟨a1, a2⟩ := checkedAdd_nat m1 (WF_fromDigit (w := w) hn (Nat.lt_trans hlt hbase))
          rw [U_fromDigit _ hn] at a1 a2
          have hbound : (U w out + 1) * radix ^ rest.length ≤ M w n →
              (U w m.1 + valueOf radix (digs fs (rest.take p)) + 1) * radix ^ (rest.length - p)
                ≤ M w n := by
            intro hs
            rw [pow_split hpL] at hs
            refine Nat.le_trans (Nat.mul_le_mul_right _ ?_) (by rw [← Nat.mul_assoc] at hs; exact hs)
            rw [Nat.add_mul]; omega
          by_cases hfit : U w m.1 + valueOf radix (digs fs (rest.take p)) < M w n
          · obtain ⟨o, e1, e2, e3⟩ := a1 hfit
            rw [e1]
            simp only
            obtain ⟨k, k1, k2⟩ := (ih (rest.drop p) o e2 hdvd' hf').2 hv2
            refine ⟨k, k1, fun hs => k2 ?_⟩
            rw [e3, List.length_drop]; exact hbound hs
          · rw [a2 (by omega)]
            refine ⟨_, rfl, fun hs => ?_⟩
            exfalso
            have := hbound hs
            have h3 : 0 < radix ^ (rest.length - p) := Nat.pow_pos (by omega)
            have := Nat.le_trans (Nat.le_mul_of_pos_right _ h3) this
            omega
        · exact ⟨_, rfl, fun _ => rfl⟩

/-! ### the general arm -/

/-- what `from_buf_radix_internal` answers for a most-significant-first byte view of the digits:
    `Good` = the value when every byte is a digit, any error with `InvalidDigit` forced for short
    inputs otherwise -/
def ArmSpec (w n : Nat) (fs : Bool) (radix : Nat) (view : List Nat) (res : Outcome PRes) : Prop :=
  (hasInvalid fs radix view = false →
    res = .ok (if valueOf radix (digs fs view) < M w n
      then .ok (ofNat w n (valueOf radix (digs fs view))) else .err .posOverflow)) ∧
  (hasInvalid fs radix view = true →
    ∃ k, res = .ok (.err k) ∧ (radix ^ view.length ≤ M w n → k = .invalidDigit))

theorem generalArm_spec {w n : Nat} {fs be : Bool} {buf : List Nat} {radix off len : Nat}
    (hn : 1 ≤ n) (hr : 2 ≤ radix) (h256 : radix < 256) (hB : radix < B w)
    (hlen : len = buf.length - off) (hpos : 0 < len) :
    ArmSpec w n fs radix ((if be then buf else buf.reverse).drop off)
      (generalArm w n fs be buf radix off len) := by
  obtain ⟨p, hbp, hp1, hp2, _⟩ := radixBase_spec hr hB
  have h256' : radix % 256 = radix := Nat.mod_eq_of_lt h256
  have hB' : radix % B w = radix := Nat.mod_eq_of_lt hB
  unfold generalArm
  simp only [hbp]
  generalize hview : (if be then buf else buf.reverse).drop off = view
  have hvl : view.length = len := by
    rw [← hview, List.length_drop]; split <;> simp [hlen]
  generalize hsp : (if (len % p == 0) = true then p else len % p) = split
  have hs1 : 1 ≤ split ∧ split ≤ p ∧ split ≤ len ∧ p ∣ len - split := by
    have hmod := Nat.mod_lt len (show 0 < p by omega)
    have hle := Nat.mod_le len p
    by_cases h0 : len % p = 0
    · simp only [h0, beq_self_eq_true, if_true] at hsp
      subst hsp
      have hd : p ∣ len := Nat.dvd_of_mod_eq_zero h0
      exact ⟨hp1, Nat.le_refl _, Nat.le_of_dvd hpos hd, Nat.dvd_sub hd (Nat.dvd_refl p)⟩
    · have : (len % p == 0) = false := by simpa using h0
      simp only [this, Bool.false_eq_true, if_false] at hsp
      subst hsp
      refine ⟨by omega, by omega, hle, ?_⟩
      exact ⟨len / p, by have := Nat.div_add_mod len p; omega⟩
  obtain ⟨hs1, hs2, hs3, hs4⟩ := hs1
  have htl : (view.take split).length = split := by rw [List.length_take]; omega
  have hpw : radix ^ split ≤ radix ^ p := Nat.pow_le_pow_right (by omega) hs2
  have hacc := accLoop_spec (fs := fs) h256' hB' (view.take split) 0 (by rw [htl]; omega)
  have hinv := hasInvalid_take_drop fs radix split view
  have hdl : (view.drop split).length = len - split := by rw [List.length_drop, hvl]
  have hsplitV : valueOf radix (digs fs view)
      = horner radix (valueOf radix (digs fs (view.take split))) (digs fs (view.drop split)) := by
    have e : digs fs view = digs fs (view.take split) ++ digs fs (view.drop split) := by
      rw [← digs_append, List.take_append_drop]
    rw [valueOf_eq_horner, e, horner_append]; rfl
  rw [hacc]
  constructor
  · intro hv
    rw [hv] at hinv
    have hv1 : hasInvalid fs radix (view.take split) = false := by
      cases h : hasInvalid fs radix (view.take split)
      · rfl
      · rw [h] at hinv; simp at hinv
    have hv2 : hasInvalid fs radix (view.drop split) = false := by
      cases h : hasInvalid fs radix (view.drop split)
      · rfl
      · rw [h] at hinv; simp at hinv
    have hlt : valueOf radix (digs fs (view.take split)) < radix ^ split := by
      have := valueOf_lt (r := radix) (digs fs (view.take split))
        (by have := hasInvalid_false_iff.mp hv1; rwa [h256'] at this)
      rwa [digs_length, htl] at this
    rw [hv1]
    simp only [Bool.false_eq_true, if_false]
    rw [← valueOf_eq_horner]
    have hwf := WF_fromDigit (w := w) hn (show valueOf radix (digs fs (view.take split)) < B w by omega)
    have := (chunkLoop_spec (fs := fs) hn h256' hB' hr hp1 hp2 view.length (view.drop split) _ hwf
      (by rw [hdl]; exact hs4) (by rw [hdl, hvl]; omega)).1 hv2
    rw [this, U_fromDigit _ hn, hsplitV]
  · intro hv
    rw [hv] at hinv
    cases hv1 : hasInvalid fs radix (view.take split)
    · have hv2 : hasInvalid fs radix (view.drop split) = true := by
        rw [hv1] at hinv; simpa using hinv.symm
      have hlt : valueOf radix (digs fs (view.take split)) < radix ^ split := by
        have := valueOf_lt (r := radix) (digs fs (view.take split))
          (by have := hasInvalid_false_iff.mp hv1; rwa [h256'] at this)
        rwa [digs_length, htl] at this
      simp only [Bool.false_eq_true, if_false]
      rw [← valueOf_eq_horner]
      have hwf := WF_fromDigit (w := w) hn
        (show valueOf radix (digs fs (view.take split)) < B w by omega)
      obtain ⟨k, k1, k2⟩ := (chunkLoop_spec (fs := fs) hn h256' hB' hr hp1 hp2 view.length
        (view.drop split) _ hwf (by rw [hdl]; exact hs4) (by rw [hdl, hvl]; omega)).2 hv2
      refine ⟨k, k1, fun hs => k2 ?_⟩
      rw [U_fromDigit _ hn, hdl]
      rw [hvl, pow_split hs3] at hs
      exact Nat.le_trans (Nat.mul_le_mul_right _ (by omega)) hs
    · exact ⟨_, rfl, fun _ => rfl⟩

/-! ### the power-of-two arm: bit packing -/

theorem valueOfLE_append (r : Nat) : ∀ (a b : List Nat),
    valueOfLE r (a ++ b) = valueOfLE r a + r ^ a.length * valueOfLE r b
  | [], b => by simp [valueOfLE]
  | x :: a, b => by
    simp only [List.cons_append, valueOfLE, valueOfLE_append r a b, List.length_cons, Nat.pow_succ]
    ring
theorem valueOfLE_lt {r : Nat} (ds : List Nat) (h : ∀ d ∈ ds, d < r) : valueOfLE r ds < r ^ ds.length := by
  rw [← valueOf_reverse]
  have := valueOf_lt (r := r) ds.reverse (by intro d hd; exact h d (by simpa using hd))
  simpa using this

theorem or_mul_pow {s c : Nat} (q : Nat) (h : c < 2 ^ s) : c ||| (q * 2 ^ s) = c + q * 2 ^ s := by
  rw [Nat.or_comm, Nat.mul_comm, ← Nat.two_pow_add_eq_or_of_lt h q, Nat.add_comm]

theorem packLoop_spec {w k c : Nat} {fs : Bool} {radix : Nat} (hw : w = k * c)
    (hrad : radix = 2 ^ k) (h256 : radix % 256 = radix) :
    ∀ (bs : List Nat) (j acc : Nat), j + bs.length ≤ c → acc < 2 ^ (k * j) →
    packLoop w fs radix k bs j acc =
      if hasInvalid fs radix bs then none
      else some (acc + 2 ^ (k * j) * valueOfLE radix (digs fs bs))
  | [], j, acc, _, _ => by simp [packLoop, hasInvalid, valueOfLE]
  | b :: bs, j, acc, hj, hacc => by
    unfold packLoop hasInvalid
    simp only [h256]
    by_cases hd : byteToDigit fs b ≥ radix
    · simp [hd]
    · simp only [hd, if_false]
      have hdlt : byteToDigit fs b < 2 ^ k := by omega
      simp only [List.length_cons] at hj
      have hP : 2 ^ (k * (j + 1)) = 2 ^ k * 2 ^ (k * j) := by
        rw [← Nat.pow_add]; congr 1; ring
      have hle : 2 ^ (k * (j + 1)) ≤ B w := by
        unfold B; rw [hw]; exact Nat.pow_le_pow_right (by omega) (Nat.mul_le_mul_left _ (by omega))
      generalize hPd : 2 ^ (k * j) = P at *
      have hPpos : 0 < P := by rw [← hPd]; exact Nat.pow_pos (by omega)
      have hdP : byteToDigit fs b * P < 2 ^ k * P := Nat.mul_lt_mul_of_pos_right hdlt hPpos
      have hsh : (byteToDigit fs b <<< (j * k)) % B w = byteToDigit fs b * P := by
        rw [Nat.shiftLeft_eq, Nat.mul_comm j k, hPd, Nat.mod_eq_of_lt (by omega)]
      rw [hsh, ← hPd, or_mul_pow _ (by rw [hPd]; exact hacc), hPd]
      have hacc' : acc + byteToDigit fs b * P < 2 ^ (k * (j + 1)) := by
        rw [hP]
        have : (byteToDigit fs b + 1) * P ≤ 2 ^ k * P := Nat.mul_le_mul_right _ hdlt
        rw [Nat.add_mul] at this; omega
      rw [packLoop_spec hw hrad h256 bs (j + 1) _ (by omega) hacc']
      split
      · rfl
      · simp only [digs_cons, valueOfLE, hP, hrad]; congr 1; ring

theorem packAll_spec {w k c : Nat} {fs : Bool} {radix : Nat} (hk : 1 ≤ k) (hc : 1 ≤ c)
    (hw : w = k * c) (hrad : radix = 2 ^ k) (h256 : radix % 256 = radix) :
    ∀ (f : Nat) (view : List Nat), view.length ≤ f →
    (hasInvalid fs radix view = false →
      ∃ ds, packAll w fs radix k c f view = some ds ∧ ds.length * c < view.length + c ∧
        (∀ d ∈ ds, d < B w) ∧ U w ds = valueOfLE radix (digs fs view)) ∧
    (hasInvalid fs radix view = true → packAll w fs radix k c f view = none) := by
  have hBw : B w = radix ^ c := by unfold B; rw [hw, hrad, Nat.pow_mul]
  intro f
  induction f with
  | zero =>
    intro view hf
    have : view = [] := List.eq_nil_of_length_eq_zero (by omega)
    subst this
    refine ⟨fun _ => ⟨[], rfl, by simp; omega, by simp, by simp [valueOfLE]⟩, fun h => ?_⟩
    simp [hasInvalid] at h
  | succ f ih =>
    intro view hf
    cases view with
    | nil =>
      refine ⟨fun _ => ⟨[], rfl, by simp; omega, by simp, by simp [valueOfLE]⟩, fun h => ?_⟩
      simp [hasInvalid] at h
    | cons b bs =>
      generalize hv : b :: bs = view at *
      have hlen : 0 < view.length := by rw [← hv]; simp
      have hunf : packAll w fs radix k c (f + 1) view =
          match packLoop w fs radix k (view.take c) 0 0 with
          | none => none
          | some d =>
            match packAll w fs radix k c f (view.drop c) with
            | none => none
            | some ds => some (d :: ds) := by rw [← hv]; rfl
      have hpl := packLoop_spec (fs := fs) hw hrad h256 (view.take c) 0 0
        (by rw [List.length_take]; omega) (by simp)
      simp only [Nat.mul_zero, Nat.pow_zero, Nat.one_mul, Nat.zero_add] at hpl
      have hinv := hasInvalid_take_drop fs radix c view
      have hdl : (view.drop c).length ≤ f := by rw [List.length_drop]; omega
      obtain ⟨ih1, ih2⟩ := ih (view.drop c) hdl
      rw [hunf, hpl]
      constructor
      · intro hval
        rw [hval] at hinv
        have hv1 : hasInvalid fs radix (view.take c) = false := by
          cases h : hasInvalid fs radix (view.take c)
          · rfl
          · rw [h] at hinv; simp at hinv
        have hv2 : hasInvalid fs radix (view.drop c) = false := by
          cases h : hasInvalid fs radix (view.drop c)
          · rfl
          · rw [h] at hinv; simp at hinv
        obtain ⟨ds, e1, e2, e3, e4⟩ := ih1 hv2
        rw [hv1, e1]
        simp only [Bool.false_eq_true, if_false]
        have hlt : valueOfLE radix (digs fs (view.take c)) < radix ^ (view.take c).length := by
          have := valueOfLE_lt (r := radix) (digs fs (view.take c))
            (by have := hasInvalid_false_iff.mp hv1; rwa [h256] at this)
          rwa [digs_length] at this
        have hpw : radix ^ (view.take c).length ≤ radix ^ c :=
          Nat.pow_le_pow_right (by rw [hrad]; exact Nat.pow_pos (by omega))
            (by rw [List.length_take]; omega)
        refine ⟨_, rfl, ?_, ?_, ?_⟩
        · simp only [List.length_cons, Nat.add_mul, Nat.one_mul]
          rw [List.length_drop] at e2
          by_cases hcl : c ≤ view.length
          · omega
          · have : view.drop c = [] := List.drop_eq_nil_of_le (by omega)
            rw [this] at e1
            have : ds = [] := by
              cases f <;> simp [packAll] at e1 <;> exact e1
            subst this; simp; omega
        · intro d hd
          rcases List.mem_cons.mp hd with h | h
          · rw [h, hBw]; omega
          · exact e3 d h
        · rw [U_cons, e4]
          conv => rhs; rw [← List.take_append_drop c view, digs_append, valueOfLE_append, digs_length]
          by_cases hcl : c ≤ view.length
          · rw [List.length_take, Nat.min_eq_left hcl, hBw]
          · have : view.drop c = [] := List.drop_eq_nil_of_le (by omega)
            rw [this]; simp [valueOfLE]
      · intro hval
        rw [hval] at hinv
        cases hv1 : hasInvalid fs radix (view.take c)
        · have hv2 : hasInvalid fs radix (view.drop c) = true := by
            rw [hv1] at hinv; simpa using hinv.symm
          rw [ih2 hv2]
          simp
        · simp

/-! ### the power-of-two arm: zero skipping, capacity test, result -/

theorem skipZerosLoop_spec (fs : Bool) : ∀ (ms : List Nat), ∃ zs rest, ms = zs ++ rest ∧
    (∀ b ∈ zs, byteToDigit fs b = 0) ∧ skipZerosLoop fs ms = rest.length ∧
    (∀ b, rest.head? = some b → byteToDigit fs b ≠ 0)
  | [] => ⟨[], [], rfl, by simp, rfl, by simp⟩
  | b :: bs => by
    unfold skipZerosLoop
    by_cases h : byteToDigit fs b = 0
    · obtain ⟨zs, rest, e1, e2, e3, e4⟩ := skipZerosLoop_spec fs bs
      refine ⟨b :: zs, rest, by rw [e1]; rfl, ?_, by simp [h, e3], e4⟩
      intro x hx
      rcases List.mem_cons.mp hx with hx | hx
      · rw [hx]; exact h
      · exact e2 x hx
    · exact ⟨[], b :: bs, rfl, by simp, by simp [h], by simpa using h⟩

theorem overflow_cond (n c len : Nat) (hc : 1 ≤ c) :
    (decide (len / c > n) || (len / c == n && len % c != 0)) = true ↔ n * c < len := by
  have h1 := Nat.div_add_mod len c
  have h2 := Nat.mod_lt len (show 0 < c by omega)
  generalize len / c = q at *
  generalize len % c = r at *
  simp only [Bool.or_eq_true, decide_eq_true_eq, Bool.and_eq_true, beq_iff_eq, bne_iff_ne, ne_eq]
  constructor
  · rintro (h | ⟨h, h'⟩)
    · have : c * (n + 1) ≤ c * q := Nat.mul_le_mul_left _ h
      rw [Nat.mul_add, Nat.mul_one, Nat.mul_comm c n] at this; omega
    · subst h; rw [Nat.mul_comm]; omega
  · intro h
    by_cases hq : q > n
    · exact Or.inl hq
    · right
      have hqn : q = n := by
        by_contra hne
        have : c * (q + 1) ≤ c * n := Nat.mul_le_mul_left _ (by omega)
        rw [Nat.mul_add, Nat.mul_one, Nat.mul_comm c n] at this; omega
      subst hqn
      refine ⟨rfl, ?_⟩
      intro hr; subst hr; rw [Nat.mul_comm] at h; omega

theorem digs_zero {fs : Bool} {zs : List Nat} (h : ∀ b ∈ zs, byteToDigit fs b = 0) :
    digs fs zs = List.replicate zs.length 0 := by
  rw [List.eq_replicate_iff]
  refine ⟨by simp, ?_⟩
  intro d hd
  simp only [digs, List.mem_map] at hd
  obtain ⟨b, hb, rfl⟩ := hd
  exact h b hb

theorem hasInvalid_take_of_false {fs : Bool} {radix : Nat} (k : Nat) {a : List Nat}
    (h : hasInvalid fs radix a = false) : hasInvalid fs radix (a.take k) = false := by
  have := hasInvalid_take_drop fs radix k a
  rw [h] at this
  cases h' : hasInvalid fs radix (a.take k)
  · rfl
  · rw [h'] at this; simp at this

theorem pow2Arm_spec {w n k c : Nat} {fs be : Bool} {buf : List Nat} {radix off len0 : Nat}
    (hk : 1 ≤ k) (hc : 1 ≤ c) (hw : w = k * c) (hrad : radix = 2 ^ k)
    (hlog : ilog2 radix = k) (h256 : radix < 256) (hlen : len0 = buf.length - off)
    (hoff : off ≤ buf.length) (hbe : be = true ∨ off = 0) :
    ArmSpec w n fs radix ((if be then buf else buf.reverse).drop off)
      (.ok (pow2Arm w n fs be buf radix off len0)) := by
  have h256' : radix % 256 = radix := Nat.mod_eq_of_lt h256
  have hr2 : 2 ≤ radix := by
    rw [hrad]; calc 2 = 2 ^ 1 := rfl
      _ ≤ 2 ^ k := Nat.pow_le_pow_right (by omega) hk
  have hM : M w n = radix ^ (n * c) := by
    unfold M; rw [hw, hrad, ← Nat.pow_mul]; congr 1; ring
  have hwk : w / k = c := by rw [hw]; exact Nat.mul_div_cancel_left c (by omega)
  generalize hview : (if be then buf else buf.reverse).drop off = view
  have hmsf : (if be then buf.drop (buf.length - len0) else (buf.take len0).reverse) = view := by
    rw [← hview]
    cases be
    · have : off = 0 := by simpa using hbe
      subst this
      simp [hlen]
    · simp only [if_true]; congr 1; omega
  obtain ⟨zs, rest, e1, e2, e3, e4⟩ := skipZerosLoop_spec fs view
  have hls : (if be then buf.reverse else buf).take rest.length = rest.reverse := by
    cases be
    · have h0 : off = 0 := by simpa using hbe
      subst h0
      simp only [Bool.false_eq_true, if_false, List.drop_zero] at hview ⊢
      have : buf = rest.reverse ++ zs.reverse := by
        rw [← List.reverse_append, ← e1, ← hview, List.reverse_reverse]
      rw [this, List.take_left' (by simp)]
    · simp only [if_true] at hview ⊢
      have : buf.reverse = rest.reverse ++ (buf.take off ++ zs).reverse := by
        rw [← List.reverse_append, List.append_assoc, ← e1, ← hview, List.take_append_drop]
      rw [this, List.take_left' (by simp)]
  have hscan : hasInvalid fs radix view = false →
      hasInvalid fs radix ((buf.drop off).take (n * c)) = false := by
    intro hv
    apply hasInvalid_take_of_false
    cases be
    · have h0 : off = 0 := by simpa using hbe
      subst h0
      simp only [Bool.false_eq_true, if_false, List.drop_zero] at hview ⊢
      rw [← hview, hasInvalid_reverse] at hv; exact hv
    · simp only [if_true] at hview; rw [hview]; exact hv
  have hinvsplit : hasInvalid fs radix view = hasInvalid fs radix rest := by
    rw [e1, hasInvalid_append]
    have : hasInvalid fs radix zs = false := by
      rw [hasInvalid_false_iff]; intro d hd
      rw [digs_zero e2, List.mem_replicate] at hd
      omega
    rw [this]; simp
  have hval : valueOf radix (digs fs view) = valueOf radix (digs fs rest) := by
    rw [e1, digs_append, digs_zero e2, valueOf_replicate_zero]
  unfold pow2Arm
  simp only [hmsf, e3, hlog, hwk, hls, List.length_reverse]
  have hcond := overflow_cond n c rest.length hc
  constructor
  · intro hv
    have hvr : hasInvalid fs radix rest = false := by rw [← hinvsplit]; exact hv
    have hdr : ∀ d ∈ digs fs rest, d < radix := by
      have := hasInvalid_false_iff.mp hvr; rwa [h256'] at this
    by_cases hov : n * c < rest.length
    · rw [if_pos (hcond.mpr hov), hscan hv]
      simp only [Bool.false_eq_true, if_false]
      have hge : M w n ≤ valueOf radix (digs fs view) := by
        rw [hval, hM]
        match rest, e4, hov with
        | [], _, hov => simp at hov
        | b0 :: rest', e4, hov =>
          have hd0 : byteToDigit fs b0 ≠ 0 := e4 b0 rfl
          rw [digs_cons, valueOf_cons, digs_length]
          simp only [List.length_cons] at hov
          have h1 : radix ^ (n * c) ≤ radix ^ rest'.length :=
            Nat.pow_le_pow_right (by omega) (by omega)
          have h2 : 1 * radix ^ rest'.length ≤ byteToDigit fs b0 * radix ^ rest'.length :=
            Nat.mul_le_mul_right _ (by omega)
          omega
      rw [if_neg (by omega)]
    · have hcf : (decide (rest.length / c > n) || (rest.length / c == n && rest.length % c != 0))
          = false := by
        cases h : (decide (rest.length / c > n) || (rest.length / c == n && rest.length % c != 0))
        · rfl
        · exact absurd (hcond.mp h) hov
      rw [hcf]
      simp only [Bool.false_eq_true, if_false]
      obtain ⟨ds, p1, p2, p3, p4⟩ := (packAll_spec (fs := fs) hk hc hw hrad h256' rest.reverse.length
        rest.reverse (Nat.le_refl _)).1 (by rw [hasInvalid_reverse]; exact hvr)
      simp only [List.length_reverse] at p1 p2
      rw [p1]
      simp only
      have hdl : ds.length ≤ n := by
        have : ds.length * c < (n + 1) * c := by rw [Nat.add_mul, Nat.one_mul]; omega
        have := Nat.lt_of_mul_lt_mul_right this
        omega
      have hlt : valueOf radix (digs fs view) < M w n := by
        rw [hval, hM]
        have h1 := valueOf_lt (r := radix) (digs fs rest) hdr
        rw [digs_length] at h1
        have h2 : radix ^ rest.length ≤ radix ^ (n * c) := Nat.pow_le_pow_right (by omega) (by omega)
        omega
      rw [if_pos hlt]
      congr 2
      have hwf : WF w n (ds ++ List.replicate (n - ds.length) 0) := by
        refine ⟨by simp; omega, ?_⟩
        intro d hd
        rcases List.mem_append.mp hd with h | h
        · exact p3 d h
        · rw [List.mem_replicate] at h; rw [h.2]; exact B_pos w
      rw [eq_ofNat hwf, U_append, U_replicate_zero, p4, digs_reverse, valueOfLE_reverse, hval]
      simp
  · intro hv
    have hvr : hasInvalid fs radix rest = true := by rw [← hinvsplit]; exact hv
    by_cases hov : n * c < rest.length
    · rw [if_pos (hcond.mpr hov)]
      have hcontra : radix ^ view.length ≤ M w n → False := by
        intro hs
        rw [hM] at hs
        have := (Nat.pow_le_pow_iff_right (by omega)).mp hs
        have : rest.length ≤ view.length := by rw [e1]; simp
        omega
      cases hasInvalid fs radix ((buf.drop off).take (n * c))
      · exact ⟨_, rfl, fun hs => (hcontra hs).elim⟩
      · exact ⟨_, rfl, fun _ => rfl⟩
    · have hcf : (decide (rest.length / c > n) || (rest.length / c == n && rest.length % c != 0))
          = false := by
        cases h : (decide (rest.length / c > n) || (rest.length / c == n && rest.length % c != 0))
        · rfl
        · exact absurd (hcond.mp h) hov
      rw [hcf]
      simp only [Bool.false_eq_true, if_false]
      have := (packAll_spec (fs := fs) hk hc hw hrad h256' rest.reverse.length
        rest.reverse (Nat.le_refl _)).2 (by rw [hasInvalid_reverse]; exact hvr)
      simp only [List.length_reverse] at this
      rw [this]
      exact ⟨_, rfl, fun _ => rfl⟩

/-! ### `from_buf_radix_internal` -/

theorem B_ge_256 {w : Nat} (hw : 8 ≤ w) : 256 ≤ B w := by
  unfold B; calc 256 = 2 ^ 8 := rfl
    _ ≤ 2 ^ w := Nat.pow_le_pow_right (by omega) hw

theorem fromBuf_lone_sign (w n : Nat) (fs be : Bool) (buf : List Nat) (radix : Nat)
    (h : buf.length = 1) :
    fromBufRadixInternal w n fs be buf radix true = .ok (.err .invalidDigit) := by
  simp [fromBufRadixInternal, h]

theorem fromBuf_spec {w n : Nat} {fs be : Bool} {buf : List Nat} {radix : Nat} {ls : Bool}
    (hn : 1 ≤ n) (hw8 : 8 ≤ w) (hw4 : 4 ∣ w) (hr : 2 ≤ radix) (h256 : radix < 256)
    (hbe : be = true ∨ ls = false) (hlen : (if ls then 1 else 0) < buf.length) :
    ArmSpec w n fs radix ((if be then buf else buf.reverse).drop (if ls then 1 else 0))
      (fromBufRadixInternal w n fs be buf radix ls) := by
  have hB := B_ge_256 hw8
  obtain ⟨q, hq⟩ := hw4
  unfold fromBufRadixInternal
  have h1 : (ls && buf.length == 1) = false := by
    cases ls
    · rfl
    · simp only [if_true] at hlen; simp; omega
  rw [h1]
  simp only [Bool.false_eq_true, if_false]
  have hoff : (if ls = true then 1 else 0) ≤ buf.length := by omega
  have hbe' : be = true ∨ (if ls = true then 1 else 0) = 0 := by
    rcases hbe with h | h
    · exact Or.inl h
    · right; simp [h]
  have hne256 : (radix == 256) = false := by simp; omega
  by_cases h2 : radix = 2
  · subst h2
    simp only [beq_self_eq_true, Bool.true_or, if_true]
    exact pow2Arm_spec (k := 1) (c := w) (by omega) (by omega) (by omega) rfl (by decide)
      (by omega) rfl hoff hbe'
  by_cases h4 : radix = 4
  · subst h4
    simp only [beq_self_eq_true, Bool.true_or, Bool.or_true, if_true]
    exact pow2Arm_spec (k := 2) (c := 2 * q) (by omega) (by omega) (by omega) rfl (by decide)
      (by omega) rfl hoff hbe'
  by_cases h16 : radix = 16
  · subst h16
    simp only [beq_self_eq_true, Bool.true_or, Bool.or_true, if_true]
    exact pow2Arm_spec (k := 4) (c := q) (by omega) (by omega) (by omega) rfl (by decide)
      (by omega) rfl hoff hbe'
  have e2 : (radix == 2) = false := by simpa using h2
  have e4 : (radix == 4) = false := by simpa using h4
  have e16 : (radix == 16) = false := by simpa using h16
  simp only [e2, e4, e16, hne256, Bool.or_self, Bool.false_eq_true, if_false]
  exact generalArm_spec hn hr h256 (by omega) rfl (by omega)

end Radix
end Bnum
