/-
  Bnum.Lemmas.Radix — lemmas about Model/Radix.lean (C10 parsing, C11 printing).

  C10
  * `digs fs bs` are the digit values of a byte view; `hasInvalid` ⇔ some digit `≥ radix`.
  * general arm (chunked Horner): `accLoop_spec` (one chunk; no `$Digit` overflow because a chunk has
    at most `power` digits and `radix^power < B w`), `mulDigitLoop_spec`, `checkedAdd_nat`,
    `chunkLoop_spec` (invariant `U out = valueOf (consumed prefix)`), `generalArm_spec`.
  * power-of-two arm: `packLoop_spec`, `packAll_spec` (bit packing = little-endian value in base
    `radix = 2^k`, `k ∣ w`), `skipZerosLoop_spec`, `overflow_cond`, `pow2Arm_spec`.
  * `ArmSpec` / `fromBuf_spec`: value or `PosOverflow` for digit strings, some error (and
    `InvalidDigit` when `radix^len ≤ 2^BITS`) otherwise.
  * `UI.fromStrRadix_matches`, `II.fromStrRadix_matches`: the model answers what
    `Spec.Radix.expectParse` prescribes (`Matches`); `finishParse_*` is the signed range test.
  * `UI/II.parseBytes_spec`, `UI.fromRadixBe_spec`, `UI.fromRadixLe_spec` (radix 256 through the
    closed forms of `from_be_slice`/`from_le_slice` in Lemmas/Endian.lean).
  C11
  * Spec side: `digitsLE_pos`, `emit_append_digitsLE` (chunk lemma), `valueOfLE_canonLE`, …
  * `toRadixDigitsLe_spec` (division by `radix_base_half`), `digitsLE_chunks` +
    `toBitwiseDigitsLe_spec` + `take_ldi_succ_eq` (exact bit slicing, `u8`/256 copy),
    `inexactInner_digit` / `inexactOuter_spec` / `toInexactBitwiseDigitsLe_spec` (radices 8, 32, 64,
    128), assembled in `UI.toRadixLe_spec`, `UI.toStrRadix_spec`, `II.toStrRadix_spec`.
  * round trips: `Grammar_canonStr`, `denote_canon`, `ofInt_U`, `ofInt_S`.
-/
import Bnum.Model.Radix
import Bnum.Spec.Radix
import Bnum.Lemmas.AddSub2
import Bnum.Lemmas.Mul
import Bnum.Lemmas.Div
import Bnum.Lemmas.Bits
import Bnum.Lemmas.Endian
set_option autoImplicit false
namespace Bnum
namespace Radix
open Spec.Radix

/-! ### Horner values -/

/-- Horner fold with a start value -/
def horner (r acc : Nat) (ds : List Nat) : Nat := ds.foldl (fun a d => a * r + d) acc

theorem valueOf_eq_horner (r : Nat) (ds : List Nat) : valueOf r ds = horner r 0 ds := rfl
@[simp] theorem horner_nil (r acc : Nat) : horner r acc [] = acc := rfl
@[simp] theorem horner_cons (r acc d : Nat) (ds : List Nat) :
    horner r acc (d :: ds) = horner r (acc * r + d) ds := rfl
theorem horner_append (r acc : Nat) (a b : List Nat) :
    horner r acc (a ++ b) = horner r (horner r acc a) b := by
  simp [horner, List.foldl_append]
theorem horner_eq (r : Nat) : ∀ (ds : List Nat) (acc : Nat),
    horner r acc ds = acc * r ^ ds.length + valueOf r ds
  | [], acc => by simp [valueOf]
  | d :: ds, acc => by
    have h1 := horner_eq r ds (acc * r + d)
    have h2 := horner_eq r ds (0 * r + d)
    rw [horner_cons, h1]
    show _ = _ + horner r 0 (d :: ds)
    rw [horner_cons, h2]; simp only [List.length_cons, Nat.pow_succ]; ring
theorem valueOf_nil (r : Nat) : valueOf r [] = 0 := rfl
theorem valueOf_cons (r d : Nat) (ds : List Nat) :
    valueOf r (d :: ds) = d * r ^ ds.length + valueOf r ds := by
  rw [valueOf_eq_horner, horner_cons, horner_eq]; simp
theorem valueOf_append (r : Nat) (a b : List Nat) :
    valueOf r (a ++ b) = valueOf r a * r ^ b.length + valueOf r b := by
  rw [valueOf_eq_horner, horner_append, horner_eq, ← valueOf_eq_horner]
theorem valueOf_lt {r : Nat} : ∀ (ds : List Nat), (∀ d ∈ ds, d < r) → valueOf r ds < r ^ ds.length
  | [], _ => by simp [valueOf]
  | d :: ds, h => by
    have h1 : d < r := h d (by simp)
    have h2 := valueOf_lt ds (fun e he => h e (by simp [he]))
    rw [valueOf_cons, List.length_cons, Nat.pow_succ]
    generalize r ^ ds.length = p at *
    have : (d + 1) * p ≤ r * p := Nat.mul_le_mul_right _ h1
    rw [Nat.add_mul] at this
    rw [Nat.mul_comm p r]; omega
theorem valueOf_replicate_zero (r k : Nat) (ds : List Nat) :
    valueOf r (List.replicate k 0 ++ ds) = valueOf r ds := by
  induction k with
  | zero => simp
  | succ k ih => rw [List.replicate_succ, List.cons_append, valueOf_cons]; simpa using ih
theorem valueOfLE_reverse (r : Nat) : ∀ (ds : List Nat), valueOfLE r ds.reverse = valueOf r ds
  | [] => rfl
  | d :: ds => by
    rw [List.reverse_cons, valueOf_cons]
    have : ∀ (a : List Nat) (x : Nat), valueOfLE r (a ++ [x]) = valueOfLE r a + r ^ a.length * x := by
      intro a x
      induction a with
      | nil => simp [valueOfLE]
      | cons y ys ih => simp only [List.cons_append, valueOfLE, ih, List.length_cons, Nat.pow_succ]; ring
    rw [this, valueOfLE_reverse r ds]; simp; ring
theorem valueOf_reverse (r : Nat) (ds : List Nat) : valueOf r ds.reverse = valueOfLE r ds := by
  rw [← valueOfLE_reverse, List.reverse_reverse]

/-! ### bytes and digits -/

/-- digit values of a byte view -/
def digs (fs : Bool) (bs : List Nat) : List Nat := bs.map (byteToDigit fs)

@[simp] theorem digs_nil (fs : Bool) : digs fs [] = [] := rfl
@[simp] theorem digs_cons (fs : Bool) (b : Nat) (bs : List Nat) :
    digs fs (b :: bs) = byteToDigit fs b :: digs fs bs := rfl
@[simp] theorem digs_length (fs : Bool) (bs : List Nat) : (digs fs bs).length = bs.length := by
  simp [digs]
theorem digs_append (fs : Bool) (a b : List Nat) : digs fs (a ++ b) = digs fs a ++ digs fs b := by
  simp [digs]
theorem digs_take (fs : Bool) (k : Nat) (a : List Nat) : digs fs (a.take k) = (digs fs a).take k := by
  simp [digs, List.map_take]
theorem digs_drop (fs : Bool) (k : Nat) (a : List Nat) : digs fs (a.drop k) = (digs fs a).drop k := by
  simp [digs, List.map_drop]
theorem digs_reverse (fs : Bool) (a : List Nat) : digs fs a.reverse = (digs fs a).reverse := by
  simp [digs]

theorem hasInvalid_false_iff {fs : Bool} {radix : Nat} : ∀ {bs : List Nat},
    hasInvalid fs radix bs = false ↔ ∀ d ∈ digs fs bs, d < radix % 256
  | [] => by simp [hasInvalid]
  | b :: bs => by
    have ih := hasInvalid_false_iff (fs := fs) (radix := radix) (bs := bs)
    unfold hasInvalid
    by_cases h : byteToDigit fs b ≥ radix % 256
    · simp [h]
    · simp only [h, if_false, ih, digs_cons, List.mem_cons, forall_eq_or_imp]
      constructor
      · intro g; exact ⟨by omega, g⟩
      · intro g; exact g.2
theorem hasInvalid_append (fs : Bool) (radix : Nat) : ∀ (a b : List Nat),
    hasInvalid fs radix (a ++ b) = (hasInvalid fs radix a || hasInvalid fs radix b)
  | [], b => by simp [hasInvalid]
  | x :: a, b => by
    simp only [List.cons_append, hasInvalid]
    split
    · simp
    · exact hasInvalid_append fs radix a b
theorem hasInvalid_take_drop (fs : Bool) (radix k : Nat) (a : List Nat) :
    hasInvalid fs radix a = (hasInvalid fs radix (a.take k) || hasInvalid fs radix (a.drop k)) := by
  rw [← hasInvalid_append, List.take_append_drop]
theorem hasInvalid_reverse (fs : Bool) (radix : Nat) (a : List Nat) :
    hasInvalid fs radix a.reverse = hasInvalid fs radix a := by
  cases h1 : hasInvalid fs radix a.reverse <;> cases h2 : hasInvalid fs radix a <;> try rfl
  · rw [hasInvalid_false_iff] at h1
    have : hasInvalid fs radix a = false := by
      rw [hasInvalid_false_iff]; intro d hd; apply h1; rw [digs_reverse]; simpa using hd
    simp [this] at h2
  · rw [hasInvalid_false_iff] at h2
    have : hasInvalid fs radix a.reverse = false := by
      rw [hasInvalid_false_iff]; intro d hd; apply h2; rw [digs_reverse] at hd; simpa using hd
    simp [this] at h1

/-! ### `radix_base` -/

theorem two_pow_le_pow {r : Nat} (hr : 2 ≤ r) (k : Nat) : 2 ^ k ≤ r ^ k := Nat.pow_le_pow_left hr k

theorem radixBaseLoop_spec {w r : Nat} (hr : 2 ≤ r) : ∀ (f base power : Nat),
    base = r ^ power → base < B w → power + f = w + 1 → 1 ≤ power →
    ∃ p, radixBaseLoop w r f base power = (r ^ p, p) ∧ 1 ≤ p ∧ r ^ p < B w ∧ B w ≤ r ^ (p + 1)
  | 0, base, power, hb, hlt, hf, _ => by
    exfalso
    have : power = w + 1 := by omega
    subst this
    have h1 := two_pow_le_pow hr (w + 1)
    have h2 : 2 ^ w < 2 ^ (w + 1) := Nat.pow_lt_pow_right (by omega) (by omega)
    unfold B at hlt; omega
  | f + 1, base, power, hb, hlt, hf, hp => by
    unfold radixBaseLoop
    by_cases h : base * r < B w
    · rw [if_pos h]
      exact radixBaseLoop_spec hr f (base * r) (power + 1) (by rw [hb, Nat.pow_succ]) h (by omega)
        (by omega)
    · rw [if_neg h]
      exact ⟨power, by rw [hb], hp, by rw [← hb]; exact hlt, by rw [Nat.pow_succ, ← hb]; omega⟩

theorem radixBase_spec {w r : Nat} (hr : 2 ≤ r) (hlt : r < B w) :
    ∃ p, radixBase w r = (r ^ p, p) ∧ 1 ≤ p ∧ r ^ p < B w ∧ B w ≤ r ^ (p + 1) := by
  unfold radixBase
  rw [Nat.mod_eq_of_lt hlt]
  exact radixBaseLoop_spec hr w r 1 (by simp) hlt (by omega) (by omega)

/-! ### one chunk: `accLoop` -/

theorem accLoop_spec {w : Nat} {fs : Bool} {radix : Nat} (h256 : radix % 256 = radix)
    (hB : radix % B w = radix) : ∀ (bs : List Nat) (acc : Nat),
    (acc + 1) * radix ^ bs.length ≤ B w →
    accLoop w fs radix bs acc
      = .ok (if hasInvalid fs radix bs then none else some (horner radix acc (digs fs bs)))
  | [], acc, _ => by simp [accLoop, hasInvalid]
  | b :: bs, acc, h => by
    unfold accLoop hasInvalid
    simp only [h256, hB]
    by_cases hd : byteToDigit fs b ≥ radix
    · simp [hd]
    · simp only [hd, if_false]
      rw [List.length_cons, Nat.pow_succ] at h
      have hpos : 0 < radix ^ bs.length := Nat.pow_pos (by omega)
      have h1 : (acc * radix + byteToDigit fs b + 1) * radix ^ bs.length ≤ B w := by
        calc (acc * radix + byteToDigit fs b + 1) * radix ^ bs.length
            ≤ ((acc + 1) * radix) * radix ^ bs.length :=
              Nat.mul_le_mul_right _ (by rw [Nat.add_mul]; omega)
          _ = (acc + 1) * (radix ^ bs.length * radix) := by ring
          _ ≤ B w := h
      have h2 : acc * radix + byteToDigit fs b + 1 ≤ B w :=
        Nat.le_trans (Nat.le_mul_of_pos_right _ hpos) h1
      rw [if_neg (by omega), accLoop_spec h256 hB bs _ h1]
      simp

/-! ### `out * base` : `mulDigitLoop` -/

theorem mulDigitLoop_spec {w base : Nat} (hb : base < B w) : ∀ (n : Nat) (out : List Nat) (carry : Nat),
    WF w n out → carry < B w →
    WF w n (mulDigitLoop w base out carry).1 ∧ (mulDigitLoop w base out carry).2 < B w ∧
    U w (mulDigitLoop w base out carry).1 + M w n * (mulDigitLoop w base out carry).2
      = U w out * base + carry
  | 0, out, carry, ho, hc => by
    have := ho.1; simp at this; subst this
    simp [mulDigitLoop, WF_nil, hc, M_zero]
  | n + 1, [], _, ho, _ => absurd ho.1 (by simp)
  | n + 1, d :: ds, carry, ho, hc => by
    rw [WF_cons] at ho
    obtain ⟨g1, g2, g3⟩ := Digit.carryingMul_spec ho.1 hb hc (B_pos w)
    obtain ⟨i1, i2, i3⟩ := mulDigitLoop_spec hb n ds (Digit.carryingMul w d base carry 0).2 ho.2 g3
    simp only [mulDigitLoop]
    refine ⟨WF_cons.mpr ⟨g2, i1⟩, i2, ?_⟩
    simp only [U_cons, M_succ]
    generalize (Digit.carryingMul w d base carry 0).1 = lo at *
    generalize (Digit.carryingMul w d base carry 0).2 = hi at *
    generalize (mulDigitLoop w base ds hi).1 = r1 at *
    generalize (mulDigitLoop w base ds hi).2 = r2 at *
    have : lo + B w * U w r1 + B w * M w n * r2 = lo + B w * (U w r1 + M w n * r2) := by ring
    rw [this, i3]
    have : (d + B w * U w ds) * base + carry = (d * base + carry + 0) + B w * (U w ds * base) := by ring
    rw [this, ← g1]; ring

/-! ### `checked_add` on naturals -/

theorem checkedAdd_nat {w n : Nat} {a b : List Nat} (ha : WF w n a) (hb : WF w n b) :
    (U w a + U w b < M w n →
      ∃ o, UI.checkedAdd w a b = some o ∧ WF w n o ∧ U w o = U w a + U w b) ∧
    (M w n ≤ U w a + U w b → UI.checkedAdd w a b = none) := by
  obtain ⟨h1, h2⟩ := UI.addLoop_spec n a b false ha hb
  have hr := U_lt h1
  unfold UI.checkedAdd UI.overflowingAdd tupleToOption
  cases hf : (UI.addLoop w a b false).2 <;> rw [hf] at h2 <;>
    simp only [Bool.toNat_false, Bool.toNat_true, Nat.mul_zero, Nat.mul_one, Nat.add_zero] at h2
  · constructor
    · intro _; exact ⟨_, by simp, h1, h2⟩
    · intro h; omega
  · constructor
    · intro h; omega
    · intro _; simp

/-! ### `ofNat` -/

theorem WF_ofNat (w : Nat) : ∀ (n v : Nat), WF w n (ofNat w n v)
  | 0, _ => WF_nil w
  | n + 1, v => WF_cons.mpr ⟨Nat.mod_lt _ (B_pos w), WF_ofNat w n _⟩
theorem U_ofNat (w : Nat) : ∀ (n v : Nat), U w (ofNat w n v) = v % M w n
  | 0, v => by simp [ofNat, M_zero, Nat.mod_one]
  | n + 1, v => by
    simp only [ofNat, U_cons, U_ofNat w n, M_succ]
    rw [Nat.mod_mul, Nat.add_comm]
theorem eq_ofNat {w n : Nat} {x : List Nat} (hx : WF w n x) : x = ofNat w n (U w x) :=
  U_injective hx (WF_ofNat w n _) (by rw [U_ofNat, Nat.mod_eq_of_lt (U_lt hx)])

/-! ### the chunk loop of the general arm -/

theorem chunkLoop_nil (w : Nat) (fs : Bool) (radix base power f : Nat) (out : List Nat) :
    chunkLoop w fs radix base power f [] out = .ok (.ok out) := by cases f <;> rfl

theorem chunkLoop_succ (w : Nat) (fs : Bool) (radix base power f : Nat) (rest out : List Nat)
    (hne : rest ≠ []) :
    chunkLoop w fs radix base power (f + 1) rest out =
      if (mulDigitLoop w base out 0).2 ≠ 0 then
        (if hasInvalid fs radix (rest.take power) then .ok (.err .invalidDigit)
         else .ok (.err .posOverflow))
      else
        match accLoop w fs radix (rest.take power) 0 with
        | .panic => .panic
        | .ok none => .ok (.err .invalidDigit)
        | .ok (some nn) =>
          match UI.checkedAdd w (mulDigitLoop w base out 0).1 (fromDigit out.length nn) with
          | none => .ok (.err .posOverflow)
          | some o => chunkLoop w fs radix base power f (rest.drop power) o := by
  cases rest with
  | nil => exact absurd rfl hne
  | cons b bs => rfl

theorem pow_split {r p L : Nat} (h : p ≤ L) : r ^ L = r ^ p * r ^ (L - p) := by
  rw [← Nat.pow_add]; congr 1; omega

theorem chunkLoop_spec {w n : Nat} {fs : Bool} {radix p : Nat} (hn : 1 ≤ n)
    (h256 : radix % 256 = radix) (hB : radix % B w = radix) (hr : 2 ≤ radix) (hp : 1 ≤ p)
    (hbase : radix ^ p < B w) :
    ∀ (f : Nat) (rest out : List Nat), WF w n out → p ∣ rest.length → rest.length ≤ f →
    (hasInvalid fs radix rest = false →
      chunkLoop w fs radix (radix ^ p) p f rest out = .ok (
        if horner radix (U w out) (digs fs rest) < M w n
        then .ok (ofNat w n (horner radix (U w out) (digs fs rest))) else .err .posOverflow)) ∧
    (hasInvalid fs radix rest = true →
      ∃ k, chunkLoop w fs radix (radix ^ p) p f rest out = .ok (.err k) ∧
        ((U w out + 1) * radix ^ rest.length ≤ M w n → k = .invalidDigit)) := by
  intro f
  induction f with
  | zero =>
    intro rest out ho _ hf
    have : rest = [] := List.eq_nil_of_length_eq_zero (by omega)
    subst this
    rw [chunkLoop_nil]
    constructor
    · intro _; simp [U_lt ho, ← eq_ofNat ho]
    · intro h; simp [hasInvalid] at h
  | succ f ih =>
    intro rest out ho hdvd hf
    by_cases hne : rest = []
    · subst hne
      rw [chunkLoop_nil]
      constructor
      · intro _; simp [U_lt ho, ← eq_ofNat ho]
      · intro h; simp [hasInvalid] at h
    have hLpos : 0 < rest.length := List.length_pos_iff.mpr hne
    have hpL : p ≤ rest.length := Nat.le_of_dvd hLpos hdvd
    have hdvd' : p ∣ (rest.drop p).length := by
      rw [List.length_drop]; exact Nat.dvd_sub hdvd (Nat.dvd_refl p)
    have hf' : (rest.drop p).length ≤ f := by rw [List.length_drop]; omega
    have htl : (rest.take p).length = p := by rw [List.length_take]; omega
    rw [chunkLoop_succ _ _ _ _ _ _ _ _ hne]
    obtain ⟨m1, m2, m3⟩ := mulDigitLoop_spec hbase n out 0 ho (B_pos w)
    have hacc := accLoop_spec (fs := fs) h256 hB (rest.take p) 0 (by rw [htl]; omega)
    have hinv := hasInvalid_take_drop fs radix p rest
    have hsplit : horner radix (U w out) (digs fs rest)
        = horner radix (U w out * radix ^ p + valueOf radix (digs fs (rest.take p)))
            (digs fs (rest.drop p)) := by
      have e : digs fs rest = digs fs (rest.take p) ++ digs fs (rest.drop p) := by
        rw [← digs_append, List.take_append_drop]
      rw [e, horner_append, horner_eq radix (digs fs (rest.take p)), digs_length, htl]
    rw [ho.1]
    generalize hm : mulDigitLoop w (radix ^ p) out 0 = m at *
    have hum := U_lt m1
    have hMpos := M_pos w n
    constructor
    · -- all bytes valid
      intro hv
      rw [hv] at hinv
      have hv1 : hasInvalid fs radix (rest.take p) = false := by
        cases h : hasInvalid fs radix (rest.take p)
        · rfl
        · rw [h] at hinv; simp at hinv
      have hv2 : hasInvalid fs radix (rest.drop p) = false := by
        cases h : hasInvalid fs radix (rest.drop p)
        · rfl
        · rw [h] at hinv; simp at hinv
      have hlt : valueOf radix (digs fs (rest.take p)) < radix ^ p := by
        have := valueOf_lt (r := radix) (digs fs (rest.take p))
          (by have := hasInvalid_false_iff.mp hv1; rwa [h256] at this)
        rwa [digs_length, htl] at this
      have hge : U w out * radix ^ p + valueOf radix (digs fs (rest.take p))
          ≤ horner radix (U w out) (digs fs rest) := by
        rw [hsplit, horner_eq]
        have : 0 < radix ^ (digs fs (rest.drop p)).length := Nat.pow_pos (by omega)
        exact Nat.le_trans (Nat.le_mul_of_pos_right _ this) (Nat.le_add_right _ _)
      by_cases hc : m.2 ≠ 0
      · rw [if_pos hc, hv1]
        have : M w n ≤ U w out * radix ^ p := by
          have : M w n * 1 ≤ M w n * m.2 := Nat.mul_le_mul_left _ (by omega)
          omega
        simp only [Bool.false_eq_true, if_false]
        rw [if_neg (by omega)]
      · rw [if_neg hc]
        have hc0 : m.2 = 0 := by omega
        rw [hc0] at m3
        rw [hacc, hv1]
        simp only [Bool.false_eq_true, if_false]
        rw [← valueOf_eq_horner]
        obtain ⟨a1, a2⟩ := checkedAdd_nat m1 (WF_fromDigit (w := w) hn (Nat.lt_trans hlt hbase))
        rw [U_fromDigit _ hn] at a1 a2
        by_cases hfit : U w m.1 + valueOf radix (digs fs (rest.take p)) < M w n
        · obtain ⟨o, e1, e2, e3⟩ := a1 hfit
          rw [e1]
          simp only
          have m3' : U w m.1 = U w out * radix ^ p := by omega
          rw [(ih (rest.drop p) o e2 hdvd' hf').1 hv2, hsplit, e3, m3']
        · rw [a2 (by omega)]
          simp only
          rw [if_neg (by omega)]
    · -- some byte invalid
      intro hv
      rw [hv] at hinv
      by_cases hc : m.2 ≠ 0
      · rw [if_pos hc]
        have hcontra : (U w out + 1) * radix ^ rest.length ≤ M w n → False := by
          intro hs
          have h1 : radix ^ p ≤ radix ^ rest.length := Nat.pow_le_pow_right (by omega) hpL
          have h2 : U w out * radix ^ p ≤ U w out * radix ^ rest.length := Nat.mul_le_mul_left _ h1
          have h3 : 0 < radix ^ rest.length := Nat.pow_pos (by omega)
          have h4 : M w n * 1 ≤ M w n * m.2 := Nat.mul_le_mul_left _ (by omega)
          rw [Nat.add_mul] at hs
          omega
        cases hasInvalid fs radix (rest.take p)
        · exact ⟨_, rfl, fun hs => (hcontra hs).elim⟩
        · exact ⟨_, rfl, fun _ => rfl⟩
      · rw [if_neg hc]
        have hc0 : m.2 = 0 := by omega
        rw [hc0] at m3
        rw [hacc]
        cases hv1 : hasInvalid fs radix (rest.take p)
        · have hv2 : hasInvalid fs radix (rest.drop p) = true := by
            rw [hv1] at hinv; simpa using hinv.symm
          simp only [Bool.false_eq_true, if_false]
          rw [← valueOf_eq_horner]
          have hlt : valueOf radix (digs fs (rest.take p)) < radix ^ p := by
            have := valueOf_lt (r := radix) (digs fs (rest.take p))
              (by have := hasInvalid_false_iff.mp hv1; rwa [h256] at this)
            rwa [digs_length, htl] at this
          obtain ⟨a1, a2⟩ := checkedAdd_nat m1 (WF_fromDigit (w := w) hn (Nat.lt_trans hlt hbase))
          rw [U_fromDigit _ hn] at a1 a2
          have hbound : (U w out + 1) * radix ^ rest.length ≤ M w n →
              (U w m.1 + valueOf radix (digs fs (rest.take p)) + 1) * radix ^ (rest.length - p)
                ≤ M w n := by
            intro hs
            rw [pow_split hpL] at hs
            refine Nat.le_trans (Nat.mul_le_mul_right _ ?_) (by rw [← Nat.mul_assoc] at hs; exact hs)
            rw [Nat.add_mul]; omega
          by_cases hfit : U w m.1 + valueOf radix (digs fs (rest.take p)) < M w n
          · obtain ⟨o, e1, e2, e3⟩ := a1 hfit
            rw [e1]
            simp only
            obtain ⟨k, k1, k2⟩ := (ih (rest.drop p) o e2 hdvd' hf').2 hv2
            refine ⟨k, k1, fun hs => k2 ?_⟩
            rw [e3, List.length_drop]; exact hbound hs
          · rw [a2 (by omega)]
            refine ⟨_, rfl, fun hs => ?_⟩
            exfalso
            have := hbound hs
            have h3 : 0 < radix ^ (rest.length - p) := Nat.pow_pos (by omega)
            have := Nat.le_trans (Nat.le_mul_of_pos_right _ h3) this
            omega
        · exact ⟨_, rfl, fun _ => rfl⟩

/-! ### the general arm -/

/-- what `from_buf_radix_internal` answers for a most-significant-first byte view of the digits:
    `Good` = the value when every byte is a digit, any error with `InvalidDigit` forced for short
    inputs otherwise -/
def ArmSpec (w n : Nat) (fs : Bool) (radix : Nat) (view : List Nat) (res : Outcome PRes) : Prop :=
  (hasInvalid fs radix view = false →
    res = .ok (if valueOf radix (digs fs view) < M w n
      then .ok (ofNat w n (valueOf radix (digs fs view))) else .err .posOverflow)) ∧
  (hasInvalid fs radix view = true →
    ∃ k, res = .ok (.err k) ∧ (radix ^ view.length ≤ M w n → k = .invalidDigit))

theorem generalArm_spec {w n : Nat} {fs be : Bool} {buf : List Nat} {radix off len : Nat}
    (hn : 1 ≤ n) (hr : 2 ≤ radix) (h256 : radix < 256) (hB : radix < B w)
    (hlen : len = buf.length - off) (hpos : 0 < len) :
    ArmSpec w n fs radix ((if be then buf else buf.reverse).drop off)
      (generalArm w n fs be buf radix off len) := by
  obtain ⟨p, hbp, hp1, hp2, _⟩ := radixBase_spec hr hB
  have h256' : radix % 256 = radix := Nat.mod_eq_of_lt h256
  have hB' : radix % B w = radix := Nat.mod_eq_of_lt hB
  unfold generalArm
  simp only [hbp]
  generalize hview : (if be then buf else buf.reverse).drop off = view
  have hvl : view.length = len := by
    rw [← hview, List.length_drop]; split <;> simp [hlen]
  generalize hsp : (if (len % p == 0) = true then p else len % p) = split
  have hs1 : 1 ≤ split ∧ split ≤ p ∧ split ≤ len ∧ p ∣ len - split := by
    have hmod := Nat.mod_lt len (show 0 < p by omega)
    have hle := Nat.mod_le len p
    by_cases h0 : len % p = 0
    · simp only [h0, beq_self_eq_true, if_true] at hsp
      subst hsp
      have hd : p ∣ len := Nat.dvd_of_mod_eq_zero h0
      exact ⟨hp1, Nat.le_refl _, Nat.le_of_dvd hpos hd, Nat.dvd_sub hd (Nat.dvd_refl p)⟩
    · have : (len % p == 0) = false := by simpa using h0
      simp only [this, Bool.false_eq_true, if_false] at hsp
      subst hsp
      refine ⟨by omega, by omega, hle, ?_⟩
      exact ⟨len / p, by have := Nat.div_add_mod len p; omega⟩
  obtain ⟨hs1, hs2, hs3, hs4⟩ := hs1
  have htl : (view.take split).length = split := by rw [List.length_take]; omega
  have hpw : radix ^ split ≤ radix ^ p := Nat.pow_le_pow_right (by omega) hs2
  have hacc := accLoop_spec (fs := fs) h256' hB' (view.take split) 0 (by rw [htl]; omega)
  have hinv := hasInvalid_take_drop fs radix split view
  have hdl : (view.drop split).length = len - split := by rw [List.length_drop, hvl]
  have hsplitV : valueOf radix (digs fs view)
      = horner radix (valueOf radix (digs fs (view.take split))) (digs fs (view.drop split)) := by
    have e : digs fs view = digs fs (view.take split) ++ digs fs (view.drop split) := by
      rw [← digs_append, List.take_append_drop]
    rw [valueOf_eq_horner, e, horner_append]; rfl
  rw [hacc]
  constructor
  · intro hv
    rw [hv] at hinv
    have hv1 : hasInvalid fs radix (view.take split) = false := by
      cases h : hasInvalid fs radix (view.take split)
      · rfl
      · rw [h] at hinv; simp at hinv
    have hv2 : hasInvalid fs radix (view.drop split) = false := by
      cases h : hasInvalid fs radix (view.drop split)
      · rfl
      · rw [h] at hinv; simp at hinv
    have hlt : valueOf radix (digs fs (view.take split)) < radix ^ split := by
      have := valueOf_lt (r := radix) (digs fs (view.take split))
        (by have := hasInvalid_false_iff.mp hv1; rwa [h256'] at this)
      rwa [digs_length, htl] at this
    rw [hv1]
    simp only [Bool.false_eq_true, if_false]
    rw [← valueOf_eq_horner]
    have hwf := WF_fromDigit (w := w) hn (show valueOf radix (digs fs (view.take split)) < B w by omega)
    have := (chunkLoop_spec (fs := fs) hn h256' hB' hr hp1 hp2 view.length (view.drop split) _ hwf
      (by rw [hdl]; exact hs4) (by rw [hdl, hvl]; omega)).1 hv2
    rw [this, U_fromDigit _ hn, hsplitV]
  · intro hv
    rw [hv] at hinv
    cases hv1 : hasInvalid fs radix (view.take split)
    · have hv2 : hasInvalid fs radix (view.drop split) = true := by
        rw [hv1] at hinv; simpa using hinv.symm
      have hlt : valueOf radix (digs fs (view.take split)) < radix ^ split := by
        have := valueOf_lt (r := radix) (digs fs (view.take split))
          (by have := hasInvalid_false_iff.mp hv1; rwa [h256'] at this)
        rwa [digs_length, htl] at this
      simp only [Bool.false_eq_true, if_false]
      rw [← valueOf_eq_horner]
      have hwf := WF_fromDigit (w := w) hn
        (show valueOf radix (digs fs (view.take split)) < B w by omega)
      obtain ⟨k, k1, k2⟩ := (chunkLoop_spec (fs := fs) hn h256' hB' hr hp1 hp2 view.length
        (view.drop split) _ hwf (by rw [hdl]; exact hs4) (by rw [hdl, hvl]; omega)).2 hv2
      refine ⟨k, k1, fun hs => k2 ?_⟩
      rw [U_fromDigit _ hn, hdl]
      rw [hvl, pow_split hs3] at hs
      exact Nat.le_trans (Nat.mul_le_mul_right _ (by omega)) hs
    · exact ⟨_, rfl, fun _ => rfl⟩

/-! ### the power-of-two arm: bit packing -/

theorem valueOfLE_append (r : Nat) : ∀ (a b : List Nat),
    valueOfLE r (a ++ b) = valueOfLE r a + r ^ a.length * valueOfLE r b
  | [], b => by simp [valueOfLE]
  | x :: a, b => by
    simp only [List.cons_append, valueOfLE, valueOfLE_append r a b, List.length_cons, Nat.pow_succ]
    ring
theorem valueOfLE_lt {r : Nat} (ds : List Nat) (h : ∀ d ∈ ds, d < r) : valueOfLE r ds < r ^ ds.length := by
  rw [← valueOf_reverse]
  have := valueOf_lt (r := r) ds.reverse (by intro d hd; exact h d (by simpa using hd))
  simpa using this

theorem or_mul_pow {s c : Nat} (q : Nat) (h : c < 2 ^ s) : c ||| (q * 2 ^ s) = c + q * 2 ^ s := by
  rw [Nat.or_comm, Nat.mul_comm, ← Nat.two_pow_add_eq_or_of_lt h q, Nat.add_comm]

theorem packLoop_spec {w k c : Nat} {fs : Bool} {radix : Nat} (hw : w = k * c)
    (hrad : radix = 2 ^ k) (h256 : radix % 256 = radix) :
    ∀ (bs : List Nat) (j acc : Nat), j + bs.length ≤ c → acc < 2 ^ (k * j) →
    packLoop w fs radix k bs j acc =
      if hasInvalid fs radix bs then none
      else some (acc + 2 ^ (k * j) * valueOfLE radix (digs fs bs))
  | [], j, acc, _, _ => by simp [packLoop, hasInvalid, valueOfLE]
  | b :: bs, j, acc, hj, hacc => by
    unfold packLoop hasInvalid
    simp only [h256]
    by_cases hd : byteToDigit fs b ≥ radix
    · simp [hd]
    · simp only [hd, if_false]
      have hdlt : byteToDigit fs b < 2 ^ k := by omega
      simp only [List.length_cons] at hj
      have hP : 2 ^ (k * (j + 1)) = 2 ^ k * 2 ^ (k * j) := by
        rw [← Nat.pow_add]; congr 1; ring
      have hle : 2 ^ (k * (j + 1)) ≤ B w := by
        unfold B; rw [hw]; exact Nat.pow_le_pow_right (by omega) (Nat.mul_le_mul_left _ (by omega))
      generalize hPd : 2 ^ (k * j) = P at *
      have hPpos : 0 < P := by rw [← hPd]; exact Nat.pow_pos (by omega)
      have hdP : byteToDigit fs b * P < 2 ^ k * P := Nat.mul_lt_mul_of_pos_right hdlt hPpos
      have hsh : (byteToDigit fs b <<< (j * k)) % B w = byteToDigit fs b * P := by
        rw [Nat.shiftLeft_eq, Nat.mul_comm j k, hPd, Nat.mod_eq_of_lt (by omega)]
      rw [hsh, ← hPd, or_mul_pow _ (by rw [hPd]; exact hacc), hPd]
      have hacc' : acc + byteToDigit fs b * P < 2 ^ (k * (j + 1)) := by
        rw [hP]
        have : (byteToDigit fs b + 1) * P ≤ 2 ^ k * P := Nat.mul_le_mul_right _ hdlt
        rw [Nat.add_mul] at this; omega
      rw [packLoop_spec hw hrad h256 bs (j + 1) _ (by omega) hacc']
      split
      · rfl
      · simp only [digs_cons, valueOfLE, hP, hrad]; congr 1; ring

theorem packAll_spec {w k c : Nat} {fs : Bool} {radix : Nat} (hk : 1 ≤ k) (hc : 1 ≤ c)
    (hw : w = k * c) (hrad : radix = 2 ^ k) (h256 : radix % 256 = radix) :
    ∀ (f : Nat) (view : List Nat), view.length ≤ f →
    (hasInvalid fs radix view = false →
      ∃ ds, packAll w fs radix k c f view = some ds ∧ ds.length * c < view.length + c ∧
        (∀ d ∈ ds, d < B w) ∧ U w ds = valueOfLE radix (digs fs view)) ∧
    (hasInvalid fs radix view = true → packAll w fs radix k c f view = none) := by
  have hBw : B w = radix ^ c := by unfold B; rw [hw, hrad, Nat.pow_mul]
  intro f
  induction f with
  | zero =>
    intro view hf
    have : view = [] := List.eq_nil_of_length_eq_zero (by omega)
    subst this
    refine ⟨fun _ => ⟨[], rfl, by simp; omega, by simp, by simp [valueOfLE]⟩, fun h => ?_⟩
    simp [hasInvalid] at h
  | succ f ih =>
    intro view hf
    cases view with
    | nil =>
      refine ⟨fun _ => ⟨[], rfl, by simp; omega, by simp, by simp [valueOfLE]⟩, fun h => ?_⟩
      simp [hasInvalid] at h
    | cons b bs =>
      generalize hv : b :: bs = view at *
      have hlen : 0 < view.length := by rw [← hv]; simp
      have hunf : packAll w fs radix k c (f + 1) view =
          match packLoop w fs radix k (view.take c) 0 0 with
          | none => none
          | some d =>
            match packAll w fs radix k c f (view.drop c) with
            | none => none
            | some ds => some (d :: ds) := by rw [← hv]; rfl
      have hpl := packLoop_spec (fs := fs) hw hrad h256 (view.take c) 0 0
        (by rw [List.length_take]; omega) (by simp)
      simp only [Nat.mul_zero, Nat.pow_zero, Nat.one_mul, Nat.zero_add] at hpl
      have hinv := hasInvalid_take_drop fs radix c view
      have hdl : (view.drop c).length ≤ f := by rw [List.length_drop]; omega
      obtain ⟨ih1, ih2⟩ := ih (view.drop c) hdl
      rw [hunf, hpl]
      constructor
      · intro hval
        rw [hval] at hinv
        have hv1 : hasInvalid fs radix (view.take c) = false := by
          cases h : hasInvalid fs radix (view.take c)
          · rfl
          · rw [h] at hinv; simp at hinv
        have hv2 : hasInvalid fs radix (view.drop c) = false := by
          cases h : hasInvalid fs radix (view.drop c)
          · rfl
          · rw [h] at hinv; simp at hinv
        obtain ⟨ds, e1, e2, e3, e4⟩ := ih1 hv2
        rw [hv1, e1]
        simp only [Bool.false_eq_true, if_false]
        have hlt : valueOfLE radix (digs fs (view.take c)) < radix ^ (view.take c).length := by
          have := valueOfLE_lt (r := radix) (digs fs (view.take c))
            (by have := hasInvalid_false_iff.mp hv1; rwa [h256] at this)
          rwa [digs_length] at this
        have hpw : radix ^ (view.take c).length ≤ radix ^ c :=
          Nat.pow_le_pow_right (by rw [hrad]; exact Nat.pow_pos (by omega))
            (by rw [List.length_take]; omega)
        refine ⟨_, rfl, ?_, ?_, ?_⟩
        · simp only [List.length_cons, Nat.add_mul, Nat.one_mul]
          rw [List.length_drop] at e2
          by_cases hcl : c ≤ view.length
          · omega
          · have : view.drop c = [] := List.drop_eq_nil_of_le (by omega)
            rw [this] at e1
            have : ds = [] := by
              cases f <;> simp [packAll] at e1 <;> exact e1
            subst this; simp; omega
        · intro d hd
          rcases List.mem_cons.mp hd with h | h
          · rw [h, hBw]; omega
          · exact e3 d h
        · rw [U_cons, e4]
          conv => rhs; rw [← List.take_append_drop c view, digs_append, valueOfLE_append, digs_length]
          by_cases hcl : c ≤ view.length
          · rw [List.length_take, Nat.min_eq_left hcl, hBw]
          · have : view.drop c = [] := List.drop_eq_nil_of_le (by omega)
            rw [this]; simp [valueOfLE]
      · intro hval
        rw [hval] at hinv
        cases hv1 : hasInvalid fs radix (view.take c)
        · have hv2 : hasInvalid fs radix (view.drop c) = true := by
            rw [hv1] at hinv; simpa using hinv.symm
          rw [ih2 hv2]
          simp
        · simp

/-! ### the power-of-two arm: zero skipping, capacity test, result -/

theorem skipZerosLoop_spec (fs : Bool) : ∀ (ms : List Nat), ∃ zs rest, ms = zs ++ rest ∧
    (∀ b ∈ zs, byteToDigit fs b = 0) ∧ skipZerosLoop fs ms = rest.length ∧
    (∀ b, rest.head? = some b → byteToDigit fs b ≠ 0)
  | [] => ⟨[], [], rfl, by simp, rfl, by simp⟩
  | b :: bs => by
    unfold skipZerosLoop
    by_cases h : byteToDigit fs b = 0
    · obtain ⟨zs, rest, e1, e2, e3, e4⟩ := skipZerosLoop_spec fs bs
      refine ⟨b :: zs, rest, by rw [e1]; rfl, ?_, by simp [h, e3], e4⟩
      intro x hx
      rcases List.mem_cons.mp hx with hx | hx
      · rw [hx]; exact h
      · exact e2 x hx
    · exact ⟨[], b :: bs, rfl, by simp, by simp [h], by simpa using h⟩

theorem overflow_cond (n c len : Nat) (hc : 1 ≤ c) :
    (decide (len / c > n) || (len / c == n && len % c != 0)) = true ↔ n * c < len := by
  have h1 := Nat.div_add_mod len c
  have h2 := Nat.mod_lt len (show 0 < c by omega)
  generalize len / c = q at *
  generalize len % c = r at *
  simp only [Bool.or_eq_true, decide_eq_true_eq, Bool.and_eq_true, beq_iff_eq, bne_iff_ne, ne_eq]
  constructor
  · rintro (h | ⟨h, h'⟩)
    · have : c * (n + 1) ≤ c * q := Nat.mul_le_mul_left _ h
      rw [Nat.mul_add, Nat.mul_one, Nat.mul_comm c n] at this; omega
    · subst h; rw [Nat.mul_comm]; omega
  · intro h
    by_cases hq : q > n
    · exact Or.inl hq
    · right
      have hqn : q = n := by
        by_contra hne
        have : c * (q + 1) ≤ c * n := Nat.mul_le_mul_left _ (by omega)
        rw [Nat.mul_add, Nat.mul_one, Nat.mul_comm c n] at this; omega
      subst hqn
      refine ⟨rfl, ?_⟩
      intro hr; subst hr; rw [Nat.mul_comm] at h; omega

theorem digs_zero {fs : Bool} {zs : List Nat} (h : ∀ b ∈ zs, byteToDigit fs b = 0) :
    digs fs zs = List.replicate zs.length 0 := by
  rw [List.eq_replicate_iff]
  refine ⟨by simp, ?_⟩
  intro d hd
  simp only [digs, List.mem_map] at hd
  obtain ⟨b, hb, rfl⟩ := hd
  exact h b hb

theorem hasInvalid_take_of_false {fs : Bool} {radix : Nat} (k : Nat) {a : List Nat}
    (h : hasInvalid fs radix a = false) : hasInvalid fs radix (a.take k) = false := by
  have := hasInvalid_take_drop fs radix k a
  rw [h] at this
  cases h' : hasInvalid fs radix (a.take k)
  · rfl
  · rw [h'] at this; simp at this

theorem pow2Arm_spec {w n k c : Nat} {fs be : Bool} {buf : List Nat} {radix off len0 : Nat}
    (hk : 1 ≤ k) (hc : 1 ≤ c) (hw : w = k * c) (hrad : radix = 2 ^ k)
    (hlog : ilog2 radix = k) (h256 : radix < 256) (hlen : len0 = buf.length - off)
    (hoff : off ≤ buf.length) (hbe : be = true ∨ off = 0) :
    ArmSpec w n fs radix ((if be then buf else buf.reverse).drop off)
      (.ok (pow2Arm w n fs be buf radix off len0)) := by
  have h256' : radix % 256 = radix := Nat.mod_eq_of_lt h256
  have hr2 : 2 ≤ radix := by
    rw [hrad]; calc 2 = 2 ^ 1 := rfl
      _ ≤ 2 ^ k := Nat.pow_le_pow_right (by omega) hk
  have hM : M w n = radix ^ (n * c) := by
    unfold M; rw [hw, hrad, ← Nat.pow_mul]; congr 1; ring
  have hwk : w / k = c := by rw [hw]; exact Nat.mul_div_cancel_left c (by omega)
  generalize hview : (if be then buf else buf.reverse).drop off = view
  have hmsf : (if be then buf.drop (buf.length - len0) else (buf.take len0).reverse) = view := by
    rw [← hview]
    cases be
    · have : off = 0 := by simpa using hbe
      subst this
      simp [hlen]
    · simp only [if_true]; congr 1; omega
  obtain ⟨zs, rest, e1, e2, e3, e4⟩ := skipZerosLoop_spec fs view
  have hls : (if be then buf.reverse else buf).take rest.length = rest.reverse := by
    cases be
    · have h0 : off = 0 := by simpa using hbe
      subst h0
      simp only [Bool.false_eq_true, if_false, List.drop_zero] at hview ⊢
      have : buf = rest.reverse ++ zs.reverse := by
        rw [← List.reverse_append, ← e1, ← hview, List.reverse_reverse]
      rw [this, List.take_left' (by simp)]
    · simp only [if_true] at hview ⊢
      have : buf.reverse = rest.reverse ++ (buf.take off ++ zs).reverse := by
        rw [← List.reverse_append, List.append_assoc, ← e1, ← hview, List.take_append_drop]
      rw [this, List.take_left' (by simp)]
  have hscan : hasInvalid fs radix view = false →
      hasInvalid fs radix ((buf.drop off).take (n * c)) = false := by
    intro hv
    apply hasInvalid_take_of_false
    cases be
    · have h0 : off = 0 := by simpa using hbe
      subst h0
      simp only [Bool.false_eq_true, if_false, List.drop_zero] at hview ⊢
      rw [← hview, hasInvalid_reverse] at hv; exact hv
    · simp only [if_true] at hview; rw [hview]; exact hv
  have hinvsplit : hasInvalid fs radix view = hasInvalid fs radix rest := by
    rw [e1, hasInvalid_append]
    have : hasInvalid fs radix zs = false := by
      rw [hasInvalid_false_iff]; intro d hd
      rw [digs_zero e2, List.mem_replicate] at hd
      omega
    rw [this]; simp
  have hval : valueOf radix (digs fs view) = valueOf radix (digs fs rest) := by
    rw [e1, digs_append, digs_zero e2, valueOf_replicate_zero]
  unfold pow2Arm
  simp only [hmsf, e3, hlog, hwk, hls, List.length_reverse]
  have hcond := overflow_cond n c rest.length hc
  constructor
  · intro hv
    have hvr : hasInvalid fs radix rest = false := by rw [← hinvsplit]; exact hv
    have hdr : ∀ d ∈ digs fs rest, d < radix := by
      have := hasInvalid_false_iff.mp hvr; rwa [h256'] at this
    by_cases hov : n * c < rest.length
    · rw [if_pos (hcond.mpr hov), hscan hv]
      simp only [Bool.false_eq_true, if_false]
      have hge : M w n ≤ valueOf radix (digs fs view) := by
        rw [hval, hM]
        match rest, e4, hov with
        | [], _, hov => simp at hov
        | b0 :: rest', e4, hov =>
          have hd0 : byteToDigit fs b0 ≠ 0 := e4 b0 rfl
          rw [digs_cons, valueOf_cons, digs_length]
          simp only [List.length_cons] at hov
          have h1 : radix ^ (n * c) ≤ radix ^ rest'.length :=
            Nat.pow_le_pow_right (by omega) (by omega)
          have h2 : 1 * radix ^ rest'.length ≤ byteToDigit fs b0 * radix ^ rest'.length :=
            Nat.mul_le_mul_right _ (by omega)
          omega
      rw [if_neg (by omega)]
    · have hcf : (decide (rest.length / c > n) || (rest.length / c == n && rest.length % c != 0))
          = false := by
        cases h : (decide (rest.length / c > n) || (rest.length / c == n && rest.length % c != 0))
        · rfl
        · exact absurd (hcond.mp h) hov
      rw [hcf]
      simp only [Bool.false_eq_true, if_false]
      obtain ⟨ds, p1, p2, p3, p4⟩ := (packAll_spec (fs := fs) hk hc hw hrad h256' rest.reverse.length
        rest.reverse (Nat.le_refl _)).1 (by rw [hasInvalid_reverse]; exact hvr)
      simp only [List.length_reverse] at p1 p2
      rw [p1]
      simp only
      have hdl : ds.length ≤ n := by
        have : ds.length * c < (n + 1) * c := by rw [Nat.add_mul, Nat.one_mul]; omega
        have := Nat.lt_of_mul_lt_mul_right this
        omega
      have hlt : valueOf radix (digs fs view) < M w n := by
        rw [hval, hM]
        have h1 := valueOf_lt (r := radix) (digs fs rest) hdr
        rw [digs_length] at h1
        have h2 : radix ^ rest.length ≤ radix ^ (n * c) := Nat.pow_le_pow_right (by omega) (by omega)
        omega
      rw [if_pos hlt]
      congr 2
      have hwf : WF w n (ds ++ List.replicate (n - ds.length) 0) := by
        refine ⟨by simp; omega, ?_⟩
        intro d hd
        rcases List.mem_append.mp hd with h | h
        · exact p3 d h
        · rw [List.mem_replicate] at h; rw [h.2]; exact B_pos w
      rw [eq_ofNat hwf, U_append, U_replicate_zero, p4, digs_reverse, valueOfLE_reverse, hval]
      simp
  · intro hv
    have hvr : hasInvalid fs radix rest = true := by rw [← hinvsplit]; exact hv
    by_cases hov : n * c < rest.length
    · rw [if_pos (hcond.mpr hov)]
      have hcontra : radix ^ view.length ≤ M w n → False := by
        intro hs
        rw [hM] at hs
        have := (Nat.pow_le_pow_iff_right (by omega)).mp hs
        have : rest.length ≤ view.length := by rw [e1]; simp
        omega
      cases hasInvalid fs radix ((buf.drop off).take (n * c))
      · exact ⟨_, rfl, fun hs => (hcontra hs).elim⟩
      · exact ⟨_, rfl, fun _ => rfl⟩
    · have hcf : (decide (rest.length / c > n) || (rest.length / c == n && rest.length % c != 0))
          = false := by
        cases h : (decide (rest.length / c > n) || (rest.length / c == n && rest.length % c != 0))
        · rfl
        · exact absurd (hcond.mp h) hov
      rw [hcf]
      simp only [Bool.false_eq_true, if_false]
      have := (packAll_spec (fs := fs) hk hc hw hrad h256' rest.reverse.length
        rest.reverse (Nat.le_refl _)).2 (by rw [hasInvalid_reverse]; exact hvr)
      simp only [List.length_reverse] at this
      rw [this]
      exact ⟨_, rfl, fun _ => rfl⟩

/-! ### `from_buf_radix_internal` -/

theorem B_ge_256 {w : Nat} (hw : 8 ≤ w) : 256 ≤ B w := by
  unfold B; calc 256 = 2 ^ 8 := rfl
    _ ≤ 2 ^ w := Nat.pow_le_pow_right (by omega) hw

theorem fromBuf_lone_sign (w n : Nat) (fs be : Bool) (buf : List Nat) (radix : Nat)
    (h : buf.length = 1) :
    fromBufRadixInternal w n fs be buf radix true = .ok (.err .invalidDigit) := by
  simp [fromBufRadixInternal, h]

theorem fromBuf_spec {w n : Nat} {fs be : Bool} {buf : List Nat} {radix : Nat} {ls : Bool}
    (hn : 1 ≤ n) (hw8 : 8 ≤ w) (hw4 : 4 ∣ w) (hr : 2 ≤ radix) (h256 : radix < 256)
    (hbe : be = true ∨ ls = false) (hlen : (if ls then 1 else 0) < buf.length) :
    ArmSpec w n fs radix ((if be then buf else buf.reverse).drop (if ls then 1 else 0))
      (fromBufRadixInternal w n fs be buf radix ls) := by
  have hB := B_ge_256 hw8
  obtain ⟨q, hq⟩ := hw4
  unfold fromBufRadixInternal
  have h1 : (ls && buf.length == 1) = false := by
    cases ls
    · rfl
    · simp only [if_true] at hlen; simp; omega
  rw [h1]
  simp only [Bool.false_eq_true, if_false]
  have hoff : (if ls = true then 1 else 0) ≤ buf.length := by omega
  have hbe' : be = true ∨ (if ls = true then 1 else 0) = 0 := by
    rcases hbe with h | h
    · exact Or.inl h
    · right; simp [h]
  have hne256 : (radix == 256) = false := by simp; omega
  by_cases h2 : radix = 2
  · subst h2
    simp only [beq_self_eq_true, Bool.true_or, if_true]
    exact pow2Arm_spec (k := 1) (c := w) (by omega) (by omega) (by omega) rfl (by decide)
      (by omega) rfl hoff hbe'
  by_cases h4 : radix = 4
  · subst h4
    simp only [beq_self_eq_true, Bool.true_or, Bool.or_true, if_true]
    exact pow2Arm_spec (k := 2) (c := 2 * q) (by omega) (by omega) (by omega) rfl (by decide)
      (by omega) rfl hoff hbe'
  by_cases h16 : radix = 16
  · subst h16
    simp only [beq_self_eq_true, Bool.true_or, Bool.or_true, if_true]
    exact pow2Arm_spec (k := 4) (c := q) (by omega) (by omega) (by omega) rfl (by decide)
      (by omega) rfl hoff hbe'
  have e2 : (radix == 2) = false := by simpa using h2
  have e4 : (radix == 4) = false := by simpa using h4
  have e16 : (radix == 16) = false := by simpa using h16
  simp only [e2, e4, e16, hne256, Bool.or_self, Bool.false_eq_true, if_false]
  exact generalArm_spec hn hr h256 (by omega) rfl (by omega)

/-! ### link with the Spec grammar -/

theorem charDigit_valid {r c : Nat} (hr : r ≤ 36) (h : byteToDigit true c < r) :
    charDigit c = some (byteToDigit true c) := by
  unfold byteToDigit at h ⊢; unfold charDigit
  simp only [if_true] at h ⊢
  split_ifs at h ⊢ <;> first | rfl | (congr 1; omega) | omega

theorem charDigit_invalid {r c : Nat} (hr : r ≤ 36) (h : ¬ byteToDigit true c < r) (d : Nat)
    (hd : charDigit c = some d) : ¬ d < r := by
  unfold byteToDigit at h; unfold charDigit at hd
  simp only [if_true] at h
  split_ifs at h hd <;> simp at hd <;> omega

theorem digitsOf_eq {r : Nat} (hr : r ≤ 36) : ∀ (bs : List Nat),
    digitsOf r bs = if hasInvalid true r bs then none else some (digs true bs)
  | [] => by simp [digitsOf, hasInvalid]
  | c :: cs => by
    have h256 : r % 256 = r := Nat.mod_eq_of_lt (by omega)
    unfold digitsOf hasInvalid
    rw [h256]
    by_cases h : byteToDigit true c < r
    · rw [charDigit_valid hr h]
      simp only [h, if_true, digitsOf_eq hr cs]
      rw [if_neg (show ¬ byteToDigit true c ≥ r by omega)]
      cases hasInvalid true r cs <;> simp
    · rw [if_pos (show byteToDigit true c ≥ r by omega)]
      cases hc : charDigit c with
      | none => rfl
      | some d => simp only [if_neg (charDigit_invalid hr h d hc)]; rfl

theorem splitSign_eq (signOk : Bool) {s : List Nat} (hs : s ≠ []) :
    splitSign signOk s = (signOk && s.head? == some 45,
      s.drop (if ((signOk && s.head? == some 45) || s.head? == some 43) = true then 1 else 0)) := by
  cases s with
  | nil => exact absurd rfl hs
  | cons c rest =>
    unfold splitSign
    by_cases h43 : c = 43
    · subst h43; cases signOk <;> simp
    · by_cases h45 : c = 45
      · subst h45; cases signOk <;> simp
      · cases signOk <;> simp [h43, h45]

/-- the relation between what the Spec expects and what a parse returns -/
def Matches (w n : Nat) : Expect → Outcome PRes → Prop
  | .ok z, res => res = .ok (.ok (ofInt w n z))
  | .empty, res => res = .ok (.err .empty)
  | .invalidDigit, res => res = .ok (.err .invalidDigit)
  | .posOverflow, res => res = .ok (.err .posOverflow)
  | .negOverflow, res => res = .ok (.err .negOverflow)
  | .anyErr, res => ∃ k, res = .ok (.err k)

theorem ofInt_natCast {w n v : Nat} (h : v < M w n) : ofInt w n (v : Int) = ofNat w n v := by
  unfold ofInt; rw [wrapU_natCast, Nat.mod_eq_of_lt h]

/-! ### the signed finish (`BInt::from_str_radix` after the unsigned parse) -/

theorem tz_top : ∀ (W v : Nat), 2 ^ W ≤ v → v < 2 ^ (W + 1) →
    (Spec.trailingZeros (W + 1) v = W ↔ v = 2 ^ W)
  | 0, v, h1, h2 => by
    have : v = 1 := by simp at h1 h2; omega
    subst this; simp [Spec.trailingZeros]
  | W + 1, v, h1, h2 => by
    rw [Nat.pow_succ] at h1 h2
    unfold Spec.trailingZeros
    by_cases hodd : v % 2 = 1
    · rw [if_pos hodd]
      constructor
      · intro h; omega
      · intro h; rw [h, Nat.pow_succ] at hodd; omega
    · rw [if_neg hodd]
      have ih := tz_top W (v / 2) (by omega) (by omega)
      constructor
      · intro h
        have : v / 2 = 2 ^ W := ih.mp (by omega)
        rw [Nat.pow_succ]; omega
      · intro h
        have : v / 2 = 2 ^ W := by rw [h, Nat.pow_succ]; omega
        have := ih.mpr this
        omega

theorem testBit_top {W v : Nat} (h : v < 2 ^ (W + 1)) : v.testBit W = decide (2 ^ W ≤ v) := by
  by_cases hv : 2 ^ W ≤ v
  · have e : v = 2 ^ W + (v - 2 ^ W) := by omega
    rw [e, Nat.testBit_two_pow_add_eq, Nat.testBit_lt_two_pow (by rw [Nat.pow_succ] at h; omega)]
    simp
  · rw [Nat.testBit_lt_two_pow (by omega)]; simp [hv]

theorem wrapU_neg {m v : Nat} (hm : 0 < m) (hv : v ≤ m) : wrapU m (-(v : Int)) = (m - v) % m := by
  by_cases h0 : v = 0
  · subst h0; simp [wrapU]
  · rw [Nat.mod_eq_of_lt (by omega)]
    apply wrapU_eq_of (k := -1) (by omega)
    push_cast [hv]; ring

theorem finishParse_err (w n : Nat) (neg : Bool) (k : IntErrorKind) :
    II.finishParse w n neg (.err k)
      = .ok (.err (if (k == .posOverflow && neg) = true then .negOverflow else k)) := by
  simp only [II.finishParse]; split <;> rfl

theorem wrappingNeg_eq_ofInt {w n : Nat} {x : List Nat} (hw : 2 ≤ w) (hn : 1 ≤ n) (hx : WF w n x) :
    II.wrappingNeg w x = ofInt w n (-(U w x : Int)) := by
  obtain ⟨k, rfl⟩ : ∃ k, n = k + 1 := ⟨n - 1, by omega⟩
  obtain ⟨g1, g2, _⟩ := II.negLoop_spec hw k x hx
  unfold II.wrappingNeg II.overflowingNeg ofInt
  apply U_injective g1 (WF_ofNat _ _ _)
  rw [U_ofNat, g2, wrapU_neg (M_pos _ _) (Nat.le_of_lt (U_lt hx)), Nat.mod_mod]

theorem finishParse_pos {w n : Nat} {x : List Nat} (hw : 1 ≤ w) (hn : 1 ≤ n) (hx : WF w n x) :
    II.finishParse w n false (.ok x)
      = .ok (if 2 * U w x < M w n then .ok x else .err .posOverflow) := by
  unfold II.finishParse
  simp only [Bool.false_eq_true, if_false]
  rw [isNegative_eq_decide hw hn hx, S_eq hx]
  have hu := U_lt hx
  unfold toInt
  by_cases h : 2 * U w x < M w n
  · simp [h]
  · simp only [h, if_false]
    rw [if_pos (by simp; omega)]

theorem finishParse_neg {s n : Nat} {x : List Nat} (hs3 : 1 ≤ s) (hs : s < 32) (hn : 1 ≤ n)
    (hx : WF (2 ^ s) n x) :
    II.finishParse (2 ^ s) n true (.ok x)
      = .ok (if 2 * U (2 ^ s) x ≤ M (2 ^ s) n then .ok (ofInt (2 ^ s) n (-(U (2 ^ s) x : Int)))
             else .err .negOverflow) := by
  have hw2 : 2 ≤ 2 ^ s := by
    calc 2 = 2 ^ 1 := rfl
      _ ≤ 2 ^ s := Nat.pow_le_pow_right (by omega) hs3
  have hWpos : 0 < 2 ^ s * n := Nat.mul_pos (by omega) hn
  obtain ⟨W, hW⟩ : ∃ W, 2 ^ s * n = W + 1 := ⟨2 ^ s * n - 1, by omega⟩
  have hu := U_lt hx
  have hM : M (2 ^ s) n = 2 ^ (W + 1) := by unfold M; rw [hW]
  unfold II.finishParse
  simp only [if_true]
  rw [Bits.bit_spec hs hx, if_pos (by omega), Bits.trailingZeros_spec hx, hW]
  simp only [Nat.add_sub_cancel]
  rw [wrappingNeg_eq_ofInt hw2 hn hx]
  rw [hM] at hu ⊢
  rw [testBit_top hu]
  generalize U (2 ^ s) x = v at *
  have hpw : 2 ^ (W + 1) = 2 * 2 ^ W := by rw [Nat.pow_succ]; omega
  by_cases h1 : 2 ^ W ≤ v
  · have htz := tz_top W v h1 hu
    by_cases h2 : v = 2 ^ W
    · have : Spec.trailingZeros (W + 1) v = W := htz.mpr h2
      rw [if_neg (by simp [this]), if_pos (by omega)]
    · have : Spec.trailingZeros (W + 1) v ≠ W := fun h => h2 (htz.mp h)
      rw [if_pos (by simp [h1, this]), if_neg (by omega)]
  · rw [if_neg (by simp [h1]), if_pos (by omega)]

end Radix

theorem UI.fromStrRadix_matches {w n : Nat} (hn : 1 ≤ n) (hw8 : 8 ≤ w) (hw4 : 4 ∣ w)
    {radix : Nat} (hr : 2 ≤ radix) (hr36 : radix ≤ 36) (src : List Nat) :
    Radix.Matches w n (Spec.Radix.expectParse radix false (M w n) src)
      (UI.fromStrRadix w n src radix) := by
  open Radix Spec.Radix in
  unfold UI.fromStrRadix expectParse
  have hin : inRange radix 36 = true := by simp [inRange, hr, hr36]
  rw [hin]
  simp only [Bool.not_true, Bool.false_eq_true, if_false]
  by_cases hs : src = []
  · subst hs; simp [Matches]
  have hse : src.isEmpty = false := by cases src <;> simp_all
  rw [hse]
  simp only [Bool.false_eq_true, if_false]
  unfold Grammar
  rw [splitSign_eq false hs]
  simp only [Bool.false_and, Bool.false_or]
  generalize hls : (src.head? == some 43) = ls
  have hspec := fromBuf_spec (w := w) (n := n) (fs := true) (be := true) (buf := src)
    (radix := radix) (ls := ls) hn hw8 hw4 hr (by omega) (Or.inl rfl)
  simp only [if_true] at hspec
  by_cases hb : src.drop (if ls = true then 1 else 0) = []
  · -- lone sign
    have hl : ls = true ∧ src.length = 1 := by
      cases ls
      · simp at hb; exact absurd hb hs
      · have := congrArg List.length hb
        simp at this
        have : 0 < src.length := List.length_pos_iff.mpr hs
        exact ⟨rfl, by omega⟩
    simp only [hb]
    rw [hl.1, fromBuf_lone_sign _ _ _ _ _ _ hl.2]
    simp [Matches]
  · have hlen : (if ls = true then 1 else 0) < src.length := by
      by_contra hc
      exact hb (List.drop_eq_nil_of_le (by omega))
    have hbe : (src.drop (if ls = true then 1 else 0)).isEmpty = false := by
      cases h : src.drop (if ls = true then 1 else 0) <;> simp_all
    obtain ⟨h1, h2⟩ := hspec hlen
    rw [hbe, digitsOf_eq hr36]
    simp only [Bool.false_eq_true, if_false]
    cases hv : hasInvalid true radix (src.drop (if ls = true then 1 else 0))
    · rw [h1 hv]
      simp only [Bool.false_eq_true, if_false, denote]
      by_cases hfit : valueOf radix (digs true (src.drop (if ls = true then 1 else 0))) < M w n
      · have hrep : repU (M w n)
            (valueOf radix (digs true (src.drop (if ls = true then 1 else 0))) : Int) := by
          unfold repU; omega
        simp only [hfit, if_true, hrep, decide_true, Matches]
        rw [ofInt_natCast hfit]
      · have hrep : ¬ repU (M w n)
            (valueOf radix (digs true (src.drop (if ls = true then 1 else 0))) : Int) := by
          unfold repU; omega
        simp [hfit, hrep, Matches]
    · obtain ⟨k, k1, k2⟩ := h2 hv
      rw [k1]
      simp only [if_true]
      by_cases hshort : radix ^ (src.drop (if ls = true then 1 else 0)).length ≤ M w n
      · rw [if_pos hshort, k2 hshort]; simp [Matches]
      · rw [if_neg hshort]; exact ⟨k, rfl⟩

theorem pow_s_facts {s : Nat} (hs3 : 3 ≤ s) : 8 ≤ 2 ^ s ∧ 4 ∣ 2 ^ s := by
  obtain ⟨t, rfl⟩ : ∃ t, s = t + 3 := ⟨s - 3, by omega⟩
  have : 0 < 2 ^ t := Nat.pow_pos (by omega)
  refine ⟨by rw [Nat.pow_add]; omega, ⟨2 ^ t * 2, by rw [Nat.pow_add]; omega⟩⟩

theorem II.fromStrRadix_matches {s n : Nat} (hn : 1 ≤ n) (hs3 : 3 ≤ s) (hs : s < 32)
    {radix : Nat} (hr : 2 ≤ radix) (hr36 : radix ≤ 36) (src : List Nat) :
    Radix.Matches (2 ^ s) n (Spec.Radix.expectParse radix true (M (2 ^ s) n) src)
      (II.fromStrRadix (2 ^ s) n src radix) := by
  open Radix Spec.Radix in
  obtain ⟨hw8, hw4⟩ := pow_s_facts hs3
  unfold II.fromStrRadix expectParse
  have hin : inRange radix 36 = true := by simp [inRange, hr, hr36]
  rw [hin]
  simp only [Bool.not_true, Bool.false_eq_true, if_false]
  by_cases hsrc : src = []
  · subst hsrc; simp [Matches]
  have hse : src.isEmpty = false := by cases src <;> simp_all
  rw [hse]
  simp only [Bool.false_eq_true, if_false, if_true]
  unfold Grammar
  rw [splitSign_eq true hsrc]
  simp only [Bool.true_and]
  generalize hneg : (src.head? == some 45) = neg
  generalize hls : (neg || src.head? == some 43) = ls
  have hspec := fromBuf_spec (w := 2 ^ s) (n := n) (fs := true) (be := true) (buf := src)
    (radix := radix) (ls := ls) hn hw8 hw4 hr (by omega) (Or.inl rfl)
  simp only [if_true] at hspec
  by_cases hb : src.drop (if ls = true then 1 else 0) = []
  · -- lone sign
    have hl : ls = true ∧ src.length = 1 := by
      cases ls
      · simp at hb; exact absurd hb hsrc
      · have := congrArg List.length hb
        simp at this
        have : 0 < src.length := List.length_pos_iff.mpr hsrc
        exact ⟨rfl, by omega⟩
    simp only [hb]
    rw [hl.1, fromBuf_lone_sign _ _ _ _ _ _ hl.2]
    simp [Matches, Outcome.bind, finishParse_err]
  · have hlen : (if ls = true then 1 else 0) < src.length := by
      by_contra hc
      exact hb (List.drop_eq_nil_of_le (by omega))
    have hbe : (src.drop (if ls = true then 1 else 0)).isEmpty = false := by
      cases h : src.drop (if ls = true then 1 else 0) <;> simp_all
    obtain ⟨h1, h2⟩ := hspec hlen
    rw [hbe, digitsOf_eq hr36]
    simp only [Bool.false_eq_true, if_false]
    generalize src.drop (if ls = true then 1 else 0) = body at *
    cases hv : hasInvalid true radix body
    · rw [h1 hv]
      simp only [Bool.false_eq_true, if_false, denote, Outcome.bind]
      generalize valueOf radix (digs true body) = V
      have hMe := M_even (w := 2 ^ s) (n := n) (by omega) hn
      by_cases hfit : V < M (2 ^ s) n
      · rw [if_pos hfit]
        have hwf := WF_ofNat (2 ^ s) n V
        have hU : U (2 ^ s) (ofNat (2 ^ s) n V) = V := by rw [U_ofNat, Nat.mod_eq_of_lt hfit]
        cases neg
        · rw [finishParse_pos (by omega) hn hwf, hU]
          simp only [Bool.false_eq_true, if_false]
          by_cases hrep : 2 * V < M (2 ^ s) n
          · have : repS (M (2 ^ s) n) (V : Int) := by unfold repS; omega
            simp only [hrep, if_true, this, decide_true, Matches]
            rw [ofInt_natCast hfit]
          · have : ¬ repS (M (2 ^ s) n) (V : Int) := by unfold repS; omega
            simp [hrep, this, Matches]
        · rw [finishParse_neg (by omega) hs hn hwf, hU]
          simp only [if_true]
          by_cases hrep : 2 * V ≤ M (2 ^ s) n
          · have : repS (M (2 ^ s) n) (-(V : Int)) := by unfold repS; omega
            simp only [hrep, if_true, this, decide_true, Matches]
          · have : ¬ repS (M (2 ^ s) n) (-(V : Int)) := by unfold repS; omega
            simp [hrep, this, Matches]
      · rw [if_neg hfit, finishParse_err]
        cases neg
        · have : ¬ repS (M (2 ^ s) n) (V : Int) := by unfold repS; omega
          simp [this, Matches]
        · have : ¬ repS (M (2 ^ s) n) (-(V : Int)) := by unfold repS; omega
          simp [this, Matches]
    · obtain ⟨k, k1, k2⟩ := h2 hv
      rw [k1]
      simp only [if_true, Outcome.bind, finishParse_err]
      by_cases hshort : radix ^ body.length ≤ M (2 ^ s) n
      · rw [if_pos hshort, k2 hshort]; simp [Matches]
      · rw [if_neg hshort]; exact ⟨_, rfl⟩

/-! ### reading the named C10 statements off `expectParse` -/
namespace Radix
open Spec.Radix

theorem Grammar_ne_nil {r : Nat} {sg : Bool} {s : List Nat} {g : Bool × List Nat}
    (h : Grammar r sg s = some g) : s ≠ [] := by
  intro hs; subst hs; simp [Grammar, splitSign] at h

theorem Grammar_unsigned_fst {r : Nat} {s : List Nat} {g : Bool × List Nat}
    (h : Grammar r false s = some g) : g.1 = false := by
  have hs := Grammar_ne_nil h
  unfold Grammar at h
  rw [splitSign_eq false hs] at h
  simp only [Bool.false_and] at h
  split_ifs at h <;> (split at h <;> simp at h <;> rw [← h])

theorem expect_of_grammar {r : Nat} {sg : Bool} {m : Nat} {s : List Nat} {g : Bool × List Nat}
    (h : Grammar r sg s = some g) :
    expectParse r sg m s =
      if (if sg then decide (repS m (denote r g)) else decide (repU m (denote r g))) = true
      then .ok (denote r g) else if g.1 then .negOverflow else .posOverflow := by
  have hs := Grammar_ne_nil h
  unfold expectParse
  have : s.isEmpty = false := by cases s <;> simp_all
  rw [this, h]; simp

theorem expect_of_none {r : Nat} {sg : Bool} {m : Nat} {s : List Nat} (hs : s ≠ [])
    (h : Grammar r sg s = none) :
    (r ^ (splitSign sg s).2.length ≤ m → expectParse r sg m s = .invalidDigit) ∧
    (expectParse r sg m s = .invalidDigit ∨ expectParse r sg m s = .anyErr) := by
  unfold expectParse
  have : s.isEmpty = false := by cases s <;> simp_all
  rw [this, h]
  simp only [Bool.false_eq_true, if_false]
  by_cases hb : (splitSign sg s).2.isEmpty = true
  · simp [hb]
  · simp only [hb, if_false]
    by_cases hl : r ^ (splitSign sg s).2.length ≤ m
    · simp [hl]
    · simp [hl]

theorem expect_ok_inv {r : Nat} {sg : Bool} {m : Nat} {s : List Nat} {z : Int}
    (h : expectParse r sg m s = .ok z) :
    ∃ g, Grammar r sg s = some g ∧ z = denote r g ∧
      (if sg then repS m (denote r g) else repU m (denote r g)) := by
  unfold expectParse at h
  by_cases hs : s.isEmpty = true
  · simp [hs] at h
  · have hs' : s.isEmpty = false := by simpa using hs
    simp only [hs', Bool.false_eq_true, if_false] at h
    cases hg : Grammar r sg s with
    | none =>
      rw [hg] at h
      simp only at h
      split_ifs at h
    | some g =>
      rw [hg] at h
      simp only at h
      refine ⟨g, rfl, ?_⟩
      cases sg
      · simp only [Bool.false_eq_true, if_false] at h ⊢
        by_cases hrep : repU m (denote r g)
        · simp only [hrep, decide_true, if_true, Expect.ok.injEq] at h; exact ⟨h.symm, hrep⟩
        · simp only [hrep, decide_false, Bool.false_eq_true, if_false] at h; split_ifs at h
      · simp only [if_true] at h ⊢
        by_cases hrep : repS m (denote r g)
        · simp only [hrep, decide_true, if_true, Expect.ok.injEq] at h; exact ⟨h.symm, hrep⟩
        · simp only [hrep, decide_false, Bool.false_eq_true, if_false] at h; split_ifs at h

theorem Matches_ok_inv {w n : Nat} {e : Expect} {x : List Nat} (h : Matches w n e (.ok (.ok x))) :
    ∃ z, e = .ok z ∧ x = ofInt w n z := by
  cases e <;> simp [Matches] at h
  exact ⟨_, rfl, h⟩

theorem Matches_not_panic {w n : Nat} {e : Expect} (h : Matches w n e .panic) : False := by
  cases e <;> simp [Matches] at h

theorem Matches_err {w n : Nat} {e : Expect} {res : Outcome PRes} (h : Matches w n e res)
    (he : e = .invalidDigit ∨ e = .anyErr) : ∃ k, res = .ok (.err k) := by
  rcases he with he | he <;> subst he
  · exact ⟨_, h⟩
  · exact h

theorem WF_ofInt (w n : Nat) (z : Int) : WF w n (ofInt w n z) := WF_ofNat w n _
theorem U_ofInt_of_rep {w n : Nat} {z : Int} (h : repU (M w n) z) : (U w (ofInt w n z) : Int) = z := by
  unfold ofInt
  rw [U_ofNat, Nat.mod_eq_of_lt (wrapU_lt (M_pos w n) z), wrapU_of_rep h]
theorem S_ofInt_of_rep {w n : Nat} {z : Int} (h : repS (M w n) z) : S w (ofInt w n z) = z := by
  rw [S_eq (WF_ofInt w n z)]
  unfold ofInt
  rw [U_ofNat, Nat.mod_eq_of_lt (wrapU_lt (M_pos w n) z)]
  exact wrapS_of_rep (M_pos w n) h

end Radix
/-! ## C11: printing -/
namespace Radix
open Spec.Radix

/-! ### canonical digits (Spec side) -/

theorem digitsAux_fuel {r : Nat} (hr : 2 ≤ r) : ∀ (f v f' : Nat), v ≤ f → v ≤ f' →
    digitsAux r f v = digitsAux r f' v
  | 0, v, f', h, _ => by
    have : v = 0 := by omega
    subst this; cases f' <;> simp [digitsAux]
  | f + 1, v, f', h, h' => by
    by_cases hv : v = 0
    · subst hv; cases f' <;> simp [digitsAux]
    · obtain ⟨f'', rfl⟩ : ∃ k, f' = k + 1 := ⟨f' - 1, by omega⟩
      simp only [digitsAux, hv, if_false]
      have : v / r < v := Nat.div_lt_self (by omega) (by omega)
      rw [digitsAux_fuel hr f (v / r) f'' (by omega) (by omega)]

theorem digitsLE_zero (r : Nat) : digitsLE r 0 = [] := rfl
theorem digitsLE_pos {r v : Nat} (hr : 2 ≤ r) (hv : 0 < v) :
    digitsLE r v = v % r :: digitsLE r (v / r) := by
  unfold digitsLE
  obtain ⟨k, rfl⟩ : ∃ k, v = k + 1 := ⟨v - 1, by omega⟩
  simp only [digitsAux, Nat.succ_ne_zero, if_false]
  have : (k + 1) / r < k + 1 := Nat.div_lt_self (by omega) (by omega)
  rw [digitsAux_fuel hr k ((k + 1) / r) ((k + 1) / r) (by omega) (Nat.le_refl _)]

/-- `power` digits of a remainder followed by the digits of the quotient -/
theorem emit_append_digitsLE {r : Nat} (hr : 2 ≤ r) : ∀ (p q ρ : Nat), 0 < q → ρ < r ^ p →
    emit r p ρ ++ digitsLE r q = digitsLE r (q * r ^ p + ρ)
  | 0, q, ρ, _, h => by
    have : ρ = 0 := by simpa using h
    subst this; simp [emit]
  | p + 1, q, ρ, hq, h => by
    have hpos : 0 < r ^ (p + 1) := Nat.pow_pos (by omega)
    have hv : 0 < q * r ^ (p + 1) + ρ := by
      have := Nat.mul_pos hq hpos; omega
    rw [digitsLE_pos hr hv]
    simp only [emit, List.cons_append]
    have e : q * r ^ (p + 1) + ρ = r * (q * r ^ p) + ρ := by rw [Nat.pow_succ]; ring
    congr 1
    · rw [e, Nat.mul_add_mod]
    · rw [emit_append_digitsLE hr p q (ρ / r) hq
        (by rw [Nat.pow_succ] at h; exact Nat.div_lt_of_lt_mul (by rw [Nat.mul_comm]; exact h))]
      congr 1
      rw [e, Nat.mul_add_div (by omega)]

theorem drainRadix_eq {r : Nat} (hr : 2 ≤ r) : ∀ (f v : Nat), v < 2 ^ f →
    drainRadix r f v = digitsLE r v
  | 0, v, h => by
    have : v = 0 := by simpa using h
    subst this; rfl
  | f + 1, v, h => by
    unfold drainRadix
    by_cases hv : v = 0
    · subst hv; rfl
    · have hb : (v == 0) = false := by simpa using hv
      rw [hb]
      simp only [Bool.false_eq_true, if_false]
      rw [digitsLE_pos hr (by omega)]
      congr 1
      apply drainRadix_eq hr f
      have : v / r ≤ v / 2 := Nat.div_le_div_left hr (by omega)
      rw [Nat.pow_succ] at h; omega

/-! ### `radix_base_half` -/

theorem radixBaseHalfLoop_spec {w r : Nat} (hr : 2 ≤ r) : ∀ (f base power : Nat),
    base = r ^ power → base < B w → power + f = w + 1 → 1 ≤ power →
    ∃ p, radixBaseHalfLoop w r f base power = (r ^ p, p) ∧ 1 ≤ p ∧ r ^ p < B w
  | 0, base, power, hb, hlt, hf, _ => by
    exfalso
    have : power = w + 1 := by omega
    subst this
    have h1 := two_pow_le_pow hr (w + 1)
    have h2 : 2 ^ w < 2 ^ (w + 1) := Nat.pow_lt_pow_right (by omega) (by omega)
    unfold B at hlt; omega
  | f + 1, base, power, hb, hlt, hf, hp => by
    unfold radixBaseHalfLoop
    simp only
    by_cases h : base * r < B w ∧ base * r ≤ halfBitsMax w
    · rw [if_pos h]
      exact radixBaseHalfLoop_spec hr f (base * r) (power + 1) (by rw [hb, Nat.pow_succ]) h.1
        (by omega) (by omega)
    · rw [if_neg h]
      exact ⟨power, by rw [hb], hp, by rw [← hb]; exact hlt⟩

theorem radixBaseHalf_spec {w r : Nat} (hr : 2 ≤ r) (hlt : r < B w) :
    ∃ p, radixBaseHalf w r = (r ^ p, p) ∧ 1 ≤ p ∧ r ^ p < B w := by
  unfold radixBaseHalf
  rw [Nat.mod_eq_of_lt hlt]
  exact radixBaseHalfLoop_spec hr w r 1 (by simp) hlt (by omega) (by omega)

/-! ### `last_digit_index` -/

theorem U_pos_of_mem {w : Nat} : ∀ (ds : List Nat) (d : Nat), d ∈ ds → d ≠ 0 → 0 < U w ds
  | [], d, h, _ => by simp at h
  | e :: es, d, h, hd => by
    rcases List.mem_cons.mp h with h | h
    · subst h; simp only [U_cons]; omega
    · have := U_pos_of_mem (w := w) es d h hd
      have hB := B_pos w
      simp only [U_cons]
      have : 0 < B w * U w es := Nat.mul_pos hB this
      omega

theorem ldi_pos_ge {w : Nat} {x : List Nat} (h : 0 < lastDigitIndex x) : B w ≤ U w x := by
  match x, h with
  | [], h => simp [lastDigitIndex] at h
  | d :: ds, h =>
    unfold lastDigitIndex at h
    simp only at h
    have hne : lastDigitIndex.go ds 1 0 ≠ 0 := by omega
    rw [Ne, DivL.go_eq_zero ds 1 0 (by omega)] at hne
    have : ∃ e ∈ ds, e ≠ 0 := by
      by_contra hc
      apply hne
      refine ⟨rfl, fun e he => ?_⟩
      by_contra hz; exact hc ⟨e, he, hz⟩
    obtain ⟨e, he, hz⟩ := this
    have := U_pos_of_mem (w := w) ds e he hz
    have hB := B_pos w
    simp only [U_cons]
    have : B w * 1 ≤ B w * U w ds := Nat.mul_le_mul_left _ this
    omega

/-! ### `to_radix_digits_le` -/

theorem divLoop_spec {w n r p : Nat} (hn : 1 ≤ n) (hr : 2 ≤ r) (hp : 1 ≤ p) (hbase : r ^ p < B w) :
    ∀ (f : Nat) (copy : List Nat), WF w n copy → U w copy < 2 ^ f →
    divLoop w r (r ^ p) p (f + 1) copy = .ok (digitsLE r (U w copy)) := by
  have hbase2 : 2 ≤ r ^ p := by
    calc 2 ≤ r := hr
      _ = r ^ 1 := (Nat.pow_one r).symm
      _ ≤ r ^ p := Nat.pow_le_pow_right (by omega) hp
  intro f
  induction f with
  | zero =>
    intro copy hc hu
    have hu0 : U w copy = 0 := by simpa using hu
    unfold divLoop
    have hl : ¬ lastDigitIndex copy > 0 := by
      intro h; have := ldi_pos_ge (w := w) h; have := B_pos w; omega
    rw [if_neg hl]
    obtain ⟨e1, e2⟩ := DivL.ldi_zero hc (by omega)
    rw [← e1, hu0]
    cases w <;> rfl
  | succ f ih =>
    intro copy hc hu
    unfold divLoop
    by_cases hl : lastDigitIndex copy > 0
    · rw [if_pos hl]
      have hge := ldi_pos_ge (w := w) hl
      obtain ⟨q, ρ, e1, e2, e3, e4⟩ := UI.u_divRemDigit_spec (w := w) (n := n) (a := copy)
        (d := r ^ p) (by omega) hbase hc
      rw [e1]
      simp only
      have hqpos : 0 < U w q := by
        by_contra h0
        have : U w q = 0 := by omega
        rw [this] at e2; omega
      have hqlt : U w q < 2 ^ f := by
        have h1 : U w q * 2 ≤ U w q * r ^ p := Nat.mul_le_mul_left _ hbase2
        rw [Nat.pow_succ] at hu; omega
      rw [ih q e4 hqlt]
      simp only
      rw [emit_append_digitsLE hr p (U w q) ρ hqpos e3, e2]
    · rw [if_neg hl]
      obtain ⟨e1, e2⟩ := DivL.ldi_zero hc (by omega)
      rw [← e1, drainRadix_eq hr w _ (by rw [e1]; exact e2)]

theorem toRadixDigitsLe_spec {w n r : Nat} {x : List Nat} (hn : 1 ≤ n) (hr : 2 ≤ r) (hlt : r < B w)
    (hx : WF w n x) : toRadixDigitsLe w x r = .ok (digitsLE r (U w x)) := by
  obtain ⟨p, e, hp, hb⟩ := radixBaseHalf_spec hr hlt
  unfold toRadixDigitsLe
  simp only [e, Nat.mod_eq_of_lt hlt, hx.1]
  exact divLoop_spec hn hr hp hb (w * n) x hx (U_lt hx)

/-! ### `last_digit_index`, recursively -/

/-- index of the most significant non-zero digit (0 if none), by structural recursion -/
def ldiRec : List Nat → Nat
  | [] => 0
  | _ :: ds => if isZero ds then 0 else 1 + ldiRec ds

theorem go_eq_ldiRec : ∀ (ds : List Nat) (i idx : Nat),
    lastDigitIndex.go ds i idx = if isZero ds then idx else i + ldiRec ds
  | [], i, idx => by simp [lastDigitIndex.go, isZero]
  | d :: ds, i, idx => by
    simp only [lastDigitIndex.go, go_eq_ldiRec ds, isZero, ldiRec]
    by_cases hd : d = 0
    · subst hd; simp; cases isZero ds <;> simp; omega
    · have : (d != 0) = true := by simpa using hd
      simp only [this, if_true, Bool.false_eq_true, if_false]
      cases isZero ds <;> simp; omega

theorem lastDigitIndex_eq_ldiRec (x : List Nat) : lastDigitIndex x = ldiRec x := by
  cases x with
  | nil => rfl
  | cons d ds =>
    unfold lastDigitIndex
    simp only [go_eq_ldiRec, ldiRec]

theorem ldiRec_lt : ∀ (x : List Nat), x ≠ [] → ldiRec x < x.length
  | [], h => absurd rfl h
  | d :: ds, _ => by
    unfold ldiRec
    split
    · simp
    · rename_i h
      have hne : ds ≠ [] := by intro e; subst e; simp [isZero] at h
      have := ldiRec_lt ds hne
      simp; omega

theorem ldiRec_top_ne_zero {w : Nat} : ∀ (x : List Nat), U w x ≠ 0 → x.getD (ldiRec x) 0 ≠ 0
  | [], h => by simp at h
  | d :: ds, h => by
    unfold ldiRec
    by_cases hz : isZero ds = true
    · rw [if_pos hz]
      have := (isZero_iff (w := w) ds).mp hz
      simp only [U_cons, this] at h
      simpa using h
    · rw [if_neg hz]
      have hu : U w ds ≠ 0 := fun e => hz ((isZero_iff (w := w) ds).mpr e)
      have := ldiRec_top_ne_zero (w := w) ds hu
      rw [Nat.add_comm]; simpa using this

/-- digit-chunk decomposition of the canonical digits (`B w = r^c`) -/
theorem digitsLE_chunks {w r c : Nat} (hr : 2 ≤ r) (hB : B w = r ^ c) : ∀ (n : Nat) (x : List Nat),
    WF w n x → U w x ≠ 0 →
    digitsLE r (U w x)
      = (x.take (ldiRec x)).flatMap (emit r c) ++ digitsLE r (x.getD (ldiRec x) 0)
  | _, [], _, h => by simp at h
  | 0, d :: ds, hx, _ => absurd hx.1 (by simp)
  | n + 1, d :: ds, hx, h => by
    rw [WF_cons] at hx
    unfold ldiRec
    by_cases hz : isZero ds = true
    · rw [if_pos hz]
      have := (isZero_iff (w := w) ds).mp hz
      simp [U_cons, this]
    · rw [if_neg hz]
      have hu : U w ds ≠ 0 := fun e => hz ((isZero_iff (w := w) ds).mpr e)
      have ih := digitsLE_chunks hr hB n ds hx.2 hu
      rw [Nat.add_comm 1, List.take_succ_cons, List.flatMap_cons, List.getD_cons_succ, List.append_assoc,
        ← ih, emit_append_digitsLE hr c (U w ds) d (by omega) (by rw [← hB]; exact hx.1)]
      congr 1
      rw [U_cons, hB]; ring

/-! ### `to_bitwise_digits_le` and the `u8`/256 copy -/

theorem mask_eq (bits : Nat) : (1 <<< bits) - 1 = 2 ^ bits - 1 := by rw [Nat.one_shiftLeft]

theorem chop_eq_emit (bits : Nat) : ∀ (k d : Nat),
    chop (2 ^ bits - 1) bits k d = emit (2 ^ bits) k d
  | 0, _ => rfl
  | k + 1, d => by
    simp only [chop, emit, chop_eq_emit bits k, Nat.and_two_pow_sub_one_eq_mod,
      Nat.shiftRight_eq_div_pow]

theorem drainBits_eq_drainRadix (bits : Nat) : ∀ (f r : Nat),
    drainBits (2 ^ bits - 1) bits f r = drainRadix (2 ^ bits) f r
  | 0, _ => rfl
  | f + 1, r => by
    simp only [drainBits, drainRadix, drainBits_eq_drainRadix bits f,
      Nat.and_two_pow_sub_one_eq_mod, Nat.shiftRight_eq_div_pow]

theorem toBitwiseDigitsLe_spec {w n bits c : Nat} {x : List Nat} (hb : 1 ≤ bits) (hw : w = bits * c)
    (hx : WF w n x) (hnz : U w x ≠ 0) :
    toBitwiseDigitsLe w x bits = digitsLE (2 ^ bits) (U w x) := by
  have hr : 2 ≤ 2 ^ bits := by
    calc 2 = 2 ^ 1 := rfl
      _ ≤ 2 ^ bits := Nat.pow_le_pow_right (by omega) hb
  have hB : B w = (2 ^ bits) ^ c := by unfold B; rw [hw, Nat.pow_mul]
  have hwc : w / bits = c := by rw [hw]; exact Nat.mul_div_cancel_left c (by omega)
  unfold toBitwiseDigitsLe
  simp only [lastDigitIndex_eq_ldiRec, hwc, mask_eq]
  rw [digitsLE_chunks hr hB n x hx hnz, drainBits_eq_drainRadix]
  have htop : x.getD (ldiRec x) 0 < 2 ^ w := by
    have hne : x ≠ [] := by intro e; subst e; simp at hnz
    have hl := ldiRec_lt x hne
    rw [List.getD_eq_getElem?_getD, List.getElem?_eq_getElem hl]
    exact hx.2 _ (List.getElem_mem hl)
  rw [drainRadix_eq hr w _ htop]
  congr 1
  congr 1
  funext d
  exact chop_eq_emit bits c d

theorem emit_one {r d : Nat} (hd : d < r) : emit r 1 d = [d] := by
  simp [emit, Nat.mod_eq_of_lt hd]

theorem take_ldi_succ_eq {w n : Nat} {x : List Nat} (hx : WF w n x) (hnz : U w x ≠ 0) :
    x.take (ldiRec x + 1) = digitsLE (B w) (U w x) := by
  have hB2 : 2 ≤ B w := by
    by_contra hc
    have hB1 : B w = 1 := by have := B_pos w; omega
    have : U w x < M w n := U_lt hx
    rw [M_eq_pow, hB1, Nat.one_pow] at this; omega
  rw [digitsLE_chunks (c := 1) hB2 (by simp) n x hx hnz]
  have hne : x ≠ [] := by intro e; subst e; simp at hnz
  have hl := ldiRec_lt x hne
  have htop : x.getD (ldiRec x) 0 < B w := by
    rw [List.getD_eq_getElem?_getD, List.getElem?_eq_getElem hl]
    exact hx.2 _ (List.getElem_mem hl)
  have htop0 := ldiRec_top_ne_zero (w := w) x hnz
  rw [digitsLE_pos hB2 (by omega), Nat.mod_eq_of_lt htop, Nat.div_eq_of_lt htop, digitsLE_zero]
  have hfm : ∀ (l : List Nat), (∀ d ∈ l, d < B w) → l.flatMap (emit (B w) 1) = l := by
    intro l
    induction l with
    | nil => intro _; rfl
    | cons a as ih =>
      intro h
      rw [List.flatMap_cons, emit_one (h a (by simp)), ih (fun d hd => h d (by simp [hd]))]; rfl
  rw [hfm _ (fun d hd => hx.2 d (List.mem_of_mem_take hd))]
  rw [List.take_add_one, List.getD_eq_getElem?_getD, List.getElem?_eq_getElem hl]
  simp

/-! ### `to_inexact_bitwise_digits_le` (radices 8, 32, 64, 128)

  Per digit `c` with `rbits` pending bits `r`: `T = r + c·2^rbits` is the exact accumulator.  The
  stored `r | c << rbits` is `T mod 2^w` (the top `rbits` bits of `c` are shifted out); the first
  output digit only needs the low `bits ≤ w` bits, and the reload `r = c >> (w - (rbits - bits))`
  then restores `T / 2^bits` exactly, after which `rbits < w` and the loop is exact. -/

theorem emit_succ' (R k v : Nat) : emit R (k + 1) v = v % R :: emit R k (v / R) := rfl

theorem emit_add (R : Nat) : ∀ (k K v : Nat), emit R (k + K) v = emit R k v ++ emit R K (v / R ^ k)
  | 0, K, v => by simp [emit]
  | k + 1, K, v => by
    rw [Nat.add_right_comm, emit_succ', emit_succ', emit_add R k K (v / R), List.cons_append,
      Nat.div_div_eq_div_mul, Nat.pow_succ, Nat.mul_comm]

theorem emit_add_mul (R : Nat) (hR : 0 < R) : ∀ (k v X : Nat), emit R k (v + R ^ k * X) = emit R k v
  | 0, _, _ => rfl
  | k + 1, v, X => by
    rw [emit_succ', emit_succ']
    have e : v + R ^ (k + 1) * X = v + R * (R ^ k * X) := by rw [Nat.pow_succ]; ring
    rw [e, Nat.add_mul_mod_self_left, Nat.add_mul_div_left _ _ hR, emit_add_mul R hR k]

theorem inexactInner_exact {w bits c : Nat} (hb : 1 ≤ bits) : ∀ (k f r rb : Nat), rb ≤ w → k < f →
    bits * k ≤ rb → rb < bits * (k + 1) →
    inexactInner w bits (2 ^ bits - 1) c f r rb
      = (r / (2 ^ bits) ^ k, rb - bits * k, emit (2 ^ bits) k r)
  | 0, f, r, rb, _, hf, _, h2 => by
    obtain ⟨f', rfl⟩ : ∃ f', f = f' + 1 := ⟨f - 1, by omega⟩
    unfold inexactInner
    rw [if_neg (by omega)]
    simp [emit]
  | k + 1, f, r, rb, hw, hf, h1, h2 => by
    obtain ⟨f', rfl⟩ : ∃ f', f = f' + 1 := ⟨f - 1, by omega⟩
    unfold inexactInner
    rw [Nat.mul_succ] at h1 h2
    rw [if_pos (by omega)]
    simp only
    rw [if_neg (by omega), inexactInner_exact hb k f' _ (rb - bits) (by omega) (by omega) (by omega)
      (by have := Nat.mul_succ bits k; omega)]
    simp only [Nat.and_two_pow_sub_one_eq_mod, Nat.shiftRight_eq_div_pow, emit_succ']
    rw [Nat.div_div_eq_div_mul, Nat.pow_succ, Nat.mul_comm, Nat.mul_succ]
    congr 2
    omega

theorem inexactInner_digit {w bits c r rbits : Nat} (hb : 1 ≤ bits) (hbw : bits ≤ w) (hb8 : bits ≤ 8)
    (hrb : rbits < bits) (hr : r < 2 ^ rbits) (hc : c < 2 ^ w) :
    inexactInner w bits (2 ^ bits - 1) c (w + 8) (r ||| ((c <<< rbits) % B w)) (rbits + w)
      = ((r + c * 2 ^ rbits) / (2 ^ bits) ^ ((rbits + w) / bits), (rbits + w) % bits,
          emit (2 ^ bits) ((rbits + w) / bits) (r + c * 2 ^ rbits)) := by
  have hdm := Nat.div_add_mod (rbits + w) bits
  have hml := Nat.mod_lt (rbits + w) (show 0 < bits by omega)
  generalize hk : (rbits + w) / bits = k at *
  generalize hrb' : (rbits + w) % bits = rb' at *
  have hkle : k ≤ rbits + w := by
    have : 1 * k ≤ bits * k := Nat.mul_le_mul_right _ hb
    omega
  by_cases h0 : rbits = 0
  · subst h0
    have hr0 : r = 0 := by simpa using hr
    subst hr0
    have : (0 ||| (c <<< 0) % B w) = c := by
      simp [B, Nat.mod_eq_of_lt hc]
    rw [this]
    simp only [Nat.zero_add, Nat.pow_zero, Nat.mul_one] at *
    rw [inexactInner_exact hb k (w + 8) c w (Nat.le_refl _) (by omega) (by omega)
      (by rw [Nat.mul_succ]; omega)]
    congr 2
    omega
  · -- the top `rbits` bits of `c` were shifted out; they are reloaded after the first digit
    have hsplit : 2 ^ w = 2 ^ (w - rbits) * 2 ^ rbits := by
      rw [← Nat.pow_add]; congr 1; omega
    have hsh : (c <<< rbits) % B w = (c % 2 ^ (w - rbits)) * 2 ^ rbits := by
      unfold B; rw [Nat.shiftLeft_eq, hsplit, Nat.mul_mod_mul_right]
    rw [hsh, or_mul_pow _ hr]
    have hk1 : 1 ≤ k := by
      by_contra hc0
      have : k = 0 := by omega
      subst this; omega
    obtain ⟨k', rfl⟩ : ∃ k', k = k' + 1 := ⟨k - 1, by omega⟩
    rw [Nat.mul_succ] at hdm
    unfold inexactInner
    rw [if_pos (by omega)]
    simp only
    rw [if_pos (by omega), inexactInner_exact hb k' (w + 7) _ (rbits + w - bits) (by omega) (by omega)
      (by omega) (by rw [Nat.mul_succ]; omega)]
    simp only [Nat.and_two_pow_sub_one_eq_mod, Nat.shiftRight_eq_div_pow, emit_succ']
    -- the three components
    have hT : (r + c * 2 ^ rbits) % 2 ^ w = r + c % 2 ^ (w - rbits) * 2 ^ rbits := by
      have hlt : r + c % 2 ^ (w - rbits) * 2 ^ rbits < 2 ^ w := by
        have h1 : c % 2 ^ (w - rbits) < 2 ^ (w - rbits) := Nat.mod_lt _ (Nat.pow_pos (by omega))
        have h2 : (c % 2 ^ (w - rbits) + 1) * 2 ^ rbits ≤ 2 ^ (w - rbits) * 2 ^ rbits :=
          Nat.mul_le_mul_right _ h1
        rw [Nat.add_mul] at h2; omega
      have hc' : c = c % 2 ^ (w - rbits) + 2 ^ (w - rbits) * (c / 2 ^ (w - rbits)) :=
        (Nat.mod_add_div c _).symm
      have : r + c * 2 ^ rbits
          = (r + c % 2 ^ (w - rbits) * 2 ^ rbits) + 2 ^ w * (c / 2 ^ (w - rbits)) := by
        conv => lhs; rw [hc']
        rw [hsplit]; ring
      rw [this, Nat.add_mul_mod_self_left, Nat.mod_eq_of_lt hlt]
    have ho : (r + c % 2 ^ (w - rbits) * 2 ^ rbits) % 2 ^ bits = (r + c * 2 ^ rbits) % 2 ^ bits := by
      rw [← hT, Nat.mod_mod_of_dvd _ (Nat.pow_dvd_pow 2 hbw)]
    have hq : c / 2 ^ (w - (rbits + w - bits)) = (r + c * 2 ^ rbits) / 2 ^ bits := by
      have e1 : w - (rbits + w - bits) = bits - rbits := by omega
      have e2 : 2 ^ bits = 2 ^ rbits * 2 ^ (bits - rbits) := by
        rw [← Nat.pow_add]; congr 1; omega
      rw [e1, e2, ← Nat.div_div_eq_div_mul, Nat.add_mul_div_right _ _ (Nat.pow_pos (by omega)),
        Nat.div_eq_of_lt hr, Nat.zero_add]
    rw [ho, hq, Nat.div_div_eq_div_mul, Nat.pow_succ, Nat.mul_comm ((2 ^ bits) ^ k')]
    congr 2
    omega

theorem inexactOuter_spec {w bits : Nat} (hb : 1 ≤ bits) (hbw : bits ≤ w) (hb8 : bits ≤ 8) :
    ∀ (cs : List Nat) (r rbits : Nat), (∀ c ∈ cs, c < 2 ^ w) → rbits < bits → r < 2 ^ rbits →
    ∃ K, inexactOuter w bits (2 ^ bits - 1) cs r rbits = emit (2 ^ bits) K (r + 2 ^ rbits * U w cs) ∧
      rbits + w * cs.length ≤ bits * K
  | [], r, rbits, _, hrb, hr => by
    unfold inexactOuter
    by_cases h0 : rbits = 0
    · subst h0
      have : r = 0 := by simpa using hr
      subst this
      exact ⟨0, by simp [emit], by simp⟩
    · have hb0 : (rbits != 0) = true := by simpa using h0
      rw [hb0]
      refine ⟨1, ?_, by simp; omega⟩
      have h1 : 2 ^ rbits < 2 ^ bits := Nat.pow_lt_pow_right (by omega) hrb
      have h2 : 2 ^ bits ≤ 2 ^ 8 := Nat.pow_le_pow_right (by omega) hb8
      simp [emit, Nat.mod_eq_of_lt (show r < 256 by omega), Nat.mod_eq_of_lt (show r < 2 ^ bits by omega)]
  | c :: cs, r, rbits, hcs, hrb, hr => by
    have hc : c < 2 ^ w := hcs c (by simp)
    unfold inexactOuter
    simp only
    rw [inexactInner_digit hb hbw hb8 hrb hr hc]
    simp only
    have hdm := Nat.div_add_mod (rbits + w) bits
    have hml := Nat.mod_lt (rbits + w) (show 0 < bits by omega)
    generalize (rbits + w) / bits = k at *
    generalize (rbits + w) % bits = rb' at *
    have hRk : (2 ^ bits) ^ k * 2 ^ rb' = 2 ^ (rbits + w) := by
      rw [← Nat.pow_mul, ← Nat.pow_add, hdm]
    have hTlt : r + c * 2 ^ rbits < 2 ^ (rbits + w) := by
      have : (c + 1) * 2 ^ rbits ≤ 2 ^ w * 2 ^ rbits := Nat.mul_le_mul_right _ hc
      rw [Nat.add_mul] at this
      rw [Nat.pow_add, Nat.mul_comm (2 ^ rbits)]; omega
    have hr' : (r + c * 2 ^ rbits) / (2 ^ bits) ^ k < 2 ^ rb' :=
      Nat.div_lt_of_lt_mul (by rw [hRk]; exact hTlt)
    obtain ⟨K', e1, e2⟩ := inexactOuter_spec hb hbw hb8 cs _ rb'
      (fun c hc => hcs c (by simp [hc])) hml hr'
    refine ⟨k + K', ?_, ?_⟩
    · rw [e1, emit_add]
      have hV : r + 2 ^ rbits * U w (c :: cs)
          = (r + c * 2 ^ rbits) + (2 ^ bits) ^ k * (2 ^ rb' * U w cs) := by
        rw [← Nat.mul_assoc, hRk, U_cons, Nat.pow_add]; unfold B; ring
      rw [hV, emit_add_mul _ (Nat.pow_pos (by omega)),
        Nat.add_mul_div_left _ _ (Nat.pow_pos (Nat.pow_pos (by omega)))]
    · simp only [List.length_cons]
      have := Nat.mul_add bits k K'
      have := Nat.mul_add w cs.length 1
      omega

theorem popZeros_cons (a : Nat) (l : List Nat) :
    popZeros (a :: l) = if popZeros l = [] then (if a = 0 then [] else [a]) else a :: popZeros l := by
  unfold popZeros
  rw [List.reverse_cons, List.dropWhile_append]
  by_cases h : (l.reverse.dropWhile (· == 0)) = []
  · simp only [h, List.isEmpty_nil, if_true, List.reverse_nil]
    by_cases ha : a = 0
    · simp [ha]
    · simp [ha]
  · have h1 : (l.reverse.dropWhile (· == 0)).isEmpty = false := by
      cases h' : l.reverse.dropWhile (· == 0) <;> simp_all
    have h2 : (l.reverse.dropWhile (· == 0)).reverse ≠ [] := by simpa using h
    simp [h1, h2]

theorem digitsLE_eq_nil {r v : Nat} (hr : 2 ≤ r) : digitsLE r v = [] ↔ v = 0 := by
  constructor
  · intro h
    by_contra hv
    rw [digitsLE_pos hr (by omega)] at h
    simp at h
  · rintro rfl; rfl

theorem popZeros_emit {R : Nat} (hR : 2 ≤ R) : ∀ (K v : Nat), v < R ^ K →
    popZeros (emit R K v) = digitsLE R v
  | 0, v, h => by
    have : v = 0 := by simpa using h
    subst this; rfl
  | K + 1, v, h => by
    have hq : v / R < R ^ K := by
      rw [Nat.pow_succ] at h; exact Nat.div_lt_of_lt_mul (by rw [Nat.mul_comm]; exact h)
    rw [emit_succ', popZeros_cons, popZeros_emit hR K _ hq]
    by_cases hv : v = 0
    · subst hv; simp [digitsLE_zero]
    · rw [digitsLE_pos (v := v) hR (by omega)]
      by_cases hq0 : v / R = 0
      · have hlt : v < R := by
          rcases Nat.div_eq_zero_iff.mp hq0 with h | h
          · omega
          · exact h
        simp [hq0, digitsLE_zero, Nat.mod_eq_of_lt hlt, hv]
      · have : digitsLE R (v / R) ≠ [] := fun e => hq0 ((digitsLE_eq_nil hR).mp e)
        simp [this]

theorem toInexactBitwiseDigitsLe_spec {w n bits : Nat} {x : List Nat} (hb : 1 ≤ bits) (hbw : bits ≤ w)
    (hb8 : bits ≤ 8) (hx : WF w n x) :
    toInexactBitwiseDigitsLe w x bits = digitsLE (2 ^ bits) (U w x) := by
  have hR : 2 ≤ 2 ^ bits := by
    calc 2 = 2 ^ 1 := rfl
      _ ≤ 2 ^ bits := Nat.pow_le_pow_right (by omega) hb
  unfold toInexactBitwiseDigitsLe
  simp only [mask_eq]
  obtain ⟨K, e1, e2⟩ := inexactOuter_spec hb hbw hb8 x 0 0 (fun c hc => hx.2 c hc) (by omega)
    (by simp)
  rw [e1]
  simp only [Nat.pow_zero, Nat.one_mul, Nat.zero_add] at e2 ⊢
  apply popZeros_emit hR
  have h1 := U_lt hx
  have h2 : M w n ≤ (2 ^ bits) ^ K := by
    unfold M; rw [← Nat.pow_mul, ← hx.1]; exact Nat.pow_le_pow_right (by omega) e2
  omega

/-! ### `to_radix_le` / `to_radix_be` / `to_str_radix` -/

set_option maxRecDepth 100000 in
theorem pow2_table : ∀ r, r < 257 → 2 ≤ r → u32IsPowerOfTwo r = true →
    (r = 2 ^ ilog2 r ∧ 1 ≤ ilog2 r ∧ ilog2 r ≤ 8) := by decide

end Radix

theorem UI.toRadixLe_spec {w n r : Nat} {x : List Nat} (hn : 1 ≤ n) (hw8 : 8 ≤ w) (hx : WF w n x)
    (hr : 2 ≤ r) (hr256 : r ≤ 256) :
    UI.toRadixLe w x r = .ok (Spec.Radix.canonLE r (U w x)) := by
  open Radix Spec.Radix in
  unfold UI.toRadixLe canonLE
  have hin : inRange r 256 = true := by simp [inRange, hr, hr256]
  rw [hin]
  simp only [Bool.not_true, Bool.false_eq_true, if_false]
  by_cases hz : U w x = 0
  · rw [if_pos ((isZero_iff x).mpr hz), if_pos hz]
  · have hzf : ¬ isZero x = true := fun h => hz ((isZero_iff x).mp h)
    rw [if_neg hzf, if_neg hz]
    have hB := B_ge_256 hw8
    by_cases hp : u32IsPowerOfTwo r = true
    · rw [if_pos hp]
      obtain ⟨e, k1, k8⟩ := pow2_table r (by omega) hr hp
      generalize ilog2 r = k at *
      by_cases h8 : (w == 8 && r == 256) = true
      · rw [if_pos h8]
        simp only [Bool.and_eq_true, beq_iff_eq] at h8
        obtain ⟨rfl, h256⟩ := h8
        rw [lastDigitIndex_eq_ldiRec, take_ldi_succ_eq hx hz, h256]; rfl
      · rw [if_neg h8]
        by_cases hd : (w % k == 0) = true
        · rw [if_pos hd]
          have hdk : w = k * (w / k) := by
            have := Nat.div_add_mod w k
            have : w % k = 0 := by simpa using hd
            omega
          rw [toBitwiseDigitsLe_spec k1 hdk hx hz, ← e]
        · rw [if_neg hd, toInexactBitwiseDigitsLe_spec k1 (by omega) k8 hx, ← e]
    · rw [if_neg hp]
      have hne : r ≠ 256 := by
        intro h; subst h; exact hp (by decide)
      have hlt : r < B w := by omega
      by_cases h10 : r = 10
      · subst h10; simp only [beq_self_eq_true, if_true]
        exact toRadixDigitsLe_spec hn hr hlt hx
      · have : (r == 10) = false := by simpa using h10
        rw [this]; simp only [Bool.false_eq_true, if_false]
        exact toRadixDigitsLe_spec hn hr hlt hx

theorem UI.toRadixBe_spec {w n r : Nat} {x : List Nat} (hn : 1 ≤ n) (hw8 : 8 ≤ w) (hx : WF w n x)
    (hr : 2 ≤ r) (hr256 : r ≤ 256) :
    UI.toRadixBe w x r = .ok (Spec.Radix.canonBE r (U w x)) := by
  unfold UI.toRadixBe; rw [UI.toRadixLe_spec hn hw8 hx hr hr256]; rfl

theorem Radix.digitToAscii_eq : UI.digitToAscii = Spec.Radix.digitChar := by
  funext d; unfold UI.digitToAscii Spec.Radix.digitChar; split <;> omega

/-- `to_str_radix` is the lowercase ASCII image of the canonical numeral -/
theorem UI.toStrRadix_spec {w n r : Nat} {x : List Nat} (hn : 1 ≤ n) (hw8 : 8 ≤ w) (hx : WF w n x)
    (hr : 2 ≤ r) (hr36 : r ≤ 36) :
    UI.toStrRadix w x r
      = .ok ((Spec.Radix.canonBE r (U w x)).map Spec.Radix.digitChar) := by
  unfold UI.toStrRadix
  have hin : Radix.inRange r 36 = true := by simp [Radix.inRange, hr, hr36]
  rw [hin, UI.toRadixBe_spec hn hw8 hx hr (by omega), Radix.digitToAscii_eq]; rfl

theorem II.toStrRadix_spec {w n r : Nat} {x : List Nat} (hn : 1 ≤ n) (hw8 : 8 ≤ w) (hx : WF w n x)
    (hr : 2 ≤ r) (hr36 : r ≤ 36) :
    II.toStrRadix w x r = .ok (Spec.Radix.canonStr r (S w x)) := by
  unfold II.toStrRadix Spec.Radix.canonStr
  obtain ⟨a1, a2⟩ := II.unsignedAbs_spec (show 2 ≤ w by omega) hn hx
  by_cases hneg : isNegative w x = true
  · have hs := (isNegative_iff' (by omega) hn hx).mp hneg
    rw [if_pos hneg, if_pos hs, UI.toStrRadix_spec hn hw8 a1 hr hr36, a2]; rfl
  · have hs := (isNegative_false_iff (by omega) hn hx).mp (by simpa using hneg)
    rw [if_neg hneg, if_neg (by omega), UI.toStrRadix_spec hn hw8 hx hr hr36]
    have := S_of_nonneg hx hs
    have e : (S w x).natAbs = U w x := by omega
    rw [e]

namespace Radix
open Spec.Radix

/-! ### canonical numerals are in the grammar and denote the value (round trips) -/

theorem digitsAux_lt {r : Nat} (hr : 0 < r) : ∀ (f v d : Nat), d ∈ digitsAux r f v → d < r
  | 0, _, _, h => by simp [digitsAux] at h
  | f + 1, v, d, h => by
    unfold digitsAux at h
    split at h
    · simp at h
    · rcases List.mem_cons.mp h with h | h
      · rw [h]; exact Nat.mod_lt _ hr
      · exact digitsAux_lt hr f _ d h

theorem valueOfLE_digitsAux {r : Nat} (hr : 2 ≤ r) : ∀ (f v : Nat), v ≤ f →
    valueOfLE r (digitsAux r f v) = v
  | 0, v, h => by
    have : v = 0 := by omega
    subst this; rfl
  | f + 1, v, h => by
    unfold digitsAux
    by_cases hv : v = 0
    · subst hv; rfl
    · rw [if_neg hv]
      have : v / r < v := Nat.div_lt_self (by omega) (by omega)
      simp only [valueOfLE]
      rw [valueOfLE_digitsAux hr f (v / r) (by omega)]
      exact Nat.mod_add_div v r

theorem canonLE_lt {r v : Nat} (hr : 2 ≤ r) : ∀ d ∈ canonLE r v, d < r := by
  intro d hd
  unfold canonLE at hd
  split at hd
  · simp at hd; omega
  · exact digitsAux_lt (by omega) _ _ d hd

theorem valueOfLE_canonLE {r : Nat} (hr : 2 ≤ r) (v : Nat) : valueOfLE r (canonLE r v) = v := by
  unfold canonLE
  split
  · rename_i h; subst h; simp [valueOfLE]
  · exact valueOfLE_digitsAux hr v v (Nat.le_refl _)

theorem canonLE_ne_nil {r : Nat} (hr : 2 ≤ r) (v : Nat) : canonLE r v ≠ [] := by
  unfold canonLE
  split
  · simp
  · rename_i h
    intro e
    exact h ((digitsLE_eq_nil hr).mp e)

theorem valueOf_canonBE {r : Nat} (hr : 2 ≤ r) (v : Nat) : valueOf r (canonBE r v) = v := by
  unfold canonBE; rw [valueOf_reverse, valueOfLE_canonLE hr]

theorem charDigit_digitChar {d : Nat} (hd : d < 36) : charDigit (digitChar d) = some d := by
  unfold charDigit digitChar
  split_ifs <;> first | (congr 1; omega) | omega

theorem digitChar_range {d : Nat} (hd : d < 36) : digitChar d ≠ 43 ∧ digitChar d ≠ 45 := by
  unfold digitChar; split <;> omega

theorem digitsOf_map_digitChar {r : Nat} (hr36 : r ≤ 36) : ∀ (ds : List Nat), (∀ d ∈ ds, d < r) →
    digitsOf r (ds.map digitChar) = some ds
  | [], _ => rfl
  | d :: ds, h => by
    have hd : d < r := h d (by simp)
    simp only [List.map_cons, digitsOf, charDigit_digitChar (show d < 36 by omega), hd, if_true,
      digitsOf_map_digitChar hr36 ds (fun e he => h e (by simp [he]))]

theorem Grammar_canonStr {r : Nat} (hr : 2 ≤ r) (hr36 : r ≤ 36) (sg : Bool) (z : Int)
    (hz : sg = true ∨ 0 ≤ z) :
    Grammar r sg (canonStr r z) = some (decide (z < 0), canonBE r z.natAbs) := by
  have hne : canonBE r z.natAbs ≠ [] := by
    unfold canonBE; simpa using canonLE_ne_nil hr z.natAbs
  have hlt : ∀ d ∈ canonBE r z.natAbs, d < r := by
    intro d hd; unfold canonBE at hd; exact canonLE_lt hr d (by simpa using hd)
  have hdo := digitsOf_map_digitChar hr36 _ hlt
  have hmne : (canonBE r z.natAbs).map digitChar ≠ [] := by simpa using hne
  unfold Grammar canonStr
  by_cases hneg : z < 0
  · have hsg : sg = true := by rcases hz with h | h; exact h; omega
    subst hsg
    rw [if_pos hneg]
    simp only [splitSign]
    have : ((canonBE r z.natAbs).map digitChar).isEmpty = false := by
      cases h : (canonBE r z.natAbs).map digitChar <;> simp_all
    simp [this, hdo, hneg]
  · rw [if_neg hneg]
    match hc : canonBE r z.natAbs, hne with
    | d :: ds, _ =>
      rw [hc] at hdo hlt
      obtain ⟨h43, h45⟩ := digitChar_range (show d < 36 by have := hlt d (by simp); omega)
      simp only [List.map_cons, splitSign, h43, h45, if_false, false_and]
      simp only [List.map_cons] at hdo
      simp [hdo, hneg]

theorem denote_canon {r : Nat} (hr : 2 ≤ r) (z : Int) :
    denote r (decide (z < 0), canonBE r z.natAbs) = z := by
  unfold denote
  rw [valueOf_canonBE hr]
  by_cases h : z < 0
  · simp only [h, decide_true, if_true]; omega
  · simp only [h, decide_false, Bool.false_eq_true, if_false]; omega

theorem ofInt_U {w n : Nat} {x : List Nat} (hx : WF w n x) : ofInt w n (U w x : Int) = x := by
  rw [ofInt_natCast (U_lt hx)]; exact (eq_ofNat hx).symm

theorem ofInt_S {w n : Nat} {x : List Nat} (hx : WF w n x) : ofInt w n (S w x) = x := by
  apply U_injective (WF_ofInt w n _) hx
  unfold ofInt
  rw [U_ofNat, Nat.mod_eq_of_lt (wrapU_lt (M_pos w n) _), S_eq hx, wrapU_toInt (U_lt hx)]

theorem digitsAux_getLast {r : Nat} (hr : 2 ≤ r) : ∀ (f v : Nat), v ≤ f → v ≠ 0 →
    (digitsAux r f v).getLast? ≠ some 0
  | 0, v, h, hv => by omega
  | f + 1, v, h, hv => by
    unfold digitsAux
    rw [if_neg hv]
    have hlt : v / r < v := Nat.div_lt_self (by omega) (by omega)
    by_cases hq : v / r = 0
    · have : digitsAux r f (v / r) = [] := by rw [hq]; cases f <;> simp [digitsAux]
      rw [this]
      have hvr : v < r := by
        rcases Nat.div_eq_zero_iff.mp hq with h | h
        · omega
        · exact h
      simp [Nat.mod_eq_of_lt hvr, hv]
    · have ih := digitsAux_getLast hr f (v / r) (by omega) hq
      cases hd : digitsAux r f (v / r) with
      | nil =>
        exfalso
        have hq1 : 1 ≤ v / r := Nat.pos_of_ne_zero hq
        generalize v / r = q at *
        obtain ⟨f', rfl⟩ : ∃ f', f = f' + 1 := ⟨f - 1, by omega⟩
        simp [digitsAux, hq] at hd
      | cons a as => rw [hd] at ih; rw [List.getLast?_cons_cons]; exact ih

theorem canonLE_getLast {r v : Nat} (hr : 2 ≤ r) (hv : v ≠ 0) : (canonLE r v).getLast? ≠ some 0 := by
  unfold canonLE; rw [if_neg hv]; exact digitsAux_getLast hr v v (Nat.le_refl _) hv

end Radix
namespace Radix
open Spec.Radix

/-! ### `from_radix_be` / `from_radix_le` (radix < 256) and `parse_bytes` -/

theorem ofNat_zero (w : Nat) : ∀ n, ofNat w n 0 = zero n
  | 0 => rfl
  | n + 1 => by
    simp only [ofNat, Nat.zero_mod, Nat.zero_div, ofNat_zero w n, zero, List.replicate_succ]

theorem digs_false (bs : List Nat) : digs false bs = bs := by
  have : byteToDigit false = id := by funext b; simp [byteToDigit]
  simp [digs, this]

theorem hasInvalid_false_all {r : Nat} (hr : r < 256) (bs : List Nat) :
    hasInvalid false r bs = !bs.all (· < r) := by
  induction bs with
  | nil => rfl
  | cons b bs ih =>
    unfold hasInvalid
    simp only [byteToDigit, Bool.false_eq_true, if_false, Nat.mod_eq_of_lt hr, List.all_cons, ih]
    by_cases h : b ≥ r
    · simp [h]
    · simp [h]

theorem fromRadix_core {w n r : Nat} (hn : 1 ≤ n) (hw8 : 8 ≤ w) (hw4 : 4 ∣ w) (hr : 2 ≤ r)
    (hr256 : r < 256) (be : Bool) (buf : List Nat) (hne : buf ≠ []) :
    (fromBufRadixInternal w n false be buf r false).map PRes.toOption
      = .ok ((expectDigits r (M w n) (if be then buf else buf.reverse)).map (ofNat w n)) := by
  have hlen : (if false = true then 1 else 0) < buf.length := by
    simp; exact List.length_pos_iff.mpr hne
  obtain ⟨h1, h2⟩ := fromBuf_spec (w := w) (n := n) (fs := false) (be := be) (buf := buf) (radix := r)
    (ls := false) hn hw8 hw4 hr hr256 (Or.inr rfl) hlen
  simp only [Bool.false_eq_true, if_false, List.drop_zero] at h1 h2
  generalize (if be = true then buf else buf.reverse) = view at *
  unfold expectDigits
  cases hv : hasInvalid false r view
  · have hall : view.all (· < r) = true := by
      have := hasInvalid_false_all hr256 view; rw [hv] at this; simpa using this.symm
    rw [h1 hv, digs_false]
    by_cases hfit : valueOf r view < M w n
    · simp [hfit, hall, Outcome.map, PRes.toOption]
    · simp [hfit, Outcome.map, PRes.toOption]
  · have hall : view.all (· < r) = false := by
      have := hasInvalid_false_all hr256 view; rw [hv] at this; simpa using this.symm
    obtain ⟨k, k1, _⟩ := h2 hv
    rw [k1]
    simp [hall, Outcome.map, PRes.toOption]

theorem ascii_utf8Valid : ∀ (bs : List Nat), (∀ b ∈ bs, b < 128) → Prim.utf8Valid bs = true
  | [], _ => rfl
  | b :: bs, h => by
    unfold Prim.utf8Valid
    rw [if_pos (h b (by simp))]
    exact ascii_utf8Valid bs (fun c hc => h c (by simp [hc]))

theorem digitsOf_ascii {r : Nat} : ∀ (bs ds : List Nat), digitsOf r bs = some ds → ∀ b ∈ bs, b < 128
  | [], _, _ => by simp
  | c :: cs, ds, h => by
    unfold digitsOf at h
    cases hc : charDigit c with
    | none => rw [hc] at h; simp at h
    | some d =>
      rw [hc] at h
      simp only at h
      split_ifs at h
      cases hd : digitsOf r cs with
      | none => rw [hd] at h; simp at h
      | some ds' =>
        have ih := digitsOf_ascii cs ds' hd
        have hc128 : c < 128 := by
          unfold charDigit at hc; split_ifs at hc <;> omega
        intro b hb
        rcases List.mem_cons.mp hb with hb | hb
        · rw [hb]; exact hc128
        · exact ih b hb

theorem Grammar_ascii {r : Nat} {sg : Bool} {s : List Nat} {g : Bool × List Nat}
    (h : Grammar r sg s = some g) : ∀ b ∈ s, b < 128 := by
  have hs := Grammar_ne_nil h
  unfold Grammar at h
  simp only at h
  split_ifs at h
  cases hd : digitsOf r (splitSign sg s).2 with
  | none => rw [hd] at h; simp at h
  | some ds =>
    have hb := digitsOf_ascii _ _ hd
    rw [splitSign_eq sg hs] at hb
    simp only at hb
    match s, hs with
    | c :: rest, _ =>
      intro b hbm
      by_cases hc : ((sg && (c :: rest).head? == some 45) || (c :: rest).head? == some 43) = true
      · rw [if_pos hc] at hb
        rcases List.mem_cons.mp hbm with e | e
        · simp at hc; omega
        · exact hb b (by simpa using e)
      · rw [if_neg hc] at hb
        exact hb b (by simpa using hbm)

/-- `Result → Option` of what the Spec expects -/
def expectOpt (w n : Nat) : Expect → Option (List Nat)
  | .ok z => some (ofInt w n z)
  | _ => none

theorem Matches_toOption {w n : Nat} {e : Expect} {res : Outcome PRes} (h : Matches w n e res) :
    res.map PRes.toOption = .ok (expectOpt w n e) := by
  cases e <;> simp only [Matches] at h
  case anyErr => obtain ⟨k, rfl⟩ := h; rfl
  all_goals (subst h; rfl)

theorem expect_ok_utf8 {r : Nat} {sg : Bool} {m : Nat} {s : List Nat} {z : Int}
    (h : expectParse r sg m s = .ok z) : Prim.utf8Valid s = true := by
  obtain ⟨g, hg, _⟩ := expect_ok_inv h
  exact ascii_utf8Valid s (Grammar_ascii hg)

end Radix

theorem UI.parseBytes_spec {w n : Nat} (hn : 1 ≤ n) (hw8 : 8 ≤ w) (hw4 : 4 ∣ w) {r : Nat}
    (hr : 2 ≤ r) (hr36 : r ≤ 36) (buf : List Nat) :
    UI.parseBytes w n buf r
      = .ok (Radix.expectOpt w n (Spec.Radix.expectParse r false (M w n) buf)) := by
  unfold UI.parseBytes
  by_cases hu : Prim.utf8Valid buf = true
  · simp only [hu, Bool.not_true, Bool.false_eq_true, if_false]
    exact Radix.Matches_toOption (UI.fromStrRadix_matches hn hw8 hw4 hr hr36 buf)
  · have hu' : Prim.utf8Valid buf = false := by simpa using hu
    simp only [hu', Bool.not_false, if_true]
    cases he : Spec.Radix.expectParse r false (M w n) buf with
    | ok z => rw [Radix.expect_ok_utf8 he] at hu'; cases hu'
    | _ => rfl

theorem II.parseBytes_spec {s n : Nat} (hn : 1 ≤ n) (hs3 : 3 ≤ s) (hs : s < 32) {r : Nat}
    (hr : 2 ≤ r) (hr36 : r ≤ 36) (buf : List Nat) :
    II.parseBytes (2 ^ s) n buf r
      = .ok (Radix.expectOpt (2 ^ s) n (Spec.Radix.expectParse r true (M (2 ^ s) n) buf)) := by
  unfold II.parseBytes
  by_cases hu : Prim.utf8Valid buf = true
  · simp only [hu, Bool.not_true, Bool.false_eq_true, if_false]
    exact Radix.Matches_toOption (II.fromStrRadix_matches hn hs3 hs hr hr36 buf)
  · have hu' : Prim.utf8Valid buf = false := by simpa using hu
    simp only [hu', Bool.not_false, if_true]
    cases he : Spec.Radix.expectParse r true (M (2 ^ s) n) buf with
    | ok z => rw [Radix.expect_ok_utf8 he] at hu'; cases hu'
    | _ => rfl

namespace Radix
open Spec.Radix

/-! ### radix 256: `from_le_slice` / `from_be_slice` (closed forms from Lemmas/Endian.lean) -/

theorem leValue_eq_valueOfLE (bs : List Nat) : Spec.Endian.leValue bs = valueOfLE 256 bs := by
  induction bs with
  | nil => rfl
  | cons b bs ih => simp [Spec.Endian.leValue, valueOfLE, ih]

theorem beValue_eq_valueOf (bs : List Nat) : Spec.Endian.beValue bs = valueOf 256 bs := rfl

end Radix

theorem UI.fromRadixBe_spec {w n r sh : Nat} (hn : 1 ≤ n) (hwb : w = 8 * 2 ^ sh) (hr : 2 ≤ r)
    (hr256 : r ≤ 256) (buf : List Nat) (hbuf : ∀ b ∈ buf, b < 256) :
    UI.fromRadixBe w n buf r
      = .ok ((Spec.Radix.expectDigits r (M w n) buf).map (ofNat w n)) := by
  open Radix Spec.Radix in
  have hpos : 0 < 2 ^ sh := Nat.pow_pos (by omega)
  have hw : 8 ≤ w := by omega
  have hw4 : 4 ∣ w := ⟨2 * 2 ^ sh, by omega⟩
  have hbw : w / 8 = 2 ^ sh := by rw [hwb]; exact Nat.mul_div_cancel_left _ (by omega)
  unfold UI.fromRadixBe
  have hin : inRange r 256 = true := by simp [inRange, hr, hr256]
  rw [hin]
  simp only [Bool.not_true, Bool.false_eq_true, if_false]
  by_cases hne : buf = []
  · subst hne
    simp [expectDigits, valueOf, M_pos, ofNat_zero]
  · have : buf.isEmpty = false := by cases buf <;> simp_all
    rw [this]
    simp only [Bool.false_eq_true, if_false]
    by_cases h256 : r = 256
    · subst h256
      simp only [beq_self_eq_true, if_true]
      rw [hbw, UI.fromBeSlice_closed rfl n (show Endian.Bytes buf from hbuf), beValue_eq_valueOf,
        ← hwb]
      have hall : buf.all (· < 256) = true := by simpa using hbuf
      unfold expectDigits
      by_cases hfit : valueOf 256 buf < M w n <;> simp [hfit, hall]
    · have : (r == 256) = false := by simpa using h256
      rw [this]
      simp only [Bool.false_eq_true, if_false]
      have := fromRadix_core (n := n) hn hw hw4 hr (by omega) true buf hne
      simpa using this

theorem UI.fromRadixLe_spec {w n r sh : Nat} (hn : 1 ≤ n) (hwb : w = 8 * 2 ^ sh) (hr : 2 ≤ r)
    (hr256 : r ≤ 256) (buf : List Nat) (hbuf : ∀ b ∈ buf, b < 256) :
    UI.fromRadixLe w n buf r
      = .ok ((Spec.Radix.expectDigits r (M w n) buf.reverse).map (ofNat w n)) := by
  open Radix Spec.Radix in
  have hpos : 0 < 2 ^ sh := Nat.pow_pos (by omega)
  have hw : 8 ≤ w := by omega
  have hw4 : 4 ∣ w := ⟨2 * 2 ^ sh, by omega⟩
  have hbw : w / 8 = 2 ^ sh := by rw [hwb]; exact Nat.mul_div_cancel_left _ (by omega)
  unfold UI.fromRadixLe
  have hin : inRange r 256 = true := by simp [inRange, hr, hr256]
  rw [hin]
  simp only [Bool.not_true, Bool.false_eq_true, if_false]
  by_cases hne : buf = []
  · subst hne
    simp [expectDigits, valueOf, M_pos, ofNat_zero]
  · have : buf.isEmpty = false := by cases buf <;> simp_all
    rw [this]
    simp only [Bool.false_eq_true, if_false]
    by_cases h256 : r = 256
    · subst h256
      simp only [beq_self_eq_true, if_true]
      rw [hbw, UI.fromLeSlice_closed rfl n (show Endian.Bytes buf from hbuf), leValue_eq_valueOfLE,
        ← valueOf_reverse, ← hwb]
      have hall : buf.reverse.all (· < 256) = true := by simpa using hbuf
      unfold expectDigits
      by_cases hfit : valueOf 256 buf.reverse < M w n <;> simp [hfit, hall]
    · have : (r == 256) = false := by simpa using h256
      rw [this]
      simp only [Bool.false_eq_true, if_false]
      have := fromRadix_core (n := n) hn hw hw4 hr (by omega) false buf hne
      simpa using this

end Bnum
