/-
  Bnum.Lemmas.C16Extra — helper lemmas for the additions to Props/C16.lean:

  * `SameV` / `EqV`: operands / results of equal value under a signedness flag (conversions take the
    signedness as a parameter); transfer lemmas for the `ConvOk` / `ConvOkP` shapes of C13 / C19;
  * WF-carrying congruences of the `cfg(debug_assertions)`-dependent operators `KD.uOpAdd` … `KD.iOpSub`
    (needed to push digit-type independence through functions that CALL them: `next_multiple_of`);
  * signed `rem` / `rem_euclid` for ALL operands with a non-zero divisor (`MIN % -1 = 0` included);
  * `BInt::div_rem_unchecked(MIN, -1) = (MIN, 0)` and from it `div_floor` / `div_ceil` at `MIN / -1`;
  * digit-type independence of `BUint::next_multiple_of` / `BInt::next_multiple_of` for all operands and
    both build profiles (C03 only describes the representable case).
-/
import Bnum.Lemmas.Indep
import Bnum.Props.C01
import Bnum.Props.C03
import Bnum.Lemmas.Endian

namespace Bnum.Indep
open Bnum

variable {w₁ n₁ w₂ n₂ : Nat} {a₁ a₂ b₁ b₂ : List Nat}

/-! ### values under a signedness flag -/

/-- operands of equal width, signedness `s` and value (`SameU` resp. `SameS`) -/
def SameV (s : Bool) (w₁ n₁ w₂ n₂ : Nat) (a₁ a₂ : List Nat) : Prop :=
  WF w₁ n₁ a₁ ∧ WF w₂ n₂ a₂ ∧ valOf s w₁ a₁ = valOf s w₂ a₂

theorem SameU.toV (h : SameU w₁ n₁ w₂ n₂ a₁ a₂) : SameV false w₁ n₁ w₂ n₂ a₁ a₂ :=
  ⟨h.wf₁, h.wf₂, by simp [valOf, h.val]⟩
theorem SameS.toV (h : SameS w₁ n₁ w₂ n₂ a₁ a₂) : SameV true w₁ n₁ w₂ n₂ a₁ a₂ :=
  ⟨h.wf₁, h.wf₂, by simp [valOf, h.val]⟩

/-- results of equal value under signedness `s` (`EqU` for `false`, `EqS` for `true`) -/
def EqV (s : Bool) (w₁ w₂ : Nat) (r₁ r₂ : List Nat) : Prop := valOf s w₁ r₁ = valOf s w₂ r₂

theorem EqV.toU {r₁ r₂ : List Nat} (h : EqV false w₁ w₂ r₁ r₂) : EqU w₁ w₂ r₁ r₂ := by
  unfold EqV valOf at h; unfold EqU; simpa using h
theorem EqV.toS {r₁ r₂ : List Nat} (h : EqV true w₁ w₂ r₁ r₂) : EqS w₁ w₂ r₁ r₂ := by
  unfold EqV valOf at h; unfold EqS; simpa using h

/-- C13 / C19 shape `ConvOk` (checked conversion INTO a bnum type): equal modulus and equal source value
    give both `None` or both `Some` of the same value -/
theorem convOk_rel {s : Bool} {v₁ m₁ v₂ m₂ : Nat} {o₁ o₂ : Outcome (Option (List Nat))} {z₁ z₂ : Int}
    (hM : M v₁ m₁ = M v₂ m₂) (h₁ : ConvOk s v₁ m₁ o₁ z₁) (h₂ : ConvOk s v₂ m₂ o₂ z₂) (hz : z₁ = z₂) :
    OutRel (OptRel (EqV s v₁ v₂)) o₁ o₂ := by
  subst hz
  unfold ConvOk at h₁ h₂
  rw [hM] at h₁
  rcases h₁ with ⟨r1, x, rfl, -, e1⟩ | ⟨r1, rfl⟩ <;> rcases h₂ with ⟨r2, y, rfl, -, e2⟩ | ⟨r2, rfl⟩
  · show valOf _ _ _ = valOf _ _ _; rw [e1, e2]
  · exact absurd r1 r2
  · exact absurd r2 r1
  · trivial

/-- C13 / C19 shape `ConvOkP` (checked conversion into a primitive): the answer is determined by the value -/
theorem convOkP_eq {t : PTy} {o₁ o₂ : Outcome (Option Nat)} {z : Int}
    (h₁ : ConvOkP t o₁ z) (h₂ : ConvOkP t o₂ z) : o₁ = o₂ := by
  unfold ConvOkP at h₁ h₂
  rcases h₁ with ⟨r1, x, rfl, hx, e1⟩ | ⟨r1, rfl⟩ <;> rcases h₂ with ⟨r2, y, rfl, hy, e2⟩ | ⟨r2, rfl⟩
  · have : x = y := by
      unfold PInt.val at e1 e2
      by_cases hs : t.signed = true
      · simp only [hs, if_true] at e1 e2
        have h1 := wrapU_toInt hx; have h2 := wrapU_toInt hy
        rw [e1] at h1; rw [e2] at h2; omega
      · simp only [hs] at e1 e2; simp at e1 e2; omega
    rw [this]
  · exact absurd r1 r2
  · exact absurd r2 r1
  · rfl

/-- the two's-complement value of `ofInt` of a representable integer -/
theorem S_ofInt {w n : Nat} {z : Int} (h : repS (M w n) z) : S w (ofInt w n z) = z := by
  have hwf : WF w n (ofInt w n z) := Endian.WF_ofNat _ _ _
  unfold S; rw [hwf.1]
  apply toInt_eq_of_emod (M_pos _ _) (U_lt hwf) h
  unfold ofInt; rw [Endian.U_ofNat, Nat.mod_eq_of_lt (wrapU_lt (M_pos _ _) _)]
  unfold wrapU
  have hp : (0 : Int) < (M w n : Int) := by exact_mod_cast M_pos w n
  have := Int.emod_nonneg z (ne_of_gt hp)
  omega

/-- equal widths in bits of byte-multiple digits: equal widths in bytes -/
theorem bytes_len {bw₁ bw₂ : Nat} (c : Cfgs (8 * bw₁) n₁ (8 * bw₂) n₂) : n₁ * bw₁ = n₂ * bw₂ := by
  have h := c.bits
  rw [Nat.mul_assoc, Nat.mul_assoc] at h
  have := Nat.eq_of_mul_eq_mul_left (by decide : 0 < 8) h
  rw [Nat.mul_comm n₁, Nat.mul_comm n₂]; exact this

/-! ### the unsuffixed operators `+` / `-` (strict under `debug_assertions`, wrapping otherwise):
    congruences that also carry well-formedness, for every operand pair -/

theorem sameU_opAdd (c : Cfgs w₁ n₁ w₂ n₂) (ha : SameU w₁ n₁ w₂ n₂ a₁ a₂) (hb : SameU w₁ n₁ w₂ n₂ b₁ b₂)
    (dbg : Bool) : OutRel (SameU w₁ n₁ w₂ n₂) (KD.uOpAdd dbg w₁ a₁ b₁) (KD.uOpAdd dbg w₂ a₂ b₂) := by
  have hz : (U w₁ a₁ : Int) + U w₁ b₁ = (U w₂ a₂ : Int) + U w₂ b₂ := by rw [ha.val, hb.val]
  have s₁ := UI.overflowingAdd_spec ha.wf₁ hb.wf₁
  have s₂ := UI.overflowingAdd_spec ha.wf₂ hb.wf₂
  have p := ovfU c.M_eq s₁ s₂ hz
  have p' : PairRel (SameU w₁ n₁ w₂ n₂) (UI.overflowingAdd w₁ a₁ b₁) (UI.overflowingAdd w₂ a₂ b₂) :=
    ⟨⟨s₁.1, s₂.1, p.1⟩, p.2⟩
  exact p'.strict.dbg p'.wrapping dbg

theorem sameU_opSub (c : Cfgs w₁ n₁ w₂ n₂) (ha : SameU w₁ n₁ w₂ n₂ a₁ a₂) (hb : SameU w₁ n₁ w₂ n₂ b₁ b₂)
    (dbg : Bool) : OutRel (SameU w₁ n₁ w₂ n₂) (KD.uOpSub dbg w₁ a₁ b₁) (KD.uOpSub dbg w₂ a₂ b₂) := by
  have hz : (U w₁ a₁ : Int) - U w₁ b₁ = (U w₂ a₂ : Int) - U w₂ b₂ := by rw [ha.val, hb.val]
  have s₁ := C01.u_overflowing_sub ha.wf₁ hb.wf₁
  have s₂ := C01.u_overflowing_sub ha.wf₂ hb.wf₂
  have p := ovfU' c.M_eq s₁ s₂ hz
  have p' : PairRel (SameU w₁ n₁ w₂ n₂) (UI.overflowingSub w₁ a₁ b₁) (UI.overflowingSub w₂ a₂ b₂) :=
    ⟨⟨s₁.1, s₂.1, p.1⟩, p.2⟩
  exact p'.strict.dbg p'.wrapping dbg

theorem sameS_opAdd (c : Cfgs w₁ n₁ w₂ n₂) (ha : SameS w₁ n₁ w₂ n₂ a₁ a₂) (hb : SameS w₁ n₁ w₂ n₂ b₁ b₂)
    (dbg : Bool) : OutRel (SameS w₁ n₁ w₂ n₂) (KD.iOpAdd dbg w₁ a₁ b₁) (KD.iOpAdd dbg w₂ a₂ b₂) := by
  have hz : S w₁ a₁ + S w₁ b₁ = S w₂ a₂ + S w₂ b₂ := by rw [ha.val, hb.val]
  have s₁ := C01.i_overflowing_add c.hw₁ c.hn₁ ha.wf₁ hb.wf₁
  have s₂ := C01.i_overflowing_add c.hw₂ c.hn₂ ha.wf₂ hb.wf₂
  have p := ovfS' c.M_eq s₁ s₂ hz
  have p' : PairRel (SameS w₁ n₁ w₂ n₂) (II.overflowingAdd w₁ a₁ b₁) (II.overflowingAdd w₂ a₂ b₂) :=
    ⟨⟨s₁.1, s₂.1, p.1⟩, p.2⟩
  have t₁ := C01.i_wrapping_add ha.wf₁ hb.wf₁
  have t₂ := C01.i_wrapping_add ha.wf₂ hb.wf₂
  have q : SameS w₁ n₁ w₂ n₂ (II.wrappingAdd w₁ a₁ b₁) (II.wrappingAdd w₂ a₂ b₂) :=
    ⟨t₁.1, t₂.1, by rw [t₁.2, t₂.2, c.M_eq, hz]⟩
  exact p'.strict.dbg q dbg

theorem sameS_opSub (c : Cfgs w₁ n₁ w₂ n₂) (ha : SameS w₁ n₁ w₂ n₂ a₁ a₂) (hb : SameS w₁ n₁ w₂ n₂ b₁ b₂)
    (dbg : Bool) : OutRel (SameS w₁ n₁ w₂ n₂) (KD.iOpSub dbg w₁ a₁ b₁) (KD.iOpSub dbg w₂ a₂ b₂) := by
  have hz : S w₁ a₁ - S w₁ b₁ = S w₂ a₂ - S w₂ b₂ := by rw [ha.val, hb.val]
  have s₁ := C01.i_overflowing_sub c.hw₁ c.hn₁ ha.wf₁ hb.wf₁
  have s₂ := C01.i_overflowing_sub c.hw₂ c.hn₂ ha.wf₂ hb.wf₂
  have p := ovfS' c.M_eq s₁ s₂ hz
  have p' : PairRel (SameS w₁ n₁ w₂ n₂) (II.overflowingSub w₁ a₁ b₁) (II.overflowingSub w₂ a₂ b₂) :=
    ⟨⟨s₁.1, s₂.1, p.1⟩, p.2⟩
  have t₁ := C01.i_wrapping_sub ha.wf₁ hb.wf₁
  have t₂ := C01.i_wrapping_sub ha.wf₂ hb.wf₂
  have q : SameS w₁ n₁ w₂ n₂ (II.wrappingSub w₁ a₁ b₁) (II.wrappingSub w₂ a₂ b₂) :=
    ⟨t₁.1, t₂.1, by rw [t₁.2, t₂.2, c.M_eq, hz]⟩
  exact p'.strict.dbg q dbg

theorem OutRel.sameU_eq {o₁ o₂ : Outcome (List Nat)} (h : OutRel (SameU w₁ n₁ w₂ n₂) o₁ o₂) :
    OutRel (EqU w₁ w₂) o₁ o₂ := h.mono (fun _ _ s => s.val)
theorem OutRel.sameS_eq {o₁ o₂ : Outcome (List Nat)} (h : OutRel (SameS w₁ n₁ w₂ n₂) o₁ o₂) :
    OutRel (EqS w₁ w₂) o₁ o₂ := h.mono (fun _ _ s => s.val)

/-! ### signed remainders for all operands -/

/-- `BInt`: `wrapping_rem`, `wrapping_rem_euclid` and the value component of `overflowing_rem(_euclid)` are the
    truncated / Euclidean remainder for EVERY dividend and non-zero divisor — at `MIN % -1` the exact
    remainder `0` is representable although the quotient is not -/
theorem i_rem_total {w n : Nat} {a b : List Nat} (hw : 2 ≤ w) (hn : 1 ≤ n) (ha : WF w n a) (hb : WF w n b)
    (h0 : S w b ≠ 0) (dbg : Bool) :
    ∃ r re f g, II.wrappingRem dbg w a b = .ok r ∧ II.wrappingRemEuclid dbg w a b = .ok re ∧
      II.overflowingRem dbg w a b = .ok (r, f) ∧ II.overflowingRemEuclid dbg w a b = .ok (re, g) ∧
      WF w n r ∧ WF w n re ∧ S w r = (S w a).tmod (S w b) ∧ S w re = S w a % S w b := by
  by_cases hov : S w a = -((M w n / 2 : Nat) : Int) ∧ S w b = -1
  · obtain ⟨-, -, -, -, -, -, h7, -, h9, -, h11, -, h13, -⟩ := C03.i_min_neg_one hw hn ha hb hov dbg
    refine ⟨_, _, _, _, h11, h13, h7, h9, WF_zero w n, WF_zero w n, ?_, ?_⟩
    · rw [S_zero, hov.2]; simp
    · rw [S_zero, hov.2]; simp
  · obtain ⟨q, r, qe, re, -, wr, -, wre, -, sr, -, sre, -, -, -, -, -, f14, -, f16, -, f18, -, f20, -⟩ :=
      C03.i_forms hw hn ha hb h0 hov dbg
    exact ⟨_, _, _, _, f18, f20, f14, f16, wr, wre, sr, sre⟩

/-! ### `BInt::div_rem_unchecked(MIN, -1)` and the rounding divisions there -/

theorem i_divRemUnchecked_min_neg_one {w n : Nat} {a b : List Nat} (hw : 2 ≤ w) (hn : 1 ≤ n)
    (ha : WF w n a) (hb : WF w n b) (hov : S w a = -((M w n / 2 : Nat) : Int) ∧ S w b = -1) (dbg : Bool) :
    ∃ q r, II.divRemUnchecked dbg w a b = .ok (q, r) ∧ WF w n q ∧ WF w n r ∧
      S w q = -((M w n / 2 : Nat) : Int) ∧ S w r = 0 := by
  have hw1 : 1 ≤ w := by omega
  have hM4 := M_ge_four hw hn
  have hme := M_even hw1 hn
  obtain ⟨ea, eb⟩ := hov
  have hU := C03.udivspec (w := w) (n := n) hw1 hn
  unfold II.divRemUnchecked
  rw [ha.1]
  have hone : isOne b = false := by
    cases h : isOne b
    · rfl
    · have u1 := (DivL.isOne_iff_U hw1 hb).mp h
      have := S_of_nonneg hb (by
        rw [S_eq hb]; unfold toInt; rw [u1, if_pos (by omega)]; decide)
      omega
  rw [hone]
  simp only [Bool.and_false, Bool.false_eq_true, if_false]
  obtain ⟨wa, ua⟩ := II.unsignedAbs_spec hw hn ha
  obtain ⟨wb, ub⟩ := II.unsignedAbs_spec hw hn hb
  rw [ea] at ua; rw [eb] at ub
  have na1 : (-((M w n / 2 : Nat) : Int)).natAbs = M w n / 2 := by
    rw [Int.natAbs_neg, Int.natAbs_natCast]
  have na2 : (-1 : Int).natAbs = 1 := rfl
  rw [na1] at ua; rw [na2] at ub
  obtain ⟨q, r, hqr, wq, wr, uq, ur⟩ := hU _ _ wa wb (by rw [ub]; decide)
  rw [hqr]
  simp only
  rw [ua, ub] at uq ur
  have uq' : U w q = M w n / 2 := by rw [uq, Nat.div_one]
  have ur' : U w r = 0 := by rw [ur, Nat.mod_one]
  have sr : S w r = 0 := by rw [S_eq wr, ur']; simp [toInt, M_pos w n]
  have sq : S w q = -((M w n / 2 : Nat) : Int) := by
    rw [S_eq wq, uq']; unfold toInt; rw [if_neg (by omega)]; omega
  rw [isNegative_eq_decide hw1 hn ha, isNegative_eq_decide hw1 hn hb]
  have na : S w a < 0 := by rw [ea]; omega
  have nb : S w b < 0 := by rw [eb]; decide
  simp only [na, nb, decide_true]
  obtain ⟨r', e1, e2, e3⟩ := DivL.iOpNeg_ok hw hn wr (by rw [sr]; unfold repS; omega) dbg
  rw [e1]
  exact ⟨_, _, rfl, wq, e2, sq, by rw [e3, sr]; rfl⟩

/-- `BInt::div_floor` / `div_ceil` at `MIN / -1`: the remainder is zero, so both return the (wrapped)
    quotient `MIN` without touching the `cfg`-dependent `± 1` -/
theorem i_divFloorCeil_min_neg_one {w n : Nat} {a b : List Nat} (hw : 2 ≤ w) (hn : 1 ≤ n)
    (ha : WF w n a) (hb : WF w n b) (hov : S w a = -((M w n / 2 : Nat) : Int) ∧ S w b = -1) (dbg : Bool) :
    ∃ q, II.divFloor dbg w a b = .ok q ∧ II.divCeil dbg w a b = .ok q ∧ WF w n q ∧
      S w q = -((M w n / 2 : Nat) : Int) := by
  obtain ⟨q, r, h, wq, wr, sq, sr⟩ := i_divRemUnchecked_min_neg_one hw hn ha hb hov dbg
  have hz : isZero b = false := II.isZero_false hb (by rw [hov.2]; decide)
  have hr : isZero r = true := (II.isZero_iff_S wr).mpr sr
  refine ⟨q, ?_, ?_, wq, sq⟩
  · unfold II.divFloor; rw [hz]; simp only [Bool.false_eq_true, if_false, h]; rw [hr]; simp
  · unfold II.divCeil; rw [hz]; simp only [Bool.false_eq_true, if_false, h]; rw [hr]; simp

/-! ### `next_multiple_of`, all operands, both build profiles -/

theorem u_nextMultipleOf_rel (c : Cfgs w₁ n₁ w₂ n₂) (ha : SameU w₁ n₁ w₂ n₂ a₁ a₂)
    (hb : SameU w₁ n₁ w₂ n₂ b₁ b₂) (dbg : Bool) :
    OutRel (EqU w₁ w₂) (UI.nextMultipleOf dbg w₁ a₁ b₁) (UI.nextMultipleOf dbg w₂ a₂ b₂) := by
  by_cases h0 : U w₁ b₁ = 0
  · have h0' : U w₂ b₂ = 0 := by rw [← hb.val]; exact h0
    have z₁ := (C03.u_zero_divisor (a := a₁) h0 dbg).2.2.2.2.2.2.2.2.2.2.2.2.2.2.2.2.2.2.2.2
    have z₂ := (C03.u_zero_divisor (a := a₂) h0' dbg).2.2.2.2.2.2.2.2.2.2.2.2.2.2.2.2.2.2.2.2
    rw [z₁, z₂]; trivial
  · have h0' : U w₂ b₂ ≠ 0 := by rw [← hb.val]; exact h0
    obtain ⟨q₁, r₁, -, wr₁, -, ur₁, -, -, -, -, -, -, -, -, -, -, f₁, -⟩ := C03.u_forms c.one₁ c.hn₁ ha.wf₁ hb.wf₁ h0
    obtain ⟨q₂, r₂, -, wr₂, -, ur₂, -, -, -, -, -, -, -, -, -, -, f₂, -⟩ := C03.u_forms c.one₂ c.hn₂ ha.wf₂ hb.wf₂ h0'
    have hr : SameU w₁ n₁ w₂ n₂ r₁ r₂ := ⟨wr₁, wr₂, by rw [ur₁, ur₂, ha.val, hb.val]⟩
    unfold UI.nextMultipleOf
    rw [f₁, f₂]
    simp only
    have z₁ : isZero r₁ = decide (U w₁ r₁ = 0) := bool_eq_decide (DivL.isZero_iff_U r₁)
    have z₂ : isZero r₂ = decide (U w₂ r₂ = 0) := bool_eq_decide (DivL.isZero_iff_U r₂)
    rw [z₁, z₂, hr.val]
    by_cases hz : U w₂ r₂ = 0
    · simp only [hz, decide_true, if_true]; exact ha.val
    · simp only [hz, decide_false, Bool.false_eq_true, if_false]
      have hs := sameU_opSub c hb hr dbg
      cases e₁ : KD.uOpSub dbg w₁ b₁ r₁ <;> cases e₂ : KD.uOpSub dbg w₂ b₂ r₂ <;> rw [e₁, e₂] at hs
      · exact (sameU_opAdd c ha hs dbg).sameU_eq
      · exact absurd hs (by simp [OutRel])
      · exact absurd hs (by simp [OutRel])
      · trivial

theorem i_nextMultipleOf_rel (c : Cfgs w₁ n₁ w₂ n₂) (ha : SameS w₁ n₁ w₂ n₂ a₁ a₂)
    (hb : SameS w₁ n₁ w₂ n₂ b₁ b₂) (dbg : Bool) :
    OutRel (EqS w₁ w₂) (II.nextMultipleOf dbg w₁ a₁ b₁) (II.nextMultipleOf dbg w₂ a₂ b₂) := by
  by_cases h0 : S w₁ b₁ = 0
  · have h0' : S w₂ b₂ = 0 := by rw [← hb.val]; exact h0
    have z₁ := (C03.i_zero_divisor c.hw₁ c.hn₁ ha.wf₁ hb.wf₁ h0 dbg).2.2.2.2.2.2.2.2.2.2.2.2.2.2.2.2.2.2.2.2
    have z₂ := (C03.i_zero_divisor c.hw₂ c.hn₂ ha.wf₂ hb.wf₂ h0' dbg).2.2.2.2.2.2.2.2.2.2.2.2.2.2.2.2.2.2.2.2
    rw [z₁, z₂]; trivial
  · have h0' : S w₂ b₂ ≠ 0 := by rw [← hb.val]; exact h0
    obtain ⟨-, r₁, -, -, -, f₁, -, -, -, wr₁, -, sr₁⟩ := i_rem_total c.hw₁ c.hn₁ ha.wf₁ hb.wf₁ h0 dbg
    obtain ⟨-, r₂, -, -, -, f₂, -, -, -, wr₂, -, sr₂⟩ := i_rem_total c.hw₂ c.hn₂ ha.wf₂ hb.wf₂ h0' dbg
    have hr : SameS w₁ n₁ w₂ n₂ r₁ r₂ := ⟨wr₁, wr₂, by rw [sr₁, sr₂, ha.val, hb.val]⟩
    unfold II.nextMultipleOf
    rw [f₁, f₂]
    simp only
    have z₁ : isZero r₁ = decide (S w₁ r₁ = 0) := bool_eq_decide (II.isZero_iff_S wr₁)
    have z₂ : isZero r₂ = decide (S w₂ r₂ = 0) := bool_eq_decide (II.isZero_iff_S wr₂)
    rw [z₁, z₂, isNegative_eq_decide c.one₁ c.hn₁ wr₁, isNegative_eq_decide c.one₂ c.hn₂ wr₂,
      isNegative_eq_decide c.one₁ c.hn₁ hb.wf₁, isNegative_eq_decide c.one₂ c.hn₂ hb.wf₂, hr.val, hb.val]
    by_cases hz : S w₂ r₂ = 0
    · simp only [hz, decide_true, if_true]; exact ha.val
    · simp only [hz, decide_false, Bool.false_eq_true, if_false]
      by_cases hsg : (decide (S w₂ r₂ < 0) == decide (S w₂ b₂ < 0)) = true
      · rw [if_pos hsg, if_pos hsg]
        have hs := sameS_opSub c hb hr dbg
        cases e₁ : KD.iOpSub dbg w₁ b₁ r₁ <;> cases e₂ : KD.iOpSub dbg w₂ b₂ r₂ <;> rw [e₁, e₂] at hs
        · exact (sameS_opAdd c ha hs dbg).sameS_eq
        · exact absurd hs (by simp [OutRel])
        · exact absurd hs (by simp [OutRel])
        · trivial
      · rw [if_neg hsg, if_neg hsg]
        exact (sameS_opSub c ha hr dbg).sameS_eq

end Bnum.Indep
