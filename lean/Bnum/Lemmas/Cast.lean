import Bnum.Model.Convert
import Bnum.Lemmas.AddSub2
namespace Bnum
open Arr

/-! ### Outcome -/
namespace Outcome
@[simp] theorem bind_ok {α β} (a : α) (f : α → Outcome β) : (Outcome.ok a).bind f = f a := rfl
@[simp] theorem bind_panic {α β} (f : α → Outcome β) : (Outcome.panic : Outcome α).bind f = .panic := rfl
@[simp] theorem map_ok {α β} (a : α) (f : α → β) : (Outcome.ok a).map f = .ok (f a) := rfl
@[simp] theorem map_panic {α β} (f : α → β) : (Outcome.panic : Outcome α).map f = .panic := rfl
theorem bind_pure {α} (x : Outcome α) : x.bind .ok = x := by cases x <;> rfl
theorem bind_assoc {α β γ} (x : Outcome α) (f : α → Outcome β) (g : β → Outcome γ) :
    (x.bind f).bind g = x.bind (fun a => (f a).bind g) := by cases x <;> rfl
end Outcome

namespace Arr
theorem idx_eq {a : List Nat} {i : Nat} (h : i < a.length) : idx a i = .ok a[i] := by
  unfold idx; rw [List.getElem?_eq_getElem h]
theorem upd_eq {a : List Nat} {i : Nat} (d : Nat) (h : i < a.length) : upd a i d = .ok (a.set i d) := by
  unfold upd; rw [if_pos h]

theorem forN_succ_last {σ} (body : Nat → σ → Outcome σ) : ∀ (k i : Nat) (s : σ),
    forN body (k + 1) i s = (forN body k i s).bind (body (i + k)) := by
  intro k
  induction k with
  | zero => intro i s; simp [forN, Outcome.bind_pure]
  | succ k ih =>
    intro i s
    rw [forN, forN]
    cases h : body i s with
    | panic => rfl
    | ok s' =>
      simp only [Outcome.bind_ok]
      rw [ih (i + 1) s']; congr 2; omega

/-- a loop that writes `out[i] = g i` for `i = 0 .. k-1` -/
theorem forN_write {rd : Nat → Outcome Nat} {g : Nat → Nat} : ∀ (k : Nat) (out : List Nat),
    k ≤ out.length → (∀ j < k, rd j = .ok (g j)) →
    forN (fun i o => (rd i).bind fun d => upd o i d) k 0 out
      = .ok ((List.range k).map g ++ out.drop k) := by
  intro k
  induction k with
  | zero => intro out _ _; simp [forN]
  | succ k ih =>
    intro out hk hrd
    rw [forN_succ_last, ih out (by omega) (fun j hj => hrd j (by omega))]
    simp only [Outcome.bind_ok, Nat.zero_add, hrd k (by omega)]
    have hlen : ((List.range k).map g ++ out.drop k).length = out.length := by simp; omega
    rw [upd_eq _ (by rw [hlen]; omega)]
    congr 1
    rw [List.set_append]
    simp only [List.length_map, List.length_range, Nat.lt_irrefl, if_false, Nat.sub_self]
    rw [List.range_succ, List.map_append, List.append_assoc]
    congr 1
    rw [List.drop_eq_getElem_cons (by omega : k < out.length)]
    rfl
end Arr
theorem WF_append {w a b : Nat} {x y : List Nat} (hx : WF w a x) (hy : WF w b y) :
    WF w (a + b) (x ++ y) := by
  refine ⟨by simp [hx.1, hy.1], ?_⟩
  intro d hd
  rcases List.mem_append.mp hd with h | h
  · exact hx.2 d h
  · exact hy.2 d h

theorem WF_take {w n : Nat} {x : List Nat} (m : Nat) (hx : WF w n x) : WF w (min m n) (x.take m) :=
  ⟨by simp [hx.1], fun d hd => hx.2 d (List.mem_of_mem_take hd)⟩

theorem WF_drop {w n : Nat} {x : List Nat} (m : Nat) (hx : WF w n x) : WF w (n - m) (x.drop m) :=
  ⟨by simp [hx.1], fun d hd => hx.2 d (List.mem_of_mem_drop hd)⟩

theorem U_take_add_drop (w : Nat) (x : List Nat) (m : Nat) :
    U w x = U w (x.take m) + B w ^ (min m x.length) * U w (x.drop m) := by
  conv_lhs => rw [← List.take_append_drop m x]
  rw [U_append, List.length_take]

/-- truncation to the low `m` digits is reduction modulo `B^m` -/
theorem U_take {w n : Nat} {x : List Nat} (m : Nat) (hx : WF w n x) :
    U w (x.take m) = U w x % B w ^ m := by
  have h1 := U_take_add_drop w x m
  have h2 := U_lt (WF_take m hx)
  rw [M_eq_pow] at h2
  by_cases hm : m ≤ n
  · rw [hx.1, Nat.min_eq_left hm] at h1
    rw [Nat.min_eq_left hm] at h2
    rw [h1, Nat.add_mul_mod_self_left, Nat.mod_eq_of_lt h2]
  · have : x.take m = x := List.take_of_length_le (by rw [hx.1]; omega)
    rw [this]
    have h3 := U_lt hx
    rw [M_eq_pow] at h3
    have : B w ^ n ≤ B w ^ m := Nat.pow_le_pow_right (B_pos w) (by omega)
    rw [Nat.mod_eq_of_lt (by omega)]

theorem U_append_replicate_max (w : Nat) {n : Nat} {x : List Nat} (hx : WF w n x) (k : Nat) :
    U w (x ++ List.replicate k (B w - 1)) + M w n = U w x + M w (n + k) := by
  rw [U_append, U_replicate_max, hx.1, M_eq_pow, M_eq_pow, M_eq_pow, Nat.pow_add]
  have h1 : 0 < B w ^ k := Nat.pow_pos (B_pos w)
  have h2 : 0 < B w ^ n := Nat.pow_pos (B_pos w)
  generalize B w ^ k = bk at *; generalize B w ^ n = bn at *
  obtain ⟨c, rfl⟩ : ∃ c, bk = c + 1 := ⟨bk - 1, by omega⟩
  simp [Nat.mul_add]; omega

theorem U_append_replicate_zero (w : Nat) (x : List Nat) (k : Nat) :
    U w (x ++ List.replicate k 0) = U w x := by
  rw [U_append, U_replicate_zero]; simp

theorem map_range_getD (x : List Nat) {m : Nat} (hm : m ≤ x.length) :
    (List.range m).map (fun i => x.getD i 0) = x.take m := by
  apply List.ext_getElem
  · simp [hm]
  · intro i h1 h2
    simp at h1 h2 ⊢
    rw [List.getElem?_eq_getElem (by omega)]; rfl

namespace Arr
theorem forN_shift {σ} (body : Nat → σ → Outcome σ) (a : Nat) : ∀ (k i : Nat) (s : σ),
    forN body k (a + i) s = forN (fun j => body (a + j)) k i s := by
  intro k
  induction k with
  | zero => intro i s; rfl
  | succ k ih =>
    intro i s
    rw [forN, forN]
    congr 1
    funext s'
    exact ih (i + 1) s'
theorem idx_getD {a : List Nat} {i : Nat} (h : i < a.length) : idx a i = .ok (a.getD i 0) := by
  rw [idx_eq h]; simp [List.getD, List.getElem?_eq_getElem h]
end Arr

namespace UI
theorem castDown_eq {x : List Nat} {m : Nat} (hm : m ≤ x.length) :
    castDown x m = .ok (x.take m) := by
  unfold castDown forRange
  rw [Nat.sub_zero, forN_write (g := fun i => x.getD i 0) m (zero m) (by simp [zero])
    (fun j hj => idx_getD (by omega))]
  rw [map_range_getD x hm]; simp [zero]

theorem castUp_eq {x : List Nat} {m : Nat} (hm : x.length ≤ m) (digit : Nat) :
    castUp x m digit = .ok (x ++ List.replicate (m - x.length) digit) := by
  unfold castUp forRange
  rw [if_neg (by omega)]
  have e : m - (m - x.length) = x.length := by omega
  rw [e]
  have := forN_shift (fun i digits =>
      (idx x (i - (m - x.length))).bind fun d => upd digits (i - (m - x.length)) d)
      (m - x.length) x.length 0 (List.replicate m digit)
  rw [Nat.add_zero] at this
  rw [this]
  simp only [Nat.add_sub_cancel_left]
  rw [forN_write (g := fun i => x.getD i 0) x.length _ (by simp; omega)
    (fun j hj => idx_getD (by omega))]
  rw [map_range_getD x (Nat.le_refl _)]; simp
end UI

theorem wrapU_toInt_dvd {m m₁ u : Nat} (hm : 0 < m) (hd : m ∣ m₁) :
    wrapU m (toInt m₁ u) = u % m := by
  obtain ⟨c, rfl⟩ := hd
  unfold toInt
  split
  · exact wrapU_eq_of (Nat.mod_lt _ hm) (k := (u / m : Nat)) (by
      have := Nat.mod_add_div u m; push_cast; nlinarith [this])
  · exact wrapU_eq_of (Nat.mod_lt _ hm) (k := (u / m : Nat) - c) (by
      have := Nat.mod_add_div u m; push_cast; nlinarith [this])

theorem wrapU_toInt_le {m m₁ u : Nat} (hu : u < m₁) (hle : m₁ ≤ m) :
    wrapU m (toInt m₁ u) = if 2 * u < m₁ then u else u + m - m₁ := by
  unfold toInt
  split
  · exact wrapU_eq_of (by omega) (k := 0) (by simp)
  · exact wrapU_eq_of (by omega) (k := -1) (by omega)

theorem M_le_M {w a b : Nat} (h : a ≤ b) : M w a ≤ M w b := by
  unfold M; exact Nat.pow_le_pow_right (by decide) (Nat.mul_le_mul_left _ h)
theorem M_dvd_M {w a b : Nat} (h : a ≤ b) : M w a ∣ M w b := by
  unfold M; exact Nat.pow_dvd_pow _ (Nat.mul_le_mul_left _ h)

/-- the shape of every cast theorem: no panic, well-formed result, value = source value mod `2^BITS` -/
def CastOk (w n : Nat) (o : Outcome (List Nat)) (z : Int) : Prop :=
  ∃ r, o = .ok r ∧ WF w n r ∧ U w r = wrapU (M w n) z

theorem CastOk.map_id {w n : Nat} {o : Outcome (List Nat)} {z : Int} (h : CastOk w n o z) :
    CastOk w n (o.map II.fromBits) z := by
  obtain ⟨r, rfl, h⟩ := h; exact ⟨r, rfl, h⟩

namespace UI
theorem castFromU_spec {w n₁ : Nat} {x : List Nat} (n : Nat) (hx : WF w n₁ x) :
    CastOk w n (castFromU x n) (U w x) := by
  unfold castFromU
  rw [hx.1]
  split
  · rename_i h
    rw [castUp_eq (by rw [hx.1]; omega)]
    refine ⟨_, rfl, ?_, ?_⟩
    · have := WF_append hx (WF_replicate (w := w) (n - n₁) (B_pos w))
      rwa [hx.1, show n₁ + (n - n₁) = n by omega] at *
    · rw [U_append_replicate_zero, wrapU_natCast, Nat.mod_eq_of_lt]
      exact Nat.lt_of_lt_of_le (U_lt hx) (M_le_M (by omega))
  · rename_i h
    rw [castDown_eq (by rw [hx.1]; omega)]
    refine ⟨_, rfl, ?_, ?_⟩
    · have := WF_take n hx
      rwa [Nat.min_eq_left (by omega)] at this
    · rw [U_take n hx, wrapU_natCast, M_eq_pow]

theorem castFromI_spec {w n₁ : Nat} {x : List Nat} (n : Nat) (hw : 1 ≤ w) (hn₁ : 1 ≤ n₁)
    (hx : WF w n₁ x) : CastOk w n (castFromI w x n) (S w x) := by
  unfold castFromI
  rw [hx.1]
  split
  · rename_i h
    rw [castUp_eq (by rw [hx.1]; omega), hx.1]
    have hB : B w - 1 < B w := by have := B_pos w; omega
    refine ⟨_, rfl, ?_, ?_⟩
    · have := WF_append hx (WF_replicate (w := w) (n - n₁)
        (show (if isNegative w x then B w - 1 else 0) < B w by split <;> omega))
      rwa [show n₁ + (n - n₁) = n by omega] at this
    · rw [S_eq hx, wrapU_toInt_le (U_lt hx) (M_le_M (by omega)), isNegative_eq_decide hw hn₁ hx,
        S_eq hx]
      have hlt := U_lt hx
      have hle : M w n₁ ≤ M w n := M_le_M (by omega)
      by_cases hneg : 2 * U w x < M w n₁
      · have : ¬ toInt (M w n₁) (U w x) < 0 := by rw [toInt_of_lt hneg]; omega
        simp only [this, decide_false, hneg, if_true]
        exact U_append_replicate_zero w x _
      · have : toInt (M w n₁) (U w x) < 0 := by rw [toInt_of_ge (by omega)]; omega
        simp only [this, decide_true, hneg, if_false, if_true]
        have := U_append_replicate_max w hx (n - n₁)
        rw [show n₁ + (n - n₁) = n by omega] at this
        omega
  · rename_i h
    rw [castDown_eq (by rw [hx.1]; omega)]
    refine ⟨_, rfl, ?_, ?_⟩
    · have := WF_take n hx
      rwa [Nat.min_eq_left (by omega)] at this
    · rw [U_take n hx, S_eq hx, wrapU_toInt_dvd (M_pos w n) (M_dvd_M (by omega)), M_eq_pow]
end UI

end Bnum
