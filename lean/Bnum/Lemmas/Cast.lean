/-
  Bnum.Lemmas.Cast — lemmas for C09 (casts) and C13 (checked conversions).
  Layers: Outcome/array-loop algebra (`forN_succ_last`, `forN_write`, `forN_conj`); digit lists as
  positional numerals (`U_take`, `dig`, `U_map_dig`, `dig_U`, `dig_split`, `split_at`);
  same-digit casts (`castUp_eq`, `castDown_eq`, `UI.castFromU_spec`, `UI.castFromI_spec`);
  cross-digit casts (`splitLoop_eq`, `packLoop_eq`, `packLoopNeg_conj`, `UI.castFromUD_*_spec`,
  `UI.castFromID_*_spec`, `castBnum_spec`); primitive casts (`asmOrLoop_spec`, `asmAndNotLoop_conj`,
  `UI.castToPrim_eq`, `II.castToPrim_eq`, `asBuintLoop_*`, `UI.castFromPrim_spec`);
  conversions (`ConvOk`, `ConvOkP`, `FromOk`, `btryFrom_spec`, `UI.fromUint_spec`,
  `II.fromInt_spec`, `II.fromUint_partial`, `UI.tryFromIint_spec`, `tryToPrim_spec`).
  The and-not loops used for negative sources are reduced to the or loops by De Morgan
  conjugation (`not_and_not`, `forN_conj`).
-/
import Bnum.Model.Convert
import Bnum.Lemmas.AddSub2
import Bnum.Lemmas.Bits
namespace Bnum
open Arr

/-! ### Outcome -/
namespace Outcome
@[simp] theorem bind_ok {α β} (a : α) (f : α → Outcome β) : (Outcome.ok a).bind f = f a := rfl
@[simp] theorem bind_panic {α β} (f : α → Outcome β) : (Outcome.panic : Outcome α).bind f = .panic := rfl
@[simp] theorem map_ok {α β} (a : α) (f : α → β) : (Outcome.ok a).map f = .ok (f a) := rfl
@[simp] theorem map_panic {α β} (f : α → β) : (Outcome.panic : Outcome α).map f = .panic := rfl
theorem bind_pure {α} (x : Outcome α) : x.bind .ok = x := by cases x <;> rfl
theorem bind_assoc {α β γ} (x : Outcome α) (f : α → Outcome β) (g : β → Outcome γ) :
    (x.bind f).bind g = x.bind (fun a => (f a).bind g) := by cases x <;> rfl
end Outcome

namespace Arr
theorem idx_eq {a : List Nat} {i : Nat} (h : i < a.length) : idx a i = .ok a[i] := by
  unfold idx; rw [List.getElem?_eq_getElem h]
theorem upd_eq {a : List Nat} {i : Nat} (d : Nat) (h : i < a.length) : upd a i d = .ok (a.set i d) := by
  unfold upd; rw [if_pos h]

theorem forN_succ_last {σ} (body : Nat → σ → Outcome σ) : ∀ (k i : Nat) (s : σ),
    forN body (k + 1) i s = (forN body k i s).bind (body (i + k)) := by
  intro k
  induction k with
  | zero => intro i s; simp [forN, Outcome.bind_pure]
  | succ k ih =>
    intro i s
    rw [forN, forN]
    cases h : body i s with
    | panic => rfl
    | ok s' =>
      simp only [Outcome.bind_ok]
      rw [ih (i + 1) s']; congr 2; omega

/-- a loop that writes `out[i] = g i` for `i = 0 .. k-1` -/
theorem forN_write {rd : Nat → Outcome Nat} {g : Nat → Nat} : ∀ (k : Nat) (out : List Nat),
    k ≤ out.length → (∀ j < k, rd j = .ok (g j)) →
    forN (fun i o => (rd i).bind fun d => upd o i d) k 0 out
      = .ok ((List.range k).map g ++ out.drop k) := by
  intro k
  induction k with
  | zero => intro out _ _; simp [forN]
  | succ k ih =>
    intro out hk hrd
    rw [forN_succ_last, ih out (by omega) (fun j hj => hrd j (by omega))]
    simp only [Outcome.bind_ok, Nat.zero_add, hrd k (by omega)]
    have hlen : ((List.range k).map g ++ out.drop k).length = out.length := by simp; omega
    rw [upd_eq _ (by rw [hlen]; omega)]
    congr 1
    rw [List.set_append]
    simp only [List.length_map, List.length_range, Nat.lt_irrefl, if_false, Nat.sub_self]
    rw [List.range_succ, List.map_append, List.append_assoc]
    congr 1
    rw [List.drop_eq_getElem_cons (by omega : k < out.length)]
    rfl
end Arr
theorem WF_append {w a b : Nat} {x y : List Nat} (hx : WF w a x) (hy : WF w b y) :
    WF w (a + b) (x ++ y) := by
  refine ⟨by simp [hx.1, hy.1], ?_⟩
  intro d hd
  rcases List.mem_append.mp hd with h | h
  · exact hx.2 d h
  · exact hy.2 d h

theorem WF_take {w n : Nat} {x : List Nat} (m : Nat) (hx : WF w n x) : WF w (min m n) (x.take m) :=
  ⟨by simp [hx.1], fun d hd => hx.2 d (List.mem_of_mem_take hd)⟩

theorem WF_drop {w n : Nat} {x : List Nat} (m : Nat) (hx : WF w n x) : WF w (n - m) (x.drop m) :=
  ⟨by simp [hx.1], fun d hd => hx.2 d (List.mem_of_mem_drop hd)⟩

theorem U_take_add_drop (w : Nat) (x : List Nat) (m : Nat) :
    U w x = U w (x.take m) + B w ^ (min m x.length) * U w (x.drop m) := by
  conv_lhs => rw [← List.take_append_drop m x]
  rw [U_append, List.length_take]

/-- truncation to the low `m` digits is reduction modulo `B^m` -/
theorem U_take {w n : Nat} {x : List Nat} (m : Nat) (hx : WF w n x) :
    U w (x.take m) = U w x % B w ^ m := by
  have h1 := U_take_add_drop w x m
  have h2 := U_lt (WF_take m hx)
  rw [M_eq_pow] at h2
  by_cases hm : m ≤ n
  · rw [hx.1, Nat.min_eq_left hm] at h1
    rw [Nat.min_eq_left hm] at h2
    rw [h1, Nat.add_mul_mod_self_left, Nat.mod_eq_of_lt h2]
  · have : x.take m = x := List.take_of_length_le (by rw [hx.1]; omega)
    rw [this]
    have h3 := U_lt hx
    rw [M_eq_pow] at h3
    have : B w ^ n ≤ B w ^ m := Nat.pow_le_pow_right (B_pos w) (by omega)
    rw [Nat.mod_eq_of_lt (by omega)]

theorem U_append_replicate_max (w : Nat) {n : Nat} {x : List Nat} (hx : WF w n x) (k : Nat) :
    U w (x ++ List.replicate k (B w - 1)) + M w n = U w x + M w (n + k) := by
  rw [U_append, U_replicate_max, hx.1, M_eq_pow, M_eq_pow, M_eq_pow, Nat.pow_add]
  have h1 : 0 < B w ^ k := Nat.pow_pos (B_pos w)
  have h2 : 0 < B w ^ n := Nat.pow_pos (B_pos w)
  generalize B w ^ k = bk at *; generalize B w ^ n = bn at *
  obtain ⟨c, rfl⟩ : ∃ c, bk = c + 1 := ⟨bk - 1, by omega⟩
  simp [Nat.mul_add]; omega

theorem U_append_replicate_zero (w : Nat) (x : List Nat) (k : Nat) :
    U w (x ++ List.replicate k 0) = U w x := by
  rw [U_append, U_replicate_zero]; simp

theorem map_range_getD (x : List Nat) {m : Nat} (hm : m ≤ x.length) :
    (List.range m).map (fun i => x.getD i 0) = x.take m := by
  apply List.ext_getElem
  · simp [hm]
  · intro i h1 h2
    simp at h1 h2 ⊢
    rw [List.getElem?_eq_getElem (by omega)]; rfl

namespace Arr
theorem forN_shift {σ} (body : Nat → σ → Outcome σ) (a : Nat) : ∀ (k i : Nat) (s : σ),
    forN body k (a + i) s = forN (fun j => body (a + j)) k i s := by
  intro k
  induction k with
  | zero => intro i s; rfl
  | succ k ih =>
    intro i s
    rw [forN, forN]
    congr 1
    funext s'
    exact ih (i + 1) s'
theorem idx_getD {a : List Nat} {i : Nat} (h : i < a.length) : idx a i = .ok (a.getD i 0) := by
  rw [idx_eq h]; simp [List.getD, List.getElem?_eq_getElem h]
end Arr

namespace UI
theorem castDown_eq {x : List Nat} {m : Nat} (hm : m ≤ x.length) :
    castDown x m = .ok (x.take m) := by
  unfold castDown forRange
  rw [Nat.sub_zero, forN_write (g := fun i => x.getD i 0) m (zero m) (by simp [zero])
    (fun j hj => idx_getD (by omega))]
  rw [map_range_getD x hm]; simp [zero]

theorem castUp_eq {x : List Nat} {m : Nat} (hm : x.length ≤ m) (digit : Nat) :
    castUp x m digit = .ok (x ++ List.replicate (m - x.length) digit) := by
  unfold castUp forRange
  rw [if_neg (by omega)]
  have e : m - (m - x.length) = x.length := by omega
  rw [e]
  have := forN_shift (fun i digits =>
      (idx x (i - (m - x.length))).bind fun d => upd digits (i - (m - x.length)) d)
      (m - x.length) x.length 0 (List.replicate m digit)
  rw [Nat.add_zero] at this
  rw [this]
  simp only [Nat.add_sub_cancel_left]
  rw [forN_write (g := fun i => x.getD i 0) x.length _ (by simp; omega)
    (fun j hj => idx_getD (by omega))]
  rw [map_range_getD x (Nat.le_refl _)]; simp
end UI

theorem wrapU_toInt_dvd {m m₁ u : Nat} (hm : 0 < m) (hd : m ∣ m₁) :
    wrapU m (toInt m₁ u) = u % m := by
  obtain ⟨c, rfl⟩ := hd
  unfold toInt
  split
  · exact wrapU_eq_of (Nat.mod_lt _ hm) (k := (u / m : Nat)) (by
      have := Nat.mod_add_div u m; push_cast; nlinarith [this])
  · exact wrapU_eq_of (Nat.mod_lt _ hm) (k := (u / m : Nat) - c) (by
      have := Nat.mod_add_div u m; push_cast; nlinarith [this])

theorem wrapU_toInt_le {m m₁ u : Nat} (hu : u < m₁) (hle : m₁ ≤ m) :
    wrapU m (toInt m₁ u) = if 2 * u < m₁ then u else u + m - m₁ := by
  unfold toInt
  split
  · exact wrapU_eq_of (by omega) (k := 0) (by simp)
  · exact wrapU_eq_of (by omega) (k := -1) (by omega)

theorem M_le_M {w a b : Nat} (h : a ≤ b) : M w a ≤ M w b := by
  unfold M; exact Nat.pow_le_pow_right (by decide) (Nat.mul_le_mul_left _ h)
theorem M_dvd_M {w a b : Nat} (h : a ≤ b) : M w a ∣ M w b := by
  unfold M; exact Nat.pow_dvd_pow _ (Nat.mul_le_mul_left _ h)

/-- the shape of every cast theorem: no panic, well-formed result, value = source value mod `2^BITS` -/
def CastOk (w n : Nat) (o : Outcome (List Nat)) (z : Int) : Prop :=
  ∃ r, o = .ok r ∧ WF w n r ∧ U w r = wrapU (M w n) z

theorem CastOk.map_id {w n : Nat} {o : Outcome (List Nat)} {z : Int} (h : CastOk w n o z) :
    CastOk w n (o.map II.fromBits) z := by
  obtain ⟨r, rfl, h⟩ := h; exact ⟨r, rfl, h⟩

namespace UI
theorem castFromU_spec {w n₁ : Nat} {x : List Nat} (n : Nat) (hx : WF w n₁ x) :
    CastOk w n (castFromU x n) (U w x) := by
  unfold castFromU
  rw [hx.1]
  split
  · rename_i h
    rw [castUp_eq (by rw [hx.1]; omega)]
    refine ⟨_, rfl, ?_, ?_⟩
    · have := WF_append hx (WF_replicate (w := w) (n - n₁) (B_pos w))
      rwa [hx.1, show n₁ + (n - n₁) = n by omega] at *
    · rw [U_append_replicate_zero, wrapU_natCast, Nat.mod_eq_of_lt]
      exact Nat.lt_of_lt_of_le (U_lt hx) (M_le_M (by omega))
  · rename_i h
    rw [castDown_eq (by rw [hx.1]; omega)]
    refine ⟨_, rfl, ?_, ?_⟩
    · have := WF_take n hx
      rwa [Nat.min_eq_left (by omega)] at this
    · rw [U_take n hx, wrapU_natCast, M_eq_pow]

theorem castFromI_spec {w n₁ : Nat} {x : List Nat} (n : Nat) (hw : 1 ≤ w) (hn₁ : 1 ≤ n₁)
    (hx : WF w n₁ x) : CastOk w n (castFromI w x n) (S w x) := by
  unfold castFromI
  rw [hx.1]
  split
  · rename_i h
    rw [castUp_eq (by rw [hx.1]; omega), hx.1]
    have hB : B w - 1 < B w := by have := B_pos w; omega
    refine ⟨_, rfl, ?_, ?_⟩
    · have := WF_append hx (WF_replicate (w := w) (n - n₁)
        (show (if isNegative w x then B w - 1 else 0) < B w by split <;> omega))
      rwa [show n₁ + (n - n₁) = n by omega] at this
    · rw [S_eq hx, wrapU_toInt_le (U_lt hx) (M_le_M (by omega)), isNegative_eq_decide hw hn₁ hx,
        S_eq hx]
      have hlt := U_lt hx
      have hle : M w n₁ ≤ M w n := M_le_M (by omega)
      by_cases hneg : 2 * U w x < M w n₁
      · have : ¬ toInt (M w n₁) (U w x) < 0 := by rw [toInt_of_lt hneg]; omega
        simp only [this, decide_false, hneg, if_true]
        exact U_append_replicate_zero w x _
      · have : toInt (M w n₁) (U w x) < 0 := by rw [toInt_of_ge (by omega)]; omega
        simp only [this, decide_true, hneg, if_false, if_true]
        have := U_append_replicate_max w hx (n - n₁)
        rw [show n₁ + (n - n₁) = n by omega] at this
        omega
  · rename_i h
    rw [castDown_eq (by rw [hx.1]; omega)]
    refine ⟨_, rfl, ?_, ?_⟩
    · have := WF_take n hx
      rwa [Nat.min_eq_left (by omega)] at this
    · rw [U_take n hx, S_eq hx, wrapU_toInt_dvd (M_pos w n) (M_dvd_M (by omega)), M_eq_pow]
end UI

/-- `j`-th base-`2^w` digit of a natural number -/
def dig (w v j : Nat) : Nat := v / B w ^ j % B w

theorem dig_lt (w v j : Nat) : dig w v j < B w := Nat.mod_lt _ (B_pos w)

/-- the first `k` digits of `v` denote `v mod B^k` -/
theorem U_map_dig (w v : Nat) : ∀ k, U w ((List.range k).map (dig w v)) = v % B w ^ k := by
  intro k
  induction k with
  | zero => simp [Nat.mod_one]
  | succ k ih =>
    rw [List.range_succ, List.map_append, U_append, ih]
    simp only [List.length_map, List.length_range, List.map_cons, List.map_nil, U_cons, U_nil,
      Nat.mul_zero, Nat.add_zero]
    rw [Nat.mod_pow_succ]; rfl

theorem WF_map_dig (w v k : Nat) : WF w k ((List.range k).map (dig w v)) := by
  refine ⟨by simp, ?_⟩
  intro d hd
  obtain ⟨j, _, rfl⟩ := List.mem_map.mp hd
  exact dig_lt w v j

/-- digit extraction from a digit list -/
theorem dig_U {w n : Nat} {x : List Nat} (hx : WF w n x) {j : Nat} (hj : j < n) :
    dig w (U w x) j = x.getD j 0 := by
  have h1 := U_take_add_drop w x j
  have h2 := U_lt (WF_take j hx)
  rw [M_eq_pow, Nat.min_eq_left (by omega)] at h2
  rw [hx.1, Nat.min_eq_left (by omega)] at h1
  have h3 : U w x / B w ^ j = U w (x.drop j) := by
    rw [h1, Nat.add_mul_div_left _ _ (Nat.pow_pos (B_pos w)), Nat.div_eq_of_lt h2, Nat.zero_add]
  unfold dig
  rw [h3, List.drop_eq_getElem_cons (by rw [hx.1]; exact hj), U_cons, Nat.add_mul_mod_self_left]
  have : x[j]'(by rw [hx.1]; exact hj) < B w := hx.2 _ (List.getElem_mem _)
  rw [Nat.mod_eq_of_lt this]
  simp [List.getD, List.getElem?_eq_getElem (show j < x.length by rw [hx.1]; exact hj)]

theorem B_mul (k w : Nat) : B (k * w) = B w ^ k := by
  unfold B; rw [Nat.mul_comm, Nat.pow_mul]

/-- a narrow digit of a number is a slice of its wide digit: `w₁ = c * w₂`, `i = c*q + r` -/
theorem dig_split {c w₂ : Nat} (v : Nat) {q r : Nat} (hr : r < c) :
    dig w₂ v (c * q + r) = dig (c * w₂) v q / B w₂ ^ r % B w₂ := by
  unfold dig
  rw [B_mul, Nat.pow_add, Nat.pow_mul, ← Nat.div_div_eq_div_mul]
  generalize v / (B w₂ ^ c) ^ q = y
  rw [← Nat.mod_mul_right_div_self, ← Nat.mod_mul_right_div_self (y % _)]
  congr 1
  rw [Nat.mod_mod_of_dvd]
  rw [← Nat.pow_succ]
  exact Nat.pow_dvd_pow _ (by omega)

theorem shrRaw_unsigned (k a s : Nat) : PInt.shrRaw k false a s = a / 2 ^ s := by
  simp [PInt.shrRaw]
theorem cast_trunc {k₁ k₂ : Nat} (s : Bool) (p : Nat) (h : k₂ ≤ k₁) : PInt.cast k₁ s k₂ p = p % B k₂ := by
  simp [PInt.cast, h]
theorem cast_zext {k₁ k₂ : Nat} (p : Nat) (h : k₁ < k₂) : PInt.cast k₁ false k₂ p = p := by
  simp [PInt.cast]; omega

namespace UI
/-- the split loop writes the first `stop` narrow digits of the source value -/
theorem splitLoop_eq {c w₂ m : Nat} {src : List Nat} (hc : 1 ≤ c) (hw₂ : 1 ≤ w₂)
    (hs : WF (c * w₂) m src) {stop : Nat} (out : List Nat) (h1 : stop ≤ out.length)
    (h2 : stop ≤ m * c) :
    splitLoop (c * w₂) w₂ src stop out
      = .ok ((List.range stop).map (dig w₂ (U (c * w₂) src)) ++ out.drop stop) := by
  unfold splitLoop forRange
  have hdc : c * w₂ / w₂ = c := Nat.mul_div_cancel _ (by omega)
  simp only [hdc, Nat.sub_zero]
  have hb : (fun i out => (idx src (i / c)).bind fun widerDigit =>
        (PInt.shr (c * w₂) false widerDigit (i % c * w₂)).bind fun sh =>
          upd out i (PInt.cast (c * w₂) false w₂ sh))
      = fun i o => ((idx src (i / c)).bind fun widerDigit =>
        (PInt.shr (c * w₂) false widerDigit (i % c * w₂)).bind fun sh =>
          .ok (PInt.cast (c * w₂) false w₂ sh)).bind fun d => upd o i d := by
    funext i o; simp only [Outcome.bind_assoc, Outcome.bind_ok]
  rw [hb]
  refine forN_write stop out h1 ?_
  intro j hj
  have hq : j / c < m := (Nat.div_lt_iff_lt_mul (by omega)).2 (by omega)
  have hr : j % c < c := Nat.mod_lt _ (by omega)
  rw [idx_getD (by rw [hs.1]; exact hq)]
  simp only [Outcome.bind_ok]
  unfold PInt.shr
  rw [if_pos (Nat.mul_lt_mul_of_pos_right hr (by omega))]
  simp only [Outcome.bind_ok]
  have hle : w₂ ≤ c * w₂ := Nat.le_mul_of_pos_left _ (by omega)
  rw [shrRaw_unsigned, cast_trunc _ _ hle]
  congr 1
  conv_rhs => rw [← Nat.div_add_mod j c]
  rw [dig_split _ hr, dig_U hs hq]
  rw [Nat.mul_comm (j % c) w₂, Nat.pow_mul]; rfl
end UI

theorem cast_unsigned_id {k₁ k₂ p : Nat} (_h1 : p < B k₁) (h2 : p < B k₂) :
    PInt.cast k₁ false k₂ p = p := by
  unfold PInt.cast
  split
  · exact Nat.mod_eq_of_lt h2
  · simp

theorem or_shl_eq_add {cur d s : Nat} (h : cur < 2 ^ s) : cur ||| d * 2 ^ s = cur + d * 2 ^ s := by
  rw [Nat.or_comm, Nat.mul_comm, ← Nat.two_pow_add_eq_or_of_lt h, Nat.add_comm]

theorem B_eq (w : Nat) : B w = 2 ^ w := rfl

theorem B_pow_le {w a b : Nat} (h : a ≤ b) : B w ^ a ≤ B w ^ b := Nat.pow_le_pow_right (B_pos w) h

namespace UI
/-- the body of `packLoop` -/
def packBody (w₁ w₂ : Nat) (src : List Nat) (stop : Nat) (i : Nat) (st : Nat × List Nat) :
    Outcome (Nat × List Nat) :=
  let divideCount := w₂ / w₁
  let miniShift := i % divideCount
  (idx src i).bind fun d =>
  (PInt.shl w₂ (PInt.cast w₁ false w₂ d) (miniShift * w₁)).bind fun sh =>
    let cur := st.1 ||| sh
    if miniShift == divideCount - 1 || i == stop - 1 then
      (upd st.2 (i / divideCount) cur).bind fun out => .ok (0, out)
    else .ok (cur, st.2)

theorem packLoop_def (w₁ w₂ : Nat) (src : List Nat) (stop : Nat) (out : List Nat) :
    packLoop w₁ w₂ src stop out = (forN (packBody w₁ w₂ src stop) stop 0 (0, out)).map (·.2) := rfl

/-- state of the pack loop after `i` iterations, before any final partial flush -/
def packSt (c w₁ T : Nat) (out : List Nat) (i : Nat) : Nat × List Nat :=
  (T % B w₁ ^ i / B (c * w₁) ^ (i / c),
   (List.range (i / c)).map (dig (c * w₁) T) ++ out.drop (i / c))

theorem packSt_length {c w₁ T : Nat} {out : List Nat} {i : Nat} (h : i / c ≤ out.length) :
    (packSt c w₁ T out i).2.length = out.length := by
  simp [packSt]; omega

theorem pow_split (w₁ c i : Nat) : B w₁ ^ i = B (c * w₁) ^ (i / c) * B w₁ ^ (i % c) := by
  rw [B_mul, ← Nat.pow_mul, ← Nat.pow_add, Nat.div_add_mod]

theorem packBody_step {c w₁ m : Nat} {src : List Nat} (hc : 1 ≤ c) (hw₁ : 1 ≤ w₁)
    (hs : WF w₁ m src) {stop : Nat} (out : List Nat) {i : Nat} (hi : i < stop) (hm : stop ≤ m)
    (hn : stop ≤ out.length * c) :
    packBody w₁ (c * w₁) src stop i (packSt c w₁ (U w₁ src) out i) =
      .ok (if (i % c == c - 1 || i == stop - 1) then
            (0, (packSt c w₁ (U w₁ src) out i).2.set (i / c)
                  (U w₁ src % B w₁ ^ (i + 1) / B (c * w₁) ^ (i / c)))
          else (U w₁ src % B w₁ ^ (i + 1) / B (c * w₁) ^ (i / c),
                (packSt c w₁ (U w₁ src) out i).2)) := by
  have hdc : c * w₁ / w₁ = c := Nat.mul_div_cancel _ (by omega)
  have hr : i % c < c := Nat.mod_lt _ (by omega)
  have hq : i / c < out.length := (Nat.div_lt_iff_lt_mul (by omega)).2 (by omega)
  unfold packBody
  simp only [hdc]
  rw [idx_getD (by rw [hs.1]; omega), ← dig_U hs (show i < m by omega)]
  simp only [Outcome.bind_ok]
  generalize hT : U w₁ src = T
  have hd := dig_lt w₁ T i
  have hb1 := B_pos w₁
  have hle : B w₁ ^ (i % c + 1) ≤ B (c * w₁) := by rw [B_mul]; exact B_pow_le (by omega)
  have hsh : dig w₁ T i * B w₁ ^ (i % c) < B w₁ ^ (i % c + 1) := by
    rw [Nat.pow_succ, Nat.mul_comm]
    exact Nat.mul_lt_mul_of_pos_left hd (Nat.pow_pos hb1)
  have hd2 : dig w₁ T i < B (c * w₁) := by
    have : B w₁ ^ 1 ≤ B (c * w₁) := by rw [B_mul]; exact B_pow_le hc
    rw [Nat.pow_one] at this; omega
  rw [cast_unsigned_id hd hd2]
  unfold PInt.shl
  rw [if_pos (Nat.mul_lt_mul_of_pos_right hr (by omega))]
  simp only [Outcome.bind_ok]
  have e2 : (2:Nat) ^ (i % c * w₁) = B w₁ ^ (i % c) := by rw [← B_mul]; rfl
  rw [e2, Nat.mod_eq_of_lt (show dig w₁ T i * B w₁ ^ (i % c) < B (c * w₁) by omega)]
  have hcur : (packSt c w₁ T out i).1 < B w₁ ^ (i % c) := by
    simp only [packSt]
    apply Nat.div_lt_of_lt_mul
    rw [← pow_split]
    exact Nat.mod_lt _ (Nat.pow_pos hb1)
  have hnew : (packSt c w₁ T out i).1 + dig w₁ T i * B w₁ ^ (i % c)
      = T % B w₁ ^ (i + 1) / B (c * w₁) ^ (i / c) := by
    simp only [packSt]
    rw [Nat.mod_pow_succ, pow_split w₁ c i, Nat.mul_assoc,
      Nat.add_mul_div_left _ _ (Nat.pow_pos (B_pos _)), ← pow_split, Nat.mul_comm (dig w₁ T i)]
    rfl
  rw [← e2] at hcur ⊢
  rw [or_shl_eq_add hcur, e2, hnew]
  split
  · rw [upd_eq _ (by rw [packSt_length (by omega)]; exact hq)]
    rfl
  · rfl

theorem packLoop_state {c w₁ m : Nat} {src : List Nat} (hc : 1 ≤ c) (hw₁ : 1 ≤ w₁)
    (hs : WF w₁ m src) {stop : Nat} (out : List Nat) (hm : stop ≤ m)
    (hn : stop ≤ out.length * c) : ∀ i, i < stop →
    forN (packBody w₁ (c * w₁) src stop) i 0 (0, out) = .ok (packSt c w₁ (U w₁ src) out i) := by
  intro i
  induction i with
  | zero => intro _; simp [forN, packSt, Nat.mod_one]
  | succ i ih =>
    intro hi
    rw [forN_succ_last, ih (by omega), Outcome.bind_ok, Nat.zero_add,
      packBody_step hc hw₁ hs out (by omega) hm hn]
    congr 1
    have hne : (i == stop - 1) = false := by simp; omega
    rw [hne, Bool.or_false]
    have hr : i % c < c := Nat.mod_lt _ (by omega)
    by_cases hlast : i % c = c - 1
    · have hq : (i + 1) / c = i / c + 1 := by
        have h1 := Nat.div_add_mod i c
        have : i + 1 = c * (i / c + 1) := by rw [Nat.mul_add]; omega
        rw [this, Nat.mul_div_cancel_left _ (by omega)]
      have hq0 : i / c < out.length := (Nat.div_lt_iff_lt_mul (by omega)).2 (by omega)
      have hpow : B w₁ ^ (i + 1) = B (c * w₁) ^ (i / c + 1) := by
        have h1 := Nat.div_add_mod i c
        rw [B_mul, ← Nat.pow_mul]; congr 1; rw [Nat.mul_add]; omega
      simp only [hlast, beq_self_eq_true, if_true, packSt, hq, hpow]
      congr 1
      · rw [Nat.div_eq_of_lt (Nat.mod_lt _ (Nat.pow_pos (B_pos _)))]
      · rw [List.set_append]
        simp only [List.length_map, List.length_range, Nat.lt_irrefl, if_false, Nat.sub_self]
        rw [List.range_succ, List.map_append, List.append_assoc,
          List.drop_eq_getElem_cons (by omega : i / c < out.length)]
        congr 1
        simp only [List.set_cons_zero, List.map_cons, List.map_nil, List.singleton_append]
        congr 1
        rw [Nat.pow_succ, Nat.mod_mul_right_div_self]; rfl
    · have hq : (i + 1) / c = i / c := by
        have h1 := Nat.div_add_mod i c
        apply Nat.div_eq_of_lt_le
        · rw [Nat.mul_comm]; omega
        · rw [Nat.add_mul, Nat.one_mul, Nat.mul_comm]; omega
      have : (i % c == c - 1) = false := by simp [hlast]
      simp only [this, Bool.false_eq_true, if_false, packSt, hq]

/-- closed form of the pack loop (`stop ≥ 1`) -/
theorem packLoop_eq {c w₁ m : Nat} {src : List Nat} (hc : 1 ≤ c) (hw₁ : 1 ≤ w₁)
    (hs : WF w₁ m src) {stop : Nat} (out : List Nat) (h0 : 1 ≤ stop) (hm : stop ≤ m)
    (hn : stop ≤ out.length * c) :
    packLoop w₁ (c * w₁) src stop out =
      .ok ((List.range ((stop - 1) / c)).map (dig (c * w₁) (U w₁ src))
            ++ (U w₁ src % B w₁ ^ stop / B (c * w₁) ^ ((stop - 1) / c))
                :: out.drop ((stop - 1) / c + 1)) := by
  rw [packLoop_def]
  obtain ⟨k, rfl⟩ : ∃ k, stop = k + 1 := ⟨stop - 1, by omega⟩
  rw [forN_succ_last, packLoop_state hc hw₁ hs out hm hn k (by omega), Outcome.bind_ok,
    Nat.zero_add, packBody_step hc hw₁ hs out (by omega) hm hn]
  simp only [Nat.add_sub_cancel, beq_self_eq_true, Bool.or_true, if_true, Outcome.map_ok, packSt]
  have hq0 : k / c < out.length := (Nat.div_lt_iff_lt_mul (by omega)).2 (by omega)
  congr 1
  rw [List.set_append]
  simp only [List.length_map, List.length_range, Nat.lt_irrefl, if_false, Nat.sub_self]
  rw [List.drop_eq_getElem_cons (by omega : k / c < out.length)]
  rfl
end UI

theorem M_mul (c w n : Nat) : M (c * w) n = B w ^ (c * n) := by
  unfold M B; rw [← Nat.pow_mul]; congr 1; ring
theorem M_eq_pow' (w n : Nat) : M w n = B w ^ n := M_eq_pow w n

theorem wrapU_nat_of_lt {m u : Nat} (h : u < m) : wrapU m (u : Int) = u := by
  rw [wrapU_natCast, Nat.mod_eq_of_lt h]

namespace UI
theorem pack_value {c w₁ T stop : Nat} (rest : List Nat) :
    U (c * w₁) ((List.range ((stop - 1) / c)).map (dig (c * w₁) T)
        ++ (T % B w₁ ^ stop / B (c * w₁) ^ ((stop - 1) / c)) :: rest)
      = T % B w₁ ^ stop + B (c * w₁) ^ ((stop - 1) / c + 1) * U (c * w₁) rest := by
  rw [U_append, U_map_dig, U_cons]
  simp only [List.length_map, List.length_range]
  generalize hq : (stop - 1) / c = q
  have hdvd : B (c * w₁) ^ q ∣ B w₁ ^ stop := by
    rw [B_mul, ← Nat.pow_mul]
    apply Nat.pow_dvd_pow
    have := Nat.div_mul_le_self (stop - 1) c
    rw [hq, Nat.mul_comm] at this; omega
  rw [← Nat.mod_mod_of_dvd T hdvd]
  generalize T % B w₁ ^ stop = X
  rw [Nat.mul_add, ← Nat.add_assoc, Nat.mod_add_div, Nat.pow_succ, Nat.mul_assoc]

theorem pack_digit_lt {c w₁ T stop : Nat} (hc : 1 ≤ c) (h0 : 1 ≤ stop) :
    T % B w₁ ^ stop / B (c * w₁) ^ ((stop - 1) / c) < B (c * w₁) := by
  apply Nat.div_lt_of_lt_mul
  have h1 := Nat.div_add_mod (stop - 1) c
  have h2 := Nat.mod_lt (stop - 1) (show 0 < c by omega)
  have : B w₁ ^ stop ≤ B (c * w₁) ^ ((stop - 1) / c) * B (c * w₁) := by
    rw [← Nat.pow_succ, B_mul, ← Nat.pow_mul]
    apply B_pow_le
    rw [Nat.mul_succ]; omega
  exact Nat.lt_of_lt_of_le (Nat.mod_lt _ (Nat.pow_pos (B_pos _))) this

theorem castFromUD_split_spec {c w₂ m : Nat} {src : List Nat} (n : Nat) (hc : 2 ≤ c) (hw₂ : 1 ≤ w₂)
    (hs : WF (c * w₂) m src) :
    CastOk w₂ n (castFromUD (c * w₂) src w₂ n) (U (c * w₂) src) := by
  unfold castFromUD
  have hlt : w₂ < c * w₂ := by nlinarith
  have hdc : c * w₂ / w₂ = c := Nat.mul_div_cancel _ (by omega)
  simp only [hlt, if_true, hs.1, hdc]
  have hT := U_lt hs
  rw [M_mul] at hT
  split
  · rename_i h
    have h' : n < m * c := by
      rw [← Nat.mul_assoc] at h; exact Nat.lt_of_mul_lt_mul_right h
    rw [splitLoop_eq (by omega) hw₂ hs _ (by simp [zero]) (by omega)]
    generalize U (c * w₂) src = T at *
    refine ⟨_, rfl, ?_, ?_⟩
    · simp only [zero, List.drop_replicate, Nat.sub_self, List.replicate_zero, List.append_nil]
      exact WF_map_dig w₂ _ n
    · simp only [zero, List.drop_replicate, Nat.sub_self, List.replicate_zero, List.append_nil]
      rw [U_map_dig, wrapU_natCast, M_eq_pow]
  · rename_i h
    have h' : m * c ≤ n := by
      rw [← Nat.mul_assoc] at h; exact Nat.le_of_mul_le_mul_right (by omega) (by omega : 0 < w₂)
    rw [splitLoop_eq (by omega) hw₂ hs _ (by simp [zero]; omega) (by omega)]
    generalize U (c * w₂) src = T at *
    have hTn : T < M w₂ n := by
      rw [M_eq_pow]; exact Nat.lt_of_lt_of_le hT (B_pow_le (by rw [Nat.mul_comm]; exact h'))
    refine ⟨_, rfl, ?_, ?_⟩
    · simp only [zero, List.drop_replicate]
      have := WF_append (WF_map_dig w₂ T (m * c)) (WF_replicate (w := w₂) (n - m * c) (B_pos w₂))
      rwa [show m * c + (n - m * c) = n by omega] at this
    · simp only [zero, List.drop_replicate]
      rw [U_append_replicate_zero, U_map_dig, wrapU_nat_of_lt hTn, Nat.mul_comm m c,
        Nat.mod_eq_of_lt hT]

theorem castFromUD_pack_spec {c w₁ m : Nat} {src : List Nat} {n : Nat} (hc : 1 ≤ c) (hw₁ : 1 ≤ w₁)
    (hm : 1 ≤ m) (hn : 1 ≤ n) (hs : WF w₁ m src) :
    CastOk (c * w₁) n (castFromUD w₁ src (c * w₁) n) (U w₁ src) := by
  unfold castFromUD
  have hlt : ¬ c * w₁ < w₁ := by nlinarith
  have hdc : c * w₁ / w₁ = c := Nat.mul_div_cancel _ (by omega)
  simp only [hlt, if_false, hs.1, hdc]
  have hT := U_lt hs
  rw [M_eq_pow] at hT
  split
  · rename_i h
    have h' : n * c < m := by
      rw [← Nat.mul_assoc] at h; exact Nat.lt_of_mul_lt_mul_right h
    have h1 : 1 ≤ n * c := Nat.mul_pos (by omega) (by omega)
    rw [packLoop_eq hc hw₁ hs _ h1 (by omega) (by simp [zero])]
    have hq : (n * c - 1) / c + 1 = n := by
      have : (n * c - 1) / c = n - 1 := by
        apply Nat.div_eq_of_lt_le
        · rw [Nat.sub_mul]; omega
        · rw [Nat.sub_add_cancel hn]; omega
      omega
    generalize U w₁ src = T at *
    refine ⟨_, rfl, ?_, ?_⟩
    · simp only [zero, List.drop_replicate, hq, Nat.sub_self, List.replicate_zero]
      have := WF_append (WF_map_dig (c * w₁) T ((n * c - 1) / c))
        (show WF (c * w₁) 1 [T % B w₁ ^ (n * c) / B (c * w₁) ^ ((n * c - 1) / c)] from
          ⟨rfl, by simpa using pack_digit_lt hc h1⟩)
      rwa [hq] at this
    · rw [pack_value]
      simp only [zero, List.drop_replicate, hq, Nat.sub_self, List.replicate_zero, U_nil,
        Nat.mul_zero, Nat.add_zero]
      rw [wrapU_natCast, M_mul, Nat.mul_comm n c]
  · rename_i h
    have h' : m ≤ n * c := by
      rw [← Nat.mul_assoc] at h; exact Nat.le_of_mul_le_mul_right (by omega) (by omega : 0 < w₁)
    rw [packLoop_eq hc hw₁ hs _ hm (Nat.le_refl _) (by simpa [zero] using h')]
    have hq : (m - 1) / c + 1 ≤ n := by
      have : (m - 1) / c < n := (Nat.div_lt_iff_lt_mul (by omega)).2 (by omega)
      omega
    have hTn : U w₁ src < M (c * w₁) n := by
      rw [M_mul]; exact Nat.lt_of_lt_of_le hT (B_pow_le (by rw [Nat.mul_comm]; exact h'))
    generalize U w₁ src = T at *
    refine ⟨_, rfl, ?_, ?_⟩
    · simp only [zero, List.drop_replicate]
      have := WF_append (WF_append (WF_map_dig (c * w₁) T ((m - 1) / c))
        (show WF (c * w₁) 1 [T % B w₁ ^ m / B (c * w₁) ^ ((m - 1) / c)] from
          ⟨rfl, by simpa using pack_digit_lt hc hm⟩))
        (WF_replicate (w := c * w₁) (n - ((m - 1) / c + 1)) (B_pos _))
      rw [show (m - 1) / c + 1 + (n - ((m - 1) / c + 1)) = n by omega] at this
      simpa using this
    · rw [pack_value]
      simp only [zero, List.drop_replicate, U_replicate_zero, Nat.mul_zero, Nat.add_zero]
      rw [wrapU_nat_of_lt hTn, Nat.mod_eq_of_lt hT]
end UI

/-- De Morgan on `k`-bit words -/
theorem not_and_not {k a b : Nat} (ha : a < B k) (hb : b < B k) :
    Prim.not k a &&& Prim.not k b = Prim.not k (a ||| b) := by
  unfold Prim.not
  have hab : a ||| b < B k := Nat.or_lt_two_pow ha hb
  unfold B at *
  apply Nat.eq_of_testBit_eq
  intro i
  rw [Nat.testBit_and, Nat.sub_sub, Nat.sub_sub, Nat.sub_sub, Nat.add_comm 1 a, Nat.add_comm 1 b,
    Nat.add_comm 1 (a ||| b), Nat.testBit_two_pow_sub_succ ha, Nat.testBit_two_pow_sub_succ hb,
    Nat.testBit_two_pow_sub_succ hab, Nat.testBit_or]
  cases decide (i < k) <;> cases a.testBit i <;> cases b.testBit i <;> rfl

theorem not_lt (k a : Nat) : Prim.not k a < B k := by
  unfold Prim.not; have := B_pos k; omega
theorem not_not {k a : Nat} (ha : a < B k) : Prim.not k (Prim.not k a) = a := by
  unfold Prim.not; omega

namespace Arr
theorem forN_conj {σ} (φ : σ → σ) (P : σ → Prop) (b₁ b₂ : Nat → σ → Outcome σ)
    (hP : ∀ i s s', P s → b₁ i s = .ok s' → P s')
    (h : ∀ i s, P s → b₂ i (φ s) = (b₁ i s).map φ) :
    ∀ k i s, P s → forN b₂ k i (φ s) = (forN b₁ k i s).map φ := by
  intro k
  induction k with
  | zero => intro i s _; rfl
  | succ k ih =>
    intro i s hs
    rw [forN, forN, h i s hs]
    cases hb : b₁ i s with
    | panic => rfl
    | ok s' => exact ih (i + 1) s' (hP i s s' hs hb)

theorem idx_map (f : Nat → Nat) (a : List Nat) (i : Nat) : idx (a.map f) i = (idx a i).map f := by
  unfold idx; rw [List.getElem?_map]; cases a[i]? <;> rfl
theorem upd_map (f : Nat → Nat) (a : List Nat) (i d : Nat) :
    upd (a.map f) i (f d) = (upd a i d).map (List.map f) := by
  unfold upd; rw [List.length_map]; split
  · simp [List.map_set]
  · rfl
end Arr

namespace UI
/-- the body of `packLoopNeg` -/
def packBodyNeg (w₁ w₂ : Nat) (src : List Nat) (stop : Nat) (i : Nat) (st : Nat × List Nat) :
    Outcome (Nat × List Nat) :=
  let divideCount := w₂ / w₁
  let miniShift := i % divideCount
  (idx src i).bind fun d =>
  (PInt.shl w₂ (PInt.cast w₁ false w₂ (Prim.not w₁ d)) (miniShift * w₁)).bind fun sh =>
    let cur := st.1 &&& Prim.not w₂ sh
    if miniShift == divideCount - 1 || i == stop - 1 then
      (upd st.2 (i / divideCount) cur).bind fun out => .ok (B w₂ - 1, out)
    else .ok (cur, st.2)

theorem packLoopNeg_def (w₁ w₂ : Nat) (src : List Nat) (stop : Nat) (out : List Nat) :
    packLoopNeg w₁ w₂ src stop out
      = (forN (packBodyNeg w₁ w₂ src stop) stop 0 (B w₂ - 1, out)).map (·.2) := rfl

theorem shl_lt (k a s : Nat) {r : Nat} (h : PInt.shl k a s = .ok r) : r < B k := by
  unfold PInt.shl at h; split at h
  · injection h with h; subst h; exact Nat.mod_lt _ (B_pos k)
  · cases h

/-- the and-not loop is the or loop on the complemented source, complemented -/
theorem packLoopNeg_conj (w₁ w₂ : Nat) (src : List Nat) (stop : Nat) (out : List Nat) :
    packLoopNeg w₁ w₂ src stop (bnot w₂ out)
      = (packLoop w₁ w₂ (bnot w₁ src) stop out).map (bnot w₂) := by
  rw [packLoopNeg_def, packLoop_def]
  have key := forN_conj (fun st : Nat × List Nat => (Prim.not w₂ st.1, bnot w₂ st.2))
    (fun st => st.1 < B w₂) (packBody w₁ w₂ (bnot w₁ src) stop) (packBodyNeg w₁ w₂ src stop)
    ?_ ?_ stop 0 (0, out) (B_pos w₂)
  · have e : (Prim.not w₂ 0, bnot w₂ out) = (B w₂ - 1, bnot w₂ out) := by simp [Prim.not]
    simp only at key
    rw [e] at key
    rw [key]
    cases forN (packBody w₁ w₂ (bnot w₁ src) stop) stop 0 (0, out) <;> rfl
  · intro i s s' hs hb
    unfold packBody at hb
    simp only at hb
    cases h1 : idx (bnot w₁ src) i with
    | panic => rw [h1] at hb; cases hb
    | ok d =>
      rw [h1, Outcome.bind_ok] at hb
      cases h2 : PInt.shl w₂ (PInt.cast w₁ false w₂ d) (i % (w₂ / w₁) * w₁) with
      | panic => rw [h2] at hb; cases hb
      | ok sh =>
        rw [h2, Outcome.bind_ok] at hb
        split at hb
        · cases h3 : upd s.2 (i / (w₂ / w₁)) (s.1 ||| sh) with
          | panic => rw [h3] at hb; cases hb
          | ok o => rw [h3] at hb; injection hb with hb; subst hb; exact B_pos w₂
        · injection hb with hb; subst hb
          exact Nat.or_lt_two_pow hs (shl_lt _ _ _ h2)
  · intro i s hs
    unfold packBody packBodyNeg
    simp only [bnot]
    rw [idx_map]
    cases idx src i with
    | panic => rfl
    | ok d =>
      simp only [Outcome.map_ok, Outcome.bind_ok]
      cases h2 : PInt.shl w₂ (PInt.cast w₁ false w₂ (Prim.not w₁ d)) (i % (w₂ / w₁) * w₁) with
      | panic => rfl
      | ok sh =>
        simp only [Outcome.bind_ok]
        rw [not_and_not hs (shl_lt _ _ _ h2)]
        split
        · rw [upd_map]
          cases upd s.2 (i / (w₂ / w₁)) (s.1 ||| sh) with
          | panic => rfl
          | ok o => simp [Prim.not]
        · rfl

theorem bnot_zero (w n : Nat) : bnot w (zero n) = allOnes w n := by
  simp [bnot, zero, allOnes, Prim.not]
end UI

/-- a cast computed from the bit pattern is right for a signed source when the source is
    non-negative or the target is not wider -/
theorem CastOk.of_U {w₁ m w n : Nat} {src : List Nat} {o : Outcome (List Nat)}
    (hs : WF w₁ m src) (h : CastOk w n o (U w₁ src)) (hc : 0 ≤ S w₁ src ∨ M w n ∣ M w₁ m) :
    CastOk w n o (S w₁ src) := by
  obtain ⟨r, ho, hr, hu⟩ := h
  refine ⟨r, ho, hr, ?_⟩
  rw [hu]
  rcases hc with hc | hc
  · rw [S_of_nonneg hs hc]
  · rw [S_eq hs, wrapU_toInt_dvd (M_pos w n) hc, wrapU_natCast]

theorem M_dvd_of_le {w₁ m w₂ n : Nat} (h : w₂ * n ≤ w₁ * m) : M w₂ n ∣ M w₁ m := by
  unfold M; exact Nat.pow_dvd_pow _ h
theorem M_le_of_le {w₁ m w₂ n : Nat} (h : w₁ * m ≤ w₂ * n) : M w₁ m ≤ M w₂ n := by
  unfold M; exact Nat.pow_le_pow_right (by decide) h

/-- value of a sign-extended negative number -/
theorem wrapU_S_neg_widen {w₁ m w₂ n : Nat} {src : List Nat} (hs : WF w₁ m src)
    (hneg : S w₁ src < 0) (hle : M w₁ m ≤ M w₂ n) :
    wrapU (M w₂ n) (S w₁ src) + M w₁ m = U w₁ src + M w₂ n := by
  have hu := U_lt hs
  have : wrapU (M w₂ n) (S w₁ src) = U w₁ src + M w₂ n - M w₁ m :=
    wrapU_eq_of (by omega) (k := -1) (by rw [S_of_neg hs hneg]; omega)
  omega

namespace UI
theorem castFromID_split_spec {c w₂ m : Nat} {src : List Nat} (n : Nat) (hc : 2 ≤ c)
    (hw₂ : 1 ≤ w₂) (hm : 1 ≤ m) (hs : WF (c * w₂) m src) :
    CastOk w₂ n (castFromID (c * w₂) src w₂ n) (S (c * w₂) src) := by
  have hw₁ : 1 ≤ c * w₂ := Nat.mul_pos (by omega) hw₂
  have hneg := isNegative_eq_decide hw₁ hm hs
  unfold castFromID
  rw [hs.1, hneg]
  by_cases h1 : S (c * w₂) src < 0
  · by_cases h2 : m * (c * w₂) ≥ n * w₂
    · simp only [h1, h2, decide_true, Bool.not_true, Bool.false_or, if_true]
      exact (castFromUD_split_spec n hc hw₂ hs).of_U hs
        (Or.inr (M_dvd_of_le (by rw [Nat.mul_comm w₂ n, Nat.mul_comm _ m]; exact h2)))
    · simp only [h1, h2, decide_true, decide_false, Bool.not_true, Bool.false_or,
        Bool.false_eq_true, if_false]
      have hlt : w₂ < c * w₂ := by nlinarith
      have hdc : c * w₂ / w₂ = c := Nat.mul_div_cancel _ (by omega)
      have h3 : ¬ m * (c * w₂) > n * w₂ := by omega
      simp only [hlt, if_true, h3, if_false, hdc]
      have h' : m * c ≤ n := by
        have : m * (c * w₂) ≤ n * w₂ := by omega
        rw [← Nat.mul_assoc] at this
        exact Nat.le_of_mul_le_mul_right this (by omega : 0 < w₂)
      rw [splitLoop_eq (by omega) hw₂ hs _ (by simp [allOnes]; omega) (Nat.le_refl _)]
      have hT := U_lt hs
      have hmod : U (c * w₂) src % B w₂ ^ (m * c) = U (c * w₂) src := by
        rw [M_mul] at hT; rw [Nat.mul_comm m c]; exact Nat.mod_eq_of_lt hT
      have hle : M (c * w₂) m ≤ M w₂ n := M_le_of_le (by
        rw [Nat.mul_comm w₂ n, Nat.mul_comm _ m]; omega)
      have hv := wrapU_S_neg_widen hs h1 hle
      generalize U (c * w₂) src = T at *
      have hwf := WF_map_dig w₂ T (m * c)
      refine ⟨_, rfl, ?_, ?_⟩
      · simp only [allOnes, List.drop_replicate]
        have := WF_append hwf (WF_replicate (w := w₂) (n - m * c)
          (show B w₂ - 1 < B w₂ by have := B_pos w₂; omega))
        rwa [show m * c + (n - m * c) = n by omega] at this
      · simp only [allOnes, List.drop_replicate]
        have := U_append_replicate_max w₂ hwf (n - m * c)
        rw [U_map_dig, hmod, show m * c + (n - m * c) = n by omega] at this
        have e : M w₂ (m * c) = M (c * w₂) m := by unfold M; congr 1; ring
        rw [e] at this
        omega
  · simp only [h1, decide_false, Bool.not_false, Bool.true_or, if_true]
    exact (castFromUD_split_spec n hc hw₂ hs).of_U hs (Or.inl (by omega))

theorem castFromID_pack_spec {c w₁ m : Nat} {src : List Nat} {n : Nat} (hc : 1 ≤ c)
    (hw₁ : 1 ≤ w₁) (hm : 1 ≤ m) (hn : 1 ≤ n) (hs : WF w₁ m src) :
    CastOk (c * w₁) n (castFromID w₁ src (c * w₁) n) (S w₁ src) := by
  have hneg := isNegative_eq_decide hw₁ hm hs
  unfold castFromID
  rw [hs.1, hneg]
  by_cases h1 : S w₁ src < 0
  · by_cases h2 : m * w₁ ≥ n * (c * w₁)
    · simp only [h1, h2, decide_true, Bool.not_true, Bool.false_or, if_true]
      exact (castFromUD_pack_spec hc hw₁ hm hn hs).of_U hs
        (Or.inr (M_dvd_of_le (by rw [Nat.mul_comm _ n, Nat.mul_comm _ m]; exact h2)))
    · simp only [h1, h2, decide_true, decide_false, Bool.not_true, Bool.false_or,
        Bool.false_eq_true, if_false]
      have hlt : ¬ c * w₁ < w₁ := by nlinarith
      have h3 : ¬ m * w₁ > n * (c * w₁) := by omega
      simp only [hlt, if_false, h3]
      -- the unsigned cast of the complemented source
      have hUD := castFromUD_pack_spec hc hw₁ hm hn (WF_bnot hs)
      unfold castFromUD at hUD
      rw [(WF_bnot hs).1] at hUD
      simp only [hlt, if_false, h3] at hUD
      obtain ⟨r', hr', hwf', hu'⟩ := hUD
      rw [← bnot_zero, packLoopNeg_conj, hr']
      refine ⟨_, rfl, WF_bnot hwf', ?_⟩
      have hle : M w₁ m ≤ M (c * w₁) n := M_le_of_le (by
        rw [Nat.mul_comm _ n, Nat.mul_comm _ m]; omega)
      have hv := wrapU_S_neg_widen hs h1 hle
      rw [U_bnot hwf', hu', U_bnot hs]
      have hT := U_lt hs
      rw [wrapU_nat_of_lt (by omega)]
      omega
  · simp only [h1, decide_false, Bool.not_false, Bool.true_or, if_true]
    exact (castFromUD_pack_spec hc hw₁ hm hn hs).of_U hs (Or.inl (by omega))
end UI

theorem take_succ_getD (x : List Nat) {i : Nat} (h : i < x.length) :
    x.take (i + 1) = x.take i ++ [x.getD i 0] := by
  rw [List.take_succ_eq_append_getElem h]; simp [List.getD, List.getElem?_eq_getElem h]

theorem U_take_succ (w : Nat) (x : List Nat) {i : Nat} (h : i < x.length) :
    U w (x.take (i + 1)) = U w (x.take i) + B w ^ i * x.getD i 0 := by
  rw [take_succ_getD x h, U_append, List.length_take, Nat.min_eq_left (by omega)]; simp

theorem getD_lt {w n : Nat} {x : List Nat} (hx : WF w n x) (i : Nat) : x.getD i 0 < B w := by
  by_cases h : i < x.length
  · simp only [List.getD, List.getElem?_eq_getElem h, Option.getD_some]
    exact hx.2 _ (List.getElem_mem _)
  · have : x[i]? = none := List.getElem?_eq_none (by omega)
    simp only [List.getD, this, Option.getD_none]; exact B_pos w

/-- `digit as $int` on patterns -/
theorem cast_digit {w k d : Nat} (hd : d < B w) : PInt.cast w false k d = d % B k := by
  unfold PInt.cast
  split
  · rfl
  · rename_i h
    simp only [Bool.false_and, Bool.false_eq_true, if_false]
    have : B w ≤ B k := Nat.pow_le_pow_right (by decide) (by omega)
    rw [Nat.mod_eq_of_lt (by omega)]

/-- one step of an "or the next digit in" loop -/
theorem asm_step {w k i : Nat} {x : List Nat} {n : Nat} (hx : WF w n x) (hi : i < n)
    (hik : i * w < k) :
    (U w (x.take i) % B k) ||| ((x.getD i 0 % B k) * 2 ^ (i * w)) % B k
      = U w (x.take (i + 1)) % B k := by
  have hti := U_lt (WF_take i hx)
  rw [Nat.min_eq_left (by omega), M_eq_pow] at hti
  have hd := getD_lt hx i
  rw [U_take_succ w x (by rw [hx.1]; exact hi)]
  have e1 : B w ^ i = 2 ^ (i * w) := by rw [← B_mul]; rfl
  have e2 : B k = 2 ^ (i * w) * 2 ^ (k - i * w) := by
    rw [← Nat.pow_add]; unfold B; congr 1; omega
  rw [e1] at hti ⊢
  generalize U w (x.take i) = t at *
  generalize x.getD i 0 = d at *
  have hp : 0 < 2 ^ (k - i * w) := Nat.pow_pos (by decide)
  have hlt : t < B k := by
    rw [e2]; exact Nat.lt_of_lt_of_le hti (Nat.le_mul_of_pos_right _ hp)
  rw [Nat.mod_eq_of_lt hlt]
  have e3 : d % B k * 2 ^ (i * w) % B k = 2 ^ (i * w) * (d % 2 ^ (k - i * w)) := by
    rw [Nat.mul_mod, Nat.mod_mod, ← Nat.mul_mod, e2, Nat.mul_comm d, Nat.mul_mod_mul_left]
  have e4 : t ||| 2 ^ (i * w) * (d % 2 ^ (k - i * w)) = t + 2 ^ (i * w) * (d % 2 ^ (k - i * w)) := by
    rw [Nat.mul_comm]; exact or_shl_eq_add hti
  rw [e3, e4, e2, add_mul_mod_mul hti hp]

theorem U_mod_of_take {w n : Nat} {x : List Nat} (hx : WF w n x) {i k : Nat}
    (h : i = n ∨ k ≤ i * w) (hi : i ≤ n) : U w (x.take i) % B k = U w x % B k := by
  rcases h with h | h
  · subst h; rw [List.take_of_length_le (Nat.le_of_eq hx.1)]
  · have h1 := U_take_add_drop w x i
    rw [hx.1, Nat.min_eq_left hi] at h1
    have : B k ∣ B w ^ i := by
      rw [← B_mul]; unfold B; exact Nat.pow_dvd_pow _ h
    obtain ⟨c, hc⟩ := this
    rw [h1, hc, Nat.mul_assoc, Nat.add_mul_mod_self_left]

/-- the assembling loop of `try_from_buint!` / `int_try_from_bint!` -/
theorem asmOrLoop_spec {w k n : Nat} {x : List Nat} (hx : WF w n x) :
    ∀ (f i : Nat), f + i = n →
    ∃ i', asmOrLoop w k x f i (U w (x.take i) % B k) = .ok (U w (x.take i') % B k, i')
      ∧ i ≤ i' ∧ i' ≤ n ∧ (i' = n ∨ k ≤ i' * w) ∧ (∀ j, i ≤ j → j < i' → j * w < k) := by
  intro f
  induction f with
  | zero =>
    intro i hi
    exact ⟨i, rfl, Nat.le_refl _, by omega, Or.inl (by omega), fun j h1 h2 => by omega⟩
  | succ f ih =>
    intro i hi
    unfold asmOrLoop
    by_cases hik : i * w < k
    · have hin : i < x.length := by rw [hx.1]; omega
      have hc : (decide (i ≥ x.length) || decide (i * w ≥ k)) = false := by simp; omega
      simp only [hc, Bool.false_eq_true, if_false]
      rw [idx_getD hin, Outcome.bind_ok, cast_digit (getD_lt hx i)]
      unfold PInt.shl
      rw [if_pos hik, Outcome.bind_ok, asm_step hx (by omega) hik]
      obtain ⟨i', h1, h2, h3, h4, h5⟩ := ih (i + 1) (by omega)
      refine ⟨i', h1, by omega, h3, h4, ?_⟩
      intro j hj1 hj2
      by_cases hji : j = i
      · subst hji; exact hik
      · exact h5 j (by omega) hj2
    · have hc : (decide (i ≥ x.length) || decide (i * w ≥ k)) = true := by simp; omega
      simp only [hc, if_true]
      exact ⟨i, rfl, Nat.le_refl _, by omega, Or.inr (by omega), fun j h1 h2 => by omega⟩

theorem asIntLoop_eq_asm (w k : Nat) (x : List Nat) : ∀ (f i out : Nat), f + i = x.length →
    UI.asIntLoop w k x f i out = (asmOrLoop w k x f i out).map (·.1) := by
  intro f
  induction f with
  | zero => intro i out _; rfl
  | succ f ih =>
    intro i out hi
    unfold UI.asIntLoop asmOrLoop
    by_cases hik : i * w < k
    · have hc : (decide (i ≥ x.length) || decide (i * w ≥ k)) = false := by simp; omega
      simp only [hik, if_true, hc, Bool.false_eq_true, if_false]
      cases idx x i with
      | panic => rfl
      | ok d =>
        simp only [Outcome.bind_ok]
        cases PInt.shl k (PInt.cast w false k d) (i * w) with
        | panic => rfl
        | ok sh => simp only [Outcome.bind_ok]; exact ih (i + 1) _ (by omega)
    · have hc : (decide (i ≥ x.length) || decide (i * w ≥ k)) = true := by simp; omega
      simp only [hik, if_false, hc, if_true]; rfl

/-- C09: `BUint<N> as $int` is the value modulo `2^BITS` of the target, and never panics -/
theorem UI.castToPrim_eq {w n : Nat} {x : List Nat} (hx : WF w n x) (t : PTy) :
    UI.castToPrim w x t = .ok (U w x % B t.bits) := by
  unfold UI.castToPrim
  rw [asIntLoop_eq_asm w t.bits x x.length 0 0 (by omega)]
  obtain ⟨i', h1, _, h3, h4, _⟩ := asmOrLoop_spec (k := t.bits) hx x.length 0 (by rw [hx.1]; rfl)
  simp only [List.take_zero, U_nil, Nat.zero_mod] at h1
  rw [h1, Outcome.map_ok, U_mod_of_take hx h4 h3]

theorem wrapU_neg_succ {m : Nat} (hm : 0 < m) (a : Nat) :
    wrapU m (-((a : Int) + 1)) = m - 1 - a % m := by
  have h1 := Nat.mod_lt a hm
  have h2 := Nat.mod_add_div a m
  refine wrapU_eq_of (by omega) (k := -((a / m : Nat) : Int) - 1) ?_
  have : ((a % m : Nat) : Int) + (m : Int) * ((a / m : Nat) : Int) = a := by exact_mod_cast h2
  have e : ((m - 1 - a % m : Nat) : Int) = (m : Int) - 1 - (a % m : Nat) := by omega
  rw [e]; nlinarith [this]

/-- the and-not assembling loop is the or loop on the complemented digits, complemented -/
theorem asmAndNotLoop_conj (w k : Nat) (x : List Nat) : ∀ (f i out : Nat), out < B k →
    asmAndNotLoop w k x f i (Prim.not k out)
      = (asmOrLoop w k (bnot w x) f i out).map (fun r => (Prim.not k r.1, r.2)) := by
  intro f
  induction f with
  | zero => intro i out _; rfl
  | succ f ih =>
    intro i out hout
    unfold asmAndNotLoop asmOrLoop
    have hl : (bnot w x).length = x.length := by simp [bnot]
    rw [hl]
    dsimp only
    by_cases hc : (decide (i ≥ x.length) || decide (i * w ≥ k)) = true
    · simp only [hc, if_true]; rfl
    · simp only [hc, bnot]
      rw [idx_map]
      cases idx x i with
      | panic => rfl
      | ok d =>
        simp only [Outcome.map_ok, Outcome.bind_ok]
        cases h2 : PInt.shl k (PInt.cast w false k (Prim.not w d)) (i * w) with
        | panic => rfl
        | ok sh =>
          simp only [Outcome.bind_ok]
          rw [not_and_not hout (UI.shl_lt _ _ _ h2)]
          exact ih (i + 1) _ (Nat.or_lt_two_pow hout (UI.shl_lt _ _ _ h2))

theorem asIntLoopNeg_eq_asm (w k : Nat) (x : List Nat) : ∀ (f i out : Nat), f + i = x.length →
    II.asIntLoopNeg w k x f i out = (asmAndNotLoop w k x f i out).map (·.1) := by
  intro f
  induction f with
  | zero => intro i out _; rfl
  | succ f ih =>
    intro i out hi
    unfold II.asIntLoopNeg asmAndNotLoop
    by_cases hik : i * w < k
    · have hc : (decide (i ≥ x.length) || decide (i * w ≥ k)) = false := by simp; omega
      simp only [hik, if_true, hc, Bool.false_eq_true, if_false]
      cases idx x i with
      | panic => rfl
      | ok d =>
        simp only [Outcome.bind_ok]
        cases PInt.shl k (PInt.cast w false k (Prim.not w d)) (i * w) with
        | panic => rfl
        | ok sh => simp only [Outcome.bind_ok]; exact ih (i + 1) _ (by omega)
    · have hc : (decide (i ≥ x.length) || decide (i * w ≥ k)) = true := by simp; omega
      simp only [hik, if_false, hc, if_true]; rfl

/-- value of the and-not assembling loop started from all ones -/
theorem asmAndNotLoop_spec {w k n : Nat} {x : List Nat} (hx : WF w n x) :
    ∃ i', asmAndNotLoop w k x n 0 (Prim.not k 0)
        = .ok (Prim.not k (U w ((bnot w x).take i') % B k), i')
      ∧ i' ≤ n ∧ (i' = n ∨ k ≤ i' * w) ∧ (∀ j, j < i' → j * w < k) := by
  rw [asmAndNotLoop_conj w k x n 0 0 (B_pos k)]
  obtain ⟨i', h1, _, h3, h4, h5⟩ := asmOrLoop_spec (k := k) (WF_bnot hx) n 0 (by omega)
  simp only [List.take_zero, U_nil, Nat.zero_mod] at h1
  rw [h1]
  exact ⟨i', rfl, h3, h4, fun j hj => h5 j (by omega) hj⟩

/-- C09: `BInt<N> as $int` -/
theorem II.castToPrim_eq {w n : Nat} {x : List Nat} (hw : 1 ≤ w) (hn : 1 ≤ n) (hx : WF w n x)
    (t : PTy) : II.castToPrim w x t = .ok (wrapU (B t.bits) (S w x)) := by
  unfold II.castToPrim II.toBits
  rw [isNegative_eq_decide hw hn hx]
  by_cases hneg : S w x < 0
  · simp only [hneg, decide_true, if_true]
    rw [asIntLoopNeg_eq_asm w t.bits x x.length 0 _ (by omega), hx.1]
    obtain ⟨i', h1, h3, h4, _⟩ := asmAndNotLoop_spec (k := t.bits) hx
    rw [h1, Outcome.map_ok, U_mod_of_take (WF_bnot hx) h4 h3, U_bnot hx, S_of_neg hx hneg]
    congr 1
    have hu := U_lt hx
    have e : (U w x : Int) - M w n = -(((M w n - 1 - U w x : Nat) : Int) + 1) := by omega
    rw [e, wrapU_neg_succ (B_pos _)]
    rfl
  · simp only [hneg, decide_false, Bool.false_eq_true, if_false]
    rw [UI.castToPrim_eq hx, S_of_nonneg hx (by omega), wrapU_natCast]

theorem set_append_replicate (pre : List Nat) {k : Nat} (d v : Nat) (hk : 0 < k) :
    (pre ++ List.replicate k d).set pre.length v = (pre ++ [v]) ++ List.replicate (k - 1) d := by
  obtain ⟨j, rfl⟩ : ∃ j, k = j + 1 := ⟨k - 1, by omega⟩
  rw [List.set_append]
  simp [List.replicate_succ]

theorem map_dig_succ (w v i : Nat) :
    (List.range (i + 1)).map (dig w v) = (List.range i).map (dig w v) ++ [dig w v i] := by
  rw [List.range_succ, List.map_append]; rfl

theorem and_mask (x w : Nat) : x &&& (B w - 1) = x % B w := Nat.and_two_pow_sub_one_eq_mod x w

theorem not_mod_mul {b X a : Nat} (hb : 0 < b) (ha : a < b * X) :
    (b * X - 1 - a) % b = b - 1 - a % b ∧ (b * X - 1 - a) / b = X - 1 - a / b := by
  have h1 := Nat.div_add_mod a b
  have h2 := Nat.mod_lt a hb
  have hq : a / b < X := (Nat.div_lt_iff_lt_mul hb).2 (by rw [Nat.mul_comm]; exact ha)
  obtain ⟨t, rfl⟩ : ∃ t, X = a / b + 1 + t := ⟨X - 1 - a / b, by omega⟩
  have e : b * (a / b + 1 + t) - 1 - a = b * t + (b - 1 - a % b) := by
    have : b * (a / b + 1 + t) = b * (a / b) + b + b * t := by ring
    omega
  rw [e]
  constructor
  · rw [Nat.mul_add_mod, Nat.mod_eq_of_lt (by omega)]
  · rw [Nat.mul_add_div hb, Nat.div_eq_of_lt (by omega)]; omega

namespace UI
/-- the list the loop has built after `i` iterations -/
def asBuintSt (w n v i : Nat) : List Nat := (List.range i).map (dig w v) ++ List.replicate (n - i) 0

theorem asBuintSt_upd {w n v i : Nat} (hi : i < n) :
    upd (asBuintSt w n v i) i (dig w v i) = .ok (asBuintSt w n v (i + 1)) := by
  unfold asBuintSt
  rw [upd_eq _ (by simp; omega)]
  have := set_append_replicate ((List.range i).map (dig w v)) 0 (dig w v i) (show 0 < n - i by omega)
  simp only [List.length_map, List.length_range] at this
  rw [this, map_dig_succ, show n - i - 1 = n - (i + 1) by omega]

theorem asBuintSt_WF (w n v : Nat) {i : Nat} (hi : i ≤ n) : WF w n (asBuintSt w n v i) := by
  have := WF_append (WF_map_dig w v i) (WF_replicate (w := w) (n - i) (B_pos w))
  rwa [show i + (n - i) = n by omega] at this

theorem asBuintSt_U (w n v i : Nat) : U w (asBuintSt w n v i) = v % B w ^ i := by
  unfold asBuintSt; rw [U_append_replicate_zero, U_map_dig]

/-- `as_buint!` on a non-negative source -/
theorem asBuintLoop_nonneg {w n : Nat} {t : PTy} {p : Nat} (hp : p < B t.bits)
    (hnn : t.signed = true → 2 * p < B t.bits) : ∀ (f i : Nat), f + i = n →
    ∃ r, asBuintLoop w t f i (p / B w ^ i) (asBuintSt w n p i) = .ok r ∧ WF w n r
      ∧ U w r = p % M w n := by
  intro f
  induction f with
  | zero =>
    intro i hi
    have : i = n := by omega
    subst this
    exact ⟨_, rfl, asBuintSt_WF w i p (Nat.le_refl _), by rw [asBuintSt_U, M_eq_pow]⟩
  | succ f ih =>
    intro i hi
    unfold asBuintLoop
    by_cases h0 : p / B w ^ i = 0
    · simp only [h0, bne_self_eq_false, Bool.false_eq_true, if_false]
      refine ⟨_, rfl, asBuintSt_WF w n p (by omega), ?_⟩
      have hlt : p < B w ^ i := by
        rcases Nat.div_eq_zero_iff.mp h0 with h | h
        · exact absurd h (Nat.ne_of_gt (Nat.pow_pos (B_pos w)))
        · exact h
      have : p < M w n := by
        rw [M_eq_pow]; exact Nat.lt_of_lt_of_le hlt (B_pow_le (by omega))
      rw [asBuintSt_U, Nat.mod_eq_of_lt hlt, Nat.mod_eq_of_lt this]
    · have hne : (p / B w ^ i != 0) = true := by simp [h0]
      simp only [hne, if_true]
      have hfp : p / B w ^ i ≤ p := Nat.div_le_self _ _
      generalize hfrm : p / B w ^ i = frm at *
      have hmask : PInt.cast t.bits t.signed w frm &&& (B w - 1) = dig w p i := by
        rw [and_mask]
        unfold dig PInt.cast
        rw [hfrm]
        split
        · exact Nat.mod_mod _ _
        · have hs : (t.signed && decide (B t.bits ≤ 2 * frm)) = false := by
            cases hsg : t.signed
            · rfl
            · have := hnn hsg; simp; omega
          rw [hs]; rfl
      rw [hmask, asBuintSt_upd (by omega), Outcome.bind_ok]
      have hnext : (if t.bits ≤ w then 0 else PInt.wrappingShr t.bits t.signed frm w)
          = p / B w ^ (i + 1) := by
        rw [Nat.pow_succ, ← Nat.div_div_eq_div_mul, hfrm]
        split
        · rename_i h
          have : B t.bits ≤ B w := Nat.pow_le_pow_right (by decide) h
          rw [Nat.div_eq_of_lt (by omega)]
        · rename_i h
          unfold PInt.wrappingShr PInt.shrRaw
          have hs : (t.signed && decide (B t.bits ≤ 2 * frm)) = false := by
            cases hsg : t.signed
            · rfl
            · have := hnn hsg; simp; omega
          rw [hs, Nat.mod_eq_of_lt (by omega)]; rfl
      rw [hnext]
      exact ih (i + 1) (by omega)

/-- `as_buint!` on a negative source no wider than a digit: one sign-extended digit, then MAX -/
theorem asBuintLoop_neg_narrow {w n : Nat} {t : PTy} {p : Nat} (hn : 1 ≤ n) (hp : p < B t.bits)
    (hs : t.signed = true) (hneg : B t.bits ≤ 2 * p) (hk : t.bits ≤ w) :
    ∃ r, asBuintLoop w t n 0 p (allOnes w n) = .ok r ∧ WF w n r
      ∧ U w r + B t.bits = p + M w n := by
  obtain ⟨f, rfl⟩ : ∃ f, n = f + 1 := ⟨n - 1, by omega⟩
  have hle : B t.bits ≤ B w := Nat.pow_le_pow_right (by decide) hk
  have hp0 : (p != 0) = true := by simp; omega
  unfold asBuintLoop
  simp only [hp0, if_true, hk]
  have hmask : PInt.cast t.bits t.signed w p &&& (B w - 1) = p + B w - B t.bits := by
    rw [and_mask]
    unfold PInt.cast
    split
    · have : w = t.bits := by omega
      have hBw : B w = B t.bits := by rw [this]
      rw [hBw, Nat.mod_mod, Nat.mod_eq_of_lt hp]; omega
    · simp only [hs, hneg, decide_true, Bool.and_self, if_true]
      rw [Nat.mod_eq_of_lt (by omega)]; omega
  rw [hmask, upd_eq _ (by simp [allOnes]), Outcome.bind_ok]
  have hres : asBuintLoop w t f (0 + 1) 0 ((allOnes w (f + 1)).set 0 (p + B w - B t.bits))
      = .ok ((p + B w - B t.bits) :: List.replicate f (B w - 1)) := by
    cases f <;> simp [asBuintLoop, allOnes, List.replicate_succ]
  rw [hres]
  refine ⟨_, rfl, ?_, ?_⟩
  · rw [WF_cons]
    exact ⟨by omega, WF_replicate f (by have := B_pos w; omega)⟩
  · rw [U_cons, U_replicate_max, M_succ]
    have := M_pos w f
    generalize M w f = m' at *
    obtain ⟨c, rfl⟩ : ∃ c, m' = c + 1 := ⟨m' - 1, by omega⟩
    rw [Nat.add_sub_cancel, Nat.mul_add]; omega

/-- `as_buint!` on a negative source wider than a digit: the complement of the digits of `!p` -/
theorem asBuintLoop_neg_wide {w n : Nat} {t : PTy} {p' : Nat} (hs : t.signed = true)
    (hk : w < t.bits) (hp' : 2 * p' < B t.bits) : ∀ (f i : Nat), f + i = n →
    asBuintLoop w t f i (B t.bits - 1 - p' / B w ^ i) (bnot w (asBuintSt w n p' i))
      = .ok (bnot w (asBuintSt w n p' n)) := by
  intro f
  induction f with
  | zero =>
    intro i hi
    have : i = n := by omega
    subst this; rfl
  | succ f ih =>
    intro i hi
    unfold asBuintLoop
    have hfp : p' / B w ^ i ≤ p' := Nat.div_le_self _ _
    generalize hfrm : p' / B w ^ i = a at *
    have hB2 : 2 ≤ B t.bits := B_ge_two (by omega)
    have hBe : B t.bits = 2 * (B t.bits / 2) := B_even (by omega)
    have hne : (B t.bits - 1 - a != 0) = true := bne_iff_ne.2 (by omega)
    simp only [hne, if_true, show ¬ t.bits ≤ w by omega, if_false]
    have hBK : B t.bits = B w * B (t.bits - w) := by
      unfold B; rw [← Nat.pow_add]; congr 1; omega
    have ha : a < B w * B (t.bits - w) := by omega
    obtain ⟨hmod, hdiv⟩ := not_mod_mul (B_pos w) ha
    rw [← hBK] at hmod hdiv
    have hmask : PInt.cast t.bits t.signed w (B t.bits - 1 - a) &&& (B w - 1)
        = Prim.not w (dig w p' i) := by
      rw [and_mask]
      unfold PInt.cast dig Prim.not
      rw [if_pos (by omega), Nat.mod_mod, hmod, hfrm]
    rw [hmask]
    unfold bnot
    rw [upd_map, asBuintSt_upd (by omega)]
    simp only [Outcome.map_ok, Outcome.bind_ok]
    have hnext : PInt.wrappingShr t.bits t.signed (B t.bits - 1 - a) w
        = B t.bits - 1 - p' / B w ^ (i + 1) := by
      unfold PInt.wrappingShr PInt.shrRaw
      have hsg : (t.signed && decide (B t.bits ≤ 2 * (B t.bits - 1 - a))) = true := by
        rw [hs, Bool.true_and, decide_eq_true_iff]; omega
      rw [hsg, if_pos rfl, Nat.mod_eq_of_lt hk, Nat.pow_succ, ← Nat.div_div_eq_div_mul, hfrm]
      have hq : a / B w < B (t.bits - w) := (Nat.div_lt_iff_lt_mul (B_pos w)).2 (by
        rw [Nat.mul_comm]; exact ha)
      have : (B t.bits - 1 - a) / 2 ^ w = B (t.bits - w) - 1 - a / B w := hdiv
      rw [this]
      have h1 : B (t.bits - w) ≤ B t.bits := by
        rw [hBK]; exact Nat.le_mul_of_pos_left _ (B_pos w)
      omega
    rw [hnext]
    exact ih (i + 1) (by omega)
end UI

/-- the number denoted by pattern `p` of primitive type `t` -/
def PInt.val (t : PTy) (p : Nat) : Int := if t.signed then toInt (B t.bits) p else (p : Int)

theorem PInt.isNeg_iff {t : PTy} {p : Nat} :
    PInt.isNeg t p = true ↔ (t.signed = true ∧ B t.bits ≤ 2 * p) := by
  unfold PInt.isNeg; simp

namespace UI
theorem asBuintSt_zero (w n v : Nat) : asBuintSt w n v 0 = zero n := by simp [asBuintSt, zero]

/-- C09: primitive → `BUint<N>` (`as_buint!`) -/
theorem castFromPrim_spec {w n : Nat} {t : PTy} {p : Nat} (hn : 1 ≤ n) (hk : 1 ≤ t.bits)
    (hp : p < B t.bits) : CastOk w n (castFromPrim w n t p) (PInt.val t p) := by
  unfold castFromPrim
  by_cases hneg : PInt.isNeg t p = true
  · obtain ⟨hs, hge⟩ := PInt.isNeg_iff.mp hneg
    simp only [hneg, if_true]
    have hval : PInt.val t p = (p : Int) - B t.bits := by
      unfold PInt.val; rw [hs, if_pos rfl, toInt_of_ge hge]
    by_cases hkw : t.bits ≤ w
    · obtain ⟨r, h1, h2, h3⟩ := asBuintLoop_neg_narrow (w := w) hn hp hs hge hkw
      refine ⟨r, h1, h2, ?_⟩
      have := U_lt h2
      exact (wrapU_eq_of this (k := -1) (by rw [hval]; omega)).symm
    · have hBe : B t.bits = 2 * (B t.bits / 2) := B_even hk
      have hp' : 2 * (B t.bits - 1 - p) < B t.bits := by omega
      have h := asBuintLoop_neg_wide (w := w) (n := n) hs (by omega) hp' n 0 (by omega)
      rw [Nat.pow_zero, Nat.div_one, asBuintSt_zero, bnot_zero,
        show B t.bits - 1 - (B t.bits - 1 - p) = p by omega] at h
      have hwf := asBuintSt_WF w n (B t.bits - 1 - p) (Nat.le_refl n)
      refine ⟨_, h, WF_bnot hwf, ?_⟩
      rw [U_bnot hwf, asBuintSt_U, hval]
      have e : (p : Int) - B t.bits = -(((B t.bits - 1 - p : Nat) : Int) + 1) := by omega
      rw [e, wrapU_neg_succ (M_pos w n), M_eq_pow]
  · have hnn : t.signed = true → 2 * p < B t.bits := by
      intro hs
      by_contra hc
      exact hneg (PInt.isNeg_iff.mpr ⟨hs, by omega⟩)
    simp only [hneg]
    have h := asBuintLoop_nonneg (w := w) (n := n) hp hnn n 0 (by omega)
    rw [Nat.pow_zero, Nat.div_one, asBuintSt_zero] at h
    obtain ⟨r, h1, h2, h3⟩ := h
    refine ⟨r, h1, h2, ?_⟩
    have hval : PInt.val t p = (p : Int) := by
      unfold PInt.val
      split
      · rename_i hs; exact toInt_of_lt (hnn hs)
      · rfl
    rw [h3, hval, wrapU_natCast]

/-- C09: `bool` → `BUint<N>` -/
theorem castFromBool_spec {w n : Nat} (hw : 1 ≤ w) (hn : 1 ≤ n) (b : Bool) :
    WF w n (castFromBool n b) ∧ U w (castFromBool n b) = b.toNat := by
  unfold castFromBool
  cases b
  · exact ⟨WF_zero w n, U_zero w n⟩
  · exact ⟨WF_one hw hn, U_one hn⟩

/-- C09: `char` → `BUint<N>` (a `char` is a `u32` code point) -/
theorem castFromChar_spec {w n c : Nat} (hn : 1 ≤ n) (hc : c < B 32) :
    CastOk w n (castFromChar w n c) (c : Int) :=
  castFromPrim_spec (t := ⟨32, false⟩) hn (by decide) hc
end UI

/-- the number denoted by a digit list of the given signedness -/
def valOf (s : Bool) (w : Nat) (x : List Nat) : Int := if s then S w x else (U w x : Int)

theorem CastOk.ne_panic {w n : Nat} {o : Outcome (List Nat)} {z : Int} (h : CastOk w n o z) :
    o ≠ .panic := by
  obtain ⟨r, rfl, _⟩ := h; intro h; cases h

/-- the result read as a signed number is the source value wrapped into the signed range -/
theorem CastOk.signed {w n : Nat} {o : Outcome (List Nat)} {z : Int} (h : CastOk w n o z) :
    ∃ r, o = .ok r ∧ S w r = wrapS (M w n) z := by
  obtain ⟨r, rfl, hr, hu⟩ := h
  exact ⟨r, rfl, by rw [S_eq hr, hu]; rfl⟩

/-- a cast preserves every value that the target can represent -/
theorem CastOk.value {w n : Nat} {o : Outcome (List Nat)} {z : Int} (h : CastOk w n o z)
    (s : Bool) (hrep : if s then repS (M w n) z else repU (M w n) z) :
    ∃ r, o = .ok r ∧ WF w n r ∧ valOf s w r = z := by
  obtain ⟨r, rfl, hr, hu⟩ := h
  refine ⟨r, rfl, hr, ?_⟩
  unfold valOf
  cases s
  · simp only [Bool.false_eq_true, if_false] at hrep ⊢
    rw [hu, wrapU_of_rep hrep]
  · simp only [if_true] at hrep ⊢
    rw [S_eq hr, hu]; exact wrapS_of_rep (M_pos w n) hrep

/-- every bnum → bnum `CastFrom` impl: the source value modulo `2^BITS` of the target -/
theorem castBnum_spec {w₁ n₁ w₂ : Nat} {x : List Nat} (s₁ s₂ : Bool) {n₂ : Nat} (hw₁ : 1 ≤ w₁)
    (hw₂ : 1 ≤ w₂) (hn₁ : 1 ≤ n₁) (hn₂ : 1 ≤ n₂) (hdvd : w₁ ∣ w₂ ∨ w₂ ∣ w₁) (hx : WF w₁ n₁ x) :
    CastOk w₂ n₂ (castBnum w₁ s₁ x w₂ n₂ s₂) (valOf s₁ w₁ x) := by
  unfold castBnum valOf
  by_cases heq : w₁ = w₂
  · subst heq
    simp only [if_true]
    cases s₁ <;> cases s₂ <;> simp only [Bool.false_eq_true, if_false, if_true]
    · exact UI.castFromU_spec n₂ hx
    · exact (UI.castFromU_spec n₂ hx).map_id
    · exact UI.castFromI_spec n₂ hw₁ hn₁ hx
    · exact (UI.castFromI_spec n₂ hw₁ hn₁ hx).map_id
  · simp only [heq, if_false]
    by_cases hd : w₂ ∣ w₁
    · obtain ⟨c, rfl⟩ := hd
      have hc : 2 ≤ c := by
        rcases c with _ | _ | c
        · omega
        · omega
        · omega
      rw [Nat.mul_comm] at hx ⊢
      cases s₁ <;> cases s₂ <;> simp only [Bool.false_eq_true, if_false, if_true]
      · exact UI.castFromUD_split_spec n₂ hc hw₂ hx
      · exact (UI.castFromUD_split_spec n₂ hc hw₂ hx).map_id
      · exact UI.castFromID_split_spec n₂ hc hw₂ hn₁ hx
      · exact (UI.castFromID_split_spec n₂ hc hw₂ hn₁ hx).map_id
    · obtain ⟨c, rfl⟩ := hdvd.resolve_right hd
      have hc : 1 ≤ c := by
        rcases c with _ | c
        · omega
        · omega
      rw [Nat.mul_comm]
      cases s₁ <;> cases s₂ <;> simp only [Bool.false_eq_true, if_false, if_true]
      · exact UI.castFromUD_pack_spec hc hw₁ hn₁ hn₂ hx
      · exact (UI.castFromUD_pack_spec hc hw₁ hn₁ hn₂ hx).map_id
      · exact UI.castFromID_pack_spec hc hw₁ hn₁ hn₂ hx
      · exact (UI.castFromID_pack_spec hc hw₁ hn₁ hn₂ hx).map_id

/-- bnum → primitive -/
theorem castToPrim_spec {w n : Nat} {x : List Nat} (s : Bool) (hw : 1 ≤ w) (hn : 1 ≤ n)
    (hx : WF w n x) (t : PTy) :
    castToPrim w s x t = .ok (wrapU (B t.bits) (valOf s w x)) := by
  unfold castToPrim valOf
  cases s
  · simp only [Bool.false_eq_true, if_false]
    rw [UI.castToPrim_eq hx, wrapU_natCast]
  · simp only [if_true]
    exact II.castToPrim_eq hw hn hx t

/-- primitive → bnum -/
theorem castFromPrim_spec {w n : Nat} {t : PTy} {p : Nat} (s : Bool) (hn : 1 ≤ n)
    (hk : 1 ≤ t.bits) (hp : p < B t.bits) :
    CastOk w n (castFromPrim w n s t p) (PInt.val t p) := by
  unfold castFromPrim
  cases s
  · exact UI.castFromPrim_spec hn hk hp
  · exact (UI.castFromPrim_spec hn hk hp).map_id

/-- representability in a type of modulus `m` -/
def repOf (s : Bool) (m : Nat) (z : Int) : Prop := if s then repS m z else repU m z

instance (s : Bool) (m : Nat) (z : Int) : Decidable (repOf s m z) := by
  unfold repOf; exact inferInstance

/-- the shape of every checked-conversion theorem (C13): never panics; `Ok r` exactly when the
    source value `z` is representable in the target, and then `r` denotes `z`; `Err` otherwise -/
def ConvOk (s : Bool) (w n : Nat) (o : Outcome (Option (List Nat))) (z : Int) : Prop :=
  (repOf s (M w n) z ∧ ∃ r, o = .ok (some r) ∧ WF w n r ∧ valOf s w r = z)
  ∨ (¬ repOf s (M w n) z ∧ o = .ok none)

theorem ConvOk.ne_panic {s : Bool} {w n : Nat} {o : Outcome (Option (List Nat))} {z : Int}
    (h : ConvOk s w n o z) : o ≠ .panic := by
  rcases h with ⟨_, r, rfl, _⟩ | ⟨_, rfl⟩ <;> (intro h; cases h)

theorem ConvOk.ok_iff {s : Bool} {w n : Nat} {o : Outcome (Option (List Nat))} {z : Int}
    (h : ConvOk s w n o z) : (∃ r, o = .ok (some r)) ↔ repOf s (M w n) z := by
  rcases h with ⟨h1, r, rfl, _⟩ | ⟨h1, rfl⟩
  · exact ⟨fun _ => h1, fun _ => ⟨r, rfl⟩⟩
  · constructor
    · rintro ⟨r, hr⟩; cases hr
    · intro h; exact absurd h h1

theorem ConvOk.err_iff {s : Bool} {w n : Nat} {o : Outcome (Option (List Nat))} {z : Int}
    (h : ConvOk s w n o z) : o = .ok none ↔ ¬ repOf s (M w n) z := by
  rcases h with ⟨h1, r, rfl, _⟩ | ⟨h1, rfl⟩
  · constructor
    · intro h; cases h
    · intro h; exact absurd h1 h
  · exact ⟨fun _ => h1, fun _ => rfl⟩

theorem ConvOk.value {s : Bool} {w n : Nat} {o : Outcome (Option (List Nat))} {z : Int}
    (h : ConvOk s w n o z) {r : List Nat} (hr : o = .ok (some r)) : WF w n r ∧ valOf s w r = z := by
  rcases h with ⟨_, r', rfl, h2, h3⟩ | ⟨_, rfl⟩
  · injection hr with hr; injection hr with hr; subst hr; exact ⟨h2, h3⟩
  · cases hr

/-- a decision `c` that is equivalent to representability, followed by the cast -/
theorem ConvOk.of_cast {s : Bool} {w n : Nat} {o : Outcome (List Nat)} {z : Int} (c : Bool)
    (hc : c = true ↔ repOf s (M w n) z) (h : CastOk w n o z) :
    ConvOk s w n (if c then o.map some else .ok none) z := by
  cases c
  · exact Or.inr ⟨fun hr => by simpa using hc.mpr hr, rfl⟩
  · have hr := hc.mp rfl
    obtain ⟨r, ho, hwf, hv⟩ := h.value s hr
    subst ho
    exact Or.inl ⟨hr, r, rfl, hwf, hv⟩

theorem bits_sub_lz {w n : Nat} {x : List Nat} (hx : WF w n x) :
    csub (w * n) (UI.leadingZeros w x) = .ok (Spec.bitLen (U w x)) := by
  unfold csub
  rw [if_pos (Bits.leadingZeros_le hx), Bits.leadingZeros_spec hx]
  have := Bits.bitLen_le_of_lt (U_lt hx)
  congr 1; omega

theorem bits_sub_lo {w n : Nat} {x : List Nat} (hx : WF w n x) :
    csub (w * n) (UI.leadingOnes w x) = .ok (Spec.bitLen (M w n - 1 - U w x)) := by
  unfold csub
  rw [Bits.leadingOnes_spec hx]
  unfold Spec.leadingOnes Spec.leadingZeros Spec.compl
  have hu := U_lt hx
  have : Spec.bitLen (2 ^ (w * n) - 1 - U w x) ≤ w * n :=
    Bits.bitLen_le_of_lt (show 2 ^ (w * n) - 1 - U w x < 2 ^ (w * n) by unfold M at hu; omega)
  rw [if_pos (by omega)]
  congr 1
  unfold M; omega

theorem M_half (w n : Nat) (h : 1 ≤ w * n) : M w n = 2 * 2 ^ (w * n - 1) := by
  unfold M; rw [← Nat.pow_succ']; congr 1; omega

theorem two_pow_le_M {w n k : Nat} (h : k ≤ w * n) : 2 ^ k ≤ M w n :=
  Nat.pow_le_pow_right (by decide) h

/-- `BTryFrom<BUint> for BUint` (`uint_try_from_uint!`) -/
theorem UI.btryFromU_spec {w₁ n₁ w₂ n₂ : Nat} {x : List Nat} (hw₁ : 1 ≤ w₁) (hw₂ : 1 ≤ w₂)
    (hn₁ : 1 ≤ n₁) (hn₂ : 1 ≤ n₂) (hdvd : w₁ ∣ w₂ ∨ w₂ ∣ w₁) (hx : WF w₁ n₁ x) :
    ConvOk false w₂ n₂ (UI.btryFromU w₁ x w₂ n₂) (U w₁ x) := by
  unfold UI.btryFromU
  have hcast := castBnum_spec false false hw₁ hw₂ hn₁ hn₂ hdvd hx
  simp only [valOf, Bool.false_eq_true, if_false] at hcast
  have hu := U_lt hx
  rw [hx.1]
  have hX : (if w₁ * n₁ ≤ w₂ * n₂ then Outcome.ok true
      else (csub (w₁ * n₁) (UI.leadingZeros w₁ x)).bind fun b => .ok (decide (b ≤ w₂ * n₂)))
      = .ok (decide (U w₁ x < M w₂ n₂)) := by
    split
    · rename_i h
      have : U w₁ x < M w₂ n₂ := Nat.lt_of_lt_of_le hu (M_le_of_le h)
      simp [this]
    · rw [bits_sub_lz hx, Outcome.bind_ok]
      exact congrArg Outcome.ok (decide_eq_decide.2 (Bits.bitLen_le_iff _ _))
  dsimp only
  rw [hX, Outcome.bind_ok]
  exact ConvOk.of_cast _ (by simp [repOf, repU]) hcast

theorem S_lt_half {w n : Nat} {x : List Nat} (hw : 1 ≤ w) (hn : 1 ≤ n) (hx : WF w n x) :
    2 * S w x < M w n ∧ -(M w n : Int) ≤ 2 * S w x := by
  have := S_repS hw hn hx
  exact ⟨this.2, this.1⟩

/-- `BTryFrom<BInt> for BUint` (`uint_try_from_int!`) -/
theorem UI.btryFromI_spec {w₁ n₁ w₂ n₂ : Nat} {x : List Nat} (hw₁ : 1 ≤ w₁) (hw₂ : 1 ≤ w₂)
    (hn₁ : 1 ≤ n₁) (hn₂ : 1 ≤ n₂) (hdvd : w₁ ∣ w₂ ∨ w₂ ∣ w₁) (hx : WF w₁ n₁ x) :
    ConvOk false w₂ n₂ (UI.btryFromI w₁ x w₂ n₂) (S w₁ x) := by
  unfold UI.btryFromI
  have hcast := castBnum_spec true false hw₁ hw₂ hn₁ hn₂ hdvd hx
  simp only [valOf, if_true] at hcast
  rw [hx.1, isNegative_eq_decide hw₁ hn₁ hx]
  dsimp only
  by_cases hneg : S w₁ x < 0
  · simp only [hneg, decide_true, if_true]
    exact Or.inr ⟨by simp [repOf, repU]; omega, rfl⟩
  · simp only [hneg, decide_false, Bool.false_eq_true, if_false]
    have hS := S_of_nonneg hx (by omega)
    have hhalf := (S_lt_half hw₁ hn₁ hx).1
    have hM := M_half w₁ n₁ (Nat.mul_pos hw₁ hn₁)
    have hX : (if w₁ * n₁ - 1 ≤ w₂ * n₂ then Outcome.ok true
        else (csub (w₁ * n₁) (II.leadingZeros w₁ x)).bind fun b => .ok (decide (b ≤ w₂ * n₂)))
        = .ok (decide (U w₁ x < M w₂ n₂)) := by
      split
      · rename_i h
        have h2 : 2 ^ (w₁ * n₁ - 1) ≤ M w₂ n₂ := two_pow_le_M h
        have : U w₁ x < M w₂ n₂ := by rw [hS, hM] at hhalf; omega
        simp [this]
      · unfold II.leadingZeros
        rw [bits_sub_lz hx, Outcome.bind_ok]
        exact congrArg Outcome.ok (decide_eq_decide.2 (Bits.bitLen_le_iff _ _))
    rw [hX, Outcome.bind_ok]
    exact ConvOk.of_cast _ (by simp [repOf, repU, hS]) hcast

/-- `BTryFrom<BUint> for BInt` (`int_try_from_uint!`) -/
theorem II.btryFromU_spec {w₁ n₁ w₂ n₂ : Nat} {x : List Nat} (hw₁ : 1 ≤ w₁) (hw₂ : 1 ≤ w₂)
    (hn₁ : 1 ≤ n₁) (hn₂ : 1 ≤ n₂) (hdvd : w₁ ∣ w₂ ∨ w₂ ∣ w₁) (hx : WF w₁ n₁ x) :
    ConvOk true w₂ n₂ (II.btryFromU w₁ x w₂ n₂) (U w₁ x) := by
  unfold II.btryFromU
  have hcast := castBnum_spec false true hw₁ hw₂ hn₁ hn₂ hdvd hx
  simp only [valOf, Bool.false_eq_true, if_false] at hcast
  have hW₂ : 1 ≤ w₂ * n₂ := Nat.mul_pos hw₂ hn₂
  have hu := U_lt hx
  have hM := M_half w₂ n₂ hW₂
  rw [hx.1]
  dsimp only
  have hs : csub (w₂ * n₂) 1 = .ok (w₂ * n₂ - 1) := by unfold csub; rw [if_pos hW₂]
  rw [hs, Outcome.bind_ok]
  have hX : (if w₁ * n₁ ≤ w₂ * n₂ - 1 then Outcome.ok true
      else (csub (w₁ * n₁) (UI.leadingZeros w₁ x)).bind fun b => .ok (decide (b ≤ w₂ * n₂ - 1)))
      = .ok (decide (U w₁ x < 2 ^ (w₂ * n₂ - 1))) := by
    split
    · rename_i h
      have h2 : M w₁ n₁ ≤ 2 ^ (w₂ * n₂ - 1) := Nat.pow_le_pow_right (by decide) h
      have : U w₁ x < 2 ^ (w₂ * n₂ - 1) := by omega
      simp [this]
    · rw [bits_sub_lz hx, Outcome.bind_ok]
      exact congrArg Outcome.ok (decide_eq_decide.2 (Bits.bitLen_le_iff _ _))
  rw [hX, Outcome.bind_ok]
  refine ConvOk.of_cast _ ?_ hcast
  simp only [decide_eq_true_iff, repOf, if_true, repS]
  rw [hM]; omega

/-- `BTryFrom<BInt> for BInt` (`int_try_from_int!`) -/
theorem II.btryFromI_spec {w₁ n₁ w₂ n₂ : Nat} {x : List Nat} (hw₁ : 1 ≤ w₁) (hw₂ : 1 ≤ w₂)
    (hn₁ : 1 ≤ n₁) (hn₂ : 1 ≤ n₂) (hdvd : w₁ ∣ w₂ ∨ w₂ ∣ w₁) (hx : WF w₁ n₁ x) :
    ConvOk true w₂ n₂ (II.btryFromI w₁ x w₂ n₂) (S w₁ x) := by
  unfold II.btryFromI
  have hcast := castBnum_spec true true hw₁ hw₂ hn₁ hn₂ hdvd hx
  simp only [valOf, if_true] at hcast
  have hW₂ : 1 ≤ w₂ * n₂ := Nat.mul_pos hw₂ hn₂
  have hu := U_lt hx
  have hM₂ := M_half w₂ n₂ hW₂
  have hrS := S_lt_half hw₁ hn₁ hx
  have hs : csub (w₂ * n₂) 1 = .ok (w₂ * n₂ - 1) := by unfold csub; rw [if_pos hW₂]
  rw [hx.1, isNegative_eq_decide hw₁ hn₁ hx]
  dsimp only
  split
  · rename_i h
    have hle : M w₁ n₁ ≤ M w₂ n₂ := M_le_of_le h
    have := ConvOk.of_cast (s := true) true (by simp [repOf, repS]; omega) hcast
    simpa using this
  · rename_i h
    by_cases hneg : S w₁ x < 0
    · simp only [hneg, decide_true, if_true]
      unfold II.leadingOnes
      rw [bits_sub_lo hx, Outcome.bind_ok, hs, Outcome.bind_ok]
      have hSx := S_of_neg hx hneg
      have := ConvOk.of_cast (s := true)
        (decide (Spec.bitLen (M w₁ n₁ - 1 - U w₁ x) ≤ w₂ * n₂ - 1)) (by
          simp only [decide_eq_true_iff, repOf, if_true, repS]
          rw [Bits.bitLen_le_iff, hM₂, hSx]; omega) hcast
      simpa using this
    · simp only [hneg, decide_false, Bool.false_eq_true, if_false]
      unfold II.leadingZeros
      rw [bits_sub_lz hx, Outcome.bind_ok, hs, Outcome.bind_ok]
      have hSx := S_of_nonneg hx (by omega)
      have := ConvOk.of_cast (s := true)
        (decide (Spec.bitLen (U w₁ x) ≤ w₂ * n₂ - 1)) (by
          simp only [decide_eq_true_iff, repOf, if_true, repS]
          rw [Bits.bitLen_le_iff, hM₂, hSx]; omega) hcast
      simpa using this

/-- all four `BTryFrom` impls -/
theorem btryFrom_spec {w₁ n₁ w₂ n₂ : Nat} {x : List Nat} (s₁ s₂ : Bool) (hw₁ : 1 ≤ w₁)
    (hw₂ : 1 ≤ w₂) (hn₁ : 1 ≤ n₁) (hn₂ : 1 ≤ n₂) (hdvd : w₁ ∣ w₂ ∨ w₂ ∣ w₁) (hx : WF w₁ n₁ x) :
    ConvOk s₂ w₂ n₂ (btryFrom w₁ s₁ x w₂ n₂ s₂) (valOf s₁ w₁ x) := by
  unfold btryFrom valOf
  cases s₁ <;> cases s₂ <;> simp only [Bool.false_eq_true, if_false, if_true]
  · exact UI.btryFromU_spec hw₁ hw₂ hn₁ hn₂ hdvd hx
  · exact II.btryFromU_spec hw₁ hw₂ hn₁ hn₂ hdvd hx
  · exact UI.btryFromI_spec hw₁ hw₂ hn₁ hn₂ hdvd hx
  · exact II.btryFromI_spec hw₁ hw₂ hn₁ hn₂ hdvd hx

/-- a `From` conversion: no panic, well-formed result denoting exactly `z` -/
def FromOk (s : Bool) (w n : Nat) (o : Outcome (List Nat)) (z : Int) : Prop :=
  ∃ r, o = .ok r ∧ WF w n r ∧ valOf s w r = z

theorem FromOk.ne_panic {s : Bool} {w n : Nat} {o : Outcome (List Nat)} {z : Int}
    (h : FromOk s w n o z) : o ≠ .panic := by
  obtain ⟨r, rfl, _⟩ := h; intro h; cases h

theorem FromOk.map_id {s : Bool} {w n : Nat} {o : Outcome (List Nat)} {z : Int}
    (h : FromOk s w n o z) : FromOk s w n (o.map II.fromBits) z := by
  obtain ⟨r, rfl, h⟩ := h; exact ⟨r, rfl, h⟩

theorem cast_u_mod {k w v : Nat} (hv : v < B k) : PInt.cast k false w v = v % B w := by
  unfold PInt.cast
  split
  · rfl
  · simp only [Bool.false_and, Bool.false_eq_true, if_false]
    have : B k ≤ B w := Nat.pow_le_pow_right (by decide) (by omega)
    rw [Nat.mod_eq_of_lt (by omega)]

theorem two_pow_mul (i w : Nat) : 2 ^ (i * w) = B w ^ i := by rw [← B_mul]; rfl

namespace UI
theorem asBuintSt_succ_zero {w n v i : Nat} (hi : i < n) (h0 : dig w v i = 0) :
    asBuintSt w n v (i + 1) = asBuintSt w n v i := by
  unfold asBuintSt
  rw [map_dig_succ, h0, List.append_assoc]
  congr 1
  obtain ⟨j, hj⟩ : ∃ j, n - i = j + 1 := ⟨n - i - 1, by omega⟩
  rw [hj, show n - (i + 1) = j by omega, List.replicate_succ]; rfl

theorem dig_eq_zero_of_lt {w v i : Nat} (h : v < B w ^ i) : dig w v i = 0 := by
  unfold dig; rw [Nat.div_eq_of_lt h, Nat.zero_mod]

theorem fromUintLoop_spec {w n k p : Nat} (hw : 1 ≤ w) (hp : p < B k) (hpM : p < M w n) :
    ∀ (f i : Nat), k ≤ f + i →
    ∃ j, fromUintLoop w k p f i (asBuintSt w n p (min i n)) = .ok (asBuintSt w n p (min j n))
      ∧ k ≤ j * w := by
  intro f
  induction f with
  | zero =>
    intro i hi
    refine ⟨i, rfl, ?_⟩
    have : i ≤ i * w := Nat.le_mul_of_pos_right _ hw
    omega
  | succ f ih =>
    intro i hi
    unfold fromUintLoop
    by_cases hik : i * w < k
    · simp only [hik, if_true]
      unfold PInt.shr
      rw [if_pos hik, Outcome.bind_ok, shrRaw_unsigned, two_pow_mul,
        cast_u_mod (Nat.lt_of_le_of_lt (Nat.div_le_self _ _) hp)]
      change ∃ j, ((if (dig w p i != 0) = true then upd (asBuintSt w n p (min i n)) i (dig w p i)
          else Outcome.ok (asBuintSt w n p (min i n))).bind
            fun out => fromUintLoop w k p f (i + 1) out) = _ ∧ _
      have hstep : (if (dig w p i != 0) = true then upd (asBuintSt w n p (min i n)) i (dig w p i)
          else Outcome.ok (asBuintSt w n p (min i n)))
          = .ok (asBuintSt w n p (min (i + 1) n)) := by
        by_cases hd : dig w p i = 0
        · simp only [hd, bne_self_eq_false, Bool.false_eq_true, if_false]
          by_cases hin : i < n
          · rw [Nat.min_eq_left (by omega), Nat.min_eq_left (by omega),
              asBuintSt_succ_zero hin hd]
          · rw [Nat.min_eq_right (by omega), Nat.min_eq_right (by omega)]
        · have hne : (dig w p i != 0) = true := by simp [hd]
          have hin : i < n := by
            by_contra hc
            apply hd
            apply dig_eq_zero_of_lt
            rw [M_eq_pow] at hpM
            exact Nat.lt_of_lt_of_le hpM (B_pow_le (by omega))
          rw [if_pos hne, Nat.min_eq_left (by omega), Nat.min_eq_left (by omega),
            asBuintSt_upd hin]
      rw [hstep, Outcome.bind_ok]
      exact ih (i + 1) (by omega)
    · simp only [hik, if_false]
      exact ⟨i, rfl, by omega⟩

/-- C13: `From<uK> for BUint<N>` whenever the VALUE fits (in particular whenever `K ≤ BITS`) -/
theorem fromUint_spec {w n k p : Nat} (hw : 1 ≤ w) (hp : p < B k) (hpM : p < M w n) :
    FromOk false w n (fromUint w n k p) (p : Int) := by
  unfold fromUint
  obtain ⟨j, h1, h2⟩ := fromUintLoop_spec (n := n) hw hp hpM k 0 (by omega)
  rw [Nat.zero_min, asBuintSt_zero] at h1
  refine ⟨_, h1, asBuintSt_WF w n p (Nat.min_le_right _ _), ?_⟩
  simp only [valOf, Bool.false_eq_true, if_false]
  rw [asBuintSt_U]
  congr 1
  apply Nat.mod_eq_of_lt
  by_cases hjn : j ≤ n
  · rw [Nat.min_eq_left hjn, ← two_pow_mul]
    exact Nat.lt_of_lt_of_le hp (Nat.pow_le_pow_right (by decide) h2)
  · rw [Nat.min_eq_right (by omega), ← M_eq_pow]; exact hpM
end UI

namespace II
/-- `from_int!`, non-negative source -/
theorem fromIntLoop_nonneg {w n k p : Nat} (hw : 1 ≤ w) (hk : k ≤ w * n) (hp : 2 * p < B k) :
    ∀ (f i : Nat), k ≤ f + i → i ≤ n →
    ∃ j, fromIntLoop w k p f i (UI.asBuintSt w n p i) = .ok (UI.asBuintSt w n p j)
      ∧ j ≤ n ∧ k ≤ j * w := by
  intro f
  induction f with
  | zero =>
    intro i hi hin
    refine ⟨i, rfl, hin, ?_⟩
    have : i ≤ i * w := Nat.le_mul_of_pos_right _ hw
    omega
  | succ f ih =>
    intro i hi hin
    unfold fromIntLoop
    by_cases hik : i * w < k
    · have hin' : i < n := by
        have : i * w < n * w := by rw [Nat.mul_comm n w]; omega
        exact Nat.lt_of_mul_lt_mul_right this
      simp only [hik, if_true]
      unfold PInt.shr
      rw [if_pos hik, Outcome.bind_ok]
      have hv : p / 2 ^ (i * w) ≤ p := Nat.div_le_self _ _
      have hsh : PInt.shrRaw k true p (i * w) = p / 2 ^ (i * w) := by
        unfold PInt.shrRaw
        have : (true && decide (B k ≤ 2 * p)) = false := by simp; omega
        rw [this]; rfl
      rw [hsh]
      have hd : PInt.cast k true w (p / 2 ^ (i * w)) = dig w p i := by
        unfold PInt.cast dig
        rw [← two_pow_mul]
        generalize p / 2 ^ (i * w) = v at *
        split
        · rfl
        · have hs : (true && decide (B k ≤ 2 * v)) = false := by simp; omega
          have : B k ≤ B w := Nat.pow_le_pow_right (by decide) (by omega)
          simp only [hs, Bool.false_eq_true, if_false]
          rw [Nat.mod_eq_of_lt (by omega)]
      rw [hd, UI.asBuintSt_upd hin', Outcome.bind_ok]
      exact ih (i + 1) (by omega) (by omega)
    · simp only [hik, if_false]
      exact ⟨i, rfl, hin, by omega⟩

/-- `from_int!`, negative source: the complement of the digits of `!p` -/
theorem fromIntLoop_neg {w n k p' : Nat} (hw : 1 ≤ w) (hk : k ≤ w * n) (hk1 : 1 ≤ k)
    (hp' : 2 * p' < B k) :
    ∀ (f i : Nat), k ≤ f + i → i ≤ n →
    ∃ j, fromIntLoop w k (B k - 1 - p') f i (bnot w (UI.asBuintSt w n p' i))
        = .ok (bnot w (UI.asBuintSt w n p' j)) ∧ j ≤ n ∧ k ≤ j * w := by
  intro f
  induction f with
  | zero =>
    intro i hi hin
    refine ⟨i, rfl, hin, ?_⟩
    have : i ≤ i * w := Nat.le_mul_of_pos_right _ hw
    omega
  | succ f ih =>
    intro i hi hin
    unfold fromIntLoop
    by_cases hik : i * w < k
    · have hin' : i < n := by
        have : i * w < n * w := by rw [Nat.mul_comm n w]; omega
        exact Nat.lt_of_mul_lt_mul_right this
      simp only [hik, if_true]
      unfold PInt.shr
      rw [if_pos hik, Outcome.bind_ok]
      have hBe : B k = 2 * (B k / 2) := B_even hk1
      have hBK : B k = 2 ^ (i * w) * B (k - i * w) := by
        unfold B; rw [← Nat.pow_add]; congr 1; omega
      have ha : p' < 2 ^ (i * w) * B (k - i * w) := by omega
      obtain ⟨_, hdiv⟩ := not_mod_mul (Nat.pow_pos (by decide)) ha
      rw [← hBK] at hdiv
      have hq : p' / 2 ^ (i * w) < B (k - i * w) :=
        (Nat.div_lt_iff_lt_mul (Nat.pow_pos (by decide))).2 (by rw [Nat.mul_comm]; exact ha)
      have hle : B (k - i * w) ≤ B k := Nat.pow_le_pow_right (by decide) (by omega)
      have hsh : PInt.shrRaw k true (B k - 1 - p') (i * w) = B k - 1 - p' / 2 ^ (i * w) := by
        unfold PInt.shrRaw
        have : (true && decide (B k ≤ 2 * (B k - 1 - p'))) = true := by simp; omega
        rw [this, if_pos rfl, hdiv]; omega
      rw [hsh]
      have hap : p' / 2 ^ (i * w) ≤ p' := Nat.div_le_self _ _
      generalize ha' : p' / 2 ^ (i * w) = a at *
      have hd : PInt.cast k true w (B k - 1 - a) = Prim.not w (dig w p' i) := by
        unfold PInt.cast dig Prim.not
        rw [← two_pow_mul, ha']
        split
        · rename_i hwk
          have hBK2 : B k = B w * B (k - w) := by
            unfold B; rw [← Nat.pow_add]; congr 1; omega
          have := (not_mod_mul (B_pos w) (show a < B w * B (k - w) by omega)).1
          rw [← hBK2] at this
          exact this
        · rename_i hwk
          have hBw : B k ≤ B w := Nat.pow_le_pow_right (by decide) (by omega)
          have : (true && decide (B k ≤ 2 * (B k - 1 - a))) = true := by simp; omega
          rw [this, if_pos rfl, Nat.mod_eq_of_lt (by omega)]; omega
      rw [hd]
      unfold bnot
      rw [upd_map, UI.asBuintSt_upd hin']
      simp only [Outcome.map_ok, Outcome.bind_ok]
      exact ih (i + 1) (by omega) (by omega)
    · simp only [hik, if_false]
      exact ⟨i, rfl, hin, by omega⟩

/-- C13: `From<iK> for BInt<N>`, `K ≤ BITS` -/
theorem fromInt_spec {w n k p : Nat} (hw : 1 ≤ w) (hn : 1 ≤ n) (hk1 : 1 ≤ k) (hk : k ≤ w * n)
    (hp : p < B k) : FromOk true w n (fromInt w n k p) (toInt (B k) p) := by
  unfold fromInt
  have hBe : B k = 2 * (B k / 2) := B_even hk1
  have hBM : B k ≤ M w n := Nat.pow_le_pow_right (by decide) hk
  by_cases hneg : PInt.isNeg ⟨k, true⟩ p = true
  · have hge : B k ≤ 2 * p := (PInt.isNeg_iff.mp hneg).2
    simp only [hneg, if_true]
    have hp' : 2 * (B k - 1 - p) < B k := by omega
    obtain ⟨j, h1, h2, h3⟩ := fromIntLoop_neg (n := n) hw hk hk1 hp' k 0 (by omega) (by omega)
    rw [show B k - 1 - (B k - 1 - p) = p by omega, UI.asBuintSt_zero] at h1
    have hwf := UI.asBuintSt_WF w n (B k - 1 - p) h2
    refine ⟨_, h1, WF_bnot hwf, ?_⟩
    simp only [valOf, if_true]
    have hlt : B k - 1 - p < B w ^ j := by
      rw [← two_pow_mul]
      exact Nat.lt_of_lt_of_le (show B k - 1 - p < B k by omega)
        (Nat.pow_le_pow_right (by decide) h3)
    have hU : U w (bnot w (UI.asBuintSt w n (B k - 1 - p) j)) = M w n - 1 - (B k - 1 - p) := by
      rw [U_bnot hwf, UI.asBuintSt_U, Nat.mod_eq_of_lt hlt]
    rw [S_eq (WF_bnot hwf), hU, toInt_of_ge hge, toInt_of_ge (by omega)]
    omega
  · have hlt : 2 * p < B k := by
      by_contra hc
      exact hneg (PInt.isNeg_iff.mpr ⟨rfl, by show B k ≤ 2 * p; omega⟩)
    simp only [hneg]
    obtain ⟨j, h1, h2, h3⟩ := fromIntLoop_nonneg (n := n) hw hk hlt k 0 (by omega) (by omega)
    rw [UI.asBuintSt_zero] at h1
    have hwf := UI.asBuintSt_WF w n p h2
    refine ⟨_, h1, hwf, ?_⟩
    simp only [valOf, if_true]
    have hpj : p < B w ^ j := by
      rw [← two_pow_mul]
      exact Nat.lt_of_lt_of_le hp (Nat.pow_le_pow_right (by decide) h3)
    rw [S_eq hwf, UI.asBuintSt_U, Nat.mod_eq_of_lt hpj, toInt_of_lt hlt, toInt_of_lt (by omega)]

/-- C13 (F6): `From<uK> for BInt<N>` is correct when the target is strictly wider … -/
theorem fromUint_partial {w n k p : Nat} (hw : 1 ≤ w) (hk : k < w * n) (hp : p < B k) :
    FromOk true w n (fromUint w n k p) (p : Int) := by
  unfold fromUint
  have hBM : 2 * B k ≤ M w n := by
    have : B (k + 1) ≤ M w n := Nat.pow_le_pow_right (by decide) hk
    unfold B at *; rw [Nat.pow_succ] at this; omega
  obtain ⟨r, h1, h2, h3⟩ := UI.fromUint_spec (n := n) hw hp (by omega)
  rw [h1]
  refine ⟨r, rfl, h2, ?_⟩
  simp only [valOf, Bool.false_eq_true, if_false, if_true] at h3 ⊢
  have : U w r = p := by exact_mod_cast h3
  rw [S_eq h2, this, toInt_of_lt (by omega)]
end II

namespace UI
/-- C13: `TryFrom<iK> for BUint<N>`, `K ≤ BITS` -/
theorem tryFromIint_spec {w n k p : Nat} (hw : 1 ≤ w) (hk : k ≤ w * n)
    (hp : p < B k) : ConvOk false w n (tryFromIint w n k p) (toInt (B k) p) := by
  unfold tryFromIint
  have hBM : B k ≤ M w n := Nat.pow_le_pow_right (by decide) hk
  by_cases hneg : PInt.isNeg ⟨k, true⟩ p = true
  · have hge : B k ≤ 2 * p := (PInt.isNeg_iff.mp hneg).2
    simp only [hneg, if_true]
    refine Or.inr ⟨?_, rfl⟩
    simp only [repOf, Bool.false_eq_true, if_false, repU]
    rw [toInt_of_ge hge]; omega
  · have hlt : 2 * p < B k := by
      by_contra hc
      exact hneg (PInt.isNeg_iff.mpr ⟨rfl, by show B k ≤ 2 * p; omega⟩)
    simp only [hneg]
    have hc : PInt.cast k true k p = p := by
      unfold PInt.cast; rw [if_pos (Nat.le_refl _), Nat.mod_eq_of_lt hp]
    rw [hc, toInt_of_lt hlt]
    obtain ⟨r, h1, h2, h3⟩ := fromUint_spec (n := n) hw hp (by omega)
    rw [h1]
    refine Or.inl ⟨?_, r, rfl, h2, h3⟩
    simp only [repOf, Bool.false_eq_true, if_false, repU]
    omega
end UI

theorem restAll_spec (x : List Nat) (pad : Nat) : ∀ (f i : Nat), f + i = x.length →
    restAll x pad f i = .ok (decide (x.drop i = List.replicate (x.length - i) pad)) := by
  intro f
  induction f with
  | zero =>
    intro i hi
    have : i = x.length := by omega
    subst this
    simp [restAll]
  | succ f ih =>
    intro i hi
    unfold restAll
    have hin : i < x.length := by omega
    rw [if_pos hin, idx_eq hin, Outcome.bind_ok, List.drop_eq_getElem_cons hin]
    obtain ⟨j, hj⟩ : ∃ j, x.length - i = j + 1 := ⟨x.length - i - 1, by omega⟩
    rw [hj, List.replicate_succ]
    by_cases hd : x[i] = pad
    · simp only [hd, bne_self_eq_false, Bool.false_eq_true, if_false]
      rw [ih (i + 1) (by omega), show x.length - (i + 1) = j by omega]
      congr 1
      simp
    · have hne : (x[i] != pad) = true := by simp [hd]
      rw [if_pos hne]
      congr 1
      simp only [false_eq_decide_iff]
      intro h
      injection h with h1 _
      exact hd h1

theorem eq_zero_of_U_eq_zero {w n : Nat} {x : List Nat} (hx : WF w n x) (h : U w x = 0) :
    x = List.replicate n 0 :=
  U_injective hx (WF_zero w n) (by rw [h]; exact (U_zero w n).symm)

theorem eq_max_of_U_eq {w n : Nat} {x : List Nat} (hx : WF w n x) (h : U w x = M w n - 1) :
    x = List.replicate n (B w - 1) :=
  U_injective hx (WF_allOnes w n) (by rw [h]; exact (U_allOnes w n).symm)

/-- decomposition of a value at digit `i` -/
theorem split_at {w n : Nat} {x : List Nat} (hx : WF w n x) {i : Nat} (hi : i ≤ n) :
    U w x = U w (x.take i) + B w ^ i * U w (x.drop i) ∧ U w (x.take i) < B w ^ i
    ∧ U w (x.drop i) < M w (n - i) ∧ M w n = B w ^ i * M w (n - i)
    ∧ (x.drop i = List.replicate (n - i) 0 ↔ U w (x.drop i) = 0)
    ∧ (x.drop i = List.replicate (n - i) (B w - 1) ↔ U w (x.drop i) = M w (n - i) - 1) := by
  have h1 := U_take_add_drop w x i
  rw [hx.1, Nat.min_eq_left hi] at h1
  have h2 := U_lt (WF_take i hx)
  rw [Nat.min_eq_left hi, M_eq_pow] at h2
  have hd := WF_drop i hx
  refine ⟨h1, h2, U_lt hd, ?_, ?_, ?_⟩
  · rw [M_eq_pow, M_eq_pow, ← Nat.pow_add]; congr 1; omega
  · constructor
    · intro h; rw [h]; exact U_replicate_zero w _
    · exact eq_zero_of_U_eq_zero hd
  · constructor
    · intro h; rw [h]; exact U_replicate_max w _
    · exact eq_max_of_U_eq hd

theorem take_bnot (w : Nat) (x : List Nat) (i : Nat) : (bnot w x).take i = bnot w (x.take i) := by
  unfold bnot; rw [List.map_take]

/-- the primitive result shape of a checked conversion into a primitive -/
def ConvOkP (t : PTy) (o : Outcome (Option Nat)) (z : Int) : Prop :=
  (repOf t.signed (B t.bits) z ∧ ∃ q, o = .ok (some q) ∧ q < B t.bits ∧ PInt.val t q = z)
  ∨ (¬ repOf t.signed (B t.bits) z ∧ o = .ok none)

theorem ConvOkP.ne_panic {t : PTy} {o : Outcome (Option Nat)} {z : Int} (h : ConvOkP t o z) :
    o ≠ .panic := by
  rcases h with ⟨_, q, rfl, _⟩ | ⟨_, rfl⟩ <;> (intro h; cases h)

theorem ConvOkP.ok_iff {t : PTy} {o : Outcome (Option Nat)} {z : Int} (h : ConvOkP t o z) :
    (∃ q, o = .ok (some q)) ↔ repOf t.signed (B t.bits) z := by
  rcases h with ⟨h1, q, rfl, _⟩ | ⟨h1, rfl⟩
  · exact ⟨fun _ => h1, fun _ => ⟨q, rfl⟩⟩
  · constructor
    · rintro ⟨q, hq⟩; cases hq
    · intro h; exact absurd h h1

theorem ConvOkP.value {t : PTy} {o : Outcome (Option Nat)} {z : Int} (h : ConvOkP t o z)
    {q : Nat} (hq : o = .ok (some q)) : q < B t.bits ∧ PInt.val t q = z := by
  rcases h with ⟨_, q', rfl, h2, h3⟩ | ⟨_, rfl⟩
  · injection hq with hq; injection hq with hq; subst hq; exact ⟨h2, h3⟩
  · cases hq

/-- facts about where the assembling loops stop when `K = c * w` -/
theorem asm_stop {w c n i' : Nat} (hw : 1 ≤ w) (h4 : i' = n ∨ c * w ≤ i' * w)
    (h5 : ∀ j, j < i' → j * w < c * w) : i' ≤ c ∧ (i' = n ∨ i' = c) := by
  have hic : i' ≤ c := by
    by_contra hc
    have := h5 c (by omega)
    omega
  refine ⟨hic, ?_⟩
  rcases h4 with h | h
  · exact Or.inl h
  · exact Or.inr (Nat.le_antisymm hic (Nat.le_of_mul_le_mul_right h (by omega)))

theorem ConvOkP.of_dec {t : PTy} {z : Int} (c : Bool) (q : Nat)
    (hc : c = true ↔ repOf t.signed (B t.bits) z)
    (hq : c = true → q < B t.bits ∧ PInt.val t q = z) :
    ConvOkP t (.ok (if c then some q else none)) z := by
  cases c
  · exact Or.inr ⟨fun h => by simpa using hc.mpr h, rfl⟩
  · exact Or.inl ⟨hc.mp rfl, q, rfl, hq rfl⟩

theorem ConvOkP.none {t : PTy} {z : Int} (h : ¬ repOf t.signed (B t.bits) z) :
    ConvOkP t (.ok none) z := Or.inr ⟨h, rfl⟩

theorem ConvOkP.some {t : PTy} {z : Int} {q : Nat} (h : repOf t.signed (B t.bits) z)
    (hq : q < B t.bits) (hv : PInt.val t q = z) : ConvOkP t (.ok (some q)) z :=
  Or.inl ⟨h, q, rfl, hq, hv⟩

theorem val_unsigned {t : PTy} (h : t.signed = false) (q : Nat) : PInt.val t q = q := by
  simp [PInt.val, h]
theorem val_signed {t : PTy} (h : t.signed = true) (q : Nat) :
    PInt.val t q = toInt (B t.bits) q := by simp [PInt.val, h]

/-- the tail check `while i < N { if digits[i] != pad … }` in closed form -/
theorem restAll_zero {w n : Nat} {x : List Nat} (hx : WF w n x) {i : Nat} (hi : i ≤ n) :
    restAll x 0 (x.length - i) i = .ok (decide (U w (x.drop i) = 0)) := by
  rw [restAll_spec x 0 _ i (by rw [hx.1]; omega), hx.1]
  exact congrArg Outcome.ok (decide_eq_decide.2 (split_at hx hi).2.2.2.2.1)

theorem restAll_max {w n : Nat} {x : List Nat} (hx : WF w n x) {i : Nat} (hi : i ≤ n) :
    restAll x (B w - 1) (x.length - i) i = .ok (decide (U w (x.drop i) = M w (n - i) - 1)) := by
  rw [restAll_spec x _ _ i (by rw [hx.1]; omega), hx.1]
  exact congrArg Outcome.ok (decide_eq_decide.2 (split_at hx hi).2.2.2.2.2)

theorem B_lt_B {a b : Nat} (h : a < b) : 2 * B a ≤ B b := by
  have : B (a + 1) ≤ B b := Nat.pow_le_pow_right (by decide) h
  unfold B at *; rw [Nat.pow_succ] at this; omega

/-- C13: `TryFrom<BUint<N>> for $int` (`try_from_buint!`).  The digit is wider than the target,
    or the target width is a multiple of the digit width. -/
theorem UI.tryToPrim_spec {w n : Nat} {x : List Nat} (t : PTy) (hw : 1 ≤ w) (hn : 1 ≤ n)
    (hk : 1 ≤ t.bits) (hdiv : t.bits < w ∨ ∃ c, t.bits = c * w) (hx : WF w n x) :
    ConvOkP t (UI.tryToPrim w x t) (U w x) := by
  unfold UI.tryToPrim
  dsimp only
  have hBe : B t.bits = 2 * (B t.bits / 2) := B_even hk
  by_cases hwk : w > t.bits
  · -- digit wider than the primitive
    rw [if_pos hwk]
    have hBB := B_lt_B hwk
    obtain ⟨h1, h2, h3, h4, _, _⟩ := split_at hx (show 1 ≤ n by omega)
    have hz := restAll_zero hx (show 1 ≤ n by omega)
    have hlen : 0 < x.length := by rw [hx.1]; omega
    have ht : U w (x.take 1) = x.getD 0 0 := by
      rw [take_succ_getD x hlen]; simp
    rw [idx_getD hlen, Outcome.bind_ok, hz]
    rw [ht] at h1 h2
    rw [Nat.pow_one] at h1 h2
    generalize x.getD 0 0 = d0 at *
    generalize U w (x.drop 1) = D at *
    have hD : D ≠ 0 → B w ≤ B w * D := fun h => Nat.le_mul_of_pos_right _ (by omega)
    have hsm : PInt.cast w false t.bits d0 = d0 % B t.bits := cast_trunc _ _ (by omega)
    have hmod := Nat.mod_lt d0 (B_pos t.bits)
    have hmd := Nat.mod_add_div d0 (B t.bits)
    rw [hsm]
    generalize hsmall : d0 % B t.bits = small at *
    have hsd : d0 < B t.bits → small = d0 := fun h => by rw [← hsmall]; exact Nat.mod_eq_of_lt h
    have hds : B t.bits ≤ d0 → small ≠ d0 := fun h => by omega
    cases hs : t.signed
    · -- unsigned target
      have hneg : PInt.isNeg t small = false := by simp [PInt.isNeg, hs]
      have htr : PInt.cast t.bits false w small = small := cast_unsigned_id hmod (by omega)
      rw [htr, hneg]
      simp only [Bool.false_eq_true, if_false, Outcome.bind_ok]
      by_cases hd : d0 < B t.bits
      · have := hsd hd
        subst this
        simp only [bne_self_eq_false, Bool.false_eq_true, if_false]
        refine ConvOkP.of_dec _ _ ?_ ?_
        · simp only [decide_eq_true_iff, repOf, hs, Bool.false_eq_true, if_false, repU]
          constructor
          · intro h; subst h; omega
          · intro h; by_contra hc; have := hD hc; omega
        · intro h
          simp only [decide_eq_true_iff] at h
          subst h
          exact ⟨hd, by rw [val_unsigned hs]; omega⟩
      · have hne : (d0 != small) = true := by
          simp only [bne_iff_ne, ne_eq]; exact fun h => hds (by omega) h.symm
        rw [if_pos hne]
        refine ConvOkP.none ?_
        simp only [repOf, hs, Bool.false_eq_true, if_false, repU]
        by_cases hc : D = 0
        · subst hc; omega
        · have := hD hc; omega
    · -- signed target
      have hneg : PInt.isNeg t small = decide (B t.bits ≤ 2 * small) := by simp [PInt.isNeg, hs]
      have htr : PInt.cast t.bits true w small
          = if B t.bits ≤ 2 * small then small + (B w - B t.bits) else small := by
        unfold PInt.cast
        rw [if_neg (by omega)]
        by_cases h : B t.bits ≤ 2 * small <;> simp [h]
      rw [htr, hneg]
      by_cases hsn : B t.bits ≤ 2 * small
      · -- truncation is negative: never Ok, and the value is not representable
        have hnr : ¬ repOf t.signed (B t.bits) (U w x : Int) := by
          simp only [repOf, hs, if_true, repS]
          by_cases hc : D = 0
          · subst hc; omega
          · have := hD hc; omega
        simp only [hsn, if_true, decide_true]
        split
        · exact ConvOkP.none hnr
        · exact ConvOkP.none hnr
      · simp only [hsn, if_false, decide_false, Bool.false_eq_true, Outcome.bind_ok]
        by_cases hd : d0 < B t.bits
        · have := hsd hd
          subst this
          simp only [bne_self_eq_false, Bool.false_eq_true, if_false]
          refine ConvOkP.of_dec _ _ ?_ ?_
          · simp only [decide_eq_true_iff, repOf, hs, if_true, repS]
            constructor
            · intro h; subst h; omega
            · intro h; by_contra hc; have := hD hc; omega
          · intro h
            simp only [decide_eq_true_iff] at h
            subst h
            refine ⟨hd, ?_⟩
            rw [val_signed hs, toInt_of_lt (by omega)]; omega
        · have hne : (d0 != small) = true := by
            simp only [bne_iff_ne, ne_eq]; exact fun h => hds (by omega) h.symm
          rw [if_pos hne]
          refine ConvOkP.none ?_
          simp only [repOf, hs, if_true, repS]
          by_cases hc : D = 0
          · subst hc; omega
          · have := hD hc; omega
  · -- the primitive is a whole number of digits
    rw [if_neg hwk]
    obtain ⟨c, hc⟩ := hdiv.resolve_left (by omega)
    obtain ⟨i', h1, _, h3, h4, h5⟩ := asmOrLoop_spec (k := t.bits) hx x.length 0 (by rw [hx.1]; rfl)
    simp only [List.take_zero, U_nil, Nat.zero_mod] at h1
    rw [h1, Outcome.bind_ok]
    dsimp only
    rw [hc] at h4 h5
    obtain ⟨hic, hcase⟩ := asm_stop hw h4 (fun j hj => h5 j (by omega) hj)
    obtain ⟨e1, e2, e3, e4, _, _⟩ := split_at hx h3
    have hE : B w ^ i' ≤ B t.bits := by rw [hc, B_mul]; exact B_pow_le hic
    rw [Nat.mod_eq_of_lt (show U w (x.take i') < B t.bits by omega), restAll_zero hx h3]
    have hEM : i' = n → U w (x.drop i') = 0 := by
      intro h; rw [h, Nat.sub_self, M_zero] at e3; rw [h]; omega
    have hEc : i' = c → B w ^ i' = B t.bits := by
      intro h; rw [hc, B_mul, h]
    generalize U w (x.take i') = T at *
    generalize U w (x.drop i') = D at *
    generalize B w ^ i' = E at *
    have hD : D ≠ 0 → E ≤ E * D := fun h => Nat.le_mul_of_pos_right _ (by omega)
    cases hs : t.signed
    · have hneg : PInt.isNeg t T = false := by simp [PInt.isNeg, hs]
      rw [hneg]
      simp only [Bool.false_eq_true, if_false, Outcome.bind_ok]
      refine ConvOkP.of_dec _ _ ?_ ?_
      · simp only [decide_eq_true_iff, repOf, hs, Bool.false_eq_true, if_false, repU]
        constructor
        · intro h; subst h; omega
        · intro h
          rcases hcase with h' | h'
          · exact hEM h'
          · have := hEc h'; by_contra hcD; have := hD hcD; omega
      · intro h
        simp only [decide_eq_true_iff] at h
        subst h
        exact ⟨by omega, by rw [val_unsigned hs]; omega⟩
    · have hneg : PInt.isNeg t T = decide (B t.bits ≤ 2 * T) := by simp [PInt.isNeg, hs]
      rw [hneg]
      by_cases hsn : B t.bits ≤ 2 * T
      · simp only [hsn, decide_true, if_true]
        refine ConvOkP.none ?_
        simp only [repOf, hs, if_true, repS]
        omega
      · simp only [hsn, decide_false, Bool.false_eq_true, if_false, Outcome.bind_ok]
        refine ConvOkP.of_dec _ _ ?_ ?_
        · simp only [decide_eq_true_iff, repOf, hs, if_true, repS]
          constructor
          · intro h; subst h; omega
          · intro h
            rcases hcase with h' | h'
            · exact hEM h'
            · have := hEc h'; by_contra hcD; have := hD hcD; omega
        · intro h
          simp only [decide_eq_true_iff] at h
          subst h
          refine ⟨by omega, ?_⟩
          rw [val_signed hs, toInt_of_lt (by omega)]; omega

theorem mod_of_top {bw bk d : Nat} (hdvd : bk ∣ bw) (h1 : bw - bk ≤ d) (h2 : d < bw) :
    d % bk = d - (bw - bk) := by
  obtain ⟨q, rfl⟩ := hdvd
  have hq : 0 < q := by
    rcases q with _ | q
    · simp at h2
    · omega
  obtain ⟨q', rfl⟩ : ∃ q', q = q' + 1 := ⟨q - 1, by omega⟩
  have e : bk * (q' + 1) - bk = bk * q' := by rw [Nat.mul_add]; omega
  rw [e] at h1 ⊢
  have : d = bk * q' + (d - bk * q') := by omega
  rw [Nat.mul_add] at h2
  conv_lhs => rw [this]
  rw [Nat.mul_add_mod, Nat.mod_eq_of_lt (by omega)]

/-- C13: `TryFrom<BInt<N>> for iK` (`int_try_from_bint!`), non-negative source -/
theorem II.tryToPrimSigned_nonneg {w n : Nat} {x : List Nat} (t : PTy) (hw : 1 ≤ w) (hn : 1 ≤ n)
    (hk : 1 ≤ t.bits) (hs : t.signed = true) (hdiv : t.bits < w ∨ ∃ c, t.bits = c * w)
    (hx : WF w n x) (hnn : 0 ≤ S w x) : ConvOkP t (II.tryToPrimSigned w x t) (S w x) := by
  unfold II.tryToPrimSigned
  dsimp only
  have hBe : B t.bits = 2 * (B t.bits / 2) := B_even hk
  have hneg : isNegative w x = false := (isNegative_false_iff hw hn hx).2 hnn
  rw [S_of_nonneg hx hnn, hneg]
  simp only [Bool.false_eq_true, if_false]
  have hisneg : ∀ q, PInt.isNeg t q = decide (B t.bits ≤ 2 * q) := by
    intro q; simp [PInt.isNeg, hs]
  by_cases hwk : w > t.bits
  · rw [if_pos hwk]
    have hBB := B_lt_B hwk
    obtain ⟨h1, h2, h3, h4, _, _⟩ := split_at hx (show 1 ≤ n by omega)
    have hz := restAll_zero hx (show 1 ≤ n by omega)
    have hlen : 0 < x.length := by rw [hx.1]; omega
    have ht : U w (x.take 1) = x.getD 0 0 := by
      rw [take_succ_getD x hlen]; simp
    rw [idx_getD hlen, Outcome.bind_ok, hz]
    rw [ht] at h1 h2
    rw [Nat.pow_one] at h1 h2
    generalize x.getD 0 0 = d0 at *
    generalize U w (x.drop 1) = D at *
    have hD : D ≠ 0 → B w ≤ B w * D := fun h => Nat.le_mul_of_pos_right _ (by omega)
    have hsm : PInt.cast w false t.bits d0 = d0 % B t.bits := cast_trunc _ _ (by omega)
    have hmod := Nat.mod_lt d0 (B_pos t.bits)
    have hmd := Nat.mod_add_div d0 (B t.bits)
    rw [hsm]
    generalize hsmall : d0 % B t.bits = small at *
    have hsd : d0 < B t.bits → small = d0 := fun h => by rw [← hsmall]; exact Nat.mod_eq_of_lt h
    have hds : B t.bits ≤ d0 → small ≠ d0 := fun h => by omega
    have htr : PInt.cast t.bits t.signed w small
        = if B t.bits ≤ 2 * small then small + (B w - B t.bits) else small := by
      unfold PInt.cast
      rw [if_neg (by omega), hs]
      by_cases h : B t.bits ≤ 2 * small <;> simp [h]
    rw [htr, hisneg]
    by_cases hsn : B t.bits ≤ 2 * small
    · have hnr : ¬ repOf t.signed (B t.bits) (U w x : Int) := by
        simp only [repOf, hs, if_true, repS]
        by_cases hc : D = 0
        · subst hc; omega
        · have := hD hc; omega
      simp only [hsn, if_true, decide_true]
      split
      · exact ConvOkP.none hnr
      · simp only [Outcome.bind_ok]
        split
        · exact ConvOkP.none hnr
        · simp only [Bool.true_bne, Bool.not_false, if_true]
          exact ConvOkP.none hnr
    · simp only [hsn, if_false, decide_false, Outcome.bind_ok]
      by_cases hd : d0 < B t.bits
      · have := hsd hd
        subst this
        simp only [bne_self_eq_false, Bool.false_eq_true, if_false]
        by_cases hD0 : D = 0
        · subst hD0
          simp only [decide_true, Bool.not_true, Bool.false_eq_true, if_false]
          refine ConvOkP.some ?_ hd ?_
          · simp only [repOf, hs, if_true, repS]; omega
          · rw [val_signed hs, toInt_of_lt (by omega)]; omega
        · simp only [hD0, decide_false, Bool.not_false, if_true]
          refine ConvOkP.none ?_
          simp only [repOf, hs, if_true, repS]
          have := hD hD0; omega
      · have hne : (d0 != small) = true := by
          simp only [bne_iff_ne, ne_eq]; exact fun h => hds (by omega) h.symm
        rw [if_pos hne]
        refine ConvOkP.none ?_
        simp only [repOf, hs, if_true, repS]
        by_cases hc : D = 0
        · subst hc; omega
        · have := hD hc; omega
  · rw [if_neg hwk]
    obtain ⟨c, hc⟩ := hdiv.resolve_left (by omega)
    obtain ⟨i', h1, _, h3, h4, h5⟩ := asmOrLoop_spec (k := t.bits) hx x.length 0 (by rw [hx.1]; rfl)
    simp only [List.take_zero, U_nil, Nat.zero_mod] at h1
    rw [h1, Outcome.bind_ok]
    dsimp only
    rw [hc] at h4 h5
    obtain ⟨hic, hcase⟩ := asm_stop hw h4 (fun j hj => h5 j (by omega) hj)
    obtain ⟨e1, e2, e3, e4, _, _⟩ := split_at hx h3
    have hE : B w ^ i' ≤ B t.bits := by rw [hc, B_mul]; exact B_pow_le hic
    rw [Nat.mod_eq_of_lt (show U w (x.take i') < B t.bits by omega), restAll_zero hx h3, hisneg]
    have hEM : i' = n → U w (x.drop i') = 0 := by
      intro h; rw [h, Nat.sub_self, M_zero] at e3; rw [h]; omega
    have hEc : i' = c → B w ^ i' = B t.bits := by
      intro h; rw [hc, B_mul, h]
    generalize U w (x.take i') = T at *
    generalize U w (x.drop i') = D at *
    generalize B w ^ i' = E at *
    have hD : D ≠ 0 → E ≤ E * D := fun h => Nat.le_mul_of_pos_right _ (by omega)
    simp only [Outcome.bind_ok]
    by_cases hD0 : D = 0
    · subst hD0
      simp only [decide_true, Bool.not_true, Bool.false_eq_true, if_false]
      by_cases hsn : B t.bits ≤ 2 * T
      · simp only [hsn, decide_true, Bool.true_bne, Bool.not_false, if_true]
        refine ConvOkP.none ?_
        simp only [repOf, hs, if_true, repS]; omega
      · simp only [hsn, decide_false, bne_self_eq_false, Bool.false_eq_true, if_false]
        refine ConvOkP.some ?_ (by omega) ?_
        · simp only [repOf, hs, if_true, repS]; omega
        · rw [val_signed hs, toInt_of_lt (by omega)]; omega
    · simp only [hD0, decide_false, Bool.not_false, if_true]
      refine ConvOkP.none ?_
      simp only [repOf, hs, if_true, repS]
      rcases hcase with h' | h'
      · exact absurd (hEM h') hD0
      · have := hEc h'; have := hD hD0; omega

theorem B_dvd_B {a b : Nat} (h : a ≤ b) : B a ∣ B b := Nat.pow_dvd_pow _ h

/-- C13: `TryFrom<BInt<N>> for iK` (`int_try_from_bint!`), negative source -/
theorem II.tryToPrimSigned_neg {w n : Nat} {x : List Nat} (t : PTy) (hw : 1 ≤ w) (hn : 1 ≤ n)
    (hk : 1 ≤ t.bits) (hs : t.signed = true) (hdiv : t.bits < w ∨ ∃ c, t.bits = c * w)
    (hx : WF w n x) (hlt : S w x < 0) : ConvOkP t (II.tryToPrimSigned w x t) (S w x) := by
  unfold II.tryToPrimSigned
  dsimp only
  have hBe : B t.bits = 2 * (B t.bits / 2) := B_even hk
  have hneg : isNegative w x = true := (isNegative_iff' hw hn hx).2 hlt
  have hSx := S_of_neg hx hlt
  have hR := U_lt hx
  rw [hneg]
  simp only [if_true]
  have hisneg : ∀ q, PInt.isNeg t q = decide (B t.bits ≤ 2 * q) := by
    intro q; simp [PInt.isNeg, hs]
  by_cases hwk : w > t.bits
  · rw [if_pos hwk]
    have hBB := B_lt_B hwk
    obtain ⟨h1, h2, h3, h4, _, _⟩ := split_at hx (show 1 ≤ n by omega)
    have hz := restAll_max hx (show 1 ≤ n by omega)
    have hlen : 0 < x.length := by rw [hx.1]; omega
    have ht : U w (x.take 1) = x.getD 0 0 := by
      rw [take_succ_getD x hlen]; simp
    rw [idx_getD hlen, Outcome.bind_ok, hz]
    rw [ht] at h1 h2
    rw [Nat.pow_one] at h1 h2 h4
    have hM' := M_pos w (n - 1)
    generalize x.getD 0 0 = d0 at *
    generalize U w (x.drop 1) = D at *
    generalize M w (n - 1) = M' at *
    have hD1 : D = M' - 1 → B w * D + B w = B w * M' := by
      intro h; subst h
      obtain ⟨m, rfl⟩ : ∃ m, M' = m + 1 := ⟨M' - 1, by omega⟩
      rw [Nat.add_sub_cancel, Nat.mul_add, Nat.mul_one]
    have hD2 : D ≠ M' - 1 → B w * D + 2 * B w ≤ B w * M' := by
      intro h
      have : B w * (D + 2) ≤ B w * M' := Nat.mul_le_mul_left _ (by omega)
      rw [Nat.mul_add] at this; omega
    have hsm : PInt.cast w false t.bits d0 = d0 % B t.bits := cast_trunc _ _ (by omega)
    have hmod := Nat.mod_lt d0 (B_pos t.bits)
    have hmd := Nat.mod_add_div d0 (B t.bits)
    have htop : B w - B t.bits ≤ d0 → d0 % B t.bits = d0 - (B w - B t.bits) :=
      fun h => mod_of_top (B_dvd_B (by omega)) h h2
    rw [hsm]
    generalize hsmall : d0 % B t.bits = small at *
    have htr : PInt.cast t.bits t.signed w small
        = if B t.bits ≤ 2 * small then small + (B w - B t.bits) else small := by
      unfold PInt.cast
      rw [if_neg (by omega), hs]
      by_cases h : B t.bits ≤ 2 * small <;> simp [h]
    rw [htr, hisneg, hSx, h4, h1]
    by_cases hsn : B t.bits ≤ 2 * small
    · simp only [hsn, if_true, decide_true, bne_self_eq_false, Bool.false_eq_true, if_false]
      by_cases hd : d0 = small + (B w - B t.bits)
      · have hne : (d0 != small + (B w - B t.bits)) = false := by simp [hd]
        rw [hne]
        simp only [Bool.false_eq_true, if_false, Outcome.bind_ok]
        by_cases hDm : D = M' - 1
        · have := hD1 hDm
          have hdec : decide (D = M' - 1) = true := decide_eq_true hDm
          simp only [hdec, Bool.not_true, Bool.false_eq_true, if_false]
          refine ConvOkP.some ?_ hmod ?_
          · simp only [repOf, hs, if_true, repS]; push_cast; omega
          · rw [val_signed hs, toInt_of_ge hsn]; push_cast; omega
        · have := hD2 hDm
          simp only [hDm, decide_false, Bool.not_false, if_true]
          refine ConvOkP.none ?_
          simp only [repOf, hs, if_true, repS]; push_cast; omega
      · have hne : (d0 != small + (B w - B t.bits)) = true := by simp [hd]
        rw [hne]
        simp only [if_true]
        refine ConvOkP.none ?_
        simp only [repOf, hs, if_true, repS]; push_cast
        by_cases hDm : D = M' - 1
        · have := hD1 hDm
          intro hc
          have := htop (by omega)
          omega
        · have := hD2 hDm; omega
    · -- truncation non-negative: never Ok, value below the range
      have hnr : ¬ repOf t.signed (B t.bits) ((d0 + B w * D : Nat) - (B w * M' : Nat) : Int) := by
        simp only [repOf, hs, if_true, repS]; push_cast
        by_cases hDm : D = M' - 1
        · have := hD1 hDm
          intro hc
          have := htop (by omega)
          omega
        · have := hD2 hDm; omega
      simp only [hsn, if_false, decide_false]
      split
      · exact ConvOkP.none hnr
      · simp only [Outcome.bind_ok]
        split
        · exact ConvOkP.none hnr
        · simp only [Bool.false_bne, if_true]
          exact ConvOkP.none hnr
  · rw [if_neg hwk]
    obtain ⟨c, hc⟩ := hdiv.resolve_left (by omega)
    obtain ⟨i', h1, h3, h4, h5⟩ := asmAndNotLoop_spec (k := t.bits) hx
    rw [hx.1, h1, Outcome.bind_ok]
    dsimp only
    rw [hc] at h4 h5
    obtain ⟨hic, hcase⟩ := asm_stop hw h4 h5
    obtain ⟨e1, e2, e3, e4, _, _⟩ := split_at hx h3
    have hE : B w ^ i' ≤ B t.bits := by rw [hc, B_mul]; exact B_pow_le hic
    have hT' : U w ((bnot w x).take i') = B w ^ i' - 1 - U w (x.take i') := by
      have := U_bnot (WF_take i' hx)
      rw [Nat.min_eq_left h3, M_eq_pow] at this
      rw [take_bnot, this]
    rw [hT', Nat.mod_eq_of_lt (show B w ^ i' - 1 - U w (x.take i') < B t.bits by omega),
      ← hx.1, restAll_max hx h3, hisneg, hSx, e4, e1]
    have hEM : i' = n → M w (n - i') = 1 := by
      intro h; rw [h, Nat.sub_self, M_zero]
    have hEc : i' = c → B w ^ i' = B t.bits := by
      intro h; rw [hc, B_mul, h]
    have hM' := M_pos w (n - i')
    have hEpos : 0 < B w ^ i' := Nat.pow_pos (B_pos w)
    generalize U w (x.take i') = T at *
    generalize U w (x.drop i') = D at *
    generalize B w ^ i' = E at *
    generalize M w (n - i') = M' at *
    have hD1 : D = M' - 1 → E * D + E = E * M' := by
      intro h; subst h
      obtain ⟨m, rfl⟩ : ∃ m, M' = m + 1 := ⟨M' - 1, by omega⟩
      rw [Nat.add_sub_cancel, Nat.mul_add, Nat.mul_one]
    have hD2 : D ≠ M' - 1 → E * D + 2 * E ≤ E * M' := by
      intro h
      have : E * (D + 2) ≤ E * M' := Nat.mul_le_mul_left _ (by omega)
      rw [Nat.mul_add] at this; omega
    have hout : Prim.not t.bits (E - 1 - T) = B t.bits - E + T := by
      unfold Prim.not; omega
    rw [hout]
    simp only [Outcome.bind_ok]
    by_cases hDm : D = M' - 1
    · have := hD1 hDm
      have hdec : decide (D = M' - 1) = true := decide_eq_true hDm
      simp only [hdec, Bool.not_true, Bool.false_eq_true, if_false]
      by_cases hsn : B t.bits ≤ 2 * (B t.bits - E + T)
      · simp only [hsn, decide_true, bne_self_eq_false, Bool.false_eq_true, if_false]
        refine ConvOkP.some ?_ (by omega) ?_
        · simp only [repOf, hs, if_true, repS]; push_cast; omega
        · rw [val_signed hs, toInt_of_ge hsn]; push_cast; omega
      · simp only [hsn, decide_false, Bool.false_bne, if_true]
        refine ConvOkP.none ?_
        simp only [repOf, hs, if_true, repS]; push_cast; omega
    · have := hD2 hDm
      simp only [hDm, decide_false, Bool.not_false, if_true]
      refine ConvOkP.none ?_
      simp only [repOf, hs, if_true, repS]; push_cast
      rcases hcase with h' | h'
      · have := hEM h'; omega
      · have := hEc h'; omega

/-- C13: `TryFrom<BInt<N>> for iK` -/
theorem II.tryToPrimSigned_spec {w n : Nat} {x : List Nat} (t : PTy) (hw : 1 ≤ w) (hn : 1 ≤ n)
    (hk : 1 ≤ t.bits) (hs : t.signed = true) (hdiv : t.bits < w ∨ ∃ c, t.bits = c * w)
    (hx : WF w n x) : ConvOkP t (II.tryToPrimSigned w x t) (S w x) := by
  by_cases h : S w x < 0
  · exact II.tryToPrimSigned_neg t hw hn hk hs hdiv hx h
  · exact II.tryToPrimSigned_nonneg t hw hn hk hs hdiv hx (by omega)

/-- C13: `TryFrom<BInt<N>> for uK` (`uint_try_from_bint!`) -/
theorem II.tryToPrimUnsigned_spec {w n : Nat} {x : List Nat} (t : PTy) (hw : 1 ≤ w) (hn : 1 ≤ n)
    (hk : 1 ≤ t.bits) (hs : t.signed = false) (hdiv : t.bits < w ∨ ∃ c, t.bits = c * w)
    (hx : WF w n x) : ConvOkP t (II.tryToPrimUnsigned w x t) (S w x) := by
  unfold II.tryToPrimUnsigned II.toBits
  rw [isNegative_eq_decide hw hn hx]
  by_cases h : S w x < 0
  · simp only [h, decide_true, if_true]
    refine ConvOkP.none ?_
    simp only [repOf, hs, Bool.false_eq_true, if_false, repU]; omega
  · simp only [h, decide_false, Bool.false_eq_true, if_false]
    rw [S_of_nonneg hx (by omega)]
    exact UI.tryToPrim_spec t hw hn hk hdiv hx

theorem II.tryToPrim_spec {w n : Nat} {x : List Nat} (t : PTy) (hw : 1 ≤ w) (hn : 1 ≤ n)
    (hk : 1 ≤ t.bits) (hdiv : t.bits < w ∨ ∃ c, t.bits = c * w) (hx : WF w n x) :
    ConvOkP t (II.tryToPrim w x t) (S w x) := by
  unfold II.tryToPrim
  cases hs : t.signed
  · simp only [Bool.false_eq_true, if_false]
    exact II.tryToPrimUnsigned_spec t hw hn hk hs hdiv hx
  · simp only [if_true]
    exact II.tryToPrimSigned_spec t hw hn hk hs hdiv hx

/-- C13: every `TryFrom<bnum> for primitive` -/
theorem tryToPrim_spec {w n : Nat} {x : List Nat} (s : Bool) (t : PTy) (hw : 1 ≤ w) (hn : 1 ≤ n)
    (hk : 1 ≤ t.bits) (hdiv : t.bits < w ∨ ∃ c, t.bits = c * w) (hx : WF w n x) :
    ConvOkP t (tryToPrim w s x t) (valOf s w x) := by
  unfold tryToPrim valOf
  cases s
  · simp only [Bool.false_eq_true, if_false]
    exact UI.tryToPrim_spec t hw hn hk hdiv hx
  · simp only [if_true]
    exact II.tryToPrim_spec t hw hn hk hdiv hx

/-- C13: `From<bool>` -/
theorem fromBool_spec {w n : Nat} (hw : 2 ≤ w) (hn : 1 ≤ n) (b : Bool) :
    II.fromBool n b = UI.fromBool n b ∧ WF w n (UI.fromBool n b)
    ∧ U w (UI.fromBool n b) = b.toNat ∧ S w (UI.fromBool n b) = b.toNat := by
  have h := UI.castFromBool_spec (w := w) (by omega) hn b
  refine ⟨rfl, h.1, h.2, ?_⟩
  unfold UI.fromBool UI.castFromBool
  cases b
  · simpa using S_zero w n
  · simpa using S_one hw hn

/-- C13: `From<char> for BUint<N>` whenever the code point fits (always when `BITS ≥ 32`;
    for every valid `char` when `BITS ≥ 21`) -/
theorem UI.fromChar_spec {w n c : Nat} (hn : 1 ≤ n) (hc : c < B 32) (hcM : c < M w n) :
    FromOk false w n (UI.fromChar w n c) (c : Int) := by
  obtain ⟨r, h1, h2, h3⟩ := UI.castFromChar_spec (w := w) hn hc
  refine ⟨r, h1, h2, ?_⟩
  simp only [valOf, Bool.false_eq_true, if_false]
  rw [h3, wrapU_nat_of_lt hcM]

/-- C13: `from_digit` -/
theorem UI.fromDigitO_spec {w n d : Nat} (hn : 1 ≤ n) :
    UI.fromDigitO n d = .ok (fromDigit n d) ∧ U w (fromDigit n d) = d := by
  refine ⟨?_, U_fromDigit d hn⟩
  obtain ⟨k, rfl⟩ : ∃ k, n = k + 1 := ⟨n - 1, by omega⟩
  simp [UI.fromDigitO, upd, zero, fromDigit, List.replicate_succ]

end Bnum
