/-
  Bnum.Lemmas.C01Extra — helper lemmas for the "projection" theorems of Props/C01.lean:
  a well-formed digit list is determined by its two's-complement value, hence `BInt::wrapping_add` /
  `wrapping_sub` (computed by the *unsigned* adder on the bit patterns) return exactly the first component
  of `BInt::overflowing_add` / `overflowing_sub` (computed by the signed loop);
  and the side on which the exact result of the mixed-sign / unary forms leaves the range.
-/
import Bnum.Lemmas.AddSub2

namespace Bnum

/-- two well-formed `n`-digit lists with the same two's-complement value are the same list -/
theorem S_injective {w n : Nat} {x y : List Nat} (hx : WF w n x) (hy : WF w n y)
    (h : S w x = S w y) : x = y := by
  apply U_injective hx hy
  have hx' := S_emod hx
  have hy' := S_emod hy
  rw [h] at hx'
  have : (U w x : Int) = (U w y : Int) := by rw [← hx', ← hy']
  exact_mod_cast this

namespace II

/-- `BInt::wrapping_add` (unsigned adder on the patterns) = `.0` of `BInt::overflowing_add` (signed loop) -/
theorem wrappingAdd_eq_proj {w n : Nat} {a b : List Nat} (hw : 2 ≤ w) (hn : 1 ≤ n)
    (ha : WF w n a) (hb : WF w n b) :
    wrappingAdd w a b = (overflowingAdd w a b).1 := by
  obtain ⟨h1, h2⟩ := wrappingAdd_spec ha hb
  obtain ⟨h3, h4, _⟩ := (overflowingAdd_spec hw hn ha hb).expand
  exact S_injective h1 h3 (h2.trans h4.symm)

/-- `BInt::wrapping_sub` = `.0` of `BInt::overflowing_sub` -/
theorem wrappingSub_eq_proj {w n : Nat} {a b : List Nat} (hw : 2 ≤ w) (hn : 1 ≤ n)
    (ha : WF w n a) (hb : WF w n b) :
    wrappingSub w a b = (overflowingSub w a b).1 := by
  obtain ⟨h1, h2⟩ := wrappingSub_spec ha hb
  obtain ⟨h3, h4, _⟩ := (overflowingSub_spec hw hn ha hb).expand
  exact S_injective h1 h3 (h2.trans h4.symm)

end II

namespace II
/-- `self + rhs` with an unsigned `rhs` can only leave the range upwards (`saturating_add_unsigned` → MAX) -/
theorem addUnsigned_overflow_side {w n : Nat} {a b : List Nat} (hw : 1 ≤ w) (hn : 1 ≤ n)
    (ha : WF w n a) (hov : ¬ repS (M w n) (S w a + (U w b : Int))) :
    (M w n : Int) ≤ 2 * (S w a + (U w b : Int)) := by
  have hra := S_repS hw hn ha
  unfold repS at *
  omega

/-- `self - rhs` with an unsigned `rhs` can only leave the range downwards (`saturating_sub_unsigned` → MIN) -/
theorem subUnsigned_overflow_side {w n : Nat} {a b : List Nat} (hw : 1 ≤ w) (hn : 1 ≤ n)
    (ha : WF w n a) (hov : ¬ repS (M w n) (S w a - (U w b : Int))) :
    2 * (S w a - (U w b : Int)) < -(M w n : Int) := by
  have hra := S_repS hw hn ha
  unfold repS at *
  omega

/-- `-self` / `|self|` can only leave the range upwards (`saturating_neg`, `saturating_abs` → MAX) -/
theorem neg_overflow_side {w n : Nat} {a : List Nat} (hw : 1 ≤ w) (hn : 1 ≤ n)
    (ha : WF w n a) :
    (¬ repS (M w n) (-S w a) → (M w n : Int) ≤ 2 * (-S w a)) ∧
    (¬ repS (M w n) ((S w a).natAbs : Int) → (M w n : Int) ≤ 2 * ((S w a).natAbs : Int)) := by
  have hra := S_repS hw hn ha
  unfold repS at *
  constructor <;> intro h <;> omega
end II

namespace UI
/-- `self + rhs` with a signed `rhs` leaves the unsigned range below 0 iff `rhs` is negative
    (`saturating_add_signed` picks 0 resp. MAX by that sign) -/
theorem addSigned_overflow_side {w n : Nat} {a b : List Nat} (hw : 1 ≤ w) (hn : 1 ≤ n)
    (ha : WF w n a) (hb : WF w n b) (hov : ¬ repU (M w n) ((U w a : Int) + S w b)) :
    (isNegative w b = true → (U w a : Int) + S w b < 0) ∧
    (isNegative w b = false → (M w n : Int) ≤ (U w a : Int) + S w b) := by
  have h1 := isNegative_iff' hw hn hb
  have h2 := isNegative_false_iff hw hn hb
  have hua := U_lt ha
  unfold repU at *
  exact ⟨fun h => by have := h1.1 h; omega, fun h => by have := h2.1 h; omega⟩
end UI
end Bnum
