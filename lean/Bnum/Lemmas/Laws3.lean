/-
  Bnum.Lemmas.Laws3 — helpers for Props/Laws3.lean (CROSS-MODULE laws: casts / checked conversions /
  text / bytes / floats versus arithmetic, bit operations and order).  Everything here is a corollary
  of the spec theorems in Props/C01–C20; same technique as Lemmas/Laws.lean (`Laws.Rep`: a digit list
  is determined by the residue it represents).

  section Casts  : `Dims`, `map₂`, `bind₂`, `keepIf`, `cmpOf`; `cast_ok` / `cast_eq_of_rep*` / `cast_hom`
                   (every cast returns THE list representing the source value), `tb_cast` (bit `i` of
                   any cast), `cast_val`, `cast_zext`, `convOk_eq_cast_filter`, `checked_eq_wide`,
                   `popcount_widen`, `trailingZeros_widen`, `xor_two_pow_top`, `U_xor_iMin`, …
  section Text   : `txt_*` (canonical digit strings are injective, padding without width, ASCII case)
  section Bytes  : `byt_*` (`bytesOf` is the unique `u8`-digit list with the same pattern)
  section Floats : `flt_*` (rounding is monotone, order key of float patterns, exact values)
-/
import Bnum.Lemmas.Laws
import Bnum.Props.C05
import Bnum.Props.C06
import Bnum.Props.C09
import Bnum.Props.C10
import Bnum.Props.C11
import Bnum.Props.C12
import Bnum.Props.C13
import Bnum.Props.C14
import Bnum.Props.C15
import Bnum.Props.C19
import Bnum.Lemmas.Cast
import Bnum.Props.C01
import Bnum.Props.C07
import Bnum.Props.Laws

namespace Bnum.Laws3
open Bnum

section Casts
open Bnum.Laws

/-! ### cast toolkit -/

/-- side conditions of a bnum → bnum cast (C09): digit widths and counts positive, one digit width
    divides the other -/
structure Dims (w₁ n₁ w₂ n₂ : Nat) : Prop where
  hw₁ : 1 ≤ w₁
  hw₂ : 1 ≤ w₂
  hn₁ : 1 ≤ n₁
  hn₂ : 1 ≤ n₂
  hdvd : w₁ ∣ w₂ ∨ w₂ ∣ w₁

instance (w₁ n₁ w₂ n₂ : Nat) : Decidable (Dims w₁ n₁ w₂ n₂) :=
  decidable_of_iff (1 ≤ w₁ ∧ 1 ≤ w₂ ∧ 1 ≤ n₁ ∧ 1 ≤ n₂ ∧ (w₁ ∣ w₂ ∨ w₂ ∣ w₁))
    ⟨fun ⟨a, b, c, d, e⟩ => ⟨a, b, c, d, e⟩, fun ⟨a, b, c, d, e⟩ => ⟨a, b, c, d, e⟩⟩

theorem Dims.symm {w₁ n₁ w₂ n₂ : Nat} (d : Dims w₁ n₁ w₂ n₂) : Dims w₂ n₂ w₁ n₁ :=
  ⟨d.hw₂, d.hw₁, d.hn₂, d.hn₁, d.hdvd.symm⟩
theorem Dims.refl {w n : Nat} (hw : 1 ≤ w) (hn : 1 ≤ n) : Dims w n w n :=
  ⟨hw, hw, hn, hn, Or.inl (Nat.dvd_refl w)⟩

/-- `f` applied to two outcomes (panics if either does) -/
def map₂ {α β γ : Type} (f : α → β → γ) (oa : Outcome α) (ob : Outcome β) : Outcome γ :=
  oa.bind fun a => ob.bind fun b => .ok (f a b)

@[simp] theorem map₂_ok {α β γ : Type} (f : α → β → γ) (a : α) (b : β) :
    map₂ f (.ok a) (.ok b) = .ok (f a b) := rfl
@[simp] theorem bind_ok {α β : Type} (a : α) (f : α → Outcome β) : (Outcome.ok a).bind f = f a := rfl
@[simp] theorem map_ok {α β : Type} (a : α) (f : α → β) : (Outcome.ok a).map f = .ok (f a) := rfl

variable {w₁ n₁ w₂ n₂ : Nat} {s₁ s₂ : Bool}

theorem rep_valOf {w n : Nat} {x : List Nat} (s : Bool) (hx : WF w n x) : Rep w n x (valOf s w x) := by
  cases s
  · exact rep_U hx
  · exact rep_S hx

/-- a list representing `z` in a type where `z` is representable denotes `z` -/
theorem valOf_of_rep {w n : Nat} {r : List Nat} {z : Int} {s : Bool} (hr : Rep w n r z)
    (hz : repOf s (M w n) z) : valOf s w r = z := by
  have hM := M_pos w n
  cases s
  · simp only [valOf, repOf, Bool.false_eq_true, if_false] at hz ⊢
    rw [hr.2, Int.emod_eq_of_lt hz.1 hz.2]
  · simp only [valOf, repOf, if_true] at hz ⊢
    rw [S_eq hr.1]
    exact toInt_eq_of_emod hM (U_lt hr.1) hz hr.2.symm

theorem emod_of_dvd {a b : Int} {m₁ m₂ : Nat} (hd : m₂ ∣ m₁) (h : a % (m₁ : Int) = b % (m₁ : Int)) :
    a % (m₂ : Int) = b % (m₂ : Int) := by
  have hd' : (m₂ : Int) ∣ (m₁ : Int) := Int.natCast_dvd_natCast.mpr hd
  rw [← Int.emod_emod_of_dvd a hd', h, Int.emod_emod_of_dvd b hd']

/-- every cast returns the list that represents the source value in the target type -/
theorem cast_ok (d : Dims w₁ n₁ w₂ n₂) (s₁ s₂ : Bool) {x : List Nat} (hx : WF w₁ n₁ x) :
    ∃ r, castBnum w₁ s₁ x w₂ n₂ s₂ = .ok r ∧ Rep w₂ n₂ r (valOf s₁ w₁ x) := by
  obtain ⟨r, h1, h2, h3⟩ := C09.cast_bnum s₁ s₂ d.hw₁ d.hw₂ d.hn₁ d.hn₂ d.hdvd hx
  exact ⟨r, h1, rep_wrapU h2 (by rw [h3])⟩

/-- … and that list is unique -/
theorem cast_eq_of_rep (d : Dims w₁ n₁ w₂ n₂) (s₁ s₂ : Bool) {x r : List Nat} (hx : WF w₁ n₁ x)
    (hr : Rep w₂ n₂ r (valOf s₁ w₁ x)) : castBnum w₁ s₁ x w₂ n₂ s₂ = .ok r := by
  obtain ⟨r', h1, h2⟩ := cast_ok d s₁ s₂ hx
  rw [h1, eq_of_rep' h2 hr rfl]

/-- narrowing (or equal-width) cast of a list that represents `z` modulo the SOURCE modulus -/
theorem cast_eq_of_rep_narrow (d : Dims w₁ n₁ w₂ n₂) (s₁ s₂ : Bool) (hle : w₂ * n₂ ≤ w₁ * n₁)
    {x r : List Nat} {z : Int} (hx : Rep w₁ n₁ x z) (hr : Rep w₂ n₂ r z) :
    castBnum w₁ s₁ x w₂ n₂ s₂ = .ok r := by
  apply cast_eq_of_rep d s₁ s₂ hx.1
  refine hr.congr (emod_of_dvd (M_dvd_of_le hle) ?_)
  have := (rep_valOf s₁ hx.1).2
  rw [← hx.2, ← this]

/-- widening cast of a list that represents `z`, when `z` is representable in the source type -/
theorem cast_eq_of_rep_exact (d : Dims w₁ n₁ w₂ n₂) (s₁ s₂ : Bool)
    {x r : List Nat} {z : Int} (hx : Rep w₁ n₁ x z) (hz : repOf s₁ (M w₁ n₁) z)
    (hr : Rep w₂ n₂ r z) : castBnum w₁ s₁ x w₂ n₂ s₂ = .ok r := by
  apply cast_eq_of_rep d s₁ s₂ hx.1
  rw [valOf_of_rep hx hz]; exact hr

theorem repOf_valOf {w n : Nat} {x : List Nat} (s : Bool) (hw : 1 ≤ w) (hn : 1 ≤ n) (hx : WF w n x) :
    repOf s (M w n) (valOf s w x) := by
  cases s
  · simp only [valOf, repOf, Bool.false_eq_true, if_false]
    have := U_lt hx; constructor <;> omega
  · simp only [valOf, repOf, if_true]
    rw [S_eq hx]; exact toInt_repS (M_even hw hn) (U_lt hx)

theorem repU_mono {m m' : Nat} {z : Int} (h : m ≤ m') (hz : repU m z) : repU m' z := by
  unfold repU at *; omega
theorem repS_mono {m m' : Nat} {z : Int} (h : m ≤ m') (hz : repS m z) : repS m' z := by
  unfold repS at *; omega
theorem repOf_mono {s : Bool} {m m' : Nat} {z : Int} (h : m ≤ m') (hz : repOf s m z) : repOf s m' z := by
  cases s
  · exact repU_mono h hz
  · exact repS_mono h hz

theorem testBit_top {k u : Nat} (hu : u < 2 ^ (k + 1)) : u.testBit k = decide (2 ^ k ≤ u) := by
  rw [Nat.testBit_eq_decide_div_mod_eq]
  have hk := Nat.two_pow_pos k
  have h2 : u / 2 ^ k < 2 := by
    rw [Nat.div_lt_iff_lt_mul hk, Nat.mul_comm, ← Nat.pow_succ]; exact hu
  by_cases h : 2 ^ k ≤ u
  · have : 1 ≤ u / 2 ^ k := (Nat.le_div_iff_mul_le hk).mpr (by omega)
    simp [h]; omega
  · have : u / 2 ^ k = 0 := Nat.div_eq_of_lt (by omega)
    simp [h, this]

/-- bit `i` of the pattern of a two's-complement value re-read in another width: truncation below
    the target width, the source bit where there is one, the sign bit above -/
theorem testBit_wrapU_toInt {W₁ W₂ u : Nat} (hW : 1 ≤ W₁) (hu : u < 2 ^ W₁) (i : Nat) :
    (wrapU (2 ^ W₂) (toInt (2 ^ W₁) u)).testBit i
      = (decide (i < W₂) && (if i < W₁ then u.testBit i else u.testBit (W₁ - 1))) := by
  obtain ⟨k, rfl⟩ : ∃ k, W₁ = k + 1 := ⟨W₁ - 1, by omega⟩
  simp only [Nat.add_sub_cancel]
  rw [testBit_top hu]
  have hp : 2 ^ (k + 1) = 2 * 2 ^ k := by rw [Nat.pow_succ]; omega
  have hhigh : ∀ j, ¬ j < k + 1 → u.testBit j = false := fun j hj =>
    Nat.testBit_lt_two_pow (Nat.lt_of_lt_of_le hu (Nat.pow_le_pow_right (by decide) (by omega)))
  by_cases hneg : 2 ^ k ≤ u
  · by_cases hle : W₂ ≤ k + 1
    · rw [wrapU_toInt_dvd (Nat.two_pow_pos _) (Nat.pow_dvd_pow 2 hle), Nat.testBit_mod_two_pow]
      by_cases hi : i < W₂
      · simp [hi, show i < k + 1 by omega]
      · simp [hi]
    · have hle' : 2 ^ (k + 1) ≤ 2 ^ W₂ := Nat.pow_le_pow_right (by decide) (by omega)
      rw [wrapU_toInt_le hu hle', if_neg (by omega)]
      have e : u + 2 ^ W₂ - 2 ^ (k + 1) = 2 ^ (k + 1) * (2 ^ (W₂ - (k + 1)) - 1) + u := by
        have : 2 ^ W₂ = 2 ^ (k + 1) * 2 ^ (W₂ - (k + 1)) := by
          rw [← Nat.pow_add]; congr 1; omega
        rw [Nat.mul_sub, Nat.mul_one, ← this]; omega
      rw [e, Nat.testBit_two_pow_mul_add _ hu, Nat.testBit_two_pow_sub_one]
      by_cases hi : i < k + 1
      · simp [hi, show i < W₂ by omega]
      · simp only [hi, if_false, hneg, decide_true, Bool.and_true]
        congr 1; apply propext; omega
  · have hlt : 2 * u < 2 ^ (k + 1) := by omega
    rw [toInt_of_lt hlt, wrapU_natCast, Nat.testBit_mod_two_pow]
    by_cases hi : i < k + 1
    · simp [hi]
    · simp [hi, hneg, hhigh i hi]

variable {w₁ n₁ w₂ n₂ : Nat}

/-- bit `i` of ANY bnum → bnum cast (truncation, zero- or sign-extension, any digit widths) -/
theorem tb_cast (d : Dims w₁ n₁ w₂ n₂) (s₁ s₂ : Bool) {x r : List Nat} (hx : WF w₁ n₁ x)
    (hr : castBnum w₁ s₁ x w₂ n₂ s₂ = .ok r) (i : Nat) :
    WF w₂ n₂ r ∧ (U w₂ r).testBit i = (decide (i < w₂ * n₂) &&
      (if i < w₁ * n₁ then (U w₁ x).testBit i else (s₁ && (U w₁ x).testBit (w₁ * n₁ - 1)))) := by
  obtain ⟨r', h1, h2, h3⟩ := C09.cast_bnum s₁ s₂ d.hw₁ d.hw₂ d.hn₁ d.hn₂ d.hdvd hx
  rw [hr] at h1; cases h1
  refine ⟨h2, ?_⟩
  rw [h3]
  have hu : U w₁ x < 2 ^ (w₁ * n₁) := U_lt hx
  cases s₁
  · simp only [valOf, Bool.false_eq_true, if_false, Bool.false_and]
    rw [wrapU_natCast]; unfold M; rw [Nat.testBit_mod_two_pow]
    by_cases hi : i < w₁ * n₁
    · simp [hi]
    · simp [hi, tb_high hx hi]
  · simp only [valOf, if_true, Bool.true_and]
    rw [S_eq hx]; unfold M
    exact testBit_wrapU_toInt (Nat.mul_pos d.hw₁ d.hn₁) hu i

/-- the cast of a list representing `z`: narrowing / equal width, or `z` representable in the source -/
theorem cast_hom (d : Dims w₁ n₁ w₂ n₂) (s₁ s₂ : Bool) {x r : List Nat} {z : Int}
    (hx : Rep w₁ n₁ x z) (hr : Rep w₂ n₂ r z)
    (h : w₂ * n₂ ≤ w₁ * n₁ ∨ repOf s₁ (M w₁ n₁) z) : castBnum w₁ s₁ x w₂ n₂ s₂ = .ok r := by
  rcases h with h | h
  · exact cast_eq_of_rep_narrow d s₁ s₂ h hx hr
  · exact cast_eq_of_rep_exact d s₁ s₂ hx h hr

/-- `unbounded_shl` multiplies by `2^s` modulo `2^BITS`, for EVERY `s` -/
theorem rep_ushl {w n : Nat} {a : List Nat} {za : Int} (hw : 1 ≤ w) (ha : Rep w n a za) (s : Nat) :
    Rep w n (UI.unboundedShl w a s) (za * 2 ^ s) := by
  obtain ⟨h1, h2⟩ := C05.u_unbounded_shl (s := s) hw ha.1
  have : Rep w n (UI.unboundedShl w a s) (((U w a * 2 ^ s : Nat) : Int)) := by
    refine rep_nat h1 ?_
    rw [h2]; split
    · rfl
    · rename_i hs
      have : M w n ∣ 2 ^ s := by unfold M; exact Nat.pow_dvd_pow 2 (by omega)
      exact (Nat.mod_eq_zero_of_dvd (Dvd.dvd.mul_left this _)).symm
  refine this.congr ?_
  push_cast
  exact emod_mul_congr ha.U_emod rfl

/-- a cast into a type that can represent the source value returns a list denoting that value -/
theorem cast_val (d : Dims w₁ n₁ w₂ n₂) (s₁ s₂ : Bool) {x : List Nat} (hx : WF w₁ n₁ x)
    (hrep : repOf s₂ (M w₂ n₂) (valOf s₁ w₁ x)) :
    ∃ r, castBnum w₁ s₁ x w₂ n₂ s₂ = .ok r ∧ WF w₂ n₂ r ∧ valOf s₂ w₂ r = valOf s₁ w₁ x := by
  obtain ⟨r, hr, rr⟩ := cast_ok d s₁ s₂ hx
  exact ⟨r, hr, rr.1, valOf_of_rep rr hrep⟩

/-- `compare` of the values, as computed by `BUint::cmp` / `BInt::cmp` -/
def cmpOf (s : Bool) (w : Nat) : List Nat → List Nat → Ordering := if s then II.cmp w else UI.cmp

theorem cmpOf_spec {w n : Nat} (s : Bool) (hw : 1 ≤ w) (hn : 1 ≤ n) {a b : List Nat} (ha : WF w n a)
    (hb : WF w n b) : cmpOf s w a b = compare (valOf s w a) (valOf s w b) := by
  cases s
  · simp only [cmpOf, valOf, Bool.false_eq_true, if_false]
    rw [C07.u_cmp_spec ha hb]
    simp only [compare, compareOfLessAndEq, Nat.cast_lt, Nat.cast_inj]
  · simp only [cmpOf, valOf, if_true]; exact C07.i_cmp_spec hw hn ha hb

theorem maxOf_spec {w n : Nat} (s : Bool) (hw : 1 ≤ w) (hn : 1 ≤ n) {a b : List Nat} (ha : WF w n a)
    (hb : WF w n b) :
    CmpImpl.max (cmpOf s w) a b = if valOf s w a ≤ valOf s w b then b else a := by
  cases s
  · simp only [cmpOf, valOf, Bool.false_eq_true, if_false, Nat.cast_le]
    exact (C07.u_max_spec ha hb).1
  · simp only [cmpOf, valOf, if_true]; exact (C07.i_max_spec hw hn ha hb).1
theorem minOf_spec {w n : Nat} (s : Bool) (hw : 1 ≤ w) (hn : 1 ≤ n) {a b : List Nat} (ha : WF w n a)
    (hb : WF w n b) :
    CmpImpl.min (cmpOf s w) a b = if valOf s w a ≤ valOf s w b then a else b := by
  cases s
  · simp only [cmpOf, valOf, Bool.false_eq_true, if_false, Nat.cast_le]
    exact (C07.u_min_spec ha hb).1
  · simp only [cmpOf, valOf, if_true]; exact (C07.i_min_spec hw hn ha hb).1

theorem fdiv_two_pow_small {z : Int} {s : Nat} (h1 : -(2 ^ s : Int) ≤ z) (h2 : z < 2 ^ s) :
    Int.fdiv z (2 ^ s) = if z < 0 then -1 else 0 := by
  have hp : (0 : Int) < 2 ^ s := by positivity
  rw [Int.fdiv_eq_ediv_of_nonneg _ (Int.le_of_lt hp)]
  split
  · rename_i hz
    have : (z + 2 ^ s) / 2 ^ s = 0 := Int.ediv_eq_zero_of_lt (by omega) (by omega)
    rw [Int.add_ediv_of_dvd_right (Int.dvd_refl _), Int.ediv_self (by omega)] at this
    omega
  · exact Int.ediv_eq_zero_of_lt (by omega) h2

/-- `BInt::unbounded_shr` is `⌊x / 2^s⌋` for EVERY amount `s` -/
theorem i_unboundedShr_val {w n : Nat} {a : List Nat} (hw : 1 ≤ w) (hn : 1 ≤ n) (ha : WF w n a)
    (s : Nat) : WF w n (II.unboundedShr w a s) ∧ S w (II.unboundedShr w a s) = Int.fdiv (S w a) (2 ^ s) := by
  obtain ⟨h1, h2⟩ := C05.i_unbounded_shr (s := s) hw hn ha
  refine ⟨h1, ?_⟩
  rw [h2]; split
  · rfl
  · rename_i hs
    have hr := repOf_valOf true hw hn ha
    simp only [repOf, valOf, if_true, repS] at hr
    have hM : (M w n : Int) ≤ 2 ^ s := by
      have : M w n ≤ 2 ^ s := by unfold M; exact Nat.pow_le_pow_right (by decide) (by omega)
      exact_mod_cast this
    rw [fdiv_two_pow_small (by omega) (by omega)]

/-- `BUint::unbounded_shr` is `⌊x / 2^s⌋` for EVERY amount `s` -/
theorem u_unboundedShr_val {w n : Nat} {a : List Nat} (hw : 1 ≤ w) (ha : WF w n a)
    (s : Nat) : WF w n (UI.unboundedShr w a s) ∧ U w (UI.unboundedShr w a s) = U w a / 2 ^ s := by
  obtain ⟨h1, h2⟩ := C05.u_unbounded_shr (s := s) hw ha
  refine ⟨h1, ?_⟩
  rw [h2]; split
  · rfl
  · rename_i hs
    have hu := U_lt ha
    have hM : M w n ≤ 2 ^ s := by unfold M; exact Nat.pow_le_pow_right (by decide) (by omega)
    exact (Nat.div_eq_of_lt (by omega)).symm

/-- a well-formed digit list is determined by the number it denotes (either signedness) -/
theorem eq_of_valOf {w n : Nat} (s : Bool) {x y : List Nat} (hx : WF w n x) (hy : WF w n y)
    (h : valOf s w x = valOf s w y) : x = y := by
  cases s
  · simp only [valOf, Bool.false_eq_true, if_false, Nat.cast_inj] at h; exact U_injective hx hy h
  · simp only [valOf, if_true] at h; exact Cmp.S_injective hx hy h

/-- `keepIf p y` — `Some y` when the check `p` holds -/
def keepIf {α : Type} (p : Prop) [Decidable p] (y : α) : Option α := if p then some y else none

/-- a checked conversion into a bnum type is the cast, kept iff it preserved the value -/
theorem convOk_eq_cast_filter {s : Bool} {w n : Nat} {o : Outcome (Option (List Nat))}
    {c : Outcome (List Nat)} {z : Int} (hw : 1 ≤ w) (hn : 1 ≤ n) (ho : ConvOk s w n o z) (hc : CastOk w n c z) :
    o = c.map (fun y => keepIf (valOf s w y = z) y) := by
  obtain ⟨r, rfl, hr, hu⟩ := hc
  have rr : Rep w n r z := rep_wrapU hr (by rw [hu])
  rw [map_ok]
  rcases ho with ⟨hrep, r', rfl, hr', hv'⟩ | ⟨hrep, rfl⟩
  · have : r' = r := eq_of_valOf s hr' hr (by rw [hv', valOf_of_rep rr hrep])
    subst this; simp [keepIf, hv']
  · have : valOf s w r ≠ z := fun h => hrep (h ▸ repOf_valOf s hw hn hr)
    simp [keepIf, this]
theorem val_of_rep {t : PTy} {z : Int} (h : repOf t.signed (B t.bits) z) :
    PInt.val t (wrapU (B t.bits) z) = z := by
  have hB := B_pos t.bits
  unfold PInt.val
  cases hs : t.signed
  · rw [hs] at h
    simp only [repOf, Bool.false_eq_true, if_false] at h ⊢
    exact wrapU_of_rep h
  · rw [hs] at h
    simp only [repOf, if_true] at h ⊢
    exact wrapS_of_rep hB h

theorem rep_val {t : PTy} {q : Nat} (hk : 1 ≤ t.bits) (hq : q < B t.bits) :
    repOf t.signed (B t.bits) (PInt.val t q) := by
  unfold PInt.val
  cases hs : t.signed
  · simp only [repOf, Bool.false_eq_true, if_false, repU]; constructor <;> omega
  · simp only [repOf, if_true]; exact toInt_repS (B_even hk) hq

/-- a checked conversion into a primitive is the `as` cast, kept iff it preserved the value -/
theorem convOkP_eq_cast_filter {t : PTy} {o : Outcome (Option Nat)} {z : Int} (hk : 1 ≤ t.bits)
    (ho : ConvOkP t o z) :
    o = (Outcome.ok (wrapU (B t.bits) z)).map (fun q => keepIf (PInt.val t q = z) q) := by
  rw [map_ok]
  rcases ho with ⟨hrep, q, rfl, hq, hv⟩ | ⟨hrep, rfl⟩
  · have e := val_of_rep hrep
    have : q = wrapU (B t.bits) z := by
      rw [← hv]; unfold PInt.val
      cases hs : t.signed
      · simp only [Bool.false_eq_true, if_false]; rw [wrapU_natCast, Nat.mod_eq_of_lt hq]
      · simp only [if_true]; exact (wrapU_toInt hq).symm
    subst this; simp [keepIf, e]
  · have : PInt.val t (wrapU (B t.bits) z) ≠ z :=
      fun h => hrep (h ▸ rep_val hk (wrapU_lt (B_pos t.bits) z))
    simp [keepIf, this]

/-- a `checked_*` result (shape of the C01/C02 `checked` specs) is `try_from` of any wide-enough
    exact computation of the same integer `z` -/
theorem checked_eq_wide {s s₂ : Bool} {o : Option (List Nat)} {z : Int} {R : List Nat}
    (d : Dims w₂ n₂ w₁ n₁)
    (hnone : o = none ↔ ¬ repOf s (M w₁ n₁) z)
    (hsome : ∀ r, o = some r → WF w₁ n₁ r ∧ valOf s w₁ r = z)
    (hR : Rep w₂ n₂ R z) (hz : repOf s₂ (M w₂ n₂) z) :
    btryFrom w₂ s₂ R w₁ n₁ s = .ok o := by
  have hv : valOf s₂ w₂ R = z := valOf_of_rep hR hz
  have h := C13.btry_from s₂ s d.hw₁ d.hw₂ d.hn₁ d.hn₂ d.hdvd hR.1
  rw [hv] at h
  rcases h with ⟨hrep, r, hr, hwr, hvr⟩ | ⟨hrep, hr⟩
  · rw [hr]; congr 1
    cases ho : o with
    | none => exact absurd hrep (hnone.mp ho)
    | some r' =>
      obtain ⟨h1, h2⟩ := hsome r' ho
      rw [eq_of_valOf s hwr h1 (hvr.trans h2.symm)]
  · rw [hr, hnone.mpr hrep]

theorem checked_eq_wide_u {s₂ : Bool} {o : Option (List Nat)} {z : Int} {R : List Nat}
    (d : Dims w₂ n₂ w₁ n₁)
    (hspec : (o = none ↔ ¬ repU (M w₁ n₁) z) ∧ ∀ r, o = some r → WF w₁ n₁ r ∧ (U w₁ r : Int) = z)
    (hR : Rep w₂ n₂ R z) (hz : repOf s₂ (M w₂ n₂) z) :
    btryFrom w₂ s₂ R w₁ n₁ false = .ok o :=
  checked_eq_wide (s := false) d hspec.1 hspec.2 hR hz

theorem checked_eq_wide_i {s₂ : Bool} {o : Option (List Nat)} {z : Int} {R : List Nat}
    (d : Dims w₂ n₂ w₁ n₁)
    (hspec : (o = none ↔ ¬ repS (M w₁ n₁) z) ∧ ∀ r, o = some r → WF w₁ n₁ r ∧ S w₁ r = z)
    (hR : Rep w₂ n₂ R z) (hz : repOf s₂ (M w₂ n₂) z) :
    btryFrom w₂ s₂ R w₁ n₁ true = .ok o :=
  checked_eq_wide (s := true) d hspec.1 hspec.2 hR hz

/-- one more bit doubles the modulus -/
theorem two_M_le {w₁ n₁ w₂ n₂ : Nat} (h : w₁ * n₁ + 1 ≤ w₂ * n₂) : 2 * M w₁ n₁ ≤ M w₂ n₂ := by
  unfold M; rw [Nat.mul_comm, ← Nat.pow_succ]; exact Nat.pow_le_pow_right (by decide) h
/-- twice the bits squares the modulus -/
theorem M_sq_le {w₁ n₁ w₂ n₂ : Nat} (h : 2 * (w₁ * n₁) ≤ w₂ * n₂) : M w₁ n₁ * M w₁ n₁ ≤ M w₂ n₂ := by
  unfold M; rw [← Nat.pow_add]; exact Nat.pow_le_pow_right (by decide) (by omega)

theorem popcount_widen : ∀ (W k v : Nat), v < 2 ^ W → Spec.popcount (W + k) v = Spec.popcount W v
  | 0, k, v, hv => by
    have : v = 0 := by simpa using hv
    subst this; simp [Bits.popcount_zero, Spec.popcount]
  | W + 1, k, v, hv => by
    have h2 : v / 2 < 2 ^ W := by rw [Nat.pow_succ] at hv; omega
    rw [show W + 1 + k = (W + k) + 1 by omega]
    simp only [Spec.popcount]
    rw [popcount_widen W k (v / 2) h2]

theorem trailingZeros_widen : ∀ (W k v : Nat), v ≠ 0 → v < 2 ^ W →
    Spec.trailingZeros (W + k) v = Spec.trailingZeros W v
  | 0, k, v, h0, hv => by have : v = 0 := by simpa using hv
                          exact absurd this h0
  | W + 1, k, v, h0, hv => by
    have h2 : v / 2 < 2 ^ W := by rw [Nat.pow_succ] at hv; omega
    rw [show W + 1 + k = (W + k) + 1 by omega]
    simp only [Spec.trailingZeros]
    by_cases h : v % 2 = 1
    · simp [h]
    · simp only [h, if_false]
      rw [trailingZeros_widen W k (v / 2) (by omega) h2]

/-- a zero-extension: well formed, same unsigned value -/
theorem cast_zext (d : Dims w₁ n₁ w₂ n₂) (s₂ : Bool) (hle : w₁ * n₁ ≤ w₂ * n₂) {a : List Nat}
    (ha : WF w₁ n₁ a) : ∃ a', castBnum w₁ false a w₂ n₂ s₂ = .ok a' ∧ WF w₂ n₂ a' ∧ U w₂ a' = U w₁ a := by
  obtain ⟨a', h1, h2⟩ := cast_ok d false s₂ ha
  refine ⟨a', h1, h2.1, ?_⟩
  have h3 : repOf false (M w₂ n₂) (valOf false w₁ a) :=
    repOf_mono (s := false) (M_le_of_le hle) (repOf_valOf false d.hw₁ d.hn₁ ha)
  have := valOf_of_rep h2 h3
  simpa [valOf] using this

/-- toggling the top bit of a `(k+1)`-bit number adds or subtracts `2^k` -/
theorem xor_two_pow_top {k u : Nat} (hu : u < 2 ^ (k + 1)) :
    u ^^^ 2 ^ k = if u < 2 ^ k then u + 2 ^ k else u - 2 ^ k := by
  have hp : 2 ^ (k + 1) = 2 * 2 ^ k := by rw [Nat.pow_succ]; omega
  apply Nat.eq_of_testBit_eq
  intro i
  rw [Nat.testBit_xor, Nat.testBit_two_pow]
  split
  · rename_i h
    have e : u + 2 ^ k = 2 ^ k * 1 + u := by omega
    rw [e, Nat.testBit_two_pow_mul_add _ h]
    by_cases hi : i < k
    · have : k ≠ i := by omega
      simp [hi, this]
    · simp only [hi, if_false]
      rw [Nat.testBit_lt_two_pow (Nat.lt_of_lt_of_le h (Nat.pow_le_pow_right (by decide) (by omega)))]
      by_cases hik : k = i
      · subst hik; simp
      · have : Nat.testBit 1 (i - k) = false :=
          Nat.testBit_lt_two_pow (Nat.one_lt_two_pow (by omega))
        simp [hik, this]
  · rename_i h
    have h' : u - 2 ^ k < 2 ^ k := by omega
    have e : u = 2 ^ k * 1 + (u - 2 ^ k) := by omega
    conv_lhs => rw [e]
    rw [Nat.testBit_two_pow_mul_add _ h']
    by_cases hi : i < k
    · have : k ≠ i := by omega
      simp [hi, this]
    · simp only [hi, if_false]
      rw [Nat.testBit_lt_two_pow (Nat.lt_of_lt_of_le h' (Nat.pow_le_pow_right (by decide) (by omega)))]
      by_cases hik : k = i
      · subst hik; simp
      · have : Nat.testBit 1 (i - k) = false :=
          Nat.testBit_lt_two_pow (Nat.one_lt_two_pow (by omega))
        simp [hik, this]

/-- `x ^ MIN` read as unsigned is the signed value of `x` shifted by `2^(BITS-1)` (offset binary) -/
theorem U_xor_iMin {w n : Nat} {a : List Nat} (hw : 1 ≤ w) (hn : 1 ≤ n) (ha : WF w n a) :
    WF w n (UI.bitxor a (iMin w n)) ∧
    (U w (UI.bitxor a (iMin w n)) : Int) = S w a + ((M w n / 2 : Nat) : Int) := by
  have hm := WF_iMin hw hn (w := w) (n := n)
  refine ⟨wf_xor ha hm, ?_⟩
  rw [(C06.logic_spec ha hm).2.2.2, U_iMin hw hn, S_eq ha]
  have hu : U w a < M w n := U_lt ha
  obtain ⟨k, hk⟩ : ∃ k, w * n = k + 1 := ⟨w * n - 1, by have := Nat.mul_pos hw hn; omega⟩
  have hM : M w n = 2 ^ (k + 1) := by unfold M; rw [hk]
  have hH : M w n / 2 = 2 ^ k := by rw [hM, Nat.pow_succ]; omega
  rw [hH, xor_two_pow_top (hM ▸ hu)]
  have hp : 2 ^ (k + 1) = 2 * 2 ^ k := by rw [Nat.pow_succ]; omega
  unfold toInt
  rw [hM, hp]
  generalize 2 ^ k = p at *
  split <;> split <;> push_cast <;> omega

/-- `bind₂ f oa ob` — `f` (which may itself panic) under two `Outcome`s -/
def bind₂ {α β γ : Type} (f : α → β → Outcome γ) (oa : Outcome α) (ob : Outcome β) : Outcome γ :=
  oa.bind fun a => ob.bind fun b => f a b

end Casts

section Text
open Bnum.Radix Bnum.Spec.Radix Bnum.Fmt Bnum.Spec.Fmt

/-- the canonical little-endian numeral determines the value -/
theorem txt_canonLE_inj {r u v : Nat} (hr : 2 ≤ r) (h : canonLE r u = canonLE r v) : u = v := by
  rw [← valueOfLE_canonLE hr u, ← valueOfLE_canonLE hr v, h]

theorem txt_canonBE_inj {r u v : Nat} (hr : 2 ≤ r) (h : canonBE r u = canonBE r v) : u = v := by
  rw [← valueOf_canonBE hr u, ← valueOf_canonBE hr v, h]

theorem txt_canonBE_lt {r v : Nat} (hr : 2 ≤ r) : ∀ d ∈ canonBE r v, d < r := by
  intro d hd; unfold canonBE at hd; exact canonLE_lt hr d (by simpa using hd)

theorem txt_canonBE_ne_nil {r : Nat} (hr : 2 ≤ r) (v : Nat) : canonBE r v ≠ [] := by
  unfold canonBE; simpa using canonLE_ne_nil hr v

/-- the canonical signed string determines the value -/
theorem txt_canonStr_inj {r : Nat} (hr : 2 ≤ r) (hr36 : r ≤ 36) {y z : Int}
    (h : canonStr r y = canonStr r z) : y = z := by
  have gy := Grammar_canonStr hr hr36 true y (Or.inl rfl)
  have gz := Grammar_canonStr hr hr36 true z (Or.inl rfl)
  rw [h, gz] at gy
  have e := Option.some.inj gy
  rw [← denote_canon hr y, ← denote_canon hr z, e]

/-- `digitChar` is injective on digits `< 36` -/
theorem txt_map_digitChar_inj : ∀ (a b : List Nat), (∀ d ∈ a, d < 36) → (∀ d ∈ b, d < 36) →
    a.map digitChar = b.map digitChar → a = b
  | [], [], _, _, _ => rfl
  | [], _ :: _, _, _, h => by simp at h
  | _ :: _, [], _, _, h => by simp at h
  | x :: a, y :: b, ha, hb, h => by
    simp only [List.map_cons, List.cons.injEq] at h
    have hx := charDigit_digitChar (ha x (by simp))
    have hy := charDigit_digitChar (hb y (by simp))
    rw [h.1, hy] at hx
    rw [Option.some.inj hx,
      txt_map_digitChar_inj a b (fun d hd => ha d (by simp [hd])) (fun d hd => hb d (by simp [hd])) h.2]


/-- `Outcome.map` with a function that is pointwise the identity -/
theorem txt_map_id {α : Type} (o : Outcome α) (f : α → α) (hf : ∀ a, f a = a) : o.map f = o := by
  cases o with
  | panic => rfl
  | ok a => simp [Outcome.map, hf]

theorem txt_map_map {α β γ : Type} (o : Outcome α) (f : α → β) (g : β → γ) :
    (o.map f).map g = o.map (fun a => g (f a)) := by
  cases o <;> rfl

theorem txt_map_congr {α β : Type} (o : Outcome α) (f g : α → β) (h : ∀ a, f a = g a) :
    o.map f = o.map g := by
  cases o with
  | panic => rfl
  | ok a => simp [Outcome.map, h]

/-- without a minimum width `pad_integral` writes sign, prefix, digits -/
theorem txt_pad_nowidth (fl : Flags) (nn : Bool) (pfx buf : List Nat) (h : fl.width = 0) :
    padIntegral fl nn pfx buf = signPrefix fl nn pfx ++ buf :=
  padIntegral_of_le fl nn pfx buf (by omega)

/-- no width, no `+`, no `#`, non-negative: the digits as they are -/
theorem txt_pad_plain (fl : Flags) (pfx buf : List Nat) (h : fl.width = 0)
    (hp : fl.signPlus = false) (ha : fl.alternate = false) : padIntegral fl true pfx buf = buf := by
  rw [txt_pad_nowidth fl true pfx buf h]; simp [signPrefix, hp, ha]

/-- ASCII uppercase of a byte (`u8::to_ascii_uppercase`) -/
def txt_asciiUpper (b : Nat) : Nat := if 97 ≤ b ∧ b ≤ 122 then b - 32 else b

theorem txt_upperChar_eq {d : Nat} (hd : d < 36) : upperChar d = txt_asciiUpper (digitChar d) := by
  unfold upperChar txt_asciiUpper digitChar; split_ifs <;> omega

theorem txt_numeralUpper_eq {r : Nat} (hr : 2 ≤ r) (hr36 : r ≤ 36) (v : Nat) :
    numeralUpper r v = (numeral r v).map txt_asciiUpper := by
  unfold numeralUpper numeral
  rw [List.map_map]
  apply List.map_congr_left
  intro d hd
  have := txt_canonBE_lt (v := v) hr d hd
  exact txt_upperChar_eq (by omega)


/-- a digit-to-character table the parser understands (`digitChar`, `upperChar`) -/
def txt_GoodTab (tab : Nat → Nat) : Prop :=
  ∀ d, d < 36 → charDigit (tab d) = some d ∧ tab d ≠ 43 ∧ tab d ≠ 45

theorem txt_goodTab_lower : txt_GoodTab digitChar :=
  fun _ hd => ⟨charDigit_digitChar hd, digitChar_range hd⟩

theorem txt_goodTab_upper : txt_GoodTab upperChar := by
  intro d hd
  unfold charDigit upperChar
  refine ⟨?_, ?_, ?_⟩
  · split_ifs <;> (congr 1; omega)
  · split <;> omega
  · split <;> omega

theorem txt_digitsOf_map {r : Nat} (hr36 : r ≤ 36) {tab : Nat → Nat} (ht : txt_GoodTab tab) :
    ∀ (ds : List Nat), (∀ d ∈ ds, d < r) → digitsOf r (ds.map tab) = some ds
  | [], _ => rfl
  | d :: ds, h => by
    have hd : d < r := h d (by simp)
    simp only [List.map_cons, digitsOf, (ht d (by omega)).1, hd, if_true,
      txt_digitsOf_map hr36 ht ds (fun e he => h e (by simp [he]))]

/-- optional `+`, then a non-empty digit string: in the grammar, non-negative -/
theorem txt_Grammar_digits {r : Nat} (hr36 : r ≤ 36) (sg : Bool) {tab : Nat → Nat}
    (ht : txt_GoodTab tab) (plus : Bool) {ds : List Nat} (hne : ds ≠ []) (hlt : ∀ d ∈ ds, d < r) :
    Grammar r sg ((if plus then [43] else []) ++ ds.map tab) = some (false, ds) := by
  have hdo := txt_digitsOf_map hr36 ht ds hlt
  match ds, hne with
  | d :: ds', _ =>
    obtain ⟨_, h43, h45⟩ := ht d (by have := hlt d (by simp); omega)
    cases plus
    · simp only [Bool.false_eq_true, if_false, List.nil_append, List.map_cons]
      simp only [List.map_cons] at hdo
      unfold Grammar
      simp only [splitSign, h43, h45, if_false, false_and]
      simp [hdo]
    · simp only [if_true, List.singleton_append]
      simp only [List.map_cons] at hdo
      unfold Grammar
      simp only [splitSign, if_true]
      simp [hdo]

/-- minus sign, then a non-empty digit string: in the signed grammar, negative -/
theorem txt_Grammar_neg {r : Nat} (hr36 : r ≤ 36) {tab : Nat → Nat}
    (ht : txt_GoodTab tab) {ds : List Nat} (hne : ds ≠ []) (hlt : ∀ d ∈ ds, d < r) :
    Grammar r true (45 :: ds.map tab) = some (true, ds) := by
  have hdo := txt_digitsOf_map hr36 ht ds hlt
  match ds, hne with
  | d :: ds', _ =>
    simp only [List.map_cons] at hdo ⊢
    unfold Grammar
    simp only [splitSign]
    simp [hdo]

/-- `from_str_radix` of (`+`)? numeral of `x`, in either letter case, is `Ok(x)` -/
theorem txt_u_parse_canon {w n r : Nat} {x : List Nat} (hn : 1 ≤ n) (hw8 : 8 ≤ w) (hw4 : 4 ∣ w)
    (hx : WF w n x) (hr : 2 ≤ r) (hr36 : r ≤ 36) {tab : Nat → Nat} (ht : txt_GoodTab tab)
    (plus : Bool) :
    UI.fromStrRadix w n ((if plus then [43] else []) ++ (canonBE r (U w x)).map tab) r
      = .ok (.ok x) := by
  have hg := txt_Grammar_digits hr36 false ht plus (txt_canonBE_ne_nil hr (U w x))
    (txt_canonBE_lt (v := U w x) hr)
  have hd : denote r (false, canonBE r (U w x)) = (U w x : Int) := by
    simp [denote, valueOf_canonBE hr]
  have hrep : repU (M w n) (denote r (false, canonBE r (U w x))) := by
    rw [hd]; have := U_lt hx; unfold repU; omega
  rw [C10.u_parse_complete hn hw8 hw4 hr hr36 hg hrep, hd, ofInt_U hx]

/-- `BInt::from_str_radix` of sign and numeral of `|x|`, in either letter case, is `Ok(x)` -/
theorem txt_i_parse_canon {s n r : Nat} {x : List Nat} (hn : 1 ≤ n) (hs3 : 3 ≤ s) (hs : s < 32)
    (hx : WF (2 ^ s) n x) (hr : 2 ≤ r) (hr36 : r ≤ 36) {tab : Nat → Nat} (ht : txt_GoodTab tab)
    (plus : Bool) :
    II.fromStrRadix (2 ^ s) n
      ((if S (2 ^ s) x < 0 then [45] else if plus then [43] else [])
        ++ (canonBE r (S (2 ^ s) x).natAbs).map tab) r = .ok (.ok x) := by
  have hne := txt_canonBE_ne_nil hr (S (2 ^ s) x).natAbs
  have hlt := txt_canonBE_lt (v := (S (2 ^ s) x).natAbs) hr
  have hw2 : 1 ≤ 2 ^ s := by have := (pow_s_facts hs3).1; omega
  have hrep : repS (M (2 ^ s) n) (denote r (decide (S (2 ^ s) x < 0), canonBE r (S (2 ^ s) x).natAbs)) := by
    rw [denote_canon hr]; exact S_repS hw2 hn hx
  have hg : Grammar r true ((if S (2 ^ s) x < 0 then [45] else if plus then [43] else [])
        ++ (canonBE r (S (2 ^ s) x).natAbs).map tab)
      = some (decide (S (2 ^ s) x < 0), canonBE r (S (2 ^ s) x).natAbs) := by
    by_cases hneg : S (2 ^ s) x < 0
    · simp only [hneg, if_true, decide_true, List.singleton_append]
      exact txt_Grammar_neg hr36 ht hne hlt
    · simp only [hneg, if_false, decide_false]
      exact txt_Grammar_digits hr36 true ht plus hne hlt
  rw [C10.i_parse_complete hn hs3 hs hr hr36 hg hrep, denote_canon hr, ofInt_S hx]


/-- `from_str_radix` of an optional `+`, any number of leading zeros, then the numeral of `x` -/
theorem txt_u_parse_zeros_canon {w n r : Nat} {x : List Nat} (hn : 1 ≤ n) (hw8 : 8 ≤ w)
    (hw4 : 4 ∣ w) (hx : WF w n x) (hr : 2 ≤ r) (hr36 : r ≤ 36) (plus : Bool) (k : Nat) :
    UI.fromStrRadix w n ((if plus then [43] else []) ++ (List.replicate k 48
      ++ (canonBE r (U w x)).map digitChar)) r = .ok (.ok x) := by
  have e : List.replicate k 48 ++ (canonBE r (U w x)).map digitChar
      = (List.replicate k 0 ++ canonBE r (U w x)).map digitChar := by
    simp [digitChar]
  have hne : List.replicate k 0 ++ canonBE r (U w x) ≠ [] := by
    have := txt_canonBE_ne_nil hr (U w x); simp [this]
  have hlt : ∀ d ∈ List.replicate k 0 ++ canonBE r (U w x), d < r := by
    intro d hd
    rcases List.mem_append.mp hd with h | h
    · have := (List.mem_replicate.mp h).2; omega
    · exact txt_canonBE_lt hr d h
  have hg := txt_Grammar_digits hr36 false txt_goodTab_lower plus hne hlt
  have hd : denote r (false, List.replicate k 0 ++ canonBE r (U w x)) = (U w x : Int) := by
    simp [denote, valueOf_replicate_zero, valueOf_canonBE hr]
  have hrep : repU (M w n) (denote r (false, List.replicate k 0 ++ canonBE r (U w x))) := by
    rw [hd]; have := U_lt hx; unfold repU; omega
  rw [e, C10.u_parse_complete hn hw8 hw4 hr hr36 hg hrep, hd, ofInt_U hx]

theorem txt_digitChar_ascii {d : Nat} (hd : d < 36) : digitChar d < 128 := by
  unfold digitChar; split <;> omega

theorem txt_upper_digit {d : Nat} (hd : d < 10) : txt_asciiUpper (digitChar d) = digitChar d := by
  unfold txt_asciiUpper digitChar; split_ifs <;> omega

theorem txt_upper_numeral10 (v : Nat) : (numeral 10 v).map txt_asciiUpper = numeral 10 v := by
  unfold numeral
  rw [List.map_map]
  apply List.map_congr_left
  intro d hd
  exact txt_upper_digit (txt_canonBE_lt (by omega) d hd)

theorem txt_upper_fixed {l : List Nat} (h : l.map txt_asciiUpper = l) (k : Nat) :
    (l.take k).map txt_asciiUpper = l.take k ∧ (l.drop k).map txt_asciiUpper = l.drop k := by
  constructor
  · rw [List.map_take, h]
  · rw [List.map_drop, h]

/-- `{:E}` text is the uppercase of the `{:e}` text -/
theorem txt_expText_upper (v : Nat) : expText 69 v = (expText 101 v).map txt_asciiUpper := by
  by_cases hv : v = 0
  · subst hv; rw [expText_zero, expText_zero]; rfl
  · have hv' : 0 < v := by omega
    rw [expText_eq hv' 69, expText_eq hv' 101]
    have h1 := txt_upper_fixed (txt_upper_numeral10 (strip (ilog10 v) v).1) 1
    simp only [List.map_append, h1.1, txt_upper_numeral10]
    congr 2
    split
    · rfl
    · simp [txt_upper_numeral10, txt_asciiUpper]


/-- ASCII lowercase of a byte (`u8::to_ascii_lowercase`) -/
def txt_asciiLower (b : Nat) : Nat := if 65 ≤ b ∧ b ≤ 90 then b + 32 else b

/-- a byte map the parser cannot see: same digit value, signs preserved and reflected -/
def txt_CaseMap (g : Nat → Nat) : Prop :=
  ∀ b, byteToDigit true (g b) = byteToDigit true b ∧ (g b = 43 ↔ b = 43) ∧ (g b = 45 ↔ b = 45)

theorem txt_caseMap_upper : txt_CaseMap txt_asciiUpper := by
  intro b
  unfold txt_asciiUpper byteToDigit
  refine ⟨?_, ?_, ?_⟩
  · simp only [if_true]; split_ifs <;> omega
  · split_ifs <;> omega
  · split_ifs <;> omega

theorem txt_caseMap_lower : txt_CaseMap txt_asciiLower := by
  intro b
  unfold txt_asciiLower byteToDigit
  refine ⟨?_, ?_, ?_⟩
  · simp only [if_true]; split_ifs <;> omega
  · split_ifs <;> omega
  · split_ifs <;> omega

theorem txt_hasInvalid_map {g : Nat → Nat} (hg : txt_CaseMap g) (r : Nat) :
    ∀ l : List Nat, hasInvalid true r (l.map g) = hasInvalid true r l
  | [] => rfl
  | b :: bs => by
    simp only [List.map_cons, hasInvalid, (hg b).1, txt_hasInvalid_map hg r bs]

theorem txt_accLoop_map {g : Nat → Nat} (hg : txt_CaseMap g) (w r : Nat) :
    ∀ (l : List Nat) (acc : Nat), accLoop w true r (l.map g) acc = accLoop w true r l acc
  | [], _ => rfl
  | b :: bs, acc => by
    simp only [List.map_cons, accLoop, (hg b).1]
    split
    · rfl
    · split
      · rfl
      · exact txt_accLoop_map hg w r bs _

theorem txt_packLoop_map {g : Nat → Nat} (hg : txt_CaseMap g) (w r lg : Nat) :
    ∀ (l : List Nat) (j acc : Nat),
      packLoop w true r lg (l.map g) j acc = packLoop w true r lg l j acc
  | [], _, _ => rfl
  | b :: bs, j, acc => by
    simp only [List.map_cons, packLoop, (hg b).1]
    split
    · rfl
    · exact txt_packLoop_map hg w r lg bs _ _

theorem txt_skipZerosLoop_map {g : Nat → Nat} (hg : txt_CaseMap g) :
    ∀ l : List Nat, skipZerosLoop true (l.map g) = skipZerosLoop true l
  | [] => rfl
  | b :: bs => by
    simp only [List.map_cons, skipZerosLoop, (hg b).1, List.length_cons, List.length_map,
      txt_skipZerosLoop_map hg bs]

theorem txt_chunkLoop_map {g : Nat → Nat} (hg : txt_CaseMap g) (w r base power : Nat) :
    ∀ (f : Nat) (l out : List Nat),
      chunkLoop w true r base power f (l.map g) out = chunkLoop w true r base power f l out
  | _, [], _ => by simp [chunkLoop]
  | 0, _ :: _, _ => by simp [chunkLoop]
  | f + 1, b :: bs, out => by
    rw [chunkLoop_succ _ _ _ _ _ _ _ _ (by simp), chunkLoop_succ _ _ _ _ _ _ _ _ (by simp),
      ← List.map_take, ← List.map_drop, txt_hasInvalid_map hg, txt_accLoop_map hg]
    split
    · rfl
    · split
      · rfl
      · rfl
      · split
        · rfl
        · exact txt_chunkLoop_map hg w r base power f _ _

theorem txt_packAll_map {g : Nat → Nat} (hg : txt_CaseMap g) (w r lg bdpd : Nat) :
    ∀ (f : Nat) (l : List Nat),
      packAll w true r lg bdpd f (l.map g) = packAll w true r lg bdpd f l
  | _, [] => by simp [packAll]
  | 0, _ :: _ => by simp [packAll]
  | f + 1, b :: bs => by
    simp only [List.map_cons, packAll]
    rw [← List.map_cons, ← List.map_take, ← List.map_drop, txt_packLoop_map hg,
      txt_packAll_map hg w r lg bdpd f]

theorem txt_fromBuf_map {g : Nat → Nat} (hg : txt_CaseMap g) (w n : Nat) (be : Bool)
    (buf : List Nat) (r : Nat) (ls : Bool) :
    fromBufRadixInternal w n true be (buf.map g) r ls = fromBufRadixInternal w n true be buf r ls := by
  have hrev : (buf.map g).reverse = buf.reverse.map g := List.map_reverse.symm
  unfold fromBufRadixInternal generalArm pow2Arm
  cases be <;>
    simp only [Bool.false_eq_true, if_false, if_true, List.length_map, hrev, ← List.map_drop,
      ← List.map_take, ← List.map_reverse, txt_accLoop_map hg, txt_chunkLoop_map hg,
      txt_skipZerosLoop_map hg, txt_hasInvalid_map hg, txt_packAll_map hg]


/-- the `k` little-endian bytes of a digit are its `k` base-256 digits -/
theorem txt_ofNat8_eq_emit : ∀ (k d : Nat), ofNat 8 k d = emit 256 k d
  | 0, _ => rfl
  | k + 1, d => by
    simp only [ofNat, emit, Endian.B8, txt_ofNat8_eq_emit k]

/-- `to_le_bytes` is the fixed-length base-256 numeral of the value -/
theorem txt_bytesOf_eq_emit (bw : Nat) : ∀ (x : List Nat), (∀ d ∈ x, d < B (8 * bw)) →
    Endian.bytesOf bw x = emit 256 (bw * x.length) (U (8 * bw) x)
  | [], _ => by simp [Endian.bytesOf, emit]
  | d :: ds, h => by
    have hd : d < 256 ^ bw := by
      have := h d (by simp); rwa [B, Nat.pow_mul] at this
    have hB : B (8 * bw) = 256 ^ bw := by rw [B, Nat.pow_mul]
    have ih := txt_bytesOf_eq_emit bw ds (fun e he => h e (by simp [he]))
    have e1 : Endian.bytesOf bw (d :: ds) = Endian.Prim.toLeBytes bw d ++ Endian.bytesOf bw ds := by
      simp [Endian.bytesOf]
    rw [e1, ih, List.length_cons, Nat.mul_succ, Nat.add_comm (bw * ds.length) bw, emit_add, U, hB,
      emit_add_mul 256 (by omega), Nat.add_mul_div_left _ _ (Nat.pow_pos (by omega)),
      Nat.div_eq_of_lt hd, Nat.zero_add]
    unfold Endian.Prim.toLeBytes
    rw [txt_ofNat8_eq_emit]

end Text

section Bytes
set_option autoImplicit false
open Bnum.Endian Bnum.Spec.Endian

/-- the byte list of a digit list is a well-formed `u8`-digit integer of `n*bw` digits -/
theorem byt_wf_bytesOf {bw n : Nat} {x : List Nat} (hx : x.length = n) :
    WF 8 (n * bw) (bytesOf bw x) :=
  ⟨by rw [bytesOf_length, hx], by rw [B8]; exact Bytes_bytesOf bw x⟩

/-- canonical: THE `n*bw` bytes whose little-endian value is the pattern of `x` -/
theorem byt_eq_bytesOf {bw n : Nat} {x c : List Nat} (hx : WF (8 * bw) n x) (hc : WF 8 (n * bw) c)
    (h : U 8 c = U (8 * bw) x) : c = bytesOf bw x :=
  U_injective hc (byt_wf_bytesOf hx.1) (by rw [h, U_bytesOf hx])

theorem byt_bytesOf_injective {bw n : Nat} {x y : List Nat} (hx : WF (8 * bw) n x)
    (hy : WF (8 * bw) n y) (h : bytesOf bw x = bytesOf bw y) : x = y :=
  U_injective hx hy (by rw [← U_bytesOf hx, ← U_bytesOf hy, h])

theorem byt_S_bytesOf {bw n : Nat} {x : List Nat} (hx : WF (8 * bw) n x) :
    S 8 (bytesOf bw x) = S (8 * bw) x := by
  unfold S; rw [U_bytesOf hx, bytesOf_length, M_bytes, Nat.mul_comm]

theorem byt_bytes_of_wf {k : Nat} {c : List Nat} (hc : WF 8 k c) : Bytes c := by
  have := hc.2; rw [B8] at this; exact this

/-- every well-formed byte array of the right length is the byte list of its `from_le_bytes` -/
theorem byt_fromLeBytes_bytesOf {bw sh : Nat} (hbw : bw = 2 ^ sh) {n : Nat} {b : List Nat}
    (hb : Bytes b) (hlen : b.length = n * bw) :
    ∃ x, UI.fromLeBytes bw n b = .ok x ∧ WF (8 * bw) n x ∧ b = bytesOf bw x := by
  obtain ⟨x, h1, h2, h3⟩ := UI.fromLeBytes_value hbw hb hlen
  exact ⟨x, h1, h2, byt_eq_bytesOf h2 ⟨hlen, by rw [B8]; exact hb⟩ h3.symm⟩

theorem byt_fromLeSlice_bytesOf {bw sh : Nat} (hbw : bw = 2 ^ sh) {n : Nat} {x : List Nat}
    (hx : WF (8 * bw) n x) : UI.fromLeSlice bw n (bytesOf bw x) = .ok (some x) := by
  rw [UI.fromLeSlice_closed hbw n (Bytes_bytesOf bw x), leValue_eq, U_bytesOf hx, if_pos (U_lt hx),
    ← eq_ofNat hx]

theorem byt_ifromLeSlice_bytesOf {bw sh : Nat} (hbw : bw = 2 ^ sh) {n : Nat} (hn : 1 ≤ n)
    {x : List Nat} (hx : WF (8 * bw) n x) : II.fromLeSlice bw n (bytesOf bw x) = .ok (some x) := by
  have hw : 1 ≤ 8 * bw := by have := pow_pos_bw hbw; omega
  rw [II.fromLeSlice_closed hbw hn (Bytes_bytesOf bw x), twosLE_eq (Bytes_bytesOf bw x),
    byt_S_bytesOf hx, if_pos (S_repS hw hn hx), ← eq_ofInt hx]

/-- the two models of the primitive `swap_bytes` (shift loop of Model/BitOps, byte-list reversal of
    Model/Endian) compute the same function -/
theorem byt_swapLoop : ∀ (f x acc : Nat),
    Bnum.Prim.swapLoop f x acc = acc * 256 ^ f + U 8 (ofNat 8 f x).reverse
  | 0, x, acc => by simp [Bnum.Prim.swapLoop, ofNat]
  | f + 1, x, acc => by
    unfold Bnum.Prim.swapLoop
    rw [byt_swapLoop f (x / 256) (256 * acc + x % 256), ofNat, List.reverse_cons, U_append,
      List.length_reverse, ofNat_length, B8]
    simp only [U_cons, U_nil]
    ring

theorem byt_prim_swapBytes (bw d : Nat) :
    Bnum.Prim.swapBytes (8 * bw) d = Endian.Prim.swapBytes bw d := by
  unfold Bnum.Prim.swapBytes Endian.Prim.swapBytes Endian.Prim.fromBeBytes Endian.Prim.toLeBytes
  rw [Nat.mul_div_cancel_left _ (by decide : 0 < 8), byt_swapLoop]; simp

theorem byt_bytes_append {a c : List Nat} (ha : Bytes a) (hc : Bytes c) : Bytes (a ++ c) := by
  intro b hb; rcases List.mem_append.mp hb with h | h
  · exact ha b h
  · exact hc b h

theorem byt_bytes_replicate {k p : Nat} (hp : p < 256) : Bytes (List.replicate k p) := by
  intro b hb; rw [List.mem_replicate] at hb; omega

theorem byt_eq_replicate_zero {l : List Nat} (h : ∀ b ∈ l, b = 0) : l = List.replicate l.length 0 :=
  List.eq_replicate_iff.mpr ⟨rfl, h⟩

theorem byt_twosLE_replicate_zero (k : Nat) : twosLE (List.replicate k 0) = 0 := by
  rw [twosLE_eq (byt_bytes_replicate (by decide))]
  unfold S; rw [U_replicate_zero]
  exact toInt_of_lt (by have := M_pos 8 (List.replicate k 0).length; omega)

/-- sign-padding on the most significant side does not change the two's-complement reading -/
theorem byt_twosLE_append_pad {bs : List Nat} (hb : Bytes bs) (k : Nat) :
    twosLE (bs ++ List.replicate k (if twosLE bs < 0 then 255 else 0)) = twosLE bs := by
  by_cases hne : bs = []
  · subst hne
    have : twosLE [] = 0 := rfl
    rw [this]; simpa using byt_twosLE_replicate_zero k
  · have hl : 1 ≤ bs.length := List.length_pos_iff.mpr hne
    have hpad : Bytes (List.replicate k (if twosLE bs < 0 then 255 else 0)) :=
      byt_bytes_replicate (by split <;> decide)
    rw [twosLE_eq (byt_bytes_append hb hpad), twosLE_eq hb]
    exact S_sign_extend (w := 8) (by decide) hl hb.wf k

/-- the pattern of a well-formed integer is its (unsigned or signed) value modulo `2^BITS` -/
theorem byt_wrapU_valOf {w n : Nat} {x : List Nat} (hx : WF w n x) (s : Bool) :
    wrapU (M w n) (valOf s w x) = U w x := by
  cases s
  · show wrapU (M w n) ((U w x : Nat) : Int) = _
    rw [wrapU_natCast, Nat.mod_eq_of_lt (U_lt hx)]
  · show wrapU (M w n) (S w x) = _
    unfold S; rw [hx.1]; exact wrapU_toInt (U_lt hx)

theorem byt_M_bytes (bw n : Nat) : M (8 * bw) n = M 8 (n * bw) := by rw [M_bytes, Nat.mul_comm]

theorem byt_U_take (w k : Nat) {c : List Nat} (hc : ∀ d ∈ c, d < B w) :
    U w (c.take k) = U w c % M w k := by
  by_cases hl : k ≤ c.length
  · rw [U_split w k c hl, Nat.add_mul_mod_self_left, Nat.mod_eq_of_lt (U_lt (Endian.WF_take hc hl))]
  · rw [List.take_of_length_le (by omega), Nat.mod_eq_of_lt]
    exact Nat.lt_of_lt_of_le (U_lt (Endian.WF_of_forall hc)) (M_le (by omega))

theorem byt_U_drop (w k : Nat) {c : List Nat} (hc : ∀ d ∈ c, d < B w) :
    U w (c.drop k) = U w c / M w k := by
  by_cases hl : k ≤ c.length
  · rw [U_split w k c hl, Nat.add_mul_div_left _ _ (M_pos w k),
      Nat.div_eq_of_lt (U_lt (Endian.WF_take hc hl)), Nat.zero_add]
  · rw [List.drop_of_length_le (by omega), U_nil, Nat.div_eq_of_lt]
    exact Nat.lt_of_lt_of_le (U_lt (Endian.WF_of_forall hc)) (M_le (by omega))

theorem byt_prim_swapBytes_u8 {d : Nat} (hd : d < 256) : Bnum.Prim.swapBytes 8 d = d := by
  simp [Bnum.Prim.swapBytes, Bnum.Prim.swapLoop, Nat.mod_eq_of_lt hd]

end Bytes

section Floats
open Bnum.Spec Bnum.Flt

/-! ### spec level: int → float -/

theorem flt_rne_mono {p a b : Nat} (hp : 1 ≤ p) (h : a ≤ b) : rne p a ≤ rne p b := by
  rcases Nat.eq_or_lt_of_le h with rfl | hlt
  · exact Nat.le_refl _
  have h1 := Flt.rne_nearest (p := p) (v := a) hp (Flt.rne_representable (v := b) hp)
  have h2 := Flt.rne_nearest (p := p) (v := b) hp (Flt.rne_representable (v := a) hp)
  omega

theorem flt_natToFloat_zero (F : FloatFmt) : natToFloat F.spec 0 = 0 := by
  simp [natToFloat, rne, size, encodeNat]

/-- shape of the float nearest to a non-zero natural number -/
theorem flt_natToFloat_form {F : FloatFmt} (hF : F.Valid) {v : Nat} (hv : v ≠ 0) :
    ∃ e m : Nat, 2 ^ (F.p - 1) ≤ m ∧ m < 2 ^ F.p ∧ rne F.p v * 2 ^ (F.p - 1) = m * 2 ^ e ∧
      (e < F.emax → natToFloat F.spec v = (e + F.emax - 1) * 2 ^ (F.p - 1) + (m - 2 ^ (F.p - 1))) ∧
      (F.emax ≤ e → natToFloat F.spec v = posInf F.spec ∧ 2 ^ F.emax ≤ rne F.p v) := by
  have hp := hF.hp
  obtain ⟨e, m, _, hm1, hm2, hval, _⟩ := roundMantissa_spec hF 0 true hv
  refine ⟨e, m, hm1, hm2, hval, ?_, ?_⟩
  · intro he
    exact encodeNat_eq (F := F.spec) (show 1 ≤ F.p by omega) hm1 hm2 hval he
  · intro he
    have hpos : 0 < 2 ^ (F.p - 1) := Nat.pow_pos (by decide)
    have h1 : 2 ^ F.emax * 2 ^ (F.p - 1) ≤ rne F.p v * 2 ^ (F.p - 1) := by
      rw [hval, Nat.mul_comm]
      exact Nat.mul_le_mul hm1 (Nat.pow_le_pow_right (by decide) he)
    have h2 := Nat.le_of_mul_le_mul_right h1 hpos
    exact ⟨encodeNat_overflow (F := F.spec) h2, h2⟩

/-- comparing two normalised significand × power-of-two products -/
theorem flt_norm_cmp {P ma mb ea eb : Nat} (ha1 : P ≤ ma) (hb2 : mb < 2 * P)
    (hle : ma * 2 ^ ea ≤ mb * 2 ^ eb) : ea < eb ∨ (ea = eb ∧ ma ≤ mb) := by
  rcases Nat.lt_trichotomy ea eb with h | h | h
  · exact Or.inl h
  · subst h
    exact Or.inr ⟨rfl, Nat.le_of_mul_le_mul_right hle (Nat.pow_pos (by decide))⟩
  · exfalso
    have h1 : 2 ^ (eb + 1) ≤ 2 ^ ea := Nat.pow_le_pow_right (by decide) h
    have hpos : 0 < 2 ^ eb := Nat.pow_pos (by decide)
    have h2 : mb * 2 ^ eb < 2 * P * 2 ^ eb := Nat.mul_lt_mul_of_pos_right hb2 hpos
    have h3 : P * 2 ^ (eb + 1) ≤ ma * 2 ^ ea := Nat.mul_le_mul ha1 h1
    rw [Nat.pow_succ] at h3
    have : P * (2 ^ eb * 2) = 2 * P * 2 ^ eb := by ring
    omega

/-- int → float is monotone on the naturals (patterns of non-negative floats are ordered like
    their values) -/
theorem flt_natToFloat_mono {F : FloatFmt} (hF : F.Valid) {a b : Nat} (h : a ≤ b) :
    natToFloat F.spec a ≤ natToFloat F.spec b := by
  have hp := hF.hp
  by_cases ha : a = 0
  · subst ha; rw [flt_natToFloat_zero]; exact Nat.zero_le _
  have hb : b ≠ 0 := by omega
  obtain ⟨ea, ma, ha1, ha2, hva, hfa, hia⟩ := flt_natToFloat_form hF ha
  obtain ⟨eb, mb, hb1, hb2, hvb, hfb, hib⟩ := flt_natToFloat_form hF hb
  have hr := flt_rne_mono (p := F.p) (by omega) h
  have h2P : 2 ^ F.p = 2 * 2 ^ (F.p - 1) := by
    rw [pow_split (show 1 ≤ F.p by omega)]; simp
  rw [h2P] at ha2 hb2
  have hle : ma * 2 ^ ea ≤ mb * 2 ^ eb := by
    rw [← hva, ← hvb]; exact Nat.mul_le_mul_right _ hr
  have hcmp := flt_norm_cmp ha1 hb2 hle
  by_cases hbe : F.emax ≤ eb
  · rw [(hib hbe).1]; exact natToFloat_le hF a
  have hae : ea < F.emax := by omega
  rw [hfa hae, hfb (by omega)]
  generalize 2 ^ (F.p - 1) = P at *
  rcases hcmp with hlt | ⟨rfl, hm⟩
  · have h3 : (ea + F.emax - 1 + 1) * P ≤ (eb + F.emax - 1) * P := Nat.mul_le_mul_right _ (by omega)
    rw [Nat.add_mul] at h3
    omega
  · omega


theorem flt_posInf_fields {F : FloatFmt} (hF : F.Valid) :
    expField F.spec (posInf F.spec) = 2 * F.emax - 1 ∧ fracField F.spec (posInf F.spec) = 0 := by
  have hlt := posInf_lt hF
  have hP : 0 < 2 ^ (F.p - 1) := Nat.pow_pos (by decide)
  constructor
  · unfold expField signBit
    show posInf F.spec % 2 ^ (F.bits - 1) / 2 ^ (F.p - 1) = _
    rw [Nat.mod_eq_of_lt hlt]
    show (2 * F.emax - 1) * 2 ^ (F.p - 1) / 2 ^ (F.p - 1) = _
    exact Nat.mul_div_cancel _ hP
  · unfold fracField
    show (2 * F.emax - 1) * 2 ^ (F.p - 1) % 2 ^ (F.p - 1) = 0
    exact Nat.mul_mod_left _ _

theorem flt_posInf_dec {F : FloatFmt} (hF : F.Valid) :
    Spec.isNaN F.spec (posInf F.spec) = false ∧ Spec.isInf F.spec (posInf F.spec) = true := by
  obtain ⟨h1, h2⟩ := flt_posInf_fields hF
  unfold Spec.isNaN Spec.isInf
  rw [h1, h2]
  constructor
  · show ((2 * F.emax - 1 == 2 * F.emax - 1) && ((0 : Nat) != 0)) = false
    simp
  · show ((2 * F.emax - 1 == 2 * F.emax - 1) && ((0 : Nat) == 0)) = true
    simp

theorem flt_zero_dec {F : FloatFmt} (hF : F.Valid) :
    Spec.isNaN F.spec 0 = false ∧ Spec.isInf F.spec 0 = false ∧ truncOf F.spec 0 = 0 := by
  obtain ⟨hem2, hem4, hem30⟩ := emax_facts hF
  have hE : expField F.spec 0 = 0 := by unfold expField; simp
  have hne : ((0 : Nat) == 2 * F.emax - 1) = false := by simp; omega
  refine ⟨?_, ?_, truncOf_subnormal hF (Nat.pow_pos (by decide)) hE⟩
  · unfold Spec.isNaN; rw [hE]
    show (((0 : Nat) == 2 * F.emax - 1) && _) = false
    rw [hne]; rfl
  · unfold Spec.isInf; rw [hE]
    show (((0 : Nat) == 2 * F.emax - 1) && _) = false
    rw [hne]; rfl

/-- decoding the result of the int → float spec: a non-negative, non-NaN pattern; finite with value
    exactly `rne p v` unless that overflows, in which case it is +∞ -/
theorem flt_natToFloat_dec {F : FloatFmt} (hF : F.Valid) (v : Nat) :
    natToFloat F.spec v < 2 ^ (F.bits - 1) ∧ Spec.isNaN F.spec (natToFloat F.spec v) = false ∧
      (rne F.p v < 2 ^ F.emax → Spec.isInf F.spec (natToFloat F.spec v) = false ∧
          truncOf F.spec (natToFloat F.spec v) = rne F.p v) ∧
      (2 ^ F.emax ≤ rne F.p v → natToFloat F.spec v = posInf F.spec) := by
  have hlt : natToFloat F.spec v < 2 ^ (F.bits - 1) := Nat.lt_of_le_of_lt (natToFloat_le hF v) (posInf_lt hF)
  have hov : 2 ^ F.emax ≤ rne F.p v → natToFloat F.spec v = posInf F.spec := fun h =>
    encodeNat_overflow (F := F.spec) h
  refine ⟨hlt, ?_, ?_, hov⟩
  · by_cases hfin : rne F.p v < 2 ^ F.emax
    · by_cases hv : v = 0
      · subst hv; rw [flt_natToFloat_zero]; exact (flt_zero_dec hF).1
      · obtain ⟨e, m, _, hm1, hm2, hval, _⟩ := roundMantissa_spec hF 0 true hv
        have he : e < F.emax := by
          by_contra hge
          have hpos : 0 < 2 ^ (F.p - 1) := Nat.pow_pos (by decide)
          have : 2 ^ F.emax * 2 ^ (F.p - 1) ≤ rne F.p v * 2 ^ (F.p - 1) := by
            rw [hval, Nat.mul_comm]
            exact Nat.mul_le_mul hm1 (Nat.pow_le_pow_right (by decide) (by omega))
          have := Nat.le_of_mul_le_mul_right this hpos
          omega
        exact (decode_encode hF hm1 hm2 hval he).2.2.1
    · rw [hov (by omega)]; exact (flt_posInf_dec hF).1
  · intro hfin
    refine ⟨?_, truncOf_natToFloat hF hfin⟩
    by_cases hv : v = 0
    · subst hv; rw [flt_natToFloat_zero]; exact (flt_zero_dec hF).2.1
    · obtain ⟨e, m, _, hm1, hm2, hval, _⟩ := roundMantissa_spec hF 0 true hv
      have he : e < F.emax := by
        by_contra hge
        have hpos : 0 < 2 ^ (F.p - 1) := Nat.pow_pos (by decide)
        have : 2 ^ F.emax * 2 ^ (F.p - 1) ≤ rne F.p v * 2 ^ (F.p - 1) := by
          rw [hval, Nat.mul_comm]
          exact Nat.mul_le_mul hm1 (Nat.pow_le_pow_right (by decide) (by omega))
        have := Nat.le_of_mul_le_mul_right this hpos
        omega
      exact (decode_encode hF hm1 hm2 hval he).2.2.2.1

/-! ### spec level: float → int -/

theorem flt_truncMag_mono {m m' : Nat} (e : Int) (h : m ≤ m') : truncMag m e ≤ truncMag m' e := by
  unfold truncMag
  split
  · exact Nat.mul_le_mul_right _ h
  · exact Nat.div_le_div_right h

/-- normalised significand bounds of a normal pattern -/
theorem flt_sig_bounds {F : FloatFmt} (hF : F.Valid) {x : Nat} (hx : x < 2 ^ F.bits) :
    2 ^ (F.p - 1) ≤ fracField F.spec x + 2 ^ (F.p - 1) ∧ fracField F.spec x + 2 ^ (F.p - 1) < 2 ^ F.p := by
  obtain ⟨_, hf, _, _⟩ := fields hF hx
  have hp := hF.hp
  refine ⟨by omega, ?_⟩
  rw [pow_split (show F.p - 1 ≤ F.p by omega), show F.p - (F.p - 1) = 1 by omega]; omega

/-- `⌊|value|⌋` is monotone in (exponent field, fraction field), lexicographically -/
theorem flt_truncOf_mono {F : FloatFmt} (hF : F.Valid) {x y : Nat} (hx : x < 2 ^ F.bits)
    (hy : y < 2 ^ F.bits) (hE : expField F.spec x ≤ expField F.spec y)
    (hf : expField F.spec x = expField F.spec y → fracField F.spec x ≤ fracField F.spec y) :
    truncOf F.spec x ≤ truncOf F.spec y := by
  have hp := hF.hp
  obtain ⟨hem2, hem4, hem30⟩ := emax_facts hF
  by_cases hx0 : expField F.spec x = 0
  · rw [truncOf_subnormal hF hx hx0]; exact Nat.zero_le _
  have hy0 : expField F.spec y ≠ 0 := by omega
  rw [truncOf_normal hx0, truncOf_normal hy0]
  obtain ⟨hx1, hx2⟩ := flt_sig_bounds hF hx
  obtain ⟨hy1, hy2⟩ := flt_sig_bounds hF hy
  rcases Nat.eq_or_lt_of_le hE with heq | hlt
  · rw [heq]; exact flt_truncMag_mono _ (by have := hf heq; omega)
  · by_cases hneg : (expField F.spec x : Int) - bias F ≤ -1
    · rw [truncMag_small (by omega) hx2 hneg]; exact Nat.zero_le _
    · have hcx : (expField F.spec x : Int) - bias F = ((expField F.spec x - (F.emax - 1) : Nat) : Int) := by
        unfold bias at *; omega
      have hcy : (expField F.spec y : Int) - bias F = ((expField F.spec y - (F.emax - 1) : Nat) : Int) := by
        unfold bias at *; omega
      rw [hcx, hcy]
      have b1 := (truncMag_bounds (expField F.spec x - (F.emax - 1)) (show 1 ≤ F.p by omega) hx1 hx2).2
      have b2 := (truncMag_bounds (expField F.spec y - (F.emax - 1)) (show 1 ≤ F.p by omega) hy1 hy2).1
      have : 2 ^ (expField F.spec x - (F.emax - 1) + 1) ≤ 2 ^ (expField F.spec y - (F.emax - 1)) :=
        Nat.pow_le_pow_right (by decide) (by unfold bias at hneg; omega)
      omega

/-- a finite pattern has `⌊|value|⌋ < 2^emax` -/
theorem flt_truncOf_lt {F : FloatFmt} (hF : F.Valid) {x : Nat} (hx : x < 2 ^ F.bits)
    (hE : expField F.spec x < 2 * F.emax - 1) : truncOf F.spec x < 2 ^ F.emax := by
  have hp := hF.hp
  obtain ⟨hem2, hem4, hem30⟩ := emax_facts hF
  have hpos : 0 < 2 ^ F.emax := Nat.pow_pos (by decide)
  by_cases hx0 : expField F.spec x = 0
  · rw [truncOf_subnormal hF hx hx0]; exact hpos
  rw [truncOf_normal hx0]
  obtain ⟨hx1, hx2⟩ := flt_sig_bounds hF hx
  by_cases hneg : (expField F.spec x : Int) - bias F ≤ -1
  · rw [truncMag_small (by omega) hx2 hneg]; exact hpos
  · have hcx : (expField F.spec x : Int) - bias F = ((expField F.spec x - (F.emax - 1) : Nat) : Int) := by
      unfold bias at *; omega
    rw [hcx]
    have b1 := (truncMag_bounds (expField F.spec x - (F.emax - 1)) (show 1 ≤ F.p by omega) hx1 hx2).2
    have : 2 ^ (expField F.spec x - (F.emax - 1) + 1) ≤ 2 ^ F.emax :=
      Nat.pow_le_pow_right (by decide) (by omega)
    omega

/-- sign-magnitude ORDER KEY of a float pattern -/
def flt_key (F : Spec.Fmt) (x : Nat) : Int :=
  if signOf F x then -((x % signBit F : Nat) : Int) else ((x % signBit F : Nat) : Int)

/-- `⌊|value|⌋`, with `K` standing for `∞` -/
def flt_mag (F : Spec.Fmt) (K : Nat) (x : Nat) : Nat := if Spec.isInf F x then K else truncOf F x

/-- the signed truncated value `±⌊|value|⌋` (`±K` for `±∞`) -/
def flt_smag (F : Spec.Fmt) (K : Nat) (x : Nat) : Int :=
  if signOf F x then -((flt_mag F K x : Nat) : Int) else ((flt_mag F K x : Nat) : Int)

/-- the exact integer the float → int cast denotes: NaN ↦ 0, else the truncated value clamped -/
def flt_cval (F : Spec.Fmt) (s : Bool) (m K : Nat) (x : Nat) : Int :=
  if Spec.isNaN F x then 0 else clamp s m (flt_smag F K x)

theorem flt_clamp_mono {s : Bool} {m : Nat} (hm : 2 ≤ m) {z z' : Int} (h : z ≤ z') :
    clamp s m z ≤ clamp s m z' := by
  unfold clamp minV maxV
  cases s <;> simp only [Bool.false_eq_true, if_false, if_true] <;> split_ifs <;> omega

theorem flt_clamp_rep {s : Bool} {m : Nat} (hm : 2 ≤ m) (hev : m % 2 = 0) (z : Int) :
    if s then repS m (clamp s m z) else repU m (clamp s m z) := by
  unfold clamp minV maxV repS repU
  cases s <;> simp only [Bool.false_eq_true, if_false, if_true] <;> split_ifs <;> omega

theorem flt_clamp_of_rep {s : Bool} {m : Nat} (hev : m % 2 = 0) {z : Int}
    (h : if s then repS m z else repU m z) : clamp s m z = z := by
  unfold clamp minV maxV
  unfold repS repU at h
  cases s <;> simp only [Bool.false_eq_true, if_false, if_true] at h ⊢ <;> split_ifs <;> omega

/-- the float → int spec in terms of `flt_cval` (any `K ≥ m` may stand for ∞) -/
theorem flt_floatToInt_eq (F : Spec.Fmt) (s : Bool) {m K : Nat} (hm : 0 < m) (hK : m ≤ K) (x : Nat) :
    floatToInt F s m x = wrapU m (flt_cval F s m K x) := by
  unfold floatToInt flt_cval
  by_cases hn : Spec.isNaN F x = true
  · simp only [hn, if_true]; unfold wrapU; simp
  simp only [hn, Bool.false_eq_true, if_false]
  unfold flt_smag flt_mag
  by_cases hi : Spec.isInf F x = true
  · simp only [hi, if_true]
    congr 1
    unfold clamp minV maxV
    cases s <;> cases signOf F x <;> simp only [Bool.false_eq_true, if_false, if_true] <;>
      split_ifs <;> omega
  · simp only [hi, Bool.false_eq_true, if_false]
    rfl


theorem flt_abs_fields {F : FloatFmt} (hF : F.Valid) {x : Nat} (hx : x < 2 ^ F.bits) :
    x % signBit F.spec = expField F.spec x * 2 ^ (F.p - 1) + fracField F.spec x ∧
      fracField F.spec x < 2 ^ (F.p - 1) ∧ expField F.spec x < 2 * F.emax := by
  obtain ⟨h1, h2, h3, _⟩ := fields hF hx
  exact ⟨h3, h2, h1⟩

theorem flt_finite_of {F : FloatFmt} (hF : F.Valid) {x : Nat} (hx : x < 2 ^ F.bits)
    (hn : Spec.isNaN F.spec x = false) (hi : Spec.isInf F.spec x = false) :
    expField F.spec x < 2 * F.emax - 1 := by
  obtain ⟨_, _, h3⟩ := flt_abs_fields hF hx
  unfold Spec.isNaN at hn; unfold Spec.isInf at hi
  by_contra hc
  have : expField F.spec x = 2 * F.spec.emax - 1 := by show _ = 2 * F.emax - 1; omega
  rw [this] at hn hi
  simp at hn hi
  exact hi hn

theorem flt_notInf_of {F : FloatFmt} {x : Nat} (h : expField F.spec x < 2 * F.emax - 1) :
    Spec.isInf F.spec x = false ∧ Spec.isNaN F.spec x = false := by
  have hne : (expField F.spec x == 2 * F.spec.emax - 1) = false := by
    simp; show ¬ _ = 2 * F.emax - 1; omega
  unfold Spec.isInf Spec.isNaN; rw [hne]; exact ⟨rfl, rfl⟩

/-- order of the sign-free patterns ⇒ lexicographic order of (exponent, fraction) -/
theorem flt_abs_le_fields {F : FloatFmt} (hF : F.Valid) {x y : Nat} (hx : x < 2 ^ F.bits)
    (hy : y < 2 ^ F.bits) (h : x % signBit F.spec ≤ y % signBit F.spec) :
    expField F.spec x ≤ expField F.spec y ∧
      (expField F.spec x = expField F.spec y → fracField F.spec x ≤ fracField F.spec y) := by
  obtain ⟨hx1, hx2, _⟩ := flt_abs_fields hF hx
  obtain ⟨hy1, hy2, _⟩ := flt_abs_fields hF hy
  rw [hx1, hy1] at h
  generalize 2 ^ (F.p - 1) = P at *
  constructor
  · by_contra hc
    have : (expField F.spec y + 1) * P ≤ expField F.spec x * P := Nat.mul_le_mul_right _ (by omega)
    rw [Nat.add_mul] at this; omega
  · intro he; rw [he] at h; omega

/-- `⌊|value|⌋` (∞ ↦ `K ≥ 2^emax`) is monotone in the sign-free pattern, on non-NaN patterns -/
theorem flt_mag_mono {F : FloatFmt} (hF : F.Valid) {K : Nat} (hK : 2 ^ F.emax ≤ K) {x y : Nat}
    (hx : x < 2 ^ F.bits) (hy : y < 2 ^ F.bits) (hnx : Spec.isNaN F.spec x = false)
    (hny : Spec.isNaN F.spec y = false) (h : x % signBit F.spec ≤ y % signBit F.spec) :
    flt_mag F.spec K x ≤ flt_mag F.spec K y := by
  obtain ⟨hE, hf⟩ := flt_abs_le_fields hF hx hy h
  unfold flt_mag
  by_cases hiy : Spec.isInf F.spec y = true
  · simp only [hiy, if_true]
    by_cases hix : Spec.isInf F.spec x = true
    · simp [hix]
    · simp only [hix, Bool.false_eq_true, if_false]
      have := flt_truncOf_lt hF hx (flt_finite_of hF hx hnx (by simpa using hix))
      omega
  · have hfy := flt_finite_of hF hy hny (by simpa using hiy)
    have hix := (flt_notInf_of (F := F) (x := x) (by omega)).1
    simp only [hiy, hix, Bool.false_eq_true, if_false]
    exact flt_truncOf_mono hF hx hy hE hf

/-- a pattern whose sign-free part is zero (±0) has magnitude 0 -/
theorem flt_mag_zero {F : FloatFmt} (hF : F.Valid) (K : Nat) {x : Nat} (hx : x < 2 ^ F.bits)
    (h : x % signBit F.spec = 0) : flt_mag F.spec K x = 0 := by
  obtain ⟨hem2, hem4, hem30⟩ := emax_facts hF
  obtain ⟨hx1, hx2, _⟩ := flt_abs_fields hF hx
  have hP : 0 < 2 ^ (F.p - 1) := Nat.pow_pos (by decide)
  have hE : expField F.spec x = 0 := by
    rw [hx1] at h
    rcases Nat.eq_zero_or_pos (expField F.spec x) with h0 | h0
    · exact h0
    · have := Nat.mul_le_mul_right (2 ^ (F.p - 1)) h0
      omega
  unfold flt_mag
  rw [(flt_notInf_of (F := F) (x := x) (by omega)).1]
  simp only [Bool.false_eq_true, if_false]
  exact truncOf_subnormal hF hx hE

/-- the IEEE order on non-NaN patterns (`flt_key`) is respected by the signed truncated value -/
theorem flt_smag_mono {F : FloatFmt} (hF : F.Valid) {K : Nat} (hK : 2 ^ F.emax ≤ K) {x y : Nat}
    (hx : x < 2 ^ F.bits) (hy : y < 2 ^ F.bits) (hnx : Spec.isNaN F.spec x = false)
    (hny : Spec.isNaN F.spec y = false) (h : flt_key F.spec x ≤ flt_key F.spec y) :
    flt_smag F.spec K x ≤ flt_smag F.spec K y := by
  unfold flt_key at h
  unfold flt_smag
  cases hsx : signOf F.spec x <;> cases hsy : signOf F.spec y <;>
    simp only [hsx, hsy, Bool.false_eq_true, if_false, if_true] at h ⊢
  · have := flt_mag_mono hF hK hx hy hnx hny (by omega); omega
  · have h1 := flt_mag_zero hF K hx (by omega)
    have h2 := flt_mag_zero hF K hy (by omega)
    omega
  · omega
  · have := flt_mag_mono hF hK hy hx hny hnx (by omega); omega

/-- float → int is monotone at value level (both signednesses, saturation included) -/
theorem flt_cval_mono {F : FloatFmt} (hF : F.Valid) (s : Bool) {m K : Nat} (hm : 2 ≤ m)
    (hK : 2 ^ F.emax ≤ K) {x y : Nat}
    (hx : x < 2 ^ F.bits) (hy : y < 2 ^ F.bits) (hnx : Spec.isNaN F.spec x = false)
    (hny : Spec.isNaN F.spec y = false) (h : flt_key F.spec x ≤ flt_key F.spec y) :
    flt_cval F.spec s m K x ≤ flt_cval F.spec s m K y := by
  unfold flt_cval
  simp only [hnx, hny, Bool.false_eq_true, if_false]
  exact flt_clamp_mono hm (flt_smag_mono hF hK hx hy hnx hny h)

/-! ### the sign bit -/

theorem flt_signBit_eq (F : FloatFmt) : signBit F.spec = 2 ^ (F.bits - 1) := rfl

/-- setting the sign bit of a non-negative pattern changes the sign and nothing else -/
theorem flt_sign_add {F : FloatFmt} (hF : F.Valid) {y : Nat} (hy : y < 2 ^ (F.bits - 1)) :
    signBit F.spec + y < 2 ^ F.bits ∧ y < 2 ^ F.bits ∧
      signOf F.spec (signBit F.spec + y) = true ∧ signOf F.spec y = false ∧
      (signBit F.spec + y) % signBit F.spec = y ∧ y % signBit F.spec = y ∧
      expField F.spec (signBit F.spec + y) = expField F.spec y ∧
      fracField F.spec (signBit F.spec + y) = fracField F.spec y := by
  have hp := hF.hp; have hb := hF.hbits
  have hsb : 2 ^ F.bits = 2 * 2 ^ (F.bits - 1) := by rw [pow_split (show 1 ≤ F.bits by omega)]; simp
  have hpos : 0 < 2 ^ (F.bits - 1) := Nat.pow_pos (by decide)
  have hm1 : (2 ^ (F.bits - 1) + y) % 2 ^ (F.bits - 1) = y := by
    rw [Nat.add_mod_left, Nat.mod_eq_of_lt hy]
  rw [flt_signBit_eq]
  refine ⟨by omega, by omega, ?_, ?_, hm1, Nat.mod_eq_of_lt hy, ?_, ?_⟩
  · unfold signOf; rw [flt_signBit_eq]; simp
  · unfold signOf; rw [flt_signBit_eq]; simp; omega
  · unfold expField; rw [flt_signBit_eq, hm1, Nat.mod_eq_of_lt hy]
  · unfold fracField
    show (2 ^ (F.bits - 1) + y) % 2 ^ (F.p - 1) = y % 2 ^ (F.p - 1)
    obtain ⟨k, hk⟩ : 2 ^ (F.p - 1) ∣ 2 ^ (F.bits - 1) := Nat.pow_dvd_pow 2 (by omega)
    rw [hk, Nat.mul_add_mod]

theorem flt_sign_add_dec {F : FloatFmt} (hF : F.Valid) {y : Nat} (hy : y < 2 ^ (F.bits - 1)) :
    Spec.isNaN F.spec (signBit F.spec + y) = Spec.isNaN F.spec y ∧
      Spec.isInf F.spec (signBit F.spec + y) = Spec.isInf F.spec y ∧
      truncOf F.spec (signBit F.spec + y) = truncOf F.spec y := by
  obtain ⟨_, _, _, _, _, _, hE, hf⟩ := flt_sign_add hF hy
  unfold Spec.isNaN Spec.isInf truncOf decodeFinite
  rw [hE, hf]; exact ⟨rfl, rfl, rfl⟩

/-! ### spec level: signed int → float -/

/-- decoded reading of the signed int → float spec -/
theorem flt_intToFloat_dec {F : FloatFmt} (hF : F.Valid) (K : Nat) (z : Int) :
    intToFloat F.spec z < 2 ^ F.bits ∧ Spec.isNaN F.spec (intToFloat F.spec z) = false ∧
      signOf F.spec (intToFloat F.spec z) = decide (z < 0) ∧
      flt_key F.spec (intToFloat F.spec z) =
        (if z < 0 then -((natToFloat F.spec z.natAbs : Nat) : Int) else ((natToFloat F.spec z.natAbs : Nat) : Int)) ∧
      (rne F.p z.natAbs < 2 ^ F.emax → flt_smag F.spec K (intToFloat F.spec z) =
        (if z < 0 then -((rne F.p z.natAbs : Nat) : Int) else ((rne F.p z.natAbs : Nat) : Int))) := by
  obtain ⟨hlt, hnan, hfin, _⟩ := flt_natToFloat_dec hF z.natAbs
  obtain ⟨h1, h2, h3, h4, h5, h6, _, _⟩ := flt_sign_add hF hlt
  obtain ⟨d1, d2, d3⟩ := flt_sign_add_dec hF hlt
  unfold intToFloat flt_key flt_smag flt_mag
  by_cases hz : z < 0
  · simp only [hz, if_true, decide_true, h3, h5, d1, d2, d3]
    refine ⟨h1, hnan, trivial, trivial, ?_⟩
    intro hf; obtain ⟨g1, g2⟩ := hfin hf
    simp only [g1, g2, Bool.false_eq_true, if_false]
  · simp only [hz, if_false, decide_false, h4, h6, Bool.false_eq_true]
    refine ⟨h2, hnan, trivial, trivial, ?_⟩
    intro hf; obtain ⟨g1, g2⟩ := hfin hf
    simp only [g1, g2, Bool.false_eq_true, if_false]

/-- signed int → float is monotone for the IEEE order -/
theorem flt_intToFloat_mono {F : FloatFmt} (hF : F.Valid) {z z' : Int} (h : z ≤ z') :
    flt_key F.spec (intToFloat F.spec z) ≤ flt_key F.spec (intToFloat F.spec z') := by
  rw [(flt_intToFloat_dec hF 0 z).2.2.2.1, (flt_intToFloat_dec hF 0 z').2.2.2.1]
  by_cases hz : z < 0 <;> by_cases hz' : z' < 0 <;> simp only [hz, hz', if_true, if_false]
  · have := flt_natToFloat_mono hF (a := z'.natAbs) (b := z.natAbs) (by omega); omega
  · omega
  · omega
  · have := flt_natToFloat_mono hF (a := z.natAbs) (b := z'.natAbs) (by omega); omega

/-! ### digit level: value of the float → int casts -/

theorem flt_cval_rep {F : Spec.Fmt} {s : Bool} {m : Nat} (hm : 2 ≤ m) (hev : m % 2 = 0) (K x : Nat) :
    if s then repS m (flt_cval F s m K x) else repU m (flt_cval F s m K x) := by
  unfold flt_cval
  by_cases hn : Spec.isNaN F x = true
  · simp only [hn, if_true]; unfold repS repU; cases s <;> simp <;> omega
  · simp only [hn, Bool.false_eq_true, if_false]; exact flt_clamp_rep hm hev _

theorem flt_M_facts {w n : Nat} (hw : 1 ≤ w) (hn : 1 ≤ n) : 2 ≤ M w n ∧ M w n % 2 = 0 := by
  have := M_even hw hn; have := M_pos w n; omega

/-- digit-level `CastFrom<f32/f64> for BUint<N>`: no panic, and the value is `flt_cval` -/
theorem flt_toUint_val {F : FloatFmt} (hF : F.Valid) (dbg : Bool) {w n : Nat} (hw : 1 ≤ w) (hn : 1 ≤ n)
    {K : Nat} (hK : M w n ≤ K) {x : Nat} (hx : x < 2 ^ F.bits) :
    ∃ r, FltD.buintFromFloat F dbg w n x = .ok r ∧ WF w n r ∧
      (U w r : Int) = flt_cval F.spec false (M w n) K x := by
  obtain ⟨r, h1, h2, h3⟩ := C14.uintFromFloat_specD hF dbg hw hn hx
  obtain ⟨hm2, hev⟩ := flt_M_facts hw hn
  refine ⟨r, h1, h2, ?_⟩
  rw [h3, flt_floatToInt_eq F.spec false (M_pos w n) hK]
  exact wrapU_of_rep (flt_cval_rep (s := false) hm2 hev K x)

/-- digit-level `CastFrom<f32/f64> for BInt<N>`: no panic, and the signed value is `flt_cval` -/
theorem flt_toSint_val {F : FloatFmt} (hF : F.Valid) (dbg : Bool) {w n : Nat} (hw : 2 ≤ w) (hn : 1 ≤ n)
    {K : Nat} (hK : M w n ≤ K) {x : Nat} (hx : x < 2 ^ F.bits) :
    ∃ r, FltD.bintFromFloat F dbg w n x = .ok r ∧ WF w n r ∧
      S w r = flt_cval F.spec true (M w n) K x := by
  obtain ⟨r, h1, h2, _, h4⟩ := C14.intFromFloat_specD hF dbg hw hn hx
  obtain ⟨hm2, hev⟩ := flt_M_facts (show 1 ≤ w by omega) hn
  refine ⟨r, h1, h2, ?_⟩
  rw [h4, flt_floatToInt_eq F.spec true (M_pos w n) hK]
  exact wrapS_of_rep (M_pos w n) (flt_cval_rep (s := true) hm2 hev K x)

/-- a bound `K` that can stand for ∞ in both roles -/
theorem flt_K_facts (F : FloatFmt) (w n : Nat) :
    M w n ≤ M w n + 2 ^ F.emax ∧ 2 ^ F.emax ≤ M w n + 2 ^ F.emax :=
  ⟨Nat.le_add_right _ _, Nat.le_add_left _ _⟩

theorem flt_intToFloat_nat (F : Spec.Fmt) (v : Nat) : intToFloat F (v : Int) = natToFloat F v := by
  unfold intToFloat
  have : ¬ ((v : Int) < 0) := by omega
  simp only [this, if_false, Int.natAbs_natCast]

/-- the integer denoted by casting back the float nearest to `z` (when that float is finite) -/
theorem flt_cval_intToFloat {F : FloatFmt} (hF : F.Valid) (s : Bool) (m K : Nat) (z : Int)
    (hfin : rne F.p z.natAbs < 2 ^ F.emax) :
    flt_cval F.spec s m K (intToFloat F.spec z) =
      clamp s m (if z < 0 then -((rne F.p z.natAbs : Nat) : Int) else ((rne F.p z.natAbs : Nat) : Int)) := by
  obtain ⟨_, h2, _, _, h5⟩ := flt_intToFloat_dec hF K z
  unfold flt_cval
  rw [h2, h5 hfin]; rfl

theorem flt_clampU_nat {m : Nat} (hm : 0 < m) (t : Nat) : clamp false m (t : Int) = ((min t (m - 1) : Nat) : Int) := by
  unfold clamp minV maxV
  simp only [Bool.false_eq_true, if_false]
  split_ifs <;> omega

theorem flt_rne_of_lt {p v : Nat} (h : v < 2 ^ p) : rne p v = v := Flt.rne_exact (Flt.size_le_iff.2 h)

theorem flt_rne_of_representable {p v : Nat} (hp : 1 ≤ p) (h : Representable p v) : rne p v = v := by
  have := Flt.rne_nearest (p := p) (v := v) hp h
  omega

/-- `flt_key` in terms of the model's float primitives (`is_sign_negative`, `abs`) -/
theorem flt_key_model (F : FloatFmt) (x : Nat) :
    flt_key F.spec x = if isSignNegative F x then -((absBits F x : Nat) : Int) else ((absBits F x : Nat) : Int) := rfl

/-- on non-negative patterns the key is the pattern -/
theorem flt_key_nonneg {F : FloatFmt} (hF : F.Valid) {x : Nat} (hx : x < 2 ^ (F.bits - 1)) :
    flt_key F.spec x = (x : Int) := by
  obtain ⟨_, _, _, h4, _, h6, _, _⟩ := flt_sign_add hF hx
  unfold flt_key; rw [h4, h6]; rfl

/-- the spec of signed int → float commutes with negation, except at zero (`+0.0` vs `-0.0`) -/
theorem flt_intToFloat_neg {F : FloatFmt} (hF : F.Valid) {z : Int} (hz : z ≠ 0) :
    intToFloat F.spec (-z) = Flt.neg F (intToFloat F.spec z) := by
  have hlt := (flt_natToFloat_dec hF z.natAbs).1
  unfold intToFloat Flt.neg isSignNegative
  rw [Int.natAbs_neg, flt_signBit_eq]
  by_cases h : z < 0
  · have h' : ¬ (-z < 0) := by omega
    simp only [h, h', if_true, if_false]
    rw [decide_eq_true (by omega)]; simp
  · have h' : -z < 0 := by omega
    simp only [h, h', if_true, if_false]
    rw [decide_eq_false (by omega)]; simp only [Bool.false_eq_true, if_false]; omega

/-- the float nearest to a power of two: zero fraction, biased exponent `k + emax - 1`; +∞ from `2^emax` -/
theorem flt_natToFloat_pow2 {F : FloatFmt} (hF : F.Valid) (k : Nat) :
    natToFloat F.spec (2 ^ k) =
      if k < F.emax then (k + F.emax - 1) * 2 ^ (F.p - 1) else posInf F.spec := by
  have hp := hF.hp
  have hr : rne F.p (2 ^ k) = 2 ^ k :=
    flt_rne_of_representable (by omega) ⟨1, k, Nat.one_lt_two_pow (by omega), by simp⟩
  show encodeNat F.spec (rne F.p (2 ^ k)) = _
  rw [hr]
  by_cases h : k < F.emax
  · rw [if_pos h]
    have h1 : encodeNat F.spec (2 ^ k) =
        (k + F.emax - 1) * 2 ^ (F.p - 1) + (2 ^ (F.p - 1) - 2 ^ (F.p - 1)) :=
      encodeNat_eq (F := F.spec) (r := 2 ^ k) (e := k) (m := 2 ^ (F.p - 1)) (show 1 ≤ F.p by omega)
        (show 2 ^ (F.p - 1) ≤ 2 ^ (F.p - 1) from Nat.le_refl _)
        (show 2 ^ (F.p - 1) < 2 ^ F.p from Nat.pow_lt_pow_right (by decide) (by omega))
        (show 2 ^ k * 2 ^ (F.p - 1) = 2 ^ (F.p - 1) * 2 ^ k from Nat.mul_comm _ _) h
    rw [h1, Nat.sub_self, Nat.add_zero]
  · rw [if_neg h]
    exact encodeNat_overflow (F := F.spec)
      (show 2 ^ F.emax ≤ 2 ^ k from Nat.pow_le_pow_right (by decide) (by omega))

/-- the finite pattern `x` denotes a number of INTEGER magnitude `z`: with `(m, e) = decodeFinite x`
    (`|value| = m · 2^e`), `m · 2^e = z` -/
def flt_IsInt (F : Spec.Fmt) (x z : Nat) : Prop :=
  if 0 ≤ (decodeFinite F x).2 then z = (decodeFinite F x).1 * 2 ^ (decodeFinite F x).2.toNat
  else (decodeFinite F x).1 = z * 2 ^ (-(decodeFinite F x).2).toNat

instance (F : Spec.Fmt) (x z : Nat) : Decidable (flt_IsInt F x z) := by
  unfold flt_IsInt; exact inferInstance

theorem flt_truncOf_of_isInt {F : Spec.Fmt} {x z : Nat} (h : flt_IsInt F x z) : truncOf F x = z := by
  unfold flt_IsInt at h
  unfold truncOf truncMag
  by_cases he : 0 ≤ (decodeFinite F x).2
  · rw [if_pos he] at h; rw [if_pos he]; exact h.symm
  · rw [if_neg he] at h; rw [if_neg (by omega), h]
    exact Nat.mul_div_cancel _ (Nat.pow_pos (by decide))

/-- `flt_cval` of a finite pattern -/
theorem flt_cval_finite {F : Spec.Fmt} (s : Bool) (m K : Nat) {x : Nat}
    (hn : Spec.isNaN F x = false) (hi : Spec.isInf F x = false) :
    flt_cval F s m K x = clamp s m (if signOf F x then -((truncOf F x : Nat) : Int) else ((truncOf F x : Nat) : Int)) := by
  unfold flt_cval flt_smag flt_mag
  simp only [hn, hi, Bool.false_eq_true, if_false]

theorem flt_eq_zero_of_U {w n : Nat} {r : List Nat} (hr : WF w n r) (h : U w r = 0) : r = zero n :=
  U_injective hr (WF_zero w n) (by rw [h, U_zero])

/-- `flt_cval` of a non-NaN pattern whose magnitude (∞ ↦ K) is at least `t` -/
theorem flt_mag_ge {F : Spec.Fmt} {K t x : Nat} (hK : t ≤ K)
    (h : Spec.isInf F x = true ∨ t ≤ truncOf F x) : t ≤ flt_mag F K x := by
  unfold flt_mag
  by_cases hi : Spec.isInf F x = true
  · rw [if_pos hi]; exact hK
  · rw [if_neg hi]; rcases h with h | h
    · exact absurd h hi
    · exact h

theorem flt_B_le_M {w n : Nat} (hn : 1 ≤ n) : B w ≤ M w n := by
  unfold B M; exact Nat.pow_le_pow_right (by decide) (by nlinarith)

theorem flt_castFromBool_eq_fromDigit {n : Nat} (hn : 1 ≤ n) (b : Bool) :
    UI.castFromBool n b = fromDigit n b.toNat := by
  obtain ⟨k, rfl⟩ := Nat.exists_eq_add_of_le hn
  rw [Nat.add_comm]
  cases b
  · show List.replicate (k + 1) 0 = 0 :: List.replicate k 0
    exact List.replicate_succ
  · rfl

theorem flt_primVal_bool (t : NumC.PrimT) (b : Bool) :
    b.toNat < B t.ty.bits ∧ PInt.val t.ty b.toNat = (b.toNat : Int) := by
  cases t <;> cases b <;> decide

theorem flt_pow_dvd_total (s s' : Nat) : 2 ^ s ∣ 2 ^ s' ∨ 2 ^ s' ∣ 2 ^ s := by
  rcases Nat.le_total s s' with h | h
  · exact Or.inl (Nat.pow_dvd_pow 2 h)
  · exact Or.inr (Nat.pow_dvd_pow 2 h)

theorem flt_two_le_pow {s : Nat} (hs1 : 1 ≤ s) : 2 ≤ 2 ^ s := by
  calc 2 = 2 ^ 1 := rfl
    _ ≤ 2 ^ s := Nat.pow_le_pow_right (by decide) hs1

theorem flt_natToFloat_one {F : FloatFmt} (hF : F.Valid) :
    natToFloat F.spec 1 = (F.emax - 1) * 2 ^ (F.p - 1) := by
  have h4 := (emax_facts hF).2.1
  have := flt_natToFloat_pow2 hF 0
  rw [if_pos (by omega)] at this
  simpa using this

/-! ### the exact value of a pattern, and why `flt_key` is the numeric order -/

/-- the EXACT value of a finite pattern, scaled by `2^(emax + p - 3)` (the reciprocal of the least
    subnormal), so that it is an integer: `|value| = flt_scaled · 2^(3 - emax - p)` -/
def flt_scaled (F : Spec.Fmt) (x : Nat) : Nat :=
  (decodeFinite F x).1 * 2 ^ ((decodeFinite F x).2 - (2 - (F.emax : Int) - ((F.p : Int) - 1))).toNat

/-- the signed exact scaled value -/
def flt_sval (F : Spec.Fmt) (x : Nat) : Int :=
  if signOf F x then -((flt_scaled F x : Nat) : Int) else ((flt_scaled F x : Nat) : Int)

theorem flt_scaled_eq (F : FloatFmt) (x : Nat) :
    flt_scaled F.spec x = if expField F.spec x = 0 then fracField F.spec x
      else (fracField F.spec x + 2 ^ (F.p - 1)) * 2 ^ (expField F.spec x - 1) := by
  unfold flt_scaled decodeFinite
  by_cases hE : expField F.spec x = 0
  · simp only [hE, if_true]
    show fracField F.spec x * 2 ^ ((2 - (F.emax : Int) - ((F.p : Int) - 1)) - (2 - (F.emax : Int) - ((F.p : Int) - 1))).toNat = _
    rw [Int.sub_self]; simp
  · simp only [hE, if_false]
    show (fracField F.spec x + 2 ^ (F.p - 1)) * 2 ^ (((expField F.spec x : Int) - ((F.emax : Int) - 1) - ((F.p : Int) - 1)) - (2 - (F.emax : Int) - ((F.p : Int) - 1))).toNat = _
    congr 2
    omega

/-- the exact value is STRICTLY monotone in the sign-free pattern -/
theorem flt_scaled_strict {F : FloatFmt} (hF : F.Valid) {x y : Nat} (hx : x < 2 ^ F.bits)
    (hy : y < 2 ^ F.bits) (h : x % signBit F.spec < y % signBit F.spec) :
    flt_scaled F.spec x < flt_scaled F.spec y := by
  obtain ⟨hx1, hx2, _⟩ := flt_abs_fields hF hx
  obtain ⟨hy1, hy2, _⟩ := flt_abs_fields hF hy
  rw [hx1, hy1] at h
  rw [flt_scaled_eq, flt_scaled_eq]
  generalize expField F.spec x = Ex at *
  generalize expField F.spec y = Ey at *
  generalize fracField F.spec x = fx at *
  generalize fracField F.spec y = fy at *
  generalize 2 ^ (F.p - 1) = P at *
  have hE : Ex ≤ Ey := by
    by_contra hc
    have : (Ey + 1) * P ≤ Ex * P := Nat.mul_le_mul_right _ (by omega)
    rw [Nat.add_mul] at this; omega
  rcases Nat.eq_or_lt_of_le hE with rfl | hlt
  · have hf : fx < fy := by omega
    split_ifs
    · exact hf
    · exact Nat.mul_lt_mul_of_pos_right (by omega) (Nat.pow_pos (by decide))
  · have hy0 : Ey ≠ 0 := by omega
    rw [if_neg hy0]
    have hpy : 0 < 2 ^ (Ey - 1) := Nat.pow_pos (by decide)
    have hlow : P * 2 ^ (Ey - 1) ≤ (fy + P) * 2 ^ (Ey - 1) := Nat.mul_le_mul_right _ (by omega)
    split_ifs with hx0
    · have : P * 1 ≤ P * 2 ^ (Ey - 1) := Nat.mul_le_mul_left _ hpy
      omega
    · have h1 : (fx + P) * 2 ^ (Ex - 1) < (2 * P) * 2 ^ (Ex - 1) :=
        Nat.mul_lt_mul_of_pos_right (by omega) (Nat.pow_pos (by decide))
      have h2 : 2 ^ (Ex - 1 + 1) ≤ 2 ^ (Ey - 1) := Nat.pow_le_pow_right (by decide) (by omega)
      rw [Nat.pow_succ] at h2
      have h3 : P * (2 ^ (Ex - 1) * 2) ≤ P * 2 ^ (Ey - 1) := Nat.mul_le_mul_left _ h2
      have h4 : P * (2 ^ (Ex - 1) * 2) = (2 * P) * 2 ^ (Ex - 1) := by ring
      omega

theorem flt_scaled_le_iff {F : FloatFmt} (hF : F.Valid) {x y : Nat} (hx : x < 2 ^ F.bits)
    (hy : y < 2 ^ F.bits) :
    x % signBit F.spec ≤ y % signBit F.spec ↔ flt_scaled F.spec x ≤ flt_scaled F.spec y := by
  constructor
  · intro h
    rcases Nat.eq_or_lt_of_le h with he | hl
    · have : flt_scaled F.spec x = flt_scaled F.spec y := by
        obtain ⟨hx1, hx2, _⟩ := flt_abs_fields hF hx
        obtain ⟨hy1, hy2, _⟩ := flt_abs_fields hF hy
        have hE : expField F.spec x = expField F.spec y := by
          unfold expField; rw [he]
        have hf : fracField F.spec x = fracField F.spec y := by
          rw [hx1, hy1, hE] at he; omega
        rw [flt_scaled_eq, flt_scaled_eq, hE, hf]
      omega
    · exact Nat.le_of_lt (flt_scaled_strict hF hx hy hl)
  · intro h
    by_contra hc
    have := flt_scaled_strict hF hy hx (by omega)
    omega

end Floats

end Bnum.Laws3
