/-
  Bnum.Lemmas.Ops — C17: every trait impl of Bnum/Model/Ops.lean equals the inherent method it
  forwards to (same value, same panic outcome); the primitive / bnum-typed shift-amount conversions;
  `Sum` / `Product` as left folds; the digit-operand forms.
  Everything here lives in namespace `Bnum.Ops`.
-/
import Bnum.Model.Ops
import Bnum.Lemmas.Shift
import Bnum.Lemmas.Cmp
import Bnum.Lemmas.Div
import Bnum.Lemmas.Mul
import Bnum.Lemmas.Cast
set_option linter.unusedVariables false
set_option linter.unnecessarySeqFocus false
namespace Bnum
namespace Ops

/-! ## the record of inherent methods -/
section proj
variable (w n : Nat) (dbg : Bool) (a b : List Nat) (s : Nat)
@[simp] theorem buint_add : (buint w n).add dbg a b = UI.add dbg w a b := rfl
@[simp] theorem buint_sub : (buint w n).sub dbg a b = UI.sub dbg w a b := rfl
@[simp] theorem buint_mul : (buint w n).mul dbg a b = UI.mul w dbg a b := rfl
@[simp] theorem buint_div : (buint w n).div dbg a b = UI.div w a b := rfl
@[simp] theorem buint_rem : (buint w n).rem dbg a b = UI.rem w a b := rfl
@[simp] theorem buint_bitand : (buint w n).bitand a b = UI.bitand a b := rfl
@[simp] theorem buint_bitor : (buint w n).bitor a b = UI.bitor a b := rfl
@[simp] theorem buint_bitxor : (buint w n).bitxor a b = UI.bitxor a b := rfl
@[simp] theorem buint_not : (buint w n).not a = UI.not w a := rfl
@[simp] theorem buint_shl : (buint w n).shl dbg a s = UI.shl dbg w a s := rfl
@[simp] theorem buint_shr : (buint w n).shr dbg a s = UI.shr dbg w a s := rfl
@[simp] theorem buint_cmp : (buint w n).cmp a b = UI.cmp a b := rfl
@[simp] theorem buint_eq : (buint w n).eq a b = UI.eq a b := rfl
@[simp] theorem buint_zero : (buint w n).zero = zero n := rfl
@[simp] theorem buint_one : (buint w n).one = one n := rfl
@[simp] theorem bint_add : (bint w n).add dbg a b = II.add dbg w a b := rfl
@[simp] theorem bint_sub : (bint w n).sub dbg a b = II.sub dbg w a b := rfl
@[simp] theorem bint_mul : (bint w n).mul dbg a b = II.mul w dbg a b := rfl
@[simp] theorem bint_div : (bint w n).div dbg a b = II.div dbg w a b := rfl
@[simp] theorem bint_rem : (bint w n).rem dbg a b = II.rem dbg w a b := rfl
@[simp] theorem bint_bitand : (bint w n).bitand a b = II.bitand a b := rfl
@[simp] theorem bint_bitor : (bint w n).bitor a b = II.bitor a b := rfl
@[simp] theorem bint_bitxor : (bint w n).bitxor a b = II.bitxor a b := rfl
@[simp] theorem bint_not : (bint w n).not a = II.not w a := rfl
@[simp] theorem bint_shl : (bint w n).shl dbg a s = II.shl dbg w a s := rfl
@[simp] theorem bint_shr : (bint w n).shr dbg a s = II.shr dbg w a s := rfl
@[simp] theorem bint_cmp : (bint w n).cmp a b = II.cmp w a b := rfl
@[simp] theorem bint_eq : (bint w n).eq a b = II.eq a b := rfl
@[simp] theorem bint_zero : (bint w n).zero = zero n := rfl
@[simp] theorem bint_one : (bint w n).one = one n := rfl
end proj

/-! ## by-value / by-reference / `op=` forms: all are the inherent method (by `rfl`: the model of
    each impl is the delegation written in the Rust source) -/

/-- all six `add` trait forms are the inherent `add` -/
theorem add_forms (T : Ty) (dbg : Bool) (a b : List Nat) :
    add_vv T dbg a b = T.add dbg a b ∧ add_vr T dbg a b = T.add dbg a b ∧
    add_rv T dbg a b = T.add dbg a b ∧ add_rr T dbg a b = T.add dbg a b ∧
    addAssign T dbg a b = T.add dbg a b ∧ addAssignRef T dbg a b = T.add dbg a b :=
  ⟨rfl, rfl, rfl, rfl, rfl, rfl⟩

/-- all six `sub` trait forms are the inherent `sub` -/
theorem sub_forms (T : Ty) (dbg : Bool) (a b : List Nat) :
    sub_vv T dbg a b = T.sub dbg a b ∧ sub_vr T dbg a b = T.sub dbg a b ∧
    sub_rv T dbg a b = T.sub dbg a b ∧ sub_rr T dbg a b = T.sub dbg a b ∧
    subAssign T dbg a b = T.sub dbg a b ∧ subAssignRef T dbg a b = T.sub dbg a b :=
  ⟨rfl, rfl, rfl, rfl, rfl, rfl⟩

/-- all six `mul` trait forms are the inherent `mul` -/
theorem mul_forms (T : Ty) (dbg : Bool) (a b : List Nat) :
    mul_vv T dbg a b = T.mul dbg a b ∧ mul_vr T dbg a b = T.mul dbg a b ∧
    mul_rv T dbg a b = T.mul dbg a b ∧ mul_rr T dbg a b = T.mul dbg a b ∧
    mulAssign T dbg a b = T.mul dbg a b ∧ mulAssignRef T dbg a b = T.mul dbg a b :=
  ⟨rfl, rfl, rfl, rfl, rfl, rfl⟩

/-- all six `div` trait forms are the inherent `div` -/
theorem div_forms (T : Ty) (dbg : Bool) (a b : List Nat) :
    div_vv T dbg a b = T.div dbg a b ∧ div_vr T dbg a b = T.div dbg a b ∧
    div_rv T dbg a b = T.div dbg a b ∧ div_rr T dbg a b = T.div dbg a b ∧
    divAssign T dbg a b = T.div dbg a b ∧ divAssignRef T dbg a b = T.div dbg a b :=
  ⟨rfl, rfl, rfl, rfl, rfl, rfl⟩

/-- all six `rem` trait forms are the inherent `rem` -/
theorem rem_forms (T : Ty) (dbg : Bool) (a b : List Nat) :
    rem_vv T dbg a b = T.rem dbg a b ∧ rem_vr T dbg a b = T.rem dbg a b ∧
    rem_rv T dbg a b = T.rem dbg a b ∧ rem_rr T dbg a b = T.rem dbg a b ∧
    remAssign T dbg a b = T.rem dbg a b ∧ remAssignRef T dbg a b = T.rem dbg a b :=
  ⟨rfl, rfl, rfl, rfl, rfl, rfl⟩

theorem bitand_forms (T : Ty) (a b : List Nat) :
    bitand_vv T a b = T.bitand a b ∧ bitand_vr T a b = T.bitand a b ∧ bitand_rv T a b = T.bitand a b ∧
    bitand_rr T a b = T.bitand a b ∧ bitandAssign T a b = T.bitand a b ∧ bitandAssignRef T a b = T.bitand a b :=
  ⟨rfl, rfl, rfl, rfl, rfl, rfl⟩

theorem bitor_forms (T : Ty) (a b : List Nat) :
    bitor_vv T a b = T.bitor a b ∧ bitor_vr T a b = T.bitor a b ∧ bitor_rv T a b = T.bitor a b ∧
    bitor_rr T a b = T.bitor a b ∧ bitorAssign T a b = T.bitor a b ∧ bitorAssignRef T a b = T.bitor a b :=
  ⟨rfl, rfl, rfl, rfl, rfl, rfl⟩

theorem bitxor_forms (T : Ty) (a b : List Nat) :
    bitxor_vv T a b = T.bitxor a b ∧ bitxor_vr T a b = T.bitxor a b ∧ bitxor_rv T a b = T.bitxor a b ∧
    bitxor_rr T a b = T.bitxor a b ∧ bitxorAssign T a b = T.bitxor a b ∧ bitxorAssignRef T a b = T.bitxor a b :=
  ⟨rfl, rfl, rfl, rfl, rfl, rfl⟩
theorem not_forms (T : Ty) (a : List Nat) : not_v T a = T.not a ∧ not_r T a = T.not a := ⟨rfl, rfl⟩
theorem neg_forms (dbg : Bool) (w : Nat) (a : List Nat) :
    neg_v dbg w a = bintNeg dbg w a ∧ neg_r dbg w a = bintNeg dbg w a := ⟨rfl, rfl⟩
/-- the inherent `BInt::neg` in each build mode -/
theorem bintNeg_dbg (w : Nat) (a : List Nat) : bintNeg true w a = II.strictNeg w a := rfl
theorem bintNeg_rel (w : Nat) (a : List Nat) : bintNeg false w a = .ok (II.wrappingNeg w a) := rfl

theorem shl_forms (T : Ty) (dbg : Bool) (t : PrimTy) (a : List Nat) (p : Nat) :
    shl_vr T dbg t a p = shl_vv T dbg t a p ∧ shl_rv T dbg t a p = shl_vv T dbg t a p ∧
    shl_rr T dbg t a p = shl_vv T dbg t a p ∧ shlAssign T dbg t a p = shl_vv T dbg t a p ∧
    shlAssignRef T dbg t a p = shl_vv T dbg t a p := ⟨rfl, rfl, rfl, rfl, rfl⟩
theorem shr_forms (T : Ty) (dbg : Bool) (t : PrimTy) (a : List Nat) (p : Nat) :
    shr_vr T dbg t a p = shr_vv T dbg t a p ∧ shr_rv T dbg t a p = shr_vv T dbg t a p ∧
    shr_rr T dbg t a p = shr_vv T dbg t a p ∧ shrAssign T dbg t a p = shr_vv T dbg t a p ∧
    shrAssignRef T dbg t a p = shr_vv T dbg t a p := ⟨rfl, rfl, rfl, rfl, rfl⟩
theorem shlB_forms (T : Ty) (dbg ks : Bool) (a k : List Nat) :
    shlB_vr T dbg ks a k = shlB_vv T dbg ks a k ∧ shlB_rv T dbg ks a k = shlB_vv T dbg ks a k ∧
    shlB_rr T dbg ks a k = shlB_vv T dbg ks a k ∧ shlBAssign T dbg ks a k = shlB_vv T dbg ks a k ∧
    shlBAssignRef T dbg ks a k = shlB_vv T dbg ks a k := ⟨rfl, rfl, rfl, rfl, rfl⟩
theorem shrB_forms (T : Ty) (dbg ks : Bool) (a k : List Nat) :
    shrB_vr T dbg ks a k = shrB_vv T dbg ks a k ∧ shrB_rv T dbg ks a k = shrB_vv T dbg ks a k ∧
    shrB_rr T dbg ks a k = shrB_vv T dbg ks a k ∧ shrBAssign T dbg ks a k = shrB_vv T dbg ks a k ∧
    shrBAssignRef T dbg ks a k = shrB_vv T dbg ks a k := ⟨rfl, rfl, rfl, rfl, rfl⟩

/-! ## primitive shift amounts -/

/-- `rhs as u32` is the value reduced mod `2^32` (two's complement for negative values) -/
theorem asExp_eq (t : PrimTy) {p : Nat} (hp : p < B t.bits) :
    (asExp t p : Int) = t.val p % 2 ^ 32 := by
  cases t <;>
    simp only [asExp, PInt.cast, PrimTy.val, PrimTy.bits, PrimTy.signed, B, toInt] at hp ⊢ <;>
    norm_num at hp ⊢ <;> (try split_ifs) <;> omega

/-- `u32::try_from(rhs)` fails iff the value is negative or `≥ 2^32` -/
theorem tryFromPrim_eq (t : PrimTy) {p : Nat} (hp : p < B t.bits) :
    tryFromPrim t p = if 0 ≤ t.val p ∧ t.val p < 2 ^ 32 then some (t.val p).toNat else none := by
  cases t <;>
    simp only [tryFromPrim, PInt.isNeg, PrimTy.pty, PrimTy.val, PrimTy.bits, PrimTy.signed, B,
      toInt] at hp ⊢ <;>
    norm_num at hp ⊢ <;> (repeat' split_ifs) <;> (try simp) <;> omega

/-- u8, u16, u32 values always fit `u32` -/
theorem val_range_of_cast {t : PrimTy} (h : t.impl ≠ .tryFrom) {p : Nat} (hp : p < B t.bits) :
    0 ≤ t.val p ∧ t.val p < 2 ^ 32 := by
  cases t <;> simp [PrimTy.impl] at h <;>
    simp only [PrimTy.val, PrimTy.bits, PrimTy.signed, B] at hp ⊢ <;> norm_num at hp ⊢ <;> omega

/-- every primitive-amount shift impl: in debug builds a panic when the amount does not fit `u32`
    (only possible for the `try_shift_impl!` types), otherwise the inherent method on the amount
    reduced mod `2^32` -/
theorem shiftPrim_eq (dbg : Bool) (t : PrimTy) (method : Nat → Outcome (List Nat)) {p : Nat}
    (hp : p < B t.bits) :
    shiftPrim dbg t method p =
      if dbg = true ∧ ¬ (0 ≤ t.val p ∧ t.val p < 2 ^ 32) then .panic
      else method (t.val p % 2 ^ 32).toNat := by
  have h1 := asExp_eq t hp
  have h2 := tryFromPrim_eq t hp
  have h1' : asExp t p = (t.val p % 2 ^ 32).toNat := by omega
  unfold shiftPrim
  cases hI : t.impl
  · have hr := val_range_of_cast (t := t) (by rw [hI]; decide) hp
    have : t = .u32 := by cases t <;> simp [PrimTy.impl] at hI <;> rfl
    subst this
    simp only [PrimTy.val, PrimTy.signed] at hr ⊢
    simp only [hr, and_self, not_true_eq_false, and_false, if_false]
    congr 1
    simp at hr ⊢; omega
  · have hr := val_range_of_cast (t := t) (by rw [hI]; decide) hp
    simp only [hr, and_self, not_true_eq_false, and_false, if_false, h1']
  · simp only [h2, h1']
    cases dbg
    · simp
    · by_cases hr : 0 ≤ t.val p ∧ t.val p < 2 ^ 32
      · simp only [hr, and_self, if_true, not_true_eq_false, and_false, if_false]
        congr 1
        have := Int.emod_eq_of_lt hr.1 hr.2
        rw [this]
      · rw [if_neg hr, if_pos (And.intro rfl hr)]; rfl

/-- release builds: the inherent method on `k mod 2^32`; never a panic of the conversion itself -/
theorem shiftPrim_rel (t : PrimTy) (method : Nat → Outcome (List Nat)) {p : Nat} (hp : p < B t.bits) :
    shiftPrim false t method p = method (t.val p % 2 ^ 32).toNat := by
  rw [shiftPrim_eq false t method hp]; simp

/-- debug builds, for a method that (like `strict_shl`/`strict_shr`) panics exactly from `bits` on:
    the impl panics iff `k < 0 ∨ k ≥ BITS` and otherwise is the in-range shift by `k` -/
theorem shiftPrim_dbg {bits : Nat} {method : Nat → Outcome (List Nat)} {f : Nat → List Nat}
    (hlt : ∀ s, s < bits → method s = .ok (f s)) (hge : ∀ s, bits ≤ s → method s = .panic)
    (hB : bits ≤ 2 ^ 32) (t : PrimTy) {p : Nat} (hp : p < B t.bits) :
    shiftPrim true t method p =
      if 0 ≤ t.val p ∧ t.val p < bits then .ok (f (t.val p).toNat) else .panic := by
  rw [shiftPrim_eq true t method hp]
  by_cases hr : 0 ≤ t.val p ∧ t.val p < 2 ^ 32
  · have he : t.val p % 2 ^ 32 = t.val p := Int.emod_eq_of_lt hr.1 hr.2
    rw [if_neg (fun h => h.2 hr), he]
    by_cases hb : t.val p < bits
    · rw [if_pos ⟨hr.1, hb⟩]; exact hlt _ (by omega)
    · rw [if_neg (by omega)]; exact hge _ (by omega)
  · rw [if_pos ⟨rfl, hr⟩, if_neg]
    intro h; apply hr; refine ⟨h.1, ?_⟩
    have : (bits : Int) ≤ 2 ^ 32 := by exact_mod_cast hB
    omega

/-! ## bnum-typed shift amounts -/

/-- `ExpType::try_from(rhs)` for `rhs : BUint<M>` / `BInt<M>` (C13) followed by `result_expect!`:
    a panic (in both build modes) iff the amount is negative or `≥ 2^32` -/
theorem shiftBnum_eq {w n : Nat} {k : List Nat} (ks : Bool) (method : Nat → Outcome (List Nat))
    (hw : 1 ≤ w) (hn : 1 ≤ n) (hdiv : 32 < w ∨ ∃ c, 32 = c * w) (hk : WF w n k) :
    shiftBnum w ks method k =
      if 0 ≤ valOf ks w k ∧ valOf ks w k < 2 ^ 32 then method (valOf ks w k).toNat else .panic := by
  have h := tryToPrim_spec ks ⟨32, false⟩ hw hn (by decide) hdiv hk
  unfold shiftBnum
  rcases h with ⟨h1, q, h2, h3, h4⟩ | ⟨h1, h2⟩
  · simp only [repOf, Bool.false_eq_true, if_false, repU, B] at h1
    rw [val_unsigned rfl] at h4
    rw [h2, if_pos (by norm_num at h1 ⊢; exact h1), ← h4]; rfl
  · simp only [repOf, Bool.false_eq_true, if_false, repU, B] at h1
    rw [h2, if_neg (by norm_num at h1 ⊢; exact h1)]

/-- "bnum-typed amounts below BITS agree with the inherent shl/shr" -/
theorem shiftBnum_below {w n bits : Nat} {k : List Nat} (ks : Bool)
    (method : Nat → Outcome (List Nat)) (hw : 1 ≤ w) (hn : 1 ≤ n)
    (hdiv : 32 < w ∨ ∃ c, 32 = c * w) (hk : WF w n k) (hB : bits ≤ 2 ^ 32)
    (h0 : 0 ≤ valOf ks w k) (hlt : valOf ks w k < bits) :
    shiftBnum w ks method k = method (valOf ks w k).toNat := by
  rw [shiftBnum_eq ks method hw hn hdiv hk, if_pos]
  have : (bits : Int) ≤ 2 ^ 32 := by exact_mod_cast hB
  exact ⟨h0, by omega⟩

/-! ## Sum / Product -/

theorem sum_def (T : Ty) (dbg : Bool) (xs : List (List Nat)) :
    sum T dbg xs = foldO (T.add dbg) T.zero xs ∧ sumRef T dbg xs = foldO (T.add dbg) T.zero xs :=
  ⟨rfl, rfl⟩
theorem product_def (T : Ty) (dbg : Bool) (xs : List (List Nat)) :
    product T dbg xs = foldO (T.mul dbg) T.one xs ∧
    productRef T dbg xs = foldO (T.mul dbg) T.one xs := ⟨rfl, rfl⟩

@[simp] theorem foldO_nil {α β : Type} (f : α → β → Outcome α) (acc : α) :
    foldO f acc [] = .ok acc := rfl
theorem foldO_cons_ok {α β : Type} {f : α → β → Outcome α} {acc acc' : α} {x : β} (xs : List β)
    (h : f acc x = .ok acc') : foldO f acc (x :: xs) = foldO f acc' xs := by
  simp only [foldO, h]
theorem foldO_cons_panic {α β : Type} {f : α → β → Outcome α} {acc : α} {x : β} (xs : List β)
    (h : f acc x = .panic) : foldO f acc (x :: xs) = .panic := by
  simp only [foldO, h]

/-- a fold whose body never panics is `List.foldl` -/
theorem foldO_total {α β : Type} {f : α → β → Outcome α} {g : α → β → α}
    (h : ∀ a b, f a b = .ok (g a b)) (acc : α) (xs : List β) :
    foldO f acc xs = .ok (xs.foldl g acc) := by
  induction xs generalizing acc with
  | nil => rfl
  | cons x xs ih => rw [foldO_cons_ok xs (h acc x), ih]; rfl

/-- release builds: `Sum` is literally `foldl wrapping_add ZERO`, `Product` is `foldl wrapping_mul ONE` -/
theorem u_sum_rel_foldl (w n : Nat) (xs : List (List Nat)) :
    sum (buint w n) false xs = .ok (xs.foldl (UI.wrappingAdd w) (zero n)) :=
  foldO_total (fun _ _ => rfl) _ _
theorem i_sum_rel_foldl (w n : Nat) (xs : List (List Nat)) :
    sum (bint w n) false xs = .ok (xs.foldl (II.wrappingAdd w) (zero n)) :=
  foldO_total (fun _ _ => rfl) _ _
theorem u_product_rel_foldl (w n : Nat) (xs : List (List Nat)) :
    product (buint w n) false xs = .ok (xs.foldl (UI.wrappingMul w) (one n)) :=
  foldO_total (fun _ _ => rfl) _ _
theorem i_product_rel_foldl (w n : Nat) (xs : List (List Nat)) :
    product (bint w n) false xs = .ok (xs.foldl (II.wrappingMul w) (one n)) :=
  foldO_total (fun _ _ => rfl) _ _

theorem foldl_wrappingAdd_spec {w n : Nat} (xs : List (List Nat)) (hxs : ∀ x ∈ xs, WF w n x) :
    ∀ acc, WF w n acc → WF w n (xs.foldl (UI.wrappingAdd w) acc) ∧
      U w (xs.foldl (UI.wrappingAdd w) acc) = (U w acc + (xs.map (U w)).sum) % M w n := by
  induction xs with
  | nil =>
    intro acc hacc
    exact ⟨hacc, by simp [Nat.mod_eq_of_lt (U_lt hacc)]⟩
  | cons x xs ih =>
    intro acc hacc
    have hx := hxs x (by simp)
    obtain ⟨h1, h2⟩ : WF w n (UI.wrappingAdd w acc x) ∧ _ := (UI.overflowingAdd_spec hacc hx).wrapping
    have h2' : U w (UI.wrappingAdd w acc x) = (U w acc + U w x) % M w n := by
      have : ((U w acc : Int) + U w x) = ((U w acc + U w x : Nat) : Int) := by push_cast; rfl
      rw [this, wrapU_natCast] at h2; exact_mod_cast h2
    obtain ⟨g1, g2⟩ := ih (fun y hy => hxs y (by simp [hy])) _ h1
    refine ⟨g1, ?_⟩
    simp only [List.foldl_cons, List.map_cons, List.sum_cons]
    rw [g2, h2', Nat.mod_add_mod, Nat.add_assoc]

theorem foldl_wrappingMul_spec {w n : Nat} (xs : List (List Nat)) (hxs : ∀ x ∈ xs, WF w n x) :
    ∀ acc, WF w n acc → WF w n (xs.foldl (UI.wrappingMul w) acc) ∧
      U w (xs.foldl (UI.wrappingMul w) acc) = (U w acc * (xs.map (U w)).prod) % M w n := by
  induction xs with
  | nil =>
    intro acc hacc
    exact ⟨hacc, by simp [Nat.mod_eq_of_lt (U_lt hacc)]⟩
  | cons x xs ih =>
    intro acc hacc
    have hx := hxs x (by simp)
    obtain ⟨h1, h2⟩ : WF w n (UI.wrappingMul w acc x) ∧ _ := (UI.overflowingMul_spec hacc hx).wrapping
    have h2' : U w (UI.wrappingMul w acc x) = (U w acc * U w x) % M w n := by
      have : ((U w acc : Int) * U w x) = ((U w acc * U w x : Nat) : Int) := by push_cast; rfl
      rw [this, wrapU_natCast] at h2; exact_mod_cast h2
    obtain ⟨g1, g2⟩ := ih (fun y hy => hxs y (by simp [hy])) _ h1
    refine ⟨g1, ?_⟩
    simp only [List.foldl_cons, List.map_cons, List.prod_cons]
    rw [g2, h2', Nat.mod_mul_mod, Nat.mul_assoc]

/-- debug builds, unsigned `Sum`: the exact sum when it is representable, otherwise a panic
    (partial sums of naturals are monotone, so some step overflows iff the total does) -/
theorem foldO_strictAdd_spec {w n : Nat} (xs : List (List Nat)) (hxs : ∀ x ∈ xs, WF w n x) :
    ∀ acc, WF w n acc →
      (U w acc + (xs.map (U w)).sum < M w n →
        ∃ r, foldO (fun a b => UI.add true w a b) acc xs = .ok r ∧ WF w n r ∧
          U w r = U w acc + (xs.map (U w)).sum) ∧
      (M w n ≤ U w acc + (xs.map (U w)).sum →
        foldO (fun a b => UI.add true w a b) acc xs = .panic) := by
  induction xs with
  | nil =>
    intro acc hacc
    refine ⟨fun _ => ⟨acc, rfl, hacc, by simp⟩, fun h => ?_⟩
    have := U_lt hacc; simp at h; omega
  | cons x xs ih =>
    intro acc hacc
    have hx := hxs x (by simp)
    obtain ⟨s1, s2⟩ := (UI.overflowingAdd_spec hacc hx).strict
    have hsa : UI.add true w acc x = Outcome.expect (tupleToOption (UI.overflowingAdd w acc x)) := rfl
    simp only [List.map_cons, List.sum_cons]
    by_cases hov : U w acc + U w x < M w n
    · -- this step does not overflow
      have hne : UI.add true w acc x ≠ .panic := by
        rw [hsa]; intro h; have := s1.mp h; apply this; unfold repU; constructor <;> omega
      cases hr : UI.add true w acc x with
      | panic => exact absurd hr hne
      | ok r =>
        obtain ⟨r1, r2⟩ := s2 r (by rw [← hsa]; exact hr)
        have r2' : U w r = U w acc + U w x := by exact_mod_cast r2
        obtain ⟨i1, i2⟩ := ih (fun y hy => hxs y (by simp [hy])) r r1
        rw [foldO_cons_ok xs hr, r2'] at *
        constructor
        · intro h; obtain ⟨r', e1, e2, e3⟩ := i1 (by omega); exact ⟨r', e1, e2, by omega⟩
        · intro h; exact i2 (by omega)
    · have hp : UI.add true w acc x = .panic := by
        rw [hsa]; apply s1.mpr; unfold repU; omega
      constructor
      · intro h; omega
      · intro _; exact foldO_cons_panic xs hp

theorem u_sum_dbg {w n : Nat} (xs : List (List Nat)) (hxs : ∀ x ∈ xs, WF w n x) :
    ((xs.map (U w)).sum < M w n →
      ∃ r, sum (buint w n) true xs = .ok r ∧ WF w n r ∧ U w r = (xs.map (U w)).sum) ∧
    (M w n ≤ (xs.map (U w)).sum → sum (buint w n) true xs = .panic) := by
  have h := foldO_strictAdd_spec xs hxs (zero n) (WF_zero w n)
  rw [U_zero, Nat.zero_add] at h
  exact h

theorem u_sum_rel {w n : Nat} (xs : List (List Nat)) (hxs : ∀ x ∈ xs, WF w n x) :
    ∃ r, sum (buint w n) false xs = .ok r ∧ WF w n r ∧ U w r = (xs.map (U w)).sum % M w n := by
  obtain ⟨h1, h2⟩ := foldl_wrappingAdd_spec xs hxs (zero n) (WF_zero w n)
  rw [U_zero, Nat.zero_add] at h2
  exact ⟨_, u_sum_rel_foldl w n xs, h1, h2⟩

/-- the signed release `Sum` has the same pattern (`BInt::wrapping_add` is `BUint::wrapping_add`) -/
theorem i_sum_rel {w n : Nat} (xs : List (List Nat)) (hxs : ∀ x ∈ xs, WF w n x) :
    ∃ r, sum (bint w n) false xs = .ok r ∧ WF w n r ∧ U w r = (xs.map (U w)).sum % M w n := by
  obtain ⟨h1, h2⟩ := foldl_wrappingAdd_spec xs hxs (zero n) (WF_zero w n)
  rw [U_zero, Nat.zero_add] at h2
  exact ⟨_, i_sum_rel_foldl w n xs, h1, h2⟩

theorem u_product_rel {w n : Nat} (hn : 1 ≤ n) (hw : 1 ≤ w) (xs : List (List Nat))
    (hxs : ∀ x ∈ xs, WF w n x) :
    ∃ r, product (buint w n) false xs = .ok r ∧ WF w n r ∧
      U w r = (xs.map (U w)).prod % M w n := by
  obtain ⟨h1, h2⟩ := foldl_wrappingMul_spec xs hxs (one n) (WF_one hw hn)
  rw [U_one hn, Nat.one_mul] at h2
  exact ⟨_, u_product_rel_foldl w n xs, h1, h2⟩

theorem i_product_rel {w n : Nat} (hn : 1 ≤ n) (hw : 1 ≤ w) (xs : List (List Nat))
    (hxs : ∀ x ∈ xs, WF w n x) :
    ∃ r, product (bint w n) false xs = .ok r ∧ WF w n r ∧
      U w r = (xs.map (U w)).prod % M w n := by
  obtain ⟨h1, h2⟩ := foldl_wrappingMul_spec xs hxs (one n) (WF_one hw hn)
  rw [U_one hn, Nat.one_mul] at h2
  exact ⟨_, i_product_rel_foldl w n xs, h1, h2⟩

/-- exact value of the first `k` steps of a left fold from `z` -/
def prefixVal (op : Int → Int → Int) (val : List Nat → Int) (z : Int) (xs : List (List Nat)) (k : Nat) : Int :=
  ((xs.take k).map val).foldl op z

theorem prefixVal_succ (op : Int → Int → Int) (val : List Nat → Int) (z : Int) (x : List Nat)
    (xs : List (List Nat)) (k : Nat) :
    prefixVal op val z (x :: xs) (k + 1) = prefixVal op val (op z (val x)) xs k := by
  simp [prefixVal]

/-- a fold whose step is a "strict" operation (panics iff the exact result is not representable,
    otherwise returns it): the fold returns the exact total iff every prefix is representable and
    panics otherwise -/
theorem foldO_strict_spec {val : List Nat → Int} {WFp : List Nat → Prop} {rep : Int → Prop}
    {op : Int → Int → Int} {f : List Nat → List Nat → Outcome (List Nat)}
    (hf : ∀ a b, WFp a → WFp b →
      (f a b = .panic ↔ ¬ rep (op (val a) (val b))) ∧
      (∀ r, f a b = .ok r → WFp r ∧ val r = op (val a) (val b)))
    (xs : List (List Nat)) (hxs : ∀ x ∈ xs, WFp x) :
    ∀ acc, WFp acc →
      ((∀ k, 1 ≤ k → k ≤ xs.length → rep (prefixVal op val (val acc) xs k)) →
        ∃ r, foldO f acc xs = .ok r ∧ WFp r ∧ val r = prefixVal op val (val acc) xs xs.length) ∧
      ((∃ k, 1 ≤ k ∧ k ≤ xs.length ∧ ¬ rep (prefixVal op val (val acc) xs k)) →
        foldO f acc xs = .panic) := by
  induction xs with
  | nil =>
    intro acc hacc
    refine ⟨fun _ => ⟨acc, rfl, hacc, by simp [prefixVal]⟩, ?_⟩
    rintro ⟨k, h1, h2, _⟩; simp at h2; omega
  | cons x xs ih =>
    intro acc hacc
    have hx := hxs x (by simp)
    obtain ⟨s1, s2⟩ := hf acc x hacc hx
    have ihx := ih (fun y hy => hxs y (by simp [hy]))
    cases hr : f acc x with
    | panic =>
      have hnr := s1.mp hr
      constructor
      · intro h
        have := h 1 (by omega) (by simp)
        rw [prefixVal_succ] at this
        simp [prefixVal] at this
        exact absurd this hnr
      · intro _; exact foldO_cons_panic xs hr
    | ok r =>
      obtain ⟨r1, r2⟩ := s2 r hr
      obtain ⟨i1, i2⟩ := ihx r r1
      rw [foldO_cons_ok xs hr]
      constructor
      · intro h
        obtain ⟨r', e1, e2, e3⟩ := i1 (fun k hk1 hk2 => by
          have := h (k + 1) (by omega) (by simp; omega)
          rw [prefixVal_succ, ← r2] at this; exact this)
        refine ⟨r', e1, e2, ?_⟩
        rw [e3, List.length_cons, prefixVal_succ, r2]
      · rintro ⟨k, hk1, hk2, hk3⟩
        have hrep1 : rep (op (val acc) (val x)) := by
          by_contra hc; have := s1.mpr hc; rw [hr] at this; cases this
        match k, hk1 with
        | 1, _ =>
          rw [prefixVal_succ] at hk3; simp [prefixVal] at hk3; exact absurd hrep1 hk3
        | k + 2, _ =>
          apply i2
          refine ⟨k + 1, by omega, by simp at hk2; omega, ?_⟩
          rw [prefixVal_succ, ← r2] at hk3; exact hk3

theorem foldl_add_eq (l : List Int) : ∀ z : Int, l.foldl (· + ·) z = z + l.sum := by
  induction l with
  | nil => intro z; simp
  | cons a l ih => intro z; simp only [List.foldl_cons, List.sum_cons, ih]; omega
theorem foldl_mul_eq (l : List Int) : ∀ z : Int, l.foldl (· * ·) z = z * l.prod := by
  induction l with
  | nil => intro z; simp
  | cons a l ih => intro z; simp only [List.foldl_cons, List.prod_cons, ih]; ring

/-- debug-build `Sum` / `Product` for both signednesses: with `P k` the exact sum / product of the
    first `k` items, the result is the exact total when every `P k` is representable and a panic
    as soon as one is not -/
theorem u_sum_dbg_prefix {w n : Nat} (xs : List (List Nat)) (hxs : ∀ x ∈ xs, WF w n x) :
    ((∀ k, 1 ≤ k → k ≤ xs.length →
        repU (M w n) (prefixVal (· + ·) (fun x => (U w x : Int)) 0 xs k)) →
      ∃ r, sum (buint w n) true xs = .ok r ∧ WF w n r ∧
        (U w r : Int) = prefixVal (· + ·) (fun x => (U w x : Int)) 0 xs xs.length) ∧
    ((∃ k, 1 ≤ k ∧ k ≤ xs.length ∧
        ¬ repU (M w n) (prefixVal (· + ·) (fun x => (U w x : Int)) 0 xs k)) →
      sum (buint w n) true xs = .panic) := by
  have h := foldO_strict_spec (val := fun x => (U w x : Int)) (WFp := WF w n) (rep := repU (M w n))
    (op := (· + ·)) (f := fun a b => UI.add true w a b)
    (fun a b ha hb => (UI.overflowingAdd_spec ha hb).strict) xs hxs (zero n) (WF_zero w n)
  simp only [U_zero, Nat.cast_zero] at h
  exact h

theorem i_sum_dbg_prefix {w n : Nat} (hw : 2 ≤ w) (hn : 1 ≤ n) (xs : List (List Nat))
    (hxs : ∀ x ∈ xs, WF w n x) :
    ((∀ k, 1 ≤ k → k ≤ xs.length → repS (M w n) (prefixVal (· + ·) (S w) 0 xs k)) →
      ∃ r, sum (bint w n) true xs = .ok r ∧ WF w n r ∧
        S w r = prefixVal (· + ·) (S w) 0 xs xs.length) ∧
    ((∃ k, 1 ≤ k ∧ k ≤ xs.length ∧ ¬ repS (M w n) (prefixVal (· + ·) (S w) 0 xs k)) →
      sum (bint w n) true xs = .panic) := by
  have h := foldO_strict_spec (val := S w) (WFp := WF w n) (rep := repS (M w n))
    (op := (· + ·)) (f := fun a b => II.add true w a b)
    (fun a b ha hb => (II.overflowingAdd_spec hw hn ha hb).strict) xs hxs (zero n) (WF_zero w n)
  rw [S_zero] at h
  exact h

theorem u_product_dbg_prefix {w n : Nat} (hw : 1 ≤ w) (hn : 1 ≤ n) (xs : List (List Nat))
    (hxs : ∀ x ∈ xs, WF w n x) :
    ((∀ k, 1 ≤ k → k ≤ xs.length →
        repU (M w n) (prefixVal (· * ·) (fun x => (U w x : Int)) 1 xs k)) →
      ∃ r, product (buint w n) true xs = .ok r ∧ WF w n r ∧
        (U w r : Int) = prefixVal (· * ·) (fun x => (U w x : Int)) 1 xs xs.length) ∧
    ((∃ k, 1 ≤ k ∧ k ≤ xs.length ∧
        ¬ repU (M w n) (prefixVal (· * ·) (fun x => (U w x : Int)) 1 xs k)) →
      product (buint w n) true xs = .panic) := by
  have h := foldO_strict_spec (val := fun x => (U w x : Int)) (WFp := WF w n) (rep := repU (M w n))
    (op := (· * ·)) (f := fun a b => UI.mul w true a b)
    (fun a b ha hb => (UI.overflowingMul_spec ha hb).strict) xs hxs (one n) (WF_one hw hn)
  simp only [U_one hn, Nat.cast_one] at h
  exact h

theorem i_product_dbg_prefix {w n : Nat} (hw : 2 ≤ w) (hn : 1 ≤ n) (xs : List (List Nat))
    (hxs : ∀ x ∈ xs, WF w n x) :
    ((∀ k, 1 ≤ k → k ≤ xs.length → repS (M w n) (prefixVal (· * ·) (S w) 1 xs k)) →
      ∃ r, product (bint w n) true xs = .ok r ∧ WF w n r ∧
        S w r = prefixVal (· * ·) (S w) 1 xs xs.length) ∧
    ((∃ k, 1 ≤ k ∧ k ≤ xs.length ∧ ¬ repS (M w n) (prefixVal (· * ·) (S w) 1 xs k)) →
      product (bint w n) true xs = .panic) := by
  have h := foldO_strict_spec (val := S w) (WFp := WF w n) (rep := repS (M w n))
    (op := (· * ·)) (f := fun a b => II.mul w true a b)
    (fun a b ha hb => (II.overflowingMul_spec hw hn ha hb).strict) xs hxs (one n)
    (WF_one (by omega) hn)
  rw [S_one hw hn] at h
  exact h

/-- the last prefix is the exact total -/
theorem prefixVal_total (val : List Nat → Int) (xs : List (List Nat)) :
    prefixVal (· + ·) val 0 xs xs.length = (xs.map val).sum ∧
    prefixVal (· * ·) val 1 xs xs.length = (xs.map val).prod := by
  unfold prefixVal
  rw [List.take_length, foldl_add_eq, foldl_mul_eq]; simp

/-! ## Default, FromStr, comparison traits -/

theorem default_eq (T : Ty) : default T = zero T.n := rfl
theorem default_value (w : Nat) (T : Ty) : WF w T.n (default T) ∧ U w (default T) = 0 :=
  ⟨WF_zero w T.n, U_zero w T.n⟩

theorem fromStr_buint (w n : Nat) (src : List Nat) :
    fromStr (buint w n) src = UI.fromStrRadix w n src 10 := rfl
theorem fromStr_bint (w n : Nat) (src : List Nat) :
    fromStr (bint w n) src = II.fromStrRadix w n src 10 := rfl

/-- `PartialOrd` / `Ord` / the comparison operators are the inherent `cmp` (and the inherent
    `lt`/`le`/`gt`/`ge` of `int/cmp.rs`) -/
theorem cmp_forms (T : Ty) (a b : List Nat) :
    partialCmp T a b = some (T.cmp a b) ∧ ordCmp T a b = T.cmp a b ∧
    opLt T a b = CmpImpl.lt T.cmp a b ∧ opLe T a b = CmpImpl.le T.cmp a b ∧
    opGt T a b = CmpImpl.gt T.cmp a b ∧ opGe T a b = CmpImpl.ge T.cmp a b :=
  ⟨rfl, rfl, Traits.opLt_eq _ a b, Traits.opLe_eq _ a b, Traits.opGt_eq _ a b, Traits.opGe_eq _ a b⟩

/-- the derived `==` (array equality) agrees with the inherent early-exit `eq`, `!=` with `ne` -/
theorem opEq_eq_inherent {a b : List Nat} (h : a.length = b.length) :
    opEq a b = UI.eq a b ∧ opEq a b = II.eq a b ∧ opNe a b = UI.ne a b ∧ opNe a b = II.ne a b := by
  have e : opEq a b = UI.eq a b := by
    rw [Bool.eq_iff_iff]; unfold opEq; rw [Traits.opEq_iff, UI.eq_iff a b h]
  refine ⟨e, e, ?_, ?_⟩
  · unfold opNe Traits.opNe UI.ne; unfold opEq at e; rw [e]
  · unfold opNe Traits.opNe II.ne II.eq; unfold opEq at e; rw [e]

/-! ## digit-operand forms -/

theorem uOverflowingAdd_one {w d : Nat} (hd : d < B w) :
    (Prim.uOverflowingAdd w d 1).1 + B w * (Prim.uOverflowingAdd w d 1).2.toNat = d + 1 ∧
    (Prim.uOverflowingAdd w d 1).1 < B w := by
  unfold Prim.uOverflowingAdd
  have hB := B_pos w
  refine ⟨?_, Nat.mod_lt _ hB⟩
  by_cases h : d + 1 < B w
  · simp [Nat.mod_eq_of_lt h, Nat.not_le.mpr h]
  · have : d + 1 = B w := by omega
    simp [this]

/-- the early-exit carry loop adds the carry: value `(U as + carry) mod 2^(w·len)` -/
theorem addDigitLoop_spec {w : Nat} : ∀ (n : Nat) (as : List Nat) (c : Bool), WF w n as →
    WF w n (addDigitLoop w as c) ∧ U w (addDigitLoop w as c) = (U w as + c.toNat) % M w n := by
  intro n
  induction n with
  | zero =>
    intro as c h
    have := h.1; simp at this; subst this
    simp [addDigitLoop, WF_nil, M_zero, Nat.mod_one]
  | succ n ih =>
    intro as c h
    match as, h with
    | [], h => exact absurd h.1 (by simp)
    | d :: ds, h =>
      cases c with
      | false =>
        simp only [addDigitLoop, Bool.false_eq_true, if_false, Bool.toNat_false, Nat.add_zero]
        exact ⟨h, (Nat.mod_eq_of_lt (U_lt h)).symm⟩
      | true =>
        have h' := WF_cons.mp h
        obtain ⟨e, lt⟩ := uOverflowingAdd_one h'.1
        obtain ⟨i1, i2⟩ := ih ds (Prim.uOverflowingAdd w d 1).2 h'.2
        simp only [addDigitLoop, if_true, Bool.toNat_true]
        refine ⟨WF_cons.mpr ⟨lt, i1⟩, ?_⟩
        rw [U_cons, i2, M_succ, U_cons, ← add_mul_mod_mul lt (M_pos w n)]
        congr 1
        generalize (Prim.uOverflowingAdd w d 1).1 = r1 at *
        generalize (Prim.uOverflowingAdd w d 1).2.toNat = r2 at *
        rw [Nat.mul_add]; omega

/-- `BUint + digit`: never panics (for `N ≥ 1`), value `(U a + d) mod 2^BITS` — in particular the
    exact sum whenever it is representable, and a silent wrap (in BOTH build modes) otherwise -/
theorem addDigit_spec {w n d : Nat} {a : List Nat} (hn : 1 ≤ n) (ha : WF w n a) (hd : d < B w) :
    ∃ r, addDigit w a d = .ok r ∧ WF w n r ∧ U w r = (U w a + d) % M w n := by
  match n, a, ha, hn with
  | n + 1, a0 :: as, ha, _ =>
    have h' := WF_cons.mp ha
    obtain ⟨e, lt⟩ := Digit.carryingAdd_spec false h'.1 hd
    obtain ⟨i1, i2⟩ := addDigitLoop_spec n as (Digit.carryingAdd w a0 d false).2 h'.2
    refine ⟨_, rfl, WF_cons.mpr ⟨lt, i1⟩, ?_⟩
    rw [U_cons, i2, M_succ, U_cons, ← add_mul_mod_mul lt (M_pos w n)]
    congr 1
    simp only [Bool.toNat_false, Nat.add_zero] at e
    generalize (Digit.carryingAdd w a0 d false).1 = r1 at *
    generalize (Digit.carryingAdd w a0 d false).2.toNat = r2 at *
    rw [Nat.mul_add]; omega
  | n + 1, [], ha, _ => exact absurd ha.1 (by simp)

theorem addDigit_exact {w n d : Nat} {a : List Nat} (hn : 1 ≤ n) (ha : WF w n a) (hd : d < B w)
    (hrep : U w a + d < M w n) :
    ∃ r, addDigit w a d = .ok r ∧ WF w n r ∧ U w r = U w a + d := by
  obtain ⟨r, h1, h2, h3⟩ := addDigit_spec hn ha hd
  exact ⟨r, h1, h2, by rw [h3, Nat.mod_eq_of_lt hrep]⟩

/-- `BUint / digit`, `BUint % digit` for a non-zero digit -/
theorem divRemDigit_forms {w n d : Nat} {a : List Nat} (hd0 : 0 < d) (hd : d < B w) (ha : WF w n a) :
    (∃ q, divDigit w a d = .ok q ∧ WF w n q ∧ U w q = U w a / d) ∧
    remDigit w a d = .ok (U w a % d) := by
  obtain ⟨q, r, h1, h2, h3, h4⟩ := UI.u_divRemDigit_spec hd0 hd ha
  have : U w a / d = U w q ∧ U w a % d = r :=
    (Nat.div_mod_unique hd0).mpr ⟨by rw [Nat.mul_comm]; omega, h3⟩
  refine ⟨⟨q, ?_, h4, this.1.symm⟩, ?_⟩
  · unfold divDigit; rw [h1]; rfl
  · unfold remDigit; rw [h1, this.2]; rfl

/-- both panic for a zero digit (and only then) -/
theorem divRemDigit_zero {w : Nat} {a : List Nat} (ha : a ≠ []) :
    divDigit w a 0 = .panic ∧ remDigit w a 0 = .panic := by
  unfold divDigit remDigit UI.divRemDigit
  simp [ha, Outcome.map]

theorem divRemDigit_panic_iff {w n d : Nat} {a : List Nat} (hn : 1 ≤ n) (hd : d < B w)
    (ha : WF w n a) :
    (divDigit w a d = .panic ↔ d = 0) ∧ (remDigit w a d = .panic ↔ d = 0) := by
  have hne : a ≠ [] := by intro h; subst h; have := ha.1; simp at this; omega
  constructor
  · constructor
    · intro h; by_contra hd0
      obtain ⟨⟨q, hq, _⟩, _⟩ := divRemDigit_forms (Nat.pos_of_ne_zero hd0) hd ha
      rw [hq] at h; cases h
    · intro h; subst h; exact (divRemDigit_zero hne).1
  · constructor
    · intro h; by_contra hd0
      obtain ⟨_, hr⟩ := divRemDigit_forms (Nat.pos_of_ne_zero hd0) hd ha
      rw [hr] at h; cases h
    · intro h; subst h; exact (divRemDigit_zero hne).2

end Ops
end Bnum
