import Bnum.Model.AddSub
import Bnum.Lemmas.Digit

namespace Bnum

/-! ### arithmetic helpers -/
theorem add_mul_mod_mul {s b y m : Nat} (hs : s < b) (hm : 0 < m) :
    (s + b * y) % (b * m) = s + b * (y % m) := by
  have hb : 0 < b := by omega
  have e : s + b * y = (s + b * (y % m)) + (b * m) * (y / m) := by
    conv_lhs => rw [← Nat.mod_add_div y m]
    ring
  rw [e, Nat.add_mul_mod_self_left]
  apply Nat.mod_eq_of_lt
  have : y % m < m := Nat.mod_lt _ hm
  have : b * (y % m + 1) ≤ b * m := Nat.mul_le_mul_left _ this
  rw [Nat.mul_add] at this; omega

theorem repS_mul {s b m : Nat} {z : Int} (hs : s < b) (hm : m = 2 * (m / 2)) :
    repS (b * m) ((s : Int) + (b : Int) * z) ↔ repS m z := by
  unfold repS
  have hb : (0 : Int) < b := by omega
  generalize m / 2 = k at hm; subst hm
  push_cast
  constructor
  · rintro ⟨h1, h2⟩
    constructor
    · have : -(b : Int) * (2 * k) < (b : Int) * (2 + 2 * z) := by nlinarith
      have : -(2 * (k : Int)) < 2 + 2 * z := by
        by_contra hc
        have : (b : Int) * (2 + 2 * z) ≤ b * (-(2 * (k:Int))) := Int.mul_le_mul_of_nonneg_left (by omega) (by omega)
        nlinarith
      omega
    · by_contra hc
      have : (b : Int) * (2 * k) ≤ b * (2 * z) := Int.mul_le_mul_of_nonneg_left (by omega) (by omega)
      nlinarith
  · rintro ⟨h1, h2⟩
    have h3 : 2 * z ≤ 2 * (k : Int) - 2 := by omega
    constructor
    · have : (b : Int) * (-(2 * k)) ≤ b * (2 * z) := Int.mul_le_mul_of_nonneg_left (by omega) (by omega)
      nlinarith
    · have : (b : Int) * (2 * z) ≤ b * (2 * k - 2) := Int.mul_le_mul_of_nonneg_left h3 (by omega)
      nlinarith

/-- recursive form of the two's-complement value -/
theorem S_cons {w n d : Nat} {ds : List Nat} (hw : 1 ≤ w) (hn : 1 ≤ n) (hd : d < B w)
    (hds : WF w n ds) : S w (d :: ds) = d + (B w : Int) * S w ds := by
  unfold S
  have hlen : (d :: ds).length = n + 1 := by simp [hds.1]
  rw [hlen, hds.1, M_succ]
  have hu := U_lt hds
  have hm := M_even hw hn
  have hB := B_pos w
  simp only [U_cons]
  generalize M w n = m at *; generalize U w ds = u at *; generalize B w = b at *
  generalize m / 2 = k at hm; subst hm
  unfold toInt
  by_cases h : 2 * u < 2 * k
  · have h' : 2 * (d + b * u) < b * (2 * k) := by
      have : b * (u + 1) ≤ b * k := Nat.mul_le_mul_left _ (by omega)
      rw [Nat.mul_add] at this
      have e : b * (2 * k) = 2 * (b * k) := by ring
      omega
    simp only [h, h', if_true]; push_cast; ring
  · have h' : ¬ 2 * (d + b * u) < b * (2 * k) := by
      have : b * k ≤ b * u := Nat.mul_le_mul_left _ (by omega)
      have e : b * (2 * k) = 2 * (b * k) := by ring
      omega
    simp only [h, h', if_false]; push_cast; ring

theorem S_singleton (w d : Nat) : S w [d] = toInt (B w) d := by
  unfold S; simp [M, B]

theorem S_repS {w n : Nat} {x : List Nat} (hw : 1 ≤ w) (hn : 1 ≤ n) (hx : WF w n x) :
    repS (M w n) (S w x) := by
  unfold S; rw [hx.1]; exact toInt_repS (M_even hw hn) (U_lt hx)

theorem S_emod {w n : Nat} {x : List Nat} (hx : WF w n x) :
    S w x % (M w n : Int) = U w x := by
  unfold S; rw [hx.1]; exact toInt_emod (U_lt hx)

/-! ### unsigned add / sub loops -/
namespace UI

theorem addLoop_spec {w : Nat} : ∀ (n : Nat) (a b : List Nat) (c : Bool), WF w n a → WF w n b →
    WF w n (addLoop w a b c).1 ∧
    U w (addLoop w a b c).1 + M w n * (addLoop w a b c).2.toNat = U w a + U w b + c.toNat := by
  intro n
  induction n with
  | zero =>
    intro a b c ha hb
    have := ha.1; simp at this; subst this
    have := hb.1; simp at this; subst this
    simp [addLoop, WF_nil, M_zero]
  | succ n ih =>
    intro a b c ha hb
    match a, b, ha, hb with
    | d :: as, e :: bs, ha, hb =>
      rw [WF_cons] at ha hb
      simp only [addLoop]
      obtain ⟨h1, h2⟩ := Digit.carryingAdd_spec c ha.1 hb.1
      obtain ⟨h3, h4⟩ := ih as bs (Digit.carryingAdd w d e c).2 ha.2 hb.2
      refine ⟨WF_cons.mpr ⟨h2, h3⟩, ?_⟩
      simp only [U_cons, M_succ]
      generalize (addLoop w as bs (Digit.carryingAdd w d e c).2).2.toNat = f at *
      generalize U w (addLoop w as bs (Digit.carryingAdd w d e c).2).1 = r at *
      generalize (Digit.carryingAdd w d e c).2.toNat = c' at *
      generalize (Digit.carryingAdd w d e c).1 = s at *
      have : B w * (r + M w n * f) = B w * (U w as + U w bs + c') := by rw [h4]
      ring_nf at this ⊢; omega
    | [], _, ha, _ => exact absurd ha.1 (by simp)
    | _ :: _, [], _, hb => exact absurd hb.1 (by simp)

theorem subLoop_spec {w : Nat} : ∀ (n : Nat) (a b : List Nat) (c : Bool), WF w n a → WF w n b →
    WF w n (subLoop w a b c).1 ∧
    U w (subLoop w a b c).1 + U w b + c.toNat = U w a + M w n * (subLoop w a b c).2.toNat := by
  intro n
  induction n with
  | zero =>
    intro a b c ha hb
    have := ha.1; simp at this; subst this
    have := hb.1; simp at this; subst this
    simp [subLoop, WF_nil, M_zero]
  | succ n ih =>
    intro a b c ha hb
    match a, b, ha, hb with
    | d :: as, e :: bs, ha, hb =>
      rw [WF_cons] at ha hb
      simp only [subLoop]
      obtain ⟨h1, h2⟩ := Digit.borrowingSub_spec c ha.1 hb.1
      obtain ⟨h3, h4⟩ := ih as bs (Digit.borrowingSub w d e c).2 ha.2 hb.2
      refine ⟨WF_cons.mpr ⟨h2, h3⟩, ?_⟩
      simp only [U_cons, M_succ]
      generalize (subLoop w as bs (Digit.borrowingSub w d e c).2).2.toNat = f at *
      generalize U w (subLoop w as bs (Digit.borrowingSub w d e c).2).1 = r at *
      generalize (Digit.borrowingSub w d e c).2.toNat = c' at *
      generalize (Digit.borrowingSub w d e c).1 = s at *
      have : B w * (r + U w bs + c') = B w * (U w as + M w n * f) := by rw [h4]
      ring_nf at this ⊢; omega
    | [], _, ha, _ => exact absurd ha.1 (by simp)
    | _ :: _, [], _, hb => exact absurd hb.1 (by simp)

end UI
namespace II

theorem addLoop_spec {w : Nat} (hw : 2 ≤ w) : ∀ (n : Nat) (a b : List Nat) (c : Bool),
    WF w (n + 1) a → WF w (n + 1) b →
    WF w (n + 1) (addLoop w a b c).1 ∧
    U w (addLoop w a b c).1 = (U w a + U w b + c.toNat) % M w (n + 1) ∧
    (addLoop w a b c).2 = decide (¬ repS (M w (n + 1)) (S w a + S w b + c.toNat)) := by
  intro n
  induction n with
  | zero =>
    intro a b c ha hb
    match a, b, ha, hb with
    | [d], [e], ha, hb =>
      rw [WF_cons] at ha hb
      simp only [addLoop, Digit.carryingAddSigned_eq hw c ha.1 hb.1, S_singleton, U_cons, U_nil]
      have : M w (0 + 1) = B w := by simp [M, B]
      rw [this]
      refine ⟨WF_cons.mpr ⟨Nat.mod_lt _ (B_pos w), WF_nil w⟩, by simp, rfl⟩
    | [], _, ha, _ => exact absurd ha.1 (by simp)
    | [_], [], _, hb => exact absurd hb.1 (by simp)
    | _ :: _ :: _, _, ha, _ => exact absurd ha.1 (by simp)
    | [_], _ :: _ :: _, _, hb => exact absurd hb.1 (by simp)
  | succ n ih =>
    intro a b c ha hb
    match a, b, ha, hb with
    | d :: a2 :: as, e :: b2 :: bs, ha, hb =>
      rw [WF_cons] at ha hb
      simp only [addLoop]
      obtain ⟨h1, h2⟩ := Digit.carryingAdd_spec c ha.1 hb.1
      obtain ⟨h3, h4, h5⟩ := ih (a2 :: as) (b2 :: bs) (Digit.carryingAdd w d e c).2 ha.2 hb.2
      refine ⟨WF_cons.mpr ⟨h2, h3⟩, ?_, ?_⟩
      · rw [U_cons, h4, M_succ w (n+1), ← add_mul_mod_mul h2 (M_pos w (n+1))]
        congr 1
        simp only [U_cons] at *
        generalize (Digit.carryingAdd w d e c).2.toNat = c' at *
        generalize (Digit.carryingAdd w d e c).1 = s at *
        ring_nf at h1 ⊢; omega
      · rw [h5, S_cons (by omega) (by omega) ha.1 ha.2, S_cons (by omega) (by omega) hb.1 hb.2,
          M_succ w (n+1)]
        congr 1
        have hm := M_even (show 1 ≤ w by omega) (show 1 ≤ n + 1 by omega)
        rw [← repS_mul h2 hm]
        apply propext
        have : ((Digit.carryingAdd w d e c).1 : Int) + (B w : Int) * (S w (a2 :: as) + S w (b2 :: bs) + ((Digit.carryingAdd w d e c).2.toNat : Int))
          = (d : Int) + B w * S w (a2 :: as) + (e + B w * S w (b2 :: bs)) + (c.toNat : Int) := by
          have : ((Digit.carryingAdd w d e c).1 : Int) + (B w : Int) * ((Digit.carryingAdd w d e c).2.toNat : Int) = d + e + c.toNat := by
            exact_mod_cast h1
          linear_combination this
        rw [this]
    | [], _, ha, _ => exact absurd ha.1 (by simp)
    | [_], _, ha, _ => exact absurd ha.1 (by simp)
    | _ :: _ :: _, [], _, hb => exact absurd hb.1 (by simp)
    | _ :: _ :: _, [_], _, hb => exact absurd hb.1 (by simp)
end II
end Bnum
