/-
  Bnum.Lemmas.KnuthD — correctness of `BUint::basecase_div_rem` (Knuth, TAOCP vol. 2, 4.3.1,
  Algorithm D) as modelled in Model/Div.lean (`KD.*`): discharges `KnuthD_correct`.
-/
import Bnum.Lemmas.Div
namespace Bnum
namespace KDL

/-! ### arithmetic core of step D3 (Knuth 4.3.1, Theorem A and exercises 19–21) -/

/-- the estimate of step D3 on natural numbers -/
def qHatN (b x0 x1 x2 v1 v2 : Nat) : Nat :=
  if x0 < v1 then
    let qh := (x0 * b + x1) / v1
    let rh := (x0 * b + x1) % v1
    if rh * b + x2 < qh * v2 then
      if rh + v1 < b then
        (if (rh + v1) * b + x2 < (qh - 1) * v2 then qh - 1 - 1 else qh - 1)
      else qh - 1
    else qh
  else b - 1

/-- if `q̂ (v₁ b + v₂) ≤ u₀ b² + u₁ b + u₂` then `q̂ ≤ q + 1` -/
theorem qhat_upper {b P v1 v2 vr top3 wr qh : Nat} (hv1 : 1 ≤ v1) (hvr : vr < P) (hq : qh < b)
    (hc : qh * (v1 * b + v2) ≤ top3) :
    qh ≤ (top3 * P + wr) / ((v1 * b + v2) * P + vr) + 1 := by
  have hP : 0 < P := by omega
  have hb : 0 < b := by omega
  have hbP : b * P ≤ v1 * b * P := by
    have : 1 * (b * P) ≤ v1 * (b * P) := Nat.mul_le_mul_right _ hv1
    rw [Nat.one_mul, ← Nat.mul_assoc] at this; exact this
  have hV : b * P ≤ (v1 * b + v2) * P + vr := by
    have : (v1 * b + v2) * P = v1 * b * P + v2 * P := by ring
    omega
  have hVpos : 0 < (v1 * b + v2) * P + vr := by
    have : 0 < b * P := Nat.mul_pos hb hP
    omega
  generalize hVd : (v1 * b + v2) * P + vr = V at *
  generalize hWd : top3 * P + wr = W at *
  by_contra hcon
  have hge : W / V + 2 ≤ qh := by omega
  have h1 : W < V * (W / V + 1) := Nat.lt_mul_div_succ W hVpos
  have h2 : (W / V + 2) * V ≤ qh * V := Nat.mul_le_mul_right V hge
  have h3 : qh * V = qh * (v1 * b + v2) * P + qh * vr := by rw [← hVd]; ring
  have h4 : qh * (v1 * b + v2) * P ≤ top3 * P := Nat.mul_le_mul_right P hc
  have h5 : qh * vr < b * P := by
    rcases Nat.eq_zero_or_pos qh with h0 | h0
    · rw [h0, Nat.zero_mul]; exact Nat.mul_pos hb hP
    · calc qh * vr < qh * P := Nat.mul_lt_mul_of_pos_left hvr h0
        _ ≤ b * P := Nat.mul_le_mul_right P (by omega)
  have h6 : (W / V + 2) * V = V * (W / V + 1) + V := by ring
  omega

/-- if `q̂ (v₁ b + v₂) > u₀ b² + u₁ b + u₂` then `q̂ > q` -/
theorem qhat_lower {P vr top3 wr qh vv : Nat} (hwr : wr < P)
    (hc : top3 < qh * vv) :
    (top3 * P + wr) / (vv * P + vr) < qh := by
  by_contra hcon
  have hle : qh ≤ (top3 * P + wr) / (vv * P + vr) := by omega
  generalize hVd : vv * P + vr = V at *
  generalize hWd : top3 * P + wr = W at *
  have h1 : W / V * V ≤ W := Nat.div_mul_le_self W V
  have h2 : qh * V ≤ W / V * V := Nat.mul_le_mul_right V hle
  have h3 : qh * V = qh * vv * P + qh * vr := by rw [← hVd]; ring
  have h4 : (top3 + 1) * P ≤ qh * vv * P := Nat.mul_le_mul_right P hc
  have h5 : (top3 + 1) * P = top3 * P + P := by ring
  omega

/-- Theorem A: `q ≤ ⌊(u₀ b + u₁) / v₁⌋` -/
theorem thmA {b P v1 v2 vr top2 x2 wr : Nat} (hv1 : 1 ≤ v1) (hx2 : x2 < b) (hwr : wr < P) :
    ((top2 * b + x2) * P + wr) / ((v1 * b + v2) * P + vr) ≤ top2 / v1 := by
  have hP : 0 < P := by omega
  have hb : 0 < b := by omega
  rw [Nat.le_div_iff_mul_le (by omega)]
  generalize hVd : (v1 * b + v2) * P + vr = V at *
  generalize hWd : (top2 * b + x2) * P + wr = W at *
  have h1 : W / V * V ≤ W := Nat.div_mul_le_self W V
  have h2 : W / V * (v1 * (b * P)) ≤ W / V * V := by
    apply Nat.mul_le_mul_left
    rw [← hVd]
    have : (v1 * b + v2) * P = v1 * (b * P) + v2 * P := by ring
    omega
  have h3 : W < (top2 + 1) * (b * P) := by
    rw [← hWd]
    have e1 : (top2 + 1) * (b * P) = top2 * b * P + b * P := by ring
    have e2 : (top2 * b + x2) * P = top2 * b * P + x2 * P := by ring
    have e3 : (x2 + 1) * P ≤ b * P := Nat.mul_le_mul_right P hx2
    have e4 : (x2 + 1) * P = x2 * P + P := by ring
    omega
  have h4 : W / V * v1 * (b * P) < (top2 + 1) * (b * P) := by
    have : W / V * v1 * (b * P) = W / V * (v1 * (b * P)) := by ring
    omega
  have := Nat.lt_of_mul_lt_mul_right h4
  omega


theorem cond_iff {b v1 v2 x2 top2 k r : Nat} (h : top2 = v1 * k + r) :
    k * (v1 * b + v2) ≤ top2 * b + x2 ↔ k * v2 ≤ r * b + x2 := by
  subst h
  have e1 : k * (v1 * b + v2) = k * v1 * b + k * v2 := by ring
  have e2 : (v1 * k + r) * b + x2 = k * v1 * b + r * b + x2 := by ring
  rw [e1, e2]; omega

theorem mul_lt_sq {b k v2 : Nat} (hk : k < b) (hv2 : v2 < b) : k * v2 < b * b := by
  rcases Nat.eq_zero_or_pos k with h0 | h0
  · rw [h0, Nat.zero_mul]; exact Nat.mul_pos (by omega) (by omega)
  · calc k * v2 < k * b := Nat.mul_lt_mul_of_pos_left hv2 h0
      _ ≤ b * b := Nat.mul_le_mul_right b (by omega)

/-- D3 is correct: the estimate is `q` or `q + 1` -/
theorem qHatN_spec {b P x0 x1 x2 wr v1 v2 vr : Nat} (hb : 2 ≤ b) (hx0 : x0 < b) (hx1 : x1 < b)
    (hx2 : x2 < b) (hv1 : v1 < b) (hv2 : v2 < b) (hwr : wr < P) (hvr : vr < P)
    (hnorm : b ≤ 2 * v1)
    (hW : ((x0 * b + x1) * b + x2) * P + wr < ((v1 * b + v2) * P + vr) * b) :
    (((x0 * b + x1) * b + x2) * P + wr) / ((v1 * b + v2) * P + vr) ≤ qHatN b x0 x1 x2 v1 v2 ∧
    qHatN b x0 x1 x2 v1 v2 ≤ (((x0 * b + x1) * b + x2) * P + wr) / ((v1 * b + v2) * P + vr) + 1 ∧
    qHatN b x0 x1 x2 v1 v2 < b := by
  have hv1p : 1 ≤ v1 := by omega
  have hP : 0 < P := by omega
  unfold qHatN
  by_cases hlt : x0 < v1
  · rw [if_pos hlt]
    simp only
    have hdm := Nat.div_add_mod (x0 * b + x1) v1
    have hml := Nat.mod_lt (x0 * b + x1) (show 0 < v1 by omega)
    have htop : x0 * b + x1 < v1 * b := by
      have : (x0 + 1) * b ≤ v1 * b := Nat.mul_le_mul_right b hlt
      have e : (x0 + 1) * b = x0 * b + b := by ring
      omega
    have hqb : (x0 * b + x1) / v1 < b := (Nat.div_lt_iff_lt_mul (by omega)).mpr (by rw [Nat.mul_comm b v1]; exact htop)
    have hA := thmA (b := b) (P := P) (v1 := v1) (v2 := v2) (vr := vr) (top2 := x0 * b + x1)
      (x2 := x2) (wr := wr) hv1p hx2 hwr
    generalize (x0 * b + x1) / v1 = qh at *
    generalize (x0 * b + x1) % v1 = rh at *
    generalize hq : (((x0 * b + x1) * b + x2) * P + wr) / ((v1 * b + v2) * P + vr) = q at *
    by_cases ht1 : rh * b + x2 < qh * v2
    · rw [if_pos ht1]
      have hnc : (x0 * b + x1) * b + x2 < qh * (v1 * b + v2) := by
        have := (cond_iff (b := b) (v2 := v2) (x2 := x2) hdm.symm).not
        omega
      have hlow := qhat_lower (P := P) (vr := vr) (wr := wr) hwr hnc
      rw [hq] at hlow
      have hq1 : 1 ≤ qh := by omega
      have hdm1 : x0 * b + x1 = v1 * (qh - 1) + (rh + v1) := by
        have : v1 * qh = v1 * (qh - 1) + v1 := by
          have : qh = (qh - 1) + 1 := by omega
          conv_lhs => rw [this]
          ring
        omega
      by_cases hr1 : rh + v1 < b
      · rw [if_pos hr1]
        by_cases ht2 : (rh + v1) * b + x2 < (qh - 1) * v2
        · rw [if_pos ht2]
          have hnc2 : (x0 * b + x1) * b + x2 < (qh - 1) * (v1 * b + v2) := by
            have := (cond_iff (b := b) (v2 := v2) (x2 := x2) hdm1).not
            omega
          have hlow2 := qhat_lower (P := P) (vr := vr) (wr := wr) hwr hnc2
          rw [hq] at hlow2
          have hq2 : 2 ≤ qh := by omega
          have hdm2 : x0 * b + x1 = v1 * (qh - 1 - 1) + (rh + v1 + v1) := by
            have : v1 * (qh - 1) = v1 * (qh - 1 - 1) + v1 := by
              have : qh - 1 = (qh - 1 - 1) + 1 := by omega
              conv_lhs => rw [this]
              ring
            omega
          have hc : (qh - 1 - 1) * (v1 * b + v2) ≤ (x0 * b + x1) * b + x2 := by
            rw [cond_iff hdm2]
            have h1 := mul_lt_sq (b := b) (k := qh - 1 - 1) (v2 := v2) (by omega) hv2
            have h2 : b * b ≤ (rh + v1 + v1) * b := Nat.mul_le_mul_right b (by omega)
            omega
          have hup := qhat_upper (P := P) (vr := vr) (wr := wr) hv1p hvr (show qh - 1 - 1 < b by omega) hc
          rw [hq] at hup
          omega
        · rw [if_neg ht2]
          have hc : (qh - 1) * (v1 * b + v2) ≤ (x0 * b + x1) * b + x2 := by
            rw [cond_iff hdm1]; omega
          have hup := qhat_upper (P := P) (vr := vr) (wr := wr) hv1p hvr (show qh - 1 < b by omega) hc
          rw [hq] at hup
          omega
      · rw [if_neg hr1]
        have hc : (qh - 1) * (v1 * b + v2) ≤ (x0 * b + x1) * b + x2 := by
          rw [cond_iff hdm1]
          have h1 := mul_lt_sq (b := b) (k := qh - 1) (v2 := v2) (by omega) hv2
          have h2 : b * b ≤ (rh + v1) * b := Nat.mul_le_mul_right b (by omega)
          omega
        have hup := qhat_upper (P := P) (vr := vr) (wr := wr) hv1p hvr (show qh - 1 < b by omega) hc
        rw [hq] at hup
        omega
    · rw [if_neg ht1]
      have hc : qh * (v1 * b + v2) ≤ (x0 * b + x1) * b + x2 := by
        rw [cond_iff hdm.symm]; omega
      have hup := qhat_upper (P := P) (vr := vr) (wr := wr) hv1p hvr hqb hc
      rw [hq] at hup
      omega
  · rw [if_neg hlt]
    have hVpos : 0 < (v1 * b + v2) * P + vr := by
      have : 0 < v1 * b * P := Nat.mul_pos (Nat.mul_pos (by omega) (by omega)) hP
      have e : (v1 * b + v2) * P = v1 * b * P + v2 * P := by ring
      omega
    have hqlt : (((x0 * b + x1) * b + x2) * P + wr) / ((v1 * b + v2) * P + vr) < b :=
      (Nat.div_lt_iff_lt_mul hVpos).mpr (by rw [Nat.mul_comm b ((v1 * b + v2) * P + vr)]; exact hW)
    have hqge : b - 2 ≤ (((x0 * b + x1) * b + x2) * P + wr) / ((v1 * b + v2) * P + vr) := by
      rw [Nat.le_div_iff_mul_le hVpos]
      -- V ≤ (v1 + 1) b P
      have hV : (v1 * b + v2) * P + vr ≤ (v1 + 1) * (b * P) := by
        have e1 : (v1 * b + v2) * P = v1 * (b * P) + v2 * P := by ring
        have e2 : (v1 + 1) * (b * P) = v1 * (b * P) + b * P := by ring
        have e3 : (v2 + 1) * P ≤ b * P := Nat.mul_le_mul_right P hv2
        have e4 : (v2 + 1) * P = v2 * P + P := by ring
        omega
      have h1 : (b - 2) * ((v1 * b + v2) * P + vr) ≤ (b - 2) * ((v1 + 1) * (b * P)) :=
        Nat.mul_le_mul_left _ hV
      have h2 : (b - 2) * ((v1 + 1) * (b * P)) = ((b - 2) * (v1 + 1)) * (b * P) := by ring
      have h3 : (b - 2) * (v1 + 1) ≤ v1 * b := by
        obtain ⟨c, rfl⟩ : ∃ c, b = c + 2 := ⟨b - 2, by omega⟩
        simp only [Nat.add_sub_cancel]
        have : c * (v1 + 1) = c * v1 + c := by ring
        have : v1 * (c + 2) = c * v1 + 2 * v1 := by ring
        omega
      have h4 : ((b - 2) * (v1 + 1)) * (b * P) ≤ (v1 * b) * (b * P) := Nat.mul_le_mul_right _ h3
      have h5 : (v1 * b) * (b * P) ≤ (x0 * b) * (b * P) :=
        Nat.mul_le_mul_right _ (Nat.mul_le_mul_right b (by omega))
      have h6 : ((x0 * b + x1) * b + x2) * P + wr = (x0 * b) * (b * P) + x1 * b * P + x2 * P + wr := by
        ring
      omega
    omega


open KD


/-! ### the model's D3 is `qHatN` -/

theorem divRemWide_eq {w low high rhs : Nat} (h1 : high < rhs) (h2 : rhs < B w) (h3 : low < B w) :
    Digit.divRemWide w low high rhs = ((high * B w + low) / rhs, (high * B w + low) % rhs) := by
  unfold Digit.divRemWide
  have hB := B_pos w
  have hlt : high * B w < B w * B w := Nat.mul_lt_mul_of_pos_right (by omega) hB
  simp only
  rw [Nat.mod_eq_of_lt hlt, mul_B_or high low h3]
  have hpos : 0 < rhs := by omega
  have ha : high * B w + low < rhs * B w := by
    have : (high + 1) * B w ≤ rhs * B w := Nat.mul_le_mul_right _ h1
    rw [Nat.add_mul] at this; omega
  generalize high * B w + low = a at *
  have hq : a / rhs < B w := (Nat.div_lt_iff_lt_mul hpos).mpr (by rw [Nat.mul_comm]; exact ha)
  have hr : a % rhs < rhs := Nat.mod_lt _ hpos
  rw [Nat.mod_eq_of_lt hq, Nat.mod_eq_of_lt (by omega)]

theorem wideningMul_eq {w a b : Nat} (ha : a < B w) (hb : b < B w) :
    Digit.wideningMul w a b = ((a * b) % B w, (a * b) / B w) := by
  unfold Digit.wideningMul
  have h := mul_lt_sq ha hb
  simp only
  rw [Nat.mod_eq_of_lt h]
  have : a * b / B w < B w := (Nat.div_lt_iff_lt_mul (B_pos w)).mpr h
  rw [Nat.mod_eq_of_lt this]

theorem tupleGt_eq {b p x2 rh : Nat} (hb : 0 < b) (hx2 : x2 < b) :
    tupleGt (p % b, p / b) (x2, rh) = decide (rh * b + x2 < p) := by
  unfold tupleGt
  have hdm := Nat.div_add_mod p b
  have hml := Nat.mod_lt p hb
  simp only
  generalize p / b = hi at *
  generalize p % b = lo at *
  rw [Nat.mul_comm] at hdm
  by_cases h1 : hi > rh
  · have : rh * b + x2 < p := by
      have : (rh + 1) * b ≤ hi * b := Nat.mul_le_mul_right b h1
      have e : (rh + 1) * b = rh * b + b := by ring
      omega
    simp [h1, this]
  · by_cases h2 : hi = rh
    · subst h2
      by_cases h3 : lo > x2
      · have : hi * b + x2 < p := by omega
        simp [h3, this]
      · have : ¬ hi * b + x2 < p := by omega
        simp [h3, this]
    · have hlt : hi < rh := by omega
      have : ¬ rh * b + x2 < p := by
        have : (hi + 1) * b ≤ rh * b := Nat.mul_le_mul_right b hlt
        have e : (hi + 1) * b = hi * b + b := by ring
        omega
      simp [h1, h2, this]

theorem qHat_eq {w n j : Nat} {u : List Nat} {x0 x1 x2 v1 v2 : Nat}
    (h0 : remDigit u (j + n) = x0) (h1 : remDigit u (j + n - 1) = x1)
    (h2 : remDigit u (j + n - 2) = x2) (hx0 : x0 < B w) (hx1 : x1 < B w) (hx2 : x2 < B w)
    (hv1 : v1 < B w) (hv2 : v2 < B w) :
    qHat w n v1 v2 u j = qHatN (B w) x0 x1 x2 v1 v2 := by
  unfold qHat qHatN
  rw [h0, h1, h2]
  have hB := B_pos w
  by_cases hlt : x0 < v1
  · simp only [hlt, if_true]
    rw [divRemWide_eq hlt hv1 hx1]
    simp only
    have hdm := Nat.div_add_mod (x0 * B w + x1) v1
    have hml := Nat.mod_lt (x0 * B w + x1) (show 0 < v1 by omega)
    have htop : x0 * B w + x1 < v1 * B w := by
      have : (x0 + 1) * B w ≤ v1 * B w := Nat.mul_le_mul_right _ hlt
      have e : (x0 + 1) * B w = x0 * B w + B w := by ring
      omega
    have hqb : (x0 * B w + x1) / v1 < B w :=
      (Nat.div_lt_iff_lt_mul (by omega)).mpr (by rw [Nat.mul_comm (B w) v1]; exact htop)
    generalize (x0 * B w + x1) / v1 = qh at *
    generalize (x0 * B w + x1) % v1 = rh at *
    rw [wideningMul_eq hqb hv2, tupleGt_eq hB hx2]
    by_cases ht1 : rh * B w + x2 < qh * v2
    · simp only [ht1, decide_true, if_true]
      unfold uCheckedAdd
      by_cases hr1 : rh + v1 < B w
      · simp only [hr1, if_true]
        rw [wideningMul_eq (show qh - 1 < B w by omega) hv2, tupleGt_eq hB hx2]
        by_cases ht2 : (rh + v1) * B w + x2 < (qh - 1) * v2 <;> simp [ht2]
      · simp only [hr1, if_false]
    · simp only [ht1, decide_false, Bool.false_eq_true, if_false]
  · simp only [hlt, if_false]



/-! ### generic list facts -/

theorem WF_take {w L : Nat} {x : List Nat} (hx : WF w L x) (k : Nat) (hk : k ≤ L) :
    WF w k (x.take k) :=
  ⟨by rw [List.length_take, hx.1]; omega, fun d hd => hx.2 d (List.mem_of_mem_take hd)⟩

theorem WF_drop {w L : Nat} {x : List Nat} (hx : WF w L x) (k : Nat) :
    WF w (L - k) (x.drop k) :=
  ⟨by rw [List.length_drop, hx.1], fun d hd => hx.2 d (List.mem_of_mem_drop hd)⟩

theorem WF_append {w k l : Nat} {x y : List Nat} (hx : WF w k x) (hy : WF w l y) :
    WF w (k + l) (x ++ y) :=
  ⟨by rw [List.length_append, hx.1, hy.1], fun d hd => by
    rcases List.mem_append.mp hd with h | h
    · exact hx.2 d h
    · exact hy.2 d h⟩

theorem WF_of_append {w L : Nat} {x y : List Nat} (h : WF w L (x ++ y)) :
    WF w x.length x ∧ WF w y.length y :=
  ⟨⟨rfl, fun d hd => h.2 d (List.mem_append_left _ hd)⟩,
   ⟨rfl, fun d hd => h.2 d (List.mem_append_right _ hd)⟩⟩

theorem U_take_drop (w : Nat) (x : List Nat) (k : Nat) :
    U w x = U w (x.take k) + B w ^ (x.take k).length * U w (x.drop k) := by
  conv_lhs => rw [← List.take_append_drop k x]
  exact U_append w _ _

theorem pow_eq_M (w k : Nat) : B w ^ k = M w k := (M_eq_pow w k).symm

/-! ### `Mul::new` -/

theorem carryingMul_spec {w a b c : Nat} (ha : a < B w) (hb : b < B w) (hc : c < B w) :
    (Digit.carryingMul w a b c 0).1 + B w * (Digit.carryingMul w a b c 0).2 = a * b + c ∧
    (Digit.carryingMul w a b c 0).1 < B w ∧ (Digit.carryingMul w a b c 0).2 < B w := by
  unfold Digit.carryingMul
  have hB := B_pos w
  have hlt : c + 0 + a * b < B w * B w := by
    have h1 : a * b ≤ (B w - 1) * (B w - 1) := Nat.mul_le_mul (by omega) (by omega)
    obtain ⟨k, hk⟩ : ∃ k, B w = k + 1 := ⟨B w - 1, by omega⟩
    rw [hk] at h1 hc ⊢
    simp only [Nat.add_sub_cancel] at h1
    have : (k + 1) * (k + 1) = k * k + 2 * k + 1 := by ring
    omega
  simp only
  rw [Nat.mod_eq_of_lt hlt]
  have hq : (c + 0 + a * b) / B w < B w := (Nat.div_lt_iff_lt_mul hB).mpr hlt
  rw [Nat.mod_eq_of_lt hq]
  refine ⟨?_, Nat.mod_lt _ hB, hq⟩
  have := Nat.mod_add_div (c + 0 + a * b) (B w)
  omega

theorem mulLoop_spec {w q : Nat} (hq : q < B w) : ∀ (k : Nat) (v : List Nat) (c : Nat),
    WF w k v → c < B w →
    WF w (k + 1) (mulLoop w q v c) ∧ U w (mulLoop w q v c) = U w v * q + c := by
  intro k
  induction k with
  | zero =>
    intro v c hv hc
    have := hv.1; simp at this; subst this
    simp only [mulLoop, U_cons, U_nil]
    exact ⟨WF_cons.mpr ⟨hc, WF_nil w⟩, by simp⟩
  | succ k ih =>
    intro v c hv hc
    match v, hv with
    | d :: ds, hv =>
      rw [WF_cons] at hv
      obtain ⟨h1, h2, h3⟩ := carryingMul_spec hv.1 hq hc
      obtain ⟨g1, g2⟩ := ih ds _ hv.2 h3
      simp only [mulLoop]
      refine ⟨WF_cons.mpr ⟨h2, g1⟩, ?_⟩
      simp only [U_cons]
      rw [g2]
      generalize (Digit.carryingMul w d q c 0).1 = p at *
      generalize (Digit.carryingMul w d q c 0).2 = c' at *
      have : B w * (U w ds * q + c') = B w * U w ds * q + B w * c' := by ring
      rw [this]
      have : (d + B w * U w ds) * q = d * q + B w * U w ds * q := by ring
      rw [this]; omega
    | [], hv => exact absurd hv.1 (by simp)

/-! ### the window loops are the big-integer loops of C01 on the window -/

theorem subLoopK_eq (w : Nat) : ∀ (k : Nat) (x hi y yr : List Nat) (c : Bool),
    x.length = k → y.length = k →
    subLoopK w k (x ++ hi) (y ++ yr) c =
      ((UI.subLoop w x y c).1 ++ hi, (UI.subLoop w x y c).2) := by
  intro k
  induction k with
  | zero =>
    intro x hi y yr c hx hy
    have := List.eq_nil_of_length_eq_zero hx; subst this
    have := List.eq_nil_of_length_eq_zero hy; subst this
    simp [subLoopK, UI.subLoop]
  | succ k ih =>
    intro x hi y yr c hx hy
    match x, y, hx, hy with
    | a :: as, b :: bs, hx, hy =>
      simp only [List.cons_append, subLoopK, UI.subLoop]
      rw [ih as hi bs yr _ (by simpa using hx) (by simpa using hy)]
    | [], _, hx, _ => simp at hx
    | _ :: _, [], _, hy => simp at hy

/-- the carry-out step of `Remainder::add` -/
def bump (w : Nat) (c : Bool) (rest : List Nat) : List Nat :=
  if c then
    match rest with
    | x :: r => ((x + 1) % B w) :: r
    | [] => []
  else rest

theorem addLoopK_eq (w : Nat) : ∀ (k : Nat) (x rest y yr : List Nat) (c : Bool),
    x.length = k → y.length = k →
    addLoopK w k (x ++ rest) (y ++ yr) c =
      (UI.addLoop w x y c).1 ++ bump w (UI.addLoop w x y c).2 rest := by
  intro k
  induction k with
  | zero =>
    intro x rest y yr c hx hy
    have := List.eq_nil_of_length_eq_zero hx; subst this
    have := List.eq_nil_of_length_eq_zero hy; subst this
    cases c <;> cases rest <;> simp [addLoopK, UI.addLoop, bump]
  | succ k ih =>
    intro x rest y yr c hx hy
    match x, y, hx, hy with
    | a :: as, b :: bs, hx, hy =>
      simp only [List.cons_append, addLoopK, UI.addLoop]
      rw [ih as rest bs yr _ (by simpa using hx) (by simpa using hy)]
    | [], _, hx, _ => simp at hx
    | _ :: _, [], _, hy => simp at hy




theorem U_all_zero {w : Nat} : ∀ (ds : List Nat), (∀ d ∈ ds, d = 0) → U w ds = 0 :=
  DivL.U_of_all_zero

theorem getD_append_add (l1 l2 : List Nat) (i : Nat) :
    (l1 ++ l2).getD (l1.length + i) 0 = l2.getD i 0 := by
  induction l1 with
  | nil => simp
  | cons d ds ih =>
    rw [List.cons_append, List.length_cons, show ds.length + 1 + i = (ds.length + i) + 1 by omega,
      List.getD_cons_succ]
    exact ih

theorem exists_snoc {w k : Nat} {l : List Nat} (h : WF w (k + 1) l) :
    ∃ l' t, l = l' ++ [t] ∧ WF w k l' ∧ t < B w := by
  have hne : l ≠ [] := by intro h0; rw [h0] at h; exact absurd h.1 (by simp)
  refine ⟨l.dropLast, l.getLast hne, (List.dropLast_append_getLast hne).symm, ⟨?_, ?_⟩, ?_⟩
  · rw [List.length_dropLast, h.1]; rfl
  · intro d hd; exact h.2 d (List.mem_of_mem_dropLast hd)
  · exact h.2 _ (List.getLast_mem hne)

/-- value of the three leading window digits plus the rest -/
theorem U_win (w : Nat) (wlo : List Nat) (x2 x1 x0 : Nat) :
    U w (wlo ++ [x2, x1, x0]) = ((x0 * B w + x1) * B w + x2) * B w ^ wlo.length + U w wlo := by
  rw [U_append]; simp only [U_cons, U_nil]; ring

theorem U_vtop (w : Nat) (vlo : List Nat) (v2 v1 : Nat) :
    U w (vlo ++ [v2, v1]) = (v1 * B w + v2) * B w ^ vlo.length + U w vlo := by
  rw [U_append]; simp only [U_cons, U_nil]; ring

/-- steps D3–D6 for one quotient digit, on an explicitly decomposed remainder and divisor -/
theorem step_spec {w n j : Nat} (hw : 1 ≤ w) (hn2 : 2 ≤ n)
    {lo wlo hi vlo vz : List Nat} {x0 x1 x2 v1 v2 : Nat}
    (hlo : lo.length = j) (hwlo : WF w (n - 2) wlo) (hvlo : WF w (n - 2) vlo)
    (hx0 : x0 < B w) (hx1 : x1 < B w) (hx2 : x2 < B w) (hv1 : v1 < B w) (hv2 : v2 < B w)
    (hvz : ∀ d ∈ vz, d = 0) (hnorm : B w ≤ 2 * v1)
    (hW : U w (wlo ++ [x2, x1, x0]) < U w (vlo ++ [v2, v1]) * B w) :
    ∃ win', step w n ((vlo ++ [v2, v1]) ++ vz) v1 v2 (lo ++ (wlo ++ [x2, x1, x0]) ++ hi) j
        = (lo ++ win' ++ hi, U w (wlo ++ [x2, x1, x0]) / U w (vlo ++ [v2, v1])) ∧
      WF w (n + 1) win' ∧
      U w win' = U w (wlo ++ [x2, x1, x0]) % U w (vlo ++ [v2, v1]) := by
  have hB2 := B_ge_two hw
  have hB := B_pos w
  -- window and divisor as well-formed lists
  have hwin : WF w (n + 1) (wlo ++ [x2, x1, x0]) := by
    have h3 : WF w 3 [x2, x1, x0] := ⟨rfl, by simp; exact ⟨hx2, hx1, hx0⟩⟩
    have := WF_append hwlo h3
    rwa [show n - 2 + 3 = n + 1 by omega] at this
  have hvm : WF w n (vlo ++ [v2, v1]) := by
    have h2 : WF w 2 [v2, v1] := ⟨rfl, by simp; exact ⟨hv2, hv1⟩⟩
    have := WF_append hvlo h2
    rwa [show n - 2 + 2 = n by omega] at this
  -- digits read by D3
  have hidx : ∀ i, (lo ++ (wlo ++ [x2, x1, x0]) ++ hi).getD (j + (n - 2) + i) 0
      = ([x2, x1, x0] ++ hi).getD i 0 := by
    intro i
    rw [List.append_assoc, List.append_assoc, ← hlo, Nat.add_assoc, getD_append_add,
      ← hwlo.1, getD_append_add]
  have h0 : remDigit (lo ++ (wlo ++ [x2, x1, x0]) ++ hi) (j + n) = x0 := by
    unfold remDigit; rw [show j + n = j + (n - 2) + 2 by omega, hidx]; rfl
  have h1 : remDigit (lo ++ (wlo ++ [x2, x1, x0]) ++ hi) (j + n - 1) = x1 := by
    unfold remDigit; rw [show j + n - 1 = j + (n - 2) + 1 by omega, hidx]; rfl
  have h2 : remDigit (lo ++ (wlo ++ [x2, x1, x0]) ++ hi) (j + n - 2) = x2 := by
    unfold remDigit; rw [show j + n - 2 = j + (n - 2) + 0 by omega, hidx]; rfl
  have hqe := qHat_eq (w := w) (n := n) (j := j) h0 h1 h2 hx0 hx1 hx2 hv1 hv2
  -- the estimate
  have hPpos : 0 < B w ^ (n - 2) := Nat.pow_pos hB
  have hwr : U w wlo < B w ^ (n - 2) := by rw [pow_eq_M]; exact U_lt hwlo
  have hvr : U w vlo < B w ^ (n - 2) := by rw [pow_eq_M]; exact U_lt hvlo
  have eW := U_win w wlo x2 x1 x0
  have eV := U_vtop w vlo v2 v1
  rw [hwlo.1] at eW; rw [hvlo.1] at eV
  have hspec := qHatN_spec (b := B w) (P := B w ^ (n - 2)) (x0 := x0) (x1 := x1) (x2 := x2)
    (wr := U w wlo) (v1 := v1) (v2 := v2) (vr := U w vlo) hB2 hx0 hx1 hx2 hv1 hv2 hwr hvr hnorm
    (by rw [← eW, ← eV]; exact hW)
  rw [← eW, ← eV] at hspec
  have hVlt : U w (vlo ++ [v2, v1]) < B w ^ n := by rw [pow_eq_M]; exact U_lt hvm
  have hWlt : U w (wlo ++ [x2, x1, x0]) < B w ^ (n + 1) := by rw [pow_eq_M]; exact U_lt hwin
  have hVpos : 0 < U w (vlo ++ [v2, v1]) := by
    rcases Nat.eq_zero_or_pos (U w (vlo ++ [v2, v1])) with h | h
    · rw [h] at hW; omega
    · exact h
  generalize hWd : U w (wlo ++ [x2, x1, x0]) = W at *
  generalize hVd : U w (vlo ++ [v2, v1]) = V at *
  obtain ⟨hq1, hq2, hq3⟩ := hspec
  -- the product
  have hvfull : WF w (n + vz.length) ((vlo ++ [v2, v1]) ++ vz) :=
    WF_append hvm ⟨rfl, fun d hd => by rw [hvz d hd]; exact hB⟩
  have hUv : U w ((vlo ++ [v2, v1]) ++ vz) = V := by
    rw [U_append, U_all_zero vz hvz, hVd]; simp
  unfold step
  rw [hqe]
  dsimp only
  generalize qHatN (B w) x0 x1 x2 v1 v2 = qh at *
  obtain ⟨hm1, hm2⟩ := mulLoop_spec hq3 _ _ 0 hvfull hB
  rw [hUv] at hm2
  have hmul : mulNew w ((vlo ++ [v2, v1]) ++ vz) qh = mulLoop w qh ((vlo ++ [v2, v1]) ++ vz) 0 := rfl
  rw [hmul]
  generalize mulLoop w qh ((vlo ++ [v2, v1]) ++ vz) 0 = mul at *
  have hmt : WF w (n + 1) (mul.take (n + 1)) := WF_take hm1 _ (by omega)
  have hmv : U w (mul.take (n + 1)) = V * qh := by
    have e := U_take_drop w mul (n + 1)
    rw [hmt.1] at e
    have hlt : V * qh < B w ^ (n + 1) := by
      calc V * qh < B w ^ n * B w := by
            rcases Nat.eq_zero_or_pos qh with h | h
            · rw [h, Nat.mul_zero]; exact Nat.mul_pos (Nat.pow_pos hB) hB
            · calc V * qh < B w ^ n * qh := Nat.mul_lt_mul_of_pos_right hVlt h
                _ ≤ B w ^ n * B w := Nat.mul_le_mul_left _ (by omega)
        _ = B w ^ (n + 1) := (Nat.pow_succ ..).symm
    rcases Nat.eq_zero_or_pos (U w (mul.drop (n + 1))) with h | h
    · rw [h] at e; omega
    · have : B w ^ (n + 1) * 1 ≤ B w ^ (n + 1) * U w (mul.drop (n + 1)) := Nat.mul_le_mul_left _ h
      omega
  -- D4: multiply and subtract
  have htake : (lo ++ (wlo ++ [x2, x1, x0]) ++ hi).take j = lo := by
    rw [List.append_assoc, ← hlo]; exact List.take_left' rfl
  have hdrop : (lo ++ (wlo ++ [x2, x1, x0]) ++ hi).drop j = (wlo ++ [x2, x1, x0]) ++ hi := by
    rw [List.append_assoc, ← hlo]; exact List.drop_left' rfl
  have hsub : remSub w (lo ++ (wlo ++ [x2, x1, x0]) ++ hi) mul j n =
      (lo ++ ((UI.subLoop w (wlo ++ [x2, x1, x0]) (mul.take (n + 1)) false).1 ++ hi),
        (UI.subLoop w (wlo ++ [x2, x1, x0]) (mul.take (n + 1)) false).2) := by
    unfold remSub
    rw [htake, hdrop]
    conv_lhs => rw [← List.take_append_drop (n + 1) mul]
    rw [subLoopK_eq w (n + 1) _ hi _ _ false hwin.1 hmt.1]
  rw [hsub]
  obtain ⟨hs1, hs2⟩ := UI.subLoop_spec (n + 1) _ _ false hwin hmt
  rw [hmv, hWd, ← pow_eq_M] at hs2
  simp only [Bool.toNat_false, Nat.add_zero] at hs2
  generalize hres : (UI.subLoop w (wlo ++ [x2, x1, x0]) (mul.take (n + 1)) false).1 = res at *
  generalize hbor : (UI.subLoop w (wlo ++ [x2, x1, x0]) (mul.take (n + 1)) false).2 = bor at *
  have hreslt : U w res < B w ^ (n + 1) := by rw [pow_eq_M]; exact U_lt hs1
  have hdm := Nat.div_add_mod W V
  have hml := Nat.mod_lt W hVpos
  simp only
  rcases Nat.lt_or_ge (W / V) qh with hgt | hle
  · -- q̂ = q + 1: borrow, add back
    have hqh : qh = W / V + 1 := by omega
    have hVq : V * qh = V * (W / V) + V := by rw [hqh]; ring
    have hb1 : bor = true := by
      cases bor
      · simp only [Bool.toNat_false, Nat.mul_zero, Nat.add_zero] at hs2; omega
      · rfl
    subst hb1
    simp only [Bool.toNat_true, Nat.mul_one, if_true] at hs2 ⊢
    obtain ⟨rlo, top, hr, hrlo, htop⟩ := exists_snoc hs1
    have hUres : U w res = U w rlo + B w ^ n * top := by
      rw [hr, U_append, hrlo.1]; simp
    -- add back
    have hadd : remAdd w (lo ++ (res ++ hi)) ((vlo ++ [v2, v1]) ++ vz) j n =
        lo ++ ((UI.addLoop w rlo (vlo ++ [v2, v1]) false).1 ++
          bump w (UI.addLoop w rlo (vlo ++ [v2, v1]) false).2 (top :: hi)) := by
      unfold remAdd
      rw [← hlo, List.take_left' rfl, List.drop_left' rfl, hr]
      rw [List.append_assoc, List.singleton_append]
      rw [addLoopK_eq w n rlo (top :: hi) (vlo ++ [v2, v1]) vz false hrlo.1 hvm.1]
    rw [hadd]
    obtain ⟨ha1, ha2⟩ := UI.addLoop_spec n rlo _ false hrlo hvm
    rw [hVd, ← pow_eq_M] at ha2
    simp only [Bool.toNat_false, Nat.add_zero] at ha2
    generalize (UI.addLoop w rlo (vlo ++ [v2, v1]) false).1 = sum at *
    generalize (UI.addLoop w rlo (vlo ++ [v2, v1]) false).2 = car at *
    have hsumlt : U w sum < B w ^ n := by rw [pow_eq_M]; exact U_lt ha1
    have hpow : B w ^ (n + 1) = B w ^ n * B w := Nat.pow_succ ..
    have hVlt' := hVlt
    -- top = B - 1 and the carry is set
    have key : car = true ∧ top + 1 = B w := by
      have e1 : B w ^ n * top + B w ^ n * car.toNat + U w sum + V * (W / V) = W + B w ^ n * B w := by
        have : B w ^ n * top + (U w sum + B w ^ n * car.toNat) + V * (W / V) + V
            = W + B w ^ n * B w + V := by
          rw [ha2]; omega
        omega
      have e2 : W + B w ^ n * B w = W % V + V * (W / V) + B w ^ n * B w := by omega
      have e3 : B w ^ n * (top + car.toNat) + U w sum = W % V + B w ^ n * B w := by
        rw [Nat.mul_add]; omega
      have hc1 : car.toNat ≤ 1 := Bool.toNat_le car
      have e4 : top + car.toNat = B w := by
        rcases Nat.lt_trichotomy (top + car.toNat) (B w) with h | h | h
        · have : B w ^ n * (top + car.toNat + 1) ≤ B w ^ n * B w := Nat.mul_le_mul_left _ h
          rw [Nat.mul_add, Nat.mul_one] at this
          omega
        · exact h
        · omega
      cases car
      · simp at e4; omega
      · simp at e4; exact ⟨rfl, e4⟩
    obtain ⟨hc, ht⟩ := key
    subst hc
    have hbump : bump w true (top :: hi) = 0 :: hi := by
      unfold bump; simp only [if_true]; rw [ht, Nat.mod_self]
    rw [hbump]
    refine ⟨sum ++ [0], ?_, ?_, ?_⟩
    · have hq' : qh - 1 = W / V := by rw [hqh]; exact Nat.add_sub_cancel _ _
      rw [hq']
      simp only [List.append_assoc, List.singleton_append]
    · exact WF_append ha1 ⟨rfl, by simp [hB]⟩
    · rw [U_append]; simp only [U_cons, U_nil, Nat.mul_zero, Nat.add_zero]
      simp only [Bool.toNat_true, Nat.mul_one] at ha2
      have : top = B w - 1 := by omega
      have e : B w ^ n * (B w - 1) + B w ^ n = B w ^ n * B w := by
        rw [← Nat.mul_succ, Nat.succ_eq_add_one, Nat.sub_add_cancel hB]
      rw [this] at hUres
      omega
  · -- q̂ = q: no borrow
    have hqh : qh = W / V := by omega
    have hb0 : bor = false := by
      cases bor
      · rfl
      · simp only [Bool.toNat_true, Nat.mul_one] at hs2
        rw [hqh] at hs2; omega
    subst hb0
    simp only [Bool.toNat_false, Nat.mul_zero, Nat.add_zero, Bool.false_eq_true, if_false] at hs2 ⊢
    refine ⟨res, ?_, hs1, ?_⟩
    · rw [hqh, List.append_assoc]
    · rw [hqh] at hs2; omega


end KDL
end Bnum
