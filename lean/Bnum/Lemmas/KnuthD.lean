/-
  Bnum.Lemmas.KnuthD — correctness of `BUint::basecase_div_rem` (Knuth, TAOCP vol. 2, 4.3.1,
  Algorithm D) as modelled in Model/Div.lean (`KD.*`): discharges `KnuthD_correct`.
-/
import Bnum.Lemmas.Div
namespace Bnum
namespace KDL

/-! ### arithmetic core of step D3 (Knuth 4.3.1, Theorem A and exercises 19–21) -/

/-- the estimate of step D3 on natural numbers -/
def qHatN (b x0 x1 x2 v1 v2 : Nat) : Nat :=
  if x0 < v1 then
    let qh := (x0 * b + x1) / v1
    let rh := (x0 * b + x1) % v1
    if rh * b + x2 < qh * v2 then
      if rh + v1 < b then
        (if (rh + v1) * b + x2 < (qh - 1) * v2 then qh - 1 - 1 else qh - 1)
      else qh - 1
    else qh
  else b - 1

/-- if `q̂ (v₁ b + v₂) ≤ u₀ b² + u₁ b + u₂` then `q̂ ≤ q + 1` -/
theorem qhat_upper {b P v1 v2 vr top3 wr qh : Nat} (hv1 : 1 ≤ v1) (hvr : vr < P) (hq : qh < b)
    (hc : qh * (v1 * b + v2) ≤ top3) :
    qh ≤ (top3 * P + wr) / ((v1 * b + v2) * P + vr) + 1 := by
  have hP : 0 < P := by omega
  have hb : 0 < b := by omega
  have hbP : b * P ≤ v1 * b * P := by
    have : 1 * (b * P) ≤ v1 * (b * P) := Nat.mul_le_mul_right _ hv1
    rw [Nat.one_mul, ← Nat.mul_assoc] at this; exact this
  have hV : b * P ≤ (v1 * b + v2) * P + vr := by
    have : (v1 * b + v2) * P = v1 * b * P + v2 * P := by ring
    omega
  have hVpos : 0 < (v1 * b + v2) * P + vr := by
    have : 0 < b * P := Nat.mul_pos hb hP
    omega
  generalize hVd : (v1 * b + v2) * P + vr = V at *
  generalize hWd : top3 * P + wr = W at *
  by_contra hcon
  have hge : W / V + 2 ≤ qh := by omega
  have h1 : W < V * (W / V + 1) := Nat.lt_mul_div_succ W hVpos
  have h2 : (W / V + 2) * V ≤ qh * V := Nat.mul_le_mul_right V hge
  have h3 : qh * V = qh * (v1 * b + v2) * P + qh * vr := by rw [← hVd]; ring
  have h4 : qh * (v1 * b + v2) * P ≤ top3 * P := Nat.mul_le_mul_right P hc
  have h5 : qh * vr < b * P := by
    rcases Nat.eq_zero_or_pos qh with h0 | h0
    · rw [h0, Nat.zero_mul]; exact Nat.mul_pos hb hP
    · calc qh * vr < qh * P := Nat.mul_lt_mul_of_pos_left hvr h0
        _ ≤ b * P := Nat.mul_le_mul_right P (by omega)
  have h6 : (W / V + 2) * V = V * (W / V + 1) + V := by ring
  omega

/-- if `q̂ (v₁ b + v₂) > u₀ b² + u₁ b + u₂` then `q̂ > q` -/
theorem qhat_lower {P vr top3 wr qh vv : Nat} (hwr : wr < P)
    (hc : top3 < qh * vv) :
    (top3 * P + wr) / (vv * P + vr) < qh := by
  by_contra hcon
  have hle : qh ≤ (top3 * P + wr) / (vv * P + vr) := by omega
  generalize hVd : vv * P + vr = V at *
  generalize hWd : top3 * P + wr = W at *
  have h1 : W / V * V ≤ W := Nat.div_mul_le_self W V
  have h2 : qh * V ≤ W / V * V := Nat.mul_le_mul_right V hle
  have h3 : qh * V = qh * vv * P + qh * vr := by rw [← hVd]; ring
  have h4 : (top3 + 1) * P ≤ qh * vv * P := Nat.mul_le_mul_right P hc
  have h5 : (top3 + 1) * P = top3 * P + P := by ring
  omega

/-- Theorem A: `q ≤ ⌊(u₀ b + u₁) / v₁⌋` -/
theorem thmA {b P v1 v2 vr top2 x2 wr : Nat} (hv1 : 1 ≤ v1) (hx2 : x2 < b) (hwr : wr < P) :
    ((top2 * b + x2) * P + wr) / ((v1 * b + v2) * P + vr) ≤ top2 / v1 := by
  have hP : 0 < P := by omega
  have hb : 0 < b := by omega
  rw [Nat.le_div_iff_mul_le (by omega)]
  generalize hVd : (v1 * b + v2) * P + vr = V at *
  generalize hWd : (top2 * b + x2) * P + wr = W at *
  have h1 : W / V * V ≤ W := Nat.div_mul_le_self W V
  have h2 : W / V * (v1 * (b * P)) ≤ W / V * V := by
    apply Nat.mul_le_mul_left
    rw [← hVd]
    have : (v1 * b + v2) * P = v1 * (b * P) + v2 * P := by ring
    omega
  have h3 : W < (top2 + 1) * (b * P) := by
    rw [← hWd]
    have e1 : (top2 + 1) * (b * P) = top2 * b * P + b * P := by ring
    have e2 : (top2 * b + x2) * P = top2 * b * P + x2 * P := by ring
    have e3 : (x2 + 1) * P ≤ b * P := Nat.mul_le_mul_right P hx2
    have e4 : (x2 + 1) * P = x2 * P + P := by ring
    omega
  have h4 : W / V * v1 * (b * P) < (top2 + 1) * (b * P) := by
    have : W / V * v1 * (b * P) = W / V * (v1 * (b * P)) := by ring
    omega
  have := Nat.lt_of_mul_lt_mul_right h4
  omega


theorem cond_iff {b v1 v2 x2 top2 k r : Nat} (h : top2 = v1 * k + r) :
    k * (v1 * b + v2) ≤ top2 * b + x2 ↔ k * v2 ≤ r * b + x2 := by
  subst h
  have e1 : k * (v1 * b + v2) = k * v1 * b + k * v2 := by ring
  have e2 : (v1 * k + r) * b + x2 = k * v1 * b + r * b + x2 := by ring
  rw [e1, e2]; omega

theorem mul_lt_sq {b k v2 : Nat} (hk : k < b) (hv2 : v2 < b) : k * v2 < b * b := by
  rcases Nat.eq_zero_or_pos k with h0 | h0
  · rw [h0, Nat.zero_mul]; exact Nat.mul_pos (by omega) (by omega)
  · calc k * v2 < k * b := Nat.mul_lt_mul_of_pos_left hv2 h0
      _ ≤ b * b := Nat.mul_le_mul_right b (by omega)

/-- D3 is correct: the estimate is `q` or `q + 1` -/
theorem qHatN_spec {b P x0 x1 x2 wr v1 v2 vr : Nat} (hb : 2 ≤ b) (hx0 : x0 < b) (hx1 : x1 < b)
    (hx2 : x2 < b) (hv1 : v1 < b) (hv2 : v2 < b) (hwr : wr < P) (hvr : vr < P)
    (hnorm : b ≤ 2 * v1)
    (hW : ((x0 * b + x1) * b + x2) * P + wr < ((v1 * b + v2) * P + vr) * b) :
    (((x0 * b + x1) * b + x2) * P + wr) / ((v1 * b + v2) * P + vr) ≤ qHatN b x0 x1 x2 v1 v2 ∧
    qHatN b x0 x1 x2 v1 v2 ≤ (((x0 * b + x1) * b + x2) * P + wr) / ((v1 * b + v2) * P + vr) + 1 ∧
    qHatN b x0 x1 x2 v1 v2 < b := by
  have hv1p : 1 ≤ v1 := by omega
  have hP : 0 < P := by omega
  unfold qHatN
  by_cases hlt : x0 < v1
  · rw [if_pos hlt]
    simp only
    have hdm := Nat.div_add_mod (x0 * b + x1) v1
    have hml := Nat.mod_lt (x0 * b + x1) (show 0 < v1 by omega)
    have htop : x0 * b + x1 < v1 * b := by
      have : (x0 + 1) * b ≤ v1 * b := Nat.mul_le_mul_right b hlt
      have e : (x0 + 1) * b = x0 * b + b := by ring
      omega
    have hqb : (x0 * b + x1) / v1 < b := (Nat.div_lt_iff_lt_mul (by omega)).mpr (by rw [Nat.mul_comm b v1]; exact htop)
    have hA := thmA (b := b) (P := P) (v1 := v1) (v2 := v2) (vr := vr) (top2 := x0 * b + x1)
      (x2 := x2) (wr := wr) hv1p hx2 hwr
    generalize (x0 * b + x1) / v1 = qh at *
    generalize (x0 * b + x1) % v1 = rh at *
    generalize hq : (((x0 * b + x1) * b + x2) * P + wr) / ((v1 * b + v2) * P + vr) = q at *
    by_cases ht1 : rh * b + x2 < qh * v2
    · rw [if_pos ht1]
      have hnc : (x0 * b + x1) * b + x2 < qh * (v1 * b + v2) := by
        have := (cond_iff (b := b) (v2 := v2) (x2 := x2) hdm.symm).not
        omega
      have hlow := qhat_lower (P := P) (vr := vr) (wr := wr) hwr hnc
      rw [hq] at hlow
      have hq1 : 1 ≤ qh := by omega
      have hdm1 : x0 * b + x1 = v1 * (qh - 1) + (rh + v1) := by
        have : v1 * qh = v1 * (qh - 1) + v1 := by
          have : qh = (qh - 1) + 1 := by omega
          conv_lhs => rw [this]
          ring
        omega
      by_cases hr1 : rh + v1 < b
      · rw [if_pos hr1]
        by_cases ht2 : (rh + v1) * b + x2 < (qh - 1) * v2
        · rw [if_pos ht2]
          have hnc2 : (x0 * b + x1) * b + x2 < (qh - 1) * (v1 * b + v2) := by
            have := (cond_iff (b := b) (v2 := v2) (x2 := x2) hdm1).not
            omega
          have hlow2 := qhat_lower (P := P) (vr := vr) (wr := wr) hwr hnc2
          rw [hq] at hlow2
          have hq2 : 2 ≤ qh := by omega
          have hdm2 : x0 * b + x1 = v1 * (qh - 1 - 1) + (rh + v1 + v1) := by
            have : v1 * (qh - 1) = v1 * (qh - 1 - 1) + v1 := by
              have : qh - 1 = (qh - 1 - 1) + 1 := by omega
              conv_lhs => rw [this]
              ring
            omega
          have hc : (qh - 1 - 1) * (v1 * b + v2) ≤ (x0 * b + x1) * b + x2 := by
            rw [cond_iff hdm2]
            have h1 := mul_lt_sq (b := b) (k := qh - 1 - 1) (v2 := v2) (by omega) hv2
            have h2 : b * b ≤ (rh + v1 + v1) * b := Nat.mul_le_mul_right b (by omega)
            omega
          have hup := qhat_upper (P := P) (vr := vr) (wr := wr) hv1p hvr (show qh - 1 - 1 < b by omega) hc
          rw [hq] at hup
          omega
        · rw [if_neg ht2]
          have hc : (qh - 1) * (v1 * b + v2) ≤ (x0 * b + x1) * b + x2 := by
            rw [cond_iff hdm1]; omega
          have hup := qhat_upper (P := P) (vr := vr) (wr := wr) hv1p hvr (show qh - 1 < b by omega) hc
          rw [hq] at hup
          omega
      · rw [if_neg hr1]
        have hc : (qh - 1) * (v1 * b + v2) ≤ (x0 * b + x1) * b + x2 := by
          rw [cond_iff hdm1]
          have h1 := mul_lt_sq (b := b) (k := qh - 1) (v2 := v2) (by omega) hv2
          have h2 : b * b ≤ (rh + v1) * b := Nat.mul_le_mul_right b (by omega)
          omega
        have hup := qhat_upper (P := P) (vr := vr) (wr := wr) hv1p hvr (show qh - 1 < b by omega) hc
        rw [hq] at hup
        omega
    · rw [if_neg ht1]
      have hc : qh * (v1 * b + v2) ≤ (x0 * b + x1) * b + x2 := by
        rw [cond_iff hdm.symm]; omega
      have hup := qhat_upper (P := P) (vr := vr) (wr := wr) hv1p hvr hqb hc
      rw [hq] at hup
      omega
  · rw [if_neg hlt]
    have hVpos : 0 < (v1 * b + v2) * P + vr := by
      have : 0 < v1 * b * P := Nat.mul_pos (Nat.mul_pos (by omega) (by omega)) hP
      have e : (v1 * b + v2) * P = v1 * b * P + v2 * P := by ring
      omega
    have hqlt : (((x0 * b + x1) * b + x2) * P + wr) / ((v1 * b + v2) * P + vr) < b :=
      (Nat.div_lt_iff_lt_mul hVpos).mpr (by rw [Nat.mul_comm b ((v1 * b + v2) * P + vr)]; exact hW)
    have hqge : b - 2 ≤ (((x0 * b + x1) * b + x2) * P + wr) / ((v1 * b + v2) * P + vr) := by
      rw [Nat.le_div_iff_mul_le hVpos]
      -- V ≤ (v1 + 1) b P
      have hV : (v1 * b + v2) * P + vr ≤ (v1 + 1) * (b * P) := by
        have e1 : (v1 * b + v2) * P = v1 * (b * P) + v2 * P := by ring
        have e2 : (v1 + 1) * (b * P) = v1 * (b * P) + b * P := by ring
        have e3 : (v2 + 1) * P ≤ b * P := Nat.mul_le_mul_right P hv2
        have e4 : (v2 + 1) * P = v2 * P + P := by ring
        omega
      have h1 : (b - 2) * ((v1 * b + v2) * P + vr) ≤ (b - 2) * ((v1 + 1) * (b * P)) :=
        Nat.mul_le_mul_left _ hV
      have h2 : (b - 2) * ((v1 + 1) * (b * P)) = ((b - 2) * (v1 + 1)) * (b * P) := by ring
      have h3 : (b - 2) * (v1 + 1) ≤ v1 * b := by
        obtain ⟨c, rfl⟩ : ∃ c, b = c + 2 := ⟨b - 2, by omega⟩
        simp only [Nat.add_sub_cancel]
        have : c * (v1 + 1) = c * v1 + c := by ring
        have : v1 * (c + 2) = c * v1 + 2 * v1 := by ring
        omega
      have h4 : ((b - 2) * (v1 + 1)) * (b * P) ≤ (v1 * b) * (b * P) := Nat.mul_le_mul_right _ h3
      have h5 : (v1 * b) * (b * P) ≤ (x0 * b) * (b * P) :=
        Nat.mul_le_mul_right _ (Nat.mul_le_mul_right b (by omega))
      have h6 : ((x0 * b + x1) * b + x2) * P + wr = (x0 * b) * (b * P) + x1 * b * P + x2 * P + wr := by
        ring
      omega
    omega


open KD


/-! ### the model's D3 is `qHatN` -/

theorem divRemWide_eq {w low high rhs : Nat} (h1 : high < rhs) (h2 : rhs < B w) (h3 : low < B w) :
    Digit.divRemWide w low high rhs = ((high * B w + low) / rhs, (high * B w + low) % rhs) := by
  unfold Digit.divRemWide
  have hB := B_pos w
  have hlt : high * B w < B w * B w := Nat.mul_lt_mul_of_pos_right (by omega) hB
  simp only
  rw [Nat.mod_eq_of_lt hlt, mul_B_or high low h3]
  have hpos : 0 < rhs := by omega
  have ha : high * B w + low < rhs * B w := by
    have : (high + 1) * B w ≤ rhs * B w := Nat.mul_le_mul_right _ h1
    rw [Nat.add_mul] at this; omega
  generalize high * B w + low = a at *
  have hq : a / rhs < B w := (Nat.div_lt_iff_lt_mul hpos).mpr (by rw [Nat.mul_comm]; exact ha)
  have hr : a % rhs < rhs := Nat.mod_lt _ hpos
  rw [Nat.mod_eq_of_lt hq, Nat.mod_eq_of_lt (by omega)]

theorem wideningMul_eq {w a b : Nat} (ha : a < B w) (hb : b < B w) :
    Digit.wideningMul w a b = ((a * b) % B w, (a * b) / B w) := by
  unfold Digit.wideningMul
  have h := mul_lt_sq ha hb
  simp only
  rw [Nat.mod_eq_of_lt h]
  have : a * b / B w < B w := (Nat.div_lt_iff_lt_mul (B_pos w)).mpr h
  rw [Nat.mod_eq_of_lt this]

theorem tupleGt_eq {b p x2 rh : Nat} (hb : 0 < b) (hx2 : x2 < b) :
    tupleGt (p % b, p / b) (x2, rh) = decide (rh * b + x2 < p) := by
  unfold tupleGt
  have hdm := Nat.div_add_mod p b
  have hml := Nat.mod_lt p hb
  simp only
  generalize p / b = hi at *
  generalize p % b = lo at *
  rw [Nat.mul_comm] at hdm
  by_cases h1 : hi > rh
  · have : rh * b + x2 < p := by
      have : (rh + 1) * b ≤ hi * b := Nat.mul_le_mul_right b h1
      have e : (rh + 1) * b = rh * b + b := by ring
      omega
    simp [h1, this]
  · by_cases h2 : hi = rh
    · subst h2
      by_cases h3 : lo > x2
      · have : hi * b + x2 < p := by omega
        simp [h3, this]
      · have : ¬ hi * b + x2 < p := by omega
        simp [h3, this]
    · have hlt : hi < rh := by omega
      have : ¬ rh * b + x2 < p := by
        have : (hi + 1) * b ≤ rh * b := Nat.mul_le_mul_right b hlt
        have e : (hi + 1) * b = hi * b + b := by ring
        omega
      simp [h1, h2, this]

theorem qHat_eq {w n j : Nat} {u : List Nat} {x0 x1 x2 v1 v2 : Nat}
    (h0 : remDigit u (j + n) = x0) (h1 : remDigit u (j + n - 1) = x1)
    (h2 : remDigit u (j + n - 2) = x2) (hx0 : x0 < B w) (hx1 : x1 < B w) (hx2 : x2 < B w)
    (hv1 : v1 < B w) (hv2 : v2 < B w) :
    qHat w n v1 v2 u j = qHatN (B w) x0 x1 x2 v1 v2 := by
  unfold qHat qHatN
  rw [h0, h1, h2]
  have hB := B_pos w
  by_cases hlt : x0 < v1
  · simp only [hlt, if_true]
    rw [divRemWide_eq hlt hv1 hx1]
    simp only
    have hdm := Nat.div_add_mod (x0 * B w + x1) v1
    have hml := Nat.mod_lt (x0 * B w + x1) (show 0 < v1 by omega)
    have htop : x0 * B w + x1 < v1 * B w := by
      have : (x0 + 1) * B w ≤ v1 * B w := Nat.mul_le_mul_right _ hlt
      have e : (x0 + 1) * B w = x0 * B w + B w := by ring
      omega
    have hqb : (x0 * B w + x1) / v1 < B w :=
      (Nat.div_lt_iff_lt_mul (by omega)).mpr (by rw [Nat.mul_comm (B w) v1]; exact htop)
    generalize (x0 * B w + x1) / v1 = qh at *
    generalize (x0 * B w + x1) % v1 = rh at *
    rw [wideningMul_eq hqb hv2, tupleGt_eq hB hx2]
    by_cases ht1 : rh * B w + x2 < qh * v2
    · simp only [ht1, decide_true, if_true]
      unfold uCheckedAdd
      by_cases hr1 : rh + v1 < B w
      · simp only [hr1, if_true]
        rw [wideningMul_eq (show qh - 1 < B w by omega) hv2, tupleGt_eq hB hx2]
        by_cases ht2 : (rh + v1) * B w + x2 < (qh - 1) * v2 <;> simp [ht2]
      · simp only [hr1, if_false]
    · simp only [ht1, decide_false, Bool.false_eq_true, if_false]
  · simp only [hlt, if_false]



/-! ### generic list facts -/

theorem WF_take {w L : Nat} {x : List Nat} (hx : WF w L x) (k : Nat) (hk : k ≤ L) :
    WF w k (x.take k) :=
  ⟨by rw [List.length_take, hx.1]; omega, fun d hd => hx.2 d (List.mem_of_mem_take hd)⟩

theorem WF_drop {w L : Nat} {x : List Nat} (hx : WF w L x) (k : Nat) :
    WF w (L - k) (x.drop k) :=
  ⟨by rw [List.length_drop, hx.1], fun d hd => hx.2 d (List.mem_of_mem_drop hd)⟩

theorem WF_append {w k l : Nat} {x y : List Nat} (hx : WF w k x) (hy : WF w l y) :
    WF w (k + l) (x ++ y) :=
  ⟨by rw [List.length_append, hx.1, hy.1], fun d hd => by
    rcases List.mem_append.mp hd with h | h
    · exact hx.2 d h
    · exact hy.2 d h⟩

theorem WF_of_append {w L : Nat} {x y : List Nat} (h : WF w L (x ++ y)) :
    WF w x.length x ∧ WF w y.length y :=
  ⟨⟨rfl, fun d hd => h.2 d (List.mem_append_left _ hd)⟩,
   ⟨rfl, fun d hd => h.2 d (List.mem_append_right _ hd)⟩⟩

theorem U_take_drop (w : Nat) (x : List Nat) (k : Nat) :
    U w x = U w (x.take k) + B w ^ (x.take k).length * U w (x.drop k) := by
  conv_lhs => rw [← List.take_append_drop k x]
  exact U_append w _ _

theorem pow_eq_M (w k : Nat) : B w ^ k = M w k := (M_eq_pow w k).symm

/-! ### `Mul::new` -/

theorem carryingMul_spec {w a b c : Nat} (ha : a < B w) (hb : b < B w) (hc : c < B w) :
    (Digit.carryingMul w a b c 0).1 + B w * (Digit.carryingMul w a b c 0).2 = a * b + c ∧
    (Digit.carryingMul w a b c 0).1 < B w ∧ (Digit.carryingMul w a b c 0).2 < B w := by
  unfold Digit.carryingMul
  have hB := B_pos w
  have hlt : c + 0 + a * b < B w * B w := by
    have h1 : a * b ≤ (B w - 1) * (B w - 1) := Nat.mul_le_mul (by omega) (by omega)
    obtain ⟨k, hk⟩ : ∃ k, B w = k + 1 := ⟨B w - 1, by omega⟩
    rw [hk] at h1 hc ⊢
    simp only [Nat.add_sub_cancel] at h1
    have : (k + 1) * (k + 1) = k * k + 2 * k + 1 := by ring
    omega
  simp only
  rw [Nat.mod_eq_of_lt hlt]
  have hq : (c + 0 + a * b) / B w < B w := (Nat.div_lt_iff_lt_mul hB).mpr hlt
  rw [Nat.mod_eq_of_lt hq]
  refine ⟨?_, Nat.mod_lt _ hB, hq⟩
  have := Nat.mod_add_div (c + 0 + a * b) (B w)
  omega

theorem mulLoop_spec {w q : Nat} (hq : q < B w) : ∀ (k : Nat) (v : List Nat) (c : Nat),
    WF w k v → c < B w →
    WF w (k + 1) (mulLoop w q v c) ∧ U w (mulLoop w q v c) = U w v * q + c := by
  intro k
  induction k with
  | zero =>
    intro v c hv hc
    have := hv.1; simp at this; subst this
    simp only [mulLoop, U_cons, U_nil]
    exact ⟨WF_cons.mpr ⟨hc, WF_nil w⟩, by simp⟩
  | succ k ih =>
    intro v c hv hc
    match v, hv with
    | d :: ds, hv =>
      rw [WF_cons] at hv
      obtain ⟨h1, h2, h3⟩ := carryingMul_spec hv.1 hq hc
      obtain ⟨g1, g2⟩ := ih ds _ hv.2 h3
      simp only [mulLoop]
      refine ⟨WF_cons.mpr ⟨h2, g1⟩, ?_⟩
      simp only [U_cons]
      rw [g2]
      generalize (Digit.carryingMul w d q c 0).1 = p at *
      generalize (Digit.carryingMul w d q c 0).2 = c' at *
      have : B w * (U w ds * q + c') = B w * U w ds * q + B w * c' := by ring
      rw [this]
      have : (d + B w * U w ds) * q = d * q + B w * U w ds * q := by ring
      rw [this]; omega
    | [], hv => exact absurd hv.1 (by simp)

/-! ### the window loops are the big-integer loops of C01 on the window -/

theorem subLoopK_eq (w : Nat) : ∀ (k : Nat) (x hi y yr : List Nat) (c : Bool),
    x.length = k → y.length = k →
    subLoopK w k (x ++ hi) (y ++ yr) c =
      ((UI.subLoop w x y c).1 ++ hi, (UI.subLoop w x y c).2) := by
  intro k
  induction k with
  | zero =>
    intro x hi y yr c hx hy
    have := List.eq_nil_of_length_eq_zero hx; subst this
    have := List.eq_nil_of_length_eq_zero hy; subst this
    simp [subLoopK, UI.subLoop]
  | succ k ih =>
    intro x hi y yr c hx hy
    match x, y, hx, hy with
    | a :: as, b :: bs, hx, hy =>
      simp only [List.cons_append, subLoopK, UI.subLoop]
      rw [ih as hi bs yr _ (by simpa using hx) (by simpa using hy)]
    | [], _, hx, _ => simp at hx
    | _ :: _, [], _, hy => simp at hy

/-- the carry-out step of `Remainder::add` -/
def bump (w : Nat) (c : Bool) (rest : List Nat) : List Nat :=
  if c then
    match rest with
    | x :: r => ((x + 1) % B w) :: r
    | [] => []
  else rest

theorem addLoopK_eq (w : Nat) : ∀ (k : Nat) (x rest y yr : List Nat) (c : Bool),
    x.length = k → y.length = k →
    addLoopK w k (x ++ rest) (y ++ yr) c =
      (UI.addLoop w x y c).1 ++ bump w (UI.addLoop w x y c).2 rest := by
  intro k
  induction k with
  | zero =>
    intro x rest y yr c hx hy
    have := List.eq_nil_of_length_eq_zero hx; subst this
    have := List.eq_nil_of_length_eq_zero hy; subst this
    cases c <;> cases rest <;> simp [addLoopK, UI.addLoop, bump]
  | succ k ih =>
    intro x rest y yr c hx hy
    match x, y, hx, hy with
    | a :: as, b :: bs, hx, hy =>
      simp only [List.cons_append, addLoopK, UI.addLoop]
      rw [ih as rest bs yr _ (by simpa using hx) (by simpa using hy)]
    | [], _, hx, _ => simp at hx
    | _ :: _, [], _, hy => simp at hy




theorem U_all_zero {w : Nat} : ∀ (ds : List Nat), (∀ d ∈ ds, d = 0) → U w ds = 0 :=
  DivL.U_of_all_zero

theorem getD_append_add (l1 l2 : List Nat) (i : Nat) :
    (l1 ++ l2).getD (l1.length + i) 0 = l2.getD i 0 := by
  induction l1 with
  | nil => simp
  | cons d ds ih =>
    rw [List.cons_append, List.length_cons, show ds.length + 1 + i = (ds.length + i) + 1 by omega,
      List.getD_cons_succ]
    exact ih

theorem exists_snoc {w k : Nat} {l : List Nat} (h : WF w (k + 1) l) :
    ∃ l' t, l = l' ++ [t] ∧ WF w k l' ∧ t < B w := by
  have hne : l ≠ [] := by intro h0; rw [h0] at h; exact absurd h.1 (by simp)
  refine ⟨l.dropLast, l.getLast hne, (List.dropLast_append_getLast hne).symm, ⟨?_, ?_⟩, ?_⟩
  · rw [List.length_dropLast, h.1]; rfl
  · intro d hd; exact h.2 d (List.mem_of_mem_dropLast hd)
  · exact h.2 _ (List.getLast_mem hne)

/-- value of the three leading window digits plus the rest -/
theorem U_win (w : Nat) (wlo : List Nat) (x2 x1 x0 : Nat) :
    U w (wlo ++ [x2, x1, x0]) = ((x0 * B w + x1) * B w + x2) * B w ^ wlo.length + U w wlo := by
  rw [U_append]; simp only [U_cons, U_nil]; ring

theorem U_vtop (w : Nat) (vlo : List Nat) (v2 v1 : Nat) :
    U w (vlo ++ [v2, v1]) = (v1 * B w + v2) * B w ^ vlo.length + U w vlo := by
  rw [U_append]; simp only [U_cons, U_nil]; ring

/-- steps D3–D6 for one quotient digit, on an explicitly decomposed remainder and divisor -/
theorem step_spec {w n j : Nat} (hw : 1 ≤ w) (hn2 : 2 ≤ n)
    {lo wlo hi vlo vz : List Nat} {x0 x1 x2 v1 v2 : Nat}
    (hlo : lo.length = j) (hwlo : WF w (n - 2) wlo) (hvlo : WF w (n - 2) vlo)
    (hx0 : x0 < B w) (hx1 : x1 < B w) (hx2 : x2 < B w) (hv1 : v1 < B w) (hv2 : v2 < B w)
    (hvz : ∀ d ∈ vz, d = 0) (hnorm : B w ≤ 2 * v1)
    (hW : U w (wlo ++ [x2, x1, x0]) < U w (vlo ++ [v2, v1]) * B w) :
    ∃ win', step w n ((vlo ++ [v2, v1]) ++ vz) v1 v2 (lo ++ (wlo ++ [x2, x1, x0]) ++ hi) j
        = (lo ++ win' ++ hi, U w (wlo ++ [x2, x1, x0]) / U w (vlo ++ [v2, v1])) ∧
      WF w (n + 1) win' ∧
      U w win' = U w (wlo ++ [x2, x1, x0]) % U w (vlo ++ [v2, v1]) := by
  have hB2 := B_ge_two hw
  have hB := B_pos w
  -- window and divisor as well-formed lists
  have hwin : WF w (n + 1) (wlo ++ [x2, x1, x0]) := by
    have h3 : WF w 3 [x2, x1, x0] := ⟨rfl, by simp; exact ⟨hx2, hx1, hx0⟩⟩
    have := WF_append hwlo h3
    rwa [show n - 2 + 3 = n + 1 by omega] at this
  have hvm : WF w n (vlo ++ [v2, v1]) := by
    have h2 : WF w 2 [v2, v1] := ⟨rfl, by simp; exact ⟨hv2, hv1⟩⟩
    have := WF_append hvlo h2
    rwa [show n - 2 + 2 = n by omega] at this
  -- digits read by D3
  have hidx : ∀ i, (lo ++ (wlo ++ [x2, x1, x0]) ++ hi).getD (j + (n - 2) + i) 0
      = ([x2, x1, x0] ++ hi).getD i 0 := by
    intro i
    rw [List.append_assoc, List.append_assoc, ← hlo, Nat.add_assoc, getD_append_add,
      ← hwlo.1, getD_append_add]
  have h0 : remDigit (lo ++ (wlo ++ [x2, x1, x0]) ++ hi) (j + n) = x0 := by
    unfold remDigit; rw [show j + n = j + (n - 2) + 2 by omega, hidx]; rfl
  have h1 : remDigit (lo ++ (wlo ++ [x2, x1, x0]) ++ hi) (j + n - 1) = x1 := by
    unfold remDigit; rw [show j + n - 1 = j + (n - 2) + 1 by omega, hidx]; rfl
  have h2 : remDigit (lo ++ (wlo ++ [x2, x1, x0]) ++ hi) (j + n - 2) = x2 := by
    unfold remDigit; rw [show j + n - 2 = j + (n - 2) + 0 by omega, hidx]; rfl
  have hqe := qHat_eq (w := w) (n := n) (j := j) h0 h1 h2 hx0 hx1 hx2 hv1 hv2
  -- the estimate
  have hPpos : 0 < B w ^ (n - 2) := Nat.pow_pos hB
  have hwr : U w wlo < B w ^ (n - 2) := by rw [pow_eq_M]; exact U_lt hwlo
  have hvr : U w vlo < B w ^ (n - 2) := by rw [pow_eq_M]; exact U_lt hvlo
  have eW := U_win w wlo x2 x1 x0
  have eV := U_vtop w vlo v2 v1
  rw [hwlo.1] at eW; rw [hvlo.1] at eV
  have hspec := qHatN_spec (b := B w) (P := B w ^ (n - 2)) (x0 := x0) (x1 := x1) (x2 := x2)
    (wr := U w wlo) (v1 := v1) (v2 := v2) (vr := U w vlo) hB2 hx0 hx1 hx2 hv1 hv2 hwr hvr hnorm
    (by rw [← eW, ← eV]; exact hW)
  rw [← eW, ← eV] at hspec
  have hVlt : U w (vlo ++ [v2, v1]) < B w ^ n := by rw [pow_eq_M]; exact U_lt hvm
  have hWlt : U w (wlo ++ [x2, x1, x0]) < B w ^ (n + 1) := by rw [pow_eq_M]; exact U_lt hwin
  have hVpos : 0 < U w (vlo ++ [v2, v1]) := by
    rcases Nat.eq_zero_or_pos (U w (vlo ++ [v2, v1])) with h | h
    · rw [h] at hW; omega
    · exact h
  generalize hWd : U w (wlo ++ [x2, x1, x0]) = W at *
  generalize hVd : U w (vlo ++ [v2, v1]) = V at *
  obtain ⟨hq1, hq2, hq3⟩ := hspec
  -- the product
  have hvfull : WF w (n + vz.length) ((vlo ++ [v2, v1]) ++ vz) :=
    WF_append hvm ⟨rfl, fun d hd => by rw [hvz d hd]; exact hB⟩
  have hUv : U w ((vlo ++ [v2, v1]) ++ vz) = V := by
    rw [U_append, U_all_zero vz hvz, hVd]; simp
  unfold step
  rw [hqe]
  dsimp only
  generalize qHatN (B w) x0 x1 x2 v1 v2 = qh at *
  obtain ⟨hm1, hm2⟩ := mulLoop_spec hq3 _ _ 0 hvfull hB
  rw [hUv] at hm2
  have hmul : mulNew w ((vlo ++ [v2, v1]) ++ vz) qh = mulLoop w qh ((vlo ++ [v2, v1]) ++ vz) 0 := rfl
  rw [hmul]
  generalize mulLoop w qh ((vlo ++ [v2, v1]) ++ vz) 0 = mul at *
  have hmt : WF w (n + 1) (mul.take (n + 1)) := WF_take hm1 _ (by omega)
  have hmv : U w (mul.take (n + 1)) = V * qh := by
    have e := U_take_drop w mul (n + 1)
    rw [hmt.1] at e
    have hlt : V * qh < B w ^ (n + 1) := by
      calc V * qh < B w ^ n * B w := by
            rcases Nat.eq_zero_or_pos qh with h | h
            · rw [h, Nat.mul_zero]; exact Nat.mul_pos (Nat.pow_pos hB) hB
            · calc V * qh < B w ^ n * qh := Nat.mul_lt_mul_of_pos_right hVlt h
                _ ≤ B w ^ n * B w := Nat.mul_le_mul_left _ (by omega)
        _ = B w ^ (n + 1) := (Nat.pow_succ ..).symm
    rcases Nat.eq_zero_or_pos (U w (mul.drop (n + 1))) with h | h
    · rw [h] at e; omega
    · have : B w ^ (n + 1) * 1 ≤ B w ^ (n + 1) * U w (mul.drop (n + 1)) := Nat.mul_le_mul_left _ h
      omega
  -- D4: multiply and subtract
  have htake : (lo ++ (wlo ++ [x2, x1, x0]) ++ hi).take j = lo := by
    rw [List.append_assoc, ← hlo]; exact List.take_left' rfl
  have hdrop : (lo ++ (wlo ++ [x2, x1, x0]) ++ hi).drop j = (wlo ++ [x2, x1, x0]) ++ hi := by
    rw [List.append_assoc, ← hlo]; exact List.drop_left' rfl
  have hsub : remSub w (lo ++ (wlo ++ [x2, x1, x0]) ++ hi) mul j n =
      (lo ++ ((UI.subLoop w (wlo ++ [x2, x1, x0]) (mul.take (n + 1)) false).1 ++ hi),
        (UI.subLoop w (wlo ++ [x2, x1, x0]) (mul.take (n + 1)) false).2) := by
    unfold remSub
    rw [htake, hdrop]
    conv_lhs => rw [← List.take_append_drop (n + 1) mul]
    rw [subLoopK_eq w (n + 1) _ hi _ _ false hwin.1 hmt.1]
  rw [hsub]
  obtain ⟨hs1, hs2⟩ := UI.subLoop_spec (n + 1) _ _ false hwin hmt
  rw [hmv, hWd, ← pow_eq_M] at hs2
  simp only [Bool.toNat_false, Nat.add_zero] at hs2
  generalize hres : (UI.subLoop w (wlo ++ [x2, x1, x0]) (mul.take (n + 1)) false).1 = res at *
  generalize hbor : (UI.subLoop w (wlo ++ [x2, x1, x0]) (mul.take (n + 1)) false).2 = bor at *
  have hreslt : U w res < B w ^ (n + 1) := by rw [pow_eq_M]; exact U_lt hs1
  have hdm := Nat.div_add_mod W V
  have hml := Nat.mod_lt W hVpos
  simp only
  rcases Nat.lt_or_ge (W / V) qh with hgt | hle
  · -- q̂ = q + 1: borrow, add back
    have hqh : qh = W / V + 1 := by omega
    have hVq : V * qh = V * (W / V) + V := by rw [hqh]; ring
    have hb1 : bor = true := by
      cases bor
      · simp only [Bool.toNat_false, Nat.mul_zero, Nat.add_zero] at hs2; omega
      · rfl
    subst hb1
    simp only [Bool.toNat_true, Nat.mul_one, if_true] at hs2 ⊢
    obtain ⟨rlo, top, hr, hrlo, htop⟩ := exists_snoc hs1
    have hUres : U w res = U w rlo + B w ^ n * top := by
      rw [hr, U_append, hrlo.1]; simp
    -- add back
    have hadd : remAdd w (lo ++ (res ++ hi)) ((vlo ++ [v2, v1]) ++ vz) j n =
        lo ++ ((UI.addLoop w rlo (vlo ++ [v2, v1]) false).1 ++
          bump w (UI.addLoop w rlo (vlo ++ [v2, v1]) false).2 (top :: hi)) := by
      unfold remAdd
      rw [← hlo, List.take_left' rfl, List.drop_left' rfl, hr]
      rw [List.append_assoc, List.singleton_append]
      rw [addLoopK_eq w n rlo (top :: hi) (vlo ++ [v2, v1]) vz false hrlo.1 hvm.1]
    rw [hadd]
    obtain ⟨ha1, ha2⟩ := UI.addLoop_spec n rlo _ false hrlo hvm
    rw [hVd, ← pow_eq_M] at ha2
    simp only [Bool.toNat_false, Nat.add_zero] at ha2
    generalize (UI.addLoop w rlo (vlo ++ [v2, v1]) false).1 = sum at *
    generalize (UI.addLoop w rlo (vlo ++ [v2, v1]) false).2 = car at *
    have hsumlt : U w sum < B w ^ n := by rw [pow_eq_M]; exact U_lt ha1
    have hpow : B w ^ (n + 1) = B w ^ n * B w := Nat.pow_succ ..
    have hVlt' := hVlt
    -- top = B - 1 and the carry is set
    have key : car = true ∧ top + 1 = B w := by
      have e1 : B w ^ n * top + B w ^ n * car.toNat + U w sum + V * (W / V) = W + B w ^ n * B w := by
        have : B w ^ n * top + (U w sum + B w ^ n * car.toNat) + V * (W / V) + V
            = W + B w ^ n * B w + V := by
          rw [ha2]; omega
        omega
      have e2 : W + B w ^ n * B w = W % V + V * (W / V) + B w ^ n * B w := by omega
      have e3 : B w ^ n * (top + car.toNat) + U w sum = W % V + B w ^ n * B w := by
        rw [Nat.mul_add]; omega
      have hc1 : car.toNat ≤ 1 := Bool.toNat_le car
      have e4 : top + car.toNat = B w := by
        rcases Nat.lt_trichotomy (top + car.toNat) (B w) with h | h | h
        · have : B w ^ n * (top + car.toNat + 1) ≤ B w ^ n * B w := Nat.mul_le_mul_left _ h
          rw [Nat.mul_add, Nat.mul_one] at this
          omega
        · exact h
        · omega
      cases car
      · simp at e4; omega
      · simp at e4; exact ⟨rfl, e4⟩
    obtain ⟨hc, ht⟩ := key
    subst hc
    have hbump : bump w true (top :: hi) = 0 :: hi := by
      unfold bump; simp only [if_true]; rw [ht, Nat.mod_self]
    rw [hbump]
    refine ⟨sum ++ [0], ?_, ?_, ?_⟩
    · have hq' : qh - 1 = W / V := by rw [hqh]; exact Nat.add_sub_cancel _ _
      rw [hq']
      simp only [List.append_assoc, List.singleton_append]
    · exact WF_append ha1 ⟨rfl, by simp [hB]⟩
    · rw [U_append]; simp only [U_cons, U_nil, Nat.mul_zero, Nat.add_zero]
      simp only [Bool.toNat_true, Nat.mul_one] at ha2
      have : top = B w - 1 := by omega
      have e : B w ^ n * (B w - 1) + B w ^ n = B w ^ n * B w := by
        rw [← Nat.mul_succ, Nat.succ_eq_add_one, Nat.sub_add_cancel hB]
      rw [this] at hUres
      omega
  · -- q̂ = q: no borrow
    have hqh : qh = W / V := by omega
    have hb0 : bor = false := by
      cases bor
      · rfl
      · simp only [Bool.toNat_true, Nat.mul_one] at hs2
        rw [hqh] at hs2; omega
    subst hb0
    simp only [Bool.toNat_false, Nat.mul_zero, Nat.add_zero, Bool.false_eq_true, if_false] at hs2 ⊢
    refine ⟨res, ?_, hs1, ?_⟩
    · rw [hqh, List.append_assoc]
    · rw [hqh] at hs2; omega




theorem WF_uncons {w L : Nat} {x : List Nat} (h : WF w (L + 1) x) :
    ∃ d t, x = d :: t ∧ d < B w ∧ WF w L t := by
  match x, h with
  | d :: t, h => exact ⟨d, t, rfl, (WF_cons.mp h).1, (WF_cons.mp h).2⟩
  | [], h => exact absurd h.1 (by simp)

/-- cut the `n+1`-digit window at position `j` out of the remainder -/
theorem split_window {w L j n : Nat} {u : List Nat} (hu : WF w L u) (hL : j + n + 1 ≤ L)
    (hn2 : 2 ≤ n) :
    ∃ lo wlo x2 x1 x0 hi, u = lo ++ (wlo ++ [x2, x1, x0]) ++ hi ∧ WF w j lo ∧
      WF w (n - 2) wlo ∧ x2 < B w ∧ x1 < B w ∧ x0 < B w ∧ WF w (L - j - n - 1) hi := by
  have h1 := WF_take hu j (by omega)
  have h2 := WF_drop hu j
  have h3 := WF_take h2 (n - 2) (by omega)
  have h4 := WF_drop h2 (n - 2)
  obtain ⟨x2, t2, e2, hx2, ht2⟩ := WF_uncons (w := w) (L := L - j - (n - 2) - 1)
    (x := (u.drop j).drop (n - 2)) (by rwa [show L - j - (n - 2) - 1 + 1 = L - j - (n - 2) by omega])
  obtain ⟨x1, t1, e1, hx1, ht1⟩ := WF_uncons (w := w) (L := L - j - (n - 2) - 2)
    (x := t2) (by rwa [show L - j - (n - 2) - 2 + 1 = L - j - (n - 2) - 1 by omega])
  obtain ⟨x0, t0, e0, hx0, ht0⟩ := WF_uncons (w := w) (L := L - j - n - 1)
    (x := t1) (by rwa [show L - j - n - 1 + 1 = L - j - (n - 2) - 2 by omega])
  refine ⟨u.take j, (u.drop j).take (n - 2), x2, x1, x0, t0, ?_, h1, h3, hx2, hx1, hx0, ht0⟩
  have : u = u.take j ++ ((u.drop j).take (n - 2) ++ (u.drop j).drop (n - 2)) := by
    rw [List.take_append_drop, List.take_append_drop]
  conv_lhs => rw [this, e2, e1, e0]
  simp [List.append_assoc]

theorem set_append_cons (l1 l2 : List Nat) (a b : Nat) :
    (l1 ++ a :: l2).set l1.length b = l1 ++ b :: l2 := by
  induction l1 with
  | nil => rfl
  | cons d ds ih => simp [ih]

theorem zero_succ (c : Nat) : zero (c + 1) = zero c ++ [0] := by
  unfold zero; exact List.replicate_succ'

theorem U_zero_append (w c : Nat) (x : List Nat) : U w (zero c ++ x) = B w ^ c * U w x := by
  rw [U_append, U_zero]; simp [zero]

/-- the invariant of the `while j > 0` loop (D2–D7) -/
theorem loop_spec {w n N : Nat} (hw : 1 ≤ w) (hn2 : 2 ≤ n)
    {vlo vz : List Nat} {v1 v2 : Nat} (hvlo : WF w (n - 2) vlo) (hv1 : v1 < B w) (hv2 : v2 < B w)
    (hvz : ∀ d ∈ vz, d = 0) (hnorm : B w ≤ 2 * v1) (A : Nat) :
    ∀ (c : Nat) (u q : List Nat), c + n ≤ N + 1 → WF w (N + 1) u →
      (∃ qhi, q = zero c ++ qhi ∧ WF w (N - c) qhi) →
      U w u < U w (vlo ++ [v2, v1]) * B w ^ c →
      A = U w q * U w (vlo ++ [v2, v1]) + U w u →
      WF w N (loop w n ((vlo ++ [v2, v1]) ++ vz) v1 v2 c u q).2 ∧
      WF w (N + 1) (loop w n ((vlo ++ [v2, v1]) ++ vz) v1 v2 c u q).1 ∧
      U w (loop w n ((vlo ++ [v2, v1]) ++ vz) v1 v2 c u q).1 < U w (vlo ++ [v2, v1]) ∧
      A = U w (loop w n ((vlo ++ [v2, v1]) ++ vz) v1 v2 c u q).2 * U w (vlo ++ [v2, v1])
          + U w (loop w n ((vlo ++ [v2, v1]) ++ vz) v1 v2 c u q).1 := by
  have hB := B_pos w
  have hvm : WF w n (vlo ++ [v2, v1]) := by
    have h2 : WF w 2 [v2, v1] := ⟨rfl, by simp; exact ⟨hv2, hv1⟩⟩
    have := WF_append hvlo h2
    rwa [show n - 2 + 2 = n by omega] at this
  have hVlt : U w (vlo ++ [v2, v1]) < B w ^ n := by rw [pow_eq_M]; exact U_lt hvm
  generalize hVd : U w (vlo ++ [v2, v1]) = V at *
  intro c
  induction c with
  | zero =>
    intro u q _ hu hq hlt hA
    obtain ⟨qhi, rfl, hqhi⟩ := hq
    simp only [loop]
    refine ⟨?_, hu, by simpa using hlt, hA⟩
    simpa [zero] using hqhi
  | succ j ih =>
    intro u q hc hu hq hlt hA
    obtain ⟨qhi, rfl, hqhi⟩ := hq
    obtain ⟨lo, wlo, x2, x1, x0, hi, rfl, hlo, hwlo, hx2, hx1, hx0, hhi⟩ :=
      split_window (j := j) (n := n) hu (by omega) hn2
    have hwin : WF w (n + 1) (wlo ++ [x2, x1, x0]) := by
      have h3 : WF w 3 [x2, x1, x0] := ⟨rfl, by simp; exact ⟨hx2, hx1, hx0⟩⟩
      have := WF_append hwlo h3
      rwa [show n - 2 + 3 = n + 1 by omega] at this
    have hUu : U w (lo ++ (wlo ++ [x2, x1, x0]) ++ hi)
        = U w lo + B w ^ j * (U w (wlo ++ [x2, x1, x0]) + B w ^ (n + 1) * U w hi) := by
      rw [U_append, U_append, List.length_append, hlo.1, hwin.1]; ring
    have hlolt : U w lo < B w ^ j := by rw [pow_eq_M]; exact U_lt hlo
    have hpj : 0 < B w ^ j := Nat.pow_pos hB
    -- the window is below V·B, the digits above it vanish
    have hWhi : U w (wlo ++ [x2, x1, x0]) + B w ^ (n + 1) * U w hi < V * B w := by
      rw [hUu] at hlt
      have e : V * B w ^ (j + 1) = B w ^ j * (V * B w) := by rw [Nat.pow_succ]; ring
      rw [e] at hlt
      exact Nat.lt_of_mul_lt_mul_left (a := B w ^ j) (by omega)
    have hVB : V * B w < B w ^ (n + 1) := by
      rw [Nat.pow_succ]; exact Nat.mul_lt_mul_of_pos_right hVlt hB
    have hhi0 : U w hi = 0 := by
      rcases Nat.eq_zero_or_pos (U w hi) with h | h
      · exact h
      · have : B w ^ (n + 1) * 1 ≤ B w ^ (n + 1) * U w hi := Nat.mul_le_mul_left _ h
        omega
    have hW : U w (wlo ++ [x2, x1, x0]) < V * B w := by omega
    obtain ⟨win', hstep, hwin', hUwin'⟩ := step_spec (j := j) (hi := hi) (vz := vz) hw hn2 hlo.1
      hwlo hvlo hx0 hx1 hx2 hv1 hv2 hvz hnorm (by rw [hVd]; exact hW)
    rw [hVd] at hstep hUwin'
    simp only [loop]
    rw [hstep]
    simp only
    generalize hWd : U w (wlo ++ [x2, x1, x0]) = W at *
    have hVpos : 0 < V := by
      rcases Nat.eq_zero_or_pos V with h | h
      · rw [h] at hW; omega
      · exact h
    have hdm := Nat.div_add_mod W V
    have hml := Nat.mod_lt W hVpos
    have hqd : W / V < B w := (Nat.div_lt_iff_lt_mul hVpos).mpr (by rw [Nat.mul_comm (B w) V]; exact hW)
    -- the new quotient
    have hqset : (zero (j + 1) ++ qhi).set j (W / V) = zero j ++ (W / V :: qhi) := by
      rw [zero_succ, List.append_assoc, List.singleton_append]
      have := set_append_cons (zero j) qhi 0 (W / V)
      rwa [show (zero j).length = j by simp [zero]] at this
    rw [hqset]
    have hu' : WF w (N + 1) (lo ++ win' ++ hi) := by
      have := WF_append (WF_append hlo hwin') hhi
      rwa [show j + (n + 1) + (N + 1 - j - n - 1) = N + 1 by omega] at this
    have hUu' : U w (lo ++ win' ++ hi) = U w lo + B w ^ j * (W % V) := by
      rw [U_append, U_append, List.length_append, hlo.1, hwin'.1, hhi0, hUwin']; ring
    apply ih (lo ++ win' ++ hi) (zero j ++ (W / V :: qhi)) (by omega) hu'
    · refine ⟨W / V :: qhi, rfl, ?_⟩
      have := WF_cons.mpr ⟨hqd, hqhi⟩
      rwa [show N - (j + 1) + 1 = N - j by omega] at this
    · rw [hUu']
      have : B w ^ j * (W % V + 1) ≤ B w ^ j * V := Nat.mul_le_mul_left _ hml
      rw [Nat.mul_add, Nat.mul_one] at this
      rw [Nat.mul_comm V]; omega
    · rw [hA, hUu, hUu', hhi0, U_zero_append, U_zero_append]
      simp only [U_cons, Nat.mul_zero, Nat.add_zero]
      have e1 : B w ^ (j + 1) * U w qhi * V = B w ^ j * (B w * U w qhi) * V := by
        rw [Nat.pow_succ]; ring
      have e2 : B w ^ j * (W / V + B w * U w qhi) * V
          = B w ^ j * (V * (W / V)) + B w ^ j * (B w * U w qhi) * V := by ring
      have e3 : B w ^ j * W = B w ^ j * (V * (W / V)) + B w ^ j * (W % V) := by
        rw [← Nat.mul_add, hdm]
      rw [e1, e2, e3]; omega




/-! ### digit shifts -/

theorem B_split {w s : Nat} (hs : s ≤ w) : B w = 2 ^ s * 2 ^ (w - s) := by
  unfold B; rw [← Nat.pow_add]; congr 1; omega

/-- `d << s` and `d >> (w - s)` split `d · 2^s` at the digit boundary -/
theorem shl_split {w s d : Nat} (hs : s ≤ w) :
    dshl w d s = 2 ^ s * (d % 2 ^ (w - s)) ∧ dshr d (w - s) = d / 2 ^ (w - s) ∧
    d * 2 ^ s = d / 2 ^ (w - s) * B w + 2 ^ s * (d % 2 ^ (w - s)) := by
  unfold dshl dshr
  rw [Nat.shiftLeft_eq, Nat.shiftRight_eq_div_pow, B_split hs]
  refine ⟨?_, rfl, ?_⟩
  · rw [Nat.mul_comm d, Nat.mul_mod_mul_left]
  · have := Nat.div_add_mod d (2 ^ (w - s))
    calc d * 2 ^ s = (2 ^ (w - s) * (d / 2 ^ (w - s)) + d % 2 ^ (w - s)) * 2 ^ s := by rw [this]
      _ = _ := by ring

theorem or_eq_add {i a c : Nat} (hc : c < 2 ^ i) : 2 ^ i * a ||| c = 2 ^ i * a + c :=
  (Nat.two_pow_add_eq_or_of_lt hc a).symm

theorem leadingZeros_spec {w d : Nat} (hd0 : 0 < d) (hd : d < B w) :
    leadingZeros w d < w ∧ B w ≤ 2 * (d * 2 ^ leadingZeros w d) ∧
      d * 2 ^ leadingZeros w d < B w := by
  unfold leadingZeros bitLen
  rw [if_neg (by omega)]
  have h1 : d.log2 < w := (Nat.log2_lt (by omega)).mpr hd
  have h2 : 2 ^ d.log2 ≤ d := Nat.log2_self_le (by omega)
  have h3 : d < 2 ^ (d.log2 + 1) := Nat.lt_log2_self
  have e : B w = 2 ^ (d.log2 + 1) * 2 ^ (w - (d.log2 + 1)) := by
    unfold B; rw [← Nat.pow_add]; congr 1; omega
  have hp : 0 < 2 ^ (w - (d.log2 + 1)) := Nat.pow_pos (by decide)
  refine ⟨by omega, ?_, ?_⟩
  · rw [e, Nat.pow_succ]
    have : 2 ^ d.log2 * 2 ^ (w - (d.log2 + 1)) ≤ d * 2 ^ (w - (d.log2 + 1)) :=
      Nat.mul_le_mul_right _ h2
    have e2 : 2 ^ d.log2 * 2 * 2 ^ (w - (d.log2 + 1)) = 2 * (2 ^ d.log2 * 2 ^ (w - (d.log2 + 1))) := by
      ring
    omega
  · rw [e]; exact Nat.mul_lt_mul_of_pos_right h3 hp

/-! ### D1: `unchecked_shl_internal` by less than one digit -/

theorem shlBitsLoop_spec {w s : Nat} (hs : s < w) : ∀ (k : Nat) (x : List Nat) (c : Nat),
    WF w k x → c < 2 ^ s →
    WF w k (shlBitsLoop w s (w - s) x c) ∧
    ∃ cout, U w (shlBitsLoop w s (w - s) x c) + B w ^ k * cout = U w x * 2 ^ s + c := by
  intro k
  induction k with
  | zero =>
    intro x c hx hc
    have := hx.1; simp at this; subst this
    exact ⟨WF_nil w, c, by simp [shlBitsLoop]⟩
  | succ k ih =>
    intro x c hx hc
    obtain ⟨d, t, rfl, hd, ht⟩ := WF_uncons hx
    obtain ⟨e1, e2, e3⟩ := shl_split (w := w) (s := s) (d := d) (by omega)
    have hBs := B_split (w := w) (s := s) (by omega)
    have hlo : d % 2 ^ (w - s) < 2 ^ (w - s) := Nat.mod_lt _ (Nat.pow_pos (by decide))
    have hhi : d / 2 ^ (w - s) < 2 ^ s := by
      rw [Nat.div_lt_iff_lt_mul (Nat.pow_pos (by decide))]; rw [← hBs]; exact hd
    simp only [shlBitsLoop]
    rw [e1, e2, or_eq_add hc]
    obtain ⟨g1, cout, g2⟩ := ih t (d / 2 ^ (w - s)) ht hhi
    have hdig : 2 ^ s * (d % 2 ^ (w - s)) + c < B w := by
      have : 2 ^ s * (d % 2 ^ (w - s) + 1) ≤ 2 ^ s * 2 ^ (w - s) := Nat.mul_le_mul_left _ hlo
      rw [Nat.mul_add, Nat.mul_one] at this
      omega
    refine ⟨WF_cons.mpr ⟨hdig, g1⟩, cout, ?_⟩
    simp only [U_cons]
    have : B w ^ (k + 1) * cout = B w * (B w ^ k * cout) := by rw [Nat.pow_succ]; ring
    rw [this]
    have : (d + B w * U w t) * 2 ^ s = d * 2 ^ s + B w * (U w t * 2 ^ s) := by ring
    rw [this, e3]
    have : B w * (U w (shlBitsLoop w s (w - s) t (d / 2 ^ (w - s))) + B w ^ k * cout)
        = B w * (U w t * 2 ^ s + d / 2 ^ (w - s)) := by rw [g2]
    rw [Nat.mul_add] at this
    have e4 : B w * (U w t * 2 ^ s + d / 2 ^ (w - s)) = B w * (U w t * 2 ^ s) + d / 2 ^ (w - s) * B w := by
      ring
    omega

theorem shl_spec {w L s : Nat} {x : List Nat} (hs : s < w) (hx : WF w L x)
    (hfit : U w x * 2 ^ s < B w ^ L) :
    WF w L (uncheckedShlInternal w x s) ∧ U w (uncheckedShlInternal w x s) = U w x * 2 ^ s := by
  unfold uncheckedShlInternal
  have h1 : s / w = 0 := Nat.div_eq_of_lt hs
  have h2 : s % w = s := Nat.mod_eq_of_lt hs
  simp only [h1, h2, Nat.zero_le, Nat.min_eq_left, List.replicate_zero, List.nil_append,
    Nat.sub_zero, List.take_length]
  by_cases h0 : s = 0
  · subst h0; simp; exact hx
  · have hne : (s != 0) = true := by simpa using h0
    rw [if_pos hne]
    obtain ⟨g1, cout, g2⟩ := shlBitsLoop_spec (w := w) hs L x 0 hx (Nat.pow_pos (by decide))
    refine ⟨g1, ?_⟩
    have hlt := U_lt g1
    rw [← pow_eq_M] at hlt
    rcases Nat.eq_zero_or_pos cout with h | h
    · rw [h] at g2; omega
    · have : B w ^ L * 1 ≤ B w ^ L * cout := Nat.mul_le_mul_left _ h
      omega




/-! ### `Remainder::new`: the dividend shifted left into `N + 1` digits -/

/-- top-down loop of `unchecked_shr_pad_internal` by `w - s` bits, on `ds ++ [a0]` (most significant
    first), together with the lowest digit `a0 << s` that `Remainder::new` puts in front -/
theorem shrBitsLoop_spec {w s : Nat} (hs : s < w) : ∀ (k : Nat) (ds : List Nat)
    (a0 c' : Nat), WF w k ds → a0 < B w → c' < 2 ^ (w - s) →
    WF w (k + 1) (shrBitsLoop w (w - s) s (ds ++ [a0]) (2 ^ s * c')) ∧
    dshl w a0 s + B w * U w (shrBitsLoop w (w - s) s (ds ++ [a0]) (2 ^ s * c')).reverse
      = U w (a0 :: ds.reverse) * 2 ^ s + B w ^ (k + 1) * (2 ^ s * c') ∧
    dshl w a0 s < B w := by
  have hBs := B_split (w := w) (s := s) (by omega)
  have hp1 : 0 < 2 ^ (w - s) := Nat.pow_pos (by decide)
  have hp2 : 0 < 2 ^ s := Nat.pow_pos (by decide)
  -- one output digit
  have hdigit : ∀ d c', d < B w → c' < 2 ^ (w - s) →
      (dshr d (w - s) ||| 2 ^ s * c') = 2 ^ s * c' + d / 2 ^ (w - s) ∧
      2 ^ s * c' + d / 2 ^ (w - s) < B w ∧ d % 2 ^ (w - s) < 2 ^ (w - s) := by
    intro d c' hd hc'
    have hhi : d / 2 ^ (w - s) < 2 ^ s := by
      rw [Nat.div_lt_iff_lt_mul hp1, ← hBs]; exact hd
    refine ⟨?_, ?_, Nat.mod_lt _ hp1⟩
    · unfold dshr; rw [Nat.shiftRight_eq_div_pow, Nat.or_comm, or_eq_add hhi]
    · have : 2 ^ s * (c' + 1) ≤ 2 ^ s * 2 ^ (w - s) := Nat.mul_le_mul_left _ hc'
      rw [Nat.mul_add, Nat.mul_one] at this
      omega
  intro k
  induction k with
  | zero =>
    intro ds a0 c' hds ha0 hc'
    have := hds.1; simp at this; subst this
    obtain ⟨e1, e2, e3⟩ := shl_split (w := w) (s := s) (d := a0) (by omega)
    obtain ⟨f1, f2, f3⟩ := hdigit a0 c' ha0 hc'
    simp only [List.nil_append, shrBitsLoop, List.reverse_cons, List.reverse_nil, U_cons, U_nil]
    rw [f1, e1]
    refine ⟨WF_cons.mpr ⟨f2, WF_nil w⟩, ?_, ?_⟩
    · simp only [Nat.mul_zero, Nat.add_zero, Nat.zero_add, Nat.pow_one]
      rw [e3]; ring
    · have : 2 ^ s * (a0 % 2 ^ (w - s) + 1) ≤ 2 ^ s * 2 ^ (w - s) := Nat.mul_le_mul_left _ f3
      rw [Nat.mul_add, Nat.mul_one] at this
      omega
  | succ k ih =>
    intro ds a0 c' hds ha0 hc'
    obtain ⟨d, t, rfl, hd, ht⟩ := WF_uncons hds
    obtain ⟨e1, e2, e3⟩ := shl_split (w := w) (s := s) (d := d) (by omega)
    obtain ⟨f1, f2, f3⟩ := hdigit d c' hd hc'
    simp only [List.cons_append, shrBitsLoop]
    rw [f1, e1]
    obtain ⟨g1, g2, g3⟩ := ih t a0 (d % 2 ^ (w - s)) ht ha0 f3
    refine ⟨WF_cons.mpr ⟨f2, g1⟩, ?_, g3⟩
    simp only [List.reverse_cons, U_append, U_cons, U_nil, List.length_reverse, g1.1,
      ht.1] at g2 ⊢
    generalize U w (shrBitsLoop w (w - s) s (t ++ [a0]) (2 ^ s * (d % 2 ^ (w - s)))).reverse = X at *
    generalize U w t.reverse = T at *
    generalize dshl w a0 s = L0 at *
    simp only [Nat.mul_zero, Nat.add_zero] at g2 ⊢
    have p1 : B w ^ (k + 1 + 1) = B w * B w ^ (k + 1) := by rw [Nat.pow_succ]; ring
    have p2 : B w ^ (k + 1) = B w * B w ^ k := by rw [Nat.pow_succ]; ring
    have e5 : (a0 + B w * (T + B w ^ k * d)) * 2 ^ s
        = (a0 + B w * T) * 2 ^ s + B w ^ (k + 1) * (d * 2 ^ s) := by rw [p2]; ring
    rw [e5, e3, p1]
    have e6 : B w * (X + B w ^ (k + 1) * (2 ^ s * c' + d / 2 ^ (w - s)))
        = B w * X + B w * B w ^ (k + 1) * (2 ^ s * c') + B w ^ (k + 1) * (d / 2 ^ (w - s) * B w) := by
      ring
    have e7 : B w ^ (k + 1) * (d / 2 ^ (w - s) * B w + 2 ^ s * (d % 2 ^ (w - s)))
        = B w ^ (k + 1) * (d / 2 ^ (w - s) * B w) + B w ^ (k + 1) * (2 ^ s * (d % 2 ^ (w - s))) := by
      ring
    rw [e6, e7]
    omega




theorem WF_rev {w n : Nat} {x : List Nat} (h : WF w n x) : WF w n x.reverse :=
  ⟨by simpa using h.1, fun d hd => h.2 d (by simpa using hd)⟩

theorem remNew_spec {w N s : Nat} {a : List Nat} (hw : 1 ≤ w) (hN : 2 ≤ N) (hs : s < w)
    (ha : WF w N a) :
    WF w (N + 1) (remNew w a s) ∧ U w (remNew w a s) = U w a * 2 ^ s := by
  obtain ⟨a0, t, rfl, ha0, ht⟩ := WF_uncons (L := N - 1) (by rwa [show N - 1 + 1 = N by omega])
  have hB := B_pos w
  have hbits : ¬ (w - s ≥ w * (a0 :: t).length) := by
    have hl : (a0 :: t).length = N := ha.1
    rw [hl]
    have : w * 2 ≤ w * N := Nat.mul_le_mul_left _ hN
    omega
  unfold remNew wrappingShr overflowingShr
  simp only [hbits, if_false, List.headD_cons]
  unfold uncheckedShrInternal
  by_cases h0 : s = 0
  · subst h0
    have e1 : (w - 0) / w = 1 := by simp; exact Nat.div_self (by omega)
    have e2 : (w - 0) % w = 0 := by simp
    simp only [e1, e2, bne_self_eq_false, Bool.false_eq_true, if_false, List.drop_succ_cons,
      List.drop_zero]
    have hl : (a0 :: t).length = N := ha.1
    rw [hl, Nat.min_eq_left (by omega)]
    have hd : dshl w a0 0 = a0 := by
      unfold dshl; simp [Nat.mod_eq_of_lt ha0]
    rw [hd]
    refine ⟨?_, ?_⟩
    · have := WF_cons.mpr ⟨ha0, WF_append ht (⟨rfl, by simp [hB]⟩ : WF w 1 (List.replicate 1 0))⟩
      rwa [show N - 1 + 1 + 1 = N + 1 by omega] at this
    · simp [U_append]
  · have e1 : (w - s) / w = 0 := Nat.div_eq_of_lt (by omega)
    have e2 : (w - s) % w = w - s := Nat.mod_eq_of_lt (by omega)
    have hne : ((w - s) != 0) = true := by simp; omega
    have e3 : w - (w - s) = s := by omega
    simp only [e1, e2, hne, if_true, List.drop_zero, Nat.zero_le, Nat.min_eq_left,
      List.replicate_zero, List.append_nil, e3, List.reverse_cons]
    obtain ⟨g1, g2, g3⟩ := shrBitsLoop_spec (w := w) (s := s) hs (N - 1) t.reverse a0 0
      (WF_rev ht) ha0 (Nat.pow_pos (by decide))
    simp only [Nat.mul_zero, Nat.add_zero, List.reverse_reverse] at g1 g2
    rw [show N - 1 + 1 = N by omega] at g1
    refine ⟨WF_cons.mpr ⟨g3, WF_rev g1⟩, ?_⟩
    rw [U_cons]; exact g2

/-! ### D8: `Remainder::shr` -/

/-- `Remainder::shr` as one fused pass -/
def shrAux (w s : Nat) : List Nat → List Nat
  | x :: y :: rest => (dshr x s ||| dshl w y (w - s)) :: shrAux w s (y :: rest)
  | _ => []

theorem remShr_eq_aux (w s : Nat) (hs : 0 < s) : ∀ (u : List Nat), remShr w u s = shrAux w s u
  | [] => by simp [remShr, shrAux]
  | [x] => by simp [remShr, shrAux]
  | x :: y :: rest => by
    have ih := remShr_eq_aux w s hs (y :: rest)
    unfold remShr at ih ⊢
    simp only [hs, if_true, List.length_cons, Nat.add_sub_cancel, List.drop_succ_cons,
      List.drop_zero, List.take_succ_cons, List.map_cons, List.zipWith_cons_cons, shrAux] at ih ⊢
    rw [ih]

theorem shrAux_spec {w s : Nat} (hs0 : 0 < s) (hs : s < w) : ∀ (k : Nat) (x : Nat) (rest : List Nat),
    x < B w → WF w k rest →
    WF w k (shrAux w s (x :: rest)) ∧
    2 ^ s * U w (shrAux w s (x :: rest)) + x % 2 ^ s
        + B w ^ k * (2 ^ s * ((x :: rest).getLast (by simp) / 2 ^ s))
      = U w (x :: rest) := by
  have hBs := B_split (w := w) (s := w - s) (by omega)
  have hsub : w - (w - s) = s := by omega
  rw [hsub] at hBs
  have hp1 : 0 < 2 ^ (w - s) := Nat.pow_pos (by decide)
  have hp2 : 0 < 2 ^ s := Nat.pow_pos (by decide)
  intro k
  induction k with
  | zero =>
    intro x rest hx hr
    have := hr.1; simp at this; subst this
    simp only [shrAux, U_cons, U_nil, List.getLast_singleton]
    refine ⟨WF_nil w, ?_⟩
    have := Nat.div_add_mod x (2 ^ s)
    simp; omega
  | succ k ih =>
    intro x rest hx hr
    obtain ⟨y, t, rfl, hy, ht⟩ := WF_uncons hr
    obtain ⟨g1, g2⟩ := ih y t hy ht
    obtain ⟨e1, -, -⟩ := shl_split (w := w) (s := w - s) (d := y) (by omega)
    rw [hsub] at e1
    have hhi : x / 2 ^ s < 2 ^ (w - s) := by
      rw [Nat.div_lt_iff_lt_mul hp2, ← hBs]; exact hx
    have hlo : y % 2 ^ s < 2 ^ s := Nat.mod_lt _ hp2
    simp only [shrAux]
    have hd : (dshr x s ||| dshl w y (w - s)) = 2 ^ (w - s) * (y % 2 ^ s) + x / 2 ^ s := by
      unfold dshr; rw [Nat.shiftRight_eq_div_pow, e1, Nat.or_comm, or_eq_add hhi]
    rw [hd]
    have hdlt : 2 ^ (w - s) * (y % 2 ^ s) + x / 2 ^ s < B w := by
      have : 2 ^ (w - s) * (y % 2 ^ s + 1) ≤ 2 ^ (w - s) * 2 ^ s := Nat.mul_le_mul_left _ hlo
      rw [Nat.mul_add, Nat.mul_one] at this
      omega
    refine ⟨WF_cons.mpr ⟨hdlt, g1⟩, ?_⟩
    rw [List.getLast_cons (by simp)]
    simp only [U_cons] at g2 ⊢
    generalize U w (shrAux w s (y :: t)) = X at *
    generalize (y :: t).getLast (by simp) / 2 ^ s = Lq at *
    have hx' := Nat.div_add_mod x (2 ^ s)
    have p1 : B w ^ (k + 1) = B w * B w ^ k := by rw [Nat.pow_succ]; ring
    rw [p1]
    have e5 : 2 ^ s * (2 ^ (w - s) * (y % 2 ^ s) + x / 2 ^ s + B w * X)
        = B w * (y % 2 ^ s) + 2 ^ s * (x / 2 ^ s) + B w * (2 ^ s * X) := by
      rw [hBs]; ring
    have e6 : B w * B w ^ k * (2 ^ s * Lq) = B w * (B w ^ k * (2 ^ s * Lq)) := by ring
    rw [e5, e6]
    have e7 : B w * (2 ^ s * X + y % 2 ^ s + B w ^ k * (2 ^ s * Lq)) = B w * (y + B w * U w t) := by
      rw [g2]
    rw [Nat.mul_add, Nat.mul_add] at e7
    omega

theorem remShr_spec {w N s : Nat} {u : List Nat} (hs : s < w) (hu : WF w (N + 1) u)
    (htop : U w u < B w ^ N) :
    WF w N (remShr w u s) ∧ U w (remShr w u s) = U w u / 2 ^ s := by
  have hB := B_pos w
  obtain ⟨ulo, t, rfl, hulo, ht⟩ := exists_snoc hu
  have ht0 : t = 0 := by
    rw [U_append, hulo.1] at htop
    simp only [U_cons, U_nil, Nat.mul_zero, Nat.add_zero] at htop
    rcases Nat.eq_zero_or_pos t with h | h
    · exact h
    · have : B w ^ N * 1 ≤ B w ^ N * t := Nat.mul_le_mul_left _ h
      omega
  subst ht0
  have hU : U w (ulo ++ [0]) = U w ulo := by rw [U_append]; simp
  by_cases h0 : s = 0
  · subst h0
    have e : remShr w (ulo ++ [0]) 0 = ulo := by
      unfold remShr; simp [dshr]
    rw [e, hU]; simp; exact hulo
  · rw [remShr_eq_aux w s (by omega)]
    match ulo, hulo with
    | [], hulo =>
      have : N = 0 := by simpa using hulo.1.symm
      subst this
      simp [shrAux, WF_nil]
    | x :: rest, hulo =>
      obtain ⟨k, rfl⟩ : ∃ k, N = k + 1 := ⟨N - 1, by have := hulo.1; simp at this; omega⟩
      have hx : x < B w := (WF_cons.mp hulo).1
      have hr : WF w k rest := (WF_cons.mp hulo).2
      have hr' : WF w (k + 1) (rest ++ [0]) := WF_append hr ⟨rfl, by simp [hB]⟩
      obtain ⟨g1, g2⟩ := shrAux_spec (w := w) (s := s) (by omega) hs (k + 1) x (rest ++ [0]) hx hr'
      have hlast : (x :: (rest ++ [0])).getLast (by simp) = 0 := by
        rw [List.getLast_cons (by simp), List.getLast_append_singleton]
      rw [hlast] at g2
      simp only [Nat.zero_div, Nat.mul_zero, Nat.add_zero] at g2
      rw [List.cons_append]
      refine ⟨g1, ?_⟩
      have hp2 : 0 < 2 ^ s := Nat.pow_pos (by decide)
      have hml := Nat.mod_lt x hp2
      rw [← g2]
      rw [Nat.mul_add_div hp2, Nat.div_eq_of_lt hml]; simp




/-! ### `last_digit_index` -/

theorem go_val {w : Nat} : ∀ (ds : List Nat) (i idx : Nat), idx < i → (∀ d ∈ ds, d < B w) →
    (lastDigitIndex.go ds i idx = idx ∧ U w ds = 0) ∨
    (i ≤ lastDigitIndex.go ds i idx ∧ lastDigitIndex.go ds i idx < i + ds.length ∧
      B w ^ (lastDigitIndex.go ds i idx - i) ≤ U w ds ∧
      U w ds < B w ^ (lastDigitIndex.go ds i idx - i + 1))
  | [], i, idx, _, _ => by simp [lastDigitIndex.go]
  | d :: ds, i, idx, hidx, hds => by
    have hB := B_pos w
    have hd : d < B w := hds d (by simp)
    simp only [lastDigitIndex.go]
    have ih := go_val (w := w) ds (i + 1) (if d != 0 then i else idx)
      (by split <;> omega) (fun e he => hds e (by simp [he]))
    generalize lastDigitIndex.go ds (i + 1) (if d != 0 then i else idx) = r at *
    rcases ih with ⟨h1, h2⟩ | ⟨h1, h2, h3, h4⟩
    · by_cases hd0 : d = 0
      · subst hd0
        left; simp at h1; simp [h1, h2]
      · right
        have : (d != 0) = true := by simpa using hd0
        simp only [this, if_true] at h1
        subst h1
        simp [h2]; omega
    · right
      refine ⟨by omega, by simp; omega, ?_, ?_⟩
      · simp only [U_cons]
        have e : r - i = (r - (i + 1)) + 1 := by omega
        rw [e, Nat.pow_succ]
        have : B w ^ (r - (i + 1)) * B w ≤ U w ds * B w := Nat.mul_le_mul_right _ h3
        rw [Nat.mul_comm (U w ds)] at this
        omega
      · simp only [U_cons]
        have e : r - i + 1 = (r - (i + 1) + 1) + 1 := by omega
        rw [e, Nat.pow_succ]
        have : (U w ds + 1) * B w ≤ B w ^ (r - (i + 1) + 1) * B w := Nat.mul_le_mul_right _ h4
        rw [Nat.add_mul, Nat.one_mul, Nat.mul_comm (U w ds)] at this
        omega

/-- value characterisation of `last_digit_index` -/
theorem ldi_val {w N : Nat} {x : List Nat} (hN : 1 ≤ N) (hx : WF w N x) :
    lastDigitIndex x < N ∧ U w x < B w ^ (lastDigitIndex x + 1) ∧
    (lastDigitIndex x ≠ 0 → B w ^ lastDigitIndex x ≤ U w x) := by
  obtain ⟨d, ds, rfl, hd, hds⟩ := WF_uncons (L := N - 1) (by rwa [show N - 1 + 1 = N by omega])
  have hB := B_pos w
  unfold lastDigitIndex
  simp only
  have h := go_val (w := w) ds 1 0 (by omega) hds.2
  generalize lastDigitIndex.go ds 1 0 = r at *
  rcases h with ⟨h1, h2⟩ | ⟨h1, h2, h3, h4⟩
  · subst h1
    simp [U_cons, h2]; omega
  · rw [hds.1] at h2
    refine ⟨by omega, ?_, ?_⟩
    · simp only [U_cons]
      have e : r + 1 = (r - 1 + 1) + 1 := by omega
      rw [e, Nat.pow_succ]
      have : (U w ds + 1) * B w ≤ B w ^ (r - 1 + 1) * B w := Nat.mul_le_mul_right _ h4
      rw [Nat.add_mul, Nat.one_mul, Nat.mul_comm (U w ds)] at this
      omega
    · intro _
      simp only [U_cons]
      have e : r = (r - 1) + 1 := by omega
      rw [e, Nat.pow_succ]
      have : B w ^ (r - 1) * B w ≤ U w ds * B w := Nat.mul_le_mul_right _ h3
      rw [Nat.mul_comm (U w ds)] at this
      omega

theorem all_zero_of_U {w : Nat} : ∀ (x : List Nat), U w x = 0 → ∀ d ∈ x, d = 0
  | [], _ => by simp
  | d :: ds, h => by
    have hB := B_pos w
    simp only [U_cons] at h
    have h1 : d = 0 := by omega
    have h2 : U w ds = 0 := by
      rcases Nat.eq_zero_or_pos (U w ds) with h0 | h0
      · exact h0
      · have : B w * 1 ≤ B w * U w ds := Nat.mul_le_mul_left _ h0
        omega
    intro e he
    rcases List.mem_cons.mp he with rfl | he
    · exact h1
    · exact all_zero_of_U ds h2 e he

/-- a number below `B^n` with `n ≥ 2`, cut at its two leading digits -/
theorem split_top {w L n : Nat} {x : List Nat} (hx : WF w L x) (hn2 : 2 ≤ n) (hnL : n ≤ L)
    (hlt : U w x < B w ^ n) :
    ∃ lo d2 d1 z, x = (lo ++ [d2, d1]) ++ z ∧ WF w (n - 2) lo ∧ d2 < B w ∧ d1 < B w ∧
      (∀ d ∈ z, d = 0) ∧ n + z.length = L ∧
      x.getD (n - 1) 0 = d1 ∧ x.getD (n - 2) 0 = d2 := by
  have h1 := WF_take hx (n - 2) (by omega)
  have h2 := WF_drop hx (n - 2)
  obtain ⟨d2, t2, e2, hd2, ht2⟩ := WF_uncons (w := w) (L := L - (n - 2) - 1)
    (x := x.drop (n - 2)) (by rwa [show L - (n - 2) - 1 + 1 = L - (n - 2) by omega])
  obtain ⟨d1, t1, e1, hd1, ht1⟩ := WF_uncons (w := w) (L := L - n)
    (x := t2) (by rwa [show L - n + 1 = L - (n - 2) - 1 by omega])
  have hxe : x = (x.take (n - 2) ++ [d2, d1]) ++ t1 := by
    conv_lhs => rw [← List.take_append_drop (n - 2) x, e2, e1]
    simp
  have hz : U w t1 = 0 := by
    have hU : U w x = U w (x.take (n - 2) ++ [d2, d1]) + B w ^ n * U w t1 := by
      conv_lhs => rw [hxe]
      rw [U_append, List.length_append, h1.1]
      simp only [List.length_cons, List.length_nil]
      rw [show n - 2 + (0 + 1 + 1) = n by omega]
    rcases Nat.eq_zero_or_pos (U w t1) with h | h
    · exact h
    · have : B w ^ n * 1 ≤ B w ^ n * U w t1 := Nat.mul_le_mul_left _ h
      omega
  refine ⟨x.take (n - 2), d2, d1, t1, hxe, h1, hd2, hd1, all_zero_of_U t1 hz, ?_, ?_, ?_⟩
  · rw [ht1.1]; omega
  · rw [hxe, List.append_assoc]
    have := getD_append_add (x.take (n - 2)) ([d2, d1] ++ t1) 1
    rw [h1.1, show n - 2 + 1 = n - 1 by omega] at this
    rw [this]; rfl
  · rw [hxe, List.append_assoc]
    have := getD_append_add (x.take (n - 2)) ([d2, d1] ++ t1) 0
    rw [h1.1, Nat.add_zero] at this
    rw [this]; rfl




theorem final_arith {a b q r p : Nat} (hp : 0 < p) (h : a * p = q * (b * p) + r)
    (hr : r < b * p) : q = a / b ∧ r / p = a % b := by
  have h1 : q * b * p ≤ a * p := by
    have : q * (b * p) = q * b * p := by ring
    omega
  have hqb : q * b ≤ a := Nat.le_of_mul_le_mul_right h1 hp
  have hr' : r = (a - q * b) * p := by
    rw [Nat.sub_mul]
    have : q * (b * p) = q * b * p := by ring
    omega
  have hlt : a - q * b < b := by
    rw [hr'] at hr
    exact Nat.lt_of_mul_lt_mul_right hr
  have hdiv : r / p = a - q * b := by rw [hr']; exact Nat.mul_div_cancel _ hp
  have hb : 0 < b := by omega
  have := (Nat.div_mod_unique hb (a := a) (c := a - q * b) (d := q)).mpr
    ⟨by rw [Nat.mul_comm b q]; omega, hlt⟩
  rw [hdiv]; exact ⟨this.1.symm, this.2.symm⟩

theorem zero_split (N c : Nat) (hc : c ≤ N) : zero N = zero c ++ zero (N - c) := by
  unfold zero
  rw [← List.replicate_add]; congr 1; omega

/-- **Algorithm D is correct** (for every digit width `w ≥ 1`) -/
theorem knuthD_correct {w : Nat} (hw : 1 ≤ w) : KnuthD_correct w := by
  intro N a b ha hb hl hgt
  have hB := B_pos w
  have hBe := B_even hw
  have hN1 : 1 ≤ N := by
    rcases Nat.eq_zero_or_pos N with h | h
    · subst h
      have := hb.1; simp at this; subst this
      exact absurd rfl hl
    · exact h
  obtain ⟨lb1, lb2, lb3⟩ := ldi_val hN1 hb
  obtain ⟨la1, la2, -⟩ := ldi_val hN1 ha
  have lb3 := lb3 hl
  have hla : lastDigitIndex b ≤ lastDigitIndex a := by
    by_contra hc
    have : B w ^ (lastDigitIndex a + 1) ≤ B w ^ lastDigitIndex b :=
      Nat.pow_le_pow_right hB (by omega)
    omega
  generalize hn : lastDigitIndex b + 1 = n at *
  have hn2 : 2 ≤ n := by omega
  have hnN : n ≤ N := by omega
  have hn1 : lastDigitIndex b = n - 1 := by omega
  rw [hn1] at lb3
  -- the leading digit of the divisor
  obtain ⟨blo, d2, d1, bz, hbe, hblo, hd2, hd1, hbz, hblen, hg1, -⟩ :=
    split_top hb hn2 hnN lb2
  have hP : 0 < B w ^ (n - 2) := Nat.pow_pos hB
  have hpn1 : B w ^ (n - 1) = B w ^ (n - 2) * B w := by
    rw [← Nat.pow_succ]; congr 1; omega
  have hpn : B w ^ n = B w ^ (n - 1) * B w := by
    rw [← Nat.pow_succ]; congr 1; omega
  have hUb : U w b = U w blo + B w ^ (n - 2) * (d2 + B w * d1) := by
    rw [hbe, U_append, U_all_zero bz hbz, U_append, hblo.1]; simp
  have hblolt : U w blo < B w ^ (n - 2) := by rw [pow_eq_M]; exact U_lt hblo
  have hUb_lo : B w ^ (n - 1) * d1 ≤ U w b := by
    rw [hUb, hpn1]
    have : B w ^ (n - 2) * (d2 + B w * d1) = B w ^ (n - 2) * d2 + B w ^ (n - 2) * B w * d1 := by ring
    omega
  have hUb_hi : U w b < B w ^ (n - 1) * (d1 + 1) := by
    rw [hUb, hpn1]
    have e1 : B w ^ (n - 2) * (d2 + B w * d1) = B w ^ (n - 2) * d2 + B w ^ (n - 2) * B w * d1 := by ring
    have e2 : B w ^ (n - 2) * B w * (d1 + 1) = B w ^ (n - 2) * B w * d1 + B w ^ (n - 2) * B w := by ring
    have e3 : B w ^ (n - 2) * (d2 + 1) ≤ B w ^ (n - 2) * B w := Nat.mul_le_mul_left _ hd2
    rw [Nat.mul_add, Nat.mul_one] at e3
    omega
  have hd1pos : 0 < d1 := by
    rcases Nat.eq_zero_or_pos d1 with h | h
    · rw [h] at hUb_hi; omega
    · exact h
  obtain ⟨hs, hs1, hs2⟩ := leadingZeros_spec hd1pos hd1
  -- guards
  unfold basecaseDivRem
  rw [ha.1]
  have hguard : ¬ (n < 2 ∨ N < n ∨ lastDigitIndex a + 1 < n) := by omega
  rw [if_neg hguard]
  dsimp only
  rw [hg1]
  generalize hsd : leadingZeros w d1 = s at *
  have hp2 : 0 < 2 ^ s := Nat.pow_pos (by decide)
  -- D1: normalise
  have hd1s : (d1 + 1) * 2 ^ s ≤ B w := by
    have hBs := B_split (w := w) (s := s) (by omega)
    have : d1 < 2 ^ (w - s) := by
      by_contra hc
      have : 2 ^ (w - s) * 2 ^ s ≤ d1 * 2 ^ s := Nat.mul_le_mul_right _ (by omega)
      rw [Nat.mul_comm (2 ^ (w - s))] at this
      omega
    have : (d1 + 1) * 2 ^ s ≤ 2 ^ (w - s) * 2 ^ s := Nat.mul_le_mul_right _ this
    rw [Nat.mul_comm (2 ^ (w - s))] at this
    omega
  have hVhi : U w b * 2 ^ s < B w ^ n := by
    have h1 : U w b * 2 ^ s < B w ^ (n - 1) * (d1 + 1) * 2 ^ s := Nat.mul_lt_mul_of_pos_right hUb_hi hp2
    have h2 : B w ^ (n - 1) * (d1 + 1) * 2 ^ s = B w ^ (n - 1) * ((d1 + 1) * 2 ^ s) := by ring
    have h3 : B w ^ (n - 1) * ((d1 + 1) * 2 ^ s) ≤ B w ^ (n - 1) * B w := Nat.mul_le_mul_left _ hd1s
    omega
  have hVlo : B w ^ n ≤ 2 * (U w b * 2 ^ s) := by
    have h1 : B w ^ (n - 1) * d1 * 2 ^ s ≤ U w b * 2 ^ s := Nat.mul_le_mul_right _ hUb_lo
    have h2 : B w ^ (n - 1) * d1 * 2 ^ s = B w ^ (n - 1) * (d1 * 2 ^ s) := by ring
    have h3 : B w ^ (n - 1) * B w ≤ B w ^ (n - 1) * (2 * (d1 * 2 ^ s)) := Nat.mul_le_mul_left _ hs1
    have h4 : B w ^ (n - 1) * (2 * (d1 * 2 ^ s)) = 2 * (B w ^ (n - 1) * (d1 * 2 ^ s)) := by ring
    omega
  have hpN : B w ^ n ≤ B w ^ N := Nat.pow_le_pow_right hB hnN
  obtain ⟨hv, hUv⟩ := shl_spec (w := w) (L := N) (s := s) hs hb (by omega)
  generalize uncheckedShlInternal w b s = v at *
  obtain ⟨vlo, v2, v1, vz, hve, hvlo, hv2, hv1, hvz, hvlen, hgv1, hgv2⟩ :=
    split_top hv hn2 hnN (by rw [hUv]; exact hVhi)
  rw [hgv1, hgv2]
  have hVe : U w v = U w (vlo ++ [v2, v1]) := by
    rw [hve, U_append, U_all_zero vz hvz]; simp
  have hvlolt : U w vlo < B w ^ (n - 2) := by rw [pow_eq_M]; exact U_lt hvlo
  have hVtop := U_vtop w vlo v2 v1
  rw [hvlo.1] at hVtop
  have hnorm : B w ≤ 2 * v1 := by
    have hV : U w v < B w ^ (n - 1) * (v1 + 1) := by
      rw [hVe, hVtop, hpn1]
      have e1 : (v1 * B w + v2) * B w ^ (n - 2) = B w ^ (n - 2) * v2 + B w ^ (n - 2) * B w * v1 := by ring
      have e2 : B w ^ (n - 2) * B w * (v1 + 1) = B w ^ (n - 2) * B w * v1 + B w ^ (n - 2) * B w := by ring
      have e3 : B w ^ (n - 2) * (v2 + 1) ≤ B w ^ (n - 2) * B w := Nat.mul_le_mul_left _ hv2
      rw [Nat.mul_add, Nat.mul_one] at e3
      omega
    rw [← hUv] at hVlo
    have h1 : B w ^ (n - 1) * B w < B w ^ (n - 1) * (2 * (v1 + 1)) := by
      have : B w ^ (n - 1) * (2 * (v1 + 1)) = 2 * (B w ^ (n - 1) * (v1 + 1)) := by ring
      omega
    have := Nat.lt_of_mul_lt_mul_left h1
    omega
  -- the shifted dividend
  obtain ⟨hu0, hUu0⟩ := remNew_spec (w := w) (N := N) (s := s) hw (by omega) hs ha
  generalize remNew w a s = u0 at *
  -- D2–D7
  have hc : lastDigitIndex a + 1 - n + 1 ≤ N := by omega
  have hloop := loop_spec (w := w) (n := n) (N := N) hw hn2 hvlo hv1 hv2 hvz hnorm (U w a * 2 ^ s)
    (lastDigitIndex a + 1 - n + 1) u0 (zero N) (by omega) hu0
    ⟨zero (N - (lastDigitIndex a + 1 - n + 1)), zero_split N _ hc, WF_zero w _⟩
    (by
      rw [← hVe, hUv, hUu0]
      have e0 : lastDigitIndex a + 1 = (lastDigitIndex a + 1 - n + 1) + (n - 1) := by omega
      have h1 : U w a * 2 ^ s < B w ^ (lastDigitIndex a + 1) * 2 ^ s := Nat.mul_lt_mul_of_pos_right la2 hp2
      rw [e0, Nat.pow_add] at h1
      have h2 : B w ^ (n - 1) * 2 ^ s * B w ^ (lastDigitIndex a + 1 - n + 1)
          ≤ U w b * 2 ^ s * B w ^ (lastDigitIndex a + 1 - n + 1) :=
        Nat.mul_le_mul_right _ (Nat.mul_le_mul_right _ lb3)
      have e1 : B w ^ (lastDigitIndex a + 1 - n + 1) * B w ^ (n - 1) * 2 ^ s
          = B w ^ (n - 1) * 2 ^ s * B w ^ (lastDigitIndex a + 1 - n + 1) := by ring
      omega)
    (by rw [U_zero, hUu0]; simp)
  rw [← hve] at hloop
  generalize loop w n v v1 v2 (lastDigitIndex a + 1 - n + 1) u0 (zero N) = res at *
  obtain ⟨hq, hu, hult, hA⟩ := hloop
  rw [← hVe, hUv] at hult hA
  -- D8
  obtain ⟨hr, hUr⟩ := remShr_spec (w := w) (N := N) (s := s) hs hu (by omega)
  obtain ⟨f1, f2⟩ := final_arith hp2 hA hult
  exact ⟨res.2, remShr w res.1 s, rfl, hq, hr, f1, by rw [hUr]; exact f2⟩


end KDL
end Bnum
