import Bnum.Model.BitOps
import Bnum.Lemmas.AddSub2

/-!
  Lemmas for C07: `cmp`, `eq`, the `int/cmp.rs` family, sign predicates.
-/
namespace Bnum

theorem Cmp.WF_reverse {w n : Nat} {x : List Nat} (h : WF w n x) : WF w n x.reverse :=
  ⟨by simpa using h.1, fun d hd => h.2 d (by simpa using hd)⟩

theorem Cmp.WF_append_singleton {w n t : Nat} {x : List Nat} :
    WF w (n + 1) (x ++ [t]) ↔ WF w n x ∧ t < B w := by
  unfold WF
  constructor
  · rintro ⟨h1, h2⟩
    refine ⟨⟨by simpa using h1, fun d hd => h2 d (by simp [hd])⟩, h2 t (by simp)⟩
  · rintro ⟨⟨h1, h2⟩, h3⟩
    refine ⟨by simp [h1], fun d hd => ?_⟩
    rcases List.mem_append.mp hd with h | h
    · exact h2 d h
    · simp at h; subst h; exact h3

/-- a well-formed non-empty list splits as `low digits ++ [top digit]` -/
theorem Cmp.WF_snoc {w n : Nat} {x : List Nat} (h : WF w (n + 1) x) :
    ∃ y t, x = y ++ [t] ∧ WF w n y ∧ t < B w := by
  rcases List.eq_nil_or_concat x with h0 | ⟨y, t, h1⟩
  · subst h0; exact absurd h.1 (by simp)
  · rw [List.concat_eq_append] at h1; subst h1
    exact ⟨y, t, rfl, Cmp.WF_append_singleton.mp h⟩

theorem Cmp.U_snoc (w t : Nat) (x : List Nat) : U w (x ++ [t]) = U w x + B w ^ x.length * t := by
  rw [U_append]; simp

theorem Cmp.U_snoc' {w n t : Nat} {x : List Nat} (h : WF w n x) :
    U w (x ++ [t]) = U w x + M w n * t := by
  rw [Cmp.U_snoc, M_eq_pow, h.1]

theorem Cmp.topDigit_snoc (x : List Nat) (t : Nat) : topDigit (x ++ [t]) = t := by
  simp [topDigit]

/-! ### unsigned comparison -/

theorem Cmp.compare_snoc {p u1 u2 t s : Nat} (h1 : u1 < p) (h2 : u2 < p) :
    compare (u1 + p * t) (u2 + p * s) =
      if t > s then .gt else if t < s then .lt else compare u1 u2 := by
  split
  · rename_i h
    rw [Nat.compare_eq_gt]
    have : p * (s + 1) ≤ p * t := Nat.mul_le_mul_left _ h
    rw [Nat.mul_add] at this; omega
  · split
    · rename_i h
      rw [Nat.compare_eq_lt]
      have : p * (t + 1) ≤ p * s := Nat.mul_le_mul_left _ h
      rw [Nat.mul_add] at this; omega
    · have : t = s := by omega
      subst this
      rcases h : compare u1 u2 with _ | _ | _
      · rw [Nat.compare_eq_lt] at h ⊢; omega
      · rw [Nat.compare_eq_eq] at h ⊢; omega
      · rw [Nat.compare_eq_gt] at h ⊢; omega

namespace UI

theorem cmpRev_spec {w : Nat} : ∀ (n : Nat) (r1 r2 : List Nat), WF w n r1 → WF w n r2 →
    cmpRev r1 r2 = compare (U w r1.reverse) (U w r2.reverse) := by
  intro n
  induction n with
  | zero =>
    intro r1 r2 h1 h2
    have := h1.1; simp at this; subst this
    have := h2.1; simp at this; subst this
    simp [cmpRev]
  | succ n ih =>
    intro r1 r2 h1 h2
    match r1, r2, h1, h2 with
    | t :: r1, s :: r2, h1, h2 =>
      rw [WF_cons] at h1 h2
      have e1 := Cmp.WF_reverse h1.2
      have e2 := Cmp.WF_reverse h2.2
      simp only [cmpRev, List.reverse_cons]
      rw [Cmp.U_snoc' e1, Cmp.U_snoc' e2, Cmp.compare_snoc (U_lt e1) (U_lt e2), ih r1 r2 h1.2 h2.2]
    | [], _, h1, _ => exact absurd h1.1 (by simp)
    | _ :: _, [], _, h2 => exact absurd h2.1 (by simp)

/-- C07: `BUint::cmp` is the comparison of the denoted naturals. -/
theorem cmp_spec {w n : Nat} {a b : List Nat} (ha : WF w n a) (hb : WF w n b) :
    cmp a b = compare (U w a) (U w b) := by
  unfold cmp
  rw [cmpRev_spec n _ _ (Cmp.WF_reverse ha) (Cmp.WF_reverse hb)]
  simp

theorem cmp_snoc (x y : List Nat) (t s : Nat) :
    cmp (x ++ [t]) (y ++ [s]) = if t > s then .gt else if t < s then .lt else cmp x y := by
  unfold cmp; simp [cmpRev]

/-- `BUint::eq` (early-exit scan) decides equality of the digit arrays. -/
theorem eq_iff : ∀ (a b : List Nat), a.length = b.length → (eq a b = true ↔ a = b)
  | [], [], _ => by simp [eq]
  | [], _ :: _, h => by simp at h
  | _ :: _, [], h => by simp at h
  | a :: as, b :: bs, h => by
    have ih := eq_iff as bs (by simpa using h)
    unfold eq
    by_cases hab : a = b
    · subst hab; simp [ih]
    · simp [hab]

theorem eq_iff_U {w n : Nat} {a b : List Nat} (ha : WF w n a) (hb : WF w n b) :
    eq a b = true ↔ U w a = U w b := by
  rw [eq_iff a b (by rw [ha.1, hb.1])]
  exact ⟨fun h => by rw [h], U_injective ha hb⟩

end UI

/-! ### signed values -/

/-- the two's-complement value splits at the top digit: low digits unsigned, top digit signed -/
theorem Cmp.S_snoc {w n t : Nat} {x : List Nat} (hw : 1 ≤ w) (hx : WF w n x) (ht : t < B w) :
    S w (x ++ [t]) = (U w x : Int) + (M w n : Int) * toInt (B w) t := by
  unfold S
  have hlen : (x ++ [t]).length = n + 1 := by simp [hx.1]
  rw [hlen, Cmp.U_snoc' hx, M_succ]
  have hu := U_lt hx
  have hB := B_even hw
  have hp := M_pos w n
  generalize M w n = p at *; generalize U w x = u at *; generalize B w = b at *
  generalize b / 2 = k at hB; subst hB
  unfold toInt
  by_cases h : 2 * t < 2 * k
  · have h' : 2 * (u + p * t) < 2 * k * p := by
      have : p * (t + 1) ≤ p * k := Nat.mul_le_mul_left _ (by omega)
      rw [Nat.mul_add] at this
      have e : 2 * k * p = 2 * (p * k) := by ring
      omega
    simp only [h, h', if_true]; push_cast; ring
  · have h' : ¬ 2 * (u + p * t) < 2 * k * p := by
      have : p * k ≤ p * t := Nat.mul_le_mul_left _ (by omega)
      have e : 2 * k * p = 2 * (p * k) := by ring
      omega
    simp only [h, h', if_false]; push_cast; ring

theorem Cmp.S_injective {w n : Nat} {x y : List Nat} (hx : WF w n x) (hy : WF w n y)
    (h : S w x = S w y) : x = y := by
  apply U_injective hx hy
  have h1 := S_emod hx
  have h2 := S_emod hy
  rw [h] at h1
  have : (U w x : Int) = U w y := by rw [← h1, ← h2]
  exact_mod_cast this

theorem Cmp.toInt_injective {m a b : Nat} (ha : a < m) (hb : b < m) (h : toInt m a = toInt m b) :
    a = b := by
  unfold toInt at h; split_ifs at h <;> omega

namespace II

/-- C07: `BInt::cmp` is the comparison of the denoted (two's-complement) integers. -/
theorem cmp_spec {w n : Nat} (hw : 1 ≤ w) (hn : 1 ≤ n) {a b : List Nat}
    (ha : WF w n a) (hb : WF w n b) : cmp w a b = compare (S w a) (S w b) := by
  obtain ⟨n, rfl⟩ := Nat.exists_eq_add_of_le' hn
  obtain ⟨x, t, rfl, hx, ht⟩ := Cmp.WF_snoc ha
  obtain ⟨y, s, rfl, hy, hs⟩ := Cmp.WF_snoc hb
  unfold cmp
  simp only [Cmp.topDigit_snoc]
  rw [Cmp.S_snoc hw hx ht, Cmp.S_snoc hw hy hs]
  have hux := U_lt hx
  have huy := U_lt hy
  have hp := M_pos w n
  by_cases h1 : toInt (B w) t = toInt (B w) s
  · have := Cmp.toInt_injective ht hs h1
    subst this
    simp only [if_true]
    rw [UI.cmp_spec (Cmp.WF_append_singleton.mpr ⟨hx, ht⟩) (Cmp.WF_append_singleton.mpr ⟨hy, ht⟩),
      Cmp.U_snoc' hx, Cmp.U_snoc' hy]
    generalize toInt (B w) t = z
    generalize U w x = u1 at *; generalize U w y = u2 at *; generalize M w n = p at *
    rcases h : compare (u1 + p * t) (u2 + p * t) with _ | _ | _
    · rw [Nat.compare_eq_lt] at h; symm; rw [Int.compare_eq_lt]; omega
    · rw [Nat.compare_eq_eq] at h; symm; rw [Int.compare_eq_eq]; omega
    · rw [Nat.compare_eq_gt] at h; symm; rw [Int.compare_eq_gt]; omega
  · simp only [h1, if_false]
    generalize toInt (B w) t = z1 at *
    generalize toInt (B w) s = z2 at *
    generalize U w x = u1 at *; generalize U w y = u2 at *; generalize M w n = p at *
    by_cases h2 : z1 > z2
    · simp only [h2, if_true]; symm; rw [Int.compare_eq_gt]
      have : (p : Int) * (z2 + 1) ≤ p * z1 := Int.mul_le_mul_of_nonneg_left (by omega) (by omega)
      rw [Int.mul_add] at this; omega
    · simp only [h2, if_false]; symm; rw [Int.compare_eq_lt]
      have : (p : Int) * (z1 + 1) ≤ p * z2 := Int.mul_le_mul_of_nonneg_left (by omega) (by omega)
      rw [Int.mul_add] at this; omega

theorem eq_iff_S {w n : Nat} {a b : List Nat} (ha : WF w n a) (hb : WF w n b) :
    eq a b = true ↔ S w a = S w b := by
  unfold eq
  rw [UI.eq_iff a b (by rw [ha.1, hb.1])]
  exact ⟨fun h => by rw [h], Cmp.S_injective ha hb⟩

end II

/-! ### the `int/cmp.rs` family over an abstract `cmp` that is the comparison of values in a
    linear order (instantiated with `U` / `Nat` and `S` / `Int`) -/
namespace CmpImpl
variable {α : Type} [LinearOrder α] {cmp : List Nat → List Nat → Ordering} {v : List Nat → α}

theorem lt_iff (hc : ∀ a b, cmp a b = compare (v a) (v b)) (a b : List Nat) :
    lt cmp a b = true ↔ v a < v b := by
  unfold lt; rw [hc, ← compare_lt_iff_lt]; cases compare (v a) (v b) <;> simp

theorem gt_iff (hc : ∀ a b, cmp a b = compare (v a) (v b)) (a b : List Nat) :
    gt cmp a b = true ↔ v b < v a := by
  unfold gt; rw [hc, ← compare_gt_iff_gt]; cases compare (v a) (v b) <;> simp

theorem le_iff (hc : ∀ a b, cmp a b = compare (v a) (v b)) (a b : List Nat) :
    le cmp a b = true ↔ v a ≤ v b := by
  unfold le; rw [hc, ← not_lt, ← compare_gt_iff_gt]; cases compare (v a) (v b) <;> simp

theorem ge_iff (hc : ∀ a b, cmp a b = compare (v a) (v b)) (a b : List Nat) :
    ge cmp a b = true ↔ v b ≤ v a := by
  unfold ge; rw [hc, ← not_lt, ← compare_lt_iff_lt]; cases compare (v a) (v b) <;> simp

theorem max_eq (hc : ∀ a b, cmp a b = compare (v a) (v b)) (a b : List Nat) :
    max cmp a b = if v a ≤ v b then b else a := by
  unfold max; rw [hc]
  rcases h : compare (v a) (v b) with _ | _ | _
  · rw [compare_lt_iff_lt] at h; simp [le_of_lt h]
  · rw [compare_eq_iff_eq] at h; simp [h]
  · rw [compare_gt_iff_gt] at h; simp [not_le.mpr h]

theorem min_eq (hc : ∀ a b, cmp a b = compare (v a) (v b)) (a b : List Nat) :
    min cmp a b = if v a ≤ v b then a else b := by
  unfold min; rw [hc]
  rcases h : compare (v a) (v b) with _ | _ | _
  · rw [compare_lt_iff_lt] at h; simp [le_of_lt h]
  · rw [compare_eq_iff_eq] at h; simp [h]
  · rw [compare_gt_iff_gt] at h; simp [not_le.mpr h]

theorem v_max (hc : ∀ a b, cmp a b = compare (v a) (v b)) (a b : List Nat) :
    v (max cmp a b) = Max.max (v a) (v b) := by
  rw [max_eq hc]; split
  · rw [max_eq_right ‹_›]
  · rw [max_eq_left (le_of_lt (not_le.mp ‹_›))]

theorem v_min (hc : ∀ a b, cmp a b = compare (v a) (v b)) (a b : List Nat) :
    v (min cmp a b) = Min.min (v a) (v b) := by
  rw [min_eq hc]; split
  · rw [min_eq_left ‹_›]
  · rw [min_eq_right (le_of_lt (not_le.mp ‹_›))]

/-- `clamp` panics exactly when `min > max` as values; otherwise it returns `mn`, `mx` or `a`
    according to the position of the value of `a`. -/
theorem clamp_eq (hc : ∀ a b, cmp a b = compare (v a) (v b)) (a mn mx : List Nat) :
    clamp cmp a mn mx =
      if v mx < v mn then .panic
      else if v a < v mn then .ok mn else if v mx < v a then .ok mx else .ok a := by
  unfold clamp
  have hle := le_iff hc mn mx
  by_cases h : v mx < v mn
  · have : le cmp mn mx = false := by
      cases hh : le cmp mn mx
      · rfl
      · exact absurd (hle.mp hh) (not_le.mpr h)
    simp [this, h]
  · have : le cmp mn mx = true := hle.mpr (not_lt.mp h)
    simp only [this, h, Bool.not_true, Bool.false_eq_true, if_false]
    have e1 : (cmp a mn == Ordering.lt) = decide (v a < v mn) := by
      rw [hc]
      rcases h : compare (v a) (v mn) with _ | _ | _
      · rw [compare_lt_iff_lt] at h; simp [h]
      · rw [compare_eq_iff_eq] at h; simp [h]
      · rw [compare_gt_iff_gt] at h; simp [not_lt.mpr (le_of_lt h)]
    have e2 : (cmp a mx == Ordering.gt) = decide (v mx < v a) := by
      rw [hc]
      rcases h : compare (v a) (v mx) with _ | _ | _
      · rw [compare_lt_iff_lt] at h; simp [not_lt.mpr (le_of_lt h)]
      · rw [compare_eq_iff_eq] at h; simp [h]
      · rw [compare_gt_iff_gt] at h; simp [h]
    rw [e1, e2]; simp

/-- value-level reading of `clamp` for `v mn ≤ v mx`: the mathematical clamp `max mn (min mx a)` -/
theorem v_clamp (hc : ∀ a b, cmp a b = compare (v a) (v b)) (a mn mx : List Nat)
    (h : v mn ≤ v mx) :
    ∃ r, clamp cmp a mn mx = .ok r ∧ v r = Max.max (v mn) (Min.min (v mx) (v a)) := by
  rw [clamp_eq hc, if_neg (not_lt.mpr h)]
  by_cases h1 : v a < v mn
  · refine ⟨mn, by simp [h1], ?_⟩
    rw [min_eq_right (le_trans (le_of_lt h1) h), max_eq_left (le_of_lt h1)]
  · by_cases h2 : v mx < v a
    · refine ⟨mx, by simp [h1, h2], ?_⟩
      rw [min_eq_left (le_of_lt h2), max_eq_right h]
    · refine ⟨a, by simp [h1, h2], ?_⟩
      rw [min_eq_right (not_lt.mp h2), max_eq_right (not_lt.mp h1)]

end CmpImpl

/-! ### sign predicates -/

theorem Cmp.isNegative_snoc {w n t : Nat} {x : List Nat} (hw : 1 ≤ w) (hx : WF w n x) (ht : t < B w) :
    isNegative w (x ++ [t]) = decide (S w (x ++ [t]) < 0) := by
  rw [Cmp.S_snoc hw hx ht]
  unfold isNegative Prim.isNeg
  rw [Cmp.topDigit_snoc]
  have hu := U_lt hx
  have hp := M_pos w n
  generalize M w n = p at *; generalize U w x = u at *; generalize B w = b at *
  unfold toInt
  congr 1; apply propext
  constructor
  · intro h
    have h' : ¬ 2 * t < b := by omega
    simp only [h', if_false]
    have : (p : Int) * ((t : Int) - b) ≤ p * (-1) := Int.mul_le_mul_of_nonneg_left (by omega) (by omega)
    omega
  · intro h
    by_contra hc
    have h' : 2 * t < b := by omega
    simp only [h', if_true] at h
    have : (0 : Int) ≤ p * t := Int.mul_nonneg (by omega) (by omega)
    omega

theorem Cmp.isZero_iff_U {w : Nat} : ∀ (x : List Nat), isZero x = true ↔ U w x = 0
  | [] => by simp [isZero]
  | d :: ds => by
    have ih := Cmp.isZero_iff_U (w := w) ds
    have hB := B_pos w
    unfold isZero
    by_cases hd : d = 0
    · subst hd; simp [ih]; omega
    · simp [hd]

theorem Cmp.S_eq_zero_iff {w n : Nat} {a : List Nat} (ha : WF w n a) : S w a = 0 ↔ U w a = 0 := by
  unfold S; rw [ha.1]
  have := U_lt ha
  unfold toInt; split <;> omega

theorem Cmp.isZero_iff_S {w n : Nat} {a : List Nat} (ha : WF w n a) : isZero a = true ↔ S w a = 0 := by
  rw [Cmp.isZero_iff_U (w := w), Cmp.S_eq_zero_iff ha]

namespace II

/-- C07: `is_positive` ⇔ the denoted integer is `> 0` (zero is not positive). -/
theorem isPositive_iff {w n : Nat} (hw : 1 ≤ w) (hn : 1 ≤ n) {a : List Nat} (ha : WF w n a) :
    isPositive w a = true ↔ 0 < S w a := by
  obtain ⟨n, rfl⟩ := Nat.exists_eq_add_of_le' hn
  obtain ⟨x, t, rfl, hx, ht⟩ := Cmp.WF_snoc ha
  unfold isPositive Prim.isPos
  simp only [Cmp.topDigit_snoc]
  have hz := Cmp.isZero_iff_U (w := w) (x ++ [t])
  rw [Cmp.S_snoc hw hx ht]
  rw [Cmp.U_snoc' hx] at hz
  have hu := U_lt hx
  have hp := M_pos w n
  have hB := B_even hw
  generalize isZero (x ++ [t]) = z at *
  generalize M w n = p at *; generalize U w x = u at *; generalize B w = b at *
  unfold toInt
  by_cases h0 : t = 0
  · subst h0
    have : 2 * 0 < b := by omega
    simp only [this, if_true]
    cases z <;> simp at hz ⊢ <;> omega
  · have hpt : p * 1 ≤ p * t := Nat.mul_le_mul_left _ (by omega)
    by_cases h1 : 2 * t < b
    · simp only [h1, if_true]
      have : (0 : Int) < p * t := by exact_mod_cast (by omega : 0 < p * t)
      simp [h0]; omega
    · simp only [h1, if_false]
      have : (p : Int) * ((t : Int) - b) ≤ p * (-1) := Int.mul_le_mul_of_nonneg_left (by omega) (by omega)
      simp [h0]; omega

end II

theorem Cmp.S_of_U_small {w n : Nat} {x : List Nat} (hx : WF w n x) (h : 2 * U w x < M w n) :
    S w x = U w x := by
  unfold S; rw [hx.1]; exact toInt_of_lt h

namespace II
/-- C07: `signum` returns the pattern of `-1`, `0`, `1` according to the sign of the value. -/
theorem signum_spec {w n : Nat} (hw : 2 ≤ w) (hn : 1 ≤ n) {a : List Nat} (ha : WF w n a) :
    WF w n (signum w a) ∧
    S w (signum w a) = if S w a < 0 then -1 else if S w a = 0 then 0 else 1 := by
  have hneg := isNegative_iff' (show 1 ≤ w by omega) hn ha
  have hz := Cmp.isZero_iff_S (w := w) ha
  have hM : 4 ≤ M w n := by
    obtain ⟨k, rfl⟩ := Nat.exists_eq_add_of_le' hn
    rw [M_succ]
    have := M_pos w k; have := B_half_ge_two hw
    have : B w * 1 ≤ B w * M w k := Nat.mul_le_mul_left _ (by omega)
    omega
  unfold signum
  rw [ha.1]
  by_cases h1 : S w a < 0
  · rw [if_pos (hneg.mpr h1), if_pos h1]
    refine ⟨WF_allOnes w n, ?_⟩
    unfold S negOne
    rw [(WF_allOnes w n).1, U_allOnes]
    unfold toInt
    have : ¬ 2 * (M w n - 1) < M w n := by omega
    rw [if_neg this]; omega
  · have : ¬ isNegative w a = true := fun h => h1 (hneg.mp h)
    rw [if_neg this, if_neg h1]
    by_cases h2 : S w a = 0
    · rw [if_pos (hz.mpr h2), if_pos h2]
      refine ⟨WF_zero w n, ?_⟩
      rw [Cmp.S_of_U_small (WF_zero w n) (by rw [U_zero]; omega), U_zero]; rfl
    · have : ¬ isZero a = true := fun h => h2 (hz.mp h)
      rw [if_neg this, if_neg h2]
      refine ⟨WF_one (by omega) hn, ?_⟩
      rw [Cmp.S_of_U_small (WF_one (by omega) hn) (by rw [U_one hn]; omega), U_one hn]; rfl
end II

/-! ### trait glue -/
namespace Traits
theorem opEq_iff (a b : List Nat) : opEq a b = true ↔ a = b := by simp [opEq]
theorem opNe_iff (a b : List Nat) : opNe a b = true ↔ a ≠ b := by simp [opNe, opEq]
theorem opLt_eq (cmp : List Nat → List Nat → Ordering) (a b : List Nat) :
    opLt cmp a b = CmpImpl.lt cmp a b := by
  unfold opLt partialCmp CmpImpl.lt; cases cmp a b <;> rfl
theorem opLe_eq (cmp : List Nat → List Nat → Ordering) (a b : List Nat) :
    opLe cmp a b = CmpImpl.le cmp a b := by
  unfold opLe partialCmp CmpImpl.le; cases cmp a b <;> rfl
theorem opGt_eq (cmp : List Nat → List Nat → Ordering) (a b : List Nat) :
    opGt cmp a b = CmpImpl.gt cmp a b := by
  unfold opGt partialCmp CmpImpl.gt; cases cmp a b <;> rfl
theorem opGe_eq (cmp : List Nat → List Nat → Ordering) (a b : List Nat) :
    opGe cmp a b = CmpImpl.ge cmp a b := by
  unfold opGe partialCmp CmpImpl.ge; cases cmp a b <;> rfl
end Traits

end Bnum
